-- root of the FpVerif library: every property module (which pull in models, specs, lemmas, Gen)
import FpVerif.Properties.C01
import FpVerif.Properties.C04
import FpVerif.Properties.C03
import FpVerif.Properties.C05
import FpVerif.Properties.C09
import FpVerif.Properties.C15
import FpVerif.Properties.C02
import FpVerif.Properties.C16
import FpVerif.Properties.C10
import FpVerif.Properties.C11
import FpVerif.Properties.C17
import FpVerif.Properties.C06
import FpVerif.Properties.C07
import FpVerif.Properties.C14
import FpVerif.Properties.C12
import FpVerif.Properties.C20
import FpVerif.Properties.C18
