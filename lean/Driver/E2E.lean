import Driver.Parse
import Driver.Proxy
import FpVerif.Spec.JA3
import FpVerif.Spec.JA4
import FpVerif.Spec.H2Fp
/-!
`e2e <scenario> @@ <what the harness observed>`: the driver re-derives, from the SPECIFICATIONS, what the
backend must have received for every request of the scenario, given the ClientHello bytes the client
actually sent (observed by the client-side connection recorder) and the frames it sent.
-/
namespace Fp.Driver
open Fp

def splitAt2 (toks : List String) : List String × List String :=
  let i := toks.findIdx? (· == "@@")
  match i with
  | some k => (toks.take k, toks.drop (k + 1))
  | none => (toks, [])

structure E2EReq where
  method : String
  path : Bytes
  host : Bytes
  ua : Option Bytes
  order : String
  extra : List (Bytes × Bytes)

def parseE2EReq (s : String) : Option E2EReq := do
  match s.splitOn "." with
  | [m, p, h, u, o, ex] =>
    let ua ← if u == "n" then some none else (unhex u).map some
    let extra ← (if ex == "-" then [] else ex.splitOn "|").mapM fun e =>
      match e.splitOn ":" with
      | [k, v] => do pure (← unhex k, ← unhex v)
      | _ => none
    pure { method := m, path := ← unhex p, host := ← unhex h, ua := ua, order := o, extra := extra }
  | _ => none

def orderName (c : Char) : Option Bytes :=
  match c with
  | 'm' => some (strBytes ":method") | 's' => some (strBytes ":scheme") | 'h' => some (strBytes ":scheme")
  | 'p' => some (strBytes ":path")
  | 'a' => some (strBytes ":authority") | _ => none

/-- frame token of an e2e script -> frame as processFrame sees it; `H` carries the request index -/
def parseE2EFrame (reqs : Array E2EReq) (tok : String) : Option (Fp.H2Fp.Frame × Option Nat) := do
  if tok.startsWith "H" then
    match ((tok.drop 2).toString).splitOn "." with
    | [id, _es, pr, ri, _cont] =>
      let id ← id.toNat?
      let ri ← ri.toNat?
      let r ← reqs[ri]?
      let prio ← if pr = "-" then some none else
        match pr.splitOn "_" with
        | [d, x, w] => do pure (some { stream := id, dep := ← d.toNat?, excl := x = "1", weight := ← w.toNat? : Fp.H2Fp.Prio })
        | _ => none
      let names ← r.order.toList.mapM orderName
      pure (.headers id prio (names ++ [strBytes "x-rest"]), some ri)
    | _ => none
  else do
    let f ← parseFrameTokE2E tok
    pure (f, none)
where
  parseFrameTokE2E (tok : String) : Option Fp.H2Fp.Frame := do
    let kind := (tok.take 1).toString
    let rest := (tok.drop 2).toString
    let p := rest.splitOn "."
    match kind with
    | "S" =>
      let ss ← (dashList rest ";").mapM fun e => match e.splitOn "." with
        | [a, b] => do pure (← a.toNat?, ← b.toNat?)
        | _ => none
      some (.settings false ss)
    | "A" => some (.settings true [])
    | "W" => match p with
      | [s, i] => some (.windowUpdate (← s.toNat?) (← i.toNat?))
      | _ => none
    | "P" => match p with
      | [s, d, x, w] => some (.priority { stream := ← s.toNat?, dep := ← d.toNat?, excl := x = "1", weight := ← w.toNat? })
      | _ => none
    | "G" => some .other
    | _ => none

def hexJoin (vs : List Bytes) : String := if vs.isEmpty then "-" else "|".intercalate (vs.map toHex)

def e2eExpected (toks : List String) : Option String := do
  let (op, obs) := splitAt2 toks
  if (kv obs "fail").isSome then return " ".intercalate obs   -- nothing to predict: compared verbatim
  let alpn ← kv obs "alpn"
  let peer ← kv obs "peer"
  let helloHex ← kv obs "hello"
  let tokS ← kv obs "tok"
  let probe := (← kv op "probe") == "1"
  let ph := (← kv op "ph") == "1"
  let mp ← kv op "maxprio"
  let max ← if mp == "unset" then some (2 ^ 64 - 1) else mp.toNat?
  let reqs ← ((← kv op "reqs").splitOn ";").mapM parseE2EReq
  let reqA := reqs.toArray
  let hello ← parseHello (tokS.splitOn "~")
  let helloBytes ← unhex helloHex
  let serOk := Fp.Tls.serialize hello == helloBytes
  -- fingerprints of the hello the client actually sent
  let ja3 := "md5of:" ++ toHex (Fp.Spec.JA3.ja3Spec hello)
  let ja4 := toHex (Fp.Spec.JA4.partA hello) ++ "/sha12of:" ++ toHex (Fp.Spec.JA4.partBInput hello) ++
             "/sha12of:" ++ toHex (Fp.Spec.JA4.partCInput hello)
  -- HTTP/2 fingerprint per request: spec of the frames up to and including the request's HEADERS
  let frameToks := dashList (← kv op "frames") ","
  -- (a handler runs concurrently with the arrival of later frames: every instant from the request's own
  -- HEADERS on is admissible, so the prediction is the SET of fpSpec over those prefixes)
  let mut hist : Array Fp.H2Fp.Frame := #[]
  let mut h2of : Array (List String) := Array.replicate reqs.length []
  let mut started : List Nat := []
  if alpn == "h2" then
    for t in frameToks do
      let (f, ri) ← parseE2EFrame reqA t
      hist := hist.push f
      match ri with
      | some i => started := i :: started
      | none => pure ()
      let v := toHex (Fp.Spec.H2Fp.fpSpec hist.toList max)
      for i in started do
        if !(h2of[i]!).contains v then h2of := h2of.set! i (h2of[i]! ++ [v])
  let mut out : Array String := #[s!"alpn={alpn}", s!"peer={peer}"]
  let mut idx := 0
  for r in reqs do
    let isProbe := match r.ua with
      | some u => u.take 11 == strBytes "kube-probe/"
      | none => false
    if probe && isProbe then
      out := out.push s!"R{idx}=local;st=200;body={toHex (strBytes "OK")}"
    else
      let clientXFF := (r.extra.filter fun e => Fp.Proxy.canonKey e.1 == Fp.Proxy.XFF).map (·.2)
      let xff := Fp.Spec.Proxy.specXFF clientXFF (bytesOfStr peer)
      let host := if ph then toHex r.host else "backend"
      out := out.push (s!"R{idx}=fwd;st=200;ja3={ja3};ja4={ja4};h2={if (h2of[idx]!).isEmpty then "-" else "any:" ++ ",".intercalate h2of[idx]!};xff={toHex xff};" ++
        s!"xfp={toHex (strBytes "https")};xfh={toHex r.host};host={host};fwdh=-")
    idx := idx + 1
  out := out.push s!"hello={helloHex}"
  out := out.push (if serOk then s!"tok={tokS}" else "tok=SERIALIZE-MISMATCH")
  pure (" ".intercalate out.toList)

end Fp.Driver

namespace Fp.Driver

def splitGroups (toks : List String) : List (List String) :=
  let (acc, cur) := toks.foldl (fun (acc, cur) t => if t == "||" then (acc ++ [cur], []) else (acc, cur ++ [t])) ([], [])
  acc ++ [cur]

/-- `e2emulti <head> || <client> || ... @@ <observed> || ...`: every client is predicted independently from
its own scenario and its own observed ClientHello — exactly what attribution (C06) demands. -/
def e2eMultiExpected (toks : List String) : Option String := do
  let (op, obs) := splitAt2 toks
  match splitGroups op with
  | head :: clients =>
    let obsG := splitGroups obs
    if obsG.length != clients.length then none else
    let outs ← (clients.zip obsG).mapM fun (cl, ob) => e2eExpected (head ++ cl ++ ["@@"] ++ ob)
    pure (" || ".intercalate outs)
  | [] => none

end Fp.Driver
