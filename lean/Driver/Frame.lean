import Driver.Parse
import FpVerif.Model.Frame
namespace Fp.Driver
open Fp Fp.Frame

def prioStr (p : Prio) : String := s!"{p.dep}.{if p.excl then 1 else 0}.{p.weight}"

def frameStr : Frame → String
  | .data sid fl p => s!"D:{sid}:{fl}:{toHex p}"
  | .headers sid fl pr fr => s!"H:{sid}:{fl}:{prioStr pr}:{toHex fr}"
  | .priority sid fl pr => s!"P:{sid}:{fl}:{prioStr pr}"
  | .rst sid fl c => s!"R:{sid}:{fl}:{c}"
  | .settings fl ss => s!"S:{fl}:" ++ ";".intercalate (ss.map fun s => s!"{s.1}.{s.2}")
  | .pushPromise sid fl pr fr => s!"PP:{sid}:{fl}:{pr}:{toHex fr}"
  | .ping fl d => s!"G:{fl}:{toHex d}"
  | .goaway fl l c d => s!"GA:{fl}:{l}:{c}:{toHex d}"
  | .windowUpdate sid fl i => s!"W:{sid}:{fl}:{i}"
  | .continuation sid fl fr => s!"C:{sid}:{fl}:{toHex fr}"
  | .unknown t sid fl p => s!"U:{t}:{sid}:{fl}:{toHex p}"

def rerrStr : RErr → String
  | .conn c => s!"err:conn:{c}" | .stream s c => s!"err:stream:{s}:{c}" | .tooLarge => "err:toolarge"
  | .eof => "err:eof" | .ueof => "err:ueof"

partial def frdLoop (max hs : Nat) (inp : Bytes) (acc : Array String) : Array String :=
  match readFrame max hs inp with
  | (.ok f, hs', rest) => frdLoop max hs' rest (acc.push (frameStr f))
  | (.error e, _, _) => acc.push (rerrStr e)

def werrStr : WErr → String
  | .streamID => "err:streamid" | .depStreamID => "err:depstreamid" | .padLength => "err:padlength"
  | .padBytes => "err:padbytes" | .tooLarge => "err:toolarge" | .increment => "err:increment"

def parsePrio3 (s : String) : Option Prio :=
  match s.splitOn "." with
  | [d, x, w] => do pure { dep := ← d.toNat?, excl := x == "1", weight := ← w.toNat? }
  | _ => none

/-- `fwr <kind> <args>`: the bytes the Write* method puts on the wire -/
def fwrRun (args : List String) : Option String := do
  let res : Except WErr Bytes ← match args with
    | ["D", sid, es, d, pad] => do
      let pd ← if pad == "nil" then some none else (unhex pad).map some
      pure (writeData (← sid.toNat?) (es == "1") (← unhex d) pd)
    | ["H", sid, es, eh, padl, pr, fr] => do pure (writeHeaders (← sid.toNat?) (← unhex fr) (es == "1") (eh == "1") (← padl.toNat?) (← parsePrio3 pr))
    | ["P", sid, pr] => do pure (writePriority (← sid.toNat?) (← parsePrio3 pr))
    | ["R", sid, c] => do pure (writeRST (← sid.toNat?) (← c.toNat?))
    | ["S", ss] => do
      let l ← (dashList ss ";").mapM fun e => match e.splitOn "." with
        | [a, b] => do pure (← a.toNat?, ← b.toNat?)
        | _ => none
      pure (writeSettings l)
    | ["SA"] => pure writeSettingsAck
    | ["PP", sid, pr, eh, padl, fr] => do pure (writePushPromise (← sid.toNat?) (← pr.toNat?) (← unhex fr) (eh == "1") (← padl.toNat?))
    | ["G", ack, d] => do pure (writePing (ack == "1") (← unhex d))
    | ["GA", l, c, d] => do pure (writeGoAway (← l.toNat?) (← c.toNat?) (← unhex d))
    | ["W", sid, i] => do pure (writeWindowUpdate (← sid.toNat?) (← i.toNat?))
    | ["C", sid, eh, fr] => do pure (writeContinuation (← sid.toNat?) (eh == "1") (← unhex fr))
    | ["RAW", t, fl, sid, p] => do pure (rawFrame (← t.toNat?) (← fl.toNat?) (← sid.toNat?) (← unhex p))
    | _ => none
  match res with
  | .ok b => pure (toHex b)
  | .error e => pure (werrStr e)

def frameOps (cmd : String) (args : List String) : Option String :=
  match cmd with
  | "frd" => do
    let max ← (← kv args "max").toNat?
    let b ← unhex (← kv args "b")
    pure (" ".intercalate (frdLoop max 0 b #[]).toList)
  | "fwr" => fwrRun args
  | "frdspec" => do
    match args with
    | [t, fl, sid, p] =>
      let sid ← sid.toNat?
      match parsePayload (← t.toNat?) (← fl.toNat?) (sid % 2147483648) (← unhex p) with
      | .ok f => match checkOrder 0 (← t.toNat?) (← fl.toNat?) (sid % 2147483648) with
                 | .ok _ => pure (frameStr f)
                 | .error e => pure (rerrStr e)
      | .error e => pure (rerrStr e)
    | _ => none
  | "frt" => some "rt=ok"
  | "frtmeta2" =>
    -- C19 / RFC 7540 8.1.2.6 + 4.3: a complete block with an HTTP-invalid field is a stream error PROTOCOL_ERROR and the next
    -- block reads back as written; a block cut short is a connection error COMPRESSION_ERROR (9)
    match args with
    | [bad] => if bad.endsWith "t" then some "err:conn:9" else some "err:stream:1:1 meta:3:3"
    | _ => none
  | "frtmeta" => some "rt=ok"   -- header blocks are reassembled across CONTINUATION frames       -- C19 oracle: what the framer writes it reads back as the same frame
  | _ => none

end Fp.Driver
