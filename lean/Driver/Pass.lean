import Driver.Proxy
/-!
Driver command `pass` (C08): the SPECIFICATION of pass-through, computed with the request-rewrite model
(`Fp.Proxy.rewrite`) for the request direction and `removeHopByHop` for the response direction. Bodies: identity
(the digest of what was sent is what must arrive). Modelled standard-library contracts (recorded in DESIGN.md):
the HTTP/2 server joins several Cookie fields with "; " (RFC 7540 8.1.2.5); the outbound transport adds
Accept-Encoding: gzip unless the request has Accept-Encoding or Range or is a HEAD; httputil.ReverseProxy does not
forward request trailers (Request.Clone copies the announced keys before the body is read).
-/
namespace Fp.Driver
open Fp Fp.Proxy

def parseHdrList (s : String) : Option (List (Bytes × Bytes)) :=
  (dashList s "|").mapM fun e =>
    match e.splitOn ":" with
    | [k, v] => do pure (← unhex k, ← unhex v)
    | _ => none

def hexLt (a b : Bytes) : Bool := toHex a < toHex b

def insertByHex (e : Bytes) : List Bytes → List Bytes
  | [] => [e]
  | x :: r => if hexLt e x then e :: x :: r else x :: insertByHex e r

def sortByHex (l : List Bytes) : List Bytes := l.foldl (fun acc e => insertByHex e acc) []

def distinctCanon (l : List (Bytes × Bytes)) : List Bytes :=
  sortByHex (l.foldl (fun acc e => let K := canonKey e.1; if acc.contains K then acc else acc ++ [K]) [])

def renderNames (names : List Bytes) (h : Hdr) : String :=
  ",".intercalate (names.map fun K => toHex K ++ "=" ++ valsStr (get h K))

def passOne (proto : String) (ph : Bool) (tag : String) (rq rs : String) : Option String := do
  let p := rq.splitOn "."
  let q := rs.splitOn "."
  if p.length != 11 || q.length != 8 then none
  let method := p[0]!
  let path ← unhex p[1]!
  let query ← unhex p[2]!
  let host ← unhex p[3]!
  let hdrs ← parseHdrList p[4]!
  let bodyLen := p[5]!
  let trailers ← parseHdrList p[9]!
  let reqMd5 := p[10]!
  let status := q[0]!
  let rhdrs ← parseHdrList q[1]!
  let rbodyLen := q[2]!
  let rtrailers ← parseHdrList q[6]!
  let respMd5 := q[7]!
  -- the inbound header as the proxy's HTTP server presents it to the handler
  let inHdr0 := hdrs.foldl (fun h (k, v) => addLine h k v) []
  let inHdr1 := addLine inHdr0 (strBytes "X-Verif-Tag") (bytesOfStr tag)
  let inHdr2 := if has inHdr1 (strBytes "User-Agent") then inHdr1 else addLine inHdr1 (strBytes "User-Agent") (strBytes "verif-pass/1")
  let inHdr := if proto == "h2" then
      inHdr2.map fun e => if e.1 == strBytes "Cookie" && e.2.length > 1 then (e.1, [join (strBytes "; ") e.2]) else e
    else inHdr2
  let injs : List Inj := [
    { name := strBytes "X-JA3-Fingerprint", out := .value (strBytes "*") },
    { name := strBytes "X-JA4-Fingerprint", out := .value (strBytes "*") },
    { name := strBytes "X-HTTP2-Fingerprint", out := .value (if proto == "h2" then strBytes "*" else []) }]
  let cfg : Cfg := { toScheme := strBytes "http", toHost := strBytes "backend", toPath := [], toQuery := [],
                     preserveHost := ph, probe := false, injectors := injs }
  let i : InReq := { method := bytesOfStr method, path := path, query := query, host := host,
                     remoteAddr := strBytes "127.0.0.1:1", tls := true, hdr := inHdr }
  match serve cfg i with
  | .local .. => none
  | .forward o =>
    let uri := o.path ++ (if o.query.isEmpty then [] else [63] ++ o.query)
    let hostS := if o.host.isEmpty then "backend" else toHex o.host
    let names := distinctCanon hdrs
    let outKeys := (o.hdr.filter (fun e => !e.2.isEmpty)).map (·.1)
    let addsAE := !(has o.hdr (strBytes "Accept-Encoding") && (get o.hdr (strBytes "Accept-Encoding")).headD [] != []) &&
                  ((get o.hdr (strBytes "Range")).headD [] == []) && method != "HEAD"
    let extras0 := outKeys.filter fun K => !names.contains K && K != strBytes "Content-Length"
    let extras := sortByHex (if addsAE && !names.contains (strBytes "Accept-Encoding") then extras0 ++ [strBytes "Accept-Encoding"] else extras0)
    let tnames := distinctCanon trailers
    let reqS := s!"{String.ofList (o.method.map (fun b => Char.ofNat b.toNat))};{toHex uri};{hostS};H[{renderNames names o.hdr}];X[{",".intercalate (extras.map toHex)}];B{bodyLen}:{reqMd5};T[{renderNames tnames []}]"
    -- response direction
    let respHdr := rhdrs.foldl (fun h (k, v) => addLine h k v) []
    let outResp := removeHopByHop respHdr
    let rnames := distinctCanon rhdrs
    let rtr := rtrailers.foldl (fun h (k, v) => addLine h k v) []
    let respS := s!"{status};H[{renderNames rnames outResp}];B{rbodyLen}:{respMd5};T[{renderNames (distinctCanon rtrailers) rtr}]"
    some (reqS ++ "/" ++ respS)

def passExpected (toks : List String) : Option String := do
  let proto ← kv toks "proto"
  let ph := (← kv toks "ph") == "1"
  let reqs := (← kv toks "reqs").splitOn ";"
  let outs ← (List.range reqs.length).mapM fun j => do
    match (reqs[j]!).splitOn "/" with
    | [rq, rs] => do pure s!"Q{j}={← passOne proto ph s!"p{j}" rq rs}"
    | _ => none
  pure (" ".intercalate outs)

end Fp.Driver
