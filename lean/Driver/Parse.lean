import FpVerif.Model.Common
import FpVerif.Model.Tls
/-! Line-protocol helpers for the driver: hex, key=value tokens, structured hello tokens. -/
namespace Fp.Driver
open Fp Fp.Tls

def hexVal (c : Char) : Option Nat :=
  if '0' ≤ c && c ≤ '9' then some (c.toNat - 48)
  else if 'a' ≤ c && c ≤ 'f' then some (c.toNat - 87)
  else if 'A' ≤ c && c ≤ 'F' then some (c.toNat - 55)
  else none

partial def unhexAux : List Char → Bytes → Option Bytes
  | [], acc => some acc.reverse
  | a :: b :: r, acc => do
    let x ← hexVal a; let y ← hexVal b
    unhexAux r (UInt8.ofNat (x * 16 + y) :: acc)
  | _, _ => none

def unhex (s : String) : Option Bytes := if s = "-" then some [] else unhexAux s.toList []

def hexChars : Array Char := #['0','1','2','3','4','5','6','7','8','9','a','b','c','d','e','f']
def toHex (b : Bytes) : String :=
  if b.isEmpty then "-" else
  String.ofList (b.flatMap fun x => [hexChars[x.toNat / 16]!, hexChars[x.toNat % 16]!])

def bytesToU16s : Bytes → Option (List UInt16)
  | [] => some []
  | a :: b :: r => (bytesToU16s r).map (u16be a b :: ·)
  | _ => none

def unhexU16 (s : String) : Option UInt16 := do
  match ← unhex s with
  | [a, b] => some (u16be a b)
  | _ => none

/-- `k=v` lookup in a token list. -/
def kv (toks : List String) (k : String) : Option String :=
  toks.findSome? fun t => if t.startsWith (k ++ "=") then some (t.drop (k.length + 1)).toString else none

def dashList (v : String) (sep : String) : List String :=
  if v = "" || v = "-" then [] else v.splitOn sep

def splitOn (s : String) (sep : String) : List String := (s.splitOn sep)

def parseExt (t : String) : Option Ext := do
  match splitOn t "/" with
  | [kind, rest] =>
    match kind with
    | "sni" =>
      let names ← (if rest = "" then [] else splitOn rest ".").mapM fun n => do
        match ← unhex n with
        | ty :: name => some (ty, name)
        | [] => none
      some (.sni names)
    | "grp" => some (.groups (← bytesToU16s (← unhex rest)))
    | "sig" => some (.sigalgs (← bytesToU16s (← unhex rest)))
    | "ver" => some (.versions (← bytesToU16s (← unhex rest)))
    | "pts" => some (.points (← unhex rest))
    | "alpn" => some (.alpn (← (if rest = "" then [] else splitOn rest ".").mapM unhex))
    | "raw" =>
      match splitOn rest "." with
      | [ty, body] => some (.raw (← unhexU16 ty) (← unhex body))
      | _ => none
    | _ => none
  | _ => none

def parseHello (toks : List String) : Option Hello := do
  let rv ← unhexU16 (← kv toks "rv")
  let hv ← unhexU16 (← kv toks "hv")
  let rnd ← unhex (← kv toks "rnd")
  let sid ← unhex (← kv toks "sid")
  let cs ← bytesToU16s (← unhex (← kv toks "cs"))
  let cm ← unhex (← kv toks "cm")
  let ex ← kv toks "ex"
  let exts ← if ex = "none" then some none else
    if ex.startsWith "list:" then
      let body := (ex.drop 5).toString
      (if body = "" then some [] else (splitOn body ",").mapM parseExt).map some
    else none
  some { recVer := rv, hsVer := hv, random := rnd, sid := sid, ciphers := cs, comp := cm, exts := exts }

end Fp.Driver
