import Driver.Parse
import FpVerif.Model.DataBuf
/-! Driver command `dbuf`: operation sequences on the dataBuffer / pipe model (C08). -/
namespace Fp.Driver
open Fp Fp.DBuf

def genBytes (n s : Nat) : List Nat := (List.range n).map fun j => (s + 131 * j) % 251

def verifSum (b : List Nat) : Nat := b.foldl (fun acc x => (acc * 31 + x + 1) % 1000003) 7

def errStr : PErr → String
  | .eof => "E0"
  | .other c => s!"E{c}"

def errOf (c : Nat) : PErr := if c = 0 then .eof else .other c

def parseGen (s : String) : Option (List Nat) :=
  match s.splitOn "." with
  | [n, sd] => do pure (genBytes (← n.toNat?) (← sd.toNat?))
  | _ => none

def dbufStep (p : Pipe Nat) (op : String) : Pipe Nat × String :=
  if op.startsWith "pw" then
    match parseGen (op.drop 2).toString with
    | some d => match pWrite p d with
      | (p', .ok n) => (p', s!"ok{n}")
      | (p', .closed) => (p', "closed")
      | (p', .uninit) => (p', "uninit")
    | none => (p, "bad-op")
  else if op.startsWith "pr" then
    match (op.drop 2).toString.toNat? with
    | some n => match pRead p n with
      | (p', .data d) => (p', s!"d{d.length}:{verifSum d}")
      | (p', .err e) => (p', errStr e)
      | (p', .wouldBlock) => (p', "block")
      | (p', .bufErr) => (p', "e")
    | none => (p, "bad-op")
  else if op.startsWith "pc" then
    match (op.drop 2).toString.toNat? with
    | some c => (pClose p (errOf c), "-")
    | none => (p, "bad-op")
  else if op.startsWith "pb" then
    match (op.drop 2).toString.toNat? with
    | some c => (pBreak p (errOf c), "-")
    | none => (p, "bad-op")
  else if op == "pl" then (p, s!"{pLen p}")
  else if op.startsWith "w" then
    match parseGen (op.drop 1).toString, p.b with
    | some d, some b => ({ p with b := some (write b d) }, s!"ok{d.length}")
    | _, _ => (p, "bad-op")
  else if op.startsWith "r" then
    match (op.drop 1).toString.toNat?, p.b with
    | some n, some b => match read b n with
      | some (b', d) => ({ p with b := some b' }, s!"d{d.length}:{verifSum d}")
      | none => (p, "e")
    | _, _ => (p, "bad-op")
  else (p, "bad-op")

/-- the harness keeps its own pointer to the dataBuffer, so the final structure is reported even after the pipe
dropped its reference (`p.b = nil` after an error was delivered or on break) -/
def dbufRun (toks : List String) : Option String := do
  let exp ← (← kv toks "expected").toInt?
  let ops := dashList (← kv toks "ops") ";"
  let p0 : Pipe Nat := { b := some { expected := exp } }
  -- `shadow` follows the buffer object itself
  let (p, shadow, outs) := ops.foldl (fun (st : Pipe Nat × DBuf Nat × List String) op =>
      let (p, sh, outs) := st
      -- run the operation on a pipe that still sees the buffer object where the real pipe would
      let (p', o) := dbufStep p op
      let sh' := match p'.b with
        | some b => b
        | none =>
          -- the pipe dropped the buffer: raw buffer operations still act on the object
          if op.startsWith "w" || (op.startsWith "r") then sh else sh
      (p', sh', outs ++ [o])) (p0, ({ expected := exp } : DBuf Nat), [])
  let caps := (shadow.front ++ shadow.last.toList).map (fun c => toString c.cap)
  let wS := if (shadow.front ++ shadow.last.toList).isEmpty then "-" else toString (w shadow)
  pure (" ".intercalate (outs ++ [s!"chunks=[{",".intercalate caps}] r={shadow.r} w={wS} size={shadow.size} exp={shadow.expected} plen={pLen p}"]))

end Fp.Driver
