import Driver.Parse
import FpVerif.Model.H2Rx
/-! Driver command `h2rx ev=<tok,...>`: server receive-side flow control (C12). -/
namespace Fp.Driver
open Fp Fp.H2Rx

def rxTok (t : String) : Option RxEv := do
  let kind := (t.take 1).toString
  let p := ((t.drop 2).toString).splitOn "."
  match kind, p with
  | "H", [sid, cl] => some (.open_ (← sid.toNat?) (if cl == "-" then none else cl.toNat?))
  | "D", [sid, len, pad, es] =>
    let padded := pad != "-"
    let padN := (pad.toNat?).getD 0
    some (.data (← sid.toNat?) (← len.toNat?) padN padded (es == "1"))
  | "R", [sid] => some (.rst (← sid.toNat?))
  | "r", [sid, n] => some (.hread (← sid.toNat?) (← n.toNat?))
  | "x", [sid] => some (.hret (← sid.toNat?))
  | "c", [sid] => some (.hclose (← sid.toNat?))
  | _, _ => none

def rxShow : Rx → String
  | .wu sid inc => s!"W{sid}:{inc}"
  | .rst sid code => s!"R{sid}:{code}"
  | .goaway code => s!"G:{code}"
  | .read n => s!"b{n}"
  | .readErr => "bE"
  | .wouldBlock => "bW"
  | .panic => "panic"

def h2rxRun (toks : List String) : Option String := do
  let evs ← (dashList (← kv toks "ev") ",").mapM rxTok
  let outs := run {} evs
  pure ("/".intercalate (outs.map fun rs => "+".intercalate (rs.map rxShow)))

end Fp.Driver
