import Driver.Parse
import FpVerif.Spec.JA3
/-!
`fpdriver`: reads one operation per line on stdin, answers one line per operation on stdout with the
MODEL's (or the SPECIFICATION's) result. The definitions evaluated here are the ones the theorems in
FpVerif/Properties are about.
-/
open Fp Fp.Driver

def perrStr : Fp.JA3.PErr → String
  | .badLength => "err badLength" | .wrongType => "err wrongType" | .extBadLength => "err extBadLength"
  | .panic => "panic"

def handle (cmd : String) (args : List String) : String :=
  match cmd, args with
  | "ser", toks =>
    match parseHello toks with
    | some h => toHex (Fp.Tls.serialize h)
    | none => "bad-op"
  | "ja3", [h] =>
    match unhex h with
    | some rec =>
      match Fp.JA3.ja3Bare rec with
      | .ok b => "ok " ++ toHex b
      | .error e => perrStr e
    | none => "bad-op"
  | "ja3fp", [h] =>
    match unhex h with
    | some rec =>
      match Fp.JA3.ja3Bare rec with
      | .ok b => "ok md5of:" ++ toHex b      -- the checker applies MD5 (hash is a parameter of the theorems)
      | .error .panic => "panic"
      | .error _ => "err"
    | none => "bad-op"
  | "ja3spec", toks =>
    match parseHello toks with
    | some h => "ok " ++ toHex (Fp.Spec.JA3.ja3Spec h)
    | none => "bad-op"
  | _, _ => "bad-op"

partial def loop (hin : IO.FS.Stream) (hout : IO.FS.Stream) : IO Unit := do
  let line ← hin.getLine
  if line.isEmpty then return ()
  let line := (line.dropEndWhile (fun c => c == '\n' || c == '\r')).toString
  match line.splitOn " " with
  | cmd :: args => hout.putStrLn (handle cmd args)
  | [] => hout.putStrLn "bad-op"
  loop hin hout

def main : IO Unit := do
  let hin ← IO.getStdin
  let hout ← IO.getStdout
  loop hin hout
  hout.flush
