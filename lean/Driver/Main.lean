import Driver.Parse
import Driver.Proxy
import Driver.E2E
import Driver.Sched
import Driver.Prio
import Driver.Flow
import Driver.Hpack
import Driver.Frame
import Driver.H2SM
import Driver.Pass
import Driver.DBuf
import Driver.H2Rx
import Driver.H2Tx
import FpVerif.Spec.JA3
import FpVerif.Spec.Capture
import FpVerif.Spec.H2Fp
import FpVerif.Spec.JA4
import FpVerif.Model.Cert
import FpVerif.Model.H2Resp
/-!
`fpdriver`: reads one operation per line on stdin, answers one line per operation on stdout with the
MODEL's (or the SPECIFICATION's) result. The definitions evaluated here are the ones the theorems in
FpVerif/Properties are about.
-/
open Fp Fp.Driver

def perrStr : Fp.JA3.PErr → String
  | .badLength => "err badLength" | .wrongType => "err wrongType" | .extBadLength => "err extBadLength"
  | .panic => "panic"

/-- "hex+r<count>x<hh>+..." -/
def parseParts (s : String) : Option Bytes := do
  let mut out : Array UInt8 := #[]
  for p in s.splitOn "+" do
    if p = "" || p = "-" then continue
    if p.startsWith "r" then
      match (p.drop 1).toString.splitOn "x" with
      | [n, hh] =>
        let n ← n.toNat?
        match ← unhex hh with
        | [b] => out := out ++ Array.replicate n b
        | _ => none
      | _ => none
    else
      out := out ++ (← unhex p).toArray
  return out.toList

def capRes (s : Fp.Capture.St) : String :=
  match (Fp.Capture.getHello s).1 with
  | .ok b => s!"ok:{b.length}:md5of:{toHex b}"
  | .error .incomplete => "err:incomplete"
  | .error .notHandshake => "err:notHandshake"
  | .error .badVersion => "err:badVersion"

def capRun (stream : Bytes) (cuts : List String) : String := Id.run do
  let mut st : Fp.Capture.St := {}
  let mut rest := stream
  let mut last := capRes st
  let mut out := "0:" ++ last
  let mut i := 0
  for c in cuts do
    i := i + 1
    if c = "e" then
      st := Fp.Capture.read st [] false
    else if c.endsWith "E" then
      -- n bytes delivered together with an error: handed to the reader, not tee'd (Read only hijacks when err == nil)
      let n := (c.dropEnd 1).toString.toNat?.getD 0
      let ch := rest.take n
      rest := rest.drop n
      st := Fp.Capture.read st ch false
    else
      let n := c.toNat?.getD 0
      let ch := rest.take n
      rest := rest.drop n
      st := Fp.Capture.read st ch
    let r := capRes st
    if r != last then
      out := out ++ s!" {i}:{r}"
      last := r
  return out ++ " up=ok"

def capSpec (stream : Bytes) (cuts : List String) : String := Id.run do
  let mut rest := stream
  let mut delivered : Bytes := []
  for c in cuts do
    if c != "e" then
      let n := c.toNat?.getD 0
      delivered := delivered ++ rest.take n
      rest := rest.drop n
  match Fp.Spec.Capture.captured delivered with
  | some b => return s!"ok:{b.length}:md5of:{toHex b} up=ok"
  | none => return "none up=ok"

def parseSettings (v : String) : Option (List (Nat × Nat)) :=
  (dashList v ";").mapM fun e => match e.splitOn "." with
    | [a, b] => do pure (← a.toNat?, ← b.toNat?)
    | _ => none

def parsePrio (e : String) : Option Fp.H2Fp.Prio :=
  match e.splitOn "." with
  | [s, d, x, w] => do pure { stream := ← s.toNat?, dep := ← d.toNat?, excl := x = "1", weight := ← w.toNat? }
  | _ => none

def h2marshal (toks : List String) : Option String := do
  let max ← (← kv toks "max").toNat?
  let S ← parseSettings (← kv toks "S")
  let wu ← (← kv toks "WU").toNat?
  let P ← (dashList (← kv toks "P") ",").mapM parsePrio
  let H ← (dashList (← kv toks "H") ";").mapM unhex
  some (toHex (Fp.H2Fp.marshal { settings := S, wu := wu, prios := P, headers := H } max))

def letterName (c : Char) : Option Bytes :=
  match c with
  | 'm' => some (strBytes ":method") | 'M' => some (strBytes ":method") | 's' => some (strBytes ":scheme")
  | 'p' => some (strBytes ":path") | 'a' => some (strBytes ":authority") | 'x' => some (strBytes "x-k")
  | 'u' => some (strBytes "user-agent") | 'c' => some (strBytes "cookie") | 't' => some (strBytes "x-trailer")
  | _ => none

/-- scripted client frame token -> the frame `processFrame` sees (header blocks reassembled) -/
def parseFrameTok (tok : String) : Option Fp.H2Fp.Frame := do
  let kind := (tok.take 1).toString
  let rest := (tok.drop 2).toString
  let p := rest.splitOn "."
  match kind with
  | "S" => some (.settings false (← parseSettings rest))
  | "A" => some (.settings true [])
  | "W" => match p with
    | [s, i] => some (.windowUpdate (← s.toNat?) (← i.toNat?))
    | _ => none
  | "P" => (parsePrio rest).map .priority
  | "H" => match p with
    | [id, _es, pr, letters, _cont] =>
      let id ← id.toNat?
      let prio ← if pr = "-" then some none else
        match pr.splitOn "_" with
        | [d, x, w] => do pure (some { stream := id, dep := ← d.toNat?, excl := x = "1", weight := ← w.toNat? : Fp.H2Fp.Prio })
        | _ => none
      some (.headers id prio (← letters.toList.mapM letterName))
    | _ => none
  | "T" => match p with
    | [id, _] => some (.headers (← id.toNat?) none [strBytes "x-trailer"])
    | _ => none
  | "D" | "R" | "G" => some .other
  | _ => none

/-- `useSpec`: answer with the specification (fpSpec of the delivered prefix) or with the model -/
def h2fpRun (useSpec : Bool) (toks : List String) : Option String := do
  let max ← (← kv toks "max").toNat?
  let frames ← ((← kv toks "frames").splitOn ",").mapM fun t => do pure (t, ← parseFrameTok t)
  let eval := fun (hist : List Fp.H2Fp.Frame) =>
    if useSpec then Fp.Spec.H2Fp.fpSpec hist max else Fp.H2Fp.marshal (Fp.H2Fp.captureAll hist) max
  let mut hist : Array Fp.H2Fp.Frame := #[]
  let mut out : Array String := #[]
  for (t, f) in frames do
    hist := hist.push f
    if t.startsWith "H" then out := out.push (toHex (eval hist.toList))
  out := out.push ("final:" ++ toHex (eval hist.toList))
  some (" ".intercalate out.toList)

/-- C16 oracle: the counter vector the property demands for a batch of connections -/
def metricsSpec (toks : List String) : Option String := do
  let kinds := (← kv toks "conns").splitOn ","
  let label := fun (k : String) => match k with
    | "h2" | "abort-after-h2" | "rst-after-h2" => "1/h2"
    | "h1" | "abort-after-h1" | "rst-after-h1" => "1/http/1.1"
    | "noalpn" => "1/"
    | _ => "0/"
  let labels := kinds.map label
  let vec := fun (ls : List String) (sep : String) =>
    sep.intercalate ((["0/", "1/", "1/h2", "1/http/1.1"].filter fun k => ls.contains k).map fun k => s!"{k}={ls.count k}")
  -- connections held open while a sample is taken are counted only when they end
  let held := match kv toks "hold" with
    | some h => (h.splitOn ",").map fun k => if k == "h2" then "1/h2" else "1/http/1.1"
    | none => []
  let n := kinds.length + held.length
  pure (s!"accepted={n} closed={n} " ++ vec (labels ++ held) " " ++ (if held.isEmpty then "" else " while-open:" ++ vec labels ","))

/-- C07 oracle (two-phase): every value a handler observed must be the fingerprint of the connection's history
at ONE instant not earlier than the request's own HEADERS; anything else is printed as TORN. -/
def h2concCheck (toks : List String) : Option String := do
  let (op, obs) := splitAt2 toks
  let max ← (← kv op "max").toNat?
  let frames ← ((← kv op "frames").splitOn ",").mapM fun t => do pure (t, ← parseFrameTok t)
  -- candidates per request stream id
  let mut hist : Array Fp.H2Fp.Frame := #[]
  let mut cands : Array (Nat × List String) := #[]
  for (t, f) in frames do
    hist := hist.push f
    if t.startsWith "H" then
      match f with
      | .headers id _ _ => cands := cands.push (id, [])
      | _ => pure ()
    let v := toHex (Fp.Spec.H2Fp.fpSpec hist.toList max)
    cands := cands.map fun (id, vs) => (id, if vs.contains v then vs else vs ++ [v])
  let outs ← (obs.filter (· ≠ "")).mapM fun tok => do
    match tok.splitOn "=" with
    | [name, vals] =>
      let id ← (name.drop 1).toString.toNat?
      let cs := ((cands.toList.find? (·.1 == id)).map (·.2)).getD []
      let vs := (vals.splitOn ",").map fun v => if cs.contains v then v else "TORN:" ++ v
      pure (name ++ "=" ++ ",".intercalate vs)
    | _ => none
  pure (" ".intercalate outs)

/-- C14: scripted step -> model step. `specMode`: the property's reading (every supported update style,
including a directory swap that leaves the old directory, is noticed); otherwise the code + inotify contract. -/
def certStep (specMode : Bool) (st : String) : Option Fp.Cert.Step := do
  let num := fun (s : String) => s.toNat?
  let c := st.toList
  match c with
  | 'w' :: 'c' :: r => some (.setCert (.half (← num (String.ofList r))) true)
  | 'w' :: 'k' :: r => some (.setKey (.half (← num (String.ofList r))) true)
  | 'r' :: 'c' :: r => some (.setCert (.half (← num (String.ofList r))) true)
  | 'r' :: 'k' :: r => some (.setKey (.half (← num (String.ofList r))) true)
  | ['d', 'c'] => some (.setCert .missing true)
  | ['d', 'k'] => some (.setKey .missing true)
  | ['t', 'c'] | ['g', 'c'] => some (.setCert .junk true)
  | ['t', 'k'] | ['g', 'k'] => some (.setKey .junk true)
  | 'p' :: 'c' :: _ => some (.setCert .junk true)
  | 'p' :: 'k' :: _ => some (.setKey .junk true)
  | 'S' :: r => do let k ← num (String.ofList r); some (.setBoth (.half k) (.half k) true)
  | 's' :: r => do let k ← num (String.ofList r); some (.setBoth (.half k) (.half k) specMode)
  | 'M' :: r =>
    match (String.ofList r).splitOn "." with
    | [a, b] => some (.setBoth (.half (← num a)) (.half (← num b)) true)
    | _ => none
  | _ => none

def certRun (specMode : Bool) (toks : List String) : Option String := do
  let steps ← (dashList (← kv toks "steps") ",").mapM (certStep specMode)
  let s0 : Fp.Cert.St := { disk := { cert := .half 0, key := .half 0 }, served := 0 }
  pure (",".intercalate ((0 :: Fp.Cert.trace s0 steps).map toString))

def handle (cmd : String) (args : List String) : String :=
  match cmd, args with
  | "ser", toks =>
    match parseHello toks with
    | some h => toHex (Fp.Tls.serialize h)
    | none => "bad-op"
  | "ja3", [h] =>
    match unhex h with
    | some rec =>
      match Fp.JA3.ja3Bare rec with
      | .ok b => "ok " ++ toHex b
      | .error e => perrStr e
    | none => "bad-op"
  | "ja3fp", [h] =>
    match unhex h with
    | some rec =>
      match Fp.JA3.ja3Bare rec with
      | .ok b => "ok md5of:" ++ toHex b      -- the checker applies MD5 (hash is a parameter of the theorems)
      | .error .panic => "panic"
      | .error _ => "err"
    | none => "bad-op"
  | "ja3spec", toks =>
    match parseHello toks with
    | some h => "ok " ++ toHex (Fp.Spec.JA3.ja3Spec h)
    | none => "bad-op"
  | "ja3fpspec", toks =>
    match parseHello toks with
    | some h => "ok md5of:" ++ toHex (Fp.Spec.JA3.ja3Spec h)
    | none => "bad-op"
  | "cap", toks =>
    match kv toks "parts", kv toks "cuts" with
    | some parts, some cuts =>
      match parseParts parts with
      | some stream => capRun stream (if cuts = "" then [] else cuts.splitOn ",")
      | none => "bad-op"
    | _, _ => "bad-op"
  | "capspec", toks =>
    match kv toks "parts", kv toks "cuts" with
    | some parts, some cuts =>
      match parseParts parts with
      | some stream => capSpec stream (if cuts = "" then [] else cuts.splitOn ",")
      | none => "bad-op"
    | _, _ => "bad-op"
  | "flow", toks => (flowRun toks).getD "bad-op"
  | "sched", toks => (schedRun toks).getD "bad-op"
  | "schedtrace", toks => (schedTrace toks).getD "bad-op"
  | "h2sm", toks => (smRun toks).getD "bad-op"
  | "h2smrif", toks => (smRunSpec toks).getD "bad-op"
  | "h2conc", toks => (h2concCheck toks).getD "bad-op"
  | "h2fp", toks => (h2fpRun true toks).getD "bad-op"
  | "h2fpm", toks => (h2fpRun false toks).getD "bad-op"
  | "ja4", [h] =>
    match unhex h with
    | some rec =>
      match Fp.JA4.parseView rec with
      | some v => (if Fp.JA4.hasOpaque v then "okif" else "ok") ++ s!" a={toHex (Fp.JA4.ja4a v)} b=sha12of:{toHex (Fp.JA4.ja4bInput v)} c=sha12of:{toHex (Fp.JA4.ja4cInput v)}"
      | none => "err"
    | none => "bad-op"
  | "ja4spec", toks =>
    match parseHello toks with
    | some h => s!"ok a={toHex (Fp.Spec.JA4.partA h)} b=sha12of:{toHex (Fp.Spec.JA4.partBInput h)} c=sha12of:{toHex (Fp.Spec.JA4.partCInput h)}"
    | none => "bad-op"
  | "survive", _ => "alive=1 control=ok"   -- C10: the process survives and other connections are served
  | "shutdown", toks =>
    -- C17: Serve returns ErrServerClosed promptly, listener closed, nothing served afterwards, idle h1 closed,
    -- an in-flight HTTP/1.1 exchange completes and Serve waits for it
    let infl := (kv toks "inflight") == some "1" && (kv toks "early") != some "1"
    let held := (kv toks "hold") == some "1" && (kv toks "early") != some "1"
    "ret=errclosed fast=1 listener=closed post=refused h1idle=closed inflight=" ++ (if infl then "done" else "n/a") ++
      " drain=" ++ (if infl then "ok" else "n/a") ++ " during=" ++ (if held then "refused" else "n/a") ++ " held=" ++ (if held then "ok" else "n/a") ++
      " counted=" ++ (if (kv toks "early").getD "0" == "1" then "n/a" else "ok")
  | "life", _ => "closed=1 released=1"    -- C11: the proxy cut / released the connection
  | "certrace", toks => "ok last=" ++ (kv toks "n").getD "?"   -- C14: no torn pair under concurrent handshakes; converges to the last update
  | "cert", toks => (certRun true toks).getD "bad-op"
  | "certm", toks => (certRun false toks).getD "bad-op"
  | "metrics", toks => (metricsSpec toks).getD "bad-op"
  | "e2emulti", toks => (e2eMultiExpected toks).getD "bad-op"
  | "e2e", toks => (e2eExpected toks).getD "bad-op"
  | "pass", toks => (passExpected toks).getD "bad-op"
  | "dbuf", toks => (dbufRun toks).getD "bad-op"
  -- C08: the status gates of the HTTP/2 response path, per status code: accepted by WriteHeader / may carry a body
  | "h2status", toks =>
    match (kv toks "codes") with
    | some cs =>
      match (cs.splitOn ",").mapM (·.toNat?) with
      | some ns => " ".intercalate (ns.map fun c =>
          s!"{c}:{if Fp.H2Resp.codeAccepted c then 1 else 0}/{if Fp.H2Resp.bodyAllowed c then 1 else 0}")
      | none => "bad-op"
    | none => "bad-op"
  | "h2rx", toks => (h2rxRun toks).getD "bad-op"
  | "h2tx", toks => (h2txRun toks).getD "bad-op"
  | "h2stx", toks => (h2stxSpec toks).getD "bad-op"
  -- C12, client transport receive side: once every response body is closed, all connection credit has come back
  | "h2trx", _ => "ledger=ok"
  -- C08: a request body ended by a trailing HEADERS frame reaches the backend whole and the exchange completes
  -- C15: a boolean switch read from the environment: "true" / "false" in any letter case, anything else (or unset) = default
  | "envbool", toks =>
    let d := (kv toks "def").getD "0" == "1"
    match kv toks "val" with
    | some "-" | none => if d then "1" else "0"
    | some h =>
      match unhex h with
      | some b =>
        let low := b.map fun c => if 65 ≤ c.toNat ∧ c.toNat ≤ 90 then c + 32 else c
        if low == Fp.strBytes "true" then "1" else if low == Fp.strBytes "false" then "0" else (if d then "1" else "0")
      | none => "bad-op"
  -- C12: every DATA byte sent counts against the connection window and comes back, whatever happened to its stream
  | "rxblocked", toks =>
    let up := ((kv toks "up").bind String.toNat?).getD 0
    let fr := ((kv toks "frame").bind String.toNat?).getD 16384
    let fr := if fr = 0 ∨ fr > 16384 then 16384 else fr
    let sent := ((up * 1024 + fr - 1) / fr) * fr
    s!"sent={sent} credit=returned"
  -- C08: the whole response body reaches the client however the client opened its stream window
  | "passwin", toks => s!"st=200 resp=complete got={(kv toks "body").getD "?"}:{(kv toks "sum").getD "?"}"
  | "passtr", toks => s!"st=200 resp=complete backend={(kv toks "body").getD "?"}:{(kv toks "sum").getD "?"}"
  -- C17 at the level of the binary: SIGINT / SIGTERM cancel the context: the process leaves by itself (Serve and then Run
  -- returned), idle connections were closed, the exchange in flight was completed
  | "shutdown2", _ => "ret1=errclosed ret2=errclosed ln1=closed ln2=closed"   -- C17 with two listeners on one server
  | "binsig", _ => "exit=0 idle=closed inflight=complete"
  | "rw", toks => (rwModel toks).getD "bad-op"
  | "rwspec05", toks => (rwSpec05 toks).getD "bad-op"
  | "rwspec09", toks => (rwSpec09 toks).getD "bad-op"
  | "rwspec15", toks => (rwSpec15 toks).getD "bad-op"
  | "h2marshal", toks => (h2marshal toks).getD "bad-op"
  | c, a => ((hpackOps c a).orElse fun _ => frameOps c a).getD "bad-op"

partial def loop (hin : IO.FS.Stream) (hout : IO.FS.Stream) : IO Unit := do
  let line ← hin.getLine
  if line.isEmpty then return ()
  let line := (line.dropEndWhile (fun c => c == '\n' || c == '\r')).toString
  match line.splitOn " " with
  | cmd :: args => hout.putStrLn (handle cmd args)
  | [] => hout.putStrLn "bad-op"
  loop hin hout

def main : IO Unit := do
  let hin ← IO.getStdin
  let hout ← IO.getStdout
  loop hin hout
  hout.flush
