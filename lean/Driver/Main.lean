import Driver.Parse
import FpVerif.Spec.JA3
import FpVerif.Spec.Capture
/-!
`fpdriver`: reads one operation per line on stdin, answers one line per operation on stdout with the
MODEL's (or the SPECIFICATION's) result. The definitions evaluated here are the ones the theorems in
FpVerif/Properties are about.
-/
open Fp Fp.Driver

def perrStr : Fp.JA3.PErr → String
  | .badLength => "err badLength" | .wrongType => "err wrongType" | .extBadLength => "err extBadLength"
  | .panic => "panic"

/-- "hex+r<count>x<hh>+..." -/
def parseParts (s : String) : Option Bytes := do
  let mut out : Array UInt8 := #[]
  for p in s.splitOn "+" do
    if p = "" || p = "-" then continue
    if p.startsWith "r" then
      match (p.drop 1).toString.splitOn "x" with
      | [n, hh] =>
        let n ← n.toNat?
        match ← unhex hh with
        | [b] => out := out ++ Array.replicate n b
        | _ => none
      | _ => none
    else
      out := out ++ (← unhex p).toArray
  return out.toList

def capRes (s : Fp.Capture.St) : String :=
  match (Fp.Capture.getHello s).1 with
  | .ok b => s!"ok:{b.length}:md5of:{toHex b}"
  | .error .incomplete => "err:incomplete"
  | .error .notHandshake => "err:notHandshake"
  | .error .badVersion => "err:badVersion"

def capRun (stream : Bytes) (cuts : List String) : String := Id.run do
  let mut st : Fp.Capture.St := {}
  let mut rest := stream
  let mut last := capRes st
  let mut out := "0:" ++ last
  let mut i := 0
  for c in cuts do
    i := i + 1
    if c = "e" then
      st := Fp.Capture.read st [] false
    else
      let n := c.toNat?.getD 0
      let ch := rest.take n
      rest := rest.drop n
      st := Fp.Capture.read st ch
    let r := capRes st
    if r != last then
      out := out ++ s!" {i}:{r}"
      last := r
  return out ++ " up=ok"

def capSpec (stream : Bytes) (cuts : List String) : String := Id.run do
  let mut rest := stream
  let mut delivered : Bytes := []
  for c in cuts do
    if c != "e" then
      let n := c.toNat?.getD 0
      delivered := delivered ++ rest.take n
      rest := rest.drop n
  match Fp.Spec.Capture.captured delivered with
  | some b => return s!"ok:{b.length}:md5of:{toHex b} up=ok"
  | none => return "none up=ok"

def handle (cmd : String) (args : List String) : String :=
  match cmd, args with
  | "ser", toks =>
    match parseHello toks with
    | some h => toHex (Fp.Tls.serialize h)
    | none => "bad-op"
  | "ja3", [h] =>
    match unhex h with
    | some rec =>
      match Fp.JA3.ja3Bare rec with
      | .ok b => "ok " ++ toHex b
      | .error e => perrStr e
    | none => "bad-op"
  | "ja3fp", [h] =>
    match unhex h with
    | some rec =>
      match Fp.JA3.ja3Bare rec with
      | .ok b => "ok md5of:" ++ toHex b      -- the checker applies MD5 (hash is a parameter of the theorems)
      | .error .panic => "panic"
      | .error _ => "err"
    | none => "bad-op"
  | "ja3spec", toks =>
    match parseHello toks with
    | some h => "ok " ++ toHex (Fp.Spec.JA3.ja3Spec h)
    | none => "bad-op"
  | "cap", toks =>
    match kv toks "parts", kv toks "cuts" with
    | some parts, some cuts =>
      match parseParts parts with
      | some stream => capRun stream (if cuts = "" then [] else cuts.splitOn ",")
      | none => "bad-op"
    | _, _ => "bad-op"
  | "capspec", toks =>
    match kv toks "parts", kv toks "cuts" with
    | some parts, some cuts =>
      match parseParts parts with
      | some stream => capSpec stream (if cuts = "" then [] else cuts.splitOn ",")
      | none => "bad-op"
    | _, _ => "bad-op"
  | _, _ => "bad-op"

partial def loop (hin : IO.FS.Stream) (hout : IO.FS.Stream) : IO Unit := do
  let line ← hin.getLine
  if line.isEmpty then return ()
  let line := (line.dropEndWhile (fun c => c == '\n' || c == '\r')).toString
  match line.splitOn " " with
  | cmd :: args => hout.putStrLn (handle cmd args)
  | [] => hout.putStrLn "bad-op"
  loop hin hout

def main : IO Unit := do
  let hin ← IO.getStdin
  let hout ← IO.getStdout
  loop hin hout
  hout.flush
