import Driver.Parse
import FpVerif.Spec.Proxy
/-! Driver commands for the reverse-proxy handler model (rw, rwspec05, rwspec09, rwspec15). -/
namespace Fp.Driver
open Fp Fp.Proxy

def bytesOfStr (s : String) : Bytes := s.toUTF8.toList

/-- scheme://host[/path][?query] -/
def parseTo (u : Bytes) : Bytes × Bytes × Bytes × Bytes :=
  let (scheme, rest) := match u.findIdx? (· == 58) with
    | some i => (u.take i, u.drop (i + 3))
    | none => ([], u)
  let (hp, query) := match rest.findIdx? (· == 63) with
    | some i => (rest.take i, rest.drop (i + 1))
    | none => (rest, [])
  let (host, path) := match hp.findIdx? (· == 47) with
    | some i => (hp.take i, hp.drop i)
    | none => (hp, [])
  (scheme, host, path, query)

def addLine (h : Hdr) (k v : Bytes) : Hdr :=
  let K := canonKey k
  if has h K then h.map (fun e => if e.1 == K then (e.1, e.2 ++ [v]) else e) else h ++ [(K, [v])]

def parseRW (toks : List String) : Option (Cfg × InReq) := do
  let b := fun (k : String) => do pure ((← kv toks k) == "1")
  let x := fun (k : String) => do unhex (← kv toks k)
  let lines ← (dashList (← kv toks "hdr") ",").mapM fun e =>
    match e.splitOn ":" with
    | [k, v] => do pure (← unhex k, ← unhex v)
    | _ => none
  let injs ← (dashList (← kv toks "inj") ",").mapM fun e =>
    match e.splitOn ":" with
    | [k, o] => do
      let name ← unhex k
      if o == "e" then pure { name := name, out := .err : Inj }
      else pure { name := name, out := .value (← unhex ((o.drop 1).toString |> fun s => if s == "" then "-" else s)) }
    | _ => none
  let (sc, th, tp, tq) := parseTo (← x "to")
  let hdr := lines.foldl (fun h (k, v) => addLine h k v) []
  let cfg : Cfg := { toScheme := sc, toHost := th, toPath := tp, toQuery := tq, preserveHost := ← b "ph",
                     probe := ← b "probe", injectors := injs }
  let i : InReq := { method := ← x "m", path := ← x "path", query := ← x "q", host := ← x "host",
                     remoteAddr := ← x "ra", tls := ← b "tls", hdr := hdr }
  pure (cfg, i)

def insertSorted (e : Bytes × List Bytes) : List (Bytes × List Bytes) → List (Bytes × List Bytes)
  | [] => [e]
  | x :: r => if e.1 < x.1 then e :: x :: r else x :: insertSorted e r

def hdrCanon (h : Hdr) : String :=
  let es := (h.filter (fun e => !e.2.isEmpty)).foldl (fun acc e => insertSorted e acc) []
  let parts := es.map fun e => toHex e.1 ++ "=" ++ "|".intercalate (e.2.map toHex)
  if parts.isEmpty then "-" else ";".intercalate parts

def valsStr (vs : List Bytes) : String := if vs.isEmpty then "-" else "|".intercalate (vs.map toHex)

def rwModel (toks : List String) : Option String := do
  let (c, i) ← parseRW toks
  match serve c i with
  | .local st body => pure s!"local {st} {toHex body}"
  | .forward o =>
    pure s!"fwd m={toHex o.method} scheme={toHex o.scheme} urlhost={toHex o.urlHost} path={toHex o.path} q={toHex o.query} host={toHex o.host} hdr={hdrCanon o.hdr}"

end Fp.Driver

namespace Fp.Driver
open Fp Fp.Proxy Fp.Spec.Proxy

def dedupSorted (ks : List Bytes) : List Bytes :=
  (ks.foldl (fun acc k => if acc.contains k then acc else insertSorted (k, []) (acc.map (·, [])) |>.map (·.1)) [])

/-- C05 oracle: SPECIFICATION of the values under every injected name -/
def rwSpec05 (toks : List String) : Option String := do
  let (c, i) ← parseRW toks
  if c.probe && uaProbe i then return "local"
  let ks := dedupSorted (c.injectors.map fun j => canonKey j.name)
  let parts := ks.map fun K => toHex K ++ "=" ++ "|".intercalate ((specValues c.injectors K).map toHex)
  pure ("inj " ++ (if parts.isEmpty then "-" else ";".intercalate parts))

/-- C09 oracle: SPECIFICATION of the forwarding headers (peer IP from the remote address; the proxy's
client connections are TLS, the inbound flag is passed through as given) -/
def rwSpec09 (toks : List String) : Option String := do
  let (c, i) ← parseRW toks
  if c.probe && uaProbe i then return "local"
  let xff := match splitHost i.remoteAddr with
    | some ip => toHex (specXFF (get i.hdr XFF) ip)
    | none => "-"
  let proto := if i.tls then strBytes "https" else strBytes "http"
  pure s!"xff={xff} xfh={toHex i.host} xfp={toHex proto} fwd=-"

/-- C15 oracle -/
def rwSpec15 (toks : List String) : Option String := do
  let (c, i) ← parseRW toks
  if c.probe && uaProbe i then pure ("local 200 " ++ toHex (strBytes "OK")) else pure "forward"

end Fp.Driver
