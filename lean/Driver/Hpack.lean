import Driver.Parse
import FpVerif.Model.Hpack
namespace Fp.Driver
open Fp Fp.Hpack

def fieldTok (f : Field) : String := s!"{toHex f.name}:{toHex f.value}:{if f.sensitive then 1 else 0}"
def tableTok (t : DynTab) : String :=
  s!"tab={t.size}/{t.maxSize}[" ++ ",".intercalate (t.ents.map fun e => toHex e.name ++ ":" ++ toHex e.value) ++ "]"

def derrStr : DErr → String
  | .decoding => "err:decoding" | .stringLength => "err:strlen" | .huffman => "err:huffman"

def hpdecRun (toks : List String) : Option String := do
  let max := ((kv toks "max").bind String.toNat?).getD 4096
  let strlen := ((kv toks "strlen").bind String.toNat?).getD 0
  let mut d : Dec := Dec.new max
  match (kv toks "allowed").bind String.toNat? with
  | some a => d := { d with tab := { d.tab with allowedMax := a } }
  | none => pure ()
  d := { d with maxStrLen := strlen }
  let mut out : Array String := #[]
  let mut dead := false
  for w in (← kv toks "w").splitOn "," do
    if dead then continue
    if w == "C" then
      match d.close with
      | .ok d' => d := d'; out := out.push "closed"
      | .error e => out := out.push (derrStr e); dead := true; d := { d with saveBuf := [] }
    else if w.startsWith "M" then
      d := { d with tab := d.tab.setMaxSize (← (w.drop 1).toString.toNat?) }
    else
      let (d', fs, err) := d.write (← unhex w)
      d := d'
      out := out ++ (fs.map fieldTok).toArray
      match err with
      | some e => out := out.push (derrStr e); dead := true
      | none => pure ()
  out := out.push (if dead then "tab=dead" else tableTok d.tab)
  pure (" ".intercalate out.toList)

def parseEncOp (e : Enc) (op : String) : Option (Enc × Option Bytes) := do
  if op.startsWith "f" then
    match ((op.drop 1).toString).splitOn "." with
    | [n, v, s] =>
      let (e', b) := e.writeField { name := ← unhex n, value := ← unhex v, sensitive := s == "1" }
      pure (e', some b)
    | _ => none
  else if op.startsWith "m" then pure (e.setMaxSize (← (op.drop 1).toString.toNat?), none)
  else if op.startsWith "l" then pure (e.setMaxSizeLimit (← (op.drop 1).toString.toNat?), none)
  else none

def hpencRun (toks : List String) : Option String := do
  let mut e : Enc := {}
  let mut out : Array String := #[]
  for op in dashList (← kv toks "ops") "," do
    let (e', b) ← parseEncOp e op
    e := e'
    match b with
    | some b => out := out.push (toHex b)
    | none => pure ()
  out := out.push (tableTok e.tab)
  pure (" ".intercalate out.toList)

def hpackOps (cmd : String) (args : List String) : Option String :=
  match cmd, args with
  | "hpdec", toks => hpdecRun toks
  | "hpenc", toks => hpencRun toks
  | "hprt", _ => some "rt=ok"
  | "hpfrag", _ => some "same"        -- C18 oracle: the result is the same however the block is split         -- C18 oracle: decoding what the encoder produced gives the same fields and tables
  | "huffdec", [h] => do
    match huffmanDecode 0 (← unhex h) with
    | .ok b => pure ("ok " ++ toHex b)
    | .error _ => pure "err:huffman"
  | "huffenc", [h] => do pure (toHex (huffmanEncode (← unhex h)))
  | "varint", [n, i] => do pure (toHex (appendVarInt (← n.toNat?) (← i.toNat?)))
  | "rdvarint", [n, h] => do
    let p ← unhex h
    match readVarInt (← n.toNat?) p with
    | .ok v rest => pure s!"ok {v} {p.length - rest.length}"
    | .needMore => pure "needMore"
    | .overflow => pure "overflow"
  | _, _ => none

end Fp.Driver
