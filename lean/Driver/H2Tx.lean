import Driver.Parse
import FpVerif.Model.H2Tx
/-! Driver command `h2tx greet=<id.val;...> ev=<tok,...>`: the client transport's body writer (C12). -/
namespace Fp.Driver
open Fp Fp.H2Tx

def txTok (t : String) : Option Ev := do
  let kind := (t.take 1).toString
  let p := ((t.drop 2).toString).splitOn "."
  match kind, p with
  | "B", [n] => some (.body (← n.toNat?))
  | "E", _ => some .bodyEOF
  | "W", [sid, inc] => some (.windowUpdate (← sid.toNat?) (← inc.toNat?))
  | "S", [id, val] => some (.setting (← id.toNat?) (← val.toNat?))
  | _, _ => none

def txShow : Out → String
  | .data len es => s!"d{len}:{if es then 1 else 0}"
  | .rst code => s!"R:{code}"
  | .goaway code => s!"G:{code}"

def h2txRun (toks : List String) : Option String := do
  let greet ← (dashList (← kv toks "greet") ";").mapM fun e =>
    match e.splitOn "." with
    | [a, b] => do pure (← a.toNat?, ← b.toNat?)
    | _ => none
  -- the server's first SETTINGS frame, before the request starts
  let t0 : Tx := greet.foldl (fun t (id, val) =>
      if id = 4 then { t with streamFlow := val, initialWindow := val }
      else if id = 5 then { t with maxFrame := val }
      else t) {}
  let t0 := { t0 with scratch := scratchLen t0.maxFrame }
  let evs ← (dashList (← kv toks "ev") ",").mapM txTok
  pure ("/".intercalate ((run t0 evs).map fun rs => "+".intercalate (rs.map txShow)))

end Fp.Driver
