import Driver.Parse
import FpVerif.Model.H2Tx
import FpVerif.Spec.H2STx
/-! Driver command `h2tx greet=<id.val;...> ev=<tok,...>`: the client transport's body writer (C12). -/
namespace Fp.Driver
open Fp Fp.H2Tx

def txTok (t : String) : Option Ev := do
  let kind := (t.take 1).toString
  let p := ((t.drop 2).toString).splitOn "."
  match kind, p with
  | "B", [n] => some (.body (← n.toNat?))
  | "E", _ => some .bodyEOF
  | "W", [sid, inc] => some (.windowUpdate (← sid.toNat?) (← inc.toNat?))
  | "S", [id, val] => some (.setting (← id.toNat?) (← val.toNat?))
  | _, _ => none

def txShow : Out → String
  | .data len es => s!"d{len}:{if es then 1 else 0}"
  | .rst code => s!"R:{code}"
  | .goaway code => s!"G:{code}"

def h2txRun (toks : List String) : Option String := do
  let greet ← (dashList (← kv toks "greet") ";").mapM fun e =>
    match e.splitOn "." with
    | [a, b] => do pure (← a.toNat?, ← b.toNat?)
    | _ => none
  -- the server's first SETTINGS frame, before the request starts
  let t0 : Tx := greet.foldl (fun t (id, val) =>
      if id = 4 then { t with streamFlow := val, initialWindow := val }
      else if id = 5 then { t with maxFrame := val }
      else t) {}
  let t0 := { t0 with scratch := scratchLen t0.maxFrame }
  let evs ← (dashList (← kv toks "ev") ",").mapM txTok
  pure ("/".intercalate ((run t0 evs).map fun rs => "+".intercalate (rs.map txShow)))

end Fp.Driver

namespace Fp.Driver
open Fp

/-- `h2stx body=<n> ev=<tok,..>`: the peer-side specification of the server's sending under flow control -/
def h2stxSpec (toks : List String) : Option String := do
  let body ← (← kv toks "body").toNat?
  let evs := dashList (← kv toks "ev") ","
  let mut s : Spec.H2STx.S := {}
  let mut out : Array String := #[]
  for tk in evs do
    let rest := (tk.drop 1).toString
    let p := rest.splitOn "."
    let ev : Spec.H2STx.Ev ←
      if tk.startsWith "H" then do pure (Spec.H2STx.Ev.request (← (p.headD "").toNat?) body)
      else if tk.startsWith "S" then do pure (Spec.H2STx.Ev.setInitial (← rest.toNat?))
      else if tk.startsWith "W" then
        match p with
        | [a, b] => do pure (Spec.H2STx.Ev.windowUpdate (← a.toNat?) (← b.toNat?))
        | _ => none
      else if tk.startsWith "E" then do pure (Spec.H2STx.Ev.endRequest (← rest.toNat?))
      else none
    s := Spec.H2STx.step s ev
    let shown := (s.strs.filter fun st => st.sent > 0 || st.ended).map fun st =>
      s!"{st.sid}={st.sent}" ++ (if st.ended then "e" else "")
    out := out.push (if shown.isEmpty then "-" else ";".intercalate shown)
  pure ("/".intercalate out.toList)

end Fp.Driver
