import Driver.Parse
import Driver.Sched
import FpVerif.Model.Flow
namespace Fp.Driver
open Fp Fp.Flow

def flowRun (toks : List String) : Option String := do
  let ops := dashList (← kv toks "ops") ";"
  let mut si : Inflow := {}
  let mut ci : Inflow := {}
  let mut so : Int := 0
  let mut co : Int := 0
  let mut out : Array String := #[]
  for o in ops do
    let b1 := (o.drop 1).toString
    let b2 := (o.drop 2).toString
    if o.startsWith "i" then si := { avail := ← intOf b1, unsent := 0 }; out := out.push "-"
    else if o.startsWith "I" then ci := { avail := ← intOf b1, unsent := 0 }; out := out.push "-"
    else if o.startsWith "a" then
      match si.add (← intOf b1) with
      | .ok (f, c) => si := f; out := out.push (toString c)
      | .panic => out := out.push "panic"
    else if o.startsWith "A" then
      match ci.add (← intOf b1) with
      | .ok (f, c) => ci := f; out := out.push (toString c)
      | .panic => out := out.push "panic"
    else if o.startsWith "t" then
      let (f, ok) := si.take (← intOf b1); si := f; out := out.push (if ok then "1" else "0")
    else if o.startsWith "T" then
      let (f1, f2, ok) := takeInflows ci si (← intOf b1); ci := f1; si := f2; out := out.push (if ok then "1" else "0")
    else if o.startsWith "oa" then
      let (n, ok) := outflowAdd so (← intOf b2); so := n; out := out.push (if ok then "1" else "0")
    else if o.startsWith "ca" then
      let (n, ok) := outflowAdd co (← intOf b2); co := n; out := out.push (if ok then "1" else "0")
    else if o.startsWith "ot" then
      match outflowTake so co (← intOf b2) with
      | .ok (a, b) => so := a; co := b; out := out.push "-"
      | .panic => out := out.push "panic"
    else if o == "ov" then out := out.push (toString (outflowAvailable so co))
    else none
  out := out.push s!"si={si.avail}/{si.unsent} ci={ci.avail}/{ci.unsent} so={so} co={co}"
  pure (" ".intercalate out.toList)

end Fp.Driver
