import Driver.Parse
import FpVerif.Model.Sched
import FpVerif.Spec.SchedTrace
/-! Driver for the write-scheduler model: `sched kind=.. ops=.. [@@ observed tokens]` -/
namespace Fp.Driver
open Fp Fp.Sched

def showPopped : Popped → String
  | .frame r =>
    match r.sid with
    | none => s!"ctl:{r.uid}"
    | some sid => if r.isData then s!"s{sid}:d{r.size}:{if r.es then 1 else 0}" else s!"s{sid}:f{r.uid}"
  | .piece r len => s!"s{(r.sid.getD 0)}:d{len}:0"

def intOf (s : String) : Option Int :=
  if s.startsWith "-" then (s.drop 1).toString.toNat?.map (fun n => -(n : Int)) else s.toNat?.map (fun n => (n : Int))

def schedRunRR (toks : List String) : Option String := do
  let i := toks.findIdx? (· == "@@")
  let (op, obs) := match i with | some k => (toks.take k, toks.drop (k + 1)) | none => (toks, [])
  let kind ← kv op "kind"
  let ops := dashList (← kv op "ops") ";"
  let mut s : St := St.init
  let mut uid := 0
  let mut out : Array String := #[]
  let mut obsL := obs
  for o in ops do
    let body1 := (o.drop 1).toString
    let body2 := (o.drop 2).toString
    let mut res : Option (St × Out) := none
    if o.startsWith "o" then
      let sid ← body1.toNat?
      res := some (if kind == "rr" then stepRR s (.open_ sid) else (s, .none_))
    else if o.startsWith "c" then
      res := some (stepRR s (.close (← body1.toNat?)))
    else if o.startsWith "a" then
      res := some (s, .none_)
    else if o.startsWith "pd" then
      match body2.splitOn "." with
      | [a, b, c] =>
        uid := uid + 1
        let r : Req := { uid := uid, sid := some (← a.toNat?), isData := true, size := ← b.toNat?, es := c == "1" }
        res := some (if kind == "rr" then pushRR s r else pushRand s r)
      | _ => none
    else if o.startsWith "ph" then
      uid := uid + 1
      let r : Req := { uid := uid, sid := some (← body2.toNat?), isData := false, size := 0, es := false }
      res := some (if kind == "rr" then pushRR s r else pushRand s r)
    else if o.startsWith "pc" || o.startsWith "pr" then
      uid := uid + 1
      let r : Req := { uid := uid, sid := none, isData := false, size := 0, es := false }
      res := some (if kind == "rr" then pushRR s r else pushRand s r)
    else if o.startsWith "w" then
      match body1.splitOn "." with
      | [a, b] => res := some (stepRR s (.addWin (← a.toNat?) (← intOf b)))
      | _ => none
    else if o.startsWith "W" then
      res := some (stepRR s (.addConn (← intOf body1)))
    else if o.startsWith "m" then
      res := some (stepRR s (.setMax (← intOf body1)))
    else if o == "x" then
      if kind == "rr" then
        res := some (popRR s)
      else
        -- follow the implementation's choice (Go map order) and check it is admissible
        let seen := obsL.headD "none"
        if seen.startsWith "s" then
          let sid ← (((seen.drop 1).toString.splitOn ":").headD "").toNat?
          res := some (popRandAt s sid)
        else if seen == "none" then
          if s.control.isEmpty && !(s.queues.any (ready s)) then res := some (s, .none_)
          else
            out := out.push "SHOULD-POP"
            obsL := obsL.drop 1
            continue
        else
          res := some (popRandAt s 0)
    else none
    match res with
    | some (s', o') =>
      s := s'
      match o' with
      | .none_ => if o == "x" then out := out.push "none"; obsL := obsL.drop 1
      | .popped p => out := out.push (showPopped p); obsL := obsL.drop 1
      | .panic => out := out.push "panic"; obsL := obsL.drop 1
    | none => pure ()
  out := out.push s!"conn={s.cwin}"
  pure (" ".intercalate out.toList)

/-- `schedtrace kind=.. ops=.. @@ <observed tokens>`: the TRACE specification (Fp.Spec.SchedTrace) applied to what the
implementation answered; echoes the observation when every answer is admissible -/
def schedTrace (toks : List String) : Option String := do
  let i := toks.findIdx? (· == "@@")
  let (op, obs) := match i with | some k => (toks.take k, toks.drop (k + 1)) | none => (toks, [])
  let ops := dashList (← kv op "ops") ";"
  let echo := " ".intercalate obs
  let parseObs (w : String) : Spec.SchedTrace.Obs :=
    if w == "none" then .none_
    else if w.startsWith "ctl:" then match (w.drop 4).toString.toNat? with | some u => .ctl u | none => .other w
    else if w.startsWith "s" then
      match (w.drop 1).toString.splitOn ":" with
      | [a, b] =>
        match a.toNat?, (if b.startsWith "f" then (b.drop 1).toString.toNat? else none) with
        | some sid, some u => .frame sid u
        | _, _ => .other w
      | [a, b, c] =>
        match a.toNat?, (if b.startsWith "d" then (b.drop 1).toString.toNat? else none) with
        | some sid, some n => .data sid n (c == "1")
        | _, _ => .other w
      | _ => .other w
    else .other w
  let mut t : Spec.SchedTrace.TSt := {}
  let mut uid := 0
  let mut obsL := obs
  let mut step := 0
  for o in ops do
    step := step + 1
    let body1 := (o.drop 1).toString
    let body2 := (o.drop 2).toString
    let mut top : Option Spec.SchedTrace.TOp := none
    if o.startsWith "o" then top := some (.open_ (← ((body1.splitOn ".").headD "").toNat?))   -- (o<id>.<pusher>: priority kind)
    else if o.startsWith "c" then top := some (.close (← body1.toNat?))
    else if o.startsWith "a" then top := some .adjust
    else if o.startsWith "pd" then
      match body2.splitOn "." with
      | [a, b, c] => uid := uid + 1; top := some (.pushData uid (← a.toNat?) (← b.toNat?) (c == "1"))
      | _ => none
    else if o.startsWith "ph" then uid := uid + 1; top := some (.pushFrame uid (← body2.toNat?))
    else if o.startsWith "pc" then uid := uid + 1; top := some (.pushCtl uid)
    else if o.startsWith "pr" then uid := uid + 1; top := some (.pushCtlFor uid (← body2.toNat?))
    else if o.startsWith "w" then
      match body1.splitOn "." with
      | [a, b] => top := some (.addWin (← a.toNat?) (← intOf b))
      | _ => none
    else if o.startsWith "W" then top := some (.addConn (← intOf body1))
    else if o.startsWith "m" then top := some (.setMax (← intOf body1))
    else if o == "x" then top := some .pop
    else none
    let tp ← top
    let ob : Option Spec.SchedTrace.Obs := match tp with
      | .pop => obsL.head?.map parseObs
      | _ => none
    -- (a panic raised by an operation other than Pop shows up as the next Pop's token and is judged there)
    match tp with
    | .pop => obsL := obsL.drop 1
    | _ => pure ()
    match Spec.SchedTrace.traceStep t tp ob with
    | .ok t' => t := t'
    | .stop => return echo
    | .bad why => return s!"TRACE-VIOLATION at operation {step} ({o}): {why}"
  pure echo

end Fp.Driver
