import Driver.Sched
import FpVerif.Model.Prio
/-! Driver for the priority write scheduler model: `sched kind=prio[:closed:idle:throttle] ops=..` -/
namespace Fp.Driver
open Fp Fp.Sched Fp.Prio

def stateChar : NState → String
  | .open_ => "o" | .closed => "c" | .idle => "i"

def insertById (e : Nat × Nat) : List (Nat × Nat) → List (Nat × Nat)
  | [] => [e]
  | x :: r => if e.1 < x.1 then e :: x :: r else x :: insertById e r

def prioDump (s : PSt) : String :=
  let es := s.nodes.foldl (fun acc e => insertById e acc) []
  let idOf := fun (p : Nat) => toString (node s p).id
  let parts := es.map fun (id, p) =>
    let n := node s p
    let par := match n.parent with | some q => idOf q | none => "-"
    s!"{id}/{par}/{n.weight}/{stateChar n.state}/{n.bytes}/{n.subtreeBytes}/{n.q.length}/{"+".intercalate ((kidsOf s p).map idOf)}"
  s!"tree={",".intercalate parts} max={s.maxID} closed={"+".intercalate (s.closedNodes.map idOf)} idle={"+".intercalate (s.idleNodes.map idOf)} thr={s.throttle}"

def prioRun (kind : String) (ops : List String) : Option String := do
  let cfg := kind.splitOn ":"
  let (mc, mi, th, thr0) ← match cfg with
    | [_, a, b, c] => do pure (← a.toNat?, ← b.toNat?, c == "1", none)
    | [_, a, b, c, d] => do pure (← a.toNat?, ← b.toNat?, c == "1", some (Int.ofNat (← d.toNat?)))
    | _ => some (4, 4, false, none)
  let mut s : PSt := PSt.init mc mi th
  -- (a fifth field: the throttle limit reached after many consecutive out-of-order Pops)
  if let some t := thr0 then s := { s with throttle := t }
  let mut uid := 0
  let mut out : Array String := #[]
  for o in ops do
    let body1 := (o.drop 1).toString
    let body2 := (o.drop 2).toString
    let mut op : Option POp := none
    if o.startsWith "o" then
      match body1.splitOn "." with
      | [a] => op := some (.open_ (← a.toNat?) 0)
      | [a, b] => op := some (.open_ (← a.toNat?) (← b.toNat?))     -- o<id>.<pusher>
      | _ => none
    else if o.startsWith "c" then op := some (.close (← body1.toNat?))
    else if o.startsWith "a" then
      match body1.splitOn "." with
      | [a, b, c, d] => op := some (.adjust (← a.toNat?) (← b.toNat?) (← c.toNat?) (d == "1"))
      | _ => none
    else if o.startsWith "pd" then
      match body2.splitOn "." with
      | [a, b, c] =>
        uid := uid + 1
        op := some (.push { uid := uid, sid := some (← a.toNat?), isData := true, size := ← b.toNat?, es := c == "1" })
      | _ => none
    else if o.startsWith "ph" then
      uid := uid + 1
      op := some (.push { uid := uid, sid := some (← body2.toNat?), isData := false, size := 0, es := false })
    else if o.startsWith "pc" || o.startsWith "pr" then
      uid := uid + 1
      op := some (.push { uid := uid, sid := none, isData := false, size := 0, es := false })
    else if o.startsWith "w" then
      match body1.splitOn "." with
      | [a, b] => op := some (.addWin (← a.toNat?) (← intOf b))
      | _ => none
    else if o.startsWith "W" then op := some (.addConn (← intOf body1))
    else if o.startsWith "m" then op := some (.setMax (← intOf body1))
    else if o == "x" then op := some .pop
    else none
    match op with
    | some theOp =>
      let (s', r) := Prio.step lessNode s theOp
      s := s'
      match r with
      | .none_ => if o == "x" then out := out.push "none"
      | .popped p => out := out.push (showPopped p)
      | .panic => out := out.push "panic"
    | none => pure ()
  out := out.push s!"conn={s.win.cwin}"
  out := out.push (prioDump s)
  pure (" ".intercalate out.toList)

end Fp.Driver

namespace Fp.Driver
def schedRun (toks : List String) : Option String := do
  let i := toks.findIdx? (· == "@@")
  let op := match i with | some k => toks.take k | none => toks
  let kind ← kv op "kind"
  if kind.startsWith "prio" then prioRun kind (dashList (← kv op "ops") ";") else schedRunRR toks
end Fp.Driver
