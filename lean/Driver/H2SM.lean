import Driver.Parse
import FpVerif.Model.H2Server
import FpVerif.Model.Frame
namespace Fp.Driver
open Fp Fp.H2S

def parseSMTok (tok : String) : Option Ev := do
  let kind := (tok.take 1).toString
  let rest := (tok.drop 2).toString
  let p := rest.splitOn "."
  match kind with
  | "S" =>
    let ss ← (dashList rest ";").mapM fun e => match e.splitOn "." with
      | [a, b] => do pure (← a.toNat?, ← b.toNat?)
      | _ => none
    pure (.settings false ss)
  | "A" => pure (.settings true [])
  | "H" => match p with
    | [sid, es, pr, cls, mode] =>
      let prio ← if pr == "-" then some none else pr.toNat?.map some
      let c : HdrClass ← match (cls.take 1).toString with
        | "q" => some (.request (if (cls.drop 1).toString == "-" then none else (cls.drop 1).toString.toNat?))
        | "C" => some .connect
        | "F" => some .framerInvalid
        | "V" => some .framerInvalid      -- a pseudo-header VALUE with CR LF / NUL: malformed for the same reason
        | "B" => some .badShape
        | "T" => some (.trailers true)
        | "t" => some (.trailers false)
        | "P" => some .pseudoTrailers
        | _ => none
      pure (.headers (← sid.toNat?) (es == "1") prio c (mode == "b"))
    | _ => none
  | "D" => match p with
    | [s, l, e] => pure (.data (← s.toNat?) (← l.toNat?) (e == "1"))
    | _ => none
  | "R" => pure (.rst (← rest.toNat?))
  | "P" => match p with
    | [s, d] => pure (.priority (← s.toNat?) (← d.toNat?))
    | _ => none
  | "W" => match p with
    | [s, i] => pure (.windowUpdate (← s.toNat?) (← i.toNat?))
    | _ => none
  | "G" => pure .ping
  | "Y" => pure .goaway
  | "X" => pure (.pushPromise (← rest.toNat?))
  | "U" => pure .unknown
  | "L" => pure .tooLarge
  | "Z" => match p with
    | [t, fl, sid, pl] =>
      let sid ← sid.toNat?
      -- a raw malformed frame: the frame reader's verdict comes from the C19 model
      match Fp.Frame.parsePayload (← t.toNat?) (← fl.toNat?) sid (← unhex pl) with
      | .error (.conn c) => pure (.readConnError c)
      | .error (.stream s c) => pure (.readStreamError s c)
      | .error _ => none
      | .ok f =>
        match Fp.Frame.checkOrder 0 (← t.toNat?) (← fl.toNat?) sid with
        | .error (.conn c) => pure (.readConnError c)
        | _ =>
          match f with
          | .pushPromise s _ _ _ => pure (.pushPromise s)
          | .unknown .. => pure .unknown
          | .windowUpdate s _ inc => pure (.windowUpdate s inc)
          | _ => none
    | _ => none
  | _ => none

def showReaction : Reaction → String
  | .handler s => s!"H{s}" | .rst s c => s!"R{s}:{c}" | .goaway l c => s!"G{l}:{c}"

/-- a framer-level stream error on a header block (class F) is raised by readMetaFrame, before processFrame -/
def smRun (toks : List String) : Option String := do
  let maxs ← (← kv toks "maxstreams").toNat?
  -- (M tokens change the CLIENT's encoder only: no frame, no event, no output slot)
  let evs ← (((← kv toks "ev").splitOn ",").filter (fun t => !t.startsWith "M:")).mapM parseSMTok
  let evs := evs.map fun e => match e with
    | .headers sid _ _ .framerInvalid _ => Ev.readStreamError sid PROTOCOL
    | e => e
  let rs := run { advMaxStreams := maxs } evs
  pure ("/".intercalate (rs.map fun r => "+".intercalate (r.map showReaction)))

/-- RESET-IN-FLIGHT reading (RFC 7540 5.1, "closed"): a frame for a stream that the SERVER has closed by sending
RST_STREAM may have been sent before the client saw the reset; the server "MUST ignore frames that it receives on
closed streams after it has sent a RST_STREAM frame" (for a while). The specification run therefore ignores
HEADERS / RST_STREAM / WINDOW_UPDATE on such a stream and answers DATA as the code does (stream error
STREAM_CLOSED); everything else follows the model. PRIORITY is NOT in that list: it is legal in every stream state
(RFC 7540 5.1 / 6.3), so the model's answer (nothing) already is the in-flight answer, and a PRIORITY frame that makes a
stream depend on itself is malformed in every state (5.3.1: "MUST treat this as a stream error of type PROTOCOL_ERROR"),
also on a stream the server has reset. -/
def smRunSpec (toks : List String) : Option String := do
  let maxs ← (← kv toks "maxstreams").toNat?
  -- (M tokens change the CLIENT's encoder only: no frame, no event, no output slot)
  let evs ← (((← kv toks "ev").splitOn ",").filter (fun t => !t.startsWith "M:")).mapM parseSMTok
  let evs := evs.map fun e => match e with
    | .headers sid _ _ .framerInvalid _ => Ev.readStreamError sid PROTOCOL
    | e => e
  let rec go (c : Conn) (resetByServer : List Nat) : List Ev → List (List Reaction)
    | [] => []
    | e :: r =>
      -- what a client that is still uploading sends next: the request's trailers (or a reset / window update)
      let inFlight := match e with
        | .headers sid _ _ (.trailers _) _ | .rst sid | .windowUpdate sid _ =>
          resetByServer.contains sid && (findStream c sid).isNone && !(dead c)
        | _ => false
      if inFlight then [] :: go c resetByServer r
      else
        let (c', rs) := stepObs c e
        -- only the "complete response before the request ended" reset (RST_STREAM NO_ERROR, RFC 7540 8.1) opens the window
        let newResets := rs.filterMap fun x => match x with | .rst s 0 => some s | _ => none
        rs :: go c' (resetByServer ++ newResets) r
  let rs := go { advMaxStreams := maxs } [] evs
  pure ("/".intercalate (rs.map fun r => "+".intercalate (r.map showReaction)))

end Fp.Driver
