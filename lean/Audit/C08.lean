import FpVerif.Properties.C08
import FpVerif.Properties.C08_Body
import FpVerif.Properties.C08_Status
#print axioms Fp.C08.dbuf_write_appends
#print axioms Fp.C08.dbuf_read_prefix
#print axioms Fp.C08.dbuf_fifo
#print axioms Fp.C08.pWrite_spec
#print axioms Fp.C08.pRead_spec
#print axioms Fp.C08.pClose_spec
#print axioms Fp.C08.pipe_fifo
#print axioms Fp.C08.gen_ok
#print axioms Fp.C08.get_foldl_del
#print axioms Fp.C08.get_foldl_hdel
#print axioms Fp.C08.canon_te
#print axioms Fp.C08.canon_conn
#print axioms Fp.C08.canon_upg
#print axioms Fp.C08.canon_ua
#print axioms Fp.C08.end_to_end_headers_unaltered
#print axioms Fp.C08.request_line_unaltered
#print axioms Fp.C08.body_over_frames
#print axioms Fp.C08.cutBody_flatten
#print axioms Fp.C08.cutBody_length
#print axioms Fp.C08.cutBody_bounds
#print axioms Fp.C08.body_any_cuts
#print axioms Fp.C08.gen_ok_status
#print axioms Fp.C08.every_three_digit_status_accepted
#print axioms Fp.C08.body_refused_iff
