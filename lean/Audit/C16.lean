import FpVerif.Properties.C16
#print axioms Fp.C16.gen_ok
#print axioms Fp.C16.once_per_path
#print axioms Fp.C16.flatMap_calls
#print axioms Fp.C16.count_eq
#print axioms Fp.C16.total
