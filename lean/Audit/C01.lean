import FpVerif.Properties.C01
#print axioms Fp.C01.gen_ok
#print axioms Fp.C01.bare_eq_spec
#print axioms Fp.C01.ja3Header_eq_spec
#print axioms Fp.C01.ja3_of_hello
#print axioms Fp.C01.ja3_function_of_hello
#print axioms Fp.C01.sampleHello_wf
#print axioms Fp.C01.header_delivered
