import FpVerif.Properties.C10
#print axioms Fp.C10.panic_confined
#print axioms Fp.C10.close_after_panic
