import FpVerif.Properties.C18
#print axioms Fp.C18.gen_ok
#print axioms Fp.C18.gen_write_loop
#print axioms Fp.C18.gen_static_maps
#print axioms Fp.C18.u8_ofNat_toNat
#print axioms Fp.C18.cont_roundtrip
#print axioms Fp.C18.varint_roundtrip
#print axioms Fp.C18.evict_go_spec
#print axioms Fp.C18.evict_bounded
#print axioms Fp.C18.add_bounded
#print axioms Fp.C18.setMaxSize_bounded
#print axioms Fp.C18.size_update_limited
#print axioms Fp.C18.huffman_tree_correct
#print axioms Fp.C18.eos_rejected
