import FpVerif.Properties.C09
#print axioms Fp.C09.gen_ok
#print axioms Fp.C09.get_after_loop
#print axioms Fp.C09.ua_irrelevant
#print axioms Fp.C09.xff
#print axioms Fp.C09.join_snoc_sep
#print axioms Fp.C09.xff_spec
#print axioms Fp.C09.xfh
#print axioms Fp.C09.xfp
#print axioms Fp.C09.proto_https
#print axioms Fp.C09.get_foldl_del
#print axioms Fp.C09.no_client_forwarded
