import FpVerif.Properties.C19
#print axioms Fp.C19.read_bounded
#print axioms Fp.C19.parse_error_is_h2_error
#print axioms Fp.C19.fixed_length_frames
#print axioms Fp.C19.short_frames
#print axioms Fp.C19.stream_zero_rules
#print axioms Fp.C19.window_update_nonzero
#print axioms Fp.C19.continuation_discipline
#print axioms Fp.C19.u8
#print axioms Fp.C19.u32be_be32
#print axioms Fp.C19.header_roundtrip
#print axioms Fp.C19.rawFrame_ok
#print axioms Fp.C19.fixed_roundtrip
#print axioms Fp.C19.window_update_roundtrip
#print axioms Fp.C19.rst_roundtrip
