import FpVerif.Properties.C19
import FpVerif.Properties.C19_Block
import FpVerif.Properties.C19_Gen
import FpVerif.Properties.C19_More
import FpVerif.Properties.C19_Raw
#print axioms Fp.C19.read_bounded
#print axioms Fp.C19.parse_error_is_h2_error
#print axioms Fp.C19.fixed_length_frames
#print axioms Fp.C19.short_frames
#print axioms Fp.C19.stream_zero_rules
#print axioms Fp.C19.window_update_nonzero
#print axioms Fp.C19.continuation_discipline
#print axioms Fp.C19.u8
#print axioms Fp.C19.u32be_be32
#print axioms Fp.C19.header_roundtrip
#print axioms Fp.C19.rawFrame_ok
#print axioms Fp.C19.fixed_roundtrip
#print axioms Fp.C19.window_update_roundtrip
#print axioms Fp.C19.rst_roundtrip
#print axioms Fp.C19.flagged_roundtrip
#print axioms Fp.C19.ping_roundtrip
#print axioms Fp.C19.prio_bytes
#print axioms Fp.C19.priority_roundtrip
#print axioms Fp.C19.goaway_roundtrip
#print axioms Fp.C19.data_roundtrip
#print axioms Fp.C19.data_padded_roundtrip
#print axioms Fp.C19.settingsList_encode
#print axioms Fp.C19.settings_roundtrip
#print axioms Fp.C19.headers_roundtrip
#print axioms Fp.C19.conts_over_frames
#print axioms Fp.C19.header_block_over_frames
#print axioms Fp.C19.header_block_fields
#print axioms Fp.C19.gen_ok_parser_table
#print axioms Fp.C19.gen_ok_frame_types
#print axioms Fp.C19.gen_ok_flags
#print axioms Fp.C19.gen_ok_type_dispatch
#print axioms Fp.C19.gen_ok_frame_order
#print axioms Fp.C19.gen_ok_sizes
#print axioms Fp.C19.model_dispatch_matches_table
#print axioms Fp.C19.model_known_types
#print axioms Fp.C19.model_sizes
#print axioms Fp.C19.continuation_roundtrip
#print axioms Fp.C19.headers_priority_roundtrip
#print axioms Fp.C19.push_promise_roundtrip
#print axioms Fp.C19.headers_padded_roundtrip
#print axioms Fp.C19.headers_padded_priority_roundtrip
#print axioms Fp.C19.push_promise_padded_roundtrip
#print axioms Fp.C19.parsePayload_unknown
#print axioms Fp.C19.raw_unknown_roundtrip
#print axioms Fp.C19.raw_unknown_in_header_block
#print axioms Fp.C19.in_header_block_only_continuation
