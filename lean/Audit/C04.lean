import FpVerif.Properties.C04
#print axioms Fp.C04.gen_ok
#print axioms Fp.C04.capture_exact
#print axioms Fp.C04.segmentation_independent
#print axioms Fp.C04.getHello_pure
#print axioms Fp.C04.capture_exact_record
#print axioms Fp.C04.legal_len_ok
#print axioms Fp.C04.capture_none_invalid
#print axioms Fp.C04.capture_none_short
#print axioms Fp.C04.capture_stable
#print axioms Fp.C04.wrap_witness
