import FpVerif.Properties.C17
#print axioms Fp.C17.watcher_order
#print axioms Fp.C17.accept_loop
#print axioms Fp.C17.inv_step
#print axioms Fp.C17.inv_run
#print axioms Fp.C17.serve_returns_ErrServerClosed
#print axioms Fp.C17.returns_after_drain
#print axioms Fp.C17.handshake_guard
#print axioms Fp.C17.attempt_after_cancel_refused
#print axioms Fp.C17.unguarded_served_witness
