import FpVerif.Properties.C05
#print axioms Fp.C05.gen_ok
#print axioms Fp.C05.no_spoof_loop
#print axioms Fp.C05.no_spoof
#print axioms Fp.C05.lastFor_uniq
#print axioms Fp.C05.delivered
#print axioms Fp.C05.at_most_one
