import FpVerif.Properties.C15
#print axioms Fp.C15.gen_ok
#print axioms Fp.C15.isProbe_iff
#print axioms Fp.C15.uaProbe_iff
#print axioms Fp.C15.route_exclusive
#print axioms Fp.C15.disabled_forwards
