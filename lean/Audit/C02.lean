import FpVerif.Properties.C02
#print axioms Fp.C02.gen_ok
#print axioms Fp.C02.gen_ok_helpers
#print axioms Fp.C02.gen_ok_sigalg
#print axioms Fp.C02.ja4_of_hello
#print axioms Fp.C02.sampleHello_wf
#print axioms Fp.C02.ja4String_congr
#print axioms Fp.C02.perm_exts_pieces
#print axioms Fp.C02.ja4_perm
#print axioms Fp.C02.grease_cipher
#print axioms Fp.C02.grease_ext
#print axioms Fp.C02.grease_sigalg
#print axioms Fp.C02.grease_version
#print axioms Fp.C02.ja4_form
#print axioms Fp.C02.count_saturates
#print axioms Fp.C02.header_delivered
