import FpVerif.Properties.C03
#print axioms Fp.C03.gen_ok
#print axioms Fp.C03.captureAll_eq
#print axioms Fp.C03.marshal_capture_eq_spec
#print axioms Fp.C03.prio_limit
#print axioms Fp.C03.noBar_dec
#print axioms Fp.C03.noBar_append
#print axioms Fp.C03.noBar_join
#print axioms Fp.C03.noBar_dec02
#print axioms Fp.C03.count_bar
#print axioms Fp.C03.four_parts
#print axioms Fp.C03.non_h2_none
#print axioms Fp.C03.header_delivered
