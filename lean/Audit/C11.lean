import FpVerif.Properties.C11
#print axioms Fp.C11.closes_on_return
#print axioms Fp.C11.eventually_returns
#print axioms Fp.C11.handshake_timeout_cuts
#print axioms Fp.C11.handshake_timeout_enforced
#print axioms Fp.C11.idle_wired
#print axioms Fp.C11.handoff_block_witness
