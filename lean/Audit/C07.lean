import FpVerif.Properties.C07
#print axioms Fp.C07.runLocked_admissible
#print axioms Fp.C07.locked_no_torn
#print axioms Fp.C07.unlocked_torn_witness
#print axioms Fp.C07.current_protocol_locked
