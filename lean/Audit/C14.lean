import FpVerif.Properties.C14
#print axioms Fp.C14.handle_served
#print axioms Fp.C14.handle_disk
#print axioms Fp.C14.step_served
#print axioms Fp.C14.served_is_validated_pair
#print axioms Fp.C14.keeps_last_good
#print axioms Fp.C14.converges
#print axioms Fp.C14.converges_after_last_step
#print axioms Fp.C14.swap_keep_witness
