import FpVerif.Properties.C12
#print axioms Fp.C12.gen_ok
#print axioms Fp.C12.wrap32_id
#print axioms Fp.C12.outflow_add_correct
#print axioms Fp.C12.outflow_take_safe
#print axioms Fp.C12.inflow_take_enforces
#print axioms Fp.C12.inflow_add_returns
#print axioms Fp.C12.inflow_add_panics_iff
#print axioms Fp.C12.ledger_step
#print axioms Fp.C12.no_leak
#print axioms Fp.C12.tx_window_safe
#print axioms Fp.C12.tx_blocked_only_by_window
