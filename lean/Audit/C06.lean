import FpVerif.Properties.C06
#print axioms Fp.C06.apply_other
#print axioms Fp.C06.apply_congr
#print axioms Fp.C06.run_filter
#print axioms Fp.C06.attribution
#print axioms Fp.C06.no_shared_channel
#print axioms Fp.C06.per_connection_code_writes_no_shared_state
