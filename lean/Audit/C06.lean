import FpVerif.Properties.C06
#print axioms Fp.C06.apply_other
#print axioms Fp.C06.apply_congr
#print axioms Fp.C06.run_filter
#print axioms Fp.C06.attribution
#print axioms Fp.C06.no_shared_channel
