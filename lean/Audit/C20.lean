import FpVerif.Properties.C20
import FpVerif.Properties.C20_Trace
#print axioms Fp.C20.consume_spec
#print axioms Fp.C20.control_first_rr
#print axioms Fp.C20.control_first_random
#print axioms Fp.C20.findIdx_ready
#print axioms Fp.C20.popRR_stream
#print axioms Fp.C20.respects_windows_rr
#print axioms Fp.C20.pieces_concatenate
#print axioms Fp.C20.pop_none_iff_rr
#print axioms Fp.C20.push_conserves_rr
#print axioms Fp.C20.pop_conserves_rr
#print axioms Fp.C20.pop_keys_rr
#print axioms Fp.C20.pushRR_out
#print axioms Fp.C20.account_balanced
#print axioms Fp.C20.conservation_rr
#print axioms Fp.C20.tree_rooted
#print axioms Fp.C20.no_cycle
#print axioms Fp.C20.inv_init
#print axioms Fp.C20.takeFloating_none
#print axioms Fp.C20.inv_pop
#print axioms Fp.C20.step_ok
#print axioms Fp.C20.trace_accepts_rr_from
#print axioms Fp.C20.trace_accepts_rr
#print axioms Fp.C20.trace_tracks_rr
#print axioms Fp.C20.accepted_data_within_windows
#print axioms Fp.C20.accepted_none_means_nothing_sendable
