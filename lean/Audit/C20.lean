import FpVerif.Properties.C20
#print axioms Fp.C20.placeholder
