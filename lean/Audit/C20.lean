import FpVerif.Properties.C20
import FpVerif.Properties.C20_Gen
import FpVerif.Properties.C20_PrioExact
import FpVerif.Properties.C20_PrioWin
import FpVerif.Properties.C20_RandFifo
import FpVerif.Properties.C20_Random
import FpVerif.Properties.C20_Trace
#print axioms Fp.C20.consume_spec
#print axioms Fp.C20.control_first_rr
#print axioms Fp.C20.control_first_random
#print axioms Fp.C20.findIdx_ready
#print axioms Fp.C20.popRR_stream
#print axioms Fp.C20.respects_windows_rr
#print axioms Fp.C20.pieces_concatenate
#print axioms Fp.C20.pop_none_iff_rr
#print axioms Fp.C20.push_conserves_rr
#print axioms Fp.C20.pop_conserves_rr
#print axioms Fp.C20.pop_keys_rr
#print axioms Fp.C20.pushRR_out
#print axioms Fp.C20.account_balanced
#print axioms Fp.C20.conservation_rr
#print axioms Fp.C20.tree_rooted
#print axioms Fp.C20.no_cycle
#print axioms Fp.C20.gen_ok_consume
#print axioms Fp.C20.gen_ok_prio_pop
#print axioms Fp.C20.gen_ok_prio_defaults
#print axioms Fp.C20.model_defaults
#print axioms Fp.C20.model_budget
#print axioms Fp.C20.model_throttle
#print axioms Fp.C20.q_modNode_keep
#print axioms Fp.C20.q_addBytes_up
#print axioms Fp.C20.q_addBytes
#print axioms Fp.C20.popHere_exact
#print axioms Fp.C20.FoundAt.transfer
#print axioms Fp.C20.walkKids_at
#print axioms Fp.C20.walk_at
#print axioms Fp.C20.prio_pop_exact
#print axioms Fp.C20.prio_push_exact
#print axioms Fp.C20.prio_push_exact_reachable
#print axioms Fp.C20.SameQW.refl
#print axioms Fp.C20.SameQW.trans
#print axioms Fp.C20.SameQW.setParent
#print axioms Fp.C20.SameQW.setAll
#print axioms Fp.C20.SameQW.sortKids
#print axioms Fp.C20.found_popHere
#print axioms Fp.C20.Found.transfer
#print axioms Fp.C20.walkKids_spec
#print axioms Fp.C20.walk_spec
#print axioms Fp.C20.consumeN_spec
#print axioms Fp.C20.prio_pop_fifo_within_windows
#print axioms Fp.C20.prio_pop_none_keeps
#print axioms Fp.C20.control_first_prio
#print axioms Fp.C20.find_setQ
#print axioms Fp.C20.queueOf_setQueue_self
#print axioms Fp.C20.push_fifo_random
#print axioms Fp.C20.queueOf_none_notin
#print axioms Fp.C20.queueOf_of_mem
#print axioms Fp.C20.lenSum_dropEmpty
#print axioms Fp.C20.bytesSum_dropEmpty
#print axioms Fp.C20.push_conserves_rand
#print axioms Fp.C20.popRand_stream
#print axioms Fp.C20.respects_windows_random
#print axioms Fp.C20.fifo_random
#print axioms Fp.C20.ready_choice_pops
#print axioms Fp.C20.pop_none_random
#print axioms Fp.C20.pop_conserves_rand
#print axioms Fp.C20.accountRand_balanced
#print axioms Fp.C20.conservation_random
#print axioms Fp.C20.random_never_panics
#print axioms Fp.C20.inv_init
#print axioms Fp.C20.takeFloating_none
#print axioms Fp.C20.inv_pop
#print axioms Fp.C20.step_ok
#print axioms Fp.C20.trace_accepts_rr_from
#print axioms Fp.C20.trace_accepts_rr
#print axioms Fp.C20.trace_tracks_rr
#print axioms Fp.C20.accepted_data_within_windows
#print axioms Fp.C20.accepted_none_means_nothing_sendable
