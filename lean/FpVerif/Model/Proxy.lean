/-
Model of pkg/reverseproxy/handler.go (HTTPHandler.ServeHTTP, rewriteFunc, IsKubernetesProbeRequest)
together with the documented contract of net/http/httputil.ReverseProxy's prelude (clone the inbound
header, remove hop-by-hop headers, strip client forwarding headers because Rewrite is set) and of
ProxyRequest.SetURL / SetXForwarded. The httputil parts live in the standard library (assumed contract,
exercised by the differential); the handler.go parts are the code under verification.
-/
import FpVerif.Model.Common
namespace Fp.Proxy

/-- header map: canonical key ↦ values in order; keys unique -/
abbrev Hdr := List (Bytes × List Bytes)

def get (h : Hdr) (k : Bytes) : List Bytes := ((h.find? (·.1 == k)).map (·.2)).getD []
def has (h : Hdr) (k : Bytes) : Bool := h.any (·.1 == k)
def del (h : Hdr) (k : Bytes) : Hdr := h.filter (fun e => !(e.1 == k))
/-- `h[k] = vs` (map assignment, also for an empty / nil slice) -/
def assign (h : Hdr) (k : Bytes) (vs : List Bytes) : Hdr := del h k ++ [(k, vs)]

/-! ### textproto.CanonicalMIMEHeaderKey -/
def isTokenByte (c : UInt8) : Bool :=
  (48 ≤ c && c ≤ 57) || (65 ≤ c && c ≤ 90) || (97 ≤ c && c ≤ 122) ||
  [33, 35, 36, 37, 38, 39, 42, 43, 45, 46, 94, 95, 96, 124, 126].contains c

def canonLoop : Bool → Bytes → Bytes
  | _, [] => []
  | upper, c :: r =>
    let c' := if upper && 97 ≤ c && c ≤ 122 then c - 32
              else if !upper && 65 ≤ c && c ≤ 90 then c + 32 else c
    c' :: canonLoop (c' == 45) r

def canonKey (k : Bytes) : Bytes := if k.all isTokenByte then canonLoop true k else k

/-- `Header.Set/Del/Get` canonicalise their key argument -/
def hset (h : Hdr) (k v : Bytes) : Hdr := assign h (canonKey k) [v]
def hdel (h : Hdr) (k : Bytes) : Hdr := del h (canonKey k)

/-! ### helpers for the httputil contract -/
def trimOWS (b : Bytes) : Bytes :=
  let isWS := fun (c : UInt8) => c == 32 || c == 9
  ((b.dropWhile isWS).reverse.dropWhile isWS).reverse

def splitOnByte (sep : UInt8) (b : Bytes) : List Bytes :=
  let rec go (cur : Bytes) : Bytes → List Bytes
    | [] => [cur.reverse]
    | c :: r => if c == sep then cur.reverse :: go [] r else go (c :: cur) r
  go [] b

def lower (b : Bytes) : Bytes := b.map fun c => if 65 ≤ c && c ≤ 90 then c + 32 else c

/-- httpguts.HeaderValuesContainsToken (ASCII case-insensitive, comma separated, OWS trimmed) -/
def valuesContainToken (vs : List Bytes) (tok : Bytes) : Bool :=
  vs.any fun v => (splitOnByte 44 v).any fun t => lower (trimOWS t) == lower tok

def hopHeaders : List Bytes :=
  ["Connection", "Proxy-Connection", "Keep-Alive", "Proxy-Authenticate", "Proxy-Authorization", "Te",
   "Trailer", "Transfer-Encoding", "Upgrade"].map strBytes

def removeHopByHop (h : Hdr) : Hdr :=
  let toks := (get h (strBytes "Connection")).flatMap fun f =>
    ((splitOnByte 44 f).map trimOWS).filter (· ≠ [])
  let h := toks.foldl hdel h
  hopHeaders.foldl del h

/-- the part of ReverseProxy.ServeHTTP that runs before Rewrite -/
def prelude (inHdr : Hdr) : Hdr :=
  let upType := if valuesContainToken (get inHdr (strBytes "Connection")) (strBytes "Upgrade")
                then (get inHdr (strBytes "Upgrade")).headD [] else []
  let h := removeHopByHop inHdr
  let h := if valuesContainToken (get inHdr (strBytes "Te")) (strBytes "trailers")
           then hset h (strBytes "Te") (strBytes "trailers") else h
  let h := if upType ≠ [] then hset (hset h (strBytes "Connection") (strBytes "Upgrade")) (strBytes "Upgrade") upType else h
  [strBytes "Forwarded", strBytes "X-Forwarded-For", strBytes "X-Forwarded-Host", strBytes "X-Forwarded-Proto"].foldl del h

/-- net.SplitHostPort, host part (none = error) -/
def splitHost (hp : Bytes) : Option Bytes :=
  match hp.reverse.findIdx? (· == 58) with
  | none => none
  | some ri =>
    let i := hp.length - 1 - ri
    match hp with
    | 91 :: _ =>
      match hp.findIdx? (· == 93) with
      | none => none
      | some e =>
        if e + 1 == i then
          let host := (hp.take e).drop 1
          if (hp.drop 1).contains 91 || (hp.drop (e + 1)).contains 93 then none else some host
        else none
    | _ =>
      let host := hp.take i
      if host.contains 58 || hp.contains 91 || hp.contains 93 then none else some host

structure InReq where
  method : Bytes
  path : Bytes
  query : Bytes
  host : Bytes
  remoteAddr : Bytes
  tls : Bool
  hdr : Hdr
  deriving Repr

inductive Outcome | value (v : Bytes) | err
  deriving Repr, DecidableEq

structure Inj where
  name : Bytes
  out : Outcome
  deriving Repr

structure Cfg where
  toScheme : Bytes
  toHost : Bytes
  toPath : Bytes
  toQuery : Bytes
  preserveHost : Bool
  probe : Bool
  injectors : List Inj
  deriving Repr

structure OutReq where
  method : Bytes
  scheme : Bytes
  urlHost : Bytes
  path : Bytes
  query : Bytes
  host : Bytes            -- Out.Host ("" = use urlHost)
  hdr : Hdr
  deriving Repr

def XFF := strBytes "X-Forwarded-For"
def XFH := strBytes "X-Forwarded-Host"
def XFP := strBytes "X-Forwarded-Proto"

/-- ProxyRequest.SetXForwarded -/
def setXForwarded (i : InReq) (out : Hdr) : Hdr :=
  let out := match splitHost i.remoteAddr with
    | some ip =>
      let prior := get out XFF
      assign out XFF [if prior.isEmpty then ip else join (strBytes ", ") prior ++ strBytes ", " ++ ip]
    | none => del out XFF
  let out := assign out XFH [i.host]
  assign out XFP [if i.tls then strBytes "https" else strBytes "http"]

def singleJoiningSlash (a b : Bytes) : Bytes :=
  let aslash := a.getLast? == some 47
  let bslash := b.head? == some 47
  if aslash && bslash then a ++ b.drop 1
  else if !aslash && !bslash then a ++ [47] ++ b
  else a ++ b

/-- the injector loop of rewriteFunc (after the fix for D1: the inbound value under an injected
name is removed before the injector is consulted) -/
def injectLoop (h : Hdr) (injs : List Inj) : Hdr :=
  injs.foldl (fun h j =>
    let h := hdel h j.name
    match j.out with
    | .value v => if v.isEmpty then h else hset h j.name v
    | .err => h) h

/-- `rewriteFunc` -/
def rewrite (c : Cfg) (i : InReq) : OutReq :=
  let h := prelude i.hdr
  let q := if c.toQuery.isEmpty || i.query.isEmpty then c.toQuery ++ i.query else c.toQuery ++ [38] ++ i.query
  let h := assign h XFF (get i.hdr XFF)
  let h := setXForwarded i h
  let h := injectLoop h c.injectors
  let h := if has h (strBytes "User-Agent") then h else hset h (strBytes "User-Agent") []
  { method := i.method, scheme := c.toScheme, urlHost := c.toHost, path := singleJoiningSlash c.toPath i.path,
    query := q, host := if c.preserveHost then i.host else [], hdr := h }

/-- `IsKubernetesProbeRequest`: `strings.HasPrefix(r.UserAgent(), "kube-probe/")`; `UserAgent()` is the
first User-Agent value -/
def isProbe (i : InReq) : Bool :=
  (strBytes "kube-probe/").isPrefixOf ((get i.hdr (strBytes "User-Agent")).headD [])

inductive Routed
  | local (status : Nat) (body : Bytes)
  | forward (o : OutReq)
  deriving Repr

/-- `HTTPHandler.ServeHTTP` -/
def serve (c : Cfg) (i : InReq) : Routed :=
  if c.probe && isProbe i then .local 200 (strBytes "OK") else .forward (rewrite c i)

end Fp.Proxy
