/-
Model of the HTTP/2 server's reaction to client frames (pkg/http2/server.go: processFrameFromReader, processFrame,
processSettings, processHeaders, processTrailerHeaders, newWriterAndRequest (request-shape checks), processData,
processResetStream, processPriority, processWindowUpdate, processGoAway, resetStream, goAway, closeStream, state()).
Client frames arrive after the framer (C19); header blocks are abstracted to the verdict classes the framer /
request construction distinguish. Observable reactions: user handler started, RST_STREAM, GOAWAY.
-/
import FpVerif.Model.Flow
namespace Fp.H2S

/-- ErrCode -/
def NO : Nat := 0
def PROTOCOL : Nat := 1
def FLOW_CONTROL : Nat := 3
def STREAM_CLOSED : Nat := 5
def FRAME_SIZE : Nat := 6
def REFUSED_STREAM : Nat := 7

inductive StState | open_ | halfClosedRemote
  deriving Repr, DecidableEq

structure Stream where
  id : Nat
  state : StState
  gotTrailer : Bool := false
  declLen : Option Nat := none     -- declared Content-Length (none = -1)
  bodyBytes : Nat := 0
  flow : Int                        -- send window of the stream
  deriving Repr, DecidableEq

structure Conn where
  sawFirstSettings : Bool := false
  maxClientStreamID : Nat := 0
  streams : List Stream := []
  advMaxStreams : Nat
  unackedSettings : Int := 1
  inGoAway : Bool := false
  goAwayCode : Nat := 0
  flow : Int := 65535               -- connection send window
  initialWindow : Int := 65535      -- SETTINGS_INITIAL_WINDOW_SIZE of the peer
  deriving Repr, DecidableEq

inductive Reaction
  | handler (sid : Nat)
  | rst (sid code : Nat)
  | goaway (last code : Nat)
  deriving Repr, DecidableEq

/-- what the framer + request construction make of a header block -/
inductive HdrClass
  | request (contentLength : Option Nat)   -- well-formed request (any method but CONNECT)
  | connect                                -- well-formed CONNECT
  | framerInvalid                          -- readMetaFrame: StreamError PROTOCOL (bad field, pseudo after regular, unknown / duplicate / mixed pseudo)
  | badShape                               -- passes the framer, rejected by newWriterAndRequest (missing :method/:path/:scheme, CONNECT with :path)
  | trailers (valid : Bool)                -- no pseudo-header fields; `valid`: all names are legal trailer names
  | pseudoTrailers                         -- request pseudo-headers only (legal for the framer), used on an existing stream
  deriving Repr, DecidableEq

inductive Ev
  | settings (ack : Bool) (ss : List (Nat × Nat))
  | headers (sid : Nat) (endStream : Bool) (prioDep : Option Nat) (cls : HdrClass) (block : Bool)
  | data (sid len : Nat) (endStream : Bool)
  | rst (sid : Nat)
  | priority (sid dep : Nat)
  | windowUpdate (sid inc : Nat)
  | ping
  | goaway
  | pushPromise (sid : Nat)
  | unknown
  | readConnError (code : Nat)             -- the framer rejected the frame with a connection error
  | readStreamError (sid code : Nat)       -- the framer rejected the frame with a stream error
  | tooLarge
  deriving Repr, DecidableEq

def findStream (c : Conn) (sid : Nat) : Option Stream := c.streams.find? (·.id == sid)
def removeStream (c : Conn) (sid : Nat) : Conn := { c with streams := c.streams.filter (fun s => !(s.id == sid)) }
def updateStream (c : Conn) (s : Stream) : Conn := { c with streams := c.streams.map fun x => if x.id == s.id then s else x }

/-- `state(streamID)` for ids without an entry: closed if already used, else idle -/
def isIdle (c : Conn) (sid : Nat) : Bool :=
  (findStream c sid).isNone && (if sid % 2 == 1 then decide (sid > c.maxClientStreamID) else true)

/-- `goAway(code)` -/
def goAway (c : Conn) (code : Nat) : Conn × List Reaction :=
  if c.inGoAway then ({ c with goAwayCode := if c.goAwayCode = NO then code else c.goAwayCode }, [])
  else ({ c with inGoAway := true, goAwayCode := code }, [.goaway c.maxClientStreamID code])

/-- a ConnectionError returned by processFrame: the offending frame's stream id is folded into the last id -/
def connErr (c : Conn) (frameSid code : Nat) : Conn × List Reaction :=
  goAway { c with maxClientStreamID := max c.maxClientStreamID frameSid } code

/-- a StreamError: RST_STREAM is written; a stream with that id is then closed (wroteFrame → closeStream) -/
def streamErr (c : Conn) (sid code : Nat) : Conn × List Reaction := (removeStream c sid, [.rst sid code])

def settingValid (s : Nat × Nat) : Option Nat :=
  if s.1 = 2 ∧ s.2 ≠ 0 ∧ s.2 ≠ 1 then some PROTOCOL
  else if s.1 = 4 ∧ s.2 > 2147483647 then some FLOW_CONTROL
  else if s.1 = 5 ∧ (s.2 < 16384 ∨ s.2 > 16777215) then some PROTOCOL
  else if s.1 = 8 ∧ s.2 ≠ 0 ∧ s.2 ≠ 1 then some PROTOCOL
  else none

def hasDup : List Nat → Bool
  | [] => false
  | x :: r => r.contains x || hasDup r

/-- `ForeachSetting(processSetting)`: first failing setting aborts -/
def applySettings (c : Conn) : List (Nat × Nat) → Conn × Option Nat
  | [] => (c, none)
  | s :: r =>
    match settingValid s with
    | some code => (c, some code)
    | none =>
      if s.1 = 4 then
        let growth : Int := (s.2 : Int) - c.initialWindow
        let c := { c with initialWindow := s.2 }
        let grown := c.streams.map fun st => (st, Flow.outflowAdd st.flow growth)
        if grown.any (fun p => !p.2.2) then
          -- streams before the failing one keep their new window; the connection is torn down anyway
          (c, some FLOW_CONTROL)
        else applySettings { c with streams := grown.map fun p => { p.1 with flow := p.2.1 } } r
      else applySettings c r

/-- `processFrame` / `processFrameFromReader` for one client frame -/
def step (c : Conn) (e : Ev) : Conn × List Reaction :=
  match e with
  -- errors raised by the frame reader never reach processFrame
  | .readConnError code => goAway c code
  | .readStreamError sid code => streamErr c sid code
  | .tooLarge => goAway c FRAME_SIZE
  | _ =>
  let frameSid : Nat := match e with
    | .headers sid .. => sid | .data sid .. => sid | .rst sid => sid | .priority sid _ => sid
    | .windowUpdate sid _ => sid | .pushPromise sid => sid | _ => 0
  -- first frame must be SETTINGS
  let isSettings := match e with | .settings .. => true | _ => false
  if !c.sawFirstSettings ∧ !isSettings then connErr c frameSid PROTOCOL else
  let c := { c with sawFirstSettings := true }
  -- after GOAWAY: everything after an error, and new streams after a graceful one, is discarded
  if c.inGoAway ∧ (c.goAwayCode ≠ NO ∨ frameSid > c.maxClientStreamID) then (c, []) else
  match e with
  | .settings ack ss =>
    if ack then
      if c.unackedSettings - 1 < 0 then connErr { c with unackedSettings := c.unackedSettings - 1 } 0 PROTOCOL
      else ({ c with unackedSettings := c.unackedSettings - 1 }, [])
    else if ss.length > 100 ∨ hasDup (ss.map (·.1)) then connErr c 0 PROTOCOL
    else
      match applySettings c ss with
      | (c, some code) => connErr c 0 code
      | (c, none) => (c, [])
  | .headers sid endStream prioDep cls block =>
    if sid % 2 ≠ 1 then connErr c sid PROTOCOL else
    match findStream c sid with
    | some st =>
      if st.state = .halfClosedRemote then streamErr c sid STREAM_CLOSED
      else if st.gotTrailer then connErr c sid PROTOCOL
      else
        let c := updateStream c { st with gotTrailer := true }
        if !endStream then streamErr c sid PROTOCOL
        else match cls with
          -- trailer names are only validated when the request announced trailers (st.trailer != nil); the
          -- modelled requests do not, so any pseudo-header-free block ends the stream
          | .trailers _ => (updateStream c { st with gotTrailer := true, state := .halfClosedRemote }, [])
          | _ => streamErr c sid PROTOCOL      -- a header block with pseudo-header fields as trailers
    | none =>
      if sid ≤ c.maxClientStreamID then connErr c sid PROTOCOL else
      let c := { c with maxClientStreamID := sid }
      if c.streams.length + 1 > c.advMaxStreams then
        streamErr c sid (if c.unackedSettings = 0 then PROTOCOL else REFUSED_STREAM)
      else if prioDep = some sid then ({ c with }, [.rst sid PROTOCOL])      -- stream created, reset, closed
      else match cls with
        | .request cl =>
          if block then
            ({ c with streams := c.streams ++ [{ id := sid, state := if endStream then .halfClosedRemote else .open_,
                                                 declLen := if endStream then none else cl, flow := c.initialWindow }] },
             [.handler sid])
          else (c, [.handler sid] ++ (if endStream then [] else [.rst sid NO]))   -- handler returns: response, stream closed
        | .connect =>
          if block then
            ({ c with streams := c.streams ++ [{ id := sid, state := if endStream then .halfClosedRemote else .open_, flow := c.initialWindow }] },
             [.handler sid])
          else (c, [.handler sid] ++ (if endStream then [] else [.rst sid NO]))
        | .pseudoTrailers =>   -- :method, :scheme, :path only: a well-formed request (the authority is optional)
          (c, [.handler sid] ++ (if endStream then [] else [.rst sid NO]))
        | _ => (c, [.rst sid PROTOCOL])
  | .data sid _len endStream =>
    if isIdle c sid then connErr c sid PROTOCOL else
    match findStream c sid with
    | none => (c, [.rst sid STREAM_CLOSED])
    | some st =>
      if st.state ≠ .open_ ∨ st.gotTrailer then streamErr c sid STREAM_CLOSED
      else
        match st.declLen with
        | some d =>
          if st.bodyBytes + _len > d then streamErr c sid PROTOCOL
          else (updateStream c { st with bodyBytes := st.bodyBytes + _len, state := if endStream then .halfClosedRemote else .open_ }, [])
        | none => (updateStream c { st with bodyBytes := st.bodyBytes + _len, state := if endStream then .halfClosedRemote else .open_ }, [])
  | .rst sid =>
    if isIdle c sid then connErr c sid PROTOCOL else (removeStream c sid, [])
  | .priority sid dep => if sid = dep then streamErr c sid PROTOCOL else (c, [])
  | .windowUpdate sid inc =>
    if sid ≠ 0 then
      if isIdle c sid then connErr c sid PROTOCOL else
      match findStream c sid with
      | none => (c, [])
      | some st =>
        let (n, ok) := Flow.outflowAdd st.flow inc
        if ok then (updateStream c { st with flow := n }, []) else streamErr c sid FLOW_CONTROL
    else
      let (n, ok) := Flow.outflowAdd c.flow inc
      if ok then ({ c with flow := n }, []) else goAway c FLOW_CONTROL
  | .ping => (c, [])
  | .goaway => goAway c NO
  | .pushPromise sid => connErr c sid PROTOCOL
  | .unknown => (c, [])
  | _ => (c, [])

/-- after a GOAWAY with an error code nothing more is written (scheduleFrameWrite stops popping frames) and,
for errors raised by the frame reader, nothing more is read: the connection is dead to the client -/
def dead (c : Conn) : Bool := c.inGoAway && c.goAwayCode != NO

def stepObs (c : Conn) (e : Ev) : Conn × List Reaction := if dead c then (c, []) else step c e

def run (c : Conn) : List Ev → List (List Reaction)
  | [] => []
  | e :: r => (stepObs c e).2 :: run (stepObs c e).1 r

end Fp.H2S
