/-
Model of the HTTP/2 fingerprint:
  capture  = the four blocks added to `serverConn.processFrame` (pkg/http2/server.go)
  marshal  = `HTTP2FingerprintingFrames.Marshal` (pkg/metadata/http2.go)
-/
import FpVerif.Model.Common
namespace Fp.H2Fp

structure Prio where
  stream : Nat
  dep : Nat
  excl : Bool
  weight : Nat          -- wire weight byte 0..255
  deriving Repr, DecidableEq

/-- the frames `processFrame` distinguishes (after the framer); header blocks arrive reassembled
(MetaHeadersFrame), carrying the field NAMES in order. -/
inductive Frame
  | settings (ack : Bool) (ss : List (Nat × Nat))
  | windowUpdate (stream inc : Nat)
  | priority (p : Prio)
  | headers (stream : Nat) (prio : Option Prio) (names : List Bytes)
  | other
  deriving Repr, DecidableEq

/-- `metadata.HTTP2FingerprintingFrames` -/
structure Frames where
  settings : List (Nat × Nat) := []
  wu : Nat := 0
  prios : List Prio := []
  headers : List Bytes := []
  deriving Repr, DecidableEq

/-- the capture blocks of `processFrame`, one delivered frame -/
def capture (m : Frames) : Frame → Frames
  | .settings ack ss => if ack then m else { m with settings := ss }
  | .windowUpdate _ inc => if m.wu = 0 then { m with wu := inc } else m
  | .priority p => { m with prios := m.prios ++ [p] }
  | .headers _ prio names =>
    let m := { m with headers := names }
    match prio with
    | some p => { m with prios := m.prios ++ [p] }
    | none => m
  | .other => m

def captureAll (hist : List Frame) : Frames := hist.foldl capture {}

/-- loop `for i, s := range f.Settings` -/
def settingsPart : List (Nat × Nat) → Bytes
  | [] => []
  | s :: r => (dec s.1 ++ [58] ++ dec s.2) ++ (r.flatMap fun s => [59] ++ (dec s.1 ++ [58] ++ dec s.2))

def prioEntry (p : Prio) : Bytes :=
  dec p.stream ++ [58] ++ (if p.excl then [49, 58] else [48, 58]) ++ dec p.dep ++ [58] ++ dec (p.weight + 1)

def prioPart : List Prio → Bytes
  | [] => []
  | p :: r => prioEntry p ++ (r.flatMap fun p => [44] ++ prioEntry p)

/-- the header loop with its `wrotePseudoHeader` flag -/
def pseudoLoop : Bool → List Bytes → Bytes
  | _, [] => []
  | wrote, n :: r =>
    match n with
    | c0 :: c1 :: _ =>
      if c0 = 58 then (if wrote then [44] else []) ++ [c1] ++ pseudoLoop true r
      else pseudoLoop wrote r
    | _ => pseudoLoop wrote r

/-- `Marshal(maxPriorityFrames)`; `maxPriorityFrames` is a Go `uint`, `min` with the length is exact. -/
def marshal (m : Frames) (max : Nat) : Bytes :=
  let k := if m.prios.length < max then m.prios.length else max
  settingsPart m.settings ++ [124] ++ dec02 m.wu ++ [124] ++
    (if k = 0 then [48, 124] else prioPart (m.prios.take k) ++ [124]) ++
    pseudoLoop false m.headers

end Fp.H2Fp
