/-
Event-level models for the per-connection lifecycle of proxyserver.Server (C10, C11, C16, C17).
Goroutines are interleavings of atomic events; what is atomic / which calls lie on which path is not
assumed but regenerated from the source into FpVerif/Gen/Lifecycle.lean and matched by the theorems.
-/
import FpVerif.Model.Common
namespace Fp.Lifecycle

/-- how a connection's `serveConn` ends -/
inductive Outcome
  | handshakeFailed        -- TLS handshake error (garbage, plain HTTP, timeout, abort)
  | captureFailed          -- GetClientHello error after a successful handshake
  | served (proto : String) -- served over the negotiated protocol ("h2", "http/1.1", "")
  deriving Repr, DecidableEq

/-- labels (ok, negotiated_protocol) of requests_total -/
abbrev Label := String × String

/-- the label the property demands for an outcome -/
def specLabel : Outcome → Label
  | .handshakeFailed => ("0", "")
  | .captureFailed => ("0", "")
  | .served p => ("1", p)

/-- exit path of serveConn taken by an outcome (index into the regenerated path list) -/
def pathOf : Outcome → Nat
  | .handshakeFailed => 0
  | .captureFailed => 1
  | .served _ => 2

/-- the metric calls on an exit path, as (ok, protocol) with the protocol expression instantiated -/
def callsOnPath (paths : List (List (String × Option String))) (o : Outcome) : List Label :=
  ((paths.getD (pathOf o) []).map fun (ok, p) =>
    (ok, match p, o with
         | some lit, _ => lit
         | none, .served proto => proto
         | none, _ => "?"))

/-- a counter vector as the multiset (list) of increments applied; increments commute -/
def countOf (incs : List Label) (l : Label) : Nat := incs.count l

/-! ### Go's defer / panic / recover rule (spec: "The return value of recover is nil if ... recover was
not called directly by a deferred function.") -/

inductive DeferForm
  | directRecoverCall        -- `defer recover()`
  | closureCallingRecover    -- `defer func() { ... recover() ... }()`
  | other
  deriving Repr, DecidableEq

def DeferForm.ofString (s : String) : DeferForm :=
  if s = "direct-recover-call" then .directRecoverCall
  else if s = "closure-calling-recover" then .closureCallingRecover
  else .other

/-- a panic raised in the function body is stopped iff some deferred FUNCTION calls recover directly -/
def stopsPanic (defers : List DeferForm) : Bool := defers.any (· == .closureCallingRecover)

end Fp.Lifecycle
