/-
Model of the HTTP/2 write schedulers (pkg/http2/writesched.go, writesched_roundrobin.go, writesched_random.go):
writeQueue, FrameWriteRequest.Consume (with the stream / connection send windows and the max frame size it
reads and updates), the round-robin ring, and the random scheduler as a NONDETERMINISTIC choice among ready
streams (Go map iteration order): theorems hold for every choice.
-/
import FpVerif.Model.Common
namespace Fp.Sched

/-- a queued frame: `sid = none` means a control frame (wr.stream == nil); `size` = DataSize (0 for non-DATA) -/
structure Req where
  uid : Nat
  sid : Option Nat
  isData : Bool
  size : Nat
  es : Bool
  deriving Repr, DecidableEq

structure St where
  control : List Req
  queues : List (Nat × List Req)        -- round-robin: ring order starting at `head`; random: any order
  swin : List (Nat × Int)               -- stream send windows (outflow.n of each stream known to the harness)
  cwin : Int                            -- connection send window
  maxFrame : Int
  deriving Repr, DecidableEq

def St.init : St := { control := [], queues := [], swin := [], cwin := 65535, maxFrame := 16384 }

def win (s : St) (sid : Nat) : Int := ((s.swin.find? (·.1 == sid)).map (·.2)).getD 0
def setWin (s : St) (sid : Nat) (v : Int) : St :=
  { s with swin := (s.swin.filter (fun e => !(e.1 == sid))) ++ [(sid, v)] }

def queueOf (s : St) (sid : Nat) : Option (List Req) := (s.queues.find? (·.1 == sid)).map (·.2)
def isOpen (s : St) (sid : Nat) : Bool := s.queues.any (·.1 == sid)

/-- `outflow.available()` -/
def available (s : St) (sid : Nat) : Int := if s.cwin < win s sid then s.cwin else win s sid

inductive Popped
  | frame (r : Req)                       -- a whole frame
  | piece (r : Req) (len : Nat)           -- the first `len` bytes of DATA frame `r` (END_STREAM cleared)
  deriving Repr, DecidableEq

/-- bytes `Consume(MaxInt32)` may release now: min(MaxInt32, stream window, connection window, max frame size) -/
def allowed (s : St) (sid : Nat) : Int := min (min (2147483647 : Int) (available s sid)) s.maxFrame

/-- `writeQueue.consume(MaxInt32)` on the queue of stream `sid`: (result, new queue, bytes taken) -/
def consume (s : St) (sid : Nat) (q : List Req) : Option (Popped × List Req × Nat) :=
  match q with
  | [] => none
  | r :: rest =>
    if !r.isData || r.size = 0 then some (.frame r, rest, 0) else
    if allowed s sid ≤ 0 then none else
    if (r.size : Int) > allowed s sid then
      some (.piece r (allowed s sid).toNat, { r with size := r.size - (allowed s sid).toNat } :: rest, (allowed s sid).toNat)
    else some (.frame r, rest, r.size)

def takeWin (s : St) (sid : Nat) (n : Nat) : St :=
  { setWin s sid (win s sid - n) with cwin := s.cwin - n }

def setQueue (s : St) (sid : Nat) (q : List Req) : St :=
  { s with queues := s.queues.map fun e => if e.1 == sid then (sid, q) else e }

/-- a stream is ready iff consuming from its queue yields something -/
def ready (s : St) (e : Nat × List Req) : Bool := (consume s e.1 e.2).isSome

inductive Op
  | open_ (sid : Nat)
  | close (sid : Nat)
  | push (r : Req)
  | pop
  | addWin (sid : Nat) (n : Int)
  | addConn (n : Int)
  | setMax (n : Int)
  deriving Repr, DecidableEq

inductive Out
  | none_                     -- Pop returned ok = false / a void operation
  | popped (p : Popped)
  | panic
  deriving Repr, DecidableEq

def rotate {α} (l : List α) (k : Nat) : List α := l.drop k ++ l.take k

/-- round-robin `Pop`: control first; else the first ready stream in ring order, then head moves past it -/
def popRR (s : St) : St × Out :=
  match s.control with
  | c :: rest => ({ s with control := rest }, .popped (.frame c))
  | [] =>
    match s.queues.findIdx? (ready s) with
    | none => (s, .none_)
    | some i =>
      match s.queues[i]? with
      | none => (s, .none_)
      | some (sid, q) =>
        match consume s sid q with
        | none => (s, .none_)
        | some (p, q', n) =>
          let s := takeWin (setQueue s sid q') sid n
          ({ s with queues := rotate s.queues (i + 1) }, .popped p)

/-- `Push` (round robin): control queue for control frames and for non-DATA frames of unknown streams -/
def pushRR (s : St) (r : Req) : St × Out :=
  match r.sid with
  | none => ({ s with control := s.control ++ [r] }, .none_)
  | some sid =>
    match queueOf s sid with
    | none => if r.isData && r.size > 0 then (s, .panic) else ({ s with control := s.control ++ [r] }, .none_)
    | some q => (setQueue s sid (q ++ [r]), .none_)

def stepRR (s : St) : Op → St × Out
  | .open_ sid => if isOpen s sid then (s, .panic) else ({ s with queues := s.queues ++ [(sid, [])] }, .none_)
  | .close sid => ({ s with queues := s.queues.filter (fun e => !(e.1 == sid)) }, .none_)
  | .push r => pushRR s r
  | .pop => popRR s
  | .addWin sid n => (setWin s sid (win s sid + n), .none_)
  | .addConn n => ({ s with cwin := s.cwin + n }, .none_)
  | .setMax n => ({ s with maxFrame := n }, .none_)

/-- random scheduler: `Push` creates the queue on demand; `OpenStream` is a no-op; queues that become
empty are dropped; `Pop` takes ANY ready stream — `choice` names it (an index into the ready streams) -/
def pushRand (s : St) (r : Req) : St × Out :=
  match r.sid with
  | none => ({ s with control := s.control ++ [r] }, .none_)
  | some sid =>
    match queueOf s sid with
    | none => ({ s with queues := s.queues ++ [(sid, [r])] }, .none_)
    | some q => (setQueue s sid (q ++ [r]), .none_)

def popRandAt (s : St) (sid : Nat) : St × Out :=
  match s.control with
  | c :: rest => ({ s with control := rest }, .popped (.frame c))
  | [] =>
    match queueOf s sid with
    | none => (s, .none_)
    | some q =>
      match consume s sid q with
      | none => (s, .none_)
      | some (p, q', n) =>
        let s := takeWin (setQueue s sid q') sid n
        ({ s with queues := s.queues.filter (fun e => !e.2.isEmpty) }, .popped p)

end Fp.Sched
