/-
Model of pkg/hack/hajack_clienthello_conn.go: the tee that captures the first TLS record.
`expectedLen` is a Go uint16 (arithmetic mod 2^16); the buffer is a bytes.Buffer that is only ever
appended to and truncated.
-/
import FpVerif.Model.Common
import FpVerif.Gen.Capture
namespace Fp.Capture
open Fp.Gen.Capture

structure St where
  buf : Bytes := []
  exp : Nat := 0            -- expectedLen (uint16)
  deriving Repr, DecidableEq

inductive Err | incomplete | notHandshake | badVersion
  deriving Repr, DecidableEq

/-- `hasCompleteClientHello`: may truncate the buffer. -/
def hasComplete (s : St) : Bool × St :=
  if s.buf.length = 0 ∨ s.exp = 0 then (false, s)
  else if s.buf.length < s.exp then (false, s)
  else (true, { s with buf := s.buf.take s.exp })

def byteAt (b : Bytes) (i : Nat) : Nat := (b.getD i 0).toNat

/-- `tryParseClientHello`. -/
def tryParse (s : St) : Option Err × St :=
  let (c, s) := hasComplete s
  if c then (none, s) else
  if s.buf.length < 5 then (some .incomplete, s) else
  if byteAt s.buf 0 ≠ recordTypeHandshake then (some .notHandshake, s) else
  let vers := byteAt s.buf 1 * 256 + byteAt s.buf 2
  if vers < versMin ∨ vers > versMax then (some .badVersion, s) else
  let hl := byteAt s.buf 3 * 256 + byteAt s.buf 4
  let s := { s with exp := (recordHeaderLen + hl) % expectedLenMod }
  let (c, s) := hasComplete s
  if c then (none, s) else (some .incomplete, s)

/-- one `Read` of the wrapper: the underlying conn delivered `chunk` (with `err = nil` iff `ok`);
the caller receives exactly `chunk` and the same error (the wrapper never touches `b[:n]`). -/
def read (s : St) (chunk : Bytes) (ok : Bool := true) : St :=
  if !ok then s else
  let (c, s) := hasComplete s
  if c then s else (tryParse { s with buf := s.buf ++ chunk }).2

/-- `GetClientHello`. -/
def getHello (s : St) : Except Err Bytes × St :=
  match tryParse s with
  | (none, s) => (.ok s.buf, s)
  | (some e, s) => (.error e, s)

def feed (s : St) (chunks : List Bytes) : St := chunks.foldl (fun s c => read s c) s

end Fp.Capture
