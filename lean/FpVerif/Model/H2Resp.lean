/-
Model of the status-code gates on the response path of the forked HTTP/2 server (pkg/http2/http2.go
bodyAllowedForStatus, pkg/http2/server.go checkWriteHeaderCode).
-/
namespace Fp.H2Resp

/-- `bodyAllowedForStatus(status)` -/
def bodyAllowed (status : Nat) : Bool :=
  if status ≥ 100 ∧ status ≤ 199 then false
  else if status = 204 then false
  else if status = 304 then false
  else true

/-- `checkWriteHeaderCode(code)` does not panic -/
def codeAccepted (code : Nat) : Bool := !(code < 100 || code > 999)

end Fp.H2Resp
