/-
Model of the HTTP/2 priority write scheduler (pkg/http2/writesched_priority.go).

Pointers become indices into an append-only heap (`ptr`); `nodes` (the Go map) maps stream ids to pointers, so a
stale pointer kept in `closedNodes` / `idleNodes` is distinguishable from a newer node with the same stream id.
The sibling lists (kids / prev / next) are represented by the parent pointer plus a link stamp: `setParent` always
inserts at the head of the new parent's list, so the kids of `p` in list order are the nodes whose parent is `p`,
most recently linked first. The dependency structure therefore IS the parent function; "it is a tree rooted at
stream 0" is the statement that every node of the map has a finite parent chain ending at the root (Properties/C20).

`sort.Sort` is modelled for at most 12 siblings, where Go's pdqsort is plain insertion sort; the comparator works on
float64 (Lean `Float` is IEEE double as well) and on `uint8` weights (`weight+1` wraps to 0 for 255, as in Go).
-/
import FpVerif.Model.Sched
namespace Fp.Prio
open Fp.Sched

inductive NState | open_ | closed | idle
  deriving Repr, DecidableEq

structure PNode where
  id : Nat
  weight : Nat := 15
  state : NState
  bytes : Int := 0
  subtreeBytes : Int := 0
  parent : Option Nat := none      -- pointer
  stamp : Nat := 0                 -- when it was linked to `parent`
  q : List Req := []
  deriving Repr, DecidableEq

structure PSt where
  heap : List PNode
  nodes : List (Nat × Nat)         -- stream id ↦ pointer
  maxID : Nat := 0
  closedNodes : List Nat := []
  idleNodes : List Nat := []
  maxClosed : Nat
  maxIdle : Nat
  throttle : Int                   -- writeThrottleLimit (int32)
  enableThrottle : Bool
  clock : Nat := 0                 -- link stamps
  win : St                         -- stream / connection send windows and max frame size (Sched.St; queues unused)
  deriving Repr, DecidableEq

def PSt.init (maxClosed maxIdle : Nat) (throttle : Bool) : PSt :=
  { heap := [{ id := 0, weight := 0, state := .open_ }], nodes := [(0, 0)], maxClosed := maxClosed, maxIdle := maxIdle,
    throttle := if throttle then 1024 else 2147483647, enableThrottle := throttle, win := St.init }

def lookup (s : PSt) (id : Nat) : Option Nat := (s.nodes.find? (·.1 == id)).map (·.2)
def node (s : PSt) (p : Nat) : PNode := s.heap.getD p { id := 0, state := .closed }
def setNode (s : PSt) (p : Nat) (n : PNode) : PSt := { s with heap := s.heap.set p n }
def modNode (s : PSt) (p : Nat) (f : PNode → PNode) : PSt := setNode s p (f (node s p))

/-- `n.setParent(parent)`; the caller has excluded `n == parent` (Go panics) -/
def setParent (s : PSt) (n : Nat) (parent : Option Nat) : PSt :=
  if (node s n).parent = parent then s
  else { modNode s n (fun x => { x with parent := parent, stamp := s.clock + 1 }) with clock := s.clock + 1 }

def insertDesc (s : PSt) (p : Nat) : List Nat → List Nat
  | [] => [p]
  | x :: r => if (node s p).stamp > (node s x).stamp then p :: x :: r else x :: insertDesc s p r

/-- the kids list of `p` in Go's list order -/
def kidsOf (s : PSt) (p : Nat) : List Nat :=
  ((List.range s.heap.length).filter fun c => (node s c).parent = some p).foldl (fun acc c => insertDesc s c acc) []

/-- `n.addBytes(b)` -/
def addBytes (s : PSt) (n : Nat) (b : Int) : PSt :=
  let s := modNode s n (fun x => { x with bytes := x.bytes + b })
  let rec up (fuel : Nat) (s : PSt) (p : Option Nat) : PSt :=
    match fuel, p with
    | 0, _ => s
    | _, none => s
    | fuel + 1, some q => up fuel (modNode s q (fun x => { x with subtreeBytes := x.subtreeBytes + b })) (node s q).parent
  up (s.heap.length + 1) s (some n)

/-- `removeNode(n)` -/
def removeNode (s : PSt) (n : Nat) : PSt :=
  -- `for n.kids != nil { n.kids.setParent(n.parent) }`: head first (n.parent does not change in the loop)
  let g := (node s n).parent
  let s := (kidsOf s n).foldl (fun s k => setParent s k g) s
  let s := setParent s n none
  { s with nodes := s.nodes.filter fun e => !(e.1 == (node s n).id) }

/-- `addClosedOrIdleNode` on the closed list -/
def addClosed (s : PSt) (n : Nat) : PSt :=
  if s.maxClosed = 0 then s else
  let s := if s.closedNodes.length = s.maxClosed then
      match s.closedNodes with
      | x :: rest => { removeNode s x with closedNodes := rest }
      | [] => s
    else s
  { s with closedNodes := s.closedNodes ++ [n] }

def addIdle (s : PSt) (n : Nat) : PSt :=
  if s.maxIdle = 0 then s else
  let s := if s.idleNodes.length = s.maxIdle then
      match s.idleNodes with
      | x :: rest => { removeNode s x with idleNodes := rest }
      | [] => s
    else s
  { s with idleNodes := s.idleNodes ++ [n] }

inductive POut
  | none_
  | popped (p : Popped)
  | panic
  deriving Repr, DecidableEq

def alloc (s : PSt) (n : PNode) : PSt × Nat := ({ s with heap := s.heap ++ [n] }, s.heap.length)

/-- `OpenStream(id, {PusherID: 0})` (with the D7 repair: a node that leaves the idle state leaves the idle list) -/
def openStream (s : PSt) (id : Nat) (pusher : Nat := 0) : PSt × POut :=
  match lookup s id with
  | some p =>
    if (node s p).state ≠ .idle then (s, .panic)
    else ({ modNode s p (fun x => { x with state := .open_ }) with idleNodes := s.idleNodes.filter (· ≠ p) }, .none_)
  | none =>
    -- "Pushed streams initially depend on their associated stream" (OpenStreamOptions.PusherID); an unknown pusher and
    -- PusherID 0 mean the root. Only a NEW node is placed: an idle node that is opened keeps its place in the tree.
    let q := (lookup s pusher).getD 0
    let (s, p) := alloc s { id := id, state := .open_ }
    let s := setParent s p (some q)
    ({ s with nodes := s.nodes ++ [(id, p)], maxID := max s.maxID id }, .none_)

/-- `CloseStream(id)` -/
def closeStream (s : PSt) (id : Nat) : PSt × POut :=
  if id = 0 then (s, .panic) else
  match lookup s id with
  | none => (s, .panic)
  | some p =>
    if (node s p).state ≠ .open_ then (s, .panic) else
    let s := modNode s p (fun x => { x with state := .closed })
    let s := addBytes s p (-(node s p).bytes)
    let s := modNode s p (fun x => { x with q := [] })
    if s.maxClosed > 0 then (addClosed s p, .none_) else (removeNode s p, .none_)

/-- is `a` a proper ancestor of `x`? (`for x := parent.parent; x != nil; x = x.parent`) -/
def isAncestor (s : PSt) (a : Nat) : Nat → Option Nat → Bool
  | 0, _ => false
  | _, none => false
  | fuel + 1, some x => if x = a then true else isAncestor s a fuel (node s x).parent

/-- the exclusive flag: every other kid of `parent` becomes a kid of `n` (list order, head first) -/
def moveUnder (s : PSt) (ks : List Nat) (n : Nat) : PSt :=
  ks.foldl (fun s k => if k ≠ n then setParent s k (some n) else s) s

/-- `AdjustStream`, after the node `n` of the stream has been found or created -/
def adjustCore (s : PSt) (n dep weight : Nat) (excl : Bool) : PSt :=
  match lookup s dep with
  | none => modNode (setParent s n (some 0)) n (fun x => { x with weight := 15 })
  | some parent =>
    if n = parent then s else
    let s := if isAncestor s n (s.heap.length + 1) (node s parent).parent
             then setParent s parent (node s n).parent else s
    let s := if excl then moveUnder s (kidsOf s parent) n else s
    let s := setParent s n (some parent)
    modNode s n (fun x => { x with weight := weight })

/-- `AdjustStream(id, {dep, weight, exclusive})` -/
def adjustStream (s : PSt) (id dep weight : Nat) (excl : Bool) : PSt × POut :=
  if id = 0 then (s, .panic) else
  match lookup s id with
  | some p => (adjustCore s p dep weight excl, .none_)
  | none =>
    if id ≤ s.maxID ∨ s.maxIdle = 0 then (s, .none_)
    else
      let (s1, p) := alloc s { id := id, state := .idle }
      let s2 := setParent s1 p (some 0)
      let s3 := addIdle { s2 with nodes := s2.nodes ++ [(id, p)], maxID := id } p
      (adjustCore s3 p dep weight excl, .none_)

/-- `Push(wr)` -/
def push (s : PSt) (r : Req) : PSt × POut :=
  match r.sid with
  | none => (modNode s 0 (fun x => { x with q := x.q ++ [r] }), .none_)
  | some sid =>
    match lookup s sid with
    | some p => (modNode s p (fun x => { x with q := x.q ++ [r] }), .none_)
    | none => if r.size > 0 then (s, .panic) else (modNode s 0 (fun x => { x with q := x.q ++ [r] }), .none_)

/-- `Consume(limit)` -/
def allowedN (w : St) (sid : Nat) (limit : Int) : Int :=
  let a := available w sid
  let a := if limit < a then limit else a
  if w.maxFrame < a then w.maxFrame else a

def consumeN (w : St) (q : List Req) (limit : Int) : Option (Popped × List Req × Nat × Nat) :=
  match q with
  | [] => none
  | r :: rest =>
    if !r.isData || r.size = 0 then some (.frame r, rest, 0, 0) else
    let sid := r.sid.getD 0
    let a := allowedN w sid limit
    if a ≤ 0 then none else
    if (r.size : Int) > a then some (.piece r a.toNat, { r with size := r.size - a.toNat } :: rest, a.toNat, sid)
    else some (.frame r, rest, r.size, sid)

/-! ### sort.Sort of at most 12 siblings = insertion sort -/

def u8succ (w : Nat) : Nat := (w + 1) % 256

/-- `sortPriorityNodeSiblings.Less(i, k)` -/
def lessNode (a b : PNode) : Bool :=
  let wi := Float.ofNat (u8succ a.weight)
  let bi := Float.ofInt a.subtreeBytes
  let wk := Float.ofNat (u8succ b.weight)
  let bk := Float.ofInt b.subtreeBytes
  if bi == 0 && bk == 0 then wi >= wk
  else if bk == 0 then false
  else bi / bk <= wi / wk

/-- one outer iteration of Go's insertionSort, on the reversed sorted prefix -/
def insRev {α} (less : α → α → Bool) (x : α) : List α → List α
  | [] => [x]
  | y :: ys => if less x y then y :: insRev less x ys else x :: y :: ys

def insertionSort {α} (less : α → α → Bool) (l : List α) : List α :=
  (l.foldl (fun acc x => insRev less x acc) []).reverse

/-- the sort step of `walkReadyInOrder`: all kids detached, sorted, re-linked so that list order = sorted order -/
def sortKids (s : PSt) (p : Nat) (less : PNode → PNode → Bool) : PSt :=
  let ks := kidsOf s p
  match ks with
  | [] => s
  | k0 :: rest =>
    if rest.all (fun k => (node s k).weight = (node s k0).weight) then s else
    let s := ks.foldl (fun s k => setParent s k none) s
    let sorted := insertionSort (fun a b => less (node s a) (node s b)) ks
    sorted.reverse.foldl (fun s k => setParent s k (some p)) s

/-- the loop over the kids list: stop at the first kid whose subtree yields a frame -/
def walkKids (visit : PSt → Nat → PSt × Option Popped) : PSt → List Nat → PSt × Option Popped
  | s, [] => (s, none)
  | s, k :: r =>
    match visit s k with
    | (s, some p) => (s, some p)
    | (s, none) => walkKids visit s r

/-- the callback of `Pop` on node `n`: consume from its queue within the limit -/
def popHere (s : PSt) (n : Nat) (openParent : Bool) : Option (PSt × Popped) :=
  let nd := node s n
  let limit : Int := if openParent then s.throttle else 2147483647
  if nd.q.isEmpty then none else
  match consumeN s.win nd.q limit with
  | none => none
  | some (p, q', taken, sid) =>
    let s := modNode s n (fun x => { x with q := q' })
    let s := { s with win := takeWin s.win sid taken }
    let s := addBytes s n taken
    let s := if openParent then
        let t := s.throttle + 1024
        { s with throttle := if t > 2147483647 then 2147483647 else t }
      else if s.enableThrottle then { s with throttle := 1024 } else s
    some (s, p)

/-- `walkReadyInOrder` with the callback of `Pop` -/
def walk (less : PNode → PNode → Bool) : Nat → PSt → Nat → Bool → PSt × Option Popped
  | 0, s, _, _ => (s, none)
  | fuel + 1, s, n, openParent =>
    match popHere s n openParent with
    | some (s, p) => (s, some p)
    | none =>
      if (kidsOf s n).isEmpty then (s, none) else
      let openParent := if n ≠ 0 then openParent || ((node s n).state == .open_) else openParent
      let s := sortKids s n less
      walkKids (fun s k => walk less fuel s k openParent) s (kidsOf s n)

/-- `Pop()` -/
def pop (less : PNode → PNode → Bool) (s : PSt) : PSt × POut :=
  match walk less (s.heap.length + 2) s 0 false with
  | (s, some p) => (s, .popped p)
  | (s, none) => (s, .none_)

inductive POp
  | open_ (id : Nat) (pusher : Nat := 0)
  | close (id : Nat)
  | adjust (id dep weight : Nat) (excl : Bool)
  | push (r : Req)
  | pop
  | addWin (sid : Nat) (n : Int)
  | addConn (n : Int)
  | setMax (n : Int)
  deriving Repr, DecidableEq

def step (less : PNode → PNode → Bool) (s : PSt) : POp → PSt × POut
  | .open_ id pusher => openStream s id pusher
  | .close id => closeStream s id
  | .adjust id dep w e => adjustStream s id dep w e
  | .push r => push s r
  | .pop => pop less s
  | .addWin sid n => ({ s with win := setWin s.win sid (win s.win sid + n) }, .none_)
  | .addConn n => ({ s with win := { s.win with cwin := s.win.cwin + n } }, .none_)
  | .setMax n => ({ s with win := { s.win with maxFrame := n } }, .none_)

end Fp.Prio
