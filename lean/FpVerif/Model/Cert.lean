/-
Model of pkg/certwatcher: the two watched files, the load-validate-then-swap of ReadCertificate, and the
event handling. Which file-system changes produce an event for the watcher is the fsnotify/inotify contract
(assumed; validated by the differential): a write to, or the unlinking of, the inode a watch is bound to.
-/
import FpVerif.Model.Common
namespace Fp.Cert

/-- content of a watched path: missing, unusable (empty / partial / garbage), or half of pair `k` -/
inductive Content | missing | junk | half (k : Nat)
  deriving Repr, DecidableEq

structure Disk where
  cert : Content
  key : Content
  deriving Repr, DecidableEq

/-- which key a certificate file goes with: files `k` and `k + 100·j` hold the SAME leaf certificate and differ in the rest
of the chain only (an intermediate added or re-issued), so they share the key of pair `k % 100` -/
def keyOf (k : Nat) : Nat := k % 100

/-- `tls.LoadX509KeyPair`: succeeds iff both halves are usable and belong together; what is loaded is the certificate
FILE (leaf and chain) -/
def load (d : Disk) : Option Nat :=
  match d.cert, d.key with
  | .half a, .half b => if keyOf a = keyOf b then some a else none
  | _, _ => none

structure St where
  disk : Disk
  served : Nat              -- the pair in `currentCert`
  deriving Repr, DecidableEq

inductive Step
  | setCert (c : Content) (event : Bool)      -- a change of the certificate path; `event`: the watcher is notified
  | setKey (c : Content) (event : Bool)
  | setBoth (c k : Content) (event : Bool)    -- atomic swap of the directory both live in
  deriving Repr, DecidableEq

/-- `handleEvent` → `ReadCertificate`: swap only after a successful load -/
def handle (s : St) : St := match load s.disk with | some k => { s with served := k } | none => s

def step (s : St) : Step → St
  | .setCert c ev => let s := { s with disk := { s.disk with cert := c } }; if ev then handle s else s
  | .setKey c ev => let s := { s with disk := { s.disk with key := c } }; if ev then handle s else s
  | .setBoth c k ev => let s := { s with disk := { cert := c, key := k } }; if ev then handle s else s

def run (s : St) (h : List Step) : St := h.foldl step s

/-- the trace of served pairs after every step -/
def trace (s : St) : List Step → List Nat
  | [] => []
  | x :: r => (step s x).served :: trace (step s x) r

end Fp.Cert
