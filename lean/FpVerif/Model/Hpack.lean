/-
Model of pkg/http2/hpack (hpack.go, encode.go, huffman.go, tables.go): variable-length integers, string
literals, Huffman coding over the code table REGENERATED from tables.go, static + dynamic table, the
incremental decoder (Write / Close with saveBuf, firstField, maxStrLen) and the encoder.
-/
import FpVerif.Model.Common
import FpVerif.Gen.Hpack
namespace Fp.Hpack

structure Field where
  name : Bytes
  value : Bytes
  sensitive : Bool := false
  deriving Repr, DecidableEq

def Field.size (f : Field) : Nat := f.name.length + f.value.length + 32

/-! ### variable-length integers (RFC 7541 §5.1) -/

inductive VRes
  | ok (v : Nat) (rest : Bytes)
  | needMore
  | overflow
  deriving Repr, DecidableEq

/-- the continuation loop of `readVarInt` -/
def readVarIntCont (acc m : Nat) : Bytes → VRes
  | [] => .needMore
  | b :: r =>
    let acc := acc + (b.toNat % 128) * 2 ^ m
    if b.toNat < 128 then .ok acc r
    else if m + 7 ≥ 63 then .overflow
    else readVarIntCont acc (m + 7) r

def readVarInt (n : Nat) (p : Bytes) : VRes :=
  match p with
  | [] => .needMore
  | b :: r =>
    let i := b.toNat % 2 ^ n
    if i < 2 ^ n - 1 then .ok i r else readVarIntCont i 0 r

def appendVarIntCont (fuel : Nat) (i : Nat) : Bytes :=
  match fuel with
  | 0 => [UInt8.ofNat i]
  | fuel + 1 => if i ≥ 128 then UInt8.ofNat (128 + i % 128) :: appendVarIntCont fuel (i / 128) else [UInt8.ofNat i]

/-- `appendVarInt(dst, n, i)` (the bytes appended) -/
def appendVarInt (n : Nat) (i : Nat) : Bytes :=
  let k := 2 ^ n - 1
  if i < k then [UInt8.ofNat i] else UInt8.ofNat k :: appendVarIntCont 10 (i - k)

/-! ### Huffman (RFC 7541 §5.2, Appendix B) -/

def toBitsAux (v : Nat) : Nat → List Bool
  | 0 => []
  | k + 1 => (v / 2 ^ k % 2 == 1) :: toBitsAux v k

/-- the code of a symbol, most significant bit first -/
def codeBits (sym : Nat) : List Bool :=
  toBitsAux (Gen.Hpack.huffmanCodes.getD sym 0) (Gen.Hpack.huffmanCodeLen.getD sym 0)

def byteBits (b : UInt8) : List Bool := toBitsAux b.toNat 8
def bytesBits (bs : Bytes) : List Bool := bs.flatMap byteBits

inductive HTree
  | empty
  | leaf (s : Nat)
  | node (l r : HTree)
  deriving Repr, DecidableEq

def HTree.insert : HTree → List Bool → Nat → HTree
  | _, [], s => .leaf s
  | .node l r, b :: bs, s => if b then .node l (r.insert bs s) else .node (l.insert bs s) r
  | _, b :: bs, s => if b then .node .empty (HTree.empty.insert bs s) else .node (HTree.empty.insert bs s) .empty

def huffTree : HTree := (List.range 256).foldl (fun t s => t.insert (codeBits s) s) .empty

def HTree.step : HTree → Bool → HTree
  | .node l r, b => if b then r else l
  | _, _ => .empty

def HTree.walk : HTree → List Bool → HTree
  | t, [] => t
  | t, b :: r => (t.step b).walk r

inductive HErr | invalid | tooLong
  deriving Repr, DecidableEq

/-- `huffmanDecode` at bit level: `cur` = position in the tree, `pend` = bits since the last symbol -/
def huffWalk (maxLen : Nat) (cur : HTree) (pend : List Bool) (acc : Bytes) : List Bool → Except HErr Bytes
  | [] => if pend.length ≤ 7 ∧ pend.all id then .ok acc else .error .invalid
  | b :: r =>
    match cur.step b with
    | .empty => .error .invalid
    | .leaf s => if maxLen ≠ 0 ∧ acc.length = maxLen then .error .tooLong
                 else huffWalk maxLen huffTree [] (acc ++ [UInt8.ofNat s]) r
    | n => huffWalk maxLen n (b :: pend) acc r

def huffmanDecode (maxLen : Nat) (v : Bytes) : Except HErr Bytes := huffWalk maxLen huffTree [] [] (bytesBits v)

def bitsToBytes (bits : List Bool) : Bytes :=
  if h : bits = [] then [] else
    let byte := bits.take 8
    let pad := byte ++ List.replicate (8 - byte.length) true      -- EOS prefix padding (all ones)
    UInt8.ofNat (pad.foldl (fun a b => 2 * a + (if b then 1 else 0)) 0) :: bitsToBytes (bits.drop 8)
termination_by bits.length
decreasing_by
  have : bits.length > 0 := List.length_pos_iff.mpr h
  simp; omega

/-- `AppendHuffmanString` -/
def huffmanEncode (s : Bytes) : Bytes := bitsToBytes (s.flatMap fun c => codeBits c.toNat)

def huffmanEncodeLength (s : Bytes) : Nat := ((s.map fun c => Gen.Hpack.huffmanCodeLen.getD c.toNat 0).sum + 7) / 8

/-- `appendHpackString` -/
def appendString (s : Bytes) : Bytes :=
  let hl := huffmanEncodeLength s
  if hl < s.length then
    match appendVarInt 7 hl with
    | b :: r => (b ||| 0x80) :: r ++ huffmanEncode s
    | [] => []
  else appendVarInt 7 s.length ++ s

/-! ### tables -/

def staticTable : List Field :=
  Gen.Hpack.staticEnts.map fun (n, v) => { name := strBytes n, value := strBytes v }

structure DynTab where
  ents : List Field := []          -- oldest first (as the Go slice)
  size : Nat := 0
  maxSize : Nat
  allowedMax : Nat
  deriving Repr, DecidableEq

def DynTab.evict (t : DynTab) : DynTab :=
  let rec go (ents : List Field) (size : Nat) : List Field × Nat :=
    match ents with
    | [] => ([], size)
    | e :: r => if size > t.maxSize then go r (size - e.size) else (e :: r, size)
  let (e, s) := go t.ents t.size
  { t with ents := e, size := s }

def DynTab.setMaxSize (t : DynTab) (v : Nat) : DynTab := ({ t with maxSize := v }).evict
def DynTab.add (t : DynTab) (f : Field) : DynTab := ({ t with ents := t.ents ++ [f], size := t.size + f.size }).evict

/-- `Decoder.at(i)` -/
def tableAt (t : DynTab) (i : Nat) : Option Field :=
  if i = 0 then none
  else if i ≤ staticTable.length then staticTable[i - 1]?
  else if i > t.ents.length + staticTable.length then none
  else t.ents[t.ents.length - (i - staticTable.length)]?

/-! ### decoder -/

inductive DErr | decoding | stringLength | huffman
  deriving Repr, DecidableEq

inductive PRes (α : Type)
  | ok (v : α)
  | needMore
  | err (e : DErr)
  deriving Repr

structure RawStr where
  isHuff : Bool
  b : Bytes

/-- `Decoder.readString` -/
def readString (maxStrLen : Nat) (p : Bytes) : PRes (RawStr × Bytes) :=
  match p with
  | [] => .needMore
  | b0 :: _ =>
    match readVarInt 7 p with
    | .needMore => .needMore
    | .overflow => .err .decoding
    | .ok len rest =>
      if maxStrLen ≠ 0 ∧ len > maxStrLen then .err .stringLength
      else if rest.length < len then .needMore
      else .ok ({ isHuff := b0.toNat ≥ 128, b := rest.take len }, rest.drop len)

/-- `Decoder.decodeString` -/
def decodeString (maxStrLen : Nat) (u : RawStr) : Except DErr Bytes :=
  if !u.isHuff then .ok u.b else
  match huffmanDecode maxStrLen u.b with
  | .ok s => .ok s
  | .error .invalid => .error .huffman
  | .error .tooLong => .error .stringLength

structure Dec where
  tab : DynTab
  saveBuf : Bytes := []
  firstField : Bool := true
  maxStrLen : Nat := 0
  deriving Repr, DecidableEq

def Dec.new (maxSize : Nat) : Dec := { tab := { maxSize := maxSize, allowedMax := maxSize } }

/-- `callEmit`'s length check -/
def emitCheck (maxStrLen : Nat) (f : Field) : Except DErr Field :=
  if maxStrLen ≠ 0 ∧ (f.name.length > maxStrLen ∨ f.value.length > maxStrLen) then .error .stringLength else .ok f

/-- `parseFieldLiteral(n, it)`; `indexed` / `sensitive` from the index type -/
def parseLiteral (d : Dec) (n : Nat) (indexed sensitive : Bool) (buf : Bytes) : PRes (Dec × Option Field × Bytes) :=
  match readVarInt n buf with
  | .needMore => .needMore
  | .overflow => .err .decoding
  | .ok nameIdx buf =>
    let nameRes : PRes (Option Bytes × Option RawStr × Bytes) :=
      if nameIdx > 0 then
        match tableAt d.tab nameIdx with
        | none => .err .decoding
        | some f => .ok (some f.name, none, buf)
      else
        match readString d.maxStrLen buf with
        | .ok (u, buf) => .ok (none, some u, buf)
        | .needMore => .needMore
        | .err e => .err e
    match nameRes with
    | .needMore => .needMore
    | .err e => .err e
    | .ok (nm, rawName, buf) =>
      match readString d.maxStrLen buf with
      | .needMore => .needMore
      | .err e => .err e
      | .ok (rawVal, buf) =>
        let nameE : Except DErr Bytes := match nm, rawName with
          | some n, _ => .ok n
          | none, some u => decodeString d.maxStrLen u
          | none, none => .ok []
        match nameE with
        | .error e => .err e
        | .ok name =>
          match decodeString d.maxStrLen rawVal with
          | .error e => .err e
          | .ok value =>
            let hf : Field := { name := name, value := value, sensitive := false }
            let d := if indexed then { d with tab := d.tab.add hf } else d
            match emitCheck d.maxStrLen { hf with sensitive := sensitive } with
            | .error e => .err e
            | .ok f => .ok (d, some f, buf)

/-- `parseHeaderFieldRepr`: one representation from the front of `buf` -/
def parseRepr (d : Dec) (buf : Bytes) : PRes (Dec × Option Field × Bytes) :=
  match buf with
  | [] => .needMore
  | b :: _ =>
    let b := b.toNat
    if b ≥ 128 then
      match readVarInt 7 buf with
      | .needMore => .needMore
      | .overflow => .err .decoding
      | .ok idx rest =>
        match tableAt d.tab idx with
        | none => .err .decoding
        | some f =>
          match emitCheck d.maxStrLen { name := f.name, value := f.value } with
          | .error e => .err e
          | .ok f => .ok (d, some f, rest)
    else if b / 64 = 1 then parseLiteral d 6 true false buf
    else if b / 16 = 0 then parseLiteral d 4 false false buf
    else if b / 16 = 1 then parseLiteral d 4 false true buf
    else -- b / 32 = 1: dynamic table size update
      if !d.firstField ∧ d.tab.size > 0 then .err .decoding else
      match readVarInt 5 buf with
      | .needMore => .needMore
      | .overflow => .err .decoding
      | .ok size rest =>
        if size > d.tab.allowedMax then .err .decoding
        else .ok ({ d with tab := d.tab.setMaxSize size }, none, rest)

/-- the loop of `Decoder.Write` over the (re-assembled) buffer; `fuel` bounds the iterations.
Result: new state, fields emitted by this call (also those before an error), the error if any. -/
def writeLoop (overhead : Nat) : Nat → Dec → Bytes → List Field → Dec × List Field × Option DErr
  | 0, d, _, acc => (d, acc, none)
  | fuel + 1, d, buf, acc =>
    if buf.isEmpty then (d, acc, none) else
    match parseRepr d buf with
    | .needMore =>
      if d.maxStrLen ≠ 0 ∧ buf.length > 2 * (d.maxStrLen + overhead) then (d, acc, some .stringLength)
      else ({ d with saveBuf := buf }, acc, none)
    | .err e => ({ d with firstField := false }, acc, some e)
    | .ok (d', f, rest) =>
      -- a dynamic table size update (up to two are legal, RFC 7541 §4.2) does not end "the beginning of the block"
      let isSizeUpdate : Bool := match buf with | b :: _ => b.toNat / 32 == 1 | [] => false
      let d' := if isSizeUpdate then d' else { d' with firstField := false }
      writeLoop overhead fuel d' rest (match f with | some f => acc ++ [f] | none => acc)

/-- `Decoder.Write(p)` -/
def Dec.write (d : Dec) (p : Bytes) : Dec × List Field × Option DErr :=
  if p.isEmpty then (d, [], none) else
  let buf := d.saveBuf ++ p
  writeLoop Gen.Hpack.varIntOverhead (buf.length + 1) { d with saveBuf := [] } buf []

/-- `Decoder.Close()` -/
def Dec.close (d : Dec) : Except DErr Dec :=
  if d.saveBuf.length > 0 then .error .decoding else .ok { d with firstField := true }

/-! ### encoder -/

structure Enc where
  tab : DynTab := { maxSize := 4096, allowedMax := 4096 }
  minSize : Nat := 4294967295
  maxSizeLimit : Nat := 4096
  tableSizeUpdate : Bool := false
  deriving Repr, DecidableEq

/-- newest-first position (1-based) of the newest entry satisfying `p` -/
def newestIdx (ents : List Field) (p : Field → Bool) : Nat :=
  match ents.reverse.findIdx? p with | some i => i + 1 | none => 0

/-- static table search: exact match, else the LAST entry with the name (how the generated maps are built) -/
def staticSearch (f : Field) : Nat × Bool :=
  let exact := if f.sensitive then none else staticTable.findIdx? (fun e => e.name == f.name && e.value == f.value)
  match exact with
  | some i => (i + 1, true)
  | none =>
    match staticTable.reverse.findIdx? (fun e => e.name == f.name) with
    | some j => (staticTable.length - j, false)
    | none => (0, false)

def dynSearch (t : DynTab) (f : Field) : Nat × Bool :=
  let exact := if f.sensitive then 0 else newestIdx t.ents (fun e => e.name == f.name && e.value == f.value)
  if exact ≠ 0 then (exact, true) else (newestIdx t.ents (fun e => e.name == f.name), false)

/-- `Encoder.searchTable` -/
def searchTable (e : Enc) (f : Field) : Nat × Bool :=
  let (i, m) := staticSearch f
  if m then (i, true) else
  let (j, m2) := dynSearch e.tab f
  if m2 ∨ (i = 0 ∧ j ≠ 0) then (j + staticTable.length, m2) else (i, false)

def typeByte (indexing sensitive : Bool) : UInt8 := if sensitive then 0x10 else if indexing then 0x40 else 0

def orFirst (bs : Bytes) (m : UInt8) : Bytes := match bs with | b :: r => (b ||| m) :: r | [] => []

def appendTableSize (v : Nat) : Bytes := orFirst (appendVarInt 5 v) 0x20

/-- `Encoder.WriteField`: bytes written and new state -/
def Enc.writeField (e : Enc) (f : Field) : Enc × Bytes :=
  let (e, pre) :=
    if e.tableSizeUpdate then
      let p1 := if e.minSize < e.tab.maxSize then appendTableSize e.minSize else []
      ({ e with tableSizeUpdate := false, minSize := 4294967295 }, p1 ++ appendTableSize e.tab.maxSize)
    else (e, [])
  let (idx, m) := searchTable e f
  if m then (e, pre ++ orFirst (appendVarInt 7 idx) 0x80) else
  let indexing := !f.sensitive && decide (f.size ≤ e.tab.maxSize)
  let e := if indexing then { e with tab := e.tab.add { f with sensitive := false } } else e
  if idx = 0 then (e, pre ++ [typeByte indexing f.sensitive] ++ appendString f.name ++ appendString f.value)
  else (e, pre ++ orFirst (appendVarInt (if indexing then 6 else 4) idx) (typeByte indexing f.sensitive) ++ appendString f.value)

def Enc.setMaxSize (e : Enc) (v : Nat) : Enc :=
  let v := if v > e.maxSizeLimit then e.maxSizeLimit else v
  { e with minSize := if v < e.minSize then v else e.minSize, tableSizeUpdate := true, tab := e.tab.setMaxSize v }

def Enc.setMaxSizeLimit (e : Enc) (v : Nat) : Enc :=
  let e := { e with maxSizeLimit := v }
  -- (with the D21 repair: a shrink through the limit is remembered as the interval's minimum, like one through setMaxSize)
  if e.tab.maxSize > v then
    { e with minSize := if v < e.minSize then v else e.minSize, tableSizeUpdate := true, tab := e.tab.setMaxSize v }
  else e

end Fp.Hpack
