/-
Model of pkg/http2/flow.go: `inflow` (receive credit with batched refunds) and `outflow` (send credit,
stream + connection) with Go's int32 / uint32 arithmetic made explicit.
-/
import FpVerif.Gen.Flow
namespace Fp.Flow
open Fp.Gen.Flow

/-- int32 two's-complement wrap of a mathematical integer -/
def wrap32 (x : Int) : Int := (x + 2147483648) % 4294967296 - 2147483648
/-- uint32 conversion of an int32 value -/
def toU32 (x : Int) : Int := x % 4294967296

structure Inflow where
  avail : Int := 0
  unsent : Int := 0
  deriving Repr, DecidableEq

inductive R (α : Type) | ok (v : α) | panic
  deriving Repr

/-- `inflow.add(n)`: returns the window update to send now (0 = batched) -/
def Inflow.add (f : Inflow) (n : Int) : R (Inflow × Int) :=
  if n < 0 then .panic else
  let unsent := f.unsent + n                       -- int64 arithmetic
  if unsent + f.avail > (maxWindow : Int) then .panic else
  let u := wrap32 unsent
  if u < (inflowMinRefresh : Int) ∧ u < f.avail then .ok ({ f with unsent := u }, 0)
  else .ok ({ avail := wrap32 (f.avail + u), unsent := 0 }, wrap32 unsent)

/-- `inflow.take(n)` with `n` a uint32 -/
def Inflow.take (f : Inflow) (n : Int) : Inflow × Bool :=
  if n > toU32 f.avail then (f, false) else ({ f with avail := wrap32 (f.avail - wrap32 n) }, true)

/-- `takeInflows(f1, f2, n)` -/
def takeInflows (f1 f2 : Inflow) (n : Int) : Inflow × Inflow × Bool :=
  if n > toU32 f1.avail ∨ n > toU32 f2.avail then (f1, f2, false)
  else ({ f1 with avail := wrap32 (f1.avail - wrap32 n) }, { f2 with avail := wrap32 (f2.avail - wrap32 n) }, true)

/-- `outflow.add(n)`: `sum := f.n + n` in int32; accepted iff `(sum > n) == (f.n > 0)` -/
def outflowAdd (fn n : Int) : Int × Bool :=
  let sum := wrap32 (fn + n)
  if (decide (sum > n)) == (decide (fn > 0)) then (sum, true) else (fn, false)

/-- `outflow.available()` with a connection-level flow -/
def outflowAvailable (fn conn : Int) : Int := if conn < fn then conn else fn

/-- `outflow.take(n)` -/
def outflowTake (fn conn n : Int) : R (Int × Int) :=
  if n > outflowAvailable fn conn then .panic else .ok (wrap32 (fn - n), wrap32 (conn - n))

def I32 (x : Int) : Prop := -2147483648 ≤ x ∧ x ≤ 2147483647

end Fp.Flow
