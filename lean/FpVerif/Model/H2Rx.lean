/-
Model of the server's RECEIVE-side flow control (pkg/http2/server.go: processData, noteBodyRead, closeStream,
sendWindowUpdate, the handler-return path of wroteFrame / resetStream) on top of the inflow model (flow.go).
Client events: open a request stream, DATA (with padding), RST_STREAM; handler events: read n bytes of the
body, return. Reactions: WINDOW_UPDATE, RST_STREAM, GOAWAY. The connection is past the SETTINGS exchange; its
receive window has been raised to 1 MiB (the server's initial WINDOW_UPDATE), every stream starts with 1 MiB.
-/
import FpVerif.Model.Flow
namespace Fp.H2Rx
open Fp.Flow

def PROTOCOL : Nat := 1
def FLOW_CONTROL : Nat := 3
def STREAM_CLOSED : Nat := 5

inductive RxState | open_ | halfClosedRemote
  deriving Repr, DecidableEq

structure RStream where
  id : Nat
  inflow : Inflow
  state : RxState := .open_
  declLen : Option Nat := none
  bodyBytes : Nat := 0
  deriving Repr, DecidableEq

/-- what the handler of a stream can still read: bytes buffered in its pipe; `ended`: an error (EOF / reset) follows -/
structure Body where
  id : Nat
  buffered : Nat := 0
  ended : Bool := false
  returned : Bool := false
  deriving Repr, DecidableEq

structure RConn where
  inflow : Inflow := { avail := 1048576 }
  streams : List RStream := []          -- sc.streams
  bodies : List Body := []              -- request bodies still held by handlers (also of streams already closed)
  dead : Bool := false                  -- GOAWAY with an error sent
  deriving Repr, DecidableEq

inductive Rx
  | wu (sid inc : Nat)
  | rst (sid code : Nat)
  | goaway (code : Nat)
  | read (n : Nat)                      -- the handler's Read returned n bytes
  | readErr                             -- ... or the body's error
  | wouldBlock                          -- nothing buffered, body not ended: the harness does not call Read
  | panic
  deriving Repr, DecidableEq

inductive RxEv
  | open_ (sid : Nat) (cl : Option Nat)
  | data (sid len pad : Nat) (padded es : Bool)
  | rst (sid : Nat)
  | hread (sid n : Nat)
  | hret (sid : Nat)
  deriving Repr, DecidableEq

def findS (c : RConn) (sid : Nat) : Option RStream := c.streams.find? (·.id == sid)
def findB (c : RConn) (sid : Nat) : Option Body := c.bodies.find? (·.id == sid)
def setS (c : RConn) (s : RStream) : RConn := { c with streams := c.streams.map fun x => if x.id == s.id then s else x }
def setB (c : RConn) (b : Body) : RConn := { c with bodies := c.bodies.map fun x => if x.id == b.id then b else x }
def dropS (c : RConn) (sid : Nat) : RConn := { c with streams := c.streams.filter fun x => !(x.id == sid) }

/-- `sendWindowUpdate(nil, n)` -/
def connRefund (c : RConn) (n : Nat) : RConn × List Rx :=
  match c.inflow.add n with
  | .ok (f, 0) => ({ c with inflow := f }, [])
  | .ok (f, inc) => ({ c with inflow := f }, [.wu 0 inc.toNat])
  | .panic => (c, [.panic])

/-- `sendWindowUpdate(st, n)` -/
def streamRefund (c : RConn) (s : RStream) (n : Nat) : RConn × List Rx :=
  match s.inflow.add n with
  | .ok (f, 0) => (setS c { s with inflow := f }, [])
  | .ok (f, inc) => (setS c { s with inflow := f }, [.wu s.id inc.toNat])
  | .panic => (c, [.panic])

/-- `closeStream`: the buffered, unread bytes go back to the connection window; the body ends -/
def closeStream (c : RConn) (sid : Nat) : RConn × List Rx :=
  if (findS c sid).isNone then (c, []) else      -- only streams still in sc.streams are closed
  let c := dropS c sid
  match findB c sid with
  | some b =>
    let (c, r) := connRefund c b.buffered
    (setB c { b with ended := true }, r)
  | none => (c, [])

/-- a StreamError returned by processData: RST_STREAM is written, then the stream is closed -/
def streamErr (c : RConn) (sid code : Nat) : RConn × List Rx :=
  let (c, r) := closeStream c sid
  (c, [Rx.rst sid code] ++ r)

def step (c : RConn) (e : RxEv) : RConn × List Rx :=
  if c.dead then (c, []) else
  match e with
  | .open_ sid cl =>
    ({ c with streams := c.streams ++ [{ id := sid, inflow := { avail := 1048576 }, declLen := cl }],
              bodies := c.bodies ++ [{ id := sid }] }, [])
  | .data sid len pad padded es =>
    let L : Nat := len + (if padded then pad + 1 else 0)
    match findS c sid with
    | none =>
      -- closed stream: the connection window is still charged and returned at once
      let (f, ok) := c.inflow.take L
      if !ok then streamErr c sid FLOW_CONTROL else
      let (c, r) := connRefund { c with inflow := f } L
      (c, r ++ [.rst sid STREAM_CLOSED])
    | some s =>
      if s.state ≠ .open_ then
        let (f, ok) := c.inflow.take L
        if !ok then streamErr c sid FLOW_CONTROL else
        let (c, r) := connRefund { c with inflow := f } L
        let (c, r2) := streamErr c sid STREAM_CLOSED
        (c, r ++ r2)
      else if (match s.declLen with | some d => decide (s.bodyBytes + len > d) | none => false) then
        let (f, ok) := c.inflow.take L
        if !ok then streamErr c sid FLOW_CONTROL else
        let (c, r) := connRefund { c with inflow := f } L
        let (c, r2) := streamErr c sid PROTOCOL
        (c, r ++ r2)
      else
        let res : Option (RConn × List Rx) :=
          if L > 0 then
            let (fc, fs, ok) := takeInflows c.inflow s.inflow L
            if !ok then none else
            let s := { s with inflow := fs, bodyBytes := s.bodyBytes + len }
            let c := setS { c with inflow := fc } s
            let c := match findB c sid with
              | some b => setB c { b with buffered := b.buffered + len }
              | none => c
            -- the padding is returned at once (also called with 0: flushes buffered credit)
            let (c, r1) := connRefund c (L - len)
            let (c, r2) := match findS c sid with
              | some s => streamRefund c s (L - len)
              | none => (c, [])
            some (c, r1 ++ r2)
          else some (c, [])
        match res with
        | none => streamErr c sid FLOW_CONTROL
        | some (c, r) =>
          if es then
            let c := match findS c sid with | some s => setS c { s with state := .halfClosedRemote } | none => c
            let c := match findB c sid with | some b => setB c { b with ended := true } | none => c
            (c, r)
          else (c, r)
  | .rst sid =>
    match findS c sid with
    | some _ => closeStream c sid
    | none => (c, [])
  | .hread sid n =>
    match findB c sid with
    | none => (c, [.wouldBlock])
    | some b =>
      if b.returned then (c, [.wouldBlock]) else
      if b.buffered = 0 then (if b.ended then (c, [.readErr]) else (c, [.wouldBlock])) else
      let k := min n b.buffered
      let c := setB c { b with buffered := b.buffered - k }
      -- noteBodyRead: the connection always gets the bytes back, the stream only while the peer may still send on it
      let (c, r1) := connRefund c k
      let (c, r2) := match findS c sid with
        | some s => if s.state = RxState.open_ then streamRefund c s k else (c, [])
        | none => (c, [])
      (c, [Rx.read k] ++ r1 ++ r2)
  | .hret sid =>
    match findB c sid with
    | none => (c, [])
    | some b =>
      if b.returned then (c, []) else
      let c := setB c { b with returned := true }
      match findS c sid with
      | none => (c, [])
      | some s =>
        if s.state = RxState.open_ then
          -- the response ends the stream before the request did: RST_STREAM(NO_ERROR), then closeStream
          let (c, r) := closeStream c sid
          (c, [Rx.rst sid 0] ++ r)
        else closeStream c sid

def run (c : RConn) : List RxEv → List (List Rx)
  | [] => []
  | e :: r => (step c e).2 :: run (step c e).1 r

end Fp.H2Rx
