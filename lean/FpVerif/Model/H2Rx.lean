/-
Model of the server's RECEIVE-side flow control (pkg/http2/server.go: processData, noteBodyRead, closeStream,
sendWindowUpdate, the handler-return path of wroteFrame / resetStream) on top of the inflow model (flow.go).
Client events: open a request stream, DATA (with padding), RST_STREAM; handler events: read n bytes of the
body, return. Reactions: WINDOW_UPDATE, RST_STREAM, GOAWAY. The connection is past the SETTINGS exchange; its
receive window has been raised to 1 MiB (the server's initial WINDOW_UPDATE), every stream starts with 1 MiB.
-/
import FpVerif.Model.Flow
namespace Fp.H2Rx
open Fp.Flow

def PROTOCOL : Nat := 1
def FLOW_CONTROL : Nat := 3
def STREAM_CLOSED : Nat := 5

inductive RxState | open_ | halfClosedRemote
  deriving Repr, DecidableEq

structure RStream where
  id : Nat
  inflow : Inflow
  state : RxState := .open_
  declLen : Option Nat := none
  bodyBytes : Nat := 0
  deriving Repr, DecidableEq

/-- what the handler of a stream can still read: bytes buffered in its pipe; `ended`: an error (EOF / reset) follows -/
structure Body where
  id : Nat
  buffered : Nat := 0
  ended : Bool := false
  returned : Bool := false
  closed : Bool := false                -- the handler called Body.Close() (pipe.BreakWithError): reads fail, writes are refused
  deriving Repr, DecidableEq

structure RConn where
  inflow : Inflow := { avail := 1048576 }
  streams : List RStream := []          -- sc.streams
  bodies : List Body := []              -- request bodies still held by handlers (also of streams already closed)
  dead : Bool := false                  -- GOAWAY with an error sent
  deriving Repr, DecidableEq

inductive Rx
  | wu (sid inc : Nat)
  | rst (sid code : Nat)
  | goaway (code : Nat)
  | read (n : Nat)                      -- the handler's Read returned n bytes
  | readErr                             -- ... or the body's error
  | wouldBlock                          -- nothing buffered, body not ended: the harness does not call Read
  | panic
  deriving Repr, DecidableEq

inductive RxEv
  | open_ (sid : Nat) (cl : Option Nat)
  | data (sid len pad : Nat) (padded es : Bool)
  | rst (sid : Nat)
  | hread (sid n : Nat)
  | hret (sid : Nat)
  | hclose (sid : Nat)                  -- the handler closes the request body and goes on (it has not returned)
  deriving Repr, DecidableEq

def findS (c : RConn) (sid : Nat) : Option RStream := c.streams.find? (·.id == sid)
def findB (c : RConn) (sid : Nat) : Option Body := c.bodies.find? (·.id == sid)
def setS (c : RConn) (s : RStream) : RConn := { c with streams := c.streams.map fun x => if x.id == s.id then s else x }
def setB (c : RConn) (b : Body) : RConn := { c with bodies := c.bodies.map fun x => if x.id == b.id then b else x }
def dropS (c : RConn) (sid : Nat) : RConn := { c with streams := c.streams.filter fun x => !(x.id == sid) }

/-- the WINDOW_UPDATE frame `sendWindowUpdate` writes: none when `inflow.add` batched the credit -/
def refundOut (sid : Nat) (inc : Int) : List Rx := if inc = 0 then [] else [.wu sid inc.toNat]

/-- `sendWindowUpdate(nil, n)` -/
def connRefund (c : RConn) (n : Nat) : RConn × List Rx :=
  match c.inflow.add n with
  | .ok (f, inc) => ({ c with inflow := f }, refundOut 0 inc)
  | .panic => (c, [.panic])

/-- `sendWindowUpdate(st, n)` -/
def streamRefund (c : RConn) (s : RStream) (n : Nat) : RConn × List Rx :=
  match s.inflow.add n with
  | .ok (f, inc) => (setS c { s with inflow := f }, refundOut s.id inc)
  | .panic => (c, [.panic])

/-- `closeStream`: the buffered, unread bytes go back to the connection window; the body ends -/
def closeStream (c : RConn) (sid : Nat) : RConn × List Rx :=
  if (findS c sid).isNone then (c, []) else      -- only streams still in sc.streams are closed
  let c := dropS c sid
  match findB c sid with
  | some b =>
    let (c, r) := connRefund c b.buffered
    (setB c { b with ended := true }, r)
  | none => (c, [])

/-- a StreamError returned by processData: RST_STREAM is written, then the stream is closed -/
def streamErr (c : RConn) (sid code : Nat) : RConn × List Rx :=
  let (c, r) := closeStream c sid
  (c, [Rx.rst sid code] ++ r)

/-- the branches of processData that do not accept the frame still charge the connection window and return the
credit at once; `after` is what follows (RST_STREAM for a closed stream, a stream error otherwise) -/
def chargeReturn (c : RConn) (sid L : Nat) (after : RConn → RConn × List Rx) : RConn × List Rx :=
  if !(c.inflow.take L).2 then streamErr c sid FLOW_CONTROL else
  let r := connRefund { c with inflow := (c.inflow.take L).1 } L
  ((after r.1).1, r.2 ++ (after r.1).2)

/-- `st.body.Write(data)` -/
def buffer (c : RConn) (sid len : Nat) : RConn :=
  match findB c sid with
  | some b => setB c { b with buffered := b.buffered + len }
  | none => c

/-- the padding goes back at once, to the connection and to the stream (also called with 0: flushes batched credit) -/
def padRefund (c : RConn) (sid n : Nat) : RConn × List Rx :=
  let r1 := connRefund c n
  let r2 := match findS r1.1 sid with
    | some s => streamRefund r1.1 s n
    | none => (r1.1, [])
  (r2.1, r1.2 ++ r2.2)

/-- the accepting branch of processData: both windows are charged, the data is buffered, the padding refunded;
`none` = a window is exceeded -/
def acceptData (c : RConn) (s : RStream) (sid len L : Nat) : Option (RConn × List Rx) :=
  if L > 0 then
    if !(takeInflows c.inflow s.inflow L).2.2 then none else
    let c1 := setS { c with inflow := (takeInflows c.inflow s.inflow L).1 }
      { s with inflow := (takeInflows c.inflow s.inflow L).2.1, bodyBytes := s.bodyBytes + len }
    some (padRefund (buffer c1 sid len) sid (L - len))
  else some (c, [])

/-- has the handler of this stream closed its request body? -/
def bodyClosed (c : RConn) (sid : Nat) : Bool :=
  match findB c sid with | some b => b.closed | none => false

/-- processData when `st.body.Write` fails because "the handler has closed the request body": both windows were
charged, the WHOLE frame (data and padding: `f.Length - wrote`, wrote = 0) goes back to the connection window, nothing
to the stream window, and the function returns before looking at END_STREAM; `none` = a window is exceeded -/
def discardData (c : RConn) (s : RStream) (len L : Nat) : Option (RConn × List Rx) :=
  if !(takeInflows c.inflow s.inflow L).2.2 then none else
  some (connRefund (setS { c with inflow := (takeInflows c.inflow s.inflow L).1 }
    { s with inflow := (takeInflows c.inflow s.inflow L).2.1, bodyBytes := s.bodyBytes + len }) L)

def markHalfClosed (c : RConn) (sid : Nat) : RConn :=
  match findS c sid with | some s => setS c { s with state := .halfClosedRemote } | none => c

def markEnded (c : RConn) (sid : Nat) : RConn :=
  match findB c sid with | some b => setB c { b with ended := true } | none => c

/-- `st.endStream()` -/
def endStream (c : RConn) (sid : Nat) : RConn := markEnded (markHalfClosed c sid) sid

/-- the handler read `k` bytes: `noteBodyRead` -/
def noteRead (c : RConn) (b : Body) (sid k : Nat) : RConn × List Rx :=
  let c := setB c { b with buffered := b.buffered - k }
  let r1 := connRefund c k
  let r2 := match findS r1.1 sid with
    | some s => if s.state = RxState.open_ then streamRefund r1.1 s k else (r1.1, [])
    | none => (r1.1, [])
  (r2.1, [Rx.read k] ++ r1.2 ++ r2.2)

/-- "sender tried to send more than declared Content-Length" -/
def overDeclared (s : RStream) (len : Nat) : Bool :=
  match s.declLen with
  | some d => decide (s.bodyBytes + len > d)
  | none => false

/-- a new request stream: 1 MiB stream window, an empty body for its handler -/
def openStream (c : RConn) (sid : Nat) (cl : Option Nat) : RConn :=
  { c with streams := c.streams ++ [{ id := sid, inflow := { avail := 1048576 }, declLen := cl }],
           bodies := c.bodies ++ [{ id := sid }] }

def step (c : RConn) (e : RxEv) : RConn × List Rx :=
  if c.dead then (c, []) else
  match e with
  | .open_ sid cl => (openStream c sid cl, [])
  | .data sid len pad padded es =>
    let L : Nat := len + (if padded then pad + 1 else 0)
    match findS c sid with
    | none => chargeReturn c sid L (fun c => (c, [.rst sid STREAM_CLOSED]))     -- closed stream
    | some s =>
      if s.state ≠ .open_ then chargeReturn c sid L (fun c => streamErr c sid STREAM_CLOSED)
      else if overDeclared s len then chargeReturn c sid L (fun c => streamErr c sid PROTOCOL)
      else if bodyClosed c sid && decide (len > 0) then
        match discardData c s len L with
        | none => streamErr c sid FLOW_CONTROL
        | some r => r
      else
        match acceptData c s sid len L with
        | none => streamErr c sid FLOW_CONTROL
        | some (c, r) => if es then (endStream c sid, r) else (c, r)
  | .rst sid =>
    match findS c sid with
    | some _ => closeStream c sid
    | none => (c, [])
  | .hread sid n =>
    match findB c sid with
    | none => (c, [.wouldBlock])
    | some b =>
      if b.returned then (c, [.wouldBlock]) else
      if b.closed then (c, [.readErr]) else
      if b.buffered = 0 then (if b.ended then (c, [.readErr]) else (c, [.wouldBlock])) else
      noteRead c b sid (min n b.buffered)
  | .hret sid =>
    match findB c sid with
    | none => (c, [])
    | some b =>
      if b.returned then (c, []) else
      let c := setB c { b with returned := true }
      match findS c sid with
      | none => (c, [])
      | some s =>
        if s.state = RxState.open_ then
          -- the response ends the stream before the request did: RST_STREAM(NO_ERROR), then closeStream
          ((closeStream c sid).1, [Rx.rst sid 0] ++ (closeStream c sid).2)
        else closeStream c sid

  | .hclose sid =>
    match findB c sid with
    | none => (c, [])
    | some b => if b.returned then (c, []) else (setB c { b with closed := true }, [])

def run (c : RConn) : List RxEv → List (List Rx)
  | [] => []
  | e :: r => (step c e).2 :: run (step c e).1 r

end Fp.H2Rx
