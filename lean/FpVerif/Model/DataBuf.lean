/-
Model of pkg/http2/databuffer.go (dataBuffer: chunked FIFO of request-body bytes) and pkg/http2/pipe.go (pipe:
the buffer plus close / break state; the blocking `Wait` is modelled as the answer `wouldBlock`).
Representation: `front` holds every chunk but the last (oldest first), `last` the chunk being written. A chunk is
its capacity (`len(chunk)`, one of the five pool classes) and the bytes written to it so far.
-/
namespace Fp.DBuf

structure Chunk (α : Type) where
  cap : Nat
  bytes : List α
  deriving Repr, DecidableEq

structure DBuf (α : Type) where
  front : List (Chunk α) := []
  last : Option (Chunk α) := none
  r : Nat := 0                 -- next byte to read is chunks[0][r]
  size : Nat := 0              -- total buffered bytes
  expected : Int := 0
  deriving Repr, DecidableEq

/-- `getDataBufferChunk(size)`: the pool size class -/
def chunkSize (want : Int) : Nat :=
  if want ≤ 1024 then 1024 else if want ≤ 2048 then 2048 else if want ≤ 4096 then 4096
  else if want ≤ 8192 then 8192 else 16384

/-- `b.w`: write offset in the last chunk -/
def w {α} (b : DBuf α) : Nat := match b.last with | some c => c.bytes.length | none => 0

/-- `lastChunkOrAlloc(want)`: returns the buffer whose `last` chunk has room -/
def lastChunkOrAlloc {α} (b : DBuf α) (want : Int) : DBuf α :=
  match b.last with
  | some c => if c.bytes.length < c.cap then b
              else { b with front := b.front ++ [c], last := some { cap := chunkSize want, bytes := [] } }
  | none => { b with last := some { cap := chunkSize want, bytes := [] } }

/-- `want` in `Write`: the larger of len(p) and the bytes still expected -/
def wantOf {α} (b : DBuf α) (p : List α) : Int := if b.expected > p.length then b.expected else p.length

/-- one iteration of the loop in `Write` -/
def writeStep {α} (b : DBuf α) (p : List α) : DBuf α × List α :=
  let b1 := lastChunkOrAlloc b (wantOf b p)
  match b1.last with
  | some c =>
    let n := min (c.cap - c.bytes.length) p.length
    ({ b1 with last := some { c with bytes := c.bytes ++ p.take n }, size := b1.size + n, expected := b1.expected - n },
     p.drop n)
  | none => (b1, p)     -- unreachable: lastChunkOrAlloc always leaves a last chunk

/-- `Write(p)` -/
def writeLoop {α} : Nat → DBuf α → List α → DBuf α
  | 0, b, _ => b
  | fuel + 1, b, p => if p.isEmpty then b else
      let (b', p') := writeStep b p
      writeLoop fuel b' p'

def write {α} (b : DBuf α) (p : List α) : DBuf α := writeLoop (p.length + 1) b p

/-- `bytesFromFirstChunk()` together with the capacity of the first chunk -/
def firstChunk {α} (b : DBuf α) : Option (Chunk α) :=
  match b.front with
  | c :: _ => some c
  | [] => b.last

/-- drop the first chunk (`putDataBufferChunk` + shift) -/
def dropFirst {α} (b : DBuf α) : DBuf α :=
  match b.front with
  | _ :: rest => { b with front := rest, r := 0 }
  | [] => { b with last := none, r := 0 }

/-- one iteration of the loop in `Read`; `n` = remaining room in the caller's slice -/
def readStep {α} (b : DBuf α) (n : Nat) : DBuf α × List α :=
  match firstChunk b with
  | some c =>
    let readFrom := c.bytes.drop b.r
    let k := min n readFrom.length
    let b1 := { b with r := b.r + k, size := b.size - k }
    (if b1.r = c.cap then dropFirst b1 else b1, readFrom.take k)
  | none => (b, [])

/-- `Read(p)` with `len(p) = n`; `none` = errReadEmpty -/
def readLoop {α} : Nat → DBuf α → Nat → List α → DBuf α × List α
  | 0, b, _, acc => (b, acc)
  | fuel + 1, b, n, acc =>
    if n = 0 ∨ b.size = 0 then (b, acc) else
      let (b', got) := readStep b n
      readLoop fuel b' (n - got.length) (acc ++ got)

def read {α} (b : DBuf α) (n : Nat) : Option (DBuf α × List α) :=
  if b.size = 0 then none else some (readLoop (n + 1) b n [])

def lastBytes {α} (b : DBuf α) : List α := match b.last with | some c => c.bytes | none => []

/-- every byte written to the chunks still held -/
def total {α} (b : DBuf α) : List α := b.front.flatMap (·.bytes) ++ lastBytes b

/-- the bytes the buffer holds, oldest first -/
def contents {α} (b : DBuf α) : List α := (total b).drop b.r

/-! ### pipe -/

inductive PErr | eof | other (code : Nat)
  deriving Repr, DecidableEq

structure Pipe (α : Type) where
  b : Option (DBuf α)
  unread : Nat := 0
  err : Option PErr := none
  breakErr : Option PErr := none
  deriving Repr, DecidableEq

inductive RdRes (α : Type)
  | data (d : List α)
  | err (e : PErr)
  | wouldBlock
  | bufErr               -- errReadEmpty from the buffer (unreachable: guarded by Len() > 0)
  deriving Repr, DecidableEq

/-- `pipe.Read(d)` with `len(d) = n`, one pass of the loop (a blocked reader re-runs it after a Signal) -/
def pRead {α} (p : Pipe α) (n : Nat) : Pipe α × RdRes α :=
  match p.breakErr with
  | some e => (p, .err e)
  | none =>
    match p.b with
    | some b =>
      if b.size > 0 then
        match read b n with
        | some (b', d) => ({ p with b := some b' }, .data d)
        | none => (p, .bufErr)
      else match p.err with
        | some e => ({ p with b := none }, .err e)
        | none => (p, .wouldBlock)
    | none => match p.err with
      | some e => ({ p with b := none }, .err e)
      | none => (p, .wouldBlock)

inductive WrRes | ok (n : Nat) | closed | uninit
  deriving Repr, DecidableEq

/-- `pipe.Write(d)` -/
def pWrite {α} (p : Pipe α) (d : List α) : Pipe α × WrRes :=
  if p.err.isSome ∨ p.breakErr.isSome then (p, .closed)
  else match p.b with
    | none => (p, .uninit)
    | some b => ({ p with b := some (write b d) }, .ok d.length)

/-- `CloseWithError(err)` -/
def pClose {α} (p : Pipe α) (e : PErr) : Pipe α := if p.err.isSome then p else { p with err := some e }

/-- `BreakWithError(err)` -/
def pBreak {α} (p : Pipe α) (e : PErr) : Pipe α :=
  if p.breakErr.isSome then p
  else { p with unread := p.unread + (match p.b with | some b => b.size | none => 0), b := none, breakErr := some e }

/-- `pipe.Len()` -/
def pLen {α} (p : Pipe α) : Nat := match p.b with | some b => b.size | none => p.unread

end Fp.DBuf
