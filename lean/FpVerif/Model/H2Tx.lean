/-
Model of the client transport's request-body writer (pkg/http2/transport.go: writeRequestBody, awaitFlowControl,
frameScratchBufferLen, processWindowUpdate, processSettingsNoWrite for INITIAL_WINDOW_SIZE / MAX_FRAME_SIZE) for one
request with a body of unknown length. The body delivers bytes when the test makes them available and (0, EOF) once
closed; the writer reads into a scratch buffer whose size is fixed when the upload starts.
-/
import FpVerif.Model.Flow
namespace Fp.H2Tx
open Fp.Flow

structure Tx where
  connFlow : Int := 65535
  streamFlow : Int := 65535
  initialWindow : Int := 65535
  maxFrame : Int := 16384
  scratch : Nat := 16384         -- frameScratchBufferLen(maxFrameSize at the start of the upload)
  avail : Nat := 0               -- bytes the body can deliver now
  eof : Bool := false            -- the body has been closed (io.EOF after the available bytes)
  remain : Nat := 0              -- bytes read into the scratch buffer, not yet sent
  sawEOF : Bool := false
  done : Bool := false           -- END_STREAM sent, or the stream / connection failed
  deriving Repr, DecidableEq

inductive Out
  | data (len : Nat) (endStream : Bool)
  | rst (code : Nat)
  | goaway (code : Nat)
  deriving Repr, DecidableEq

/-- `frameScratchBufferLen` for an unknown content length -/
def scratchLen (maxFrame : Int) : Nat := if maxFrame > 524288 then 524288 else if maxFrame < 1 then 1 else maxFrame.toNat

/-- `outflow.available()` of the stream flow linked to the connection flow -/
def available (t : Tx) : Int := if t.connFlow < t.streamFlow then t.connFlow else t.streamFlow

/-- `awaitFlowControl(len(remain))`: min(available window, bytes in hand, max frame size) -/
def takeOf (t : Tx) : Int :=
  let k : Int := if (t.remain : Int) < available t then t.remain else available t
  if k > t.maxFrame then t.maxFrame else k

/-- one DATA frame of `take` bytes written: both windows charged, the bytes leave the scratch buffer -/
def sent (t : Tx) (take : Int) : Tx :=
  { t with streamFlow := t.streamFlow - take, connFlow := t.connFlow - take, remain := t.remain - take.toNat }

/-- `body.Read(buf)` with bytes available -/
def readChunk (t : Tx) : Tx := { t with avail := t.avail - min t.scratch t.avail, remain := min t.scratch t.avail }

def sawEnd (t : Tx) : Tx := { t with sawEOF := true }
def finish (t : Tx) : Tx := { t with done := true }

/-- run the writer goroutine until it blocks (on flow control or on the body) or finishes -/
def drain : Nat → Tx → Tx × List Out
  | 0, t => (t, [])
  | fuel + 1, t =>
    if t.done then (t, []) else
    if t.remain > 0 then
      if available t ≤ 0 then (t, []) else
      ((drain fuel (sent t (takeOf t))).1, .data (takeOf t).toNat false :: (drain fuel (sent t (takeOf t))).2)
    else if t.sawEOF then (finish t, [.data 0 true])
    else if t.avail > 0 then drain fuel (readChunk t)
    else if t.eof then drain fuel (sawEnd t)
    else (t, [])

inductive Ev
  | body (n : Nat)                 -- the test makes n more body bytes available
  | bodyEOF
  | windowUpdate (sid inc : Nat)   -- from the server
  | setting (id val : Nat)         -- SETTINGS_INITIAL_WINDOW_SIZE (4) / SETTINGS_MAX_FRAME_SIZE (5) from the server
  deriving Repr, DecidableEq

def FLOW_CONTROL : Nat := 3

def fuelFor (t : Tx) : Nat := 2 * (t.avail + t.remain) + 16

def step (t : Tx) (e : Ev) : Tx × List Out :=
  if t.done then (t, []) else
  let (t, pre) : Tx × List Out := match e with
    | .body n => ({ t with avail := t.avail + n }, [])
    | .bodyEOF => ({ t with eof := true }, [])
    | .windowUpdate sid inc =>
      if sid = 0 then
        let (n, ok) := outflowAdd t.connFlow inc
        if ok then ({ t with connFlow := n }, []) else ({ t with done := true }, [.goaway FLOW_CONTROL])
      else if sid ≠ 1 then (t, [])      -- a stream the client does not (or no longer) track: ignored
      else
        let (n, ok) := outflowAdd t.streamFlow inc
        if ok then ({ t with streamFlow := n }, []) else ({ t with done := true }, [.rst FLOW_CONTROL])
    | .setting id val =>
      if id = 4 then
        if val > 2147483647 then ({ t with done := true }, [.goaway FLOW_CONTROL]) else
        let delta : Int := (val : Int) - t.initialWindow
        let (n, _) := outflowAdd t.streamFlow delta
        ({ t with streamFlow := n, initialWindow := val }, [])
      else if id = 5 then ({ t with maxFrame := val }, [])
      else (t, [])
  if t.done then (t, pre) else
  let (t, o) := drain (fuelFor t) t
  (t, pre ++ o)

def run (t : Tx) : List Ev → List (List Out)
  | [] => []
  | e :: r => (step t e).2 :: run (step t e).1 r

end Fp.H2Tx
