/-
Common modelling vocabulary: byte strings, decimal / hex rendering, joins, a Go-style TrimSuffix.
Core-only (no Mathlib): these definitions are compiled into the `fpdriver` executable.
-/
namespace Fp

abbrev Bytes := List UInt8

/-- ASCII digit for `d < 10`. -/
def digit (d : Nat) : UInt8 := UInt8.ofNat (48 + d % 10)

/-- digits of `n`, most significant first, prepended to `acc`; `fuel` bounds the number of digits
(structural recursion, so the kernel can evaluate it). -/
def decAux : Nat → Nat → Bytes → Bytes
  | 0, _, acc => acc
  | fuel + 1, n, acc => if n < 10 then digit n :: acc else decAux fuel (n / 10) (digit n :: acc)

/-- `strconv.AppendInt(_, n, 10)` / `%d` for non-negative `n` (64 digits of fuel cover every Go integer
width; the lemmas are proved for `n < 10^64`... see `dec_spec`). -/
def dec (n : Nat) : Bytes := decAux (n + 1) n []

/-- `fmt.Sprintf("%02d", n)` for non-negative `n`: left-padded with one `0` to width 2. -/
def dec02 (n : Nat) : Bytes := if n < 10 then 48 :: dec n else dec n

def hexDigit (d : Nat) : UInt8 :=
  let d := d % 16
  if d < 10 then UInt8.ofNat (48 + d) else UInt8.ofNat (87 + d)

/-- lower-case hex of one byte (`hex.EncodeToString`, `%02x`). -/
def hexByte (b : UInt8) : Bytes := [hexDigit (b.toNat / 16), hexDigit b.toNat]

def hexBytes (bs : Bytes) : Bytes := bs.flatMap hexByte

/-- `fmt.Sprintf("%04x", v)` for a 16-bit value. -/
def hex04 (v : UInt16) : Bytes :=
  hexByte (UInt8.ofNat (v.toNat / 256)) ++ hexByte (UInt8.ofNat (v.toNat % 256))

/-- `strings.Join` / `bytes.Join`. -/
def join (sep : Bytes) : List Bytes → Bytes
  | [] => []
  | [x] => x
  | x :: y :: r => x ++ sep ++ join sep (y :: r)

/-- `bytes.TrimSuffix(buf, []byte{c})`. -/
def trimSuffix1 (buf : Bytes) (c : UInt8) : Bytes :=
  if buf.getLast? = some c then buf.dropLast else buf

def isDigitByte (b : UInt8) : Bool := 48 ≤ b && b ≤ 57

def u16be (hi lo : UInt8) : UInt16 := (hi.toUInt16 <<< 8) ||| lo.toUInt16

def u16hi (v : UInt16) : UInt8 := (v >>> 8).toUInt8
def u16lo (v : UInt16) : UInt8 := v.toUInt8

/-- ASCII literal as bytes (kernel-reducible; literals in models and theorems are ASCII). -/
def strBytes (s : String) : Bytes := s.toList.map (fun c => UInt8.ofNat c.toNat)
def bytesStr (b : Bytes) : String := String.fromUTF8! (ByteArray.mk b.toArray)

end Fp
