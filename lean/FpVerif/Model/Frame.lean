/-
Model of pkg/http2/frame.go: the frame header, every parse*Frame function, checkFrameOrder, ReadFrame
(without ReadMetaHeaders) and every Write* method of the Framer.
-/
import FpVerif.Model.Common
namespace Fp.Frame

def u32be (b : Bytes) : Nat :=
  (b.getD 0 0).toNat * 16777216 + (b.getD 1 0).toNat * 65536 + (b.getD 2 0).toNat * 256 + (b.getD 3 0).toNat
def be32 (n : Nat) : Bytes := [UInt8.ofNat (n / 16777216), UInt8.ofNat (n / 65536), UInt8.ofNat (n / 256), UInt8.ofNat n]
def be16 (n : Nat) : Bytes := [UInt8.ofNat (n / 256), UInt8.ofNat n]
def be24 (n : Nat) : Bytes := [UInt8.ofNat (n / 65536), UInt8.ofNat (n / 256), UInt8.ofNat n]

structure Prio where
  dep : Nat
  excl : Bool
  weight : Nat
  deriving Repr, DecidableEq

inductive Frame
  | data (sid flags : Nat) (payload : Bytes)
  | headers (sid flags : Nat) (prio : Prio) (frag : Bytes)          -- prio is all-zero unless the PRIORITY flag is set
  | priority (sid flags : Nat) (prio : Prio)
  | rst (sid flags code : Nat)
  | settings (flags : Nat) (ss : List (Nat × Nat))
  | pushPromise (sid flags promise : Nat) (frag : Bytes)
  | ping (flags : Nat) (data : Bytes)
  | goaway (flags last code : Nat) (debug : Bytes)
  | windowUpdate (sid flags inc : Nat)
  | continuation (sid flags : Nat) (frag : Bytes)
  | unknown (ty sid flags : Nat) (payload : Bytes)
  deriving Repr, DecidableEq

/-- ErrCode values -/
def codeProtocol : Nat := 1
def codeFlowControl : Nat := 3
def codeFrameSize : Nat := 6

inductive RErr
  | conn (code : Nat)                -- ConnectionError / connError
  | stream (sid code : Nat)          -- StreamError
  | tooLarge                         -- ErrFrameTooLarge
  | eof                              -- io.EOF at a frame boundary
  | ueof                             -- io.ErrUnexpectedEOF
  deriving Repr, DecidableEq

def hasFlag (flags bit : Nat) : Bool := flags / bit % 2 == 1

def settingsList : Bytes → List (Nat × Nat)
  | a :: b :: c :: d :: e :: f :: r => ((a.toNat * 256 + b.toNat), u32be [c, d, e, f]) :: settingsList r
  | _ => []

/-- `SettingsFrame.Value(id)`: the FIRST setting with that id -/
def settingValue (ss : List (Nat × Nat)) (id : Nat) : Option Nat := (ss.find? (·.1 == id)).map (·.2)

/-- payload after the optional pad-length byte, and the pad length -/
def padLenOf (flags : Nat) (p : Bytes) : Nat := if hasFlag flags 8 then (p.headD 0).toNat else 0
def afterPad (flags : Nat) (p : Bytes) : Bytes := if hasFlag flags 8 then p.drop 1 else p

def prioOf (p : Bytes) : Prio :=
  { dep := u32be p % 2147483648, excl := decide (u32be p ≥ 2147483648), weight := (p.getD 4 0).toNat }
def noPrio : Prio := { dep := 0, excl := false, weight := 0 }

/-! the per-type parsers (`typeFrameParser(fh.Type)(...)`), after the fix for D13: a frame too short for its
mandatory fields is a FRAME_SIZE_ERROR connection error -/

def parseData (flags sid : Nat) (p : Bytes) : Except RErr Frame :=
  if sid = 0 then .error (.conn codeProtocol)
  else if hasFlag flags 8 = true ∧ p = [] then .error (.conn codeFrameSize)
  else if padLenOf flags p > (afterPad flags p).length then .error (.conn codeProtocol)
  else .ok (.data sid flags ((afterPad flags p).take ((afterPad flags p).length - padLenOf flags p)))

def parseHeaders (flags sid : Nat) (p : Bytes) : Except RErr Frame :=
  if sid = 0 then .error (.conn codeProtocol)
  else if hasFlag flags 8 = true ∧ p = [] then .error (.conn codeFrameSize)
  else if hasFlag flags 32 = true then
    if (afterPad flags p).length < 5 then .error (.conn codeFrameSize)
    else if ((afterPad flags p).drop 5).length < padLenOf flags p then .error (.stream sid codeProtocol)
    else .ok (.headers sid flags (prioOf (afterPad flags p))
           (((afterPad flags p).drop 5).take (((afterPad flags p).drop 5).length - padLenOf flags p)))
  else if (afterPad flags p).length < padLenOf flags p then .error (.stream sid codeProtocol)
  else .ok (.headers sid flags noPrio ((afterPad flags p).take ((afterPad flags p).length - padLenOf flags p)))

def parsePriority (flags sid : Nat) (p : Bytes) : Except RErr Frame :=
  if sid = 0 then .error (.conn codeProtocol)
  else if p.length ≠ 5 then .error (.conn codeFrameSize)
  else .ok (.priority sid flags (prioOf p))

def parseRST (flags sid : Nat) (p : Bytes) : Except RErr Frame :=
  if p.length ≠ 4 then .error (.conn codeFrameSize)
  else if sid = 0 then .error (.conn codeProtocol) else .ok (.rst sid flags (u32be p))

def parseSettings (flags sid : Nat) (p : Bytes) : Except RErr Frame :=
  if hasFlag flags 1 = true ∧ p.length > 0 then .error (.conn codeFrameSize)
  else if sid ≠ 0 then .error (.conn codeProtocol)
  else if p.length % 6 ≠ 0 then .error (.conn codeFrameSize)
  else if (settingValue (settingsList p) 4).getD 0 > 2147483647 then .error (.conn codeFlowControl)
  else .ok (.settings flags (settingsList p))

def parsePushPromise (flags sid : Nat) (p : Bytes) : Except RErr Frame :=
  if sid = 0 then .error (.conn codeProtocol)
  else if hasFlag flags 8 = true ∧ p = [] then .error (.conn codeFrameSize)
  else if (afterPad flags p).length < 4 then .error (.conn codeFrameSize)
  else if padLenOf flags p > ((afterPad flags p).drop 4).length then .error (.conn codeProtocol)
  else .ok (.pushPromise sid flags (u32be (afterPad flags p) % 2147483648)
         (((afterPad flags p).drop 4).take (((afterPad flags p).drop 4).length - padLenOf flags p)))

def parsePing (flags sid : Nat) (p : Bytes) : Except RErr Frame :=
  if p.length ≠ 8 then .error (.conn codeFrameSize)
  else if sid ≠ 0 then .error (.conn codeProtocol) else .ok (.ping flags p)

def parseGoAway (flags sid : Nat) (p : Bytes) : Except RErr Frame :=
  if sid ≠ 0 then .error (.conn codeProtocol)
  else if p.length < 8 then .error (.conn codeFrameSize)
  else .ok (.goaway flags (u32be p % 2147483648) (u32be (p.drop 4)) (p.drop 8))

def parseWindowUpdate (flags sid : Nat) (p : Bytes) : Except RErr Frame :=
  if p.length ≠ 4 then .error (.conn codeFrameSize)
  else if u32be p % 2147483648 = 0 then (if sid = 0 then .error (.conn codeProtocol) else .error (.stream sid codeProtocol))
  else .ok (.windowUpdate sid flags (u32be p % 2147483648))

def parseContinuation (flags sid : Nat) (p : Bytes) : Except RErr Frame :=
  if sid = 0 then .error (.conn codeProtocol) else .ok (.continuation sid flags p)

def parsePayload (ty flags sid : Nat) (p : Bytes) : Except RErr Frame :=
  match ty with
  | 0 => parseData flags sid p
  | 1 => parseHeaders flags sid p
  | 2 => parsePriority flags sid p
  | 3 => parseRST flags sid p
  | 4 => parseSettings flags sid p
  | 5 => parsePushPromise flags sid p
  | 6 => parsePing flags sid p
  | 7 => parseGoAway flags sid p
  | 8 => parseWindowUpdate flags sid p
  | 9 => parseContinuation flags sid p
  | t => .ok (.unknown t sid flags p)

def frameTypeOf : Frame → Nat
  | .data .. => 0 | .headers .. => 1 | .priority .. => 2 | .rst .. => 3 | .settings .. => 4 | .pushPromise .. => 5
  | .ping .. => 6 | .goaway .. => 7 | .windowUpdate .. => 8 | .continuation .. => 9 | .unknown t .. => t

/-- `checkFrameOrder`: state = lastHeaderStream -/
def checkOrder (lastHeaderStream : Nat) (ty flags sid : Nat) : Except RErr Nat :=
  let ok : Except RErr Unit :=
    if lastHeaderStream ≠ 0 then
      if ty ≠ 9 then .error (.conn codeProtocol)
      else if sid ≠ lastHeaderStream then .error (.conn codeProtocol) else .ok ()
    else if ty = 9 then .error (.conn codeProtocol) else .ok ()
  match ok with
  | .error e => .error e
  | .ok () =>
    if ty = 1 ∨ ty = 9 then .ok (if hasFlag flags 4 then 0 else sid) else .ok lastHeaderStream

def hdrLen (inp : Bytes) : Nat := (inp.getD 0 0).toNat * 65536 + (inp.getD 1 0).toNat * 256 + (inp.getD 2 0).toNat
def hdrType (inp : Bytes) : Nat := (inp.getD 3 0).toNat
def hdrFlags (inp : Bytes) : Nat := (inp.getD 4 0).toNat
def hdrSid (inp : Bytes) : Nat := u32be (inp.drop 5) % 2147483648

/-- parse + frame-order check of a complete frame -/
def finishFrame (lastHS ty flags sid : Nat) (payload rest : Bytes) : Except RErr Frame × Nat × Bytes :=
  match parsePayload ty flags sid payload with
  | .error e => (.error e, lastHS, rest)
  | .ok f =>
    match checkOrder lastHS ty flags sid with
    | .error e => (.error e, lastHS, rest)
    | .ok hs => (.ok f, hs, rest)

/-- one `ReadFrame`: result, new lastHeaderStream, unread bytes -/
def readFrame (maxRead lastHS : Nat) (inp : Bytes) : Except RErr Frame × Nat × Bytes :=
  if inp = [] then (.error .eof, lastHS, [])
  else if inp.length < 9 then (.error .ueof, lastHS, [])
  else if hdrLen inp > maxRead then (.error .tooLarge, lastHS, inp.drop 9)
  else if (inp.drop 9).length < hdrLen inp then
    (.error (if inp.drop 9 = [] then .eof else .ueof), lastHS, [])
  else finishFrame lastHS (hdrType inp) (hdrFlags inp) (hdrSid inp) ((inp.drop 9).take (hdrLen inp)) ((inp.drop 9).drop (hdrLen inp))

/-! ### writers -/

inductive WErr | streamID | depStreamID | padLength | padBytes | tooLarge | increment
  deriving Repr, DecidableEq

def validStreamID (s : Nat) : Bool := s ≠ 0 && s < 2147483648

def rawFrame (ty flags sid : Nat) (payload : Bytes) : Except WErr Bytes :=
  if payload.length ≥ 16777216 then .error .tooLarge
  else .ok (be24 payload.length ++ [UInt8.ofNat ty, UInt8.ofNat flags] ++ be32 sid ++ payload)

/-- `WriteDataPadded` (pad = none: `WriteData`) -/
def writeData (sid : Nat) (endStream : Bool) (data : Bytes) (pad : Option Bytes) : Except WErr Bytes :=
  if !validStreamID sid then .error .streamID else
  match pad with
  | some pd =>
    if pd.length > 255 then .error .padLength
    else if pd.any (· ≠ 0) then .error .padBytes
    else rawFrame 0 ((if endStream then 1 else 0) + 8) sid ([UInt8.ofNat pd.length] ++ data ++ pd)
  | none => rawFrame 0 (if endStream then 1 else 0) sid data

def prioIsZero (p : Prio) : Bool := p.dep = 0 && !p.excl && p.weight = 0

def writeHeaders (sid : Nat) (frag : Bytes) (endStream endHeaders : Bool) (padLen : Nat) (prio : Prio) : Except WErr Bytes :=
  if !validStreamID sid then .error .streamID else
  let flags := (if padLen ≠ 0 then 8 else 0) + (if endStream then 1 else 0) + (if endHeaders then 4 else 0) +
               (if !prioIsZero prio then 32 else 0)
  if !prioIsZero prio ∧ prio.dep ≥ 2147483648 then .error .depStreamID else
  let pre := (if padLen ≠ 0 then [UInt8.ofNat padLen] else []) ++
             (if !prioIsZero prio then be32 (prio.dep + (if prio.excl then 2147483648 else 0)) ++ [UInt8.ofNat prio.weight] else [])
  rawFrame 1 flags sid (pre ++ frag ++ List.replicate padLen 0)

def writePriority (sid : Nat) (prio : Prio) : Except WErr Bytes :=
  if !validStreamID sid then .error .streamID else
  if prio.dep ≥ 2147483648 then .error .depStreamID else
  rawFrame 2 0 sid (be32 (prio.dep + (if prio.excl then 2147483648 else 0)) ++ [UInt8.ofNat prio.weight])

def writeRST (sid code : Nat) : Except WErr Bytes :=
  if !validStreamID sid then .error .streamID else rawFrame 3 0 sid (be32 code)

def writeSettings (ss : List (Nat × Nat)) : Except WErr Bytes :=
  rawFrame 4 0 0 (ss.flatMap fun s => be16 s.1 ++ be32 s.2)

def writeSettingsAck : Except WErr Bytes := rawFrame 4 1 0 []

def writePushPromise (sid promise : Nat) (frag : Bytes) (endHeaders : Bool) (padLen : Nat) : Except WErr Bytes :=
  if !validStreamID sid then .error .streamID else
  if !validStreamID promise then .error .streamID else
  rawFrame 5 ((if padLen ≠ 0 then 8 else 0) + (if endHeaders then 4 else 0)) sid
    ((if padLen ≠ 0 then [UInt8.ofNat padLen] else []) ++ be32 promise ++ frag ++ List.replicate padLen 0)

def writePing (ack : Bool) (data : Bytes) : Except WErr Bytes := rawFrame 6 (if ack then 1 else 0) 0 data

def writeGoAway (last code : Nat) (debug : Bytes) : Except WErr Bytes :=
  rawFrame 7 0 0 (be32 (last % 2147483648) ++ be32 code ++ debug)

def writeWindowUpdate (sid inc : Nat) : Except WErr Bytes :=
  if inc < 1 ∨ inc > 2147483647 then .error .increment else rawFrame 8 0 sid (be32 inc)

def writeContinuation (sid : Nat) (endHeaders : Bool) (frag : Bytes) : Except WErr Bytes :=
  if !validStreamID sid then .error .streamID else rawFrame 9 (if endHeaders then 4 else 0) sid frag

end Fp.Frame
