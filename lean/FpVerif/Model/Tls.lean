/-
Abstract ClientHello (what a client means to send) and its wire form (RFC 8446 §4.1.2 / RFC 5246 §7.4.1.2,
one TLS record). Extensions whose bodies the fingerprinting code interprets are structured; all others
are raw (type, body).
-/
import FpVerif.Model.Common
namespace Fp.Tls

inductive Ext
  | sni (names : List (UInt8 × Bytes))     -- (name_type, host_name)
  | groups (gs : List UInt16)              -- supported_groups (10)
  | points (ps : List UInt8)               -- ec_point_formats (11)
  | alpn (protos : List Bytes)             -- application_layer_protocol_negotiation (16)
  | sigalgs (as : List UInt16)             -- signature_algorithms (13)
  | versions (vs : List UInt16)            -- supported_versions (43)
  | raw (type : UInt16) (body : Bytes)
  deriving Repr, DecidableEq

structure Hello where
  recVer : UInt16
  hsVer : UInt16
  random : Bytes
  sid : Bytes
  ciphers : List UInt16
  comp : Bytes
  exts : Option (List Ext)                 -- `none`: no extensions block at all
  deriving Repr, DecidableEq

def Ext.typeId : Ext → UInt16
  | .sni _ => 0 | .groups _ => 10 | .points _ => 11 | .alpn _ => 16 | .sigalgs _ => 13 | .versions _ => 43
  | .raw t _ => t

def be16 (n : Nat) : Bytes := [UInt8.ofNat (n / 256), UInt8.ofNat n]
def be24 (n : Nat) : Bytes := [UInt8.ofNat (n / 65536), UInt8.ofNat (n / 256), UInt8.ofNat n]
def u16sBytes (xs : List UInt16) : Bytes := xs.flatMap fun v => [u16hi v, u16lo v]

def sniEntry (e : UInt8 × Bytes) : Bytes := e.1 :: be16 e.2.length ++ e.2
def alpnEntry (p : Bytes) : Bytes := UInt8.ofNat p.length :: p

def Ext.body : Ext → Bytes
  | .sni names => let l := names.flatMap sniEntry; be16 l.length ++ l
  | .groups gs => let b := u16sBytes gs; be16 b.length ++ b
  | .sigalgs gs => let b := u16sBytes gs; be16 b.length ++ b
  | .versions vs => let b := u16sBytes vs; UInt8.ofNat b.length :: b
  | .points ps => UInt8.ofNat ps.length :: ps
  | .alpn ps => let l := ps.flatMap alpnEntry; be16 l.length ++ l
  | .raw _ b => b

def Ext.wire (e : Ext) : Bytes :=
  let b := e.body
  [u16hi e.typeId, u16lo e.typeId] ++ be16 b.length ++ b

def extsBlock : Option (List Ext) → Bytes
  | none => []
  | some es => let b := es.flatMap Ext.wire; be16 b.length ++ b

def helloBody (h : Hello) : Bytes :=
  [u16hi h.hsVer, u16lo h.hsVer] ++ h.random ++ (UInt8.ofNat h.sid.length :: h.sid) ++
  (let cs := u16sBytes h.ciphers; be16 cs.length ++ cs) ++ (UInt8.ofNat h.comp.length :: h.comp) ++
  extsBlock h.exts

def handshake (h : Hello) : Bytes := let b := helloBody h; 1 :: be24 b.length ++ b

/-- the single TLS record carrying the whole ClientHello handshake message. -/
def serialize (h : Hello) : Bytes :=
  let hs := handshake h
  [22, u16hi h.recVer, u16lo h.recVer] ++ be16 hs.length ++ hs

end Fp.Tls
