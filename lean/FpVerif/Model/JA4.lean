/-
Model of the JA4 path:
  utls.ClientHelloSpec.FromRaw(rec, true, false)   (refraction-networking/utls v1.6.0, generic TLV walk plus the
                                                    body parsers of the extensions JA4 reads)
  ja4.JA4Fingerprint.Unmarshal / String            (/repo/pkg/ja4)
The bodies of the OTHER extension types utls knows are treated as opaque (hypothesis: utls accepts them).
-/
import FpVerif.Model.Common
namespace Fp.JA4

/-- what JA4 distinguishes about a parsed extension -/
inductive ExtV
  | sni
  | alpn (protos : List Bytes)
  | sigalgs (as : List Nat)
  | versions (vs : List Nat)         -- after utls's GREASE folding
  | grease
  | other (id : Nat)
  deriving Repr, DecidableEq

structure View where
  hsVer : Nat
  ciphers : List Nat                  -- after utls's GREASE folding (16-bit wire values as Nat)
  exts : List ExtV
  deriving Repr, DecidableEq

/-- extension types whose bodies utls v1.6.0 validates (`ExtensionFromID` + `Write`) but JA4 does not read:
the model treats these bodies as opaque; `hasOpaque` marks a hello whose JA4 value is conditional on
utls accepting them (hypothesis OpaqueOthersOK) -/
def validatedOpaque : List Nat :=
  [5, 10, 11, 17, 18, 23, 24, 27, 28, 34, 35, 41, 45, 50, 51, 57, 13172, 17513, 30031, 30032, 65281]

/-- `isGREASEUint16` of pkg/ja4/helper.go (and of utls) -/
def isGrease (v : Nat) : Bool := (v / 256 == v % 256) && (v % 16 == 10)

/-- utls `unGREASEUint16` -/
def unGrease (v : Nat) : Nat := if isGrease v then 0x0a0a else v

/-! cryptobyte readers: `none` = the read fails -/
def rdU8Len (s : Bytes) : Option (Bytes × Bytes) :=
  match s with
  | [] => none
  | n :: r => if n.toNat ≤ r.length then some (r.take n.toNat, r.drop n.toNat) else none

def rdU16Len (s : Bytes) : Option (Bytes × Bytes) :=
  match s with
  | a :: b :: r => let n := a.toNat * 256 + b.toNat; if n ≤ r.length then some (r.take n, r.drop n) else none
  | _ => none

theorem rdU8Len_lt {s a r : Bytes} (h : rdU8Len s = some (a, r)) : r.length < s.length := by
  unfold rdU8Len at h
  split at h
  · cases h
  · split at h
    · simp only [Option.some.injEq, Prod.mk.injEq] at h; rw [← h.2]; simp; omega
    · cases h

theorem rdU16Len_lt {s a r : Bytes} (h : rdU16Len s = some (a, r)) : r.length + 2 ≤ s.length := by
  unfold rdU16Len at h
  split at h
  · simp only at h
    split at h
    · simp only [Option.some.injEq, Prod.mk.injEq] at h; rw [← h.2]; simp
    · cases h
  · cases h

/-- a whole string as big-endian 16-bit values (fails on an odd length) -/
def rdU16s : Bytes → Option (List Nat)
  | [] => some []
  | a :: b :: r => (rdU16s r).map ((a.toNat * 256 + b.toNat) :: ·)
  | [_] => none

def sniLoop (names : Bytes) (seen : Bool) : Option Unit :=
  match names with
  | [] => some ()
  | ty :: r =>
    match h : rdU16Len r with
    | none => none
    | some (name, rest) =>
      if name.isEmpty then none
      else if ty ≠ 0 then sniLoop rest seen
      else if seen then none
      else if name.getLast? == some 46 then none
      else sniLoop rest true
termination_by names.length
decreasing_by
  all_goals (have := rdU16Len_lt h; simp; omega)

def alpnLoop (s : Bytes) : Option (List Bytes) :=
  if s.isEmpty then some [] else
    match h : rdU8Len s with
    | none => none
    | some (p, rest) => if p.isEmpty then none else (alpnLoop rest).map (p :: ·)
termination_by s.length
decreasing_by
  have := rdU8Len_lt h; omega

/-- body parser of one extension (`ExtensionFromID` + `Write`), `none` = FromRaw fails -/
def parseExt (id : Nat) (body : Bytes) : Option ExtV :=
  if id = 0 then
    match rdU16Len body with
    | some (names, _) => if names.isEmpty then none else (sniLoop names false).map fun _ => .sni
    | none => none
  else if id = 16 then
    match rdU16Len body with
    | some (l, _) => if l.isEmpty then none else (alpnLoop l).map .alpn
    | none => none
  else if id = 13 then
    match rdU16Len body with
    | some (l, _) => if l.isEmpty then none else (rdU16s l).map .sigalgs
    | none => none
  else if id = 43 then
    match rdU8Len body with
    | some (l, _) => if l.isEmpty then none else (rdU16s l).map fun vs => .versions (vs.map unGrease)
    | none => none
  else if isGrease id then some .grease
  else some (.other id)

def extWalk (s : Bytes) : Option (List ExtV) :=
  match s with
  | [] => some []
  | t0 :: t1 :: r =>
    match h : rdU16Len r with
    | none => none
    | some (body, rest) =>
      match parseExt (t0.toNat * 256 + t1.toNat) body with
      | none => none
      | some e => (extWalk rest).map (e :: ·)
  | [_] => none
termination_by s.length
decreasing_by
  have := rdU16Len_lt h; simp; omega

/-- `ClientHelloSpec.FromRaw` as far as JA4 is concerned -/
def parseView (raw : Bytes) : Option View :=
  match raw with
  | ty :: _ :: _ :: _ :: _ :: s =>
    if ty ≠ 22 then none else
    match s with
    | hty :: _ :: _ :: _ :: v0 :: v1 :: s =>
      if s.length < 32 then none else
      let s := s.drop 32
      if hty ≠ 1 then none else
      match rdU8Len s with
      | none => none
      | some (_, s) =>
        match rdU16Len s with
        | none => none
        | some (cs, s) =>
          match rdU16s cs with
          | none => none
          | some ciphers =>
            match rdU8Len s with
            | none => none
            | some (_, s) =>
              let v : View := { hsVer := v0.toNat * 256 + v1.toNat, ciphers := ciphers.map unGrease, exts := [] }
              if s.isEmpty then some v else
              match rdU16Len s with
              | none => none
              | some (ex, _) => (extWalk ex).map fun es => { v with exts := es }
    | _ => none
  | _ => none

/-! ### ja4.go -/

def hasVersions (v : View) : Bool := v.exts.any fun | .versions _ => true | _ => false

/-- inner loop body of `unmarshalTLSVersion` -/
def vstep (a x : Nat) : Nat := if !isGrease x && x > a then x else a
/-- outer loop body -/
def vouter (acc : Nat) (e : ExtV) : Nat := match e with | .versions vs => vs.foldl vstep acc | _ => acc

/-- `unmarshalTLSVersion`: TLSVersMax is zeroed by utls when supported_versions is present -/
def tlsVersion (v : View) : Nat :=
  if hasVersions v then v.exts.foldl vouter 0 else v.hsVer

def versionStr (x : Nat) : Bytes :=
  if x = 0x0301 then strBytes "10" else if x = 0x0302 then strBytes "11"
  else if x = 0x0303 then strBytes "12" else if x = 0x0304 then strBytes "13" else strBytes "00"

def sniChar (v : View) : UInt8 := if v.exts.any (fun | .sni => true | _ => false) then 100 else 105

def count2 (n : Nat) : Bytes := dec02 (if n < 99 then n else 99)

def nCiphers (v : View) : Nat := (v.ciphers.filter (fun c => !isGrease c)).length
def nExts (v : View) : Nat := (v.exts.filter (fun | .grease => false | _ => true)).length

/-- Go `string(b)` for a byte: UTF-8 encoding of the code point U+00bb -/
def runeOfByte (b : UInt8) : Bytes :=
  if b < 128 then [b] else [(0xC0 : UInt8) ||| (b >>> 6), (0x80 : UInt8) ||| (b &&& 0x3F)]

/-- `unmarshalFirstALPN` -/
def alpnStep (acc : Bytes) (e : ExtV) : Bytes := match e with | .alpn (p :: _) => p | _ => acc

/-- the two-character code of `unmarshalFirstALPN` for the chosen protocol string -/
def alpnCode (alpn : Bytes) : Bytes :=
  if alpn.isEmpty then strBytes "00" else
  let alpn := if alpn.length > 2 then runeOfByte (alpn.headD 0) ++ runeOfByte (alpn.getLastD 0) else alpn
  if alpn.headD 0 > 127 then strBytes "99" else alpn

def firstALPN (v : View) : Bytes := alpnCode (v.exts.foldl alpnStep [])

def hasOpaque (v : View) : Bool := v.exts.any fun | .other id => validatedOpaque.contains id | _ => false

def extId : ExtV → Option Nat
  | .sni => some 0 | .alpn _ => some 16 | .sigalgs _ => some 13 | .versions _ => some 43
  | .grease => none | .other id => some id

def sortU16 (l : List Nat) : List Nat := l.mergeSort (fun a b => a ≤ b)

def cipherList (v : View) : List Nat := sortU16 (v.ciphers.filter (fun c => !isGrease c))

/-- `unmarshalExtensions(chs, false)`: GREASE, SNI and ALPN skipped, sorted -/
def extList (v : View) : List Nat :=
  sortU16 (v.exts.filterMap fun e => match e with
    | .sni => none | .alpn _ => none | e => extId e)

/-- `unmarshalSignatureAlgorithm` (after the fix for D11: GREASE values are skipped) -/
def sigOf : ExtV → List Nat
  | .sigalgs as => as.filter (fun a => !isGrease a)
  | _ => []

def sigAlgList (v : View) : List Nat := v.exts.flatMap sigOf

/-- `%04x` of a 16-bit value -/
def hex04n (v : Nat) : Bytes := [hexDigit (v / 4096), hexDigit (v / 256), hexDigit (v / 16), hexDigit v]

def joinHex (l : List Nat) : Bytes := join [44] (l.map hex04n)

def ja4a (v : View) : Bytes :=
  [116] ++ versionStr (tlsVersion v) ++ [sniChar v] ++ count2 (nCiphers v) ++ count2 (nExts v) ++ firstALPN v

def ja4bInput (v : View) : Bytes := joinHex (cipherList v)
def ja4cInput (v : View) : Bytes :=
  if (sigAlgList v).isEmpty then joinHex (extList v) else joinHex (extList v) ++ [95] ++ joinHex (sigAlgList v)

/-- `String()` with the hash a parameter: `T x` = first 12 hex digits of SHA-256(x) in the code -/
def ja4String (T : Bytes → Bytes) (v : View) : Bytes :=
  ja4a v ++ [95] ++ T (ja4bInput v) ++ [95] ++ T (ja4cInput v)

end Fp.JA4
