/-
Model of the JA3 path:
  tlsx.ClientHelloBasic.Unmarshal  (github.com/dreadl0ck/tlsx v1.0.1-google-gopacket, clientHello.go 305-520)
  ja3.Bare                          (/repo/pkg/ja3/ja3.go)
mirrored as written, including tlsx's quirks (off-by-two length checks, the SNI length typo
`data[0]<<8 | data[0]`, uint16 wrap in slice bounds, trailing bytes parsed as extensions) and with a
Go run-time panic as an explicit outcome.
-/
import FpVerif.Model.Common
import FpVerif.Gen.JA3
namespace Fp.JA3

inductive PErr | badLength | wrongType | extBadLength | panic
  deriving DecidableEq, Repr

structure Basic where
  hsVersion : UInt16 := 0
  ciphers : List UInt16 := []
  exts : List UInt16 := []
  groups : List UInt16 := []
  points : List UInt8 := []
  deriving DecidableEq, Repr

abbrev M := Except PErr

def idx (l : Bytes) (i : Nat) : M UInt8 :=
  match l[i]? with | some b => pure b | none => throw .panic

/-- Go `s[n:]`: panics when `n > len(s)`. -/
def from_ (l : Bytes) (n : Nat) : M Bytes :=
  if n ≤ l.length then pure (l.drop n) else throw .panic

/-- big-endian pairs `data[2i], data[2i+1]` for `i < n` (caller guarantees bounds or gets panic). -/
def readU16s (l : Bytes) (off n : Nat) : M (List UInt16) :=
  (List.range n).mapM fun i => do
    let a ← idx l (off + 2*i)
    let b ← idx l (off + 2*i + 1)
    pure (u16be a b)

/-- the `for len(data) > 0` loop of the server_name case. -/
def sniLoop (data : Bytes) : M Unit :=
  match data with
  | [] => pure ()
  | [_] => throw .extBadLength
  | [_, _] => throw .extBadLength
  | _ :: b1 :: b2 :: rest =>
    let nameLen := b1.toNat * 256 + b2.toNat
    if nameLen ≤ rest.length then sniLoop (rest.drop nameLen) else throw .panic
termination_by data.length
decreasing_by simp; omega

def parseExtBody (b : Basic) (extType : UInt16) (data : Bytes) : M Basic :=
  if extType = 0 then do
    if data.length < 2 then throw .extBadLength
    let d0 ← idx data 0
    let sniLen := d0.toNat * 256 + d0.toNat   -- sic: tlsx uses data[0] twice
    let data := data.drop 2
    if data.length < sniLen then throw .extBadLength
    sniLoop data
    pure b
  else if extType = 10 then do
    if data.length < 2 then throw .extBadLength
    let d0 ← idx data 0
    let d1 ← idx data 1
    let groupLen := d0.toNat * 256 + d1.toNat
    let data := data.drop 2
    if data.length < groupLen then throw .extBadLength
    let gs ← readU16s data 0 (groupLen / 2)
    pure { b with groups := gs }
  else if extType = 11 then do
    if data.length < 1 then throw .extBadLength
    let d0 ← idx data 0
    let pointLen := d0.toNat
    let data := data.drop 1
    if data.length < pointLen then throw .extBadLength
    pure { b with points := data.take pointLen }
  else pure b

/-- the `for len(hs) > 0` extension loop. -/
def extLoop (b : Basic) (hs : Bytes) : M Basic :=
  match hs with
  | [] => pure b
  | t0 :: t1 :: l0 :: l1 :: rest =>
    let extType := u16be t0 t1
    let length := l0.toNat * 256 + l1.toNat
    if rest.length < length then throw .extBadLength else
    -- `hs[4 : 4+length]` with `4+length` evaluated in uint16
    if length ≥ 65532 then throw .panic else
    let data := rest.take length
    let b := { b with exts := b.exts ++ [extType] }
    match parseExtBody b extType data with
    | .error e => throw e
    | .ok b' => extLoop b' (rest.drop length)
  | _ => throw .extBadLength
termination_by hs.length
decreasing_by simp; omega

/-- from the compression methods to the end: `hs` starts at the compression-methods length byte -/
def parseTail (b : Basic) (hs : Bytes) : M Basic := do
  if hs.length < 1 then throw .badLength
  let nComp ← idx hs 0
  if hs.length < 1 + nComp.toNat then throw .badLength
  let hs := hs.drop (1 + nComp.toNat)
  if hs.length < 2 then return b
  let e0 ← idx hs 0
  let e1 ← idx hs 1
  let extLen := e0.toNat * 256 + e1.toNat
  if hs.length < extLen then throw .extBadLength
  extLoop b (hs.drop 2)

/-- from the cipher suites on: `hs` starts at the two-byte cipher-suites length -/
def parseCiphers (hsVersion : UInt16) (hs : Bytes) : M Basic := do
  if hs.length < 2 then throw .badLength
  let c0 ← idx hs 0
  let c1 ← idx hs 1
  let csl := c0.toNat * 256 + c1.toNat
  if hs.length < csl then throw .badLength
  let ciphers ← readU16s hs 2 (csl / 2)
  let hs ← from_ hs ((2 + csl) % 65536)      -- `hs[2+ch.CipherSuiteLen:]`, uint16 arithmetic
  parseTail { hsVersion := hsVersion, ciphers := ciphers } hs

/-- from the session id on: `hs` starts at the session-id length byte -/
def parseSid (hsVersion : UInt16) (hs : Bytes) : M Basic := do
  if hs.length < 1 then throw .badLength
  let sidLen ← idx hs 0
  let hs := hs.drop 1
  if hs.length < sidLen.toNat then throw .badLength
  parseCiphers hsVersion (hs.drop sidLen.toNat)

def parseBasic (payload : Bytes) : M Basic := do
  if payload.length < 6 then throw .badLength
  let ty ← idx payload 0
  if ty ≠ 22 then throw .wrongType
  let hs := payload.drop 5
  if hs.length < 6 then throw .badLength
  let hsType ← idx hs 0
  if hsType ≠ 1 then throw .wrongType
  let v0 ← idx hs 4
  let v1 ← idx hs 5
  let hsVersion := u16be v0 v1
  let hs := hs.drop 6
  if hs.length < 32 then throw .badLength
  parseSid hsVersion (hs.drop 32)

def isGrease (v : UInt16) : Bool := Gen.JA3.greaseValues.contains v

/-- one of the three filtered per-list blocks of `ja3.Bare`, acting on the whole buffer. -/
def initLoop (filter : Bool) (buf : Bytes) : List UInt16 → Bytes
  | [] => buf
  | e :: r =>
    if filter && isGrease e then initLoop filter buf r
    else initLoop filter (buf ++ dec e.toNat ++ [Gen.JA3.sepValueByte]) r

def listBlock (buf : Bytes) (xs : List UInt16) : Bytes :=
  let buf := if xs.length > 1 then initLoop true buf xs.dropLast else buf
  let buf := match xs.getLast? with
    | none => buf
    | some l => if isGrease l then buf else buf ++ dec l.toNat
  let buf := trimSuffix1 buf Gen.JA3.sepValueByte
  buf ++ [Gen.JA3.sepFieldByte]

def pointsBlock (buf : Bytes) (xs : List UInt8) : Bytes :=
  let buf := if xs.length > 1 then initLoop false buf (xs.dropLast.map (·.toUInt16)) else buf
  match xs.getLast? with
  | none => buf
  | some l => buf ++ dec l.toNat

def bare (b : Basic) : Bytes :=
  let buf := dec b.hsVersion.toNat ++ [Gen.JA3.sepFieldByte]
  let buf := listBlock buf b.ciphers
  let buf := listBlock buf b.exts
  let buf := listBlock buf b.groups
  pointsBlock buf b.points

/-- `fingerprint.JA3Fingerprint` up to the hash: `.ok bare` or an error class. -/
def ja3Bare (rec : Bytes) : M Bytes := (parseBasic rec).map bare

end Fp.JA3
