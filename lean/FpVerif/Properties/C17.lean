/-
C17 — shutdown stops service and returns once HTTP/1.1 exchanges have drained.
Three loops of proxyserver.Server.Serve as a transition system: the cancel watcher (program order
REGENERATED from the source), the accept loop (error mapping regenerated), the HTTP/1.1 server
(net/http.Server.Shutdown: assumed contract — closes idle connections, returns when no connection is active).
-/
import FpVerif.Model.Lifecycle
import FpVerif.Gen.Lifecycle
namespace Fp.C17
open Fp

/-- Obligation on the regenerated program order of the watcher goroutine: wait for cancellation, set the
shutdown flag, shut the HTTP/1.1 server down (blocks while exchanges are active), THEN close the listener. -/
theorem watcher_order : Gen.Lifecycle.shutdownWatcher =
    ["<-server.ctx.Done()", "server.vlogf(\"server%sisshuttingdown...\",ln.Addr())", "server.inShutdown.Store(true)",
     "server.HTTPServer.Shutdown(context.Background())", "ln.Close()"] := by rfl

/-- Obligation on the regenerated accept loop: an Accept error maps to ErrServerClosed iff the flag is set. -/
theorem accept_loop : Gen.Lifecycle.acceptLoop =
    ["conn,err:=ln.Accept()", "iferr!=nil{ifserver.shuttingDown(){returnhttp.ErrServerClosed}returnerr}",
     "server.vlogf(\"newconnectionfrom%s\",conn.RemoteAddr())", "goserver.serveConn(conn)"] := by rfl

structure S where
  pc : Nat            -- watcher: 0 waiting for cancel, 1 set flag, 2 Shutdown, 3 close listener, 4 done
  cancelled : Bool
  flag : Bool
  lnClosed : Bool
  h1Active : Nat      -- HTTP/1.1 exchanges in flight
  deriving Repr, DecidableEq

inductive Ev
  | cancel            -- context cancelled (may happen any number of times, at any point)
  | watcher           -- the watcher goroutine takes its next step, if enabled
  | h1Done            -- an in-flight HTTP/1.1 exchange ends
  | other             -- anything else in the system (handshakes, idle and HTTP/2 connections): no effect here
  deriving Repr, DecidableEq

def step (s : S) : Ev → S
  | .cancel => { s with cancelled := true }
  | .h1Done => { s with h1Active := s.h1Active - 1 }
  | .other => s
  | .watcher =>
    match s.pc with
    | 0 => if s.cancelled then { s with pc := 1 } else s
    | 1 => { s with pc := 2, flag := true }
    | 2 => if s.h1Active = 0 then { s with pc := 3 } else s      -- Shutdown returns only when nothing is active
    | 3 => { s with pc := 4, lnClosed := true }
    | _ => s

def init (active : Nat) : S := { pc := 0, cancelled := false, flag := false, lnClosed := false, h1Active := active }

def run (s : S) (tr : List Ev) : S := tr.foldl step s

/-- invariant: the listener is only ever closed after the flag was set and every exchange had drained -/
def Inv (s : S) : Prop := (s.lnClosed = true → s.flag = true ∧ s.h1Active = 0) ∧ (3 ≤ s.pc → s.flag = true ∧ s.h1Active = 0) ∧
  (2 ≤ s.pc → s.flag = true)

theorem inv_step (s : S) (e : Ev) (h : Inv s) : Inv (step s e) := by
  obtain ⟨h1, h2, h3⟩ := h
  cases e
  · exact ⟨h1, h2, h3⟩
  · unfold step
    match hp : s.pc with
    | 0 => simp only; split <;> simp_all [Inv]
    | 1 => simp_all [Inv]
    | 2 =>
      simp only
      split
      · rename_i h0; simp_all [Inv]
      · simp_all [Inv]
    | 3 => have := h2 (by omega); simp_all [Inv]
    | n + 4 => simp_all [Inv]
  · refine ⟨fun hl => ?_, fun hp => ?_, h3⟩
    · have := h1 hl; simp only [step] at *; exact ⟨this.1, by omega⟩
    · have := h2 hp; simp only [step] at *; exact ⟨this.1, by omega⟩
  · exact ⟨h1, h2, h3⟩

theorem inv_run (s : S) (tr : List Ev) (h : Inv s) : Inv (run s tr) := by
  induction tr generalizing s with
  | nil => exact h
  | cons e r ih => exact ih _ (inv_step s e h)

/-- MAIN THEOREM. For every interleaving (any trace of cancel — early, repeated —, watcher steps, exchange
completions and unrelated events) from any number of in-flight exchanges: whenever the accept loop observes
the closed listener (the only source of an Accept error modelled; see D16), the flag is set — so Serve
returns ErrServerClosed — and no HTTP/1.1 exchange is in flight any more. Handshaking, idle and HTTP/2
connections (`other`) never delay it. -/
theorem serve_returns_ErrServerClosed (active : Nat) (tr : List Ev) (h : (run (init active) tr).lnClosed = true) :
    (run (init active) tr).flag = true ∧ (run (init active) tr).h1Active = 0 := by
  have : Inv (init active) := by simp [Inv, init]
  exact (inv_run _ tr this).1 h

/-- progress: after cancellation, once the exchanges have drained, four watcher steps close the listener -/
theorem returns_after_drain (s : S) (hc : s.cancelled = true) (hp : s.pc = 0) (ha : s.h1Active = 0) :
    (run s [.watcher, .watcher, .watcher, .watcher]).lnClosed = true := by
  obtain ⟨pc, c, f, l, a⟩ := s
  simp only at hc hp ha
  subst hc hp ha
  rfl

example : (run (init 2) [.cancel, .watcher, .watcher, .watcher, .h1Done, .other, .cancel, .h1Done, .watcher, .watcher]).lnClosed = true := by
  decide

/-! ### a connection attempted after cancellation (finding D20)

`crypto/tls.Conn.HandshakeContext` interrupts a handshake from a helper goroutine; on a context that is ALREADY cancelled
when the handshake starts, that goroutine races with the handshake itself, and the handshake can win (observed: 1 in 3000
under load). The listener stays open while an HTTP/1.1 exchange drains, so such a connection can be accepted. The repaired
`tlsHandshakeWithTimeout` looks at the context first. -/

/-- Obligation on the REGENERATED first statement of tlsHandshakeWithTimeout: nothing is started on a cancelled context -/
theorem handshake_guard : Gen.Lifecycle.handshakeWithTimeout.head? = some "iferr:=server.ctx.Err();err!=nil{returnerr}" := by rfl

inductive Attempt | refused | served
  deriving Repr, DecidableEq

/-- what can become of a connection whose handshake begins when the context is (not) cancelled: with the guard a cancelled
context refuses it; `tlsWins` is the scheduling choice crypto/tls leaves open when there is no guard -/
def attempt (guard cancelledAtStart tlsWins : Bool) : Attempt :=
  if guard && cancelledAtStart then .refused
  else if cancelledAtStart && !tlsWins then .refused
  else .served

/-- NO CONNECTION ATTEMPTED AFTER CANCELLATION IS SERVED, whatever the scheduler does -/
theorem attempt_after_cancel_refused (tlsWins : Bool) : attempt true true tlsWins = .refused := by
  cases tlsWins <;> rfl

/-- without the guard there is a schedule on which it is served (the defect that was repaired) -/
theorem unguarded_served_witness : attempt false true true = .served := rfl

end Fp.C17
