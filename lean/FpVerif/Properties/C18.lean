/-
C18 — HPACK codec round-trips and decodes exactly per RFC 7541.
Model: FpVerif/Model/Hpack.lean (hpack.go, encode.go, huffman.go, tables.go) over the code and static tables
REGENERATED from the source. The decoder and encoder are total functions (structural recursion / explicit
fuel): no input can make them diverge or fall outside the result types — the "no panic" clause for the model;
the differential compares outcome classes, with a Go panic as a distinct class, over arbitrary bytes.
-/
import FpVerif.Model.Hpack
import FpVerif.Lemmas.Huffman
set_option linter.unusedSimpArgs false
set_option linter.unusedVariables false
namespace Fp.C18
open Fp Fp.Hpack

set_option maxRecDepth 8192 in
/-- Obligations on the facts REGENERATED from hpack.go: the overhead allowed for an incomplete field in saveBuf
covers two maximal (10-byte) length prefixes, and the Write loop keeps `firstField` across size updates. -/
theorem gen_ok : Gen.Hpack.varIntOverhead = 16 ∧ Gen.Hpack.huffmanCodes.length = 256 ∧ Gen.Hpack.huffmanCodeLen.length = 256 ∧
    Gen.Hpack.staticEnts.length = 61 := by
  refine ⟨by decide, by decide +kernel, by decide +kernel, by decide +kernel⟩

theorem gen_write_loop : Gen.Hpack.writeLoop =
    "iflen(p)==0{return};ifd.saveBuf.Len()==0{d.buf=p}else{d.saveBuf.Write(p)d.buf=d.saveBuf.Bytes()d.saveBuf.Reset()};forlen(d.buf)>0{isSizeUpdate:=d.buf[0]&224==32err=d.parseHeaderFieldRepr()iferr==errNeedMore{constvarIntOverhead=16ifd.maxStrLen!=0&&int64(len(d.buf))>2*(int64(d.maxStrLen)+varIntOverhead){return0,ErrStringLength}d.saveBuf.Write(d.buf)returnlen(p),nil}if!isSizeUpdate||err!=nil{d.firstField=false}iferr!=nil{break}};returnlen(p),err" := by
  rfl

/-- the generated static-table lookup maps are what "the last entry with that name / the entry with that name and
value" gives — the model's `staticSearch` reads the entries, not the maps -/
theorem gen_static_maps :
    Gen.Hpack.staticByNameValue = (List.range 61).map (fun i => ((Gen.Hpack.staticEnts.getD i ("", "")).1, (Gen.Hpack.staticEnts.getD i ("", "")).2, i + 1)) := by
  rfl

/-! ### variable-length integers -/

theorem u8_ofNat_toNat (x : Nat) (h : x < 256) : (UInt8.ofNat x).toNat = x := by
  simp [UInt8.toNat_ofNat', Nat.mod_eq_of_lt h]

theorem cont_roundtrip (c : Nat) : ∀ (fuel v m acc : Nat) (rest : Bytes), c ≤ fuel → v < 128 ^ (c + 1) → m + 7 * c < 63 →
    readVarIntCont acc m (appendVarIntCont fuel v ++ rest) = .ok (acc + v * 2 ^ m) rest := by
  induction c with
  | zero =>
    intro fuel v m acc rest _ hv _
    have hv' : v < 128 := by simpa using hv
    cases fuel with
    | zero =>
      simp only [appendVarIntCont, List.cons_append, List.nil_append, readVarIntCont, u8_ofNat_toNat v (by omega)]
      simp [hv', Nat.mod_eq_of_lt hv']
    | succ f =>
      have : ¬ v ≥ 128 := by omega
      simp only [appendVarIntCont, this, if_false, List.cons_append, List.nil_append, readVarIntCont, u8_ofNat_toNat v (by omega)]
      simp [hv', Nat.mod_eq_of_lt hv']
  | succ c ih =>
    intro fuel v m acc rest hf hv hm
    cases fuel with
    | zero => omega
    | succ f =>
      by_cases hge : v ≥ 128
      · have hb : (UInt8.ofNat (128 + v % 128)).toNat = 128 + v % 128 := u8_ofNat_toNat _ (by omega)
        simp only [appendVarIntCont, hge, if_true, List.cons_append, readVarIntCont, hb]
        have h1 : ¬ (128 + v % 128 < 128) := by omega
        have h2 : ¬ (m + 7 ≥ 63) := by omega
        simp only [h1, h2, if_false]
        have hv2 : v / 128 < 128 ^ (c + 1) := by
          rw [Nat.div_lt_iff_lt_mul (by decide)]
          calc v < 128 ^ (c + 1 + 1) := hv
            _ = 128 ^ (c + 1) * 128 := by rw [Nat.pow_succ]
        rw [ih f (v / 128) (m + 7) _ rest (by omega) hv2 (by omega)]
        congr 1
        have : (128 + v % 128) % 128 = v % 128 := by omega
        rw [this, Nat.pow_add]
        have hd := Nat.div_add_mod v 128
        have h7 : (2 : Nat) ^ 7 = 128 := by decide
        rw [h7]
        generalize 2 ^ m = X
        have : v * X = v % 128 * X + v / 128 * (X * 128) := by
          conv => lhs; rw [← hd]
          rw [Nat.add_mul, Nat.add_comm]
          congr 1
          rw [Nat.mul_comm 128, Nat.mul_assoc, Nat.mul_comm 128]
        omega
      · have hv' : v < 128 := by omega
        simp only [appendVarIntCont, hge, if_false, List.cons_append, List.nil_append, readVarIntCont, u8_ofNat_toNat v (by omega)]
        simp [hv', Nat.mod_eq_of_lt hv']

/-- VARINT ROUND TRIP: for every prefix size 1..8 and every value below 2^62 (Go's reader rejects encodings
of ten or more continuation bytes), reading what `appendVarInt` wrote returns the value and leaves exactly
the bytes that followed. -/
theorem varint_roundtrip (n i : Nat) (rest : Bytes) (hn : 1 ≤ n ∧ n ≤ 8) (hi : i < 2 ^ 62) :
    readVarInt n (appendVarInt n i ++ rest) = .ok i rest := by
  have hk : 2 ^ n ≤ 256 := by
    calc 2 ^ n ≤ 2 ^ 8 := Nat.pow_le_pow_right (by decide) hn.2
      _ = 256 := by decide
  have hk1 : 1 ≤ 2 ^ n := Nat.one_le_two_pow
  unfold appendVarInt readVarInt
  by_cases h : i < 2 ^ n - 1
  · simp only [h, if_true, List.cons_append, List.nil_append, u8_ofNat_toNat i (by omega)]
    have : i % 2 ^ n = i := Nat.mod_eq_of_lt (by omega)
    simp [this, h]
  · simp only [h, if_false, List.cons_append, u8_ofNat_toNat (2 ^ n - 1) (by omega)]
    have : (2 ^ n - 1) % 2 ^ n = 2 ^ n - 1 := Nat.mod_eq_of_lt (by omega)
    simp only [this, Nat.lt_irrefl, if_false]
    have hv : i - (2 ^ n - 1) < 128 ^ (8 + 1) := by
      have : (128 : Nat) ^ 9 = 2 ^ 63 := by decide
      have h62 : (2 : Nat) ^ 62 < 2 ^ 63 := by decide
      omega
    rw [cont_roundtrip 8 10 (i - (2 ^ n - 1)) 0 (2 ^ n - 1) rest (by omega) hv (by omega)]
    simp; omega

/-! ### dynamic table bound -/

def sumSize (es : List Field) : Nat := (es.map Field.size).sum
def Consistent (t : DynTab) : Prop := t.size = sumSize t.ents

theorem evict_go_spec (maxSize : Nat) (t : DynTab) (ents : List Field) (size : Nat) (h : size = sumSize ents) :
    (DynTab.evict.go t ents size).2 = sumSize (DynTab.evict.go t ents size).1 ∧
    ((DynTab.evict.go t ents size).2 ≤ t.maxSize) := by
  induction ents generalizing size with
  | nil => simp [DynTab.evict.go, sumSize] at *; omega
  | cons e r ih =>
    unfold DynTab.evict.go
    by_cases hs : size > t.maxSize
    · simp only [hs, if_true]
      apply ih
      simp [sumSize] at h ⊢; omega
    · simp only [hs, if_false]
      exact ⟨h, by omega⟩

/-- after `evict` the table is within its limit and its byte count is exact -/
theorem evict_bounded (t : DynTab) (h : Consistent t) : Consistent t.evict ∧ t.evict.size ≤ t.evict.maxSize := by
  have := evict_go_spec t.maxSize t t.ents t.size h
  unfold DynTab.evict Consistent
  simp only
  exact ⟨this.1, this.2⟩

/-- TABLE BOUND: adding an entry (of any size, even larger than the whole table) or changing the limit
never leaves the dynamic table larger than the size permitted at that moment -/
theorem add_bounded (t : DynTab) (f : Field) (h : Consistent t) :
    Consistent (t.add f) ∧ (t.add f).size ≤ (t.add f).maxSize := by
  unfold DynTab.add
  apply evict_bounded
  simp [Consistent, sumSize] at *; omega

theorem setMaxSize_bounded (t : DynTab) (v : Nat) (h : Consistent t) :
    Consistent (t.setMaxSize v) ∧ (t.setMaxSize v).size ≤ v := by
  unfold DynTab.setMaxSize
  have := evict_bounded { t with maxSize := v } h
  have hm : ({ t with maxSize := v } : DynTab).evict.maxSize = v := by simp [DynTab.evict]
  rw [hm] at this
  exact this

theorem evict_go_exact (t : DynTab) (ents : List Field) (size : Nat) (h : size = sumSize ents) :
    ∃ k, (DynTab.evict.go t ents size).1 = ents.drop k ∧ ∀ j, j < k → sumSize (ents.drop j) > t.maxSize := by
  induction ents generalizing size with
  | nil => exact ⟨0, by simp [DynTab.evict.go], by intro j hj; omega⟩
  | cons e r ih =>
    unfold DynTab.evict.go
    by_cases hs : size > t.maxSize
    · simp only [hs, if_true]
      obtain ⟨k, hk, hall⟩ := ih (size - e.size) (by simp [sumSize] at h ⊢; omega)
      refine ⟨k + 1, by simpa using hk, ?_⟩
      intro j hj
      cases j with
      | zero => simpa [← h] using hs
      | succ j => simpa using hall j (by omega)
    · simp only [hs, if_false]
      exact ⟨0, rfl, by intro j hj; omega⟩

/-- EVICTION IS EXACT (RFC 7541 §4.4): what remains after adding an entry is the LONGEST suffix (most recent entries) of
"old entries followed by the new one" that fits the limit — nothing more is evicted than necessary; in particular an
entry whose size equals the limit stays, alone, and an entry larger than the limit empties the table. -/
theorem add_exact (t : DynTab) (f : Field) (h : Consistent t) :
    ∃ k, (t.add f).ents = (t.ents ++ [f]).drop k ∧ sumSize ((t.ents ++ [f]).drop k) ≤ t.maxSize ∧
      ∀ j, j < k → sumSize ((t.ents ++ [f]).drop j) > t.maxSize := by
  have hc : t.size + f.size = sumSize (t.ents ++ [f]) := by
    simp [Consistent, sumSize] at h ⊢; omega
  obtain ⟨k, hk, hall⟩ := evict_go_exact { t with ents := t.ents ++ [f], size := t.size + f.size } (t.ents ++ [f]) _ hc
  have hb := evict_go_spec t.maxSize { t with ents := t.ents ++ [f], size := t.size + f.size } (t.ents ++ [f]) _ hc
  refine ⟨k, ?_, ?_, hall⟩
  · simpa [DynTab.add, DynTab.evict] using hk
  · rw [← hk, ← hb.1]; exact hb.2

/-- an entry that exactly fills the table is kept -/
theorem exact_fit_kept (t : DynTab) (f : Field) (h : Consistent t) (hf : f.size = t.maxSize) : (t.add f).ents = [f] := by
  obtain ⟨k, hk, hle, hall⟩ := add_exact t f h
  have hlen : k = t.ents.length := by
    have hk1 : ¬ k > t.ents.length := by
      intro hgt
      have := hall t.ents.length hgt
      simp [sumSize] at this; omega
    have hk2 : ¬ k < t.ents.length := by
      intro hlt
      rw [List.drop_append_of_le_length (by omega)] at hle
      have hne : (t.ents.drop k) ≠ [] := by
        intro hnil
        have := congrArg List.length hnil
        simp at this; omega
      have hpos : sumSize (t.ents.drop k) ≥ 32 := by
        cases hd : t.ents.drop k with
        | nil => exact absurd hd hne
        | cons a r => simp [sumSize, Field.size]; omega
      simp [sumSize] at hle hpos; omega
    omega
  rw [hk, hlen]; simp

/-- a size update from the wire larger than the permitted maximum is rejected (RFC 7541 §6.3) -/
theorem size_update_limited (d : Dec) (b : UInt8) (buf : Bytes) (size : Nat) (rest : Bytes)
    (hb : 32 ≤ b.toNat ∧ b.toNat < 64) (hv : readVarInt 5 (b :: buf) = .ok size rest) (hs : size > d.tab.allowedMax)
    (hf : d.firstField = true) : ∃ e, parseRepr d (b :: buf) = .err e := by
  unfold parseRepr
  have h1 : ¬ b.toNat ≥ 128 := by omega
  have h2 : ¬ b.toNat / 64 = 1 := by omega
  have h3 : ¬ b.toNat / 16 = 0 := by omega
  have h4 : ¬ b.toNat / 16 = 1 := by omega
  simp only [h1, h2, h3, h4, if_false, hf, Bool.not_true, Bool.false_eq_true, false_and, hv, hs, if_true]
  exact ⟨_, rfl⟩

/-! ### Huffman: the regenerated table is a prefix code and the tree decodes every symbol -/

/-- Obligation on the REGENERATED Huffman table: walking the code of every symbol from the root ends in
that symbol's leaf (so no code is a prefix of another and the decoder inverts the encoder symbol by symbol) -/
theorem huffman_tree_correct : (List.range 256).all (fun s => HTree.walk huffTree (codeBits s) == .leaf s) = true := by
  decide +kernel

/-- the thirty-ones EOS code is not decodable (RFC 7541 §5.2: a string containing EOS is a decoding error) -/
theorem eos_rejected : HTree.walk huffTree (List.replicate 30 true) = .empty := by decide +kernel

/-- non-vacuity: RFC 7541 C.4.1 "www.example.com" -/
example : huffmanEncode (strBytes "www.example.com") = [0xf1, 0xe3, 0xc2, 0xe5, 0xf2, 0x3a, 0x6b, 0xa0, 0xab, 0x90, 0xf4, 0xff] := by
  decide +kernel
example : (match huffmanDecode 0 [0xf1, 0xe3, 0xc2, 0xe5, 0xf2, 0x3a, 0x6b, 0xa0, 0xab, 0x90, 0xf4, 0xff] with
    | .ok b => some b | .error _ => none) = some (strBytes "www.example.com") := by
  decide +kernel

/-! ### Huffman and string-literal round trips, for every byte string -/

theorem codes_nonempty : (List.range 256).all (fun s => !(codeBits s).isEmpty) = true := by decide +kernel

/-- up to seven ones from the root stay strictly inside the tree (the padding is a proper prefix of EOS and of no
shorter code) -/
theorem pad_stays_inside : (List.range 8).all (fun j => j == 0 || (HTree.walk huffTree (List.replicate j true)).isNode) = true := by
  decide +kernel

theorem code_walk (c : UInt8) : HTree.walk huffTree (codeBits c.toNat) = .leaf c.toNat ∧ codeBits c.toNat ≠ [] := by
  have hc : c.toNat ∈ List.range 256 := List.mem_range.mpr c.toNat_lt
  have h1 := List.all_eq_true.mp huffman_tree_correct _ hc
  have h2 := List.all_eq_true.mp codes_nonempty _ hc
  refine ⟨by simpa using h1, ?_⟩
  intro h; rw [h] at h2; simp at h2

theorem huffWalk_symbols (maxLen : Nat) (rest : List Bool) :
    ∀ (s acc : Bytes), (maxLen = 0 ∨ acc.length + s.length ≤ maxLen) →
      huffWalk maxLen huffTree [] acc (s.flatMap (fun c => codeBits c.toNat) ++ rest) = huffWalk maxLen huffTree [] (acc ++ s) rest := by
  intro s
  induction s with
  | nil => intro acc _; simp
  | cons c r ih =>
    intro acc hm
    simp only [List.flatMap_cons, List.append_assoc]
    obtain ⟨hw, hne⟩ := code_walk c
    rw [huffWalk_word maxLen c.toNat _ _ huffTree [] acc hne hw (by
      intro ⟨h0, hl⟩
      rcases hm with h | h
      · exact h0 h
      · simp only [List.length_cons] at h; omega)]
    have hc : UInt8.ofNat c.toNat = c := by simp
    rw [hc, ih (acc ++ [c]) (by
      rcases hm with h | h
      · exact Or.inl h
      · right; simp only [List.length_append, List.length_cons, List.length_nil] at h ⊢; omega)]
    simp

/-- HUFFMAN ROUND TRIP: for EVERY byte string (any bytes, any length), decoding what `AppendHuffmanString` produced
returns the string — under every length limit that admits it. -/
theorem huffman_roundtrip (maxLen : Nat) (s : Bytes) (hm : maxLen = 0 ∨ s.length ≤ maxLen) :
    huffmanDecode maxLen (huffmanEncode s) = .ok s := by
  unfold huffmanDecode huffmanEncode
  rw [bytesBits_bitsToBytes _ _ (Nat.le_refl _)]
  unfold padTo8
  rw [huffWalk_symbols maxLen _ s [] (by simpa using hm)]
  simp only [List.nil_append]
  apply huffWalk_pad
  · rfl
  · simp only [List.length_nil]; omega
  · intro j hj1 hj
    have hj8 : j ∈ List.range 8 := List.mem_range.mpr (by omega)
    have := List.all_eq_true.mp pad_stays_inside j hj8
    have hj0 : (j == 0) = false := by simp; omega
    simpa [hj0] using this

set_option maxRecDepth 8192 in
theorem or80_low (b : UInt8) : (b ||| 0x80).toNat % 128 = b.toNat % 128 ∧ (b ||| 0x80).toNat ≥ 128 := by
  have h : ∀ n, n < 256 → (UInt8.ofNat n ||| 0x80).toNat % 128 = n % 128 ∧ (UInt8.ofNat n ||| 0x80).toNat ≥ 128 := by
    decide +kernel
  have := h b.toNat b.toNat_lt
  simpa using this

theorem toBitsAux_length (v k : Nat) : (toBitsAux v k).length = k := by
  induction k with
  | zero => rfl
  | succ k ih => simp [toBitsAux, ih]

theorem bitsToBytes_length : ∀ (n : Nat) (bits : List Bool), bits.length ≤ n → (bitsToBytes bits).length = (bits.length + 7) / 8 := by
  intro n
  induction n with
  | zero =>
    intro bits h
    have : bits = [] := List.eq_nil_of_length_eq_zero (by omega)
    subst this; rw [bitsToBytes]; simp
  | succ n ih =>
    intro bits h
    by_cases he : bits = []
    · subst he; rw [bitsToBytes]; simp
    · rw [bitsToBytes]
      simp only [he, dite_false, List.length_cons]
      have hpos : 0 < bits.length := List.length_pos_iff.mpr he
      rw [ih (bits.drop 8) (by simp only [List.length_drop]; omega)]
      simp only [List.length_drop]
      omega

theorem huffLen_eq (s : Bytes) : (huffmanEncode s).length = huffmanEncodeLength s := by
  unfold huffmanEncode huffmanEncodeLength
  rw [bitsToBytes_length _ _ (Nat.le_refl _)]
  congr 2
  induction s with
  | nil => rfl
  | cons c r ih =>
    simp only [List.flatMap_cons, List.length_append, List.map_cons, List.sum_cons, ih]
    congr 1
    unfold codeBits; rw [toBitsAux_length]

theorem appendVarInt7_head (i : Nat) : ∃ b r, appendVarInt 7 i = b :: r ∧ b.toNat < 128 := by
  unfold appendVarInt
  by_cases h : i < 2 ^ 7 - 1
  · refine ⟨UInt8.ofNat i, [], by simp [h], ?_⟩
    rw [u8_ofNat_toNat i (by omega)]; omega
  · exact ⟨UInt8.ofNat (2 ^ 7 - 1), appendVarIntCont 10 (i - (2 ^ 7 - 1)), by simp [h], by decide⟩

theorem readVarInt7_or80 (b : UInt8) (r : Bytes) : readVarInt 7 ((b ||| 0x80) :: r) = readVarInt 7 (b :: r) := by
  simp only [readVarInt, (or80_low b).1]

/-- STRING-LITERAL ROUND TRIP: for every byte string `s` (any bytes; the encoder picks Huffman or raw by length) followed
by any bytes `rest`, `readString` consumes exactly what `appendHpackString` wrote and `decodeString` returns `s`,
under every string-length limit that admits `s`. -/
theorem string_roundtrip (maxStrLen : Nat) (s rest : Bytes) (hs : s.length < 2 ^ 62)
    (hm : maxStrLen = 0 ∨ s.length ≤ maxStrLen) :
    ∃ u, readString maxStrLen (appendString s ++ rest) = .ok (u, rest) ∧ decodeString maxStrLen u = .ok s := by
  unfold appendString
  by_cases hh : huffmanEncodeLength s < s.length
  · simp only [hh, if_true]
    obtain ⟨b, r, hbr, hb⟩ := appendVarInt7_head (huffmanEncodeLength s)
    have hrt := varint_roundtrip 7 (huffmanEncodeLength s) (huffmanEncode s ++ rest) (by omega) (by omega)
    rw [hbr] at hrt ⊢
    simp only [List.cons_append, List.append_assoc] at hrt ⊢
    refine ⟨{ isHuff := true, b := huffmanEncode s }, ?_, ?_⟩
    · simp only [readString, readVarInt7_or80, hrt]
      have h1 : ¬ (maxStrLen ≠ 0 ∧ huffmanEncodeLength s > maxStrLen) := by
        intro ⟨h0, hl⟩; rcases hm with h | h
        · exact h0 h
        · omega
      have h2 : ¬ ((huffmanEncode s ++ rest).length < huffmanEncodeLength s) := by
        rw [List.length_append, huffLen_eq]; omega
      simp only [h1, h2, if_false]
      have h3 : (b ||| 0x80).toNat ≥ 128 := (or80_low b).2
      rw [← huffLen_eq, List.take_left, List.drop_left]
      simp only [ge_iff_le] at h3
      simp only [ge_iff_le, h3, decide_true]
    · simp only [decodeString, Bool.not_true, Bool.false_eq_true, if_false, huffman_roundtrip maxStrLen s hm]
  · simp only [hh, if_false]
    obtain ⟨b, r, hbr, hb⟩ := appendVarInt7_head s.length
    have hrt := varint_roundtrip 7 s.length (s ++ rest) (by omega) hs
    rw [hbr] at hrt ⊢
    simp only [List.cons_append, List.append_assoc] at hrt ⊢
    refine ⟨{ isHuff := false, b := s }, ?_, ?_⟩
    · simp only [readString, hrt]
      have h1 : ¬ (maxStrLen ≠ 0 ∧ s.length > maxStrLen) := by
        intro ⟨h0, hl⟩; rcases hm with h | h
        · exact h0 h
        · omega
      have h2 : ¬ ((s ++ rest).length < s.length) := by rw [List.length_append]; omega
      simp only [h1, h2, if_false]
      rw [List.take_left, List.drop_left]
      have : ¬ b.toNat ≥ 128 := by omega
      simp [this]
    · simp [decodeString]

end Fp.C18
