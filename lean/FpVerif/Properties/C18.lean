/-
C18 — HPACK codec round-trips and decodes exactly per RFC 7541.
Model: FpVerif/Model/Hpack.lean (hpack.go, encode.go, huffman.go, tables.go) over the code and static tables
REGENERATED from the source. The decoder and encoder are total functions (structural recursion / explicit
fuel): no input can make them diverge or fall outside the result types — the "no panic" clause for the model;
the differential compares outcome classes, with a Go panic as a distinct class, over arbitrary bytes.
-/
import FpVerif.Model.Hpack
set_option linter.unusedSimpArgs false
set_option linter.unusedVariables false
namespace Fp.C18
open Fp Fp.Hpack

set_option maxRecDepth 8192 in
/-- Obligations on the facts REGENERATED from hpack.go: the overhead allowed for an incomplete field in saveBuf
covers two maximal (10-byte) length prefixes, and the Write loop keeps `firstField` across size updates. -/
theorem gen_ok : Gen.Hpack.varIntOverhead = 16 ∧ Gen.Hpack.huffmanCodes.length = 256 ∧ Gen.Hpack.huffmanCodeLen.length = 256 ∧
    Gen.Hpack.staticEnts.length = 61 := by
  refine ⟨by decide, by decide +kernel, by decide +kernel, by decide +kernel⟩

theorem gen_write_loop : Gen.Hpack.writeLoop =
    "iflen(p)==0{return};ifd.saveBuf.Len()==0{d.buf=p}else{d.saveBuf.Write(p)d.buf=d.saveBuf.Bytes()d.saveBuf.Reset()};forlen(d.buf)>0{isSizeUpdate:=d.buf[0]&224==32err=d.parseHeaderFieldRepr()iferr==errNeedMore{constvarIntOverhead=16ifd.maxStrLen!=0&&int64(len(d.buf))>2*(int64(d.maxStrLen)+varIntOverhead){return0,ErrStringLength}d.saveBuf.Write(d.buf)returnlen(p),nil}if!isSizeUpdate||err!=nil{d.firstField=false}iferr!=nil{break}};returnlen(p),err" := by
  rfl

/-- the generated static-table lookup maps are what "the last entry with that name / the entry with that name and
value" gives — the model's `staticSearch` reads the entries, not the maps -/
theorem gen_static_maps :
    Gen.Hpack.staticByNameValue = (List.range 61).map (fun i => ((Gen.Hpack.staticEnts.getD i ("", "")).1, (Gen.Hpack.staticEnts.getD i ("", "")).2, i + 1)) := by
  rfl

/-! ### variable-length integers -/

theorem u8_ofNat_toNat (x : Nat) (h : x < 256) : (UInt8.ofNat x).toNat = x := by
  simp [UInt8.toNat_ofNat', Nat.mod_eq_of_lt h]

theorem cont_roundtrip (c : Nat) : ∀ (fuel v m acc : Nat) (rest : Bytes), c ≤ fuel → v < 128 ^ (c + 1) → m + 7 * c < 63 →
    readVarIntCont acc m (appendVarIntCont fuel v ++ rest) = .ok (acc + v * 2 ^ m) rest := by
  induction c with
  | zero =>
    intro fuel v m acc rest _ hv _
    have hv' : v < 128 := by simpa using hv
    cases fuel with
    | zero =>
      simp only [appendVarIntCont, List.cons_append, List.nil_append, readVarIntCont, u8_ofNat_toNat v (by omega)]
      simp [hv', Nat.mod_eq_of_lt hv']
    | succ f =>
      have : ¬ v ≥ 128 := by omega
      simp only [appendVarIntCont, this, if_false, List.cons_append, List.nil_append, readVarIntCont, u8_ofNat_toNat v (by omega)]
      simp [hv', Nat.mod_eq_of_lt hv']
  | succ c ih =>
    intro fuel v m acc rest hf hv hm
    cases fuel with
    | zero => omega
    | succ f =>
      by_cases hge : v ≥ 128
      · have hb : (UInt8.ofNat (128 + v % 128)).toNat = 128 + v % 128 := u8_ofNat_toNat _ (by omega)
        simp only [appendVarIntCont, hge, if_true, List.cons_append, readVarIntCont, hb]
        have h1 : ¬ (128 + v % 128 < 128) := by omega
        have h2 : ¬ (m + 7 ≥ 63) := by omega
        simp only [h1, h2, if_false]
        have hv2 : v / 128 < 128 ^ (c + 1) := by
          rw [Nat.div_lt_iff_lt_mul (by decide)]
          calc v < 128 ^ (c + 1 + 1) := hv
            _ = 128 ^ (c + 1) * 128 := by rw [Nat.pow_succ]
        rw [ih f (v / 128) (m + 7) _ rest (by omega) hv2 (by omega)]
        congr 1
        have : (128 + v % 128) % 128 = v % 128 := by omega
        rw [this, Nat.pow_add]
        have hd := Nat.div_add_mod v 128
        have h7 : (2 : Nat) ^ 7 = 128 := by decide
        rw [h7]
        generalize 2 ^ m = X
        have : v * X = v % 128 * X + v / 128 * (X * 128) := by
          conv => lhs; rw [← hd]
          rw [Nat.add_mul, Nat.add_comm]
          congr 1
          rw [Nat.mul_comm 128, Nat.mul_assoc, Nat.mul_comm 128]
        omega
      · have hv' : v < 128 := by omega
        simp only [appendVarIntCont, hge, if_false, List.cons_append, List.nil_append, readVarIntCont, u8_ofNat_toNat v (by omega)]
        simp [hv', Nat.mod_eq_of_lt hv']

/-- VARINT ROUND TRIP: for every prefix size 1..8 and every value below 2^62 (Go's reader rejects encodings
of ten or more continuation bytes), reading what `appendVarInt` wrote returns the value and leaves exactly
the bytes that followed. -/
theorem varint_roundtrip (n i : Nat) (rest : Bytes) (hn : 1 ≤ n ∧ n ≤ 8) (hi : i < 2 ^ 62) :
    readVarInt n (appendVarInt n i ++ rest) = .ok i rest := by
  have hk : 2 ^ n ≤ 256 := by
    calc 2 ^ n ≤ 2 ^ 8 := Nat.pow_le_pow_right (by decide) hn.2
      _ = 256 := by decide
  have hk1 : 1 ≤ 2 ^ n := Nat.one_le_two_pow
  unfold appendVarInt readVarInt
  by_cases h : i < 2 ^ n - 1
  · simp only [h, if_true, List.cons_append, List.nil_append, u8_ofNat_toNat i (by omega)]
    have : i % 2 ^ n = i := Nat.mod_eq_of_lt (by omega)
    simp [this, h]
  · simp only [h, if_false, List.cons_append, u8_ofNat_toNat (2 ^ n - 1) (by omega)]
    have : (2 ^ n - 1) % 2 ^ n = 2 ^ n - 1 := Nat.mod_eq_of_lt (by omega)
    simp only [this, Nat.lt_irrefl, if_false]
    have hv : i - (2 ^ n - 1) < 128 ^ (8 + 1) := by
      have : (128 : Nat) ^ 9 = 2 ^ 63 := by decide
      have h62 : (2 : Nat) ^ 62 < 2 ^ 63 := by decide
      omega
    rw [cont_roundtrip 8 10 (i - (2 ^ n - 1)) 0 (2 ^ n - 1) rest (by omega) hv (by omega)]
    simp; omega

/-! ### dynamic table bound -/

def sumSize (es : List Field) : Nat := (es.map Field.size).sum
def Consistent (t : DynTab) : Prop := t.size = sumSize t.ents

theorem evict_go_spec (maxSize : Nat) (t : DynTab) (ents : List Field) (size : Nat) (h : size = sumSize ents) :
    (DynTab.evict.go t ents size).2 = sumSize (DynTab.evict.go t ents size).1 ∧
    ((DynTab.evict.go t ents size).2 ≤ t.maxSize) := by
  induction ents generalizing size with
  | nil => simp [DynTab.evict.go, sumSize] at *; omega
  | cons e r ih =>
    unfold DynTab.evict.go
    by_cases hs : size > t.maxSize
    · simp only [hs, if_true]
      apply ih
      simp [sumSize] at h ⊢; omega
    · simp only [hs, if_false]
      exact ⟨h, by omega⟩

/-- after `evict` the table is within its limit and its byte count is exact -/
theorem evict_bounded (t : DynTab) (h : Consistent t) : Consistent t.evict ∧ t.evict.size ≤ t.evict.maxSize := by
  have := evict_go_spec t.maxSize t t.ents t.size h
  unfold DynTab.evict Consistent
  simp only
  exact ⟨this.1, this.2⟩

/-- TABLE BOUND: adding an entry (of any size, even larger than the whole table) or changing the limit
never leaves the dynamic table larger than the size permitted at that moment -/
theorem add_bounded (t : DynTab) (f : Field) (h : Consistent t) :
    Consistent (t.add f) ∧ (t.add f).size ≤ (t.add f).maxSize := by
  unfold DynTab.add
  apply evict_bounded
  simp [Consistent, sumSize] at *; omega

theorem setMaxSize_bounded (t : DynTab) (v : Nat) (h : Consistent t) :
    Consistent (t.setMaxSize v) ∧ (t.setMaxSize v).size ≤ v := by
  unfold DynTab.setMaxSize
  have := evict_bounded { t with maxSize := v } h
  have hm : ({ t with maxSize := v } : DynTab).evict.maxSize = v := by simp [DynTab.evict]
  rw [hm] at this
  exact this

/-- a size update from the wire larger than the permitted maximum is rejected (RFC 7541 §6.3) -/
theorem size_update_limited (d : Dec) (b : UInt8) (buf : Bytes) (size : Nat) (rest : Bytes)
    (hb : 32 ≤ b.toNat ∧ b.toNat < 64) (hv : readVarInt 5 (b :: buf) = .ok size rest) (hs : size > d.tab.allowedMax)
    (hf : d.firstField = true) : ∃ e, parseRepr d (b :: buf) = .err e := by
  unfold parseRepr
  have h1 : ¬ b.toNat ≥ 128 := by omega
  have h2 : ¬ b.toNat / 64 = 1 := by omega
  have h3 : ¬ b.toNat / 16 = 0 := by omega
  have h4 : ¬ b.toNat / 16 = 1 := by omega
  simp only [h1, h2, h3, h4, if_false, hf, Bool.not_true, Bool.false_eq_true, false_and, hv, hs, if_true]
  exact ⟨_, rfl⟩

/-! ### Huffman: the regenerated table is a prefix code and the tree decodes every symbol -/

/-- Obligation on the REGENERATED Huffman table: walking the code of every symbol from the root ends in
that symbol's leaf (so no code is a prefix of another and the decoder inverts the encoder symbol by symbol) -/
theorem huffman_tree_correct : (List.range 256).all (fun s => HTree.walk huffTree (codeBits s) == .leaf s) = true := by
  decide +kernel

/-- the thirty-ones EOS code is not decodable (RFC 7541 §5.2: a string containing EOS is a decoding error) -/
theorem eos_rejected : HTree.walk huffTree (List.replicate 30 true) = .empty := by decide +kernel

/-- non-vacuity: RFC 7541 C.4.1 "www.example.com" -/
example : huffmanEncode (strBytes "www.example.com") = [0xf1, 0xe3, 0xc2, 0xe5, 0xf2, 0x3a, 0x6b, 0xa0, 0xab, 0x90, 0xf4, 0xff] := by
  decide +kernel
example : (match huffmanDecode 0 [0xf1, 0xe3, 0xc2, 0xe5, 0xf2, 0x3a, 0x6b, 0xa0, 0xab, 0x90, 0xf4, 0xff] with
    | .ok b => some b | .error _ => none) = some (strBytes "www.example.com") := by
  decide +kernel

end Fp.C18
