/-
C20 (continued) — the RANDOM write scheduler (pkg/http2/writesched_random.go): conservation, windows, "nothing only
when nothing is sendable", per-stream FIFO — for every operation sequence and EVERY choice Go's map iteration can make.
Model: `pushRand`, `popRandAt` in FpVerif/Model/Sched.lean (the choice is a parameter of Pop). The `sched` stream follows
the implementation's choice and checks that it is admissible.
-/
import FpVerif.Properties.C20
set_option linter.unusedSimpArgs false
set_option linter.unusedVariables false
namespace Fp.C20
open Fp Fp.Sched

/-- operations of the random scheduler; `pop sid` = Pop whose map iteration reaches stream `sid` first -/
inductive ROp
  | push (r : Req)
  | pop (choice : Nat)
  | close (sid : Nat)
  | addWin (sid : Nat) (n : Int)
  | addConn (n : Int)
  | setMax (n : Int)
  deriving Repr, DecidableEq

def stepRand (s : St) : ROp → St × Out
  | .push r => pushRand s r
  | .pop c => popRandAt s c
  | .close sid => ({ s with queues := s.queues.filter (fun e => !(e.1 == sid)) }, .none_)
  | .addWin sid n => (setWin s sid (win s sid + n), .none_)
  | .addConn n => ({ s with cwin := s.cwin + n }, .none_)
  | .setMax n => ({ s with maxFrame := n }, .none_)

theorem queueOf_none_notin {s : St} {sid : Nat} (h : queueOf s sid = none) : sid ∉ s.queues.map (·.1) := by
  unfold queueOf at h
  cases hf : s.queues.find? (fun e => e.1 == sid) with
  | some e => simp [hf] at h
  | none =>
    intro hx
    obtain ⟨e, he, hee⟩ := List.mem_map.mp hx
    have := List.find?_eq_none.mp hf e he
    simp [hee] at this

theorem queueOf_of_mem {s : St} {sid : Nat} {q : List Req} (hn : KeysNodup s.queues) (hm : (sid, q) ∈ s.queues) :
    queueOf s sid = some q := by
  unfold queueOf
  cases hf : s.queues.find? (fun e => e.1 == sid) with
  | none =>
    have := List.find?_eq_none.mp hf (sid, q) hm
    simp at this
  | some e =>
    have h1 := List.mem_of_find?_eq_some hf
    have h2 := List.find?_some hf
    simp at h2
    obtain ⟨a, b⟩ := e
    simp at h2; subst h2
    simp only [Option.map_some, Option.some.injEq]
    -- two entries with the same key in a list whose keys are pairwise different are the same entry
    have : ∀ (l : List (Nat × List Req)), KeysNodup l → (a, b) ∈ l → (a, q) ∈ l → b = q := by
      intro l
      induction l with
      | nil => intro _ h; cases h
      | cons x r ih =>
        intro hn h1 h2
        have hn' : KeysNodup r := (List.nodup_cons.mp hn).2
        have hnot : x.1 ∉ r.map (·.1) := (List.nodup_cons.mp hn).1
        rcases List.mem_cons.mp h1 with e1 | e1 <;> rcases List.mem_cons.mp h2 with e2 | e2
        · rw [← e1] at e2; exact (Prod.mk.inj e2).2.symm
        · subst e1; exact absurd (List.mem_map_of_mem (f := (·.1)) e2) hnot
        · subst e2; exact absurd (List.mem_map_of_mem (f := (·.1)) e1) hnot
        · exact ih hn' e1 e2
    exact this _ hn h1 hm

/-- dropping the queues that became empty changes neither the number of frames nor the number of bytes held -/
theorem lenSum_dropEmpty (qs : List (Nat × List Req)) : lenSum (qs.filter fun e => !e.2.isEmpty) = lenSum qs := by
  induction qs with
  | nil => rfl
  | cons e r ih =>
    obtain ⟨a, q⟩ := e
    cases q with
    | nil => simpa [List.filter_cons, lenSum] using ih
    | cons x y => simp only [List.filter_cons, List.isEmpty_cons, Bool.not_false, if_true, lenSum, List.map_cons, List.sum_cons] at ih ⊢; omega

theorem bytesSum_dropEmpty (qs : List (Nat × List Req)) : bytesSum (qs.filter fun e => !e.2.isEmpty) = bytesSum qs := by
  induction qs with
  | nil => rfl
  | cons e r ih =>
    obtain ⟨a, q⟩ := e
    cases q with
    | nil => simpa [List.filter_cons, bytesSum, byteSum] using ih
    | cons x y => simp only [List.filter_cons, List.isEmpty_cons, Bool.not_false, if_true, bytesSum, List.map_cons, List.sum_cons] at ih ⊢; omega

/-- Push never refuses (the queue is created on demand), adds exactly one frame and its bytes -/
theorem push_conserves_rand (s : St) (r : Req) (hn : KeysNodup s.queues) :
    (pushRand s r).2 = .none_ ∧ qFrames (pushRand s r).1 = qFrames s + 1 ∧ qBytes (pushRand s r).1 = qBytes s + r.size ∧
      KeysNodup (pushRand s r).1.queues := by
  unfold pushRand
  cases hsid : r.sid with
  | none => simp [qFrames, qBytes, byteSum]; exact ⟨by omega, by omega, hn⟩
  | some sid =>
    simp only
    cases hq : queueOf s sid with
    | none =>
      have hnot := queueOf_none_notin hq
      refine ⟨rfl, ?_, ?_, ?_⟩
      · simp [qFrames, lenSum_append, lenSum]; omega
      · simp [qBytes, bytesSum_append, bytesSum, byteSum]; omega
      · unfold KeysNodup at hn ⊢
        show ((s.queues ++ [(sid, [r])]).map (fun e => e.1)).Nodup
        rw [List.map_append, List.nodup_append]
        refine ⟨hn, by simp, ?_⟩
        intro x hx y hy
        simp at hy; subst hy
        intro hxy; subst hxy
        exact hnot hx
    | some q =>
      have hm := queueOf_mem hq
      have h1 := lenSum_set s.queues sid q (q ++ [r]) hn hm
      have h2 := bytesSum_set s.queues sid q (q ++ [r]) hn hm
      refine ⟨rfl, ?_, ?_, ?_⟩
      · simp only [qFrames, setQueue, List.length_append, List.length_singleton] at h1 ⊢; omega
      · simp only [qBytes, setQueue, byteSum, List.map_append, List.sum_append, List.map_cons, List.map_nil, List.sum_cons, List.sum_nil] at h2 ⊢
        omega
      · unfold KeysNodup setQueue; rw [keys_set]; exact hn

/-- what Pop of the random scheduler does when no control frame is queued, whatever stream the iteration reaches -/
theorem popRand_stream {s s' : St} {p : Popped} {c : Nat} (hc : s.control = []) (h : popRandAt s c = (s', .popped p)) :
    ∃ q q' n, (c, q) ∈ s.queues ∧ consume s c q = some (p, q', n) ∧
      s'.cwin = s.cwin - n ∧ s'.control = [] ∧ s'.maxFrame = s.maxFrame ∧
      s'.queues = (s.queues.map fun e => if e.1 == c then (c, q') else e).filter (fun e => !e.2.isEmpty) := by
  unfold popRandAt at h
  rw [hc] at h
  simp only at h
  cases hq : queueOf s c with
  | none => rw [hq] at h; simp at h
  | some q =>
    rw [hq] at h
    simp only at h
    cases hcs : consume s c q with
    | none => rw [hcs] at h; simp at h
    | some r =>
      obtain ⟨p0, q', n⟩ := r
      rw [hcs] at h
      simp only [Prod.mk.injEq, Out.popped.injEq] at h
      obtain ⟨hs, hp⟩ := h
      subst hp
      refine ⟨q, q', n, queueOf_mem hq, hcs, ?_, ?_, ?_, ?_⟩ <;>
        (rw [← hs]; simp [takeWin, setQueue, setWin, hc])

/-- RESPECTS WINDOWS (random scheduler, every choice): a Pop never releases more DATA bytes than the chosen stream's
window, the connection's window and the maximum frame size allow, and charges the connection window exactly. -/
theorem respects_windows_random {s s' : St} {p : Popped} {c : Nat} (hc : s.control = [])
    (h : popRandAt s c = (s', .popped p)) :
    (released p : Int) ≤ max 0 (available s c) ∧ (released p : Int) ≤ max 0 s.maxFrame ∧ s'.cwin = s.cwin - released p := by
  obtain ⟨q, q', n, hm, hcs, hw, _, _, _⟩ := popRand_stream hc h
  obtain ⟨r, rest, rfl, hsp⟩ := consume_spec hcs
  rcases hsp with ⟨rfl, rfl, h1 | h1⟩ | ⟨rfl, rfl, h1⟩
  · obtain ⟨h2, rfl⟩ := h1
    rcases h2 with h2 | h2 <;> simp [released, h2, hw] <;> (try split) <;> omega
  · obtain ⟨hd, rfl, h2, h3⟩ := h1
    simp only [released, hd, if_true]; exact ⟨by omega, by omega, hw⟩
  · simp only [released]; refine ⟨by omega, by omega, hw⟩

/-- PER-STREAM ORDER (random scheduler): what Pop hands out is (a piece of) the OLDEST frame queued for the chosen
stream, and the rest of that stream's queue keeps its order -/
theorem fifo_random {s s' : St} {p : Popped} {c : Nat} (hc : s.control = []) (h : popRandAt s c = (s', .popped p)) :
    ∃ r rest, (c, r :: rest) ∈ s.queues ∧
      ((p = .frame r) ∨ (∃ n, p = .piece r n ∧ 0 < n ∧ n < r.size)) := by
  obtain ⟨q, q', n, hm, hcs, _⟩ := popRand_stream hc h
  obtain ⟨r, rest, rfl, hsp⟩ := consume_spec hcs
  refine ⟨r, rest, hm, ?_⟩
  rcases hsp with ⟨rfl, _⟩ | ⟨rfl, _, h0, h1, _⟩
  · exact Or.inl rfl
  · exact Or.inr ⟨n, rfl, h0, h1⟩

/-- NOTHING ONLY WHEN NOTHING IS SENDABLE (random scheduler): if any stream is ready (or a control frame is queued), the
Pop whose iteration reaches a ready stream hands a frame out; and a Pop that reports nothing means that the stream it
reached was not ready and no control frame was queued. Go's map iteration visits EVERY stream, so `Pop` reports nothing
only if this holds for every choice. -/
theorem ready_choice_pops (s : St) (c : Nat) (q : List Req) (hn : KeysNodup s.queues) (hm : (c, q) ∈ s.queues)
    (hr : ready s (c, q) = true) : (popRandAt s c).2 ≠ .none_ := by
  unfold popRandAt
  cases hc : s.control with
  | cons x rest => simp
  | nil =>
    simp only [queueOf_of_mem hn hm]
    have : (consume s c q).isSome = true := hr
    cases hcs : consume s c q with
    | none => rw [hcs] at this; cases this
    | some r => obtain ⟨p0, q', n⟩ := r; simp

theorem pop_none_random (s : St) (c : Nat) (h : (popRandAt s c).2 = .none_) :
    s.control = [] ∧ ∀ q, queueOf s c = some q → ready s (c, q) = false := by
  unfold popRandAt at h
  cases hc : s.control with
  | cons x rest => rw [hc] at h; simp at h
  | nil =>
    refine ⟨rfl, ?_⟩
    intro q hq
    rw [hc] at h
    simp only [hq] at h
    cases hcs : consume s c q with
    | none => simp [ready, hcs]
    | some r => obtain ⟨p0, q', n⟩ := r; rw [hcs] at h; simp at h

/-- effect of one Pop on the number of frames and DATA bytes held -/
theorem pop_conserves_rand {s s' : St} {o : Out} {c : Nat} (hn : KeysNodup s.queues) (h : popRandAt s c = (s', o)) :
    (match o with
    | .none_ => s' = s
    | .popped (.frame r) => qFrames s' + 1 = qFrames s ∧ qBytes s' + r.size = qBytes s
    | .popped (.piece r n) => qFrames s' = qFrames s ∧ qBytes s' + n = qBytes s
    | .panic => False) ∧ KeysNodup s'.queues := by
  unfold popRandAt at h
  cases hc : s.control with
  | cons x rest =>
    rw [hc] at h
    simp only [Prod.mk.injEq] at h
    obtain ⟨rfl, rfl⟩ := h
    refine ⟨?_, hn⟩
    simp [qFrames, qBytes, byteSum, hc]; omega
  | nil =>
    rw [hc] at h
    simp only at h
    cases hq : queueOf s c with
    | none => rw [hq] at h; simp only [Prod.mk.injEq] at h; obtain ⟨rfl, rfl⟩ := h; exact ⟨rfl, hn⟩
    | some q =>
      rw [hq] at h
      simp only at h
      cases hcs : consume s c q with
      | none => rw [hcs] at h; simp only [Prod.mk.injEq] at h; obtain ⟨rfl, rfl⟩ := h; exact ⟨rfl, hn⟩
      | some res =>
        obtain ⟨p0, q', n⟩ := res
        rw [hcs] at h
        simp only [Prod.mk.injEq] at h
        obtain ⟨rfl, rfl⟩ := h
        have hm := queueOf_mem hq
        have h1 := lenSum_set s.queues c q q' hn hm
        have h2 := bytesSum_set s.queues c q q' hn hm
        have hk : KeysNodup ((s.queues.map fun e => if e.1 == c then (c, q') else e).filter fun e => !e.2.isEmpty) := by
          apply keys_filter_nodup
          unfold KeysNodup; rw [keys_set]; exact hn
        obtain ⟨r, rest, rfl, hsp⟩ := consume_spec hcs
        refine ⟨?_, by simpa [takeWin, setQueue, setWin] using hk⟩
        rcases hsp with ⟨rfl, rfl, _⟩ | ⟨rfl, rfl, h0, h1', _⟩
        · simp only [qFrames, qBytes, takeWin, setQueue, setWin, lenSum_dropEmpty, bytesSum_dropEmpty, hc,
            List.length_cons, byteSum, List.map_cons, List.sum_cons, List.length_nil, List.map_nil, List.sum_nil] at h1 h2 ⊢
          omega
        · simp only [qFrames, qBytes, takeWin, setQueue, setWin, lenSum_dropEmpty, bytesSum_dropEmpty, hc,
            List.length_cons, byteSum, List.map_cons, List.sum_cons, List.length_nil, List.map_nil, List.sum_nil] at h1 h2 ⊢
          omega

/-! ### over whole operation sequences -/

def accountRand (s : St) (a : Acc) (op : ROp) : St × Acc :=
  let (s', o) := stepRand s op
  match op, o with
  | .push r, .none_ => (s', { a with pushedF := a.pushedF + 1, pushedB := a.pushedB + r.size })
  | .pop _, .popped (.frame r) => (s', { a with poppedF := a.poppedF + 1, poppedB := a.poppedB + r.size })
  | .pop _, .popped (.piece _ n) => (s', { a with poppedB := a.poppedB + n })
  | .close sid, _ =>
    (s', { a with discF := a.discF + ((s.queues.find? (·.1 == sid)).map (·.2.length)).getD 0,
                  discB := a.discB + ((s.queues.find? (·.1 == sid)).map (fun e => byteSum e.2)).getD 0 })
  | _, _ => (s', a)

def runAccRand (s : St) (a : Acc) (tr : List ROp) : St × Acc :=
  tr.foldl (fun (sa : St × Acc) op => accountRand sa.1 sa.2 op) (s, a)

theorem accountRand_balanced (s : St) (a : Acc) (op : ROp) (h : Balanced s a) :
    Balanced (accountRand s a op).1 (accountRand s a op).2 := by
  obtain ⟨hF, hB, hn⟩ := h
  cases op with
  | push r =>
    obtain ⟨g0, g1, g2, g3⟩ := push_conserves_rand s r hn
    simp only [accountRand, stepRand]
    cases hp : pushRand s r with
    | mk s' o =>
      rw [hp] at g0 g1 g2 g3
      simp only at g0 g1 g2 g3
      subst g0
      exact ⟨by simp; omega, by simp; omega, g3⟩
  | pop c =>
    simp only [accountRand, stepRand]
    cases hp : popRandAt s c with
    | mk s' o =>
      obtain ⟨hc, hk⟩ := pop_conserves_rand hn hp
      cases o with
      | none_ => simp only at hc; subst hc; exact ⟨hF, hB, hn⟩
      | popped p =>
        cases p with
        | frame r => simp only at hc; exact ⟨by simp; omega, by simp; omega, hk⟩
        | piece r n => simp only at hc; exact ⟨by simp; omega, by simp; omega, hk⟩
      | panic => exact absurd hc id
  | close sid =>
    simp only [accountRand, stepRand]
    have h1 := lenSum_remove s.queues sid hn
    have h2 := bytesSum_remove s.queues sid hn
    refine ⟨?_, ?_, keys_filter_nodup _ _ hn⟩
    · simp only [qFrames] at hF ⊢; omega
    · simp only [qBytes] at hB ⊢; omega
  | addWin sid n => exact ⟨by simpa [accountRand, stepRand, qFrames, setWin] using hF, by simpa [accountRand, stepRand, qBytes, setWin] using hB, by simpa [accountRand, stepRand, setWin] using hn⟩
  | addConn n => exact ⟨by simpa [accountRand, stepRand, qFrames] using hF, by simpa [accountRand, stepRand, qBytes] using hB, by simpa [accountRand, stepRand] using hn⟩
  | setMax n => exact ⟨by simpa [accountRand, stepRand, qFrames] using hF, by simpa [accountRand, stepRand, qBytes] using hB, by simpa [accountRand, stepRand] using hn⟩

/-- CONSERVATION (random scheduler), for every sequence of push / pop / close / window operations and EVERY choice the
map iteration makes at each Pop: frames pushed = frames handed out + frames still queued + frames discarded because
their stream was closed first; the same for DATA bytes (split pieces add up). No run of the random scheduler panics. -/
theorem conservation_random (tr : List ROp) :
    let (s, a) := runAccRand St.init {} tr
    a.pushedF = a.poppedF + qFrames s + a.discF ∧ a.pushedB = a.poppedB + qBytes s + a.discB := by
  have : ∀ (tr : List ROp) (s : St) (a : Acc), Balanced s a → Balanced (runAccRand s a tr).1 (runAccRand s a tr).2 := by
    intro tr
    induction tr with
    | nil => intro s a h; exact h
    | cons op r ih => intro s a h; exact ih _ _ (accountRand_balanced s a op h)
  have h0 : Balanced St.init {} := by
    refine ⟨by decide, by decide, ?_⟩
    unfold KeysNodup; simp [St.init]
  have := this tr St.init {} h0
  exact ⟨this.1, this.2.1⟩

/-- the random scheduler never panics (its Push creates the queue on demand): every operation's output is a frame or
nothing -/
theorem random_never_panics (s : St) (op : ROp) (hn : KeysNodup s.queues) : (stepRand s op).2 ≠ .panic := by
  cases op with
  | push r => rw [stepRand, (push_conserves_rand s r hn).1]; simp
  | pop c =>
    simp only [stepRand]
    cases hp : popRandAt s c with
    | mk s' o =>
      have := (pop_conserves_rand hn hp).1
      cases o with
      | panic => exact absurd this id
      | none_ => simp
      | popped p => simp
  | close sid => simp [stepRand]
  | addWin sid n => simp [stepRand]
  | addConn n => simp [stepRand]
  | setMax n => simp [stepRand]

/-- non-vacuity: two streams, the iteration reaches stream 3 first, then 1; a split DATA frame; a close that discards -/
example :
    let a := (runAccRand St.init {} [.addWin 1 10, .addWin 3 100, .push { uid := 1, sid := some 1, isData := true, size := 25, es := true },
      .push { uid := 2, sid := some 3, isData := true, size := 7, es := false }, .pop 3, .pop 1, .pop 1,
      .push { uid := 3, sid := none, isData := false, size := 0, es := false }, .pop 9, .close 1]).2
    (a.pushedF, a.poppedF, a.discF, a.pushedB, a.poppedB, a.discB) = (3, 2, 1, 32, 17, 15) := by
  decide

end Fp.C20
