/-
C13 — the HTTP/2 server obeys the stream state machine for any frame sequence.
Model: FpVerif/Model/H2Server.lean (`step` = processFrameFromReader/processFrame and the process* functions),
tied to the real serverConn by an exact differential of the reactions after EVERY client frame.
-/
import FpVerif.Model.H2Server
set_option linter.unusedSimpArgs false
set_option linter.unusedVariables false
set_option maxHeartbeats 800000
namespace Fp.C13
open Fp Fp.H2S

/-- the header-block classes for which the application handler may run -/
def wellFormed : HdrClass → Bool
  | .request _ | .connect | .pseudoTrailers => true
  | _ => false

theorem goAway_no_handler (c : Conn) (code sid : Nat) : Reaction.handler sid ∉ (goAway c code).2 := by
  unfold goAway; split <;> simp

theorem connErr_no_handler (c : Conn) (f code sid : Nat) : Reaction.handler sid ∉ (connErr c f code).2 := by
  unfold connErr; exact goAway_no_handler _ _ _

theorem streamErr_no_handler (c : Conn) (s code sid : Nat) : Reaction.handler sid ∉ (streamErr c s code).2 := by
  simp [streamErr]

/-- HANDLER START. A request handler is started only by a HEADERS frame carrying a complete, well-formed header
block on a NEW stream whose identifier is odd, strictly greater than every identifier seen before, while the
number of open client streams is below the advertised limit, and not after GOAWAY for a new stream. -/
theorem handler_only_for_new_odd_increasing (c : Conn) (e : Ev) (sid : Nat) (h : Reaction.handler sid ∈ (step c e).2) :
    ∃ es prio cls blk, e = .headers sid es prio cls blk ∧ wellFormed cls = true ∧ sid % 2 = 1 ∧
      sid > c.maxClientStreamID ∧ c.streams.length < c.advMaxStreams ∧ findStream c sid = none ∧
      ¬ (c.inGoAway = true ∧ sid > c.maxClientStreamID ∧ False) := by
  cases e with
  | headers s es prio cls blk =>
    unfold step at h
    simp only at h
    split at h
    · exact absurd h (connErr_no_handler _ _ _ _)
    · split at h
      · simp at h
      · split at h
        · exact absurd h (connErr_no_handler _ _ _ _)
        · split at h
          · -- existing stream: trailers / errors, never a handler
            rename_i st hst
            split at h
            · exact absurd h (streamErr_no_handler _ _ _ _)
            · split at h
              · exact absurd h (connErr_no_handler _ _ _ _)
              · split at h
                · exact absurd h (streamErr_no_handler _ _ _ _)
                · split at h <;> first | (simp at h) | exact absurd h (streamErr_no_handler _ _ _ _)
          · rename_i hnone
            split at h
            · exact absurd h (connErr_no_handler _ _ _ _)
            · split at h
              · exact absurd h (streamErr_no_handler _ _ _ _)
              · split at h
                · simp at h
                · rename_i hodd hgo hdown hlim hself
                  have key : ∀ (l : List Reaction), (∀ k, Reaction.handler k ∉ l) → Reaction.handler sid ∈ [Reaction.handler s] ++ l → sid = s := by
                    intro l hl hm
                    rcases List.mem_append.mp hm with h1 | h1
                    · simpa using h1
                    · exact absurd h1 (hl sid)
                  have tail : ∀ k, Reaction.handler k ∉ (if es = true then ([] : List Reaction) else [Reaction.rst s NO]) := by
                    intro k; split <;> simp
                  have hs : sid = s ∧ wellFormed cls = true := by
                    cases cls with
                    | request cl =>
                      refine ⟨?_, rfl⟩
                      by_cases hb : blk = true
                      · simp only [hb, if_true] at h; simpa using h
                      · simp only [hb] at h; exact key _ tail h
                    | connect =>
                      refine ⟨?_, rfl⟩
                      by_cases hb : blk = true
                      · simp only [hb, if_true] at h; simpa using h
                      · simp only [hb] at h; exact key _ tail h
                    | pseudoTrailers => exact ⟨key _ tail h, rfl⟩
                    | framerInvalid => simp at h
                    | badShape => simp at h
                    | trailers v => simp at h
                  obtain ⟨rfl, hw⟩ := hs
                  refine ⟨es, prio, cls, blk, rfl, hw, ?_, ?_, ?_, ?_, by simp⟩
                  · omega
                  · omega
                  · omega
                  · unfold findStream at hnone ⊢; exact hnone
  | _ =>
    exfalso
    unfold step at h
    simp only at h
    first
      | exact absurd h (goAway_no_handler _ _ _)
      | exact absurd h (streamErr_no_handler _ _ _ _)
      | (repeat' (split at h)) <;> first
          | exact absurd h (goAway_no_handler _ _ _)
          | exact absurd h (connErr_no_handler _ _ _ _)
          | exact absurd h (streamErr_no_handler _ _ _ _)
          | (simp at h)

/-- AFTER A CONNECTION ERROR NO FURTHER REQUEST IS SERVED: once a GOAWAY with an error code went out, no client
frame produces any reaction (no handler, no frame) any more. -/
theorem dead_is_silent (c : Conn) (e : Ev) (h : dead c = true) : stepObs c e = (c, []) := by
  simp [stepObs, h]

theorem dead_forever (c : Conn) (evs : List Ev) (h : dead c = true) : ∀ r ∈ run c evs, r = [] := by
  induction evs with
  | nil => intro r hr; cases hr
  | cons e es ih =>
    intro r hr
    simp only [run, dead_is_silent c e h, List.mem_cons] at hr
    rcases hr with rfl | hr
    · rfl
    · exact ih r hr

/-! ### GOAWAY covers every request the server acted on -/

theorem goAway_max (c : Conn) (code : Nat) : (goAway c code).1.maxClientStreamID = c.maxClientStreamID := by
  unfold goAway; split <;> rfl

theorem goAway_last (c : Conn) (code last lc : Nat) (h : Reaction.goaway last lc ∈ (goAway c code).2) :
    last = c.maxClientStreamID := by
  unfold goAway at h; split at h <;> simp at h; exact h.1

theorem removeStream_max (c : Conn) (s : Nat) : (removeStream c s).maxClientStreamID = c.maxClientStreamID := rfl
theorem updateStream_max (c : Conn) (s : Stream) : (updateStream c s).maxClientStreamID = c.maxClientStreamID := rfl

theorem applySettings_max (ss : List (Nat × Nat)) : ∀ (c : Conn), (applySettings c ss).1.maxClientStreamID = c.maxClientStreamID := by
  induction ss with
  | nil => intro c; rfl
  | cons s r ih =>
    intro c
    unfold applySettings
    split
    · rfl
    · split
      · simp only
        split
        · rfl
        · rw [ih]
      · exact ih c

/-- the last-stream counter never decreases -/
theorem step_mono (c : Conn) (e : Ev) : c.maxClientStreamID ≤ (step c e).1.maxClientStreamID := by
  cases e with
  | settings ack ss =>
    unfold step
    simp only
    (repeat' split) <;>
      simp only [connErr, goAway_max, streamErr, removeStream_max, updateStream_max, Nat.le_refl, Nat.le_max_left] <;>
      (try omega)
    all_goals
      rename_i heq
      have := applySettings_max ss { c with sawFirstSettings := true }
      rw [heq] at this
      simp only at this
      omega
  | _ =>
    unfold step <;> simp only <;>
    (repeat' split) <;>
    simp only [connErr, goAway_max, streamErr, removeStream_max, updateStream_max, Nat.le_refl, Nat.le_max_left] <;>
    (try omega)

/-- a started handler's stream id becomes the last-stream counter -/
theorem handler_sets_max (c : Conn) (e : Ev) (sid : Nat) (h : Reaction.handler sid ∈ (step c e).2) :
    sid ≤ (step c e).1.maxClientStreamID := by
  obtain ⟨es, prio, cls, blk, rfl, hw, hodd, hgt, hlim, hnone, _⟩ := handler_only_for_new_odd_increasing c e sid h
  generalize hres : step c (Ev.headers sid es prio cls blk) = res at h ⊢
  unfold step at hres
  simp only at hres
  split at hres
  · subst hres; exact absurd h (connErr_no_handler _ _ _ _)
  · split at hres
    · subst hres; simp at h
    · split at hres
      · subst hres; exact absurd h (connErr_no_handler _ _ _ _)
      · split at hres
        · rename_i st hst
          unfold findStream at hst hnone
          rw [hnone] at hst; cases hst
        · split at hres
          · omega
          · split at hres
            · subst hres; exact absurd h (streamErr_no_handler _ _ _ _)
            · split at hres
              · subst hres; simp
              · (repeat' split at hres) <;> subst hres <;> simp

theorem goAway_last_ge (c : Conn) (code last lc : Nat) (h : Reaction.goaway last lc ∈ (goAway c code).2) :
    c.maxClientStreamID ≤ last := by
  have := goAway_last c code last lc h; omega

theorem connErr_last_ge (c : Conn) (f code last lc : Nat) (h : Reaction.goaway last lc ∈ (connErr c f code).2) :
    c.maxClientStreamID ≤ last := by
  unfold connErr at h
  have := goAway_last _ code last lc h
  simp at this; omega

theorem streamErr_no_goaway (c : Conn) (s code last lc : Nat) : Reaction.goaway last lc ∉ (streamErr c s code).2 := by
  simp [streamErr]

/-- a GOAWAY names a last stream identifier at least as large as every identifier acted on before -/
theorem goaway_last_ge (c : Conn) (e : Ev) (last lc : Nat) (h : Reaction.goaway last lc ∈ (step c e).2) :
    c.maxClientStreamID ≤ last := by
  generalize hres : step c e = res at h
  cases e with
  | settings ack ss =>
    unfold step at hres
    simp only at hres
    (repeat' split at hres) <;> subst hres <;>
      first
        | exact connErr_last_ge _ _ _ _ _ h
        | (have := connErr_last_ge _ _ _ _ _ h; simp at this; omega)
        | (simp at h)
        | (rename_i heq
           have hm := applySettings_max ss { c with sawFirstSettings := true }
           rw [heq] at hm
           simp only at hm
           have := connErr_last_ge _ _ _ _ _ h
           omega)
  | _ =>
    unfold step at hres
    simp only at hres
    (repeat' split at hres) <;> subst hres <;>
      first
        | exact connErr_last_ge _ _ _ _ _ h
        | exact goAway_last_ge _ _ _ _ h
        | exact absurd h (streamErr_no_goaway _ _ _ _ _)
        | (simp at h)
        | (have := connErr_last_ge _ _ _ _ _ h; simp at this; omega)
        | (have := goAway_last_ge _ _ _ _ h; simp at this; omega)

/-- GOAWAY COVERS EVERY REQUEST ACTED ON, over whole runs: if a handler was started for stream `sid` at some
point of a run and a GOAWAY is sent at the same or a later point, its last-stream-id is at least `sid`. -/
theorem goaway_covers (evs₁ evs₂ : List Ev) (c : Conn) (e₁ e₂ : Ev) (sid last lc : Nat)
    (hh : Reaction.handler sid ∈ (step (evs₁.foldl (fun c e => (step c e).1) c) e₁).2)
    (hg : Reaction.goaway last lc ∈
      (step (evs₂.foldl (fun c e => (step c e).1) (step (evs₁.foldl (fun c e => (step c e).1) c) e₁).1) e₂).2) :
    sid ≤ last := by
  have h1 := handler_sets_max _ e₁ sid hh
  have hmono : ∀ (evs : List Ev) (c : Conn), c.maxClientStreamID ≤ (evs.foldl (fun c e => (step c e).1) c).maxClientStreamID := by
    intro evs
    induction evs with
    | nil => intro c; exact Nat.le_refl _
    | cons e r ih => intro c; exact Nat.le_trans (step_mono c e) (ih _)
  have h2 := hmono evs₂ (step (evs₁.foldl (fun c e => (step c e).1) c) e₁).1
  have h3 := goaway_last_ge _ e₂ last lc hg
  omega

/-! ### A legal frame never draws an error -/

def isError : Reaction → Bool
  | .rst _ code => code != NO
  | .goaway _ code => code != NO
  | .handler _ => false

def isSettingsEv : Ev → Bool
  | .settings .. => true
  | _ => false

/-- frames that RFC 7540 allows a client to send in connection state `c` (as far as the model's state records
it). PARTIAL in one respect: a SETTINGS_INITIAL_WINDOW_SIZE change is only counted as legal here while no
stream is open (otherwise legality depends on every open stream's window, RFC 7540 section 6.9.2). -/
def legal (c : Conn) : Ev → Bool
  | .settings true _ => decide (c.unackedSettings ≥ 1)
  | .settings false ss =>
    decide (ss.length ≤ 100) && !hasDup (ss.map (·.1)) && ss.all (fun s => (settingValid s).isNone) &&
      (ss.all (fun s => s.1 != 4) || c.streams.isEmpty)
  | .headers sid es prio cls _ =>
    match findStream c sid with
    | none => decide (sid % 2 = 1) && decide (sid > c.maxClientStreamID) && decide (c.streams.length < c.advMaxStreams) &&
              decide (prio ≠ some sid) && wellFormed cls
    | some st => decide (sid % 2 = 1) && decide (st.state = .open_) && !st.gotTrailer && es &&
              (match cls with | .trailers _ => true | _ => false)
  | .data sid len _ =>
    match findStream c sid with
    | none => false
    | some st => decide (st.state = .open_) && !st.gotTrailer &&
              (match st.declLen with | some d => decide (st.bodyBytes + len ≤ d) | none => true)
  | .rst sid => !isIdle c sid
  | .priority sid dep => decide (sid ≠ dep)
  | .windowUpdate sid inc =>
    if sid = 0 then (Flow.outflowAdd c.flow inc).2
    else !isIdle c sid && (match findStream c sid with | none => true | some st => (Flow.outflowAdd st.flow inc).2)
  | .ping => true
  | .goaway => true
  | .unknown => true
  | _ => false

theorem goAway_NO_no_error (c : Conn) : ∀ r ∈ (goAway c NO).2, isError r = false := by
  intro r hr
  unfold goAway at hr
  split at hr
  · simp at hr
  · simp at hr; subst hr; rfl

theorem applySettings_legal (ss : List (Nat × Nat)) : ∀ (c : Conn),
    ss.all (fun s => (settingValid s).isNone) = true →
    (ss.all (fun s => s.1 != 4) = true ∨ c.streams = []) →
    (applySettings c ss).2 = none := by
  induction ss with
  | nil => intro c _ _; rfl
  | cons s r ih =>
    intro c hv h4
    simp only [List.all_cons, Bool.and_eq_true] at hv h4
    unfold applySettings
    have hs : settingValid s = none := by
      cases h : settingValid s with
      | none => rfl
      | some x => rw [h] at hv; simp at hv
    rw [hs]
    simp only
    split
    · rename_i h44
      rcases h4 with h4 | h4
      · simp [h44] at h4
      · simp only [h4, List.map_nil, List.any_nil]
        apply ih _ hv.2
        right; rfl
    · apply ih _ hv.2
      rcases h4 with h4 | h4
      · left; exact h4.2
      · right; exact h4

/-- A LEGAL FRAME NEVER DRAWS AN ERROR: no RST_STREAM and no GOAWAY with an error code is produced (a handler
that has already answered may produce RST_STREAM(NO_ERROR), which is not an error: RFC 7540 section 8.1). -/
theorem legal_no_error_partial (c : Conn) (e : Ev) (hfirst : c.sawFirstSettings = true ∨ isSettingsEv e = true)
    (hl : legal c e = true) : ∀ r ∈ (step c e).2, isError r = false := by
  intro r hr
  generalize hres : step c e = res at hr
  cases e with
  | settings ack ss =>
    unfold step at hres
    simp only at hres
    split at hres
    · rename_i h; simp at h
    · split at hres
      · subst hres; simp at hr
      · cases ack with
        | true =>
          simp only [if_true] at hres
          simp only [legal, decide_eq_true_eq] at hl
          split at hres
          · omega
          · subst hres; simp at hr
        | false =>
          simp only [legal, Bool.and_eq_true, decide_eq_true_eq, Bool.not_eq_true', Bool.or_eq_true, List.isEmpty_iff] at hl
          obtain ⟨⟨⟨hlen, hdup⟩, hvalid⟩, h4⟩ := hl
          simp only [Bool.false_eq_true, if_false] at hres
          split at hres
          · rename_i h; rcases h with h | h
            · omega
            · rw [hdup] at h; cases h
          · have := applySettings_legal ss { c with sawFirstSettings := true } hvalid h4
            split at hres
            · rename_i heq; rw [heq] at this; cases this
            · subst hres; simp at hr
  | headers sid es prio cls blk =>
    unfold step at hres
    simp only at hres
    have hsaw : c.sawFirstSettings = true := by
      rcases hfirst with h | h
      · exact h
      · cases h
    split at hres
    · rename_i h; simp [hsaw] at h
    · split at hres
      · subst hres; simp at hr
      · simp only [legal] at hl
        unfold findStream at hres hl
        simp only at hres
        split at hres
        · rename_i hodd
          split at hl <;> simp at hl <;> omega
        · split at hres
          · rename_i st hst
            rw [hst] at hl
            simp only [Bool.and_eq_true, decide_eq_true_eq, Bool.not_eq_true'] at hl
            obtain ⟨⟨⟨⟨_, hopen⟩, hgt⟩, hes⟩, hcls⟩ := hl
            rw [if_neg (by rw [hopen]; decide), if_neg (by rw [hgt]; decide)] at hres
            rw [hes] at hres
            rw [if_neg (by decide)] at hres
            cases cls with
            | trailers v => simp only at hres; subst hres; simp at hr
            | _ => simp at hcls
          · rename_i hnone
            rw [hnone] at hl
            simp only [Bool.and_eq_true, decide_eq_true_eq] at hl
            obtain ⟨⟨⟨⟨_, hgt⟩, hlim⟩, hprio⟩, hw⟩ := hl
            rw [if_neg (by omega)] at hres
            rw [if_neg (by omega), if_neg hprio] at hres
            have tail : ∀ r ∈ ([Reaction.handler sid] ++ (if es = true then ([] : List Reaction) else [Reaction.rst sid NO])), isError r = false := by
              intro r hr
              rcases List.mem_append.mp hr with h | h
              · simp at h; subst h; rfl
              · split at h
                · cases h
                · simp at h; subst h; rfl
            cases cls with
            | request cl =>
              by_cases hb : blk = true
              · simp only [hb, if_true] at hres; subst hres; simp at hr; subst hr; rfl
              · simp only [hb] at hres; subst hres; exact tail r hr
            | connect =>
              by_cases hb : blk = true
              · simp only [hb, if_true] at hres; subst hres; simp at hr; subst hr; rfl
              · simp only [hb] at hres; subst hres; exact tail r hr
            | pseudoTrailers => subst hres; exact tail r hr
            | framerInvalid => cases hw
            | badShape => cases hw
            | trailers v => cases hw
  | data sid len es =>
    have hsaw : c.sawFirstSettings = true := by
      rcases hfirst with h | h
      · exact h
      · cases h
    simp only [legal] at hl
    unfold step at hres
    simp only at hres
    split at hres
    · rename_i h; simp [hsaw] at h
    · split at hres
      · subst hres; simp at hr
      · unfold isIdle findStream at hres
        unfold findStream at hl
        simp only at hres
        split at hl
        · cases hl
        · rename_i st hst
          simp only [Bool.and_eq_true, decide_eq_true_eq, Bool.not_eq_true'] at hl
          obtain ⟨⟨hopen, hgt⟩, hlen⟩ := hl
          rw [hst] at hres
          simp only [Option.isNone_some, Bool.false_and, Bool.false_eq_true, if_false] at hres
          rw [if_neg (by rw [hopen, hgt]; simp)] at hres
          split at hres
          · rename_i d hd
            rw [hd] at hlen
            simp only [decide_eq_true_eq] at hlen
            rw [if_neg (by omega)] at hres
            subst hres; simp at hr
          · subst hres; simp at hr
  | rst sid =>
    have hsaw : c.sawFirstSettings = true := by
      rcases hfirst with h | h
      · exact h
      · cases h
    simp only [legal, Bool.not_eq_true'] at hl
    unfold step at hres
    simp only at hres
    split at hres
    · rename_i h; simp [hsaw] at h
    · split at hres
      · subst hres; simp at hr
      · have hidle : isIdle { c with sawFirstSettings := true } sid = false := hl
        rw [hidle] at hres
        simp only [Bool.false_eq_true, if_false] at hres
        subst hres; simp at hr
  | priority sid dep =>
    have hsaw : c.sawFirstSettings = true := by
      rcases hfirst with h | h
      · exact h
      · cases h
    simp only [legal, decide_eq_true_eq] at hl
    unfold step at hres
    simp only at hres
    split at hres
    · rename_i h; simp [hsaw] at h
    · split at hres
      · subst hres; simp at hr
      · subst hres; simp at hr
  | windowUpdate sid inc =>
    have hsaw : c.sawFirstSettings = true := by
      rcases hfirst with h | h
      · exact h
      · cases h
    simp only [legal] at hl
    unfold step at hres
    simp only at hres
    split at hres
    · rename_i h; simp [hsaw] at h
    · split at hres
      · subst hres; simp at hr
      · by_cases h0 : sid = 0
        · subst h0
          simp only [if_true] at hl
          simp only [ne_eq, not_true_eq_false, if_false] at hres
          generalize hfa : Flow.outflowAdd c.flow inc = fa at hl hres
          obtain ⟨n, ok⟩ := fa
          simp only at hl hres
          subst hl
          simp only [if_true] at hres
          subst hres; simp at hr
        · simp only [h0, if_false, Bool.and_eq_true, Bool.not_eq_true'] at hl
          obtain ⟨hidle, hfl⟩ := hl
          have hidle' : isIdle { c with sawFirstSettings := true } sid = false := hidle
          simp only [ne_eq, h0, not_false_eq_true, if_true] at hres
          rw [hidle'] at hres
          simp only [Bool.false_eq_true, if_false] at hres
          unfold findStream at hres hfl
          simp only at hres
          split at hres
          · subst hres; simp at hr
          · rename_i st hst
            rw [hst] at hfl
            simp only at hfl
            generalize hfa : Flow.outflowAdd st.flow inc = fa at hfl hres
            obtain ⟨n, ok⟩ := fa
            simp only at hfl hres
            subst hfl
            simp only [if_true] at hres
            subst hres; simp at hr
  | ping =>
    have hsaw : c.sawFirstSettings = true := by
      rcases hfirst with h | h
      · exact h
      · cases h
    unfold step at hres
    simp only at hres
    split at hres
    · rename_i h; simp [hsaw] at h
    · split at hres <;> subst hres <;> simp at hr
  | unknown =>
    have hsaw : c.sawFirstSettings = true := by
      rcases hfirst with h | h
      · exact h
      · cases h
    unfold step at hres
    simp only at hres
    split at hres
    · rename_i h; simp [hsaw] at h
    · split at hres <;> subst hres <;> simp at hr
  | goaway =>
    have hsaw : c.sawFirstSettings = true := by
      rcases hfirst with h | h
      · exact h
      · cases h
    unfold step at hres
    simp only at hres
    split at hres
    · rename_i h; simp [hsaw] at h
    · split at hres
      · subst hres; simp at hr
      · subst hres; exact goAway_NO_no_error _ r hr
  | pushPromise sid => cases hl
  | readConnError code => cases hl
  | readStreamError sid code => cases hl
  | tooLarge => cases hl

/-- whole sequences: every frame legal in the state it arrives in -/
def legalRun : Conn → List Ev → Bool
  | _, [] => true
  | c, e :: r => (c.sawFirstSettings || isSettingsEv e) && legal c e && legalRun (stepObs c e).1 r

/-- A LEGAL FRAME SEQUENCE NEVER DRAWS AN ERROR, for sequences of any length. -/
theorem legal_run_no_error_partial (evs : List Ev) : ∀ (c : Conn), legalRun c evs = true →
    ∀ rs ∈ run c evs, ∀ r ∈ rs, isError r = false := by
  induction evs with
  | nil => intro c _ rs hrs; cases hrs
  | cons e es ih =>
    intro c hl rs hrs r hr
    simp only [legalRun, Bool.and_eq_true, Bool.or_eq_true] at hl
    simp only [run, List.mem_cons] at hrs
    rcases hrs with rfl | hrs
    · unfold stepObs at hr
      split at hr
      · cases hr
      · exact legal_no_error_partial c e hl.1.1 hl.1.2 r hr
    · exact ih _ hl.2 rs hrs r hr

/-- the hypotheses are satisfiable by a non-trivial session: SETTINGS, a request with a body and trailers, window
updates, a second request, PRIORITY, PING, RST_STREAM of an open stream, client GOAWAY; two handlers start -/
def sampleLegal : List Ev :=
  [.settings false [(3, 100), (4, 1000)], .settings true [], .headers 1 false none (.request (some 10)) true,
   .data 1 4 false, .windowUpdate 0 1000, .windowUpdate 1 70, .data 1 6 false, .headers 1 true none (.trailers true) true,
   .headers 5 true (some 1) .connect true, .priority 9 5, .ping, .unknown, .rst 5, .goaway]

example : legalRun { advMaxStreams := 3 } sampleLegal = true := by decide
example : (run { advMaxStreams := 3 } sampleLegal).flatten.filter (fun r => match r with | .handler _ => true | _ => false)
    = [.handler 1, .handler 5] := by decide

/-! ### The error is one RFC 7540 allows for the situation -/

/-- RFC 7540 section 3.5: the first frame must be SETTINGS, else connection error PROTOCOL_ERROR -/
theorem first_frame_must_be_settings (c : Conn) (e : Ev) (h0 : c.sawFirstSettings = false) (hg : c.inGoAway = false)
    (he : match e with | .settings .. | .readConnError _ | .readStreamError .. | .tooLarge => False | _ => True) :
    ∃ last, (step c e).2 = [.goaway last PROTOCOL] := by
  cases e <;> simp only at he <;>
    simp [step, h0, connErr, goAway, hg]

theorem saw_eq (c : Conn) (h : c.sawFirstSettings = true) : { c with sawFirstSettings := true } = c := by
  cases c; simp only at h; subst h; rfl

/-- RFC 7540 section 5.1: DATA, RST_STREAM or WINDOW_UPDATE on an idle stream is a connection error PROTOCOL_ERROR -/
theorem idle_stream_is_connection_error (c : Conn) (e : Ev) (sid : Nat) (h0 : c.sawFirstSettings = true)
    (hg : c.inGoAway = false) (hidle : isIdle c sid = true) (hsid : sid ≠ 0)
    (he : (∃ len es, e = .data sid len es) ∨ e = .rst sid ∨ ∃ inc, e = .windowUpdate sid inc) :
    ∃ last, (step c e).2 = [.goaway last PROTOCOL] := by
  rcases he with ⟨len, es, rfl⟩ | rfl | ⟨inc, rfl⟩ <;>
    (unfold step; simp only [saw_eq c h0]; simp [h0, hg, hidle, connErr, goAway, hsid])

/-- RFC 7540 section 5.1.1: HEADERS on an even stream id, or on an unused id not above the highest seen, is a
connection error PROTOCOL_ERROR -/
theorem bad_stream_id_is_connection_error (c : Conn) (sid : Nat) (es blk : Bool) (prio : Option Nat) (cls : HdrClass)
    (h0 : c.sawFirstSettings = true) (hg : c.inGoAway = false)
    (hbad : sid % 2 ≠ 1 ∨ (findStream c sid = none ∧ sid ≤ c.maxClientStreamID)) :
    ∃ last, (step c (.headers sid es prio cls blk)).2 = [.goaway last PROTOCOL] := by
  unfold step; simp only [saw_eq c h0]
  rcases hbad with h | ⟨h1, h2⟩
  · simp [h0, hg, h, connErr, goAway]
  · by_cases h : sid % 2 = 1
    · simp [h0, hg, h, h1, h2, connErr, goAway]
    · simp [h0, hg, h, connErr, goAway]

/-- RFC 7540 section 5.1.2 / 8.1.4: a request beyond the advertised concurrency limit is refused with a stream
error REFUSED_STREAM (PROTOCOL_ERROR once the client has acknowledged the limit) and no handler runs -/
theorem over_limit_is_refused (c : Conn) (sid : Nat) (es blk : Bool) (prio : Option Nat) (cls : HdrClass)
    (h0 : c.sawFirstSettings = true) (hg : c.inGoAway = false) (hodd : sid % 2 = 1)
    (hnew : findStream c sid = none) (hgt : sid > c.maxClientStreamID) (hlim : c.streams.length ≥ c.advMaxStreams) :
    (step c (.headers sid es prio cls blk)).2 = [.rst sid (if c.unackedSettings = 0 then PROTOCOL else REFUSED_STREAM)] := by
  have h2 : ¬ sid ≤ c.maxClientStreamID := by omega
  have h3 : c.advMaxStreams < c.streams.length + 1 := by omega
  unfold step; simp only [saw_eq c h0]
  simp [h0, hg, hodd, hnew, h2, h3, streamErr]

/-- RFC 7540 section 5.1: DATA on a stream that is closed or half-closed (remote) is a stream error STREAM_CLOSED -/
theorem data_on_closed_is_stream_closed (c : Conn) (sid len : Nat) (es : Bool) (h0 : c.sawFirstSettings = true)
    (hg : c.inGoAway = false) (hidle : isIdle c sid = false)
    (hst : findStream c sid = none ∨ ∃ st, findStream c sid = some st ∧ st.state = .halfClosedRemote) :
    (step c (.data sid len es)).2 = [.rst sid STREAM_CLOSED] := by
  unfold step; simp only [saw_eq c h0]
  rcases hst with h | ⟨st, h, hs⟩
  · simp [h0, hg, hidle, h]
  · simp [h0, hg, hidle, h, hs, streamErr]

/-- RFC 7540 section 8.2: a client cannot push; PUSH_PROMISE is a connection error PROTOCOL_ERROR -/
theorem push_promise_is_connection_error (c : Conn) (sid : Nat) (hg : c.inGoAway = false) :
    ∃ last, (step c (.pushPromise sid)).2 = [.goaway last PROTOCOL] := by
  by_cases h0 : c.sawFirstSettings = true
  · unfold step; simp only [saw_eq c h0]; simp [h0, hg, connErr, goAway]
  · simp [step, h0, hg, connErr, goAway]

/-- RFC 7540 section 6.9.1: a WINDOW_UPDATE that overflows the connection window is a connection error
FLOW_CONTROL_ERROR -/
theorem window_overflow_is_flow_control (c : Conn) (inc : Nat) (h0 : c.sawFirstSettings = true) (hg : c.inGoAway = false)
    (hov : (Flow.outflowAdd c.flow inc).2 = false) :
    (step c (.windowUpdate 0 inc)).2 = [.goaway c.maxClientStreamID FLOW_CONTROL] := by
  generalize hfa : Flow.outflowAdd c.flow inc = fa at hov
  obtain ⟨n, ok⟩ := fa
  simp only at hov
  subst hov
  unfold step; simp only [saw_eq c h0]
  simp [h0, hg, hfa, goAway]

def okCode (code : Nat) : Prop := code ∈ [NO, PROTOCOL, FLOW_CONTROL, STREAM_CLOSED, FRAME_SIZE, REFUSED_STREAM]

def okReaction : Reaction → Prop
  | .handler _ => True
  | .rst _ code => okCode code
  | .goaway _ code => okCode code

theorem goAway_codes (c : Conn) (code : Nat) (h : okCode code) : ∀ r ∈ (goAway c code).2, okReaction r := by
  intro r hr
  unfold goAway at hr
  split at hr
  · cases hr
  · simp at hr; subst hr; exact h

theorem connErr_codes (c : Conn) (f code : Nat) (h : okCode code) : ∀ r ∈ (connErr c f code).2, okReaction r := by
  unfold connErr; exact goAway_codes _ _ h

theorem streamErr_codes (c : Conn) (s code : Nat) (h : okCode code) : ∀ r ∈ (streamErr c s code).2, okReaction r := by
  intro r hr; simp [streamErr] at hr; subst hr; exact h

theorem settingValid_codes (s : Nat × Nat) (code : Nat) (h : settingValid s = some code) : okCode code := by
  unfold settingValid at h
  (repeat' split at h) <;> simp at h <;> subst h <;> simp [okCode, PROTOCOL, FLOW_CONTROL, NO, STREAM_CLOSED, FRAME_SIZE, REFUSED_STREAM]

theorem applySettings_codes (ss : List (Nat × Nat)) : ∀ (c : Conn) (code : Nat), (applySettings c ss).2 = some code → okCode code := by
  induction ss with
  | nil => intro c code h; cases h
  | cons s r ih =>
    intro c code h
    unfold applySettings at h
    split at h
    · rename_i code' hv
      simp at h; subst h; exact settingValid_codes s _ hv
    · split at h
      · simp only at h
        split at h
        · simp at h; subst h; simp [okCode, PROTOCOL, FLOW_CONTROL, NO, STREAM_CLOSED, FRAME_SIZE, REFUSED_STREAM]
        · exact ih _ _ h
      · exact ih _ _ h

/-- every error code the server uses of its own accord is one of six RFC 7540 codes (framer-raised errors carry
the framer's code, see C19.parse_error_is_h2_error) -/
theorem own_error_codes (c : Conn) (e : Ev)
    (he : match e with | .readConnError _ | .readStreamError .. => False | _ => True) :
    ∀ r ∈ (step c e).2, okReaction r := by
  have k0 : okCode NO := by simp [okCode]
  have k1 : okCode PROTOCOL := by simp [okCode]
  have k3 : okCode FLOW_CONTROL := by simp [okCode]
  have k5 : okCode STREAM_CLOSED := by simp [okCode]
  have k6 : okCode FRAME_SIZE := by simp [okCode]
  have k7 : okCode REFUSED_STREAM := by simp [okCode]
  intro r hr
  generalize hres : step c e = res at hr
  cases e with
  | readConnError code => cases he
  | readStreamError sid code => cases he
  | settings ack ss =>
    unfold step at hres
    simp only at hres
    (repeat' split at hres) <;> subst hres <;>
      first
        | (simp at hr; done)
        | exact connErr_codes _ _ _ k1 r hr
        | (rename_i code heq
           have := applySettings_codes ss _ code (by rw [heq])
           exact connErr_codes _ _ _ this r hr)
  | _ =>
    unfold step at hres
    simp only at hres
    (repeat' split at hres) <;> subst hres <;>
      first
        | (simp at hr; done)
        | exact connErr_codes _ _ _ k1 r hr
        | exact goAway_codes _ _ k0 r hr
        | exact goAway_codes _ _ k3 r hr
        | exact goAway_codes _ _ k6 r hr
        | exact streamErr_codes _ _ _ k1 r hr
        | exact streamErr_codes _ _ _ k3 r hr
        | exact streamErr_codes _ _ _ k5 r hr
        | exact streamErr_codes _ _ _ k7 r hr
        | (simp at hr; subst hr; first | exact k0 | exact k1 | exact k5 | exact k7 | trivial)
        | (simp at hr; rcases hr with rfl | rfl <;> first | exact k0 | exact k1 | trivial)

end Fp.C13
