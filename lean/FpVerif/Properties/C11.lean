/-
C11 — every connection's resources are released; stalled and idle clients are cut.
A small transition system of one connection's life in `serveConn` (events: handshake result, hand-off,
client gone, timers), the timeout wiring REGENERATED from fingerproxy.go, and the handshake-timeout code
shape REGENERATED from proxyserver.go.
-/
import FpVerif.Model.Lifecycle
import FpVerif.Gen.Lifecycle
namespace Fp.C11
open Fp Fp.Lifecycle

inductive St
  | handshaking | failed | captured | h2serving | h1offered | h1serving | returned
  deriving Repr, DecidableEq

inductive Ev
  | hsOkH2 | hsOkH1 | hsErr | hsTimer | captureErr
  | h1Accepted          -- the HTTP/1.1 server took the connection from the channel listener
  | clientGone          -- the client closed / reset; the next read or write fails
  | idleTimer           -- the protocol server's idle timer fired
  | serveDone           -- ServeConn returned / the HTTP/1.1 server closed the wrapper (Done)
  deriving Repr, DecidableEq

/-- `serveConn` as a transition system (one connection) -/
def step : St → Ev → St
  | .handshaking, .hsOkH2 => .captured
  | .handshaking, .hsOkH1 => .captured
  | .handshaking, .hsErr => .failed
  | .handshaking, .hsTimer => .failed          -- HandshakeContext under context.WithTimeout
  | .handshaking, .clientGone => .failed       -- read error surfaces as a handshake error
  | .captured, .captureErr => .failed
  | .captured, .hsOkH2 => .h2serving
  | .captured, .hsOkH1 => .h1offered
  | .h1offered, .h1Accepted => .h1serving
  | .h2serving, .clientGone => .returned       -- readFrames error ends serve()
  | .h2serving, .idleTimer => .returned        -- onIdleTimer → GOAWAY → close
  | .h2serving, .serveDone => .returned
  | .h1serving, .clientGone => .returned       -- net/http closes the wrapper: Done() unblocks serveConn
  | .h1serving, .idleTimer => .returned
  | .h1serving, .serveDone => .returned
  | .failed, _ => .returned                    -- metric, return
  | s, _ => s

/-- when `serveConn` returns its deferred calls run: both Close calls are deferred (regenerated fact) -/
theorem closes_on_return :
    "call:conn.Close" ∈ Gen.Lifecycle.serveConnDefers ∧ "call:tlsConn.Close" ∈ Gen.Lifecycle.serveConnDefers := by
  decide

/-- the events that still happen after the client is gone, per state (environment + internal) -/
def afterGone : St → List Ev
  | .handshaking => [.clientGone, .serveDone]
  | .failed => [.serveDone]
  | .captured => [.captureErr, .serveDone]       -- (or the serving states below)
  | .h2serving => [.clientGone]
  | .h1offered => [.h1Accepted, .clientGone]
  | .h1serving => [.clientGone]
  | .returned => []

/-- MAIN (safety+progress in the event model): from every state, once the client is gone, the events
that are then enabled lead `serveConn` to return — i.e. to the deferred `conn.Close()` — provided the
HTTP/1.1 server accepts the hand-off (it does unless the server is shutting down: D15, see DESIGN). -/
theorem eventually_returns (s : St) : (afterGone s).foldl step s = .returned := by
  cases s <;> rfl

/-- the handshake timer leads to `failed` and then to return: a stalled handshake is cut -/
theorem handshake_timeout_cuts : step (step .handshaking .hsTimer) .serveDone = .returned := rfl

/-- Obligation on the regenerated shape of tlsHandshakeWithTimeout: the handshake runs under
context.WithTimeout(server.ctx, TLSHandshakeTimeout) unless the timeout is zero. -/
theorem handshake_timeout_enforced : Gen.Lifecycle.handshakeWithTimeout =
    ["iferr:=server.ctx.Err();err!=nil{returnerr}",
     "ifserver.TLSHandshakeTimeout==0{returntlsConn.HandshakeContext(server.ctx)}",
     "ctx,cancel:=context.WithTimeout(server.ctx,server.TLSHandshakeTimeout)",
     "defercancel()", "returntlsConn.HandshakeContext(ctx)"] := by rfl

/-- Obligation on the regenerated wiring of defaultProxyServer: the configured idle timeout reaches BOTH
protocol servers, and the handshake timeout reaches the proxy server. -/
theorem idle_wired :
    "svr.HTTPServer.IdleTimeout=parseHTTPIdleTimeout()" ∈ Gen.Lifecycle.proxyServerWiring ∧
    "svr.HTTP2Server.IdleTimeout=parseHTTPIdleTimeout()" ∈ Gen.Lifecycle.proxyServerWiring ∧
    "svr.TLSHandshakeTimeout=parseTLSHandshakeTimeout()" ∈ Gen.Lifecycle.proxyServerWiring := by
  decide

/-- documented gap (D15): a connection offered to the HTTP/1.1 server that is never accepted stays put -/
theorem handoff_block_witness : [Ev.clientGone, .idleTimer, .serveDone].foldl step .h1offered = .h1offered := rfl

end Fp.C11
