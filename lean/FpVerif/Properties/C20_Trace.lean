/-
C20 (continued) — the TRACE specification (Spec/SchedTrace.lean: the oracle `schedtrace` that judges the answers of
the REAL schedulers) accepts every run of the round-robin model, for every operation sequence.

Why this matters: the trace oracle is hand-written; a condition in it that is stricter than the contract would be a
false alarm waiting for an input. `trace_accepts_rr` shows that on every run of the model whose properties are proved
in C20.lean (conservation, FIFO, control first, windows respected, "nothing" only when nothing is sendable) the
oracle never objects — the oracle is no stricter than the proved scheduler — and the model's state and the oracle's
state stay related (`Inv`) after every operation, i.e. the oracle tracks exactly the frames the scheduler holds.

Scope of the statement (visible in `tame`): frames whose placement the WriteScheduler interface leaves open — a
non-DATA frame for a stream that is not open, which the round-robin scheduler puts on its control queue and the
oracle treats as "floating" — are excluded: the run is judged up to the first such push. Caller errors (re-opening
an id, closing a closed stream, DATA for a stream that is not open) end the oracle's obligations (`Verdict.stop`).
-/
import FpVerif.Properties.C20
import FpVerif.Lemmas.SchedTrace
set_option linter.unusedSimpArgs false
set_option linter.unusedVariables false
namespace Fp.C20
open Fp Fp.Sched Fp.Spec.SchedTrace

/-- what the harness records for an answer of `Pop` -/
def obsOf : Out → Obs
  | .none_ => .none_
  | .panic => .other "panic"
  | .popped (.frame r) =>
    match r.sid with
    | none => .ctl r.uid
    | some sid => if r.isData then .data sid r.size r.es else .frame sid r.uid
  | .popped (.piece r n) => .data (r.sid.getD 0) n false

/-- the operation as the trace oracle sees it -/
def toTOp : Op → TOp
  | .open_ sid => .open_ sid
  | .close sid => .close sid
  | .push r =>
    match r.sid with
    | none => .pushCtl r.uid
    | some sid => if r.isData then .pushData r.uid sid r.size r.es else .pushFrame r.uid sid
  | .pop => .pop
  | .addWin sid n => .addWin sid n
  | .addConn n => .addConn n
  | .setMax n => .setMax n

/-- pushes the statement covers: a non-DATA frame carries no bytes and no END_STREAM, a control frame is not DATA,
and a non-DATA frame names an OPEN stream (otherwise its placement is the scheduler's choice: "floating") -/
def tame (s : St) : Op → Bool
  | .push r =>
    (r.isData || (r.size == 0 && !r.es)) &&
      (match r.sid with
       | none => !r.isData
       | some sid => r.isData || isOpen s sid)
  | _ => true

/-- run the model and the oracle side by side; `false` iff the oracle objects to an answer of the model -/
def accepts (t : TSt) (s : St) : List Op → Bool
  | [] => true
  | op :: rest =>
    if !tame s op then true else
    match traceStep t (toTOp op) (some (obsOf (stepRR s op).2)) with
    | .ok t' => accepts t' (stepRR s op).1 rest
    | .stop => true
    | .bad _ => false

/-- oracle state and model state describe the same scheduler -/
structure Inv (t : TSt) (s : St) : Prop where
  sim : Sim t.s s
  fl : t.floating = []
  opt : t.optional = []
  used : ∀ e ∈ t.s.queues, t.used.contains e.1 = true
  ctl : ∀ c ∈ s.control, c.sid = none
  own : ∀ e ∈ s.queues, ∀ r ∈ e.2, r.sid = some e.1

theorem inv_init : Inv {} St.init :=
  ⟨Sim.refl_of (by simp [KeysNodup, St.init]), rfl, rfl, by simp [St.init], by simp [St.init], by simp [St.init]⟩

theorem takeFloating_none {t : TSt} (hf : t.floating = []) (ho : t.optional = []) (uid : Nat) (c : Bool) :
    takeFloating t uid c = none := by
  unfold takeFloating removeUid; rw [hf, ho]; simp

theorem inv_pop {t : TSt} {s : St} (h : Inv t s) {sid : Nat} {q' : List Req} (hq' : ∀ x ∈ q', x.sid = some sid)
    {a b : St} (hs : Sim a b) (ha : a.queues = (setQueue t.s sid q').queues)
    (hb : b.queues = (setQueue s sid q').queues) (hbc : b.control = s.control) (k : Nat) :
    Inv { t with s := a } { b with queues := rotate b.queues k } := by
  refine ⟨hs.rotate k, h.fl, h.opt, ?_, ?_, ?_⟩
  · intro e he
    simp only at he
    rw [ha] at he
    obtain ⟨e0, he0, rfl⟩ := mem_setQueue.mp he
    have := h.used e0 he0
    by_cases hk : e0.1 = sid
    · simp [hk] at this ⊢; exact this
    · simp [hk] at this ⊢; exact this
  · intro c hc; exact h.ctl c (by rw [← hbc]; exact hc)
  · intro e he
    simp only at he
    rw [mem_rotate, hb] at he
    obtain ⟨e0, he0, rfl⟩ := mem_setQueue.mp he
    by_cases hk : e0.1 = sid
    · have hb : (e0.1 == sid) = true := by simp [hk]
      simp only [hb, if_true]; exact hq'
    · have hb : (e0.1 == sid) = false := by simp [hk]
      simp only [hb]; exact h.own e0 he0

/-- ONE STEP: the oracle accepts the model's answer (or the caller left the interface), and the relation is kept -/
theorem step_ok {t : TSt} {s : St} (h : Inv t s) (op : Op) (ht : tame s op = true) :
    traceStep t (toTOp op) (some (obsOf (stepRR s op).2)) = .stop ∨
    ∃ t', traceStep t (toTOp op) (some (obsOf (stepRR s op).2)) = .ok t' ∧ Inv t' (stepRR s op).1 := by
  cases op with
  | open_ sid =>
    simp only [toTOp, traceStep]
    by_cases hu : t.used.contains sid = true
    · left; rw [if_pos hu]
    · right; rw [if_neg hu]
      have hno : isOpen t.s sid = false := by
        rw [Bool.eq_false_iff]; intro ho
        unfold isOpen at ho
        obtain ⟨e, he, h1⟩ := List.any_eq_true.mp ho
        have := h.used e he
        simp at h1; rw [h1] at this; exact hu this
      have hno' : isOpen s sid = false := by rw [← h.sim.isOpen]; exact hno
      refine ⟨_, rfl, ?_⟩
      simp only [stepRR, hno', Bool.false_eq_true, if_false]
      refine ⟨⟨h.sim.control, ?_, keys_append_nodup h.sim.na hno, keys_append_nodup h.sim.nb hno', h.sim.cwin,
        h.sim.maxFrame, fun x => h.sim.win x⟩, h.fl, h.opt, ?_, h.ctl, ?_⟩
      · intro e; simp only [List.mem_append, h.sim.mem]
      · intro e he
        simp only [List.mem_append, List.mem_singleton] at he
        rcases he with he | he
        · have := h.used e he; simp at this ⊢; exact Or.inr this
        · subst he; simp
      · intro e he
        simp only [List.mem_append, List.mem_singleton] at he
        rcases he with he | he
        · exact h.own e he
        · subst he; intro r hr; cases hr
  | close sid =>
    simp only [toTOp, traceStep]
    by_cases ho : isOpen t.s sid = true
    · right
      have : (!isOpen t.s sid) = false := by simp [ho]
      rw [this]
      refine ⟨_, rfl, ?_⟩
      simp only [stepRR, Bool.false_eq_true, if_false]
      refine ⟨⟨h.sim.control, ?_, keys_filter_nodup _ _ h.sim.na, keys_filter_nodup _ _ h.sim.nb, h.sim.cwin,
        h.sim.maxFrame, fun x => h.sim.win x⟩, ?_, ?_, ?_, h.ctl, ?_⟩
      · intro e; simp only [List.mem_filter, h.sim.mem]
      · simp [h.fl]
      · simp [h.fl, h.opt]
      · intro e he; exact h.used e (List.mem_filter.mp he).1
      · intro e he; exact h.own e (List.mem_filter.mp he).1
    · left
      have : (!isOpen t.s sid) = true := by simp at ho; simp [ho]
      rw [this]; rfl
  | push r =>
    obtain ⟨uid, rsid, isData, size, es⟩ := r
    simp only [tame, Bool.and_eq_true, Bool.or_eq_true, beq_iff_eq, Bool.not_eq_true'] at ht
    cases rsid with
    | none =>
      simp only at ht
      obtain ⟨h1, h2⟩ := ht
      have h2' : isData = false := by simpa using h2
      subst h2'
      simp at h1
      obtain ⟨rfl, rfl⟩ := h1
      right
      refine ⟨_, rfl, ?_⟩
      simp only [stepRR, pushRR]
      refine ⟨⟨?_, h.sim.mem, h.sim.na, h.sim.nb, h.sim.cwin, h.sim.maxFrame, fun x => h.sim.win x⟩,
        h.fl, h.opt, h.used, ?_, h.own⟩
      · simp [h.sim.control]
      · intro c hc
        simp only [List.mem_append, List.mem_singleton] at hc
        rcases hc with hc | hc
        · exact h.ctl c hc
        · subst hc; rfl
    | some sid =>
      simp only at ht
      obtain ⟨h1, h2⟩ := ht
      cases hq : queueOf s sid with
      | none =>
        -- not open: only DATA can be pushed here (tame), and the oracle stops
        have hno : isOpen s sid = false := queueOf_none_iff.mp hq
        rw [hno] at h2
        simp at h2; subst h2
        left
        simp only [toTOp, traceStep, if_true, h.sim.queueOf, hq]
      | some q =>
        right
        have hrec : ({ uid := uid, sid := some sid, isData := isData, size := size, es := es } : Req) =
            (if isData then { uid := uid, sid := some sid, isData := true, size := size, es := es }
             else { uid := uid, sid := some sid, isData := false, size := 0, es := false }) := by
          cases isData
          · simp at h1; obtain ⟨rfl, rfl⟩ := h1; rfl
          · rfl
        have hinv : Inv { t with s := setQueue t.s sid (q ++ [{ uid := uid, sid := some sid, isData := isData, size := size, es := es }]) }
            (stepRR s (.push { uid := uid, sid := some sid, isData := isData, size := size, es := es })).1 := by
          simp only [stepRR, pushRR, hq]
          refine ⟨h.sim.setQueue _ _, h.fl, h.opt, ?_, h.ctl, ?_⟩
          · intro e he
            obtain ⟨e0, he0, rfl⟩ := mem_setQueue.mp he
            have := h.used e0 he0
            by_cases hk : e0.1 = sid
            · simp [hk] at this ⊢; exact this
            · simp [hk] at this ⊢; exact this
          · intro e he
            obtain ⟨e0, he0, rfl⟩ := mem_setQueue.mp he
            by_cases hk : e0.1 = sid
            · have hb : (e0.1 == sid) = true := by simp [hk]
              simp only [hb, if_true]
              intro r hr
              simp only [List.mem_append, List.mem_singleton] at hr
              rcases hr with hr | hr
              · exact h.own (sid, q) (queueOf_mem hq) r hr
              · subst hr; rfl
            · have hb : (e0.1 == sid) = false := by simp [hk]
              simp only [hb]
              exact h.own e0 he0
        cases isData
        · refine ⟨_, ?_, hinv⟩
          simp only [toTOp, traceStep, h.sim.queueOf, hq, Bool.false_eq_true, if_false]
          simp at h1; obtain ⟨rfl, rfl⟩ := h1; rfl
        · refine ⟨_, ?_, hinv⟩
          simp only [toTOp, traceStep, h.sim.queueOf, hq, if_true]
  | addWin sid n =>
    right
    refine ⟨_, rfl, ?_⟩
    simp only [stepRR]
    rw [h.sim.win]
    exact ⟨h.sim.setWin _ _, h.fl, h.opt, h.used, h.ctl, h.own⟩
  | addConn n =>
    right
    refine ⟨_, rfl, ?_⟩
    simp only [stepRR]
    exact ⟨⟨h.sim.control, h.sim.mem, h.sim.na, h.sim.nb, by simp [h.sim.cwin], h.sim.maxFrame, fun x => h.sim.win x⟩,
      h.fl, h.opt, h.used, h.ctl, h.own⟩
  | setMax n =>
    right
    refine ⟨_, rfl, ?_⟩
    simp only [stepRR]
    exact ⟨⟨h.sim.control, h.sim.mem, h.sim.na, h.sim.nb, h.sim.cwin, rfl, fun x => h.sim.win x⟩,
      h.fl, h.opt, h.used, h.ctl, h.own⟩
  | pop =>
    right
    simp only [toTOp, traceStep]
    cases hc : s.control with
    | cons c rest =>
      have hcs : c.sid = none := h.ctl c (by rw [hc]; exact List.mem_cons_self)
      have hm : stepRR s .pop = ({ s with control := rest }, .popped (.frame c)) := control_first_rr s c rest hc
      rw [hm]
      have htc : t.s.control = c :: rest := by rw [h.sim.control, hc]
      simp only [obsOf, hcs, tracePop, htc, beq_self_eq_true, if_true]
      refine ⟨_, rfl, ⟨⟨rfl, h.sim.mem, h.sim.na, h.sim.nb, h.sim.cwin, h.sim.maxFrame, fun x => h.sim.win x⟩,
        h.fl, h.opt, h.used, ?_, h.own⟩⟩
      intro c' hc'; exact h.ctl c' (by rw [hc]; exact List.mem_cons_of_mem _ hc')
    | nil =>
      have htc : t.s.control = [] := by rw [h.sim.control, hc]
      cases hf : s.queues.findIdx? (ready s) with
      | none =>
        have hm : stepRR s .pop = (s, .none_) := by simp only [stepRR, popRR, hc, hf]
        rw [hm]
        have hnone : t.s.queues.find? (ready t.s) = none := by
          rw [List.find?_eq_none]; intro e he; rw [h.sim.ready]
          have := List.findIdx?_eq_none_iff.mp hf e ((h.sim.mem e).mp he)
          simpa using this
        simp only [obsOf, tracePop, htc, h.fl, List.isEmpty_nil, Bool.not_true, Bool.false_eq_true, if_false, hnone]
        exact ⟨t, rfl, h⟩
      | some i =>
        obtain ⟨e, he, hr⟩ := findIdx_ready hf
        obtain ⟨sid, q⟩ := e
        have hmem : (sid, q) ∈ s.queues := List.mem_of_getElem? he
        cases hcs : consume s sid q with
        | none => unfold ready at hr; rw [hcs] at hr; cases hr
        | some x =>
          obtain ⟨p, q', n⟩ := x
          have hm : stepRR s .pop = ({ (takeWin (setQueue s sid q') sid n) with
              queues := rotate (takeWin (setQueue s sid q') sid n).queues (i + 1) }, .popped p) := by
            simp only [stepRR, popRR, hc, hf, he, hcs]
          rw [hm]
          have hqt : queueOf t.s sid = some q := mem_queueOf h.sim.na ((h.sim.mem _).mpr hmem)
          have hfl := takeFloating_none h.fl h.opt
          cases q with
          | nil => simp [consume] at hcs
          | cons r rest =>
            have hrs : r.sid = some sid := h.own _ hmem r List.mem_cons_self
            have hrest : ∀ x ∈ rest, x.sid = some sid := fun x hx => h.own _ hmem x (List.mem_cons_of_mem _ hx)
            have hal : allowed t.s sid = allowed s sid := h.sim.allowed sid
            rcases consume_cases hcs with ⟨hA, hp, hq, hn⟩ | ⟨hd, hs0, ha0, hgt, hp, hq, hn⟩ | ⟨hd, hs0, ha0, hle, hp, hq, hn⟩
            · -- a non-DATA frame or an empty DATA frame: no window is charged
              subst hp; subst hn; have hq := hq.symm; subst hq
              have hinv := inv_pop h hrest (sim_takeWin_zero (h.sim.setQueue sid rest) sid) rfl rfl rfl (i + 1)
              cases hdd : r.isData with
              | false =>
                refine ⟨_, ?_, hinv⟩
                simp only [obsOf, hrs, hdd, Bool.false_eq_true, if_false, tracePop, hfl, htc, List.isEmpty_nil,
                  Bool.not_true, hqt, Bool.not_false, beq_self_eq_true, Bool.and_self, if_true]
              | true =>
                have hz : r.size = 0 := by rcases hA with hA | hA; · rw [hdd] at hA; cases hA
                                           · exact hA
                refine ⟨_, ?_, hinv⟩
                simp only [obsOf, hrs, hdd, if_true, tracePop, htc, List.isEmpty_nil, Bool.not_true,
                  Bool.false_eq_true, if_false, hqt, Bool.not_true, hz, and_self]
            · -- a piece of a DATA frame
              obtain ⟨N, hN⟩ : ∃ N : Nat, (N : Int) = allowed s sid := ⟨(allowed s sid).toNat, by omega⟩
              have hNe : (allowed s sid).toNat = N := by omega
              rw [hNe] at hp hq hn
              subst hp; subst hq
              have hn' : N = n := hn.symm
              subst hn'
              have hq'' : ∀ x ∈ ({ r with size := r.size - N } :: rest), x.sid = some sid := by
                intro x hx
                rcases List.mem_cons.mp hx with hx | hx
                · subst hx; exact hrs
                · exact hrest x hx
              have hinv := inv_pop h hq'' ((h.sim.setQueue sid ({ r with size := r.size - N } :: rest)).takeWin sid N)
                rfl rfl rfl (i + 1)
              refine ⟨_, ?_, hinv⟩
              simp only [obsOf, hrs, Option.getD_some, tracePop, htc, List.isEmpty_nil, Bool.not_true,
                Bool.false_eq_true, if_false, hqt, hd]
              rw [if_neg hs0, if_neg (by omega), if_neg (by rw [hal]; omega), if_neg (by omega), if_neg (by omega)]
            · -- a whole DATA frame
              subst hp; subst hn; have hq := hq.symm; subst hq
              have hinv := inv_pop h hrest ((h.sim.setQueue sid rest).takeWin sid r.size) rfl rfl rfl (i + 1)
              refine ⟨_, ?_, hinv⟩
              simp only [obsOf, hrs, hd, if_true, tracePop, htc, List.isEmpty_nil, Bool.not_true,
                Bool.false_eq_true, if_false, hqt]
              rw [if_neg hs0, if_neg hs0, if_neg (by rw [hal]; omega), if_neg (by omega)]

/-- EVERY RUN: from related states, the oracle never objects to the round-robin model, whatever the operations -/
theorem trace_accepts_rr_from {t : TSt} {s : St} (h : Inv t s) (ops : List Op) : accepts t s ops = true := by
  induction ops generalizing t s with
  | nil => rfl
  | cons op rest ih =>
    unfold accepts
    by_cases ht : tame s op = true
    · have : (!tame s op) = false := by simp [ht]
      rw [this]
      simp only [Bool.false_eq_true, if_false]
      rcases step_ok h op ht with hs | ⟨t', hs, hi⟩
      · rw [hs]
      · rw [hs]; exact ih hi
    · have : (!tame s op) = true := by simp at ht; simp [ht]
      rw [this]; rfl

/-- … in particular from the empty scheduler -/
theorem trace_accepts_rr (ops : List Op) : accepts {} St.init ops = true :=
  trace_accepts_rr_from inv_init ops

/-- the states stay related along the run: after any tame prefix that the oracle judged without `stop`, the oracle
holds exactly the frames and windows the model holds (same control queue, same stream queues up to ring order) -/
theorem trace_tracks_rr {t : TSt} {s : St} (h : Inv t s) (op : Op) (ht : tame s op = true) {t' : TSt}
    (hs : traceStep t (toTOp op) (some (obsOf (stepRR s op).2)) = .ok t') : Sim t'.s (stepRR s op).1 := by
  rcases step_ok h op ht with hs' | ⟨t'', hs', hi⟩
  · rw [hs] at hs'; cases hs'
  · rw [hs] at hs'; cases hs'; exact hi.sim

/-- non-vacuity: a run with two streams, a control frame, a DATA frame larger than the window (split into pieces),
a window update and a close — every operation is tame, no `stop`, and the oracle is consulted on 6 Pops -/
def sampleRun : List Op :=
  [.open_ 1, .open_ 3, .setMax 10,
   .push ⟨1, some 1, false, 0, false⟩, .push ⟨2, some 1, true, 25, true⟩, .push ⟨3, some 3, true, 4, false⟩,
   .push ⟨4, none, false, 0, false⟩, .pop, .pop, .pop, .pop, .addConn (-65530), .pop, .addConn 100, .pop, .close 3, .pop]

def verdicts (t : TSt) (s : St) : List Op → List String
  | [] => []
  | op :: rest =>
    match traceStep t (toTOp op) (some (obsOf (stepRR s op).2)) with
    | .ok t' => (if tame s op then "ok" else "untame") :: verdicts t' (stepRR s op).1 rest
    | .stop => ["stop"]
    | .bad w => [w]

example : verdicts {} St.init sampleRun = List.replicate 17 "ok" := by decide +kernel

/-- the oracle is not vacuous: the same run with the model's 2nd answer replaced by "nothing" is rejected -/
example : (match tracePop { s := { St.init with queues := [(1, [⟨1, some 1, false, 0, false⟩])] } } .none_ with
           | .bad _ => true | _ => false) = true := by decide +kernel

/-! ### the other direction: what an accepted answer guarantees (the oracle is not too lenient either) -/

/-- a DATA release the oracle accepts is a frame at the head of that stream's queue, released while no control frame is
queued, and — unless it is an empty frame — within the stream window, the connection window and the maximum frame size -/
theorem accepted_data_within_windows (t t' : TSt) (sid len : Nat) (es : Bool)
    (h : tracePop t (.data sid len es) = .ok t') :
    t.s.control = [] ∧ ∃ r rest, queueOf t.s sid = some (r :: rest) ∧ r.isData = true ∧ len ≤ r.size ∧
      (len = 0 ∨ (len : Int) ≤ allowed t.s sid) := by
  unfold tracePop at h
  by_cases hc : t.s.control.isEmpty = true
  · have hc' : t.s.control = [] := List.isEmpty_iff.mp hc
    simp only [hc, Bool.not_true, Bool.false_eq_true, if_false] at h
    refine ⟨hc', ?_⟩
    cases hq : queueOf t.s sid with
    | none => rw [hq] at h; cases h
    | some q =>
      cases q with
      | nil => rw [hq] at h; cases h
      | cons r rest =>
        rw [hq] at h
        simp only at h
        refine ⟨r, rest, rfl, ?_⟩
        by_cases hd : r.isData = true
        · simp only [hd, Bool.not_true, Bool.false_eq_true, if_false] at h
          refine ⟨hd, ?_⟩
          by_cases hz : r.size = 0
          · rw [if_pos hz] at h
            by_cases h0 : len = 0 ∧ es = r.es
            · exact ⟨by omega, Or.inl h0.1⟩
            · rw [if_neg h0] at h; cases h
          · rw [if_neg hz] at h
            by_cases hl0 : len = 0
            · rw [if_pos hl0] at h; cases h
            · rw [if_neg hl0] at h
              by_cases hal : (len : Int) > allowed t.s sid
              · rw [if_pos hal] at h; cases h
              · rw [if_neg hal] at h
                by_cases hgt : len > r.size
                · rw [if_pos hgt] at h; cases h
                · exact ⟨by omega, Or.inr (by omega)⟩
        · have hd' : r.isData = false := by simpa using hd
          simp [hd'] at h
  · have : t.s.control.isEmpty = false := by simpa using hc
    simp [this] at h

/-- "nothing to write" is accepted only when no control frame, no floating frame and no sendable stream frame is queued -/
theorem accepted_none_means_nothing_sendable (t t' : TSt) (h : tracePop t .none_ = .ok t') :
    t.s.control = [] ∧ t.floating = [] ∧ ∀ e ∈ t.s.queues, ready t.s e = false := by
  unfold tracePop at h
  by_cases hc : t.s.control.isEmpty = true
  · simp only [hc, Bool.not_true, Bool.false_eq_true, if_false] at h
    by_cases hf : t.floating.isEmpty = true
    · simp only [hf, Bool.not_true, Bool.false_eq_true, if_false] at h
      cases hq : t.s.queues.find? (ready t.s) with
      | some e => rw [hq] at h; cases h
      | none =>
        refine ⟨List.isEmpty_iff.mp hc, List.isEmpty_iff.mp hf, ?_⟩
        intro e he
        have := List.find?_eq_none.mp hq e he
        simpa using this
    · have : t.floating.isEmpty = false := by simpa using hf
      simp [this] at h
  · have : t.s.control.isEmpty = false := by simpa using hc
    simp [this] at h

end Fp.C20
