/-
C07 — concurrent streams on one connection see consistent fingerprint data.
Writer: the HTTP/2 serve loop applying `capture` frame by frame. Reader: a handler calling `Marshal`.
Two access protocols are modelled: `locked` (each capture block and Marshal are atomic — what a mutex
gives) and `unlocked` (Marshal reads the four fields at four possibly different instants).
Which protocol the code uses is REGENERATED from the source (Gen.Shared.captureWrites / marshalHead).
-/
import FpVerif.Lemmas.H2Fp
import FpVerif.Gen.Shared
namespace Fp.C07
open Fp Fp.H2Fp Fp.Spec.H2Fp

/-- the record after the first `k` delivered frames -/
def at_ (hist : List Frame) (k : Nat) : Frames := captureAll (hist.take k)

/-- a reader under the LOCKED protocol: Marshal runs atomically at one instant `k` -/
def lockedRead (hist : List Frame) (k n : Nat) : Bytes := marshal (at_ hist k) n

/-- a reader under the UNLOCKED protocol: the four fields are read at instants k₁ ≤ k₂ ≤ k₃ ≤ k₄ -/
def unlockedRead (hist : List Frame) (k₁ k₂ k₃ k₄ n : Nat) : Bytes :=
  marshal { settings := (at_ hist k₁).settings, wu := (at_ hist k₂).wu,
            prios := (at_ hist k₃).prios, headers := (at_ hist k₄).headers } n

/-- the values the property admits for a request whose HEADERS is frame number `own` (1-based):
the fingerprint of the history as it stood at ONE instant not earlier than that frame -/
def Admissible (hist : List Frame) (own n : Nat) (v : Bytes) : Prop :=
  ∃ k, own ≤ k ∧ k ≤ hist.length ∧ v = fpSpec (hist.take k) n

/-- a schedule: W = the serve loop delivers the next frame, R = the handler marshals -/
inductive Step | W | R
  deriving Repr, DecidableEq

/-- run a schedule under the locked protocol, collecting what the reader sees -/
def runLocked (hist : List Frame) (n : Nat) : Nat → List Step → List Bytes
  | _, [] => []
  | k, .W :: r => runLocked hist n (min (k + 1) hist.length) r
  | k, .R :: r => lockedRead hist k n :: runLocked hist n k r

theorem runLocked_admissible (hist : List Frame) (n own : Nat) (hw : ∀ s, WUNonZero (hist.take s)) :
    ∀ (sched : List Step) (k : Nat), own ≤ k → k ≤ hist.length →
      ∀ v ∈ runLocked hist n k sched, Admissible hist own n v := by
  intro sched
  induction sched with
  | nil => intro k _ _ v hv; cases hv
  | cons s r ih =>
    intro k hk hl v hv
    cases s with
    | W =>
      simp only [runLocked] at hv
      exact ih _ (by omega) (by omega) v hv
    | R =>
      simp only [runLocked, List.mem_cons] at hv
      rcases hv with rfl | hv
      · refine ⟨k, hk, hl, ?_⟩
        unfold lockedRead at_
        exact C03bridge (hist.take k) n (hw k)
      · exact ih k hk hl v hv
where
  C03bridge (h : List Frame) (n : Nat) (hw : WUNonZero h) : marshal (captureAll h) n = fpSpec h n := by
    -- same statement as C03.marshal_capture_eq_spec (re-proved here from the shared lemmas to keep the
    -- property files independent)
    have h1 := fold_settings {} h
    have h2 := fold_headers {} h
    have h3 := fold_prios {} h
    have h4 := fold_wu {} h hw
    simp only [List.nil_append, if_true] at h1 h2 h3 h4
    have hc : captureAll h = { settings := lastSettings h, wu := (firstWU h).getD 0, prios := allPrios h, headers := lastHeaders h } := by
      cases hcc : captureAll h with
      | mk s w p hd =>
        unfold captureAll at hcc
        rw [hcc] at h1 h2 h3 h4
        simp only at h1 h2 h3 h4
        subst h1 h2 h3 h4
        rfl
    rw [hc]
    unfold marshal fpSpec
    simp only [settingsPart_eq, pseudoLoop_false]
    have hk : (if (allPrios h).length < n then (allPrios h).length else n) = min (allPrios h).length n := by
      simp only [Nat.min_def]; split <;> split <;> omega
    rw [hk]
    have htake : (allPrios h).take (min (allPrios h).length n) = (allPrios h).take n := by
      rw [Nat.min_comm, ← List.take_take, List.take_length]
    rw [htake]
    have h00 : dec02 0 = [48, 48] := by decide
    by_cases h0 : min (allPrios h).length n = 0
    · have : (allPrios h).take n = [] := by rw [← htake, h0]; rfl
      cases hw2 : firstWU h <;> simp [h0, this, h00, List.append_assoc]
    · have : (allPrios h).take n ≠ [] := by
        intro hn
        rcases List.take_eq_nil_iff.mp hn with h1 | h1
        · omega
        · rw [h1] at h0; simp at h0
      cases hw2 : firstWU h <;> simp [h0, this, h00, prioPart_eq, List.append_assoc]

/-- MAIN THEOREM (locked protocol). For every history, every schedule interleaving any number of reads
with the arrival of later frames, and every limit: every value a handler that started at its own HEADERS
frame observes is the fingerprint of the history at ONE instant not earlier than that frame. -/
theorem locked_no_torn (hist : List Frame) (n own : Nat) (sched : List Step) (h : own ≤ hist.length)
    (hw : ∀ s, WUNonZero (hist.take s)) : ∀ v ∈ runLocked hist n own sched, Admissible hist own n v :=
  runLocked_admissible hist n own hw sched own (Nat.le_refl _) h

/-- Under the UNLOCKED protocol a torn mixture exists: the reader takes the priorities before and the
header block after a HEADERS frame that carries priority; the result equals the fingerprint of no instant. -/
def tornHist : List Frame :=
  [.settings false [(3, 100)],
   .headers 1 none [strBytes ":method", strBytes ":scheme", strBytes ":path"],
   .headers 3 (some { stream := 3, dep := 0, excl := false, weight := 15 }) [strBytes ":path", strBytes ":method", strBytes ":scheme"]]

theorem unlocked_torn_witness :
    ∀ k, k ≤ 3 → unlockedRead tornHist 2 2 2 3 10 ≠ fpSpec (tornHist.take k) 10 := by
  decide

/-- Obligation on the REGENERATED access facts: every write of the capture record in processFrame happens
inside `HTTP2Frames.Update(...)` (which holds the record's mutex), and Marshal starts by taking the same
mutex — the code follows the locked protocol. -/
theorem current_protocol_locked :
    Gen.Shared.captureWrites =
      ["Settings:locked", "Headers:locked", "Priorities:locked", "WindowUpdateIncrement:locked", "Priorities:locked"] ∧
    Gen.Shared.marshalHead = ["f.mu.Lock()", "deferf.mu.Unlock()"] := by
  refine ⟨by rfl, by rfl⟩

end Fp.C07
