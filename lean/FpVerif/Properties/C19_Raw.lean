/-
C19 (continued) — extension frames: `WriteRawFrame` with ANY type octet the reader does not know (10..255), any flags, any
stream id, any payload within the limits reads back as an UnknownFrame carrying exactly that type, those flags, that
stream id and that payload; and the reader's answer for a well-framed frame of an unknown type never depends on the
payload's content. (Type 0x0a is the first index past the parser table.)
-/
import FpVerif.Properties.C19
set_option linter.unusedSimpArgs false
set_option linter.unusedVariables false
namespace Fp.C19
open Fp Fp.Frame

theorem parsePayload_unknown (ty flags sid : Nat) (p : Bytes) (h : 10 ≤ ty) :
    parsePayload ty flags sid p = .ok (.unknown ty sid flags p) := by
  unfold parsePayload
  split <;> first | omega | rfl

/-- EXTENSION FRAME ROUND TRIP: every unknown type octet, outside a header block -/
theorem raw_unknown_roundtrip (ty flags sid : Nat) (pl rest : Bytes) (max : Nat) (ht : 10 ≤ ty ∧ ty < 256) (hf : flags < 256)
    (hsid : sid < 2147483648) (hl : pl.length ≤ max) (hl2 : pl.length < 16777216) :
    ∃ w, rawFrame ty flags sid pl = .ok w ∧ readFrame max 0 (w ++ rest) = (.ok (.unknown ty sid flags pl), 0, rest) := by
  apply flagged_roundtrip ty flags sid pl rest max _ 0 ht.2 hf hsid hl hl2 (parsePayload_unknown ty flags sid pl ht.1)
  unfold checkOrder
  have h9 : ty ≠ 9 := by omega
  have h1 : ty ≠ 1 := by omega
  simp [h9, h1]

/-- ... and INSIDE a header block (a HEADERS / PUSH_PROMISE / CONTINUATION without END_HEADERS came last, on stream `hs`)
the same bytes are a connection error PROTOCOL_ERROR: an extension frame takes part in the ordering rule (RFC 7540 6.10:
"CONTINUATION frames MUST be followed by nothing else") — the reader never hands anything but a CONTINUATION to the
header-block loop -/
theorem raw_unknown_in_header_block (ty flags sid hs : Nat) (pl rest : Bytes) (max : Nat) (ht : 10 ≤ ty ∧ ty < 256) (hf : flags < 256)
    (hsid : sid < 2147483648) (hl : pl.length ≤ max) (hl2 : pl.length < 16777216) (hhs : hs ≠ 0) :
    ∃ w, rawFrame ty flags sid pl = .ok w ∧ readFrame max hs (w ++ rest) = (.error (.conn codeProtocol), hs, rest) := by
  refine ⟨_, rawFrame_ok ty flags sid pl hl2, ?_⟩
  rw [header_roundtrip ty flags sid pl rest _ max hs ht.2 hf hsid hl (rawFrame_ok ty flags sid pl hl2)]
  unfold finishFrame
  rw [parsePayload_unknown ty flags sid pl ht.1]
  have h9 : ty ≠ 9 := by omega
  simp [checkOrder, hhs, h9]

/-- whatever frame the reader returns while a header block is open, it is a CONTINUATION of that block -/
theorem in_header_block_only_continuation (max hs : Nat) (inp : Bytes) (f : Frame) (hs' : Nat) (rest : Bytes) (hhs : hs ≠ 0)
    (h : readFrame max hs inp = (.ok f, hs', rest)) : ∃ fl frag, f = .continuation hs fl frag := by
  unfold readFrame at h
  split at h
  · simp at h
  · split at h
    · simp at h
    · split at h
      · simp at h
      · split at h
        · simp at h
        · unfold finishFrame at h
          split at h
          · simp at h
          · rename_i f0 hp
            split at h
            · simp at h
            · rename_i hs0 hc
              simp only [Prod.mk.injEq, Except.ok.injEq] at h
              obtain ⟨rfl, _, _⟩ := h
              unfold checkOrder at hc
              simp only [hhs, ne_eq, not_false_eq_true, if_true] at hc
              by_cases h9 : hdrType inp = 9
              · rw [h9] at hp hc
                simp only [not_true_eq_false, if_false] at hc
                by_cases hsid : hdrSid inp = hs
                · simp only [parsePayload, parseContinuation] at hp
                  split at hp
                  · cases hp
                  · simp only [Except.ok.injEq] at hp
                    exact ⟨_, _, by rw [← hp, hsid]⟩
                · simp [hsid] at hc
              · simp [h9] at hc

/-- non-vacuity: an ALTSVC-numbered frame (type 0x0a) on stream 3, then a PING -/
example :
    (match rawFrame 10 0x55 3 [1, 2, 3] with
     | .ok w =>
       (match readFrame 16384 0 (w ++ [0, 0, 8, 6, 0, 0, 0, 0, 0, 1, 2, 3, 4, 5, 6, 7, 8]) with
        | (.ok f, hs, rest) => some (f, hs, rest)
        | _ => none)
     | .error _ => none)
      = some (.unknown 10 3 0x55 [1, 2, 3], 0, [0, 0, 8, 6, 0, 0, 0, 0, 0, 1, 2, 3, 4, 5, 6, 7, 8]) := by
  decide +kernel

end Fp.C19
