/-
C05 — fingerprint headers cannot be supplied or spoofed by the client.
Model: Fp.Proxy.injectLoop / rewrite (pkg/reverseproxy/handler.go rewriteFunc).
-/
import FpVerif.Lemmas.Proxy
import FpVerif.Gen.Proxy
set_option linter.unusedSimpArgs false
namespace Fp.C05
open Fp Fp.Proxy Fp.Spec.Proxy

/-- Obligation on the statement sequence of `rewriteFunc` REGENERATED from the source: each injected
name is deleted from the outbound header before the injector is consulted, the value is then `Set`
only when the injector returned a non-empty value without error. -/
theorem gen_ok : Gen.Proxy.rewriteSteps =
    ["r.SetURL(f.To)",
     "iftq,iq:=f.To.RawQuery,r.In.URL.RawQuery;tq==\"\"||iq==\"\"{r.Out.URL.RawQuery=tq+iq}else{r.Out.URL.RawQuery=tq+\"&\"+iq}",
     "r.Out.Header[\"X-Forwarded-For\"]=r.In.Header[\"X-Forwarded-For\"]",
     "r.SetXForwarded()",
     "iff.PreserveHost{r.Out.Host=r.In.Host}",
     "for_,hj:=rangef.HeaderInjectors{k:=hj.GetHeaderName()r.Out.Header.Del(k)ifv,err:=hj.GetHeaderValue(r.In);err!=nil{f.logf(\"getheader%svaluefor%sfailed:%s\",k,r.In.RemoteAddr,err)}elseifv!=\"\"{r.Out.Header.Set(k,v)}}"] := by
  first | rfl | (rfl)

/-- MAIN THEOREM (injector loop). Whatever header map `h` reaches the loop — in particular whatever the
client put under the name, in any case, once or repeated — after the loop the header named by any
configured injector holds exactly the value the proxy computed, or nothing when the injector returned
an empty value or an error. -/
theorem no_spoof_loop (h : Hdr) (injs : List Inj) (j : Inj) (hj : j ∈ injs) :
    get (injectLoop h injs) (canonKey j.name) = specValues injs (canonKey j.name) := by
  rw [injectLoop_get]
  unfold specValues
  have hsome : (lastFor (canonKey j.name) injs).isSome := by
    induction injs with
    | nil => cases hj
    | cons a r ih =>
      simp only [lastFor]
      rcases List.mem_cons.mp hj with h1 | h1
      · subst h1; cases lastFor (canonKey j.name) r <;> simp
      · have := ih h1; cases hl : lastFor (canonKey j.name) r <;> simp_all
  cases hl : lastFor (canonKey j.name) injs with
  | none => rw [hl] at hsome; cases hsome
  | some o => cases o <;> simp [render]

/-- The same for the complete `rewriteFunc` (forwarding headers, User-Agent default): for every inbound
request and configuration, under every injected name other than User-Agent. -/
theorem no_spoof (c : Cfg) (i : InReq) (j : Inj) (hj : j ∈ c.injectors)
    (hua : canonKey j.name ≠ strBytes "User-Agent") :
    get (rewrite c i).hdr (canonKey j.name) = specValues c.injectors (canonKey j.name) := by
  unfold rewrite
  simp only
  split
  · exact no_spoof_loop _ _ j hj
  · unfold hset
    have hc : canonKey (strBytes "User-Agent") = strBytes "User-Agent" := by decide
    rw [hc, get_assign_ne _ _ _ _ hua]
    exact no_spoof_loop _ _ j hj

theorem lastFor_uniq (K : Bytes) (o : Outcome) (injs : List Inj) (hex : ∃ j ∈ injs, canonKey j.name = K)
    (hu : ∀ j' ∈ injs, canonKey j'.name = K → j'.out = o) : lastFor K injs = some o := by
  induction injs with
  | nil => obtain ⟨j, hj, _⟩ := hex; cases hj
  | cons a r ih =>
    simp only [lastFor]
    by_cases hr : ∃ j ∈ r, canonKey j.name = K
    · rw [ih hr (fun j' hj' => hu j' (List.mem_cons_of_mem _ hj'))]; rfl
    · have ha : canonKey a.name = K := by
        obtain ⟨j, hj, hk⟩ := hex
        rcases List.mem_cons.mp hj with h1 | h1
        · subst h1; exact hk
        · exact absurd ⟨j, h1, hk⟩ hr
      have hn : lastFor K r = none := by
        clear ih hex hu
        induction r with
        | nil => rfl
        | cons b t iht =>
          simp only [lastFor]
          have hb : canonKey b.name ≠ K := fun hb => hr ⟨b, List.mem_cons_self, hb⟩
          rw [iht (fun ⟨j, hj, hk⟩ => hr ⟨j, List.mem_cons_of_mem _ hj, hk⟩), if_neg hb]; rfl
      rw [hn, if_pos ha, hu a List.mem_cons_self ha]; rfl

/-- DELIVERY (the plumbing half of C01–C03): for every injector set — default or custom, in ANY order, whatever the
other injectors return (value, empty, error) — and every inbound request, a non-empty value computed by the injector
that owns a header name is exactly what the backend receives under that name. -/
theorem delivered (c : Cfg) (i : InReq) (j : Inj) (hj : j ∈ c.injectors)
    (hua : canonKey j.name ≠ strBytes "User-Agent")
    (howns : ∀ j' ∈ c.injectors, canonKey j'.name = canonKey j.name → j'.out = j.out)
    (v : Bytes) (hv : j.out = .value v) (hne : v.isEmpty = false) :
    get (rewrite c i).hdr (canonKey j.name) = [v] := by
  rw [no_spoof c i j hj hua]
  unfold specValues
  rw [lastFor_uniq _ j.out _ ⟨j, hj, rfl⟩ howns, hv]
  simp [hne]

/-- at most one value -/
theorem at_most_one (c : Cfg) (i : InReq) (j : Inj) (hj : j ∈ c.injectors)
    (hua : canonKey j.name ≠ strBytes "User-Agent") : (get (rewrite c i).hdr (canonKey j.name)).length ≤ 1 := by
  rw [no_spoof c i j hj hua]; unfold specValues
  split
  · split <;> simp
  · simp

/-- non-vacuity: an HTTP/1.1 request carrying a forged `x-http2-fingerprint` (the HTTP/2 injector returns
an empty value on that connection) and a forged JA3 value: the forged values do not survive. -/
example :
    let inj := [{ name := strBytes "X-JA3-Fingerprint", out := .value (strBytes "abc") : Inj },
                { name := strBytes "X-HTTP2-Fingerprint", out := .value [] }]
    let h : Hdr := [(strBytes "X-Http2-Fingerprint", [strBytes "forged", strBytes "forged2"]),
                    (strBytes "X-Ja3-Fingerprint", [strBytes "forged"])]
    get (injectLoop h inj) (canonKey (strBytes "X-HTTP2-Fingerprint")) = [] ∧
    get (injectLoop h inj) (canonKey (strBytes "X-JA3-Fingerprint")) = [strBytes "abc"] := by
  decide

end Fp.C05
