/-
C06 — fingerprints are attributed to the right connection under concurrency.
Event model of the proxy's per-connection capture state, exactly as the code allocates it: one Metadata
record per connection (created in serveConn for HTTP/2, in ConnContext for HTTP/1.1), request contexts
derive from the connection's. The premise "there is no other channel between connections" is not assumed:
Gen.Shared lists every package-level variable of the fingerprinting packages written after init.
-/
import FpVerif.Model.H2Fp
import FpVerif.Gen.Shared
namespace Fp.C06
open Fp Fp.H2Fp

abbrev ConnId := Nat

inductive Ev
  | accept (c : ConnId) (hello : Bytes)       -- handshake done, ClientHello captured, Metadata allocated
  | frame (c : ConnId) (f : Frame)            -- an HTTP/2 frame of connection c reaches processFrame
  | request (c : ConnId) (tag : Nat)          -- a request of connection c is forwarded
  | close (c : ConnId)
  deriving Repr

def Ev.conn : Ev → ConnId
  | .accept c _ => c | .frame c _ => c | .request c _ => c | .close c => c

/-- per-connection capture state -/
structure Data where
  hello : Bytes := []
  frames : Frames := {}
  deriving Repr, DecidableEq

/-- global state: ConnId ↦ Data (absent = default) -/
abbrev G := ConnId → Data

def apply (g : G) : Ev → G
  | .accept c h => fun x => if x = c then { hello := h, frames := {} } else g x
  | .frame c f => fun x => if x = c then { g x with frames := capture (g x).frames f } else g x
  | .request _ _ => g
  | .close _ => g

def run (g : G) (tr : List Ev) : G := tr.foldl apply g

/-- what a request forwarded at the end of `tr` on connection `c` is fingerprinted from -/
def forwarded (tr : List Ev) (c : ConnId) : Data := run (fun _ => {}) tr c

theorem apply_other (g : G) (e : Ev) (c : ConnId) (h : e.conn ≠ c) : apply g e c = g c := by
  cases e <;> simp [apply, Ev.conn] at * <;> (intro hh; exact absurd hh.symm h)

theorem apply_congr (g g' : G) (e : Ev) (c : ConnId) (h : g c = g' c) : apply g e c = apply g' e c := by
  cases e <;> simp [apply] <;> first | exact h | (split <;> simp_all)

theorem run_filter (g g' : G) (tr : List Ev) (c : ConnId) (h : g c = g' c) :
    run g tr c = run g' (tr.filter (fun e => e.conn = c)) c := by
  induction tr generalizing g g' with
  | nil => exact h
  | cons e r ih =>
    by_cases hc : e.conn = c
    · simp only [run, List.foldl_cons, List.filter_cons, hc, decide_true, if_true]
      exact ih _ _ (apply_congr g g' e c h)
    · simp only [run, List.foldl_cons, List.filter_cons, hc, decide_false]
      exact ih _ _ (by rw [apply_other g e c hc]; exact h)

/-- MAIN THEOREM (non-interference). For every interleaving of any number of connections — handshakes,
frames, requests, keep-alive reuse, disconnects, in any order — the data a request is fingerprinted from
is determined by the events of ITS OWN connection alone: deleting every other connection's events from
the history changes nothing. With C01–C03 (the header values are functions of exactly this data) every
forwarded request carries the fingerprints of exactly the connection it arrived on. -/
theorem attribution (tr : List Ev) (c : ConnId) :
    forwarded tr c = forwarded (tr.filter (fun e => e.conn = c)) c :=
  run_filter _ _ tr c rfl

/-- Obligation on the REGENERATED list of package-level variables written after init in
proxyserver / metadata / hack / fingerprint / reverseproxy / ja3 / ja4: only the duration-metric handle,
set once at start-up — no cache, pool or "last fingerprint" through which connections could interfere. -/
theorem no_shared_channel : Gen.Shared.writtenAfterInit ⊆ ["fingerprint.fingerprintDurationMetric@RegisterDurationMetric"] := by
  decide

/-- non-vacuity: two interleaved connections -/
example : (forwarded [.accept 1 [1], .accept 2 [2], .frame 2 (.windowUpdate 0 7), .frame 1 (.windowUpdate 0 9), .request 1 0, .close 2] 1).frames.wu = 9 := by
  decide

/-- Obligation on facts REGENERATED from proxyserver.go: the per-connection code (serveConn, the handshake helper,
updateConnContext) assigns to no field of the shared *Server and to no field of a local variable that merely
aliases one (`x := server.f; x.g = ...`): what it builds for a connection it builds afresh. -/
theorem per_connection_code_writes_no_shared_state : Gen.Shared.connSharedWrites = [] := by decide

end Fp.C06
