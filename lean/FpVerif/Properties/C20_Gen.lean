/-
C20 (continued) — facts REGENERATED from pkg/http2/writesched.go and writesched_priority.go on every run
(FpVerif/Gen/Sched.lean) and the obligations that tie the scheduler models to them: the tests `FrameWriteRequest.Consume`
makes, in order (non-DATA / empty first, then the caller's budget, the maximum frame size, "nothing allowed", "must be
split"); the callback of the priority scheduler's `Pop` statement by statement (limit, consume, addBytes, throttle
bookkeeping); the default weight and configuration. An edit to one of these breaks a `gen_ok_*` below even where behaviour is
unchanged; the differential and the trace oracle then look for an input on which behaviour differs.
-/
import FpVerif.Gen.Sched
import FpVerif.Properties.C20_PrioExact
set_option linter.unusedSimpArgs false
set_option linter.unusedVariables false
namespace Fp.C20
open Fp Fp.Sched Fp.Prio

theorem gen_ok_consume : Gen.Sched.consumeTests =
    ["if !ok||len(wd.p)==0", "if n<allowed", "if wr.stream.sc.maxFrameSize<allowed", "if allowed<=0", "if len(wd.p)>int(allowed)"] := by
  first | rfl | (rfl)

theorem gen_ok_prio_pop : Gen.Sched.prioPopCallback =
    ["limit:=int32(math.MaxInt32)", "ifopenParent{limit=ws.writeThrottleLimit}", "wr,ok=n.q.consume(limit)", "if!ok{returnfalse}",
     "n.addBytes(int64(wr.DataSize()))",
     "ifopenParent{ws.writeThrottleLimit+=1024ifws.writeThrottleLimit<0{ws.writeThrottleLimit=math.MaxInt32}}elseifws.enableWriteThrottle{ws.writeThrottleLimit=1024}",
     "returntrue"] := by
  first | rfl | (rfl)

theorem gen_ok_prio_defaults : Gen.Sched.priorityDefaultWeight = 15 ∧
    Gen.Sched.prioDefaults = ["MaxClosedNodesInTree=10", "MaxIdleNodesInTree=10", "ThrottleOutOfOrderWrites=false"] ∧
    Gen.Sched.throttleInit = ["ws.writeThrottleLimit=1024", "ws.writeThrottleLimit=math.MaxInt32"] := by
  refine ⟨by decide, ?_, ?_⟩ <;> first | rfl | (rfl)

/-- MODEL ↔ FACTS: a new node of the model carries the code's default weight; the initial throttle limit is 1024 with
throttling and MaxInt32 without; the budget `Consume` computes is the minimum of the caller's limit, the stream's
available window and the maximum frame size, in the order of the regenerated tests -/
theorem model_defaults (mc mi : Nat) :
    ({ id := 1, state := .open_ } : PNode).weight = Gen.Sched.priorityDefaultWeight ∧
    (PSt.init mc mi true).throttle = 1024 ∧ (PSt.init mc mi false).throttle = 2147483647 := by
  refine ⟨by decide, rfl, rfl⟩

theorem model_budget (w : St) (sid : Nat) (limit : Int) :
    allowedN w sid limit = min (min limit (available w sid)) w.maxFrame := by
  unfold allowedN
  simp only
  split <;> split <;> omega

/-- the throttle bookkeeping of the model's `popHere` is the regenerated statement: +1024 saturating at MaxInt32 under an
open parent, back to 1024 otherwise when throttling is on, untouched when it is off -/
theorem model_throttle (s : PSt) (n : Nat) (s' : PSt) (p : Popped) (h : popHere s n true = some (s', p)) :
    s'.throttle = (if s.throttle + 1024 > 2147483647 then 2147483647 else s.throttle + 1024) := by
  unfold Fp.Prio.popHere at h
  simp only at h
  split at h
  · cases h
  · split at h
    · cases h
    · simp only [Option.some.injEq, Prod.mk.injEq, if_true] at h
      obtain ⟨h1, _⟩ := h
      rw [← h1]
      have thr_addBytes_up : ∀ (b : Int) (fuel : Nat) (t : PSt) (q : Option Nat), (addBytes.up b fuel t q).throttle = t.throttle := by
        intro b fuel
        induction fuel with
        | zero => intro t q; cases q <;> rfl
        | succ fuel ih => intro t q; cases q with
          | none => rfl
          | some x => simp only [addBytes.up]; rw [ih]; rfl
      have : ∀ (t : PSt) (m : Nat) (b : Int), (addBytes t m b).throttle = t.throttle := by
        intro t m b; unfold Fp.Prio.addBytes; simp only; rw [thr_addBytes_up]; rfl
      simp only [this]
      rfl

end Fp.C20
