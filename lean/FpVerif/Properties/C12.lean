/-
C12 — HTTP/2 flow control is never violated and never leaks window.
Here: the arithmetic core (pkg/http2/flow.go) in Go's own integer widths; the send-side discipline of the
schedulers is C20 (`respects_windows_rr`, `pieces_concatenate`, `conservation_rr`); the receive-side
ledger of the server is validated against these definitions by the server-level stream.
-/
import FpVerif.Model.Flow
import FpVerif.Model.H2Tx
import FpVerif.Model.H2Rx
set_option linter.unusedSimpArgs false
namespace Fp.C12
open Fp Fp.Flow Fp.Gen.Flow

/-- Obligations on the constants REGENERATED from flow.go / http2.go -/
theorem gen_ok : inflowMinRefresh = 4096 ∧ maxWindow = 2147483647 ∧ initialWindowSize = 65535 ∧
    outflowAddTest = "(sum>n)==(f.n>0)" := by
  refine ⟨by decide, by decide, by decide, by rfl⟩

theorem wrap32_id (x : Int) (h : I32 x) : wrap32 x = x := by
  unfold wrap32 I32 at *; omega

/-- `outflow.add` is an EXACT overflow test: it succeeds iff the mathematical sum fits an int32 (so a
window never exceeds 2^31-1, and SETTINGS_INITIAL_WINDOW_SIZE changes may legally drive it negative),
and then the new window is that sum; on failure the window is unchanged. -/
theorem outflow_add_correct (fn n : Int) (hf : I32 fn) (hn : I32 n) :
    ((outflowAdd fn n).2 = true ↔ I32 (fn + n)) ∧
    ((outflowAdd fn n).2 = true → (outflowAdd fn n).1 = fn + n) ∧
    ((outflowAdd fn n).2 = false → (outflowAdd fn n).1 = fn) := by
  unfold outflowAdd wrap32 I32 at *
  simp only
  by_cases h1 : (fn + n + 2147483648) % 4294967296 - 2147483648 > n <;>
  by_cases h2 : fn > 0 <;> simp [h1, h2] <;> omega

/-- never sends beyond the peer's windows: `take` panics rather than overdraw, and `available` is the
minimum of the stream and the connection window -/
theorem outflow_take_safe (fn conn n : Int) (v : Int × Int) (h : outflowTake fn conn n = .ok v) :
    n ≤ fn ∧ n ≤ conn := by
  unfold outflowTake at h
  by_cases hc : n > outflowAvailable fn conn
  · rw [if_pos hc] at h; cases h
  · unfold outflowAvailable at hc
    split at hc <;> omega

/-- receive side invariant: 0 ≤ avail, 0 ≤ unsent < 4096 (the fixed bound on un-returned credit),
avail + unsent ≤ 2^31-1 -/
def InflowInv (f : Inflow) : Prop := 0 ≤ f.avail ∧ 0 ≤ f.unsent ∧ f.unsent < 4096 ∧ f.avail + f.unsent ≤ 2147483647

/-- a peer that exceeds the window it was given is detected: `take n` succeeds iff n ≤ avail -/
theorem inflow_take_enforces (f : Inflow) (n : Int) (hi : InflowInv f) (hn : 0 ≤ n ∧ n ≤ 4294967295) :
    ((f.take n).2 = true ↔ n ≤ f.avail) ∧ InflowInv (f.take n).1 ∧
    ((f.take n).2 = true → (f.take n).1.avail = f.avail - n) ∧ ((f.take n).2 = false → (f.take n).1 = f) := by
  obtain ⟨h1, h2, h3, h4⟩ := hi
  unfold Inflow.take toU32 wrap32 InflowInv
  by_cases h : n > f.avail % 4294967296
  · simp only [h, if_true]
    refine ⟨?_, ⟨h1, h2, h3, h4⟩, ?_, ?_⟩ <;> simp <;> omega
  · simp only [h, if_false]
    refine ⟨?_, ?_, ?_, ?_⟩ <;> simp <;> omega

/-- credit is returned for everything consumed; what is held back is below the fixed bound and is not
lost: it is included in a later refund -/
theorem inflow_add_returns (f : Inflow) (n : Int) (hi : InflowInv f) (hn : 0 ≤ n)
    (hw : f.unsent + n + f.avail ≤ 2147483647) :
    ∃ f' c, f.add n = .ok (f', c) ∧ InflowInv f' ∧ c + f'.unsent = f.unsent + n ∧ f'.avail = f.avail + c ∧
      (c = 0 ∨ c = f.unsent + n) := by
  obtain ⟨h1, h2, h3, h4⟩ := hi
  unfold Inflow.add
  have hn' : ¬ n < 0 := by omega
  have hmax : (maxWindow : Int) = 2147483647 := by decide
  have hmin : (inflowMinRefresh : Int) = 4096 := by decide
  have hw' : ¬ (f.unsent + n + f.avail > (maxWindow : Int)) := by rw [hmax]; omega
  simp only [hn', hw', if_false]
  have hu : wrap32 (f.unsent + n) = f.unsent + n := wrap32_id _ (by unfold I32; omega)
  rw [hu, hmin]
  by_cases hb : f.unsent + n < 4096 ∧ f.unsent + n < f.avail
  · simp only [hb, and_self, if_true]
    refine ⟨_, _, rfl, ⟨h1, ?_, ?_, ?_⟩, by simp, by simp, Or.inl rfl⟩
    · show 0 ≤ f.unsent + n; omega
    · show f.unsent + n < 4096; omega
    · show f.avail + (f.unsent + n) ≤ 2147483647; omega
  · simp only [hb, if_false]
    have ha : wrap32 (f.avail + (f.unsent + n)) = f.avail + (f.unsent + n) := wrap32_id _ (by unfold I32; omega)
    rw [ha]
    exact ⟨_, _, rfl, ⟨by simp; omega, by simp, by simp, by simp; omega⟩, by simp, by simp, Or.inr rfl⟩

/-- the two panics of `inflow.add` are exactly: a negative update, or credit beyond 2^31-1 -/
theorem inflow_add_panics_iff (f : Inflow) (n : Int) :
    f.add n = .panic ↔ (n < 0 ∨ f.unsent + n + f.avail > 2147483647) := by
  unfold Inflow.add
  have hmax : (maxWindow : Int) = 2147483647 := by decide
  by_cases h1 : n < 0
  · simp [h1]
  · by_cases h2 : f.unsent + n + f.avail > (maxWindow : Int)
    · simp [h1, h2]; rw [hmax] at h2; omega
    · simp only [h1, h2, if_false, false_or]
      constructor
      · intro h; split at h <;> cases h
      · intro h; rw [hmax] at h2; omega

/-- NO LEAK over unbounded histories: for any sequence of (take n | add n) on one ledger that never
over-credits (adds refund only what was taken), the un-returned credit `unsent` stays below 4096 and
`received = returned + unsent`, however much traffic has passed. -/
inductive FOp | take (n : Int) | add (n : Int)

structure Ledger where
  f : Inflow
  received : Int := 0      -- bytes accepted by take
  consumed : Int := 0      -- bytes handed to add (consumed or discarded by the application)
  returned : Int := 0      -- credit actually sent back in WINDOW_UPDATE frames
  deriving Repr

def Ledger.step (l : Ledger) : FOp → Option Ledger
  | .take n => if 0 ≤ n ∧ n ≤ 4294967295 then
      let (f', ok) := l.f.take n
      some (if ok then { l with f := f', received := l.received + n } else l) else none
  | .add n =>
      if 0 ≤ n ∧ l.consumed + n ≤ l.received then
        match l.f.add n with
        | .ok (f', c) => some { l with f := f', consumed := l.consumed + n, returned := l.returned + c }
        | .panic => none
      else none

def LInv (w0 : Int) (l : Ledger) : Prop :=
  InflowInv l.f ∧ l.consumed = l.returned + l.f.unsent ∧ l.consumed ≤ l.received ∧
  l.f.avail + l.f.unsent + (l.received - l.consumed) = w0 ∧ 0 ≤ l.received - l.consumed

theorem ledger_step (w0 : Int) (hw0 : w0 ≤ 2147483647) (l l' : Ledger) (op : FOp) (h : LInv w0 l) (hs : l.step op = some l') :
    LInv w0 l' := by
  obtain ⟨hi, hc, hle, hsum, hpos⟩ := h
  cases op with
  | take n =>
    simp only [Ledger.step] at hs
    split at hs
    · rename_i hn
      obtain ⟨t1, t2, t3, t4⟩ := inflow_take_enforces l.f n hi hn
      cases hok : (l.f.take n).2
      · have := t4 hok
        simp only [Option.some.injEq] at hs
        have hl : l' = l := by
          rw [← hs]; cases hp : l.f.take n with
          | mk f' ok => rw [hp] at hok; simp at hok; simp [hok]
        rw [hl]; exact ⟨hi, hc, hle, hsum, hpos⟩
      · have ha := t3 hok
        simp only [Option.some.injEq] at hs
        have hl : l' = { l with f := (l.f.take n).1, received := l.received + n } := by
          rw [← hs]; cases hp : l.f.take n with
          | mk f' ok => rw [hp] at hok; simp at hok; simp [hok]
        rw [hl]
        have hu : (l.f.take n).1.unsent = l.f.unsent := by
          unfold Inflow.take; split <;> rfl
        refine ⟨t2, ?_, ?_, ?_, ?_⟩ <;> simp only [hu, ha] <;> omega
    · cases hs
  | add n =>
    simp only [Ledger.step] at hs
    split at hs
    · rename_i hn
      have hw : l.f.unsent + n + l.f.avail ≤ 2147483647 := by omega
      obtain ⟨f', c, he, hi', h1, h2, _⟩ := inflow_add_returns l.f n hi hn.1 hw
      rw [he] at hs
      simp only [Option.some.injEq] at hs
      rw [← hs]
      refine ⟨hi', ?_, ?_, ?_, ?_⟩ <;> simp only <;> omega
    · cases hs

def Ledger.run (l : Ledger) : List FOp → Option Ledger
  | [] => some l
  | op :: r => match l.step op with | some l' => l'.run r | none => none

theorem no_leak (w0 : Int) (h0 : 0 ≤ w0 ∧ w0 ≤ 2147483647) (ops : List FOp) (l : Ledger)
    (hr : ({ f := { avail := w0 } } : Ledger).run ops = some l) :
    0 ≤ l.f.unsent ∧ l.f.unsent < 4096 ∧ l.consumed = l.returned + l.f.unsent ∧
    l.f.avail + l.f.unsent + (l.received - l.consumed) = w0 := by
  have hinit : LInv w0 { f := { avail := w0 } } := by
    refine ⟨⟨h0.1, by simp, by simp, by simp; omega⟩, by simp, by simp, by simp, by simp⟩
  have : ∀ (ops : List FOp) (a b : Ledger), LInv w0 a → a.run ops = some b → LInv w0 b := by
    intro ops
    induction ops with
    | nil => intro a b ha hr; simp [Ledger.run] at hr; rw [← hr]; exact ha
    | cons op r ih =>
      intro a b ha hr
      simp only [Ledger.run] at hr
      cases hs : a.step op with
      | none => rw [hs] at hr; cases hr
      | some a' => rw [hs] at hr; exact ih a' b (ledger_step w0 h0.2 a a' op ha hs) hr
  obtain ⟨hi, hc, _, hsum, _⟩ := this ops _ l hinit hr
  exact ⟨hi.2.1, hi.2.2.1, hc, hsum⟩

/-- non-vacuity: 65535-byte window, 5000 bytes received and consumed in two steps -/
example : (({ f := { avail := 65535 } } : Ledger).run [.take 3000, .add 3000, .take 2000, .add 2000]).map
    (fun l => (l.f.avail, l.f.unsent, l.returned)) = some (65535, 0, 5000) := by decide

/-! ### the client transport's body writer (transport.go: writeRequestBody / awaitFlowControl), model `H2Tx` -/

def dataBytes : List H2Tx.Out → Nat
  | [] => 0
  | .data len _ :: r => len + dataBytes r
  | _ :: r => dataBytes r

/-- CLIENT SEND SAFETY, for one run of the writer from any state (any windows, also negative ones after a
SETTINGS_INITIAL_WINDOW_SIZE decrease, any max frame size, any amount of queued body): the DATA bytes it releases
never exceed what the stream AND the connection window allow at that moment, both windows are charged exactly
those bytes, the queued body shrinks by exactly those bytes, and no frame is larger than the peer's max frame size. -/
theorem tx_window_safe : ∀ (fuel : Nat) (t : H2Tx.Tx), 0 < t.maxFrame →
    ((dataBytes (H2Tx.drain fuel t).2 : Nat) : Int) ≤ max 0 (H2Tx.available t) ∧
    (H2Tx.drain fuel t).1.connFlow = t.connFlow - dataBytes (H2Tx.drain fuel t).2 ∧
    (H2Tx.drain fuel t).1.streamFlow = t.streamFlow - dataBytes (H2Tx.drain fuel t).2 ∧
    (H2Tx.drain fuel t).1.avail + (H2Tx.drain fuel t).1.remain + dataBytes (H2Tx.drain fuel t).2 = t.avail + t.remain ∧
    (H2Tx.drain fuel t).1.maxFrame = t.maxFrame ∧
    (∀ o ∈ (H2Tx.drain fuel t).2, ∀ len es, o = .data len es → (len : Int) ≤ t.maxFrame) := by
  intro fuel
  induction fuel with
  | zero => intro t _; simp [H2Tx.drain, dataBytes]; omega
  | succ fuel ih =>
    intro t hm
    unfold H2Tx.drain
    split
    · simp [dataBytes]; omega
    · split
      · rename_i hrem
        split
        · simp [dataBytes]; omega
        · rename_i ha
          have htake : 0 < H2Tx.takeOf t ∧ H2Tx.takeOf t ≤ H2Tx.available t ∧ H2Tx.takeOf t ≤ t.remain ∧
              H2Tx.takeOf t ≤ t.maxFrame := by
            unfold H2Tx.takeOf; simp only; split <;> split <;> omega
          generalize H2Tx.takeOf t = take at htake ⊢
          obtain ⟨i1, i2, i3, i4, i5, i6⟩ := ih (H2Tx.sent t take) (by simpa [H2Tx.sent] using hm)
          have hav : H2Tx.available (H2Tx.sent t take) = H2Tx.available t - take := by
            unfold H2Tx.available H2Tx.sent; simp only; split <;> split <;> omega
          rw [hav] at i1
          have htn : ((take.toNat : Nat) : Int) = take := Int.toNat_of_nonneg (by omega)
          have e1 : (H2Tx.sent t take).connFlow = t.connFlow - take := rfl
          have e2 : (H2Tx.sent t take).streamFlow = t.streamFlow - take := rfl
          have e3 : (H2Tx.sent t take).avail = t.avail := rfl
          have e4 : (H2Tx.sent t take).remain = t.remain - take.toNat := rfl
          have e5 : (H2Tx.sent t take).maxFrame = t.maxFrame := rfl
          rw [e1] at i2; rw [e2] at i3; rw [e3, e4] at i4; rw [e5] at i5 i6
          refine ⟨?_, ?_, ?_, ?_, i5, ?_⟩
          · simp only [dataBytes]; push_cast; rw [htn]; omega
          · simp only [dataBytes]; push_cast; rw [htn, i2]; omega
          · simp only [dataBytes]; push_cast; rw [htn, i3]; omega
          · simp only [dataBytes]
            have : take.toNat ≤ t.remain := by omega
            omega
          · intro o ho len es he
            simp only [List.mem_cons] at ho
            rcases ho with rfl | ho
            · cases he; rw [htn]; exact htake.2.2.2
            · exact i6 o ho len es he
      · split
        · simp [dataBytes, H2Tx.finish]; omega
        · split
          · obtain ⟨i1, i2, i3, i4, i5, i6⟩ := ih (H2Tx.readChunk t) hm
            have e0 : H2Tx.available (H2Tx.readChunk t) = H2Tx.available t := rfl
            have e1 : (H2Tx.readChunk t).connFlow = t.connFlow := rfl
            have e2 : (H2Tx.readChunk t).streamFlow = t.streamFlow := rfl
            have e3 : (H2Tx.readChunk t).avail = t.avail - min t.scratch t.avail := rfl
            have e4 : (H2Tx.readChunk t).remain = min t.scratch t.avail := rfl
            have e5 : (H2Tx.readChunk t).maxFrame = t.maxFrame := rfl
            rw [e0] at i1; rw [e1] at i2; rw [e2] at i3; rw [e3, e4] at i4; rw [e5] at i5 i6
            refine ⟨i1, i2, i3, ?_, i5, i6⟩
            have : min t.scratch t.avail ≤ t.avail := Nat.min_le_right _ _
            omega
          · split
            · exact ih (H2Tx.sawEnd t) hm
            · simp [dataBytes]; omega

/-- CLIENT SEND PROGRESS: the writer stops with bytes in hand only when a window is closed -/
theorem tx_blocked_only_by_window (fuel : Nat) (t : H2Tx.Tx) (hm : 0 < t.maxFrame) (hr : 0 < t.remain)
    (ha : 0 < H2Tx.available t) (hd : t.done = false) : (H2Tx.drain (fuel + 1) t).2 ≠ [] := by
  unfold H2Tx.drain
  simp only [hd, Bool.false_eq_true, if_false, hr, gt_iff_lt, if_true]
  split
  · omega
  · simp

/-- non-vacuity: a 40000-byte body against a 20000-byte stream window and 16384-byte frames: 16384 + 3616 go out,
the rest waits; a SETTINGS change that re-opens the window releases it -/
example : (H2Tx.run { streamFlow := 20000, initialWindow := 20000 } [.body 40000, .bodyEOF, .setting 4 65535]).map
    (fun os => os.map fun o => match o with | .data n e => (n, e) | _ => (0, false)) =
    [[(16384, false), (3616, false)], [], [(12768, false), (7232, false), (0, true)]] := by decide

end Fp.C12
