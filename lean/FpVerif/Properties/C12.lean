/-
C12 — HTTP/2 flow control is never violated and never leaks window.
Here: the arithmetic core (pkg/http2/flow.go) in Go's own integer widths; the send-side discipline of the
schedulers is C20 (`respects_windows_rr`, `pieces_concatenate`, `conservation_rr`); the receive-side
ledger of the server is validated against these definitions by the server-level stream.
-/
import FpVerif.Model.Flow
import FpVerif.Spec.H2STx
import FpVerif.Model.H2Tx
import FpVerif.Model.H2Rx
import FpVerif.Lemmas.H2Rx
set_option linter.unusedSimpArgs false
namespace Fp.C12
open Fp Fp.Flow Fp.Gen.Flow

/-- Obligations on the constants REGENERATED from flow.go / http2.go -/
theorem gen_ok : inflowMinRefresh = 4096 ∧ maxWindow = 2147483647 ∧ initialWindowSize = 65535 ∧
    outflowAddTest = "(sum>n)==(f.n>0)" := by
  refine ⟨by decide, by decide, by decide, by rfl⟩

theorem wrap32_id (x : Int) (h : I32 x) : wrap32 x = x := by
  unfold wrap32 I32 at *; omega

/-- `outflow.add` is an EXACT overflow test: it succeeds iff the mathematical sum fits an int32 (so a
window never exceeds 2^31-1, and SETTINGS_INITIAL_WINDOW_SIZE changes may legally drive it negative),
and then the new window is that sum; on failure the window is unchanged. -/
theorem outflow_add_correct (fn n : Int) (hf : I32 fn) (hn : I32 n) :
    ((outflowAdd fn n).2 = true ↔ I32 (fn + n)) ∧
    ((outflowAdd fn n).2 = true → (outflowAdd fn n).1 = fn + n) ∧
    ((outflowAdd fn n).2 = false → (outflowAdd fn n).1 = fn) := by
  unfold outflowAdd wrap32 I32 at *
  simp only
  by_cases h1 : (fn + n + 2147483648) % 4294967296 - 2147483648 > n <;>
  by_cases h2 : fn > 0 <;> simp [h1, h2] <;> omega

/-- never sends beyond the peer's windows: `take` panics rather than overdraw, and `available` is the
minimum of the stream and the connection window -/
theorem outflow_take_safe (fn conn n : Int) (v : Int × Int) (h : outflowTake fn conn n = .ok v) :
    n ≤ fn ∧ n ≤ conn := by
  unfold outflowTake at h
  by_cases hc : n > outflowAvailable fn conn
  · rw [if_pos hc] at h; cases h
  · unfold outflowAvailable at hc
    split at hc <;> omega

/-- receive side invariant: 0 ≤ avail, 0 ≤ unsent < 4096 (the fixed bound on un-returned credit),
avail + unsent ≤ 2^31-1 -/
def InflowInv (f : Inflow) : Prop := 0 ≤ f.avail ∧ 0 ≤ f.unsent ∧ f.unsent < 4096 ∧ f.avail + f.unsent ≤ 2147483647

/-- a peer that exceeds the window it was given is detected: `take n` succeeds iff n ≤ avail -/
theorem inflow_take_enforces (f : Inflow) (n : Int) (hi : InflowInv f) (hn : 0 ≤ n ∧ n ≤ 4294967295) :
    ((f.take n).2 = true ↔ n ≤ f.avail) ∧ InflowInv (f.take n).1 ∧
    ((f.take n).2 = true → (f.take n).1.avail = f.avail - n) ∧ ((f.take n).2 = false → (f.take n).1 = f) := by
  obtain ⟨h1, h2, h3, h4⟩ := hi
  unfold Inflow.take toU32 wrap32 InflowInv
  by_cases h : n > f.avail % 4294967296
  · simp only [h, if_true]
    refine ⟨?_, ⟨h1, h2, h3, h4⟩, ?_, ?_⟩ <;> simp <;> omega
  · simp only [h, if_false]
    refine ⟨?_, ?_, ?_, ?_⟩ <;> simp <;> omega

/-- credit is returned for everything consumed; what is held back is below the fixed bound and is not
lost: it is included in a later refund -/
theorem inflow_add_returns (f : Inflow) (n : Int) (hi : InflowInv f) (hn : 0 ≤ n)
    (hw : f.unsent + n + f.avail ≤ 2147483647) :
    ∃ f' c, f.add n = .ok (f', c) ∧ InflowInv f' ∧ c + f'.unsent = f.unsent + n ∧ f'.avail = f.avail + c ∧
      (c = 0 ∨ c = f.unsent + n) := by
  obtain ⟨h1, h2, h3, h4⟩ := hi
  unfold Inflow.add
  have hn' : ¬ n < 0 := by omega
  have hmax : (maxWindow : Int) = 2147483647 := by decide
  have hmin : (inflowMinRefresh : Int) = 4096 := by decide
  have hw' : ¬ (f.unsent + n + f.avail > (maxWindow : Int)) := by rw [hmax]; omega
  simp only [hn', hw', if_false]
  have hu : wrap32 (f.unsent + n) = f.unsent + n := wrap32_id _ (by unfold I32; omega)
  rw [hu, hmin]
  by_cases hb : f.unsent + n < 4096 ∧ f.unsent + n < f.avail
  · simp only [hb, and_self, if_true]
    refine ⟨_, _, rfl, ⟨h1, ?_, ?_, ?_⟩, by simp, by simp, Or.inl rfl⟩
    · show 0 ≤ f.unsent + n; omega
    · show f.unsent + n < 4096; omega
    · show f.avail + (f.unsent + n) ≤ 2147483647; omega
  · simp only [hb, if_false]
    have ha : wrap32 (f.avail + (f.unsent + n)) = f.avail + (f.unsent + n) := wrap32_id _ (by unfold I32; omega)
    rw [ha]
    exact ⟨_, _, rfl, ⟨by simp; omega, by simp, by simp, by simp; omega⟩, by simp, by simp, Or.inr rfl⟩

/-- the two panics of `inflow.add` are exactly: a negative update, or credit beyond 2^31-1 -/
theorem inflow_add_panics_iff (f : Inflow) (n : Int) :
    f.add n = .panic ↔ (n < 0 ∨ f.unsent + n + f.avail > 2147483647) := by
  unfold Inflow.add
  have hmax : (maxWindow : Int) = 2147483647 := by decide
  by_cases h1 : n < 0
  · simp [h1]
  · by_cases h2 : f.unsent + n + f.avail > (maxWindow : Int)
    · simp [h1, h2]; rw [hmax] at h2; omega
    · simp only [h1, h2, if_false, false_or]
      constructor
      · intro h; split at h <;> cases h
      · intro h; rw [hmax] at h2; omega

/-- NO LEAK over unbounded histories: for any sequence of (take n | add n) on one ledger that never
over-credits (adds refund only what was taken), the un-returned credit `unsent` stays below 4096 and
`received = returned + unsent`, however much traffic has passed. -/
inductive FOp | take (n : Int) | add (n : Int)

structure Ledger where
  f : Inflow
  received : Int := 0      -- bytes accepted by take
  consumed : Int := 0      -- bytes handed to add (consumed or discarded by the application)
  returned : Int := 0      -- credit actually sent back in WINDOW_UPDATE frames
  deriving Repr

def Ledger.step (l : Ledger) : FOp → Option Ledger
  | .take n => if 0 ≤ n ∧ n ≤ 4294967295 then
      let (f', ok) := l.f.take n
      some (if ok then { l with f := f', received := l.received + n } else l) else none
  | .add n =>
      if 0 ≤ n ∧ l.consumed + n ≤ l.received then
        match l.f.add n with
        | .ok (f', c) => some { l with f := f', consumed := l.consumed + n, returned := l.returned + c }
        | .panic => none
      else none

def LInv (w0 : Int) (l : Ledger) : Prop :=
  InflowInv l.f ∧ l.consumed = l.returned + l.f.unsent ∧ l.consumed ≤ l.received ∧
  l.f.avail + l.f.unsent + (l.received - l.consumed) = w0 ∧ 0 ≤ l.received - l.consumed

theorem ledger_step (w0 : Int) (hw0 : w0 ≤ 2147483647) (l l' : Ledger) (op : FOp) (h : LInv w0 l) (hs : l.step op = some l') :
    LInv w0 l' := by
  obtain ⟨hi, hc, hle, hsum, hpos⟩ := h
  cases op with
  | take n =>
    simp only [Ledger.step] at hs
    split at hs
    · rename_i hn
      obtain ⟨t1, t2, t3, t4⟩ := inflow_take_enforces l.f n hi hn
      cases hok : (l.f.take n).2
      · have := t4 hok
        simp only [Option.some.injEq] at hs
        have hl : l' = l := by
          rw [← hs]; cases hp : l.f.take n with
          | mk f' ok => rw [hp] at hok; simp at hok; simp [hok]
        rw [hl]; exact ⟨hi, hc, hle, hsum, hpos⟩
      · have ha := t3 hok
        simp only [Option.some.injEq] at hs
        have hl : l' = { l with f := (l.f.take n).1, received := l.received + n } := by
          rw [← hs]; cases hp : l.f.take n with
          | mk f' ok => rw [hp] at hok; simp at hok; simp [hok]
        rw [hl]
        have hu : (l.f.take n).1.unsent = l.f.unsent := by
          unfold Inflow.take; split <;> rfl
        refine ⟨t2, ?_, ?_, ?_, ?_⟩ <;> simp only [hu, ha] <;> omega
    · cases hs
  | add n =>
    simp only [Ledger.step] at hs
    split at hs
    · rename_i hn
      have hw : l.f.unsent + n + l.f.avail ≤ 2147483647 := by omega
      obtain ⟨f', c, he, hi', h1, h2, _⟩ := inflow_add_returns l.f n hi hn.1 hw
      rw [he] at hs
      simp only [Option.some.injEq] at hs
      rw [← hs]
      refine ⟨hi', ?_, ?_, ?_, ?_⟩ <;> simp only <;> omega
    · cases hs

def Ledger.run (l : Ledger) : List FOp → Option Ledger
  | [] => some l
  | op :: r => match l.step op with | some l' => l'.run r | none => none

theorem no_leak (w0 : Int) (h0 : 0 ≤ w0 ∧ w0 ≤ 2147483647) (ops : List FOp) (l : Ledger)
    (hr : ({ f := { avail := w0 } } : Ledger).run ops = some l) :
    0 ≤ l.f.unsent ∧ l.f.unsent < 4096 ∧ l.consumed = l.returned + l.f.unsent ∧
    l.f.avail + l.f.unsent + (l.received - l.consumed) = w0 := by
  have hinit : LInv w0 { f := { avail := w0 } } := by
    refine ⟨⟨h0.1, by simp, by simp, by simp; omega⟩, by simp, by simp, by simp, by simp⟩
  have : ∀ (ops : List FOp) (a b : Ledger), LInv w0 a → a.run ops = some b → LInv w0 b := by
    intro ops
    induction ops with
    | nil => intro a b ha hr; simp [Ledger.run] at hr; rw [← hr]; exact ha
    | cons op r ih =>
      intro a b ha hr
      simp only [Ledger.run] at hr
      cases hs : a.step op with
      | none => rw [hs] at hr; cases hr
      | some a' => rw [hs] at hr; exact ih a' b (ledger_step w0 h0.2 a a' op ha hs) hr
  obtain ⟨hi, hc, _, hsum, _⟩ := this ops _ l hinit hr
  exact ⟨hi.2.1, hi.2.2.1, hc, hsum⟩

/-- non-vacuity: 65535-byte window, 5000 bytes received and consumed in two steps -/
example : (({ f := { avail := 65535 } } : Ledger).run [.take 3000, .add 3000, .take 2000, .add 2000]).map
    (fun l => (l.f.avail, l.f.unsent, l.returned)) = some (65535, 0, 5000) := by decide

/-! ### the client transport's body writer (transport.go: writeRequestBody / awaitFlowControl), model `H2Tx` -/

def dataBytes : List H2Tx.Out → Nat
  | [] => 0
  | .data len _ :: r => len + dataBytes r
  | _ :: r => dataBytes r

/-- CLIENT SEND SAFETY, for one run of the writer from any state (any windows, also negative ones after a
SETTINGS_INITIAL_WINDOW_SIZE decrease, any max frame size, any amount of queued body): the DATA bytes it releases
never exceed what the stream AND the connection window allow at that moment, both windows are charged exactly
those bytes, the queued body shrinks by exactly those bytes, and no frame is larger than the peer's max frame size. -/
theorem tx_window_safe : ∀ (fuel : Nat) (t : H2Tx.Tx), 0 < t.maxFrame →
    ((dataBytes (H2Tx.drain fuel t).2 : Nat) : Int) ≤ max 0 (H2Tx.available t) ∧
    (H2Tx.drain fuel t).1.connFlow = t.connFlow - dataBytes (H2Tx.drain fuel t).2 ∧
    (H2Tx.drain fuel t).1.streamFlow = t.streamFlow - dataBytes (H2Tx.drain fuel t).2 ∧
    (H2Tx.drain fuel t).1.avail + (H2Tx.drain fuel t).1.remain + dataBytes (H2Tx.drain fuel t).2 = t.avail + t.remain ∧
    (H2Tx.drain fuel t).1.maxFrame = t.maxFrame ∧
    (∀ o ∈ (H2Tx.drain fuel t).2, ∀ len es, o = .data len es → (len : Int) ≤ t.maxFrame) := by
  intro fuel
  induction fuel with
  | zero => intro t _; simp [H2Tx.drain, dataBytes]; omega
  | succ fuel ih =>
    intro t hm
    unfold H2Tx.drain
    split
    · simp [dataBytes]; omega
    · split
      · rename_i hrem
        split
        · simp [dataBytes]; omega
        · rename_i ha
          have htake : 0 < H2Tx.takeOf t ∧ H2Tx.takeOf t ≤ H2Tx.available t ∧ H2Tx.takeOf t ≤ t.remain ∧
              H2Tx.takeOf t ≤ t.maxFrame := by
            unfold H2Tx.takeOf; simp only; split <;> split <;> omega
          generalize H2Tx.takeOf t = take at htake ⊢
          obtain ⟨i1, i2, i3, i4, i5, i6⟩ := ih (H2Tx.sent t take) (by simpa [H2Tx.sent] using hm)
          have hav : H2Tx.available (H2Tx.sent t take) = H2Tx.available t - take := by
            unfold H2Tx.available H2Tx.sent; simp only; split <;> split <;> omega
          rw [hav] at i1
          have htn : ((take.toNat : Nat) : Int) = take := Int.toNat_of_nonneg (by omega)
          have e1 : (H2Tx.sent t take).connFlow = t.connFlow - take := rfl
          have e2 : (H2Tx.sent t take).streamFlow = t.streamFlow - take := rfl
          have e3 : (H2Tx.sent t take).avail = t.avail := rfl
          have e4 : (H2Tx.sent t take).remain = t.remain - take.toNat := rfl
          have e5 : (H2Tx.sent t take).maxFrame = t.maxFrame := rfl
          rw [e1] at i2; rw [e2] at i3; rw [e3, e4] at i4; rw [e5] at i5 i6
          refine ⟨?_, ?_, ?_, ?_, i5, ?_⟩
          · simp only [dataBytes]; push_cast; rw [htn]; omega
          · simp only [dataBytes]; push_cast; rw [htn, i2]; omega
          · simp only [dataBytes]; push_cast; rw [htn, i3]; omega
          · simp only [dataBytes]
            have : take.toNat ≤ t.remain := by omega
            omega
          · intro o ho len es he
            simp only [List.mem_cons] at ho
            rcases ho with rfl | ho
            · cases he; rw [htn]; exact htake.2.2.2
            · exact i6 o ho len es he
      · split
        · simp [dataBytes, H2Tx.finish]; omega
        · split
          · obtain ⟨i1, i2, i3, i4, i5, i6⟩ := ih (H2Tx.readChunk t) hm
            have e0 : H2Tx.available (H2Tx.readChunk t) = H2Tx.available t := rfl
            have e1 : (H2Tx.readChunk t).connFlow = t.connFlow := rfl
            have e2 : (H2Tx.readChunk t).streamFlow = t.streamFlow := rfl
            have e3 : (H2Tx.readChunk t).avail = t.avail - min t.scratch t.avail := rfl
            have e4 : (H2Tx.readChunk t).remain = min t.scratch t.avail := rfl
            have e5 : (H2Tx.readChunk t).maxFrame = t.maxFrame := rfl
            rw [e0] at i1; rw [e1] at i2; rw [e2] at i3; rw [e3, e4] at i4; rw [e5] at i5 i6
            refine ⟨i1, i2, i3, ?_, i5, i6⟩
            have : min t.scratch t.avail ≤ t.avail := Nat.min_le_right _ _
            omega
          · split
            · exact ih (H2Tx.sawEnd t) hm
            · simp [dataBytes]; omega

/-- CLIENT SEND PROGRESS: the writer stops with bytes in hand only when a window is closed -/
theorem tx_blocked_only_by_window (fuel : Nat) (t : H2Tx.Tx) (hm : 0 < t.maxFrame) (hr : 0 < t.remain)
    (ha : 0 < H2Tx.available t) (hd : t.done = false) : (H2Tx.drain (fuel + 1) t).2 ≠ [] := by
  unfold H2Tx.drain
  simp only [hd, Bool.false_eq_true, if_false, hr, gt_iff_lt, if_true]
  split
  · omega
  · simp

/-- non-vacuity: a 40000-byte body against a 20000-byte stream window and 16384-byte frames: 16384 + 3616 go out,
the rest waits; a SETTINGS change that re-opens the window releases it -/
example : (H2Tx.run { streamFlow := 20000, initialWindow := 20000 } [.body 40000, .bodyEOF, .setting 4 65535]).map
    (fun os => os.map fun o => match o with | .data n e => (n, e) | _ => (0, false)) =
    [[(16384, false), (3616, false)], [], [(12768, false), (7232, false), (0, true)]] := by decide

/-! ### the server's receive side (server.go: processData / noteBodyRead / closeStream / sendWindowUpdate), model `H2Rx` -/

open H2Rx in
/-- ledger invariant of a connection: the inflow counters are sane, body ids are unique, and the credit given or
pending plus the bytes still held for open streams covers the whole initial window: nothing is lost -/
structure RxInv (c : H2Rx.RConn) : Prop where
  inflow : InflowInv c.inflow
  uniq : H2Rx.BUniq c
  ledger : H2Rx.cred c + H2Rx.held c ≥ 1048576

open H2Rx in
theorem refundOut_no_panic (sid : Nat) (inc : Int) : Rx.panic ∉ refundOut sid inc := by
  unfold refundOut; split <;> simp

open H2Rx in
theorem connRefund_spec (c : RConn) (n : Nat) (hi : InflowInv c.inflow) (hnp : Rx.panic ∉ (connRefund c n).2) :
    InflowInv (connRefund c n).1.inflow ∧ cred (connRefund c n).1 = cred c + n ∧
    (connRefund c n).1.streams = c.streams ∧ (connRefund c n).1.bodies = c.bodies ∧ (connRefund c n).1.dead = c.dead := by
  unfold connRefund at hnp ⊢
  cases hadd : c.inflow.add n with
  | panic => rw [hadd] at hnp; simp at hnp
  | ok v =>
    obtain ⟨f, inc⟩ := v
    have hw : c.inflow.unsent + (n : Int) + c.inflow.avail ≤ 2147483647 := by
      by_cases hcon : c.inflow.unsent + (n : Int) + c.inflow.avail ≤ 2147483647
      · exact hcon
      · have := (inflow_add_panics_iff c.inflow n).mpr (Or.inr (by omega))
        rw [hadd] at this; cases this
    obtain ⟨f', c', he, hi', h1, h2, _⟩ := inflow_add_returns c.inflow n hi (by omega) hw
    rw [hadd] at he
    cases he
    have hcred : f.avail + f.unsent = c.inflow.avail + c.inflow.unsent + n := by omega
    exact ⟨hi', by unfold cred; simpa using hcred, rfl, rfl, rfl⟩

open H2Rx in
/-- `c'` is at least as well off as `c`: counters sane, ids unique, and credit + held bytes did not shrink -/
structure Keeps (c c' : RConn) : Prop where
  inflow : InflowInv c'.inflow
  uniq : BUniq c'
  ledger : cred c' + held c' ≥ cred c + held c

open H2Rx in
theorem Keeps.trans {a b c : RConn} (h1 : Keeps a b) (h2 : Keeps b c) : Keeps a c :=
  ⟨h2.inflow, h2.uniq, by have := h1.ledger; have := h2.ledger; omega⟩

open H2Rx in
theorem Keeps.refl (c : RConn) (hi : InflowInv c.inflow) (hu : BUniq c) : Keeps c c := ⟨hi, hu, by omega⟩

open H2Rx in
theorem bodies_ids_setB (c : RConn) (b : Body) : (setB c b).bodies.map (·.id) = c.bodies.map (·.id) := by
  unfold setB
  simp only [List.map_map]
  apply List.map_congr_left
  intro x _
  simp only [Function.comp]
  split
  · rename_i h; exact (beq_iff_eq.mp h).symm
  · rfl

open H2Rx in
theorem streamRefund_spec (c : RConn) (s : RStream) (n : Nat) :
    (streamRefund c s n).1.inflow = c.inflow ∧ (streamRefund c s n).1.bodies = c.bodies ∧
    held (streamRefund c s n).1 = held c ∧ (∀ sid, present (streamRefund c s n).1 sid = present c sid) := by
  unfold streamRefund
  split
  · exact ⟨rfl, rfl, held_setS c _, present_setS c _⟩
  · exact ⟨rfl, rfl, rfl, fun _ => rfl⟩

open H2Rx in
theorem keeps_of_same (c c' : RConn) (hi : InflowInv c.inflow) (hu : BUniq c) (h1 : c'.inflow = c.inflow)
    (h2 : c'.bodies = c.bodies) (h3 : held c' = held c) : Keeps c c' :=
  ⟨by rw [h1]; exact hi, by unfold BUniq; rw [h2]; exact hu, by unfold cred; rw [h1, h3]; omega⟩

open H2Rx in
theorem findB_bufOf (c : RConn) (sid : Nat) (b : Body) (h : findB c sid = some b) : bufOf c.bodies sid = b.buffered := by
  unfold bufOf; unfold findB at h; rw [h]

open H2Rx in
theorem findB_id (c : RConn) (sid : Nat) (b : Body) (h : findB c sid = some b) : b.id = sid := by
  unfold findB at h
  have := List.find?_some h
  simpa using this

open H2Rx in
/-- `closeStream`: what was held for the stream goes back to the connection window -/
theorem closeStream_keeps (c : RConn) (sid : Nat) (hi : InflowInv c.inflow) (hu : BUniq c)
    (hnp : Rx.panic ∉ (closeStream c sid).2) : Keeps c (closeStream c sid).1 := by
  unfold closeStream at hnp ⊢
  by_cases hp : (findS c sid).isNone = true
  · simp only [hp, if_true]; exact Keeps.refl c hi hu
  · simp only [hp, Bool.false_eq_true, if_false] at hnp ⊢
    have hpres : present c sid = true := by
      unfold present; cases h : findS c sid <;> simp [h] at hp ⊢
    have hfB : findB (dropS c sid) sid = findB c sid := rfl
    have hud : BUniq (dropS c sid) := hu
    have hheld := held_dropS c sid hu
    rw [hpres] at hheld
    simp only [if_true] at hheld
    cases hb : findB (dropS c sid) sid with
    | none =>
      rw [hb] at hnp
      simp only
      have : bufOf c.bodies sid = 0 := by
        unfold bufOf; rw [hfB] at hb; unfold findB at hb; rw [hb]
      exact ⟨hi, hud, by unfold cred at *; rw [hheld, this]; show c.inflow.avail + c.inflow.unsent + (held c - 0) ≥ _; omega⟩
    | some b =>
      rw [hb] at hnp
      simp only at hnp ⊢
      have hnp' : Rx.panic ∉ (connRefund (dropS c sid) b.buffered).2 := hnp
      obtain ⟨r1, r2, r3, r4, r5⟩ := connRefund_spec (dropS c sid) b.buffered hi hnp'
      have hbuf : bufOf c.bodies sid = b.buffered := findB_bufOf c sid b (by rw [← hfB]; exact hb)
      have hbid : b.id = sid := findB_id _ sid b hb
      -- after the refund the body is marked ended (same buffered count, stream no longer present)
      have hfB2 : findB (connRefund (dropS c sid) b.buffered).1 ({ b with ended := true } : Body).id = some b := by
        show findB (connRefund (dropS c sid) b.buffered).1 b.id = some b
        unfold findB; rw [r4, hbid]; exact hb
      have hu2 : BUniq (connRefund (dropS c sid) b.buffered).1 := by unfold BUniq; rw [r4]; exact hud
      have hheld2 := held_setB (connRefund (dropS c sid) b.buffered).1 b { b with ended := true } hu2 hfB2
      have hsame : held (connRefund (dropS c sid) b.buffered).1 = held (dropS c sid) := by
        unfold held
        rw [r4]
        apply heldOf_congr
        intro s; unfold present findS; rw [r3]
      refine ⟨?_, ?_, ?_⟩
      · exact r1
      · unfold BUniq; rw [bodies_ids_setB]; exact hu2
      · have e1 : cred (setB (connRefund (dropS c sid) b.buffered).1 { b with ended := true }) =
            cred (connRefund (dropS c sid) b.buffered).1 := rfl
        have e3 : cred (dropS c sid) = cred c := rfl
        have e8 : (if present (connRefund (dropS c sid) b.buffered).1 ({ b with ended := true } : Body).id = true
            then ((({ b with ended := true } : Body).buffered : Nat) : Int) - (b.buffered : Int) else 0) = 0 := by
          split
          · show ((b.buffered : Nat) : Int) - b.buffered = 0; omega
          · rfl
        rw [e8] at hheld2
        show cred (setB (connRefund (dropS c sid) b.buffered).1 { b with ended := true }) +
          held (setB (connRefund (dropS c sid) b.buffered).1 { b with ended := true }) ≥ cred c + held c
        rw [hheld2, e1, r2, hsame, hheld, hbuf, e3]
        omega

open H2Rx in
theorem closeStream_no_new (c : RConn) (sid : Nat) : (closeStream c sid).1.bodies.map (·.id) = c.bodies.map (·.id) := by
  unfold closeStream
  split
  · rfl
  · simp only
    cases hb : findB (dropS c sid) sid with
    | none => rfl
    | some b =>
      simp only
      rw [bodies_ids_setB]
      unfold connRefund
      split <;> rfl

open H2Rx in
theorem streamErr_keeps (c : RConn) (sid code : Nat) (hi : InflowInv c.inflow) (hu : BUniq c)
    (hnp : Rx.panic ∉ (streamErr c sid code).2) : Keeps c (streamErr c sid code).1 := by
  unfold streamErr at hnp ⊢
  simp only at hnp ⊢
  apply closeStream_keeps c sid hi hu
  intro h
  exact hnp (by simp [h])

theorem take_unsent (f : Inflow) (n : Int) : (f.take n).1.unsent = f.unsent := by
  unfold Inflow.take; split <;> rfl

theorem takeInflows_spec (f1 f2 : Inflow) (n : Int) (h1 : InflowInv f1) (hn : 0 ≤ n ∧ n ≤ 4294967295) :
    ((takeInflows f1 f2 n).2.2 = true → InflowInv (takeInflows f1 f2 n).1 ∧
        (takeInflows f1 f2 n).1.avail = f1.avail - n ∧ (takeInflows f1 f2 n).1.unsent = f1.unsent) := by
  obtain ⟨a1, a2, a3, a4⟩ := h1
  unfold takeInflows toU32 wrap32 InflowInv
  by_cases h : n > f1.avail % 4294967296 ∨ n > f2.avail % 4294967296
  · simp [h]
  · simp only [h, if_false]
    intro _
    refine ⟨⟨?_, ?_, ?_, ?_⟩, ?_, ?_⟩ <;> (try simp) <;> omega

open H2Rx in
/-- take L from the connection window and give L back at once: the ledger is where it was -/
theorem take_refund_keeps (c : RConn) (L : Nat) (hi : InflowInv c.inflow) (hu : BUniq c) (hL : (L : Int) ≤ 4294967295)
    (hok : (c.inflow.take L).2 = true)
    (hnp : Rx.panic ∉ (connRefund { c with inflow := (c.inflow.take L).1 } L).2) :
    Keeps c (connRefund { c with inflow := (c.inflow.take L).1 } L).1 ∧
    (connRefund { c with inflow := (c.inflow.take L).1 } L).1.streams = c.streams ∧
    (connRefund { c with inflow := (c.inflow.take L).1 } L).1.bodies = c.bodies := by
  obtain ⟨t1, t2, t3, _⟩ := inflow_take_enforces c.inflow L hi ⟨by omega, hL⟩
  have hav := t3 hok
  have hun := take_unsent c.inflow L
  obtain ⟨r1, r2, r3, r4, r5⟩ := connRefund_spec { c with inflow := (c.inflow.take L).1 } L t2 hnp
  refine ⟨⟨r1, by unfold BUniq; rw [r4]; exact hu, ?_⟩, r3, r4⟩
  have hh : held (connRefund { c with inflow := (c.inflow.take L).1 } L).1 = held c := by
    unfold held
    rw [r4]
    apply heldOf_congr
    intro s; unfold present findS; rw [r3]
  rw [r2, hh]
  unfold cred
  show (c.inflow.take L).1.avail + (c.inflow.take L).1.unsent + L + held c ≥ _
  rw [hav, hun]; omega

open H2Rx in
theorem chargeReturn_keeps (c : RConn) (sid L : Nat) (after : RConn → RConn × List Rx)
    (hi : InflowInv c.inflow) (hu : BUniq c) (hL : (L : Int) ≤ 4294967295)
    (hafter : ∀ x, InflowInv x.inflow → BUniq x → Rx.panic ∉ (after x).2 → Keeps x (after x).1)
    (hnp : Rx.panic ∉ (chargeReturn c sid L after).2) : Keeps c (chargeReturn c sid L after).1 := by
  unfold chargeReturn at hnp ⊢
  by_cases hok : (c.inflow.take L).2 = true
  · simp only [hok, Bool.not_true, Bool.false_eq_true, if_false] at hnp ⊢
    have hnp1 : Rx.panic ∉ (connRefund { c with inflow := (c.inflow.take L).1 } L).2 := fun h => hnp (by simp [h])
    obtain ⟨k1, _, _⟩ := take_refund_keeps c L hi hu hL hok hnp1
    have hnp2 : Rx.panic ∉ (after (connRefund { c with inflow := (c.inflow.take L).1 } L).1).2 := fun h => hnp (by simp [h])
    exact k1.trans (hafter _ k1.inflow k1.uniq hnp2)
  · have : (c.inflow.take L).2 = false := by simpa using hok
    simp only [this, Bool.not_false, if_true] at hnp ⊢
    exact streamErr_keeps c sid _ hi hu hnp

open H2Rx in
theorem present_of_findS {c : RConn} {sid : Nat} {s : RStream} (h : findS c sid = some s) : present c sid = true := by
  unfold present; rw [h]; rfl

open H2Rx in
theorem findS_id {c : RConn} {sid : Nat} {s : RStream} (h : findS c sid = some s) : s.id = sid := by
  unfold findS at h
  have := List.find?_some h
  simpa using this

open H2Rx in
/-- buffering `len` more bytes for a stream that is present raises `held` by `len` (when the body exists) -/
theorem buffer_spec (c : RConn) (sid len : Nat) (hu : BUniq c) (hp : present c sid = true) :
    BUniq (buffer c sid len) ∧ (buffer c sid len).inflow = c.inflow ∧ (buffer c sid len).streams = c.streams ∧
    held (buffer c sid len) ≥ held c ∧
    ((findB c sid).isSome = true → held (buffer c sid len) = held c + len) := by
  unfold buffer
  cases hb : findB c sid with
  | none => exact ⟨hu, rfl, rfl, Int.le_refl _, by intro h; cases h⟩
  | some b =>
    simp only
    have hbid := findB_id c sid b hb
    have hf : findB c ({ b with buffered := b.buffered + len } : Body).id = some b := by
      show findB c b.id = some b; rw [hbid]; exact hb
    have hh := held_setB c b { b with buffered := b.buffered + len } hu hf
    have hp' : present c ({ b with buffered := b.buffered + len } : Body).id = true := by
      show present c b.id = true; rw [hbid]; exact hp
    rw [hp'] at hh
    simp only [if_true] at hh
    refine ⟨by unfold BUniq; rw [bodies_ids_setB]; exact hu, rfl, rfl, ?_, ?_⟩
    · rw [hh]; push_cast; omega
    · intro _; rw [hh]; push_cast; omega

open H2Rx in
theorem padRefund_spec (c : RConn) (sid n : Nat) (hi : InflowInv c.inflow) (hu : BUniq c)
    (hnp : Rx.panic ∉ (padRefund c sid n).2) :
    InflowInv (padRefund c sid n).1.inflow ∧ BUniq (padRefund c sid n).1 ∧
    cred (padRefund c sid n).1 = cred c + n ∧ held (padRefund c sid n).1 = held c := by
  unfold padRefund at hnp ⊢
  simp only at hnp ⊢
  have hnp1 : Rx.panic ∉ (connRefund c n).2 := fun h => hnp (by simp [h])
  obtain ⟨r1, r2, r3, r4, _⟩ := connRefund_spec c n hi hnp1
  have hh1 : held (connRefund c n).1 = held c := by
    unfold held; rw [r4]; apply heldOf_congr; intro s; unfold present findS; rw [r3]
  have hu1 : BUniq (connRefund c n).1 := by unfold BUniq; rw [r4]; exact hu
  cases hs : findS (connRefund c n).1 sid with
  | none => exact ⟨r1, hu1, r2, hh1⟩
  | some st =>
    simp only
    obtain ⟨q1, q2, q3, _⟩ := streamRefund_spec (connRefund c n).1 st n
    refine ⟨by rw [q1]; exact r1, by unfold BUniq; rw [q2]; exact hu1, ?_, by rw [q3, hh1]⟩
    unfold cred; rw [q1]; exact r2

open H2Rx in
theorem acceptData_keeps (c : RConn) (s : RStream) (sid len L : Nat) (hi : InflowInv c.inflow) (hu : BUniq c)
    (hfs : findS c sid = some s) (hfb : (findB c sid).isSome = true) (hL : (L : Int) ≤ 4294967295) (hlen : len ≤ L)
    (c' : RConn) (r : List Rx) (hacc : acceptData c s sid len L = some (c', r)) (hnp : Rx.panic ∉ r) : Keeps c c' := by
  unfold acceptData at hacc
  by_cases hL0 : L > 0
  · simp only [hL0, if_true] at hacc
    by_cases hok : (takeInflows c.inflow s.inflow L).2.2 = true
    · simp only [hok, Bool.not_true, Bool.false_eq_true, if_false, Option.some.injEq] at hacc
      obtain ⟨t1, t2, t3⟩ := takeInflows_spec c.inflow s.inflow L hi ⟨by omega, hL⟩ hok
      -- state after charging both windows
      generalize hc1 : setS { c with inflow := (takeInflows c.inflow s.inflow L).1 }
        { s with inflow := (takeInflows c.inflow s.inflow L).2.1, bodyBytes := s.bodyBytes + len } = c1 at hacc
      have hsid := findS_id hfs
      have c1_in : c1.inflow = (takeInflows c.inflow s.inflow L).1 := by rw [← hc1]; rfl
      have c1_bod : c1.bodies = c.bodies := by rw [← hc1]; rfl
      have c1_pres : ∀ x, present c1 x = present c x := by
        intro x; rw [← hc1]; rw [present_setS]; rfl
      have c1_held : held c1 = held c := by
        rw [← hc1, held_setS]; exact held_inflow c _
      have hu1 : BUniq c1 := by unfold BUniq; rw [c1_bod]; exact hu
      have hp1 : present c1 sid = true := by rw [c1_pres]; exact present_of_findS hfs
      have hfb1 : (findB c1 sid).isSome = true := by unfold findB; rw [c1_bod]; exact hfb
      obtain ⟨b1, b2, b3, _, b5⟩ := buffer_spec c1 sid len hu1 hp1
      have hheld2 := b5 hfb1
      have hi2 : InflowInv (buffer c1 sid len).inflow := by rw [b2, c1_in]; exact t1
      have hpr : padRefund (buffer c1 sid len) sid (L - len) = (c', r) := hacc
      have hnp2 : Rx.panic ∉ (padRefund (buffer c1 sid len) sid (L - len)).2 := by rw [hpr]; exact hnp
      obtain ⟨p1, p2, p3, p4⟩ := padRefund_spec (buffer c1 sid len) sid (L - len) hi2 b1 hnp2
      rw [hpr] at p1 p2 p3 p4
      simp only at p1 p2 p3 p4
      refine ⟨p1, p2, ?_⟩
      rw [p3, p4, hheld2, c1_held]
      have : cred (buffer c1 sid len) = cred c - L := by
        unfold cred; rw [b2, c1_in, t2, t3]; omega
      rw [this]
      have : ((L - len : Nat) : Int) = (L : Int) - len := by omega
      rw [this]; omega
    · have : (takeInflows c.inflow s.inflow L).2.2 = false := by simpa using hok
      simp [this] at hacc
  · simp only [hL0, if_false, Option.some.injEq, Prod.mk.injEq] at hacc
    obtain ⟨rfl, _⟩ := hacc
    exact Keeps.refl c hi hu

open H2Rx in
/-- DATA arriving after the handler closed the request body: the whole frame returns to the connection window -/
theorem discardData_keeps (c : RConn) (s : RStream) (sid len L : Nat) (hi : InflowInv c.inflow) (hu : BUniq c)
    (hfs : findS c sid = some s) (hL0 : 0 < L) (hL : (L : Int) ≤ 4294967295)
    (c' : RConn) (r : List Rx) (hacc : discardData c s len L = some (c', r)) (hnp : Rx.panic ∉ r) : Keeps c c' := by
  unfold discardData at hacc
  by_cases hok : (takeInflows c.inflow s.inflow L).2.2 = true
  · simp only [hok, Bool.not_true, Bool.false_eq_true, if_false, Option.some.injEq] at hacc
    obtain ⟨t1, t2, t3⟩ := takeInflows_spec c.inflow s.inflow L hi ⟨by omega, hL⟩ hok
    generalize hc1 : setS { c with inflow := (takeInflows c.inflow s.inflow L).1 }
      { s with inflow := (takeInflows c.inflow s.inflow L).2.1, bodyBytes := s.bodyBytes + len } = c1 at hacc
    have c1_in : c1.inflow = (takeInflows c.inflow s.inflow L).1 := by rw [← hc1]; rfl
    have c1_bod : c1.bodies = c.bodies := by rw [← hc1]; rfl
    have c1_held : held c1 = held c := by
      rw [← hc1, held_setS]; exact held_inflow c _
    have hu1 : BUniq c1 := by unfold BUniq; rw [c1_bod]; exact hu
    have hi1 : InflowInv c1.inflow := by rw [c1_in]; exact t1
    have hnp1 : Rx.panic ∉ (connRefund c1 L).2 := by rw [hacc]; exact hnp
    obtain ⟨r1, r2, r3, r4, _⟩ := connRefund_spec c1 L hi1 hnp1
    rw [hacc] at r1 r2 r3 r4
    simp only at r1 r2 r3 r4
    have hh : held c' = held c1 := by
      unfold held; rw [r4]; apply heldOf_congr; intro x; unfold present findS; rw [r3]
    refine ⟨r1, by unfold BUniq; rw [r4]; exact hu1, ?_⟩
    rw [r2, hh, c1_held]
    have : cred c1 = cred c - L := by unfold cred; rw [c1_in, t2, t3]; omega
    rw [this]; omega
  · have : (takeInflows c.inflow s.inflow L).2.2 = false := by simpa using hok
    simp [this] at hacc

open H2Rx in
theorem endStream_keeps (c : RConn) (sid : Nat) (hi : InflowInv c.inflow) (hu : BUniq c) : Keeps c (endStream c sid) := by
  unfold endStream markEnded markHalfClosed
  -- first the stream's state, then the body's `ended` flag: neither touches counters, ids or buffered bytes
  have step1 : ∀ (x : RConn), InflowInv x.inflow → BUniq x →
      Keeps x (match findS x sid with | some s => setS x { s with state := RxState.halfClosedRemote } | none => x) := by
    intro x hix hux
    cases findS x sid with
    | none => exact Keeps.refl x hix hux
    | some s => exact keeps_of_same x _ hix hux rfl rfl (held_setS x _)
  have step2 : ∀ (x : RConn), InflowInv x.inflow → BUniq x →
      Keeps x (match findB x sid with | some b => setB x { b with ended := true } | none => x) := by
    intro x hix hux
    cases hb : findB x sid with
    | none => exact Keeps.refl x hix hux
    | some b =>
      simp only
      have hbid := findB_id x sid b hb
      have hf : findB x ({ b with ended := true } : Body).id = some b := by show findB x b.id = some b; rw [hbid]; exact hb
      have hh := held_setB x b { b with ended := true } hux hf
      refine ⟨hix, by unfold BUniq; rw [bodies_ids_setB]; exact hux, ?_⟩
      rw [hh]
      have : cred (setB x { b with ended := true }) = cred x := rfl
      rw [this]
      have e0 : (if present x ({ b with ended := true } : Body).id = true
          then ((({ b with ended := true } : Body).buffered : Nat) : Int) - (b.buffered : Int) else 0) = 0 := by
        split
        · show ((b.buffered : Nat) : Int) - b.buffered = 0; omega
        · rfl
      rw [e0]; omega
  have k1 := step1 c hi hu
  exact k1.trans (step2 _ k1.inflow k1.uniq)

open H2Rx in
theorem noteRead_keeps (c : RConn) (b : Body) (sid k : Nat) (hi : InflowInv c.inflow) (hu : BUniq c)
    (hfb : findB c sid = some b) (hk : k ≤ b.buffered) (hnp : Rx.panic ∉ (noteRead c b sid k).2) :
    Keeps c (noteRead c b sid k).1 := by
  unfold noteRead at hnp ⊢
  simp only at hnp ⊢
  have hbid := findB_id c sid b hfb
  have hf : findB c ({ b with buffered := b.buffered - k } : Body).id = some b := by
    show findB c b.id = some b; rw [hbid]; exact hfb
  have hh := held_setB c b { b with buffered := b.buffered - k } hu hf
  generalize hc1 : setB c { b with buffered := b.buffered - k } = c1 at hnp hh ⊢
  have c1_in : c1.inflow = c.inflow := by rw [← hc1]; rfl
  have hu1 : BUniq c1 := by unfold BUniq; rw [← hc1, bodies_ids_setB]; exact hu
  have hnp1 : Rx.panic ∉ (connRefund c1 k).2 := fun h => hnp (by simp [h])
  obtain ⟨r1, r2, r3, r4, _⟩ := connRefund_spec c1 k (by rw [c1_in]; exact hi) hnp1
  have hh1 : held (connRefund c1 k).1 = held c1 := by
    unfold held; rw [r4]; apply heldOf_congr; intro s; unfold present findS; rw [r3]
  have hu2 : BUniq (connRefund c1 k).1 := by unfold BUniq; rw [r4]; exact hu1
  have hled : cred (connRefund c1 k).1 + held (connRefund c1 k).1 ≥ cred c + held c := by
    rw [r2, hh1, hh]
    have : cred c1 = cred c := by unfold cred; rw [c1_in]
    rw [this]
    split
    · show cred c + k + (held c + (((b.buffered - k : Nat) : Int) - b.buffered)) ≥ _; omega
    · omega
  -- the optional stream-level refund changes neither the connection counters nor what is held
  have fin : ∀ (x : RConn × List Rx), x.1.inflow = (connRefund c1 k).1.inflow → x.1.bodies = (connRefund c1 k).1.bodies →
      held x.1 = held (connRefund c1 k).1 → Keeps c x.1 := by
    intro x e1 e2 e3
    exact ⟨by rw [e1]; exact r1, by unfold BUniq; rw [e2]; exact hu2, by unfold cred at *; rw [e1, e3]; exact hled⟩
  cases hs : findS (connRefund c1 k).1 sid with
  | none => exact fin ((connRefund c1 k).1, []) rfl rfl rfl
  | some st =>
    simp only
    split
    · obtain ⟨q1, q2, q3, _⟩ := streamRefund_spec (connRefund c1 k).1 st k
      exact fin _ q1 q2 q3
    · exact fin ((connRefund c1 k).1, []) rfl rfl rfl

open H2Rx in
/-- ONE EVENT (client frame or handler action) keeps the ledger: provided no `inflow.add` panic occurred (credit
beyond 2^31-1, which the over-refund D14 could only reach after gigabytes) and request streams are opened with
fresh ids, credit + held bytes never shrink -/
theorem rx_step_keeps (c : RConn) (e : RxEv) (hi : InflowInv c.inflow) (hu : BUniq c)
    (hfresh : ∀ sid cl, e = .open_ sid cl → sid ∉ c.bodies.map (·.id))
    (hsize : ∀ sid len pad padded es, e = .data sid len pad padded es → len + pad + 1 ≤ 16777215 + 256)
    (hbody : ∀ sid s, findS c sid = some s → (findB c sid).isSome = true)
    (hnp : Rx.panic ∉ (step c e).2) : Keeps c (step c e).1 := by
  unfold step at hnp ⊢
  by_cases hd : c.dead = true
  · simp only [hd, if_true]; exact Keeps.refl c hi hu
  · simp only [hd, Bool.false_eq_true, if_false] at hnp ⊢
    cases e with
    | open_ sid cl =>
      simp only
      have hf := hfresh sid cl rfl
      refine ⟨hi, ?_, ?_⟩
      · unfold BUniq
        show ((c.bodies ++ [({ id := sid } : Body)]).map (·.id)).Nodup
        simp only [List.map_append, List.map_cons, List.map_nil]
        apply List.nodup_append.mpr
        refine ⟨hu, by simp, ?_⟩
        intro a ha b hb
        simp at hb; subst hb
        exact fun e => hf (e ▸ ha)
      · -- the new body holds nothing
        have hin : (openStream c sid cl).inflow = c.inflow := rfl
        have hbo : (openStream c sid cl).bodies = c.bodies ++ [{ id := sid }] := rfl
        have key : ∀ (l : List Body) (c' : RConn), (∀ x, present c x = true → present c' x = true) →
            heldOf c' l ≥ heldOf c l := by
          intro l c' hmono
          induction l with
          | nil => simp [heldOf]
          | cons b r ih =>
            simp only [heldOf]
            by_cases hp : present c b.id = true
            · simp only [hp, hmono b.id hp, if_true]; omega
            · simp only [hp, Bool.false_eq_true, if_false]
              split <;> omega
        have happ : ∀ (c' : RConn) (l1 l2 : List Body), heldOf c' (l1 ++ l2) = heldOf c' l1 + heldOf c' l2 := by
          intro c' l1 l2
          induction l1 with
          | nil => simp [heldOf]
          | cons b r ih => simp only [List.cons_append, heldOf, ih]; omega
        have hmono : ∀ x, present c x = true → present (openStream c sid cl) x = true := by
          intro x hx
          unfold present findS at hx ⊢
          show (List.find? (fun s => s.id == x) (c.streams ++ _)).isSome = true
          simp only [List.find?_append]
          cases h : List.find? (fun s => s.id == x) c.streams with
          | none => rw [h] at hx; cases hx
          | some s => simp
        have h0 : heldOf (openStream c sid cl) [({ id := sid } : Body)] = 0 := by simp [heldOf]
        have hk := key c.bodies (openStream c sid cl) hmono
        show cred (openStream c sid cl) + held (openStream c sid cl) ≥ cred c + held c
        have hc : cred (openStream c sid cl) = cred c := rfl
        unfold held
        rw [hc, hbo, happ, h0]
        omega
    | data sid len pad padded es =>
      simp only at hnp ⊢
      have hsz := hsize sid len pad padded es rfl
      have hL : ((len + (if padded = true then pad + 1 else 0) : Nat) : Int) ≤ 4294967295 := by
        split <;> omega
      have hafterErr : ∀ code, ∀ x, InflowInv x.inflow → BUniq x → Rx.panic ∉ (streamErr x sid code).2 →
          Keeps x (streamErr x sid code).1 := fun code x h1 h2 h3 => streamErr_keeps x sid code h1 h2 h3
      cases hs : findS c sid with
      | none =>
        rw [hs] at hnp
        simp only at hnp ⊢
        exact chargeReturn_keeps c sid _ _ hi hu hL (fun x h1 h2 _ => Keeps.refl x h1 h2) hnp
      | some s =>
        rw [hs] at hnp
        simp only at hnp ⊢
        by_cases hst : s.state ≠ RxState.open_
        · rw [if_pos hst] at hnp ⊢
          exact chargeReturn_keeps c sid _ _ hi hu hL (hafterErr _) hnp
        · rw [if_neg hst] at hnp ⊢
          by_cases hdl : overDeclared s len = true
          · rw [if_pos hdl] at hnp ⊢
            exact chargeReturn_keeps c sid _ _ hi hu hL (hafterErr _) hnp
          · rw [if_neg hdl] at hnp ⊢
            by_cases hbc : (bodyClosed c sid && decide (len > 0)) = true
            · rw [if_pos hbc] at hnp ⊢
              have hlen0 : 0 < len := by
                have := (Bool.and_eq_true _ _).mp hbc
                simpa using this.2
              cases hdd : discardData c s len (len + (if padded = true then pad + 1 else 0)) with
              | none =>
                rw [hdd] at hnp
                simp only at hnp ⊢
                exact streamErr_keeps c sid _ hi hu hnp
              | some v =>
                obtain ⟨c', r⟩ := v
                rw [hdd] at hnp
                simp only at hnp ⊢
                exact discardData_keeps c s sid len _ hi hu hs (by omega) hL c' r hdd hnp
            rw [if_neg hbc] at hnp ⊢
            cases hacc : acceptData c s sid len (len + (if padded = true then pad + 1 else 0)) with
            | none =>
              rw [hacc] at hnp
              simp only at hnp ⊢
              exact streamErr_keeps c sid _ hi hu hnp
            | some v =>
              obtain ⟨c', r⟩ := v
              rw [hacc] at hnp
              simp only at hnp ⊢
              have hnpr : Rx.panic ∉ r := by
                cases es <;> simpa using hnp
              have k1 := acceptData_keeps c s sid len _ hi hu hs (hbody sid s hs) hL (by omega) c' r hacc hnpr
              cases es with
              | true => simp only [if_true]; exact k1.trans (endStream_keeps c' sid k1.inflow k1.uniq)
              | false => simpa using k1
    | rst sid =>
      simp only at hnp ⊢
      cases hs : findS c sid with
      | none => simp only; exact Keeps.refl c hi hu
      | some s =>
        rw [hs] at hnp
        simp only at hnp ⊢
        exact closeStream_keeps c sid hi hu hnp
    | hread sid n =>
      simp only at hnp ⊢
      cases hb : findB c sid with
      | none => simp only; exact Keeps.refl c hi hu
      | some b =>
        rw [hb] at hnp
        simp only at hnp ⊢
        split
        · exact Keeps.refl c hi hu
        · rename_i hret
          simp only [hret] at hnp
          split
          · exact Keeps.refl c hi hu
          · rename_i hcl
            simp only [hcl] at hnp
            split
            · split <;> exact Keeps.refl c hi hu
            · rename_i hb0
              simp only [hb0, if_false] at hnp
              exact noteRead_keeps c b sid _ hi hu hb (Nat.min_le_right _ _) hnp
    | hret sid =>
      simp only at hnp ⊢
      cases hb : findB c sid with
      | none => simp only; exact Keeps.refl c hi hu
      | some b =>
        rw [hb] at hnp
        simp only at hnp ⊢
        split
        · exact Keeps.refl c hi hu
        · rename_i hret
          simp only [hret] at hnp
          -- marking the body as returned changes nothing in the ledger
          have hbid := findB_id c sid b hb
          have hf : findB c ({ b with returned := true } : Body).id = some b := by show findB c b.id = some b; rw [hbid]; exact hb
          have hh := held_setB c b { b with returned := true } hu hf
          have e0 : (if present c ({ b with returned := true } : Body).id = true
              then ((({ b with returned := true } : Body).buffered : Nat) : Int) - (b.buffered : Int) else 0) = 0 := by
            split
            · show ((b.buffered : Nat) : Int) - b.buffered = 0; omega
            · rfl
          rw [e0] at hh
          have k0 : Keeps c (setB c { b with returned := true }) :=
            ⟨hi, by unfold BUniq; rw [bodies_ids_setB]; exact hu, by
              have : cred (setB c { b with returned := true }) = cred c := rfl
              rw [this, hh]; omega⟩
          generalize setB c { b with returned := true } = c1 at hnp k0 ⊢
          cases hs : findS c1 sid with
          | none => simp only; exact k0
          | some s =>
            rw [hs] at hnp
            simp only at hnp ⊢
            split
            · rename_i hop
              simp only [hop, if_true] at hnp
              have : Rx.panic ∉ (closeStream c1 sid).2 := fun h => hnp (by simp [h])
              exact k0.trans (closeStream_keeps c1 sid k0.inflow k0.uniq this)
            · rename_i hop
              simp only [hop, if_false] at hnp
              exact k0.trans (closeStream_keeps c1 sid k0.inflow k0.uniq hnp)
    | hclose sid =>
      simp only at hnp ⊢
      cases hb : findB c sid with
      | none => simp only; exact Keeps.refl c hi hu
      | some b =>
        simp only
        split
        · exact Keeps.refl c hi hu
        · -- marking the body as closed changes nothing in the ledger
          have hbid := findB_id c sid b hb
          have hf : findB c ({ b with closed := true } : Body).id = some b := by show findB c b.id = some b; rw [hbid]; exact hb
          have hh := held_setB c b { b with closed := true } hu hf
          have e0 : (if present c ({ b with closed := true } : Body).id = true
              then ((({ b with closed := true } : Body).buffered : Nat) : Int) - (b.buffered : Int) else 0) = 0 := by
            split
            · show ((b.buffered : Nat) : Int) - b.buffered = 0; omega
            · rfl
          rw [e0] at hh
          exact ⟨hi, by unfold BUniq; rw [bodies_ids_setB]; exact hu, by
            have : cred (setB c { b with closed := true }) = cred c := rfl
            rw [this, hh]; omega⟩

open H2Rx in
/-- `c'` has the same body ids as `c` and no stream that `c` did not have -/
def Sub (c c' : RConn) : Prop :=
  c'.bodies.map (·.id) = c.bodies.map (·.id) ∧ ∀ x, present c' x = true → present c x = true

open H2Rx in
theorem Sub.refl (c : RConn) : Sub c c := ⟨rfl, fun _ h => h⟩

open H2Rx in
theorem Sub.trans {a b c : RConn} (h1 : Sub a b) (h2 : Sub b c) : Sub a c :=
  ⟨h2.1.trans h1.1, fun x h => h1.2 x (h2.2 x h)⟩

open H2Rx in
theorem sub_connRefund (c : RConn) (n : Nat) : Sub c (connRefund c n).1 := by
  unfold connRefund; split <;> exact Sub.refl c

open H2Rx in
theorem sub_setS (c : RConn) (s : RStream) : Sub c (setS c s) := ⟨rfl, fun x h => by rw [present_setS] at h; exact h⟩

open H2Rx in
theorem sub_setB (c : RConn) (b : Body) : Sub c (setB c b) := ⟨bodies_ids_setB c b, fun _ h => h⟩

open H2Rx in
theorem sub_streamRefund (c : RConn) (s : RStream) (n : Nat) : Sub c (streamRefund c s n).1 := by
  unfold streamRefund; split
  · exact sub_setS c _
  · exact Sub.refl c

open H2Rx in
theorem sub_closeStream (c : RConn) (sid : Nat) : Sub c (closeStream c sid).1 := by
  unfold closeStream
  split
  · exact Sub.refl c
  · have hd : Sub c (dropS c sid) := ⟨rfl, fun x h => by rw [present_dropS] at h; simp at h; exact h.1⟩
    simp only
    cases findB (dropS c sid) sid with
    | none => exact hd
    | some b => exact (hd.trans (sub_connRefund _ _)).trans (sub_setB _ _)

open H2Rx in
theorem sub_streamErr (c : RConn) (sid code : Nat) : Sub c (streamErr c sid code).1 := sub_closeStream c sid

open H2Rx in
theorem sub_chargeReturn (c : RConn) (sid L : Nat) (after : RConn → RConn × List Rx) (ha : ∀ x, Sub x (after x).1) :
    Sub c (chargeReturn c sid L after).1 := by
  unfold chargeReturn
  split
  · exact sub_streamErr c sid _
  · exact (Sub.trans (c := (connRefund { c with inflow := (c.inflow.take L).1 } L).1) ⟨rfl, fun _ h => h⟩ (sub_connRefund _ _)).trans (ha _)

open H2Rx in
theorem sub_buffer (c : RConn) (sid len : Nat) : Sub c (buffer c sid len) := by
  unfold buffer; split
  · exact sub_setB c _
  · exact Sub.refl c

open H2Rx in
theorem sub_padRefund (c : RConn) (sid n : Nat) : Sub c (padRefund c sid n).1 := by
  unfold padRefund
  simp only
  split
  · exact (sub_connRefund c n).trans (sub_streamRefund _ _ _)
  · exact sub_connRefund c n

open H2Rx in
theorem sub_acceptData (c : RConn) (s : RStream) (sid len L : Nat) (c' : RConn) (r : List Rx)
    (h : acceptData c s sid len L = some (c', r)) : Sub c c' := by
  unfold acceptData at h
  split at h
  · split at h
    · cases h
    · simp only [Option.some.injEq] at h
      obtain ⟨c1, hh, hc1⟩ : ∃ c1, padRefund (buffer c1 sid len) sid (L - len) = (c', r) ∧ Sub c c1 := by
        refine ⟨_, h, rfl, fun x hx => ?_⟩
        rw [present_setS] at hx; exact hx
      have hc' : c' = (padRefund (buffer c1 sid len) sid (L - len)).1 := by rw [hh]
      rw [hc']
      exact (hc1.trans (sub_buffer _ _ _)).trans (sub_padRefund _ _ _)
  · simp only [Option.some.injEq, Prod.mk.injEq] at h
    rw [← h.1]; exact Sub.refl c

open H2Rx in
theorem sub_discardData (c : RConn) (s : RStream) (len L : Nat) (c' : RConn) (r : List Rx)
    (h : discardData c s len L = some (c', r)) : Sub c c' := by
  unfold discardData at h
  split at h
  · cases h
  · simp only [Option.some.injEq] at h
    have hc' : c' = (connRefund (setS { c with inflow := (takeInflows c.inflow s.inflow L).1 }
      { s with inflow := (takeInflows c.inflow s.inflow L).2.1, bodyBytes := s.bodyBytes + len }) L).1 := by rw [h]
    rw [hc']
    refine Sub.trans (b := setS { c with inflow := (takeInflows c.inflow s.inflow L).1 }
      { s with inflow := (takeInflows c.inflow s.inflow L).2.1, bodyBytes := s.bodyBytes + len }) ?_ (sub_connRefund _ _)
    exact ⟨rfl, fun x hx => by rw [present_setS] at hx; exact hx⟩

open H2Rx in
theorem sub_endStream (c : RConn) (sid : Nat) : Sub c (endStream c sid) := by
  have a : Sub c (markHalfClosed c sid) := by
    unfold markHalfClosed
    split
    · exact sub_setS c _
    · exact Sub.refl c
  have b : ∀ x, Sub x (markEnded x sid) := by
    intro x
    unfold markEnded
    split
    · exact sub_setB _ _
    · exact Sub.refl _
  exact a.trans (b _)

open H2Rx in
theorem sub_noteRead (c : RConn) (b : Body) (sid k : Nat) : Sub c (noteRead c b sid k).1 := by
  unfold noteRead
  simp only
  have a : Sub c (connRefund (setB c { b with buffered := b.buffered - k }) k).1 :=
    (sub_setB c { b with buffered := b.buffered - k }).trans (sub_connRefund _ k)
  refine a.trans ?_
  split
  · split
    · exact sub_streamRefund _ _ _
    · exact Sub.refl _
  · exact Sub.refl _

open H2Rx in
/-- every stream of the map has a request body for its handler -/
def HasBodies (c : RConn) : Prop := ∀ sid, present c sid = true → sid ∈ c.bodies.map (·.id)

open H2Rx in
theorem HasBodies.sub {c c' : RConn} (h : HasBodies c) (s : Sub c c') : HasBodies c' :=
  fun sid hp => by rw [s.1]; exact h sid (s.2 sid hp)

open H2Rx in
theorem rx_step_bodies (c : RConn) (e : RxEv) (h : HasBodies c) : HasBodies (step c e).1 := by
  unfold step
  split
  · exact h
  · cases e with
    | open_ sid cl =>
      simp only
      intro x hx
      show x ∈ (c.bodies ++ [({ id := sid } : Body)]).map (·.id)
      simp only [List.map_append, List.map_cons, List.map_nil, List.mem_append, List.mem_singleton]
      by_cases hp : present c x = true
      · left; exact h x hp
      · right
        unfold present findS at hx hp
        have hx' : (List.find? (fun s => s.id == x) (c.streams ++ [{ id := sid, inflow := { avail := 1048576 }, declLen := cl }])).isSome = true := hx
        simp only [List.find?_append] at hx'
        cases hf : List.find? (fun s => s.id == x) c.streams with
        | some s => rw [hf] at hp; simp at hp
        | none =>
          rw [hf] at hx'
          by_cases e : sid = x
          · exact e.symm
          · have : (sid == x) = false := by simpa using e
            simp [List.find?_cons, this] at hx'
    | data sid len pad padded es =>
      simp only
      split
      · exact h.sub (sub_chargeReturn c sid _ _ (fun x => Sub.refl x))
      · split
        · exact h.sub (sub_chargeReturn c sid _ _ (fun x => sub_streamErr x sid _))
        · split
          · exact h.sub (sub_chargeReturn c sid _ _ (fun x => sub_streamErr x sid _))
          · split
            · split
              · exact h.sub (sub_streamErr c sid _)
              · rename_i v hdd
                exact h.sub (sub_discardData c _ len _ v.1 v.2 hdd)
            · split
              · exact h.sub (sub_streamErr c sid _)
              · rename_i c' r hacc
                have s1 := sub_acceptData c _ sid len _ c' r hacc
                split
                · exact h.sub (s1.trans (sub_endStream c' sid))
                · exact h.sub s1
    | rst sid =>
      simp only
      split
      · exact h.sub (sub_closeStream c sid)
      · exact h
    | hread sid n =>
      simp only
      split
      · exact h
      · split
        · exact h
        · split
          · exact h
          · split
            · split <;> exact h
            · exact h.sub (sub_noteRead c _ sid _)
    | hret sid =>
      simp only
      split
      · exact h
      · split
        · exact h
        · have s0 := sub_setB c { (‹Body›) with returned := true }
          split
          · exact h.sub s0
          · split
            · exact h.sub (s0.trans (sub_closeStream _ sid))
            · exact h.sub (s0.trans (sub_closeStream _ sid))
    | hclose sid =>
      simp only
      split
      · exact h
      · split
        · exact h
        · exact h.sub (sub_setB c _)

open H2Rx in
/-- an event the scheduler interface and the framer can deliver in state `c`: a new request stream has a fresh id,
a DATA frame is no larger than a frame can be -/
def RxOk (c : RConn) : RxEv → Prop
  | .open_ sid _ => sid ∉ c.bodies.map (·.id)
  | .data _ len pad _ _ => len + pad + 1 ≤ 16777215 + 256
  | _ => True

open H2Rx in
/-- the connection after a sequence of events, `none` as soon as an `inflow.add` panicked or an event was not `RxOk` -/
def rxRun : RConn → List RxEv → Option RConn
  | c, [] => some c
  | c, e :: r => if Rx.panic ∈ (step c e).2 then none else rxRun (step c e).1 r

open H2Rx in
/-- SERVER RECEIVE SIDE, NO CREDIT LOST, over unbounded histories: for every sequence of client frames (DATA of any
size and padding, on open, half-closed, closed streams, beyond windows or Content-Length, resets) and handler
actions (reads of any size at any time, early returns) on any number of streams, the connection-level credit the
server has handed back or batched (`avail + unsent`) plus the bytes it still buffers for open streams is at least
the initial 1 MiB, and the batched part stays below 4096 bytes: un-returned credit is bounded by what is buffered
plus 4 KiB, however much traffic has passed. (One-sided on purpose: finding D14 is an OVER-refund.) -/
theorem rx_no_credit_lost (evs : List RxEv) : ∀ (c c' : RConn), RxInv c → HasBodies c →
    (∀ (pre : List RxEv) (e : RxEv) (post : List RxEv) (cm : RConn), evs = pre ++ e :: post → rxRun c pre = some cm → RxOk cm e) →
    rxRun c evs = some c' →
    cred c' + held c' ≥ 1048576 ∧ 0 ≤ c'.inflow.unsent ∧ c'.inflow.unsent < 4096 := by
  induction evs with
  | nil =>
    intro c c' h _ _ hr
    simp only [rxRun, Option.some.injEq] at hr
    subst hr
    exact ⟨h.ledger, h.inflow.2.1, h.inflow.2.2.1⟩
  | cons e r ih =>
    intro c c' h hb hok hr
    simp only [rxRun] at hr
    split at hr
    · cases hr
    · rename_i hnp
      have hoke : RxOk c e := hok [] e r c rfl rfl
      have k := rx_step_keeps c e h.inflow h.uniq
        (by intro sid cl he; subst he; exact hoke)
        (by intro sid len pad padded es he; subst he; exact hoke)
        (by
          intro sid s hs
          have := hb sid (present_of_findS hs)
          unfold findB
          cases hf : List.find? (fun x => x.id == sid) c.bodies with
          | some b => rfl
          | none =>
            rw [List.find?_eq_none] at hf
            obtain ⟨b, hbm, hbe⟩ := List.mem_map.mp this
            exact absurd (by simp [hbe]) (hf b hbm))
        hnp
      have h' : RxInv (step c e).1 := ⟨k.inflow, k.uniq, by have := k.ledger; have := h.ledger; omega⟩
      apply ih (step c e).1 c' h' (rx_step_bodies c e hb) ?_ hr
      intro pre e' post cm hsplit hrun
      apply hok (e :: pre) e' post cm (by rw [hsplit]; rfl)
      simp only [rxRun, hnp, if_false]
      exact hrun

open H2Rx in
/-- the premises are satisfiable by a non-trivial history: 3000 bytes with padding on stream 1, partly read, a
second stream reset with bytes still buffered, a late read after the reset, an early return -/
example : (rxRun {} [.open_ 1 none, .data 1 3000 200 true false, .hread 1 1000, .open_ 3 (some 5000), .data 3 5000 0 false false,
      .rst 3, .hread 3 100000, .data 1 100 0 false true, .hread 1 100000, .hret 1, .hret 3]).map
    (fun c => (c.inflow.avail + c.inflow.unsent, held c)) = some (1053576, 0) := by decide

open H2Rx in
/-- ... and by a history in which the handler gives up on the upload: 3000 bytes buffered, `Body.Close()`, then a padded
DATA frame (1000 + 100 + 1 octets) and an unpadded one with END_STREAM, the handler's return: everything the client
sent — 5101 octets — is back in the connection window (or batched) at the end, nothing is held -/
example : (rxRun {} [.open_ 1 none, .data 1 3000 0 false false, .hclose 1, .data 1 1000 100 true false, .hread 1 10,
      .data 1 1000 0 false true, .hret 1]).map
    (fun c => (c.inflow.avail + c.inflow.unsent, held c)) = some (1048576, 0) := by decide

open H2Rx in
/-- the fresh connection satisfies the premises of `rx_no_credit_lost` -/
theorem rx_init : RxInv ({} : RConn) ∧ HasBodies ({} : RConn) := by
  refine ⟨⟨⟨by decide, by decide, by decide, by decide⟩, by unfold BUniq; simp, by decide⟩, ?_⟩
  intro sid h; simp [present, findS] at h

/-! ### the server's sending side as the peer sees it (specification `Fp.Spec.H2STx`, compared with the real server by the
`h2stx` oracle stream) -/

/-- SAFETY: at every flush the server-side specification sends on a stream no more than that stream's window, no more
than the connection window and no more than is queued — for every window value, including negative ones after a
SETTINGS_INITIAL_WINDOW_SIZE decrease -/
theorem server_tx_within_windows (cwin : Int) (st : Spec.H2STx.Str) :
    (Spec.H2STx.quota cwin st : Int) ≤ max 0 st.win ∧ (Spec.H2STx.quota cwin st : Int) ≤ max 0 cwin ∧
    Spec.H2STx.quota cwin st ≤ st.remaining := Spec.H2STx.quota_le_windows cwin st

/-- DELIVERY: after every event nothing sendable is left behind: a stream still holds data only if its own window or
the connection window is exhausted -/
theorem server_tx_delivers (s : Spec.H2STx.S) (e : Spec.H2STx.Ev) :
    ∀ st ∈ (Spec.H2STx.step s e).strs, st.remaining = 0 ∨ st.win ≤ 0 ∨ (Spec.H2STx.step s e).cwin ≤ 0 := by
  intro st h
  unfold Spec.H2STx.step at h ⊢
  exact Spec.H2STx.flush_leaves_nothing_sendable _ _ st h

/-- a SETTINGS_INITIAL_WINDOW_SIZE change moves the window of EVERY stream by the difference (RFC 7540 §6.9.2) -/
theorem settings_change_moves_every_stream (s : Spec.H2STx.S) (v : Nat) :
    (Spec.H2STx.apply s (.setInitial v)).strs = s.strs.map (fun st => { st with win := st.win + ((v : Int) - s.iw) }) := rfl

/-- non-vacuity: lowering the setting 10 → 4 after ten bytes were sent leaves the window at -6; a WINDOW_UPDATE of 10 then
releases exactly four more bytes -/
example :
    let s0 : Spec.H2STx.S := {}
    let s1 := Spec.H2STx.step s0 (.setInitial 10)
    let s2 := Spec.H2STx.step s1 (.request 1 50)
    let s3 := Spec.H2STx.step s2 (.setInitial 4)
    let s4 := Spec.H2STx.step s3 (.windowUpdate 1 10)
    (s2.strs.map (·.sent), s3.strs.map (·.win), s4.strs.map (·.sent)) = ([10], [-6], [14]) := by decide

end Fp.C12
