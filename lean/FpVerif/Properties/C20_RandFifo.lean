/-
C20 (continued) — random and round-robin schedulers: Push keeps per-stream order (appends at the end of the stream's queue).
-/
import FpVerif.Properties.C20_Random
set_option linter.unusedSimpArgs false
set_option linter.unusedVariables false
namespace Fp.C20
open Fp Fp.Sched

theorem find_setQ (l : List (Nat × List Req)) (sid : Nat) (q q' : List Req)
    (h : (l.find? (fun e => e.1 == sid)).map (·.2) = some q) :
    ((l.map fun e => if e.1 == sid then (sid, q') else e).find? (fun e => e.1 == sid)).map (·.2) = some q' := by
  induction l with
  | nil => simp at h
  | cons e r ih =>
    simp only [List.map_cons, List.find?_cons] at h ⊢
    by_cases he : e.1 = sid
    · simp [he]
    · have hb : (e.1 == sid) = false := by simp [he]
      simp only [hb, Bool.false_eq_true, if_false] at h ⊢
      exact ih h

theorem queueOf_setQueue_self (s : St) (sid : Nat) (q q' : List Req) (h : queueOf s sid = some q) :
    queueOf (setQueue s sid q') sid = some q' := by
  unfold queueOf setQueue at *
  exact find_setQ s.queues sid q q' h

/-- PUSH KEEPS PER-STREAM ORDER (random scheduler): a frame for stream `sid` goes to the END of that stream's queue (a new
queue if there was none); together with `fifo_random` (Pop takes from the FRONT): frames of one stream leave in the order
they were pushed -/
theorem push_fifo_random (s : St) (r : Req) (sid : Nat) (hs : r.sid = some sid) :
    queueOf (pushRand s r).1 sid = some ((queueOf s sid).getD [] ++ [r]) := by
  unfold pushRand
  simp only [hs]
  cases hq : queueOf s sid with
  | some q => simp only [Option.getD_some]; exact queueOf_setQueue_self s sid q _ hq
  | none =>
    simp only [Option.getD_none, List.nil_append]
    have hnot := queueOf_none_notin hq
    unfold queueOf
    simp only
    rw [List.find?_append]
    have : List.find? (fun e => e.1 == sid) s.queues = none := by
      rw [List.find?_eq_none]
      intro e he hh
      apply hnot
      simp at hh
      exact List.mem_map.mpr ⟨e, he, hh⟩
    simp [this]

/-- PUSH KEEPS PER-STREAM ORDER (round robin): a frame for an open stream goes to the END of that stream's queue; Pop
consumes from the FRONT (`popRR_stream`, `consume_spec`): frames of one stream leave in the order they were pushed -/
theorem push_fifo_rr (s : St) (r : Req) (sid : Nat) (q : List Req) (hs : r.sid = some sid) (hq : queueOf s sid = some q) :
    (pushRR s r).2 = .none_ ∧ queueOf (pushRR s r).1 sid = some (q ++ [r]) := by
  unfold pushRR
  simp only [hs, hq]
  exact ⟨trivial, queueOf_setQueue_self s sid q _ hq⟩

end Fp.C20
