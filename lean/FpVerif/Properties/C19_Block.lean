/-
C19 (continued) — a HEADER BLOCK over HEADERS + CONTINUATION frames, and what the HPACK decoder makes of it.
However an encoded header block is cut into a HEADERS frame and any number of CONTINUATION frames (within the peer's
frame-size limit; END_HEADERS on the last one, as `writeHeaders` of the server and the transport do), the frame reader —
with its `lastHeaderStream` discipline — returns exactly those fragments in order, ends with no header block open, and
leaves the rest of the connection's bytes untouched (`header_block_over_frames`). Feeding the fragments to the HPACK
decoder one after the other, as `readMetaFrame` does, then yields exactly what decoding the whole block at once yields
(`header_block_fields`, by C18 `fragment_independence`): fields, order, error or none, decoder state.
Model: FpVerif/Model/Frame.lean, FpVerif/Model/Hpack.lean.
-/
import FpVerif.Properties.C19_More
import FpVerif.Properties.C18_Fragments
set_option linter.unusedSimpArgs false
set_option linter.unusedVariables false
namespace Fp.C19
open Fp Fp.Frame

/-- CONTINUATION frames for the fragments after the first (END_HEADERS on the last) -/
def writeConts (sid : Nat) : List Bytes → Except WErr Bytes
  | [] => .ok []
  | [c] => writeContinuation sid true c
  | c :: c2 :: r =>
    match writeContinuation sid false c with
    | .error e => .error e
    | .ok w =>
      match writeConts sid (c2 :: r) with
      | .error e => .error e
      | .ok rest => .ok (w ++ rest)

/-- a header block sent as HEADERS (first fragment) + CONTINUATION frames (the others) -/
def writeBlock (sid : Nat) (endStream : Bool) : List Bytes → Except WErr Bytes
  | [] => .ok []
  | [c] => writeHeaders sid c endStream true 0 noPrio
  | c :: c2 :: r =>
    match writeHeaders sid c endStream false 0 noPrio with
    | .error e => .error e
    | .ok w =>
      match writeConts sid (c2 :: r) with
      | .error e => .error e
      | .ok rest => .ok (w ++ rest)

/-- the reader inside a header block of stream `sid`: CONTINUATION frames until END_HEADERS; the fragments, the reader's
`lastHeaderStream` afterwards, the unread rest -/
def readConts (max sid : Nat) : Nat → Bytes → Option (List Bytes × Nat × Bytes)
  | 0, _ => none
  | fuel + 1, inp =>
    match readFrame max sid inp with
    | (.ok (.continuation s fl frag), hs, rest) =>
      if hasFlag fl 4 then some ([frag], hs, rest)
      else (readConts max sid fuel rest).map fun (fs, hs', r) => (frag :: fs, hs', r)
    | _ => none

/-- the reader at a frame boundary outside any header block: a HEADERS frame and its CONTINUATION frames -/
def readBlock (max : Nat) (fuel : Nat) (inp : Bytes) : Option (Nat × Nat × List Bytes × Nat × Bytes) :=
  match readFrame max 0 inp with
  | (.ok (.headers s fl _ frag), hs, rest) =>
    if hasFlag fl 4 then some (s, fl, [frag], hs, rest)
    else (readConts max s fuel rest).map fun (fs, hs', r) => (s, fl, frag :: fs, hs', r)
  | _ => none

theorem conts_over_frames (sid max : Nat) (hsid : 0 < sid ∧ sid < 2147483648) :
    ∀ (frags : List Bytes) (rest : Bytes), frags ≠ [] → (∀ c ∈ frags, c.length ≤ max ∧ c.length < 16777216) →
      ∃ w, writeConts sid frags = .ok w ∧ readConts max sid frags.length (w ++ rest) = some (frags, 0, rest) := by
  intro frags
  induction frags with
  | nil => intro _ h; exact absurd rfl h
  | cons c r ih =>
    intro rest _ hall
    have hc := hall c (List.mem_cons_self ..)
    cases r with
    | nil =>
      obtain ⟨w, hw, hr⟩ := continuation_roundtrip sid true c rest max hsid hc.1 hc.2
      refine ⟨w, by simpa [writeConts] using hw, ?_⟩
      simp only [List.length_cons, List.length_nil, readConts, hr]
      simp [hasFlag]
    | cons c2 r2 =>
      obtain ⟨w2, hw2, hr2⟩ := ih rest (by simp) (fun x hx => hall x (List.mem_cons_of_mem _ hx))
      obtain ⟨w, hw, hr⟩ := continuation_roundtrip sid false c (w2 ++ rest) max hsid hc.1 hc.2
      refine ⟨w ++ w2, by simp [writeConts, hw, hw2], ?_⟩
      rw [List.append_assoc]
      simp only [List.length_cons] at hr2 ⊢
      rw [readConts, hr]
      simp [hasFlag, hr2]

/-- HEADER BLOCK OVER FRAMES. For every stream id, END_STREAM flag, every cutting of a block into one or more fragments
within the limits, and whatever follows on the connection: the frames are written without error; the reader returns the
HEADERS frame of that stream with END_STREAM as sent, then exactly the CONTINUATION fragments in order; END_HEADERS is on
the last frame only; afterwards no header block is open (`lastHeaderStream = 0`) and the rest is untouched. -/
theorem header_block_over_frames (sid max : Nat) (endStream : Bool) (hsid : 0 < sid ∧ sid < 2147483648)
    (frags : List Bytes) (rest : Bytes) (hne : frags ≠ []) (hall : ∀ c ∈ frags, c.length ≤ max ∧ c.length < 16777216) :
    ∃ w fl, writeBlock sid endStream frags = .ok w ∧
      readBlock max (frags.length - 1) (w ++ rest) = some (sid, fl, frags, 0, rest) ∧
      hasFlag fl 1 = endStream := by
  cases frags with
  | nil => exact absurd rfl hne
  | cons c r =>
    have hc := hall c (List.mem_cons_self ..)
    cases r with
    | nil =>
      obtain ⟨w, hw, hr⟩ := headers_roundtrip sid endStream true c rest max hsid hc.1 hc.2
      refine ⟨w, (if endStream then 1 else 0) + 4, by simpa [writeBlock] using hw, ?_, ?_⟩
      · simp only [readBlock, hr]
        cases endStream <;> simp [hasFlag]
      · cases endStream <;> simp [hasFlag]
    | cons c2 r2 =>
      obtain ⟨w2, hw2, hr2⟩ := conts_over_frames sid max hsid (c2 :: r2) rest (by simp)
        (fun x hx => hall x (List.mem_cons_of_mem _ hx))
      obtain ⟨w, hw, hr⟩ := headers_roundtrip sid endStream false c (w2 ++ rest) max hsid hc.1 hc.2
      refine ⟨w ++ w2, (if endStream then 1 else 0) + 0, by simp [writeBlock, hw, hw2], ?_, ?_⟩
      · rw [List.append_assoc]
        simp only [readBlock, hr]
        simp only [List.length_cons, Nat.add_sub_cancel] at hr2 ⊢
        cases endStream <;> simp [hasFlag, hr2]
      · cases endStream <;> simp [hasFlag]

/-- WHAT THE DECODER MAKES OF IT. `readMetaFrame` hands the fragments to `Decoder.Write` one by one; for every decoder
state and every cutting of the block, that gives exactly what ONE write of the whole block gives — the same fields in the
same order, the same error or none, the same decoder state (dynamic table included) — so the decoded header list of a
request or response does not depend on how its block was spread over HEADERS and CONTINUATION frames. -/
theorem header_block_fields (d : Hpack.Dec) (sid max : Nat) (endStream : Bool) (hsid : 0 < sid ∧ sid < 2147483648)
    (frags : List Bytes) (rest : Bytes) (hne : frags ≠ []) (hall : ∀ c ∈ frags, c.length ≤ max ∧ c.length < 16777216) :
    ∃ w, writeBlock sid endStream frags = .ok w ∧
      (match readBlock max (frags.length - 1) (w ++ rest) with
       | some (_, _, got, _, _) => C18.writeAll d got = d.write frags.flatten
       | none => False) := by
  obtain ⟨w, fl, hw, hr, _⟩ := header_block_over_frames sid max endStream hsid frags rest hne hall
  exact ⟨w, hw, by rw [hr]; exact C18.fragment_independence d frags⟩

/-- non-vacuity: RFC 7541 C.3.1's request block cut into HEADERS + two CONTINUATION frames on stream 3, a PING behind -/
example :
    (match writeBlock 3 true [[0x82, 0x86, 0x84, 0x41, 0x0f, 0x77, 0x77], [0x77, 0x2e, 0x65, 0x78, 0x61, 0x6d], [0x70, 0x6c, 0x65, 0x2e, 0x63, 0x6f, 0x6d]] with
     | .ok w => (readBlock 16384 2 (w ++ [0, 0, 8, 6, 0, 0, 0, 0, 0, 1, 2, 3, 4, 5, 6, 7, 8])).map fun (s, fl, fs, hs, r) => (s, fl, fs.flatten, hs, r.length)
     | .error _ => none)
      = some (3, 1, [0x82, 0x86, 0x84, 0x41, 0x0f, 0x77, 0x77, 0x77, 0x2e, 0x65, 0x78, 0x61, 0x6d, 0x70, 0x6c, 0x65, 0x2e, 0x63, 0x6f, 0x6d], 0, 17) := by
  decide +kernel

end Fp.C19
