/-
C02 — JA4 header equals the JA4 of the ClientHello; order/GREASE invariant.
Model: FpVerif/Model/JA4.lean (utls FromRaw as far as JA4 reads it + pkg/ja4). Spec: FpVerif/Spec/JA4.lean.
`T` is the truncated hash (first 12 hex digits of SHA-256 in the code): a parameter of every theorem.
-/
import FpVerif.Lemmas.JA4
import FpVerif.Lemmas.JA4Parse
import FpVerif.Properties.C05
import FpVerif.Gen.JA4
set_option linter.unusedSimpArgs false
namespace Fp.C02
open Fp Fp.JA4

/-- Obligations on the facts REGENERATED from /repo/pkg/ja4 on every run: version table, separators, the
GREASE test, the saturating two-digit counters, `%04x`, the 12-digit truncation, the sort, and the
signature-algorithm loop (which skips GREASE values). -/
theorem gen_ok :
    Gen.JA4.versionTable = ["utls.VersionTLS10=>10", "utls.VersionTLS11=>11", "utls.VersionTLS12=>12", "utls.VersionTLS13=>13"] ∧
    Gen.JA4.versionDefault = "00" ∧ Gen.JA4.separators = ["_", ",", ",", ","] ∧
    Gen.JA4.greaseTest = "return((v>>8)==v&0xff)&&v&0xf==0xa" ∧
    Gen.JA4.countCiphersFmt = "returnfmt.Sprintf(\"%02d\",min(x,99))" ∧
    Gen.JA4.countExtsFmt = "returnfmt.Sprintf(\"%02d\",min(x,99))" := by
  refine ⟨?_, ?_, ?_, ?_, ?_, ?_⟩ <;> rfl

theorem gen_ok_helpers :
    Gen.JA4.joinUint16 = "varbufferbytes.Buffer;fori,u:=rangeslice{ifi!=0{buffer.WriteString(sep)}buffer.WriteString(fmt.Sprintf(\"%04x\",u))};returnbuffer.String()" ∧
    Gen.JA4.truncatedSha256 = "sha:=sha256.New();sha.Write([]byte(in));returnfmt.Sprintf(\"%x\",sha.Sum(nil))[:12]" ∧
    Gen.JA4.sortUint16 = "sort.Slice(sl,func(xint,yint)bool{returnsl[x]<sl[y]})" := by
  refine ⟨?_, ?_, ?_⟩ <;> rfl

theorem gen_ok_sigalg : Gen.JA4.sigAlgLoop =
    "varalgo[]uint16;for_,e:=rangechs.Extensions{ifsae,ok:=e.(*utls.SignatureAlgorithmsExtension);ok{for_,a:=rangesae.SupportedSignatureAlgorithms{ifisGREASEUint16(uint16(a)){continue}algo=append(algo,uint16(a))}}};j.SignatureAlgorithms=algo" := by
  rfl

/-- Header value, for any truncated hash `T`: a function of the record bytes only (`none`: FromRaw rejects the record) -/
def ja4Header (T : Bytes → Bytes) (rec : Bytes) : Option Bytes := (parseView rec).map (ja4String T)

/-- THE PROPERTY AT FULL STRENGTH for the pure part: for EVERY well-formed ClientHello (any cipher / extension /
signature-algorithm / ALPN / supported_versions content, known and unknown extension types, GREASE anywhere, more than 99
ciphers or extensions, with or without an extensions block) and every truncated hash `T`, the header value computed from
the record the client sent is the FoxIO JA4 of THAT hello. `HelloWF4` asks that lengths fit their fields and that the
extensions utls validates are well formed (non-empty lists, one host_name without a trailing dot, …); the two uniqueness
hypotheses exclude hellos that repeat supported_versions or ALPN (first-vs-last). -/
theorem ja4_of_hello (T : Bytes → Bytes) (h : Tls.Hello) (hw : HelloWF4 h)
    (huv : ((h.exts.getD []).filter isVersE).length ≤ 1) (hua : ((h.exts.getD []).filter isAlpnE).length ≤ 1) :
    ja4Header T (Tls.serialize h) = some (Spec.JA4.ja4Spec T h) := by
  unfold ja4Header
  rw [parseView_serialize h hw]
  simp only [Option.map_some]
  congr 1
  apply ja4_view_eq_spec T h _ huv hua
  intro e he
  cases hx : h.exts with
  | none => rw [hx] at he; simp at he
  | some es => rw [hx] at he; exact (hw.2.2.2.2 es hx).1 e (by simpa using he)

/-- non-vacuity: a TLS 1.3-style hello with GREASE in ciphers, extensions, versions and signature algorithms -/
def sampleHello : Tls.Hello :=
  { recVer := 0x0301, hsVer := 0x0303, random := List.replicate 32 7, sid := List.replicate 32 9,
    ciphers := [0x0a0a, 4865, 4866, 0xc02b, 0xfafa], comp := [0],
    exts := some [.raw 0x2a2a [], .sni [(0, strBytes "example.test")], .groups [0x3a3a, 29, 23], .points [0],
                  .alpn [strBytes "h2", strBytes "http/1.1"], .versions [0x7a7a, 0x0304, 0x0303], .sigalgs [0x0403, 0x1a1a, 0x0804],
                  .raw 65281 [0], .raw 0x1a1a [0]] }

theorem sampleHello_wf : HelloWF4 sampleHello := by
  refine ⟨by decide, by decide, by decide, by decide, ?_⟩
  intro es hes
  have : es = [.raw 0x2a2a [], .sni [(0, strBytes "example.test")], .groups [0x3a3a, 29, 23], .points [0],
                  .alpn [strBytes "h2", strBytes "http/1.1"], .versions [0x7a7a, 0x0304, 0x0303], .sigalgs [0x0403, 0x1a1a, 0x0804],
                  .raw 65281 [0], .raw 0x1a1a [0]] := by
    simp only [sampleHello, Option.some.injEq] at hes; exact hes.symm
  subst this
  refine ⟨?_, by decide⟩
  intro e he
  simp only [List.mem_cons, List.not_mem_nil, or_false] at he
  rcases he with rfl | rfl | rfl | rfl | rfl | rfl | rfl | rfl | rfl
  · exact ⟨by decide, by decide, by decide, by decide, by decide⟩
  · refine ⟨by decide, ?_, by decide⟩
    refine ⟨by decide, by decide, ?_⟩
    rw [if_neg (by decide)]
    exact ⟨rfl, by decide, trivial⟩
  · show 2 * 3 < 65534; decide
  · show 1 < 256; decide
  · refine ⟨by decide, ?_, by decide⟩
    intro p hp
    simp only [List.mem_cons, List.not_mem_nil, or_false] at hp
    rcases hp with rfl | rfl <;> exact ⟨by decide, by decide⟩
  · exact ⟨by decide, by decide⟩
  · exact ⟨by decide, by decide⟩
  · exact ⟨by decide, by decide, by decide, by decide, by decide⟩
  · exact ⟨by decide, by decide, by decide, by decide, by decide⟩

/-- JA4 is a function of eight quantities read off the parsed hello -/
theorem ja4String_congr (T : Bytes → Bytes) (v v' : View)
    (h1 : tlsVersion v' = tlsVersion v) (h2 : sniChar v' = sniChar v) (h3 : nCiphers v' = nCiphers v)
    (h4 : nExts v' = nExts v) (h5 : firstALPN v' = firstALPN v) (h6 : cipherList v' = cipherList v)
    (h7 : extList v' = extList v) (h8 : sigAlgList v' = sigAlgList v) : ja4String T v' = ja4String T v := by
  unfold ja4String ja4a ja4bInput ja4cInput
  rw [h1, h2, h3, h4, h5, h6, h7, h8]

/-- the pieces that depend on the extension list are invariant under its reordering -/
theorem perm_exts_pieces (es es' : List ExtV) (hv hv' : Nat) (cs cs' : List Nat) (p : es.Perm es') (u : UniqueKinds es) :
    let v : View := { hsVer := hv, ciphers := cs, exts := es }
    let v' : View := { hsVer := hv, ciphers := cs', exts := es' }
    tlsVersion v' = tlsVersion v ∧ sniChar v' = sniChar v ∧ nExts v' = nExts v ∧ firstALPN v' = firstALPN v ∧
    extList v' = extList v ∧ sigAlgList v' = sigAlgList v := by
  intro v v'
  have hany : ∀ f : ExtV → Bool, es'.any f = es.any f := by
    intro f
    cases h : es.any f
    · rw [List.any_eq_false] at h ⊢; intro x hx; exact h x (p.mem_iff.mpr hx)
    · rw [List.any_eq_true] at h ⊢; obtain ⟨x, hx, hfx⟩ := h; exact ⟨x, p.mem_iff.mp hx, hfx⟩
  refine ⟨?_, ?_, ?_, ?_, ?_, ?_⟩
  · show (if hasVersions v' then es'.foldl vouter 0 else hv) = (if hasVersions v then es.foldl vouter 0 else hv)
    have : hasVersions v' = hasVersions v := hany _
    rw [this, (p.foldl_eq' (fun x _ y _ z => vouter_comm z x y) 0)]
  · show (if es'.any _ then (100 : UInt8) else 105) = (if es.any _ then 100 else 105)
    rw [hany]
  · exact (p.filter _).length_eq.symm
  · show alpnCode (es'.foldl alpnStep []) = alpnCode (es.foldl alpnStep [])
    rw [alpn_fold_filter es, alpn_fold_filter es', ← perm_len_le_one (p.filter isAlpn) u.1]
  · exact (sortU16_perm_eq (p.filterMap _)).symm
  · show es'.flatMap sigOf = es.flatMap sigOf
    rw [sig_flatMap_filter es, sig_flatMap_filter es', ← perm_len_le_one (p.filter isSig) u.2]

/-- MAIN INVARIANCE THEOREM. Reordering the cipher suites and the extensions does not change JA4. -/
theorem ja4_perm (T : Bytes → Bytes) (v v' : View) (hc : v.ciphers.Perm v'.ciphers) (he : v.exts.Perm v'.exts)
    (hv : v'.hsVer = v.hsVer) (u : UniqueKinds v.exts) : ja4String T v' = ja4String T v := by
  obtain ⟨hv0, cs, es⟩ := v
  obtain ⟨hv1, cs', es'⟩ := v'
  simp only at hc he hv u
  subst hv
  obtain ⟨a, b, c, d, e, f⟩ := perm_exts_pieces es es' hv1 hv1 cs cs' he u
  have hf := hc.filter (fun c => !isGrease c)
  exact ja4String_congr T _ _ a b hf.length_eq.symm c d (sortU16_perm_eq hf).symm e f

/-- GREASE values added to (moved within, altered in) the cipher list are ignored. -/
theorem grease_cipher (T : Bytes → Bytes) (hv : Nat) (es : List ExtV) (l₁ l₂ : List Nat) (g : Nat) (hg : isGrease g = true) :
    ja4String T { hsVer := hv, ciphers := l₁ ++ g :: l₂, exts := es } = ja4String T { hsVer := hv, ciphers := l₁ ++ l₂, exts := es } := by
  apply ja4String_congr <;> try rfl
  · simp [nCiphers, List.filter_cons, hg]
  · simp [cipherList, List.filter_cons, hg]

/-- GREASE extensions added anywhere are ignored. -/
theorem grease_ext (T : Bytes → Bytes) (hv : Nat) (cs : List Nat) (e₁ e₂ : List ExtV) :
    ja4String T { hsVer := hv, ciphers := cs, exts := e₁ ++ .grease :: e₂ } = ja4String T { hsVer := hv, ciphers := cs, exts := e₁ ++ e₂ } := by
  apply ja4String_congr <;> try rfl
  · simp [tlsVersion, hasVersions, vouter]
  · simp [sniChar]
  · simp [nExts, List.filter_cons]
  · simp [firstALPN, alpnStep]
  · simp [extList, List.filterMap_cons, extId]
  · simp [sigAlgList, sigOf]

/-- GREASE values inside signature_algorithms are ignored. -/
theorem grease_sigalg (T : Bytes → Bytes) (hv : Nat) (cs : List Nat) (e₁ e₂ : List ExtV) (a₁ a₂ : List Nat) (g : Nat)
    (hg : isGrease g = true) :
    ja4String T { hsVer := hv, ciphers := cs, exts := e₁ ++ .sigalgs (a₁ ++ g :: a₂) :: e₂ } =
    ja4String T { hsVer := hv, ciphers := cs, exts := e₁ ++ .sigalgs (a₁ ++ a₂) :: e₂ } := by
  apply ja4String_congr <;> try rfl
  · simp [tlsVersion, hasVersions, vouter]
  · simp [sniChar]
  · simp [nExts, List.filter_cons]
  · simp [firstALPN, alpnStep]
  · simp [extList, List.filterMap_cons, extId]
  · simp [sigAlgList, sigOf, List.filter_cons, hg]

/-- GREASE values inside supported_versions are ignored (utls folds them to 0x0a0a, itself GREASE). -/
theorem grease_version (T : Bytes → Bytes) (hv : Nat) (cs : List Nat) (e₁ e₂ : List ExtV) (a₁ a₂ : List Nat) (g : Nat)
    (hg : isGrease g = true) :
    ja4String T { hsVer := hv, ciphers := cs, exts := e₁ ++ .versions (a₁ ++ g :: a₂) :: e₂ } =
    ja4String T { hsVer := hv, ciphers := cs, exts := e₁ ++ .versions (a₁ ++ a₂) :: e₂ } := by
  have hs : ∀ z, vstep z g = z := by intro z; simp [vstep, hg]
  apply ja4String_congr <;> try rfl
  · simp [tlsVersion, hasVersions, vouter, hs]
  · simp [sniChar]
  · simp [nExts, List.filter_cons]
  · simp [firstALPN, alpnStep]
  · simp [extList, List.filterMap_cons, extId]
  · simp [sigAlgList, sigOf]

/-- The value always has the form a_b_c, with `b` and `c` the two truncated hashes; part `a` is
't', two version digits, 'd'/'i', two count digits twice, then the ALPN code. -/
theorem ja4_form (T : Bytes → Bytes) (v : View) :
    ∃ ver nc ne alpn, ja4String T v = ([116] ++ ver ++ [sniChar v] ++ nc ++ ne ++ alpn) ++ [95] ++ T (ja4bInput v) ++ [95] ++ T (ja4cInput v) ∧
      ver.length = 2 ∧ nc.length = 2 ∧ ne.length = 2 ∧ (sniChar v = 100 ∨ sniChar v = 105) ∧ alpn = firstALPN v := by
  refine ⟨versionStr (tlsVersion v), count2 (nCiphers v), count2 (nExts v), firstALPN v, rfl, ?_, count2_length _, count2_length _, ?_, rfl⟩
  · unfold versionStr; repeat' split <;> try decide
  · unfold sniChar; split <;> simp

/-- more than 99 ciphers or extensions print as 99 -/
theorem count_saturates (n : Nat) (h : 99 ≤ n) : count2 n = strBytes "99" := by
  unfold count2
  have : ¬ n < 99 := by omega
  simp only [this, if_false]; decide

/-- non-vacuity: a Chrome-like view and a shuffled, GREASE-sprinkled variant have the same fingerprint -/
example (T : Bytes → Bytes) :
    ja4String T { hsVer := 771, ciphers := [0x0a0a, 4865, 4866, 49195], exts := [.grease, .sni, .other 23, .alpn [strBytes "h2"], .sigalgs [1027, 2052], .versions [0x0a0a, 772, 771]] }
    = ja4String T { hsVer := 771, ciphers := [49195, 4865, 0x0a0a, 4866], exts := [.sigalgs [1027, 2052], .other 23, .grease, .versions [0x0a0a, 772, 771], .alpn [strBytes "h2"], .sni] } := by
  apply ja4_perm
  · decide
  · decide
  · rfl
  · decide

/-- PLUMBING: whatever injector set is configured (default or custom, any order, any outcome of the other injectors)
and whatever the request, the value computed by the `X-JA4-Fingerprint` injector is what the backend receives under that
name, exactly once (corollary of `Fp.C05.delivered` on the model of `rewriteFunc`, which the `rw` stream ties to the code). -/
theorem header_delivered (c : Proxy.Cfg) (i : Proxy.InReq) (j : Proxy.Inj) (hj : j ∈ c.injectors)
    (hn : j.name = strBytes "X-JA4-Fingerprint")
    (howns : ∀ j' ∈ c.injectors, Proxy.canonKey j'.name = Proxy.canonKey j.name → j'.out = j.out)
    (v : Bytes) (hv : j.out = .value v) (hne : v.isEmpty = false) :
    Proxy.get (Proxy.rewrite c i).hdr (strBytes "X-Ja4-Fingerprint") = [v] := by
  have hk : Proxy.canonKey j.name = strBytes "X-Ja4-Fingerprint" := by rw [hn]; decide
  have := Fp.C05.delivered c i j hj (by rw [hk]; decide) howns v hv hne
  rwa [hk] at this

end Fp.C02
