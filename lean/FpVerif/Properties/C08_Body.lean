/-
C08 (continued) — the RESPONSE-BODY path inside the HTTP/2 server as one statement: however the body is cut into DATA
frames (the write scheduler's `Consume` cuts it by windows and the maximum frame size: C20 `pieces_concatenate`,
`respects_windows_*`), the octets the framer writes, read back by a peer's frame reader one frame after the other, give
exactly the body — same bytes, same order, nothing added — and END_STREAM exactly on the last frame.
Model: FpVerif/Model/Frame.lean (`writeData`, `readFrame`); the single-frame round trip is C19 `data_roundtrip`.
-/
import FpVerif.Properties.C19
set_option linter.unusedSimpArgs false
set_option linter.unusedVariables false
namespace Fp.C08
open Fp Fp.Frame

/-- the wire image of a body sent as the DATA frames `chunks` on stream `sid` (END_STREAM on the last one) -/
def writeBody (sid : Nat) : List Bytes → Except WErr Bytes
  | [] => .ok []
  | [c] => writeData sid true c none
  | c :: c2 :: r =>
    match writeData sid false c none with
    | .error e => .error e
    | .ok w =>
      match writeBody sid (c2 :: r) with
      | .error e => .error e
      | .ok rest => .ok (w ++ rest)

/-- the peer: read frames until one carries END_STREAM, collecting the DATA payloads of stream `sid`; anything else —
a parse error, another frame type, another stream — is a failure. Result: the body and the unread rest of the input. -/
def readBody (max sid : Nat) : Nat → Bytes → Option (Bytes × Bytes)
  | 0, _ => none
  | fuel + 1, inp =>
    match readFrame max 0 inp with
    | (.ok (.data s fl d), _, rest) =>
      if s ≠ sid then none
      else if hasFlag fl 1 then some (d, rest)
      else (readBody max sid fuel rest).map fun (b, r) => (d ++ b, r)
    | _ => none

/-- RESPONSE BODY OVER FRAMES. For every stream id, every way of cutting a body into one or more DATA frames within the
peer's frame-size limit, and whatever follows on the connection: the frames are written without error, and the peer's
reader gets back exactly the concatenation of the pieces, stops at the frame that carries END_STREAM — the last one —
and leaves the rest of the connection's bytes untouched. -/
theorem body_over_frames (sid max : Nat) (hsid : 0 < sid ∧ sid < 2147483648) :
    ∀ (chunks : List Bytes) (rest : Bytes), chunks ≠ [] → (∀ c ∈ chunks, c.length ≤ max ∧ c.length < 16777216) →
      ∃ w, writeBody sid chunks = .ok w ∧ readBody max sid chunks.length (w ++ rest) = some (chunks.flatten, rest) := by
  intro chunks
  induction chunks with
  | nil => intro _ h; exact absurd rfl h
  | cons c r ih =>
    intro rest _ hall
    have hc := hall c (List.mem_cons_self ..)
    cases r with
    | nil =>
      obtain ⟨w, hw, hr⟩ := C19.data_roundtrip sid true c rest max hsid hc.1 hc.2
      refine ⟨w, by simpa [writeBody] using hw, ?_⟩
      simp only [List.length_cons, List.length_nil, readBody, hr]
      simp [hasFlag]
    | cons c2 r2 =>
      obtain ⟨w2, hw2, hr2⟩ := ih rest (by simp) (fun x hx => hall x (List.mem_cons_of_mem _ hx))
      obtain ⟨w, hw, hr⟩ := C19.data_roundtrip sid false c (w2 ++ rest) max hsid hc.1 hc.2
      refine ⟨w ++ w2, by simp [writeBody, hw, hw2], ?_⟩
      rw [List.append_assoc]
      simp only [List.length_cons] at hr2 ⊢
      rw [readBody, hr]
      simp [hasFlag, hr2]

/-- corollary in the scheduler's terms: any list of cut points — the body taken `ns[0]` octets, then `ns[1]`, … (each a
non-zero amount within the limits) and the remainder last — arrives as the body -/
def cutBody : Bytes → List Nat → List Bytes
  | b, [] => [b]
  | b, n :: ns => b.take n :: cutBody (b.drop n) ns

theorem cutBody_flatten (b : Bytes) (ns : List Nat) : (cutBody b ns).flatten = b := by
  induction ns generalizing b with
  | nil => simp [cutBody]
  | cons n ns ih => simp [cutBody, ih]

theorem cutBody_length (b : Bytes) (ns : List Nat) : (cutBody b ns).length = ns.length + 1 := by
  induction ns generalizing b with
  | nil => rfl
  | cons n ns ih => simp [cutBody, ih]

theorem cutBody_bounds (max : Nat) (ns : List Nat) : ∀ (b : Bytes), (∀ n ∈ ns, n ≤ max) → b.length - ns.sum ≤ max →
    ∀ c ∈ cutBody b ns, c.length ≤ max := by
  induction ns with
  | nil => intro b _ hb c hc; simp [cutBody] at hc; subst hc; simpa using hb
  | cons n ns ih =>
    intro b hn hb c hc
    simp only [cutBody, List.mem_cons] at hc
    rcases hc with rfl | hc
    · have := hn n (List.mem_cons_self ..)
      simp only [List.length_take]; omega
    · refine ih (b.drop n) (fun m hm => hn m (List.mem_cons_of_mem _ hm)) ?_ c hc
      simp only [List.length_drop, List.sum_cons] at hb ⊢; omega

theorem body_any_cuts (sid max : Nat) (hsid : 0 < sid ∧ sid < 2147483648) (hmax : max < 16777216) (body rest : Bytes)
    (ns : List Nat) (hn : ∀ n ∈ ns, n ≤ max) (hlast : body.length - ns.sum ≤ max) :
    ∃ w, writeBody sid (cutBody body ns) = .ok w ∧
      readBody max sid (ns.length + 1) (w ++ rest) = some (body, rest) := by
  have hb := cutBody_bounds max ns body hn hlast
  have hne : cutBody body ns ≠ [] := by cases ns <;> simp [cutBody]
  have hlen := cutBody_length body ns
  obtain ⟨w, hw, hr⟩ := body_over_frames sid max hsid (cutBody body ns) rest hne
    (fun c hc => ⟨hb c hc, by have := hb c hc; omega⟩)
  exact ⟨w, hw, by rw [hlen, cutBody_flatten] at hr; exact hr⟩

/-- non-vacuity: 10 octets in three frames (4 + 4 + 2) on stream 5, a PING behind them -/
example :
    (match writeBody 5 (cutBody [1, 2, 3, 4, 5, 6, 7, 8, 9, 10] [4, 4]) with
     | .ok w => readBody 16384 5 3 (w ++ [0, 0, 8, 6, 0, 0, 0, 0, 0, 1, 2, 3, 4, 5, 6, 7, 8])
     | .error _ => none)
      = some ([1, 2, 3, 4, 5, 6, 7, 8, 9, 10], [0, 0, 8, 6, 0, 0, 0, 0, 0, 1, 2, 3, 4, 5, 6, 7, 8]) := by
  decide

end Fp.C08
