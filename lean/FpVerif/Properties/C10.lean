/-
C10 — no client behaviour or per-connection failure takes the proxy down.
Proved here: the panic-confinement part, over the deferred statements of the per-connection goroutines
REGENERATED from the source, under Go's defer/recover rule (Fp.Lifecycle.stopsPanic). The byte-level
totality of the parsers reachable from client bytes is proved in C04 (capture), C18 (HPACK), C19 (frames).
Everything else (arbitrary bytes, aborts, I/O faults against the real process) is explored, not proved.
-/
import FpVerif.Model.Lifecycle
import FpVerif.Gen.Lifecycle
namespace Fp.C10
open Fp Fp.Lifecycle

/-- user callbacks reachable from each per-connection goroutine of the proxy (read from the code):
TLS callbacks run inside `tlsHandshakeWithTimeout` on the serveConn goroutine; on the HTTP/2 path
`http2.Server.ServeConn` — and with it the ConnState hook — runs on that same goroutine; header
injectors and the request handler run on `runHandler` goroutines (HTTP/2) or on net/http's
`conn.serve` goroutine (HTTP/1.1; net/http recovers there — assumed contract). -/
inductive Site | tlsCallback | connStateH2 | injectorH2 | handlerH2
  deriving Repr, DecidableEq

def goroutineDefers : Site → List DeferForm
  | .tlsCallback | .connStateH2 => Gen.Lifecycle.serveConnDefers.map DeferForm.ofString
  | .injectorH2 | .handlerH2 => Gen.Lifecycle.runHandlerDefers.map DeferForm.ofString

/-- MAIN THEOREM: a panic raised at any of these callback sites is stopped on its own goroutine (the
goroutine's deferred statements include a function that calls `recover` directly), so it is confined to
that connection / request. `defer recover()` does NOT count (Go spec). -/
theorem panic_confined (s : Site) : stopsPanic (goroutineDefers s) = true := by
  cases s <;> decide

/-- the rule itself, on the two shapes that matter -/
example : stopsPanic [.directRecoverCall, .other, .other] = false := by decide
example : stopsPanic [.closureCallingRecover, .other, .other] = true := by decide

/-- the connection is still closed when a panic unwinds: the closing defers are registered after the
recovering one (deferred calls run last-in-first-out) -/
theorem close_after_panic : Gen.Lifecycle.serveConnDefers = ["closure-calling-recover", "call:conn.Close", "call:tlsConn.Close"] := by
  rfl

end Fp.C10
