/-
C03 — the HTTP/2 fingerprint header reflects the frames the client sent.
Model: FpVerif/Model/H2Fp.lean (capture blocks of processFrame + Marshal). Spec: FpVerif/Spec/H2Fp.lean.
-/
import FpVerif.Lemmas.H2Fp
import FpVerif.Properties.C05
import FpVerif.Gen.H2Fp
set_option linter.unusedSimpArgs false
namespace Fp.C03
open Fp Fp.H2Fp Fp.Spec.H2Fp

/-- Obligation on the literals REGENERATED from pkg/metadata/http2.go: the format verbs, separators,
the `+1` on the weight and the pseudo-header test are the ones the model `marshal` implements. -/
theorem gen_ok :
    Gen.H2Fp.marshalLiterals = [";", "%d:%d", "|", "%02d|", "0|", ",", "%d:", "1:", "0:", "%d:%d", "|", ","] ∧
    Gen.H2Fp.settingFmt = "%d:%d" ∧ Gen.H2Fp.settingSep = ";" ∧ Gen.H2Fp.partSep = "|" ∧
    Gen.H2Fp.wuFmt = "%02d|" ∧ Gen.H2Fp.noPriority = "0|" ∧ Gen.H2Fp.prioSep = "," ∧
    Gen.H2Fp.prioStreamFmt = "%d:" ∧ Gen.H2Fp.exclTrue = "1:" ∧ Gen.H2Fp.exclFalse = "0:" ∧
    Gen.H2Fp.prioDepWeightFmt = "%d:%d" ∧ Gen.H2Fp.weightPlus = 1 ∧ Gen.H2Fp.pseudoSep = "," ∧
    Gen.H2Fp.pseudoMinLen = 2 ∧ Gen.H2Fp.pseudoPrefix = 58 ∧ Gen.H2Fp.pseudoLetterIdx = 1 := by
  decide

theorem captureAll_eq (hist : List Frame) (h : WUNonZero hist) :
    captureAll hist = { settings := lastSettings hist, wu := (firstWU hist).getD 0,
                        prios := allPrios hist, headers := lastHeaders hist } := by
  have h1 := fold_settings {} hist
  have h2 := fold_headers {} hist
  have h3 := fold_prios {} hist
  have h4 := fold_wu {} hist h
  simp only [List.nil_append, if_true] at h1 h2 h3 h4
  cases hc : captureAll hist with
  | mk s w p hd =>
    unfold captureAll at hc
    rw [hc] at h1 h2 h3 h4
    simp only at h1 h2 h3 h4
    subst h1 h2 h3 h4
    rfl

/-- MAIN THEOREM. For every history of delivered frames and every limit `n` (0, fewer, equal, more
than the number of priority frames, 2^64-1), `Marshal` applied to what the capture code accumulated is
exactly S|WU|P|PS of the specification: latest non-ACK SETTINGS, first WINDOW_UPDATE, all priorities
in arrival order cut to `n`, pseudo-header letters of the latest header block. -/
theorem marshal_capture_eq_spec (hist : List Frame) (n : Nat) (h : WUNonZero hist) :
    marshal (captureAll hist) n = fpSpec hist n := by
  rw [captureAll_eq hist h]
  unfold marshal fpSpec
  simp only [settingsPart_eq, pseudoLoop_false]
  have hk : (if (allPrios hist).length < n then (allPrios hist).length else n) = min (allPrios hist).length n := by
    simp only [Nat.min_def]; split <;> split <;> omega
  rw [hk]
  have htake : (allPrios hist).take (min (allPrios hist).length n) = (allPrios hist).take n := by
    rw [Nat.min_comm, ← List.take_take, List.take_length]
  rw [htake]
  have h00 : dec02 0 = [48, 48] := by decide
  by_cases h0 : min (allPrios hist).length n = 0
  · have : (allPrios hist).take n = [] := by
      rw [← htake, h0]; rfl
    cases hw : firstWU hist <;> simp [h0, this, h00, List.append_assoc]
  · have : (allPrios hist).take n ≠ [] := by
      intro hn
      rcases List.take_eq_nil_iff.mp hn with h1 | h1
      · omega
      · rw [h1] at h0; simp at h0
    cases hw : firstWU hist <;> simp [h0, this, h00, prioPart_eq, List.append_assoc]

/-- number of priority entries rendered: min(n, number of priority-carrying frames) -/
theorem prio_limit (hist : List Frame) (n : Nat) :
    ((allPrios hist).take n).length = min n (allPrios hist).length := by simp

/-! ### exactly four '|'-separated parts -/

def noBar (b : Bytes) : Prop := (124 : UInt8) ∉ b
instance (b : Bytes) : Decidable (noBar b) := by unfold noBar; infer_instance

theorem noBar_dec (n : Nat) : noBar (dec n) := not_digit_not_mem_dec 124 (by decide) n

theorem noBar_append {a b : Bytes} (ha : noBar a) (hb : noBar b) : noBar (a ++ b) := by
  unfold noBar at *; simp [ha, hb]

theorem noBar_join (sep : Bytes) (l : List Bytes) (hs : noBar sep) (hl : ∀ x ∈ l, noBar x) : noBar (join sep l) := by
  induction l with
  | nil => simp [join, noBar]
  | cons x r ih =>
    cases r with
    | nil => simpa [join] using hl x (List.mem_cons_self ..)
    | cons y r =>
      simp only [join]
      exact noBar_append (noBar_append (hl x (List.mem_cons_self ..)) hs)
        (ih (fun z hz => hl z (List.mem_cons_of_mem _ hz)))

theorem noBar_dec02 (n : Nat) : noBar (dec02 n) := by
  unfold dec02; split
  · unfold noBar; simp only [List.mem_cons, not_or]; exact ⟨by decide, noBar_dec n⟩
  · exact noBar_dec n

theorem count_bar (a b c d : Bytes) (ha : noBar a) (hb : noBar b) (hc : noBar c) (hd : noBar d) :
    (a ++ [124] ++ b ++ [124] ++ c ++ [124] ++ d).count 124 = 3 := by
  unfold noBar at *
  simp [List.count_append, List.count_eq_zero.mpr ha, List.count_eq_zero.mpr hb, List.count_eq_zero.mpr hc,
    List.count_eq_zero.mpr hd]

/-- what the frame reader guarantees for every delivered header block (`checkPseudos`): pseudo-header
names come from a fixed set, so no pseudo letter is '|'. -/
def PseudoOK (hist : List Frame) : Prop := ∀ l ∈ pseudoLetters (lastHeaders hist), noBar l
instance (hist : List Frame) : Decidable (PseudoOK hist) := by unfold PseudoOK; infer_instance

/-- The fingerprint always has exactly four '|'-separated parts. -/
theorem four_parts (hist : List Frame) (n : Nat) (hp : PseudoOK hist) : (fpSpec hist n).count 124 = 3 := by
  unfold fpSpec
  apply count_bar
  · apply noBar_join _ _ (by decide)
    intro x hx
    obtain ⟨s, _, rfl⟩ := List.mem_map.mp hx
    exact noBar_append (noBar_append (noBar_dec _) (by decide)) (noBar_dec _)
  · cases firstWU hist with
    | none => decide
    | some v => exact noBar_dec02 v
  · split
    · decide
    · apply noBar_join _ _ (by decide)
      intro x hx
      obtain ⟨p, _, rfl⟩ := List.mem_map.mp hx
      unfold renderPrio
      refine noBar_append (noBar_append (noBar_append (noBar_append (noBar_append (noBar_append (noBar_dec _) (by decide)) ?_) (by decide)) (noBar_dec _)) (by decide)) (noBar_dec _)
      cases p.excl <;> decide
  · exact noBar_join _ _ (by decide) hp

/-- `HTTP2FingerprintParam.HTTP2Fingerprint`: no fingerprint unless the connection negotiated "h2"
(the injector's empty value makes `rewriteFunc` skip the header). -/
def h2Header (negotiated : String) (m : Frames) (max : Nat) : Option Bytes :=
  if negotiated = "h2" then some (marshal m max) else none

theorem non_h2_none (proto : String) (m : Frames) (max : Nat) (h : proto ≠ "h2") : h2Header proto m max = none := by
  simp [h2Header, h]

/-- non-vacuity / worked example (Chrome-like preface, one request with priority, limit 1) -/
example :
    let hist := [Frame.settings false [(1, 65536), (3, 1000), (4, 6291456), (6, 262144)],
                 Frame.windowUpdate 0 15663105,
                 Frame.priority { stream := 3, dep := 0, excl := false, weight := 200 },
                 Frame.headers 1 (some { stream := 1, dep := 0, excl := true, weight := 255 })
                   [strBytes ":method", strBytes ":authority", strBytes ":scheme", strBytes ":path", strBytes "user-agent"]]
    WUNonZero hist ∧ PseudoOK hist ∧
    marshal (captureAll hist) 1 = strBytes "1:65536;3:1000;4:6291456;6:262144|15663105|3:0:0:201|m,a,s,p" := by
  refine ⟨?_, ?_, by decide⟩
  · intro s inc hm; simp at hm; omega
  · decide

/-- PLUMBING: whatever injector set is configured (default or custom, any order, any outcome of the other injectors)
and whatever the request, the value computed by the `X-HTTP2-Fingerprint` injector is what the backend receives under that
name, exactly once (corollary of `Fp.C05.delivered` on the model of `rewriteFunc`, which the `rw` stream ties to the code). -/
theorem header_delivered (c : Proxy.Cfg) (i : Proxy.InReq) (j : Proxy.Inj) (hj : j ∈ c.injectors)
    (hn : j.name = strBytes "X-HTTP2-Fingerprint")
    (howns : ∀ j' ∈ c.injectors, Proxy.canonKey j'.name = Proxy.canonKey j.name → j'.out = j.out)
    (v : Bytes) (hv : j.out = .value v) (hne : v.isEmpty = false) :
    Proxy.get (Proxy.rewrite c i).hdr (strBytes "X-Http2-Fingerprint") = [v] := by
  have hk : Proxy.canonKey j.name = strBytes "X-Http2-Fingerprint" := by rw [hn]; decide
  have := Fp.C05.delivered c i j hj (by rw [hk]; decide) howns v hv hne
  rwa [hk] at this

end Fp.C03
