/-
C09 — forwarding headers tell the backend the truth about the client.
Model: Fp.Proxy.rewrite (rewriteFunc + contract of SetXForwarded and of ReverseProxy's prelude).
How `In.TLS` is populated on each path (proxyserver) is part of the model's input `InReq.tls`; the
end-to-end stream checks that the real stack delivers `tls = true` on both protocols.
-/
import FpVerif.Lemmas.Proxy
import FpVerif.Gen.Proxy
set_option linter.unusedSimpArgs false
namespace Fp.C09
open Fp Fp.Proxy Fp.Spec.Proxy

/-- Obligation on the statement sequence of `rewriteFunc` REGENERATED from the source: the client's
X-Forwarded-For list is copied to the outbound request and `SetXForwarded` is then called, before the
injectors run. -/
theorem gen_ok : Gen.Proxy.rewriteSteps.take 4 =
    ["r.SetURL(f.To)",
     "iftq,iq:=f.To.RawQuery,r.In.URL.RawQuery;tq==\"\"||iq==\"\"{r.Out.URL.RawQuery=tq+iq}else{r.Out.URL.RawQuery=tq+\"&\"+iq}", "r.Out.Header[\"X-Forwarded-For\"]=r.In.Header[\"X-Forwarded-For\"]", "r.SetXForwarded()"] := by
  first | rfl | (rfl)

/-- injector names never collide with the forwarding headers (true of the default set and required of
custom sets for these statements) -/
def InjDisjoint (c : Cfg) : Prop :=
  ∀ K ∈ [XFF, XFH, XFP, strBytes "Forwarded"], lastFor K c.injectors = none

theorem get_after_loop (c : Cfg) (h : Hdr) (K : Bytes) (hd : lastFor K c.injectors = none) :
    get (injectLoop h c.injectors) K = get h K := by
  rw [injectLoop_get, hd]

theorem ua_irrelevant (h : Hdr) (K : Bytes) (hk : K ≠ strBytes "User-Agent") :
    get (if has h (strBytes "User-Agent") then h else hset h (strBytes "User-Agent") []) K = get h K := by
  split
  · rfl
  · unfold hset
    have hc : canonKey (strBytes "User-Agent") = strBytes "User-Agent" := by decide
    rw [hc, get_assign_ne _ _ _ _ hk]

/-- X-Forwarded-For is the client's own list followed by the TCP peer's IP; its last element is the peer. -/
theorem xff (c : Cfg) (i : InReq) (ip : Bytes) (hd : InjDisjoint c) (hip : splitHost i.remoteAddr = some ip) :
    get (rewrite c i).hdr XFF =
      [if (get i.hdr XFF).isEmpty then ip else join (strBytes ", ") (get i.hdr XFF) ++ strBytes ", " ++ ip] := by
  unfold rewrite
  simp only
  rw [ua_irrelevant _ _ (by decide), get_after_loop c _ _ (hd XFF (by simp))]
  unfold setXForwarded
  simp only [hip]
  rw [get_assign_ne _ _ _ _ (by decide), get_assign_ne _ _ _ _ (by decide), get_assign_self, get_assign_self]

theorem join_snoc_sep (sep : Bytes) (l : List Bytes) (x : Bytes) (hl : l ≠ []) :
    join sep (l ++ [x]) = join sep l ++ sep ++ x := by
  induction l with
  | nil => exact absurd rfl hl
  | cons a r ih =>
    cases r with
    | nil => simp [join]
    | cons b r => simp only [List.cons_append, join]; rw [← List.cons_append, ih (by simp)]; simp [List.append_assoc]

/-- … in the specification's words: the client's list followed by the peer. -/
theorem xff_spec (c : Cfg) (i : InReq) (ip : Bytes) (hd : InjDisjoint c) (hip : splitHost i.remoteAddr = some ip) :
    get (rewrite c i).hdr XFF = [specXFF (get i.hdr XFF) ip] := by
  rw [xff c i ip hd hip]
  unfold specXFF
  cases hx : get i.hdr XFF with
  | nil => simp [join]
  | cons a r => rw [join_snoc_sep _ _ _ (by simp)]; simp

/-- X-Forwarded-Host is the Host the client addressed. -/
theorem xfh (c : Cfg) (i : InReq) (hd : InjDisjoint c) : get (rewrite c i).hdr XFH = [i.host] := by
  unfold rewrite
  simp only
  rw [ua_irrelevant _ _ (by decide), get_after_loop c _ _ (hd XFH (by simp))]
  unfold setXForwarded
  simp only
  rw [get_assign_ne _ _ _ _ (by decide), get_assign_self]

/-- X-Forwarded-Proto is "https" exactly when the inbound request is marked as TLS. -/
theorem xfp (c : Cfg) (i : InReq) (hd : InjDisjoint c) :
    get (rewrite c i).hdr XFP = [if i.tls then strBytes "https" else strBytes "http"] := by
  unfold rewrite
  simp only
  rw [ua_irrelevant _ _ (by decide), get_after_loop c _ _ (hd XFP (by simp))]
  unfold setXForwarded
  simp only
  rw [get_assign_self]

theorem proto_https (c : Cfg) (i : InReq) (hd : InjDisjoint c) (htls : i.tls = true) :
    get (rewrite c i).hdr XFP = [strBytes "https"] := by
  rw [xfp c i hd, htls]; rfl

theorem get_foldl_del (ks : List Bytes) (h : Hdr) (K : Bytes) (hk : K ∈ ks) : get (ks.foldl del h) K = [] := by
  induction ks generalizing h with
  | nil => cases hk
  | cons k r ih =>
    simp only [List.foldl_cons]
    by_cases hr : K ∈ r
    · exact ih _ hr
    · have : K = k := by
        rcases List.mem_cons.mp hk with h1 | h1
        · exact h1
        · exact absurd h1 hr
      subst this
      clear ih hk
      induction r generalizing h with
      | nil => simp [get_del_self]
      | cons k' r ih2 =>
        have hne : K ≠ k' := fun e => hr (by simp [e])
        have hr' : K ∉ r := fun e => hr (by simp [e])
        simp only [List.foldl_cons]
        have : del (del h K) k' = del (del h k') K := by
          unfold del; simp only [List.filter_filter]; congr 1; funext e; exact Bool.and_comm _ _
        rw [this]
        exact ih2 _ hr'

/-- A client-supplied `Forwarded` header never reaches the backend; client X-Forwarded-Host and X-Forwarded-Proto are
replaced (xfh, xfp above leave exactly the proxy's single value). -/
theorem no_client_forwarded (c : Cfg) (i : InReq) (hd : InjDisjoint c) :
    get (rewrite c i).hdr (strBytes "Forwarded") = [] := by
  unfold rewrite
  simp only
  rw [ua_irrelevant _ _ (by decide), get_after_loop c _ _ (hd _ (by simp))]
  unfold setXForwarded
  simp only
  rw [get_assign_ne _ _ _ _ (by decide), get_assign_ne _ _ _ _ (by decide)]
  have hpre : get (prelude i.hdr) (strBytes "Forwarded") = [] := by
    unfold prelude
    exact get_foldl_del _ _ _ (by simp)
  cases hs : splitHost i.remoteAddr with
  | some ip => simp only; rw [get_assign_ne _ _ _ _ (by decide), get_assign_ne _ _ _ _ (by decide)]; exact hpre
  | none => simp only; rw [get_del_ne _ _ _ (by decide), get_assign_ne _ _ _ _ (by decide)]; exact hpre

def exIn : InReq :=
  { method := strBytes "GET", path := strBytes "/", query := [], host := strBytes "a.test",
    remoteAddr := strBytes "127.0.0.2:5555", tls := true,
    hdr := [(XFF, [strBytes "1.1.1.1", strBytes "2.2.2.2"]), (XFP, [strBytes "http"]), (XFH, [strBytes "evil"]),
            (strBytes "Forwarded", [strBytes "for=9.9.9.9"])] }
def exCfg : Cfg :=
  { toScheme := strBytes "http", toHost := strBytes "b:80", toPath := [], toQuery := [],
    preserveHost := false, probe := true, injectors := [] }

/-- non-vacuity: a request from 127.0.0.2 with a client-supplied chain and spoofed proto/host -/
example :
    get (rewrite exCfg exIn).hdr XFF = [strBytes "1.1.1.1, 2.2.2.2, 127.0.0.2"] ∧
    get (rewrite exCfg exIn).hdr XFP = [strBytes "https"] ∧ get (rewrite exCfg exIn).hdr XFH = [strBytes "a.test"] ∧
    get (rewrite exCfg exIn).hdr (strBytes "Forwarded") = [] := by
  decide

end Fp.C09
