/-
C20 (continued) — the PRIORITY scheduler's Pop and Push change exactly one queue: Pop removes the head of ONE node's queue
(or shortens it by the piece handed out) and leaves every other node's queue as it was; Push appends the frame to ONE
node's queue (the stream's node, or the root for control frames and for non-DATA frames of unknown streams) and leaves the
others alone. Hence per operation: nothing queued is lost, nothing is handed out twice, order within a queue is kept —
for every tree, comparator and throttle state. (Conservation over whole operation sequences incl. CloseStream's discard is
decided by the trace oracle on the differential; round robin and random have it as theorems.)
-/
import FpVerif.Properties.C20_PrioWin
set_option linter.unusedSimpArgs false
set_option linter.unusedVariables false
namespace Fp.C20
open Fp Fp.Sched Fp.Prio

theorem q_modNode_keep (s : PSt) (p : Nat) (f : PNode → PNode) (hf : ∀ y, (f y).q = y.q) (x : Nat) :
    (node (modNode s p f) x).q = (node s x).q := by
  by_cases hx : x = p
  · subst hx
    by_cases hp : x < s.heap.length
    · rw [node_modNode_self s x f hp, hf]
    · simp [node, modNode, setNode, List.getD_eq_getElem?_getD, List.getElem?_set,
        List.getElem?_eq_none (Nat.le_of_not_lt hp), hp]
  · rw [node_modNode_other s p x f hx]

theorem q_addBytes_up (b : Int) : ∀ (fuel : Nat) (s : PSt) (p : Option Nat) (x : Nat),
    (node (addBytes.up b fuel s p) x).q = (node s x).q := by
  intro fuel
  induction fuel with
  | zero => intro s p x; cases p <;> rfl
  | succ fuel ih =>
    intro s p x
    cases p with
    | none => rfl
    | some q =>
      simp only [addBytes.up]
      rw [ih]
      exact q_modNode_keep s q (fun x => { x with subtreeBytes := x.subtreeBytes + b }) (fun _ => rfl) x

theorem q_addBytes (s : PSt) (n : Nat) (b : Int) (x : Nat) : (node (addBytes s n b) x).q = (node s x).q := by
  unfold Fp.Prio.addBytes
  simp only
  rw [q_addBytes_up]
  exact q_modNode_keep s n (fun x => { x with bytes := x.bytes + b }) (fun _ => rfl) x

/-- what `popHere` does to the queues: node `n` is in range, its queue becomes what `consume` left, all others keep theirs -/
theorem popHere_exact (s : PSt) (n : Nat) (op : Bool) (s' : PSt) (p : Popped) (h : popHere s n op = some (s', p)) :
    ∃ limit q' taken sid, consumeN s.win (node s n).q limit = some (p, q', taken, sid) ∧
      (node s' n).q = q' ∧ ∀ x, x ≠ n → (node s' x).q = (node s x).q := by
  unfold Fp.Prio.popHere at h
  simp only at h
  split at h
  · cases h
  · rename_i hne
    split at h
    · cases h
    · rename_i pp q' taken sid hc
      simp only [Option.some.injEq, Prod.mk.injEq] at h
      obtain ⟨h1, h2⟩ := h
      subst h2
      have hn : n < s.heap.length := by
        by_cases hn : n < s.heap.length
        · exact hn
        · exfalso; apply hne
          simp [node, List.getD_eq_getElem?_getD, List.getElem?_eq_none (Nat.le_of_not_lt hn)]
      refine ⟨_, q', taken, sid, hc, ?_, ?_⟩
      · rw [← h1]
        have key : (node (addBytes { modNode s n (fun x => { x with q := q' }) with
            win := takeWin (modNode s n (fun x => { x with q := q' })).win sid taken } n taken) n).q = q' := by
          rw [q_addBytes]
          show (node (modNode s n (fun x => { x with q := q' })) n).q = q'
          rw [node_modNode_self s n _ hn]
        split
        · exact key
        · split
          · exact key
          · exact key
      · intro x hx
        rw [← h1]
        have key : (node (addBytes { modNode s n (fun x => { x with q := q' }) with
            win := takeWin (modNode s n (fun x => { x with q := q' })).win sid taken } n taken) x).q = (node s x).q := by
          rw [q_addBytes]
          show (node (modNode s n (fun x => { x with q := q' })) x).q = (node s x).q
          rw [node_modNode_other s n x _ hx]
        split
        · exact key
        · split
          · exact key
          · exact key

/-- what `Pop` found, with the state it ends in: after some re-linking of siblings (queues and windows untouched), ONE
`popHere` produced the frame and the final state -/
def FoundAt (s s' : PSt) (p : Popped) : Prop :=
  ∃ s'' n op, SameQW s s'' ∧ popHere s'' n op = some (s', p)

theorem FoundAt.transfer {s s1 s' : PSt} {p : Popped} (h : SameQW s s1) (f : FoundAt s1 s' p) : FoundAt s s' p := by
  obtain ⟨s'', n, op, h1, h2⟩ := f
  exact ⟨s'', n, op, h.trans h1, h2⟩

theorem walkKids_at (visit : PSt → Nat → PSt × Option Popped)
    (hv : ∀ s k, ((visit s k).2 = none → SameQW s (visit s k).1) ∧ (∀ p, (visit s k).2 = some p → FoundAt s (visit s k).1 p)) :
    ∀ (ks : List Nat) (s : PSt), ((walkKids visit s ks).2 = none → SameQW s (walkKids visit s ks).1) ∧
      (∀ p, (walkKids visit s ks).2 = some p → FoundAt s (walkKids visit s ks).1 p) := by
  intro ks
  induction ks with
  | nil => intro s; exact ⟨fun _ => SameQW.refl s, fun p h => by simp [walkKids] at h⟩
  | cons k r ih =>
    intro s
    unfold Fp.Prio.walkKids
    have hk := hv s k
    generalize hr : visit s k = res at hk ⊢
    obtain ⟨s1, o⟩ := res
    cases o with
    | some p0 =>
      refine ⟨fun h => by simp at h, fun p h => ?_⟩
      simp only [Option.some.injEq] at h
      exact hk.2 p (by rw [h])
    | none =>
      have h1 := hk.1 rfl
      have := ih s1
      exact ⟨fun h => h1.trans (this.1 h), fun p h => (this.2 p h).transfer h1⟩

theorem walk_at (less : PNode → PNode → Bool) : ∀ (fuel : Nat) (s : PSt) (n : Nat) (op : Bool),
    ((walk less fuel s n op).2 = none → SameQW s (walk less fuel s n op).1) ∧
      (∀ p, (walk less fuel s n op).2 = some p → FoundAt s (walk less fuel s n op).1 p) := by
  intro fuel
  induction fuel with
  | zero => intro s n op; exact ⟨fun _ => SameQW.refl s, fun p h => by simp [walk] at h⟩
  | succ fuel ih =>
    intro s n op
    unfold Fp.Prio.walk
    cases hp : Fp.Prio.popHere s n op with
    | some r =>
      obtain ⟨s', p0⟩ := r
      refine ⟨fun h => by simp at h, fun p h => ?_⟩
      simp only [Option.some.injEq] at h
      subst h
      exact ⟨s, n, op, SameQW.refl s, hp⟩
    | none =>
      simp only
      split
      · exact ⟨fun _ => SameQW.refl s, fun p h => by simp at h⟩
      · have hs := SameQW.sortKids s n less
        exact ⟨fun h => hs.trans ((walkKids_at _ (fun s' k => ih s' k _) _ _).1 h),
          fun p h => ((walkKids_at _ (fun s' k => ih s' k _) _ _).2 p h).transfer hs⟩

/-- PRIORITY SCHEDULER, POP CHANGES EXACTLY ONE QUEUE. For every state and comparator: if Pop hands out `p`, there is one
node `n` whose queue was `r :: rest`; `p` is `r` itself and the queue is now `rest`, or `p` is the first `k` octets of `r`
and the queue is now the remainder of `r` (same frame identity, END_STREAM kept for the last piece) followed by `rest`;
the queue of EVERY other node is what it was. Nothing else leaves the scheduler, nothing is duplicated, order is kept. -/
theorem prio_pop_exact (less : PNode → PNode → Bool) (s s' : PSt) (p : Popped) (h : pop less s = (s', .popped p)) :
    ∃ n r rest, (node s n).q = r :: rest ∧ (∀ x, x ≠ n → (node s' x).q = (node s x).q) ∧
      ((p = .frame r ∧ (node s' n).q = rest) ∨
       (∃ k, p = .piece r k ∧ 0 < k ∧ k < r.size ∧ (node s' n).q = { r with size := r.size - k } :: rest)) := by
  unfold Fp.Prio.pop at h
  have hw := (walk_at less (s.heap.length + 2) s 0 false).2
  generalize walk less (s.heap.length + 2) s 0 false = res at h hw
  obtain ⟨s1, o⟩ := res
  cases o with
  | none => simp at h
  | some p0 =>
    simp only [Prod.mk.injEq, POut.popped.injEq] at h
    obtain ⟨rfl, rfl⟩ := h
    obtain ⟨s'', n, op, hsame, hpop⟩ := hw p0 rfl
    obtain ⟨limit, q', taken, sid, hc, hq, hoth⟩ := popHere_exact s'' n op s1 p0 hpop
    obtain ⟨r, rest, hqq, hsp⟩ := consumeN_spec hc
    refine ⟨n, r, rest, by rw [← hsame.q]; exact hqq, fun x hx => by rw [hoth x hx, hsame.q], ?_⟩
    rcases hsp with ⟨rfl, rfl, _⟩ | ⟨rfl, rfl, h0, h1, _⟩
    · exact Or.inl ⟨rfl, hq⟩
    · exact Or.inr ⟨taken, rfl, h0, h1, hq⟩

/-- PRIORITY SCHEDULER, PUSH CHANGES EXACTLY ONE QUEUE: the frame is appended at the END of one node's queue — the node
of its stream, or the root for control frames and non-DATA frames of unknown streams — every other queue is untouched;
the only refusal is a DATA frame for a stream the scheduler does not know (Go panics there) -/
theorem prio_push_exact (s : PSt) (r : Req) (hm : ∀ id p, (id, p) ∈ s.nodes → p < s.heap.length) (h0 : 0 < s.heap.length) :
    ((push s r).2 = .panic ∧ (push s r).1 = s ∧ r.size > 0 ∧ ∃ sid, r.sid = some sid ∧ lookup s sid = none) ∨
    ((push s r).2 = .none_ ∧ ∃ n, n < s.heap.length ∧ (node (push s r).1 n).q = (node s n).q ++ [r] ∧
      ∀ x, x ≠ n → (node (push s r).1 x).q = (node s x).q) := by
  have app : ∀ n, n < s.heap.length →
      (node (modNode s n (fun x => { x with q := x.q ++ [r] })) n).q = (node s n).q ++ [r] ∧
      ∀ x, x ≠ n → (node (modNode s n (fun x => { x with q := x.q ++ [r] })) x).q = (node s x).q := by
    intro n hn
    exact ⟨by rw [node_modNode_self s n _ hn], fun x hx => by rw [node_modNode_other s n x _ hx]⟩
  unfold Fp.Prio.push
  cases hsid : r.sid with
  | none => exact Or.inr ⟨rfl, 0, h0, (app 0 h0).1, (app 0 h0).2⟩
  | some sid =>
    simp only
    cases hl : lookup s sid with
    | some p =>
      have hp : p < s.heap.length := by
        unfold lookup at hl
        cases hf : s.nodes.find? (fun e => e.1 == sid) with
        | none => simp [hf] at hl
        | some e =>
          simp [hf] at hl
          have := List.mem_of_find?_eq_some hf
          obtain ⟨a, b⟩ := e
          simp at hl; subst hl
          exact hm a b this
      exact Or.inr ⟨rfl, p, hp, (app p hp).1, (app p hp).2⟩
    | none =>
      simp only
      split
      · rename_i hsz
        exact Or.inl ⟨rfl, rfl, hsz, sid, rfl, hl⟩
      · exact Or.inr ⟨rfl, 0, h0, (app 0 h0).1, (app 0 h0).2⟩

/-- ... in every REACHABLE state — after any sequence of scheduler operations from the initial scheduler, whatever the
configuration and comparator — the hypotheses of `prio_push_exact` hold (the map only holds in-range pointers, the root
exists): Push appends to exactly one queue or refuses a DATA frame of an unknown stream -/
theorem prio_push_exact_reachable (less : PNode → PNode → Bool) (mc mi : Nat) (th : Bool) (ops : List POp) (r : Req) :
    let s := prioRun less (PSt.init mc mi th) ops
    ((push s r).2 = .panic ∧ (push s r).1 = s ∧ r.size > 0 ∧ ∃ sid, r.sid = some sid ∧ lookup s sid = none) ∨
    ((push s r).2 = .none_ ∧ ∃ n, n < s.heap.length ∧ (node (push s r).1 n).q = (node s n).q ++ [r] ∧
      ∀ x, x ≠ n → (node (push s r).1 x).q = (node s x).q) := by
  intro s
  have key : ∀ (ops : List POp) (s : PSt), TreeInv s → TreeInv (prioRun less s ops) := by
    intro ops
    induction ops with
    | nil => intro s h; exact h
    | cons op r ih => intro s h; exact ih _ (h.step less op)
  have h := key ops _ (TreeInv.init mc mi th)
  apply prio_push_exact s r _ h.heapPos
  intro id p hm
  rcases h.mapped id p hm with ⟨hp, _⟩ | ⟨_, _, hs⟩
  · subst hp; exact h.heapPos
  · cases hq : par s p with
    | none => rw [hq] at hs; cases hs
    | some q => exact par_in_range hq

/-- non-vacuity: two streams with a frame each; Pop takes stream 1's frame and leaves stream 3's queue alone -/
example :
    let less : PNode → PNode → Bool := fun _ _ => true
    let s0 := PSt.init 10 10 false
    let s1 := (step less s0 (.open_ 1)).1
    let s2 := (step less s1 (.open_ 3)).1
    let s3 := (step less s2 (.push { uid := 1, sid := some 1, isData := false, size := 0, es := false })).1
    let s4 := (step less s3 (.push { uid := 2, sid := some 3, isData := false, size := 0, es := false })).1
    ((pop less s4).2, ((node (pop less s4).1 1).q.length, (node (pop less s4).1 2).q.length)) =
      (.popped (.frame { uid := 2, sid := some 3, isData := false, size := 0, es := false }), (1, 0)) := by
  decide

end Fp.C20
