/-
C04 — ClientHello capture is exact, transparent and segmentation-independent.
Model: FpVerif/Model/Capture.lean (pkg/hack/hajack_clienthello_conn.go). Spec: FpVerif/Spec/Capture.lean.
-/
import FpVerif.Lemmas.Capture
set_option linter.unusedSimpArgs false
namespace Fp.C04
open Fp Fp.Capture Fp.Spec.Capture

/-- Obligation on the constants REGENERATED from the source (record type, header length, version
bounds, width of `expectedLen`). -/
theorem gen_ok : GenOK := ⟨by decide, by decide, by decide, by decide, by decide⟩

/-- what `GetClientHello` reports in state `s` -/
def reported (s : St) : Option Bytes :=
  match (getHello s).1 with | .ok b => some b | .error _ => none

/-- MAIN THEOREM. However the stream is cut into successive reads (any number of chunks of any sizes,
one byte at a time, or coalesced with later records), the reported ClientHello is exactly the first
TLS record — 5-byte header plus the declared number of bytes — when the bytes delivered so far contain
it, and nothing otherwise (not a handshake record, unknown version, or not yet complete). -/
theorem capture_exact (chunks : List Bytes) (h : LenOK chunks.flatten) :
    reported (feed {} chunks) = captured chunks.flatten := by
  have := feed_canon gen_ok [] chunks (by simpa using h)
  rw [canon_nil] at this
  simp only [List.nil_append] at this
  unfold reported
  rw [this]
  exact (getHello_canon gen_ok _ h).1

/-- Two deliveries of the same byte stream leave the wrapper in the same state (buffer and expected
length), so everything observable later coincides. -/
theorem segmentation_independent (c₁ c₂ : List Bytes) (heq : c₁.flatten = c₂.flatten) (h : LenOK c₁.flatten) :
    feed {} c₁ = feed {} c₂ := by
  have h1 := feed_canon gen_ok [] c₁ (by simpa using h)
  have h2 := feed_canon gen_ok [] c₂ (by simpa [← heq] using h)
  rw [canon_nil] at h1 h2
  rw [h1, h2, heq]

/-- Asking for the ClientHello does not disturb the capture (it may be asked after every read). -/
theorem getHello_pure (chunks : List Bytes) (h : LenOK chunks.flatten) :
    (getHello (feed {} chunks)).2 = feed {} chunks := by
  have := feed_canon gen_ok [] chunks (by simpa using h)
  rw [canon_nil] at this
  simp only [List.nil_append] at this
  rw [this]
  exact (getHello_canon gen_ok _ h).2

/-- Concrete form: header `hdr` (valid), exactly the declared payload, anything after it. -/
theorem capture_exact_record (hdr payload rest : Bytes) (hv : validHdr hdr) (h5 : hdr.length = 5)
    (hdecl : declared hdr = payload.length) (hlen : payload.length ≤ 65530)
    (chunks : List Bytes) (hc : chunks.flatten = hdr ++ payload ++ rest) :
    reported (feed {} chunks) = some (hdr ++ payload) := by
  have hvs : validHdr (hdr ++ (payload ++ rest)) := (validHdr_append hdr _ (by omega)).mpr hv
  have hds : declared (hdr ++ (payload ++ rest)) = payload.length := by
    rw [declared_append hdr _ (by omega), hdecl]
  have hl : LenOK chunks.flatten := by
    intro _; rw [hc, List.append_assoc, hds]; exact hlen
  rw [capture_exact chunks hl, hc, List.append_assoc]
  unfold captured
  have : 5 + declared (hdr ++ (payload ++ rest)) ≤ (hdr ++ (payload ++ rest)).length := by
    rw [hds]; simp; omega
  simp only [hvs, this, and_self, if_true, hds]
  have : 5 + payload.length = (hdr ++ payload).length := by simp; omega
  rw [← List.append_assoc, this, List.take_left' rfl]
  simp

/-- Every legal TLS record length (≤ 2^14 + 2048) satisfies the length hypothesis. -/
theorem legal_len_ok (d : Bytes) (h : declared d ≤ 2 ^ 14 + 2048) : LenOK d := by
  intro _; omega

/-- Nothing is reported for a stream that does not start with a handshake record header of a known
version, however long it is. -/
theorem capture_none_invalid (chunks : List Bytes) (h : ¬ validHdr chunks.flatten) :
    reported (feed {} chunks) = none := by
  rw [capture_exact chunks (fun hv => absurd hv h)]
  simp [captured, h]

/-- Nothing is reported while the first record is incomplete. -/
theorem capture_none_short (chunks : List Bytes) (hl : LenOK chunks.flatten)
    (h : chunks.flatten.length < 5 + declared chunks.flatten) : reported (feed {} chunks) = none := by
  rw [capture_exact chunks hl]
  have : ¬ (5 + declared chunks.flatten ≤ chunks.flatten.length) := by omega
  unfold captured
  rw [if_neg (fun hc => this hc.2)]

/-- Once reported, the capture never changes, whatever arrives later. -/
theorem capture_stable (d more rec : Bytes) (h : captured d = some rec) : captured (d ++ more) = some rec := by
  unfold captured at h ⊢
  split at h
  · rename_i hc
    have h5 := hc.1.1
    have hv := (validHdr_append d more h5).mpr hc.1
    have hd := declared_append d more h5
    have : 5 + declared (d ++ more) ≤ (d ++ more).length := by rw [hd]; simp; omega
    rw [if_pos ⟨hv, this⟩, hd, List.take_append_of_le_length hc.2]
    exact h
  · exact absurd h (by simp)

/-- non-vacuity: a 1-byte-at-a-time delivery of a small record followed by another record. -/
example : reported (feed {} [[22], [3], [1], [0], [2], [0xaa], [0xbb], [23, 3, 3]]) = some [22, 3, 1, 0, 2, 0xaa, 0xbb] := by
  decide

/-- Outside the quantifier (documented): a header declaring ≥ 65531 bytes wraps the 16-bit expected
length; the wrapper then reports a 1–4 byte "hello". No legal TLS record is that long and crypto/tls
fails such a handshake before the capture is consulted. -/
theorem wrap_witness : reported (feed {} [[22, 3, 1, 0xff, 0xfd, 1, 2, 3]]) = some [22, 3] := by decide

end Fp.C04
