/-
C18 (continued) — the header-block round trip across SetMaxDynamicTableSize schedules: the pending-change invariant
between encoder and decoder, the size-update prologue of WriteField, and the final theorem.
-/
import FpVerif.Properties.C18_RoundTrip
set_option linter.unusedSimpArgs false
set_option linter.unusedVariables false
namespace Fp.C18
open Fp Fp.Hpack

/-- the encoder after it has announced its pending table-size change -/
def cleared (e : Enc) : Enc := { e with tableSizeUpdate := false, minSize := 4294967295 }

/-- the size updates `WriteField` emits first when a change is pending -/
def updatePrefix (e : Enc) : Bytes :=
  (if e.minSize < e.tab.maxSize then appendTableSize e.minSize else []) ++ appendTableSize e.tab.maxSize

/-- `WriteField` after the size-update prologue -/
def writeBody (e : Enc) (pre : Bytes) (f : Field) : Enc × Bytes :=
  let (idx, m) := searchTable e f
  if m then (e, pre ++ orFirst (appendVarInt 7 idx) 0x80) else
  let indexing := !f.sensitive && decide (f.size ≤ e.tab.maxSize)
  let e := if indexing then { e with tab := e.tab.add { f with sensitive := false } } else e
  if idx = 0 then (e, pre ++ [typeByte indexing f.sensitive] ++ appendString f.name ++ appendString f.value)
  else (e, pre ++ orFirst (appendVarInt (if indexing then 6 else 4) idx) (typeByte indexing f.sensitive) ++ appendString f.value)

theorem writeField_body (e : Enc) (f : Field) :
    e.writeField f = if e.tableSizeUpdate then writeBody (cleared e) (updatePrefix e) f else writeBody e [] f := by
  cases h : e.tableSizeUpdate
  · unfold writeBody
    simp only [Enc.writeField, h, Bool.false_eq_true, if_false]
  · unfold writeBody cleared updatePrefix
    simp only [Enc.writeField, h, if_true]

theorem writeBody_pre (e : Enc) (pre : Bytes) (f : Field) :
    writeBody e pre f = ((writeBody e [] f).1, pre ++ (writeBody e [] f).2) := by
  unfold writeBody
  cases hs : searchTable e f with
  | mk idx m =>
    simp only
    cases m
    · simp only [Bool.false_eq_true, if_false]
      by_cases hz : idx = 0
      · simp only [hz, if_true, List.nil_append, List.append_assoc]
      · simp only [hz, if_false, List.nil_append, List.append_assoc]
    · simp only [if_true, List.nil_append]

theorem writeField_upd (e : Enc) (f : Field) (hu : e.tableSizeUpdate = true) :
    e.writeField f = (((cleared e).writeField f).1, updatePrefix e ++ ((cleared e).writeField f).2) := by
  rw [writeField_body e f, writeField_body (cleared e) f]
  have hc : (cleared e).tableSizeUpdate = false := rfl
  simp only [hu, hc, if_true, Bool.false_eq_true, if_false]
  exact writeBody_pre (cleared e) (updatePrefix e) f

theorem encodeAll_upd (e : Enc) (f : Field) (r : List Field) (hu : e.tableSizeUpdate = true) :
    encodeAll e (f :: r) = ((encodeAll (cleared e) (f :: r)).1, updatePrefix e ++ (encodeAll (cleared e) (f :: r)).2) := by
  simp only [encodeAll, writeField_upd e f hu, List.append_assoc]

/-- PENDING: the encoder has shrunk / grown its table to `e.tab.maxSize` (having been as low as `e.minSize` in between)
but has not told the decoder yet, whose table `t0` is still the one from before -/
structure Pend (e : Enc) (t0 : DynTab) : Prop where
  upd : e.tableSizeUpdate = true
  c0 : Consistent t0
  ce : Consistent e.tab
  ents : e.tab.ents = fit e.minSize t0.ents
  le : e.minSize ≤ e.tab.maxSize

theorem fit_sum_le (m : Nat) (l : List Field) : sumSize (fit m l) ≤ max m 0 ∨ fit m l = [] := by
  rcases fit_consistent m l with h | h
  · left; omega
  · right; exact h

theorem setMaxSize_consistent (t : DynTab) (v : Nat) (hc : Consistent t) : Consistent (t.setMaxSize v) :=
  (setMaxSize_bounded t v hc).1

/-- the decoder's table after it has read the announced size update(s) is the encoder's -/
theorem pend_resolved (e : Enc) (t0 : DynTab) (A : Nat) (hp : Pend e t0) :
    withAllowed ((if e.minSize < e.tab.maxSize then t0.setMaxSize e.minSize else t0).setMaxSize e.tab.maxSize) A
      = withAllowed e.tab A := by
  have hce := hp.ce
  unfold Consistent at hce
  by_cases hlt : e.minSize < e.tab.maxSize
  · simp only [hlt, if_true]
    rw [setMaxSize_fit _ _ (setMaxSize_consistent t0 _ hp.c0), setMaxSize_fit t0 _ hp.c0]
    simp only [fit_fit]
    have hmin : min e.minSize e.tab.maxSize = e.minSize := by omega
    rw [hmin, ← hp.ents]
    unfold withAllowed
    cases ht : e.tab; simp_all
  · simp only [hlt, if_false]
    have heq : e.tab.maxSize = e.minSize := by have := hp.le; omega
    rw [setMaxSize_fit t0 _ hp.c0, heq, ← hp.ents]
    unfold withAllowed
    cases ht : e.tab; simp_all

/-- the first call of `SetMaxDynamicTableSize` on a synchronised encoder, and every further one -/
theorem pend_step (e : Enc) (t0 : DynTab) (v : Nat) (hc0 : Consistent t0) (hce : Consistent e.tab)
    (hents : e.tab.ents = fit e.minSize t0.ents) : Pend (e.setMaxSize v) t0 := by
  unfold Enc.setMaxSize
  simp only
  generalize (if v > e.maxSizeLimit then e.maxSizeLimit else v) = v'
  refine ⟨rfl, hc0, setMaxSize_consistent _ _ hce, ?_, ?_⟩
  · simp only
    rw [setMaxSize_fit _ _ hce]
    simp only [hents, fit_fit]
    congr 1
    split <;> omega
  · simp only
    have : (e.tab.setMaxSize v').maxSize = v' := by simp [DynTab.setMaxSize, DynTab.evict]
    rw [this]
    split <;> omega

theorem fit_id (m : Nat) (l : List Field) (h : sumSize l ≤ m) : fit m l = l := by
  cases l with
  | nil => rfl
  | cons a r => simp only [fit]; have : ¬ sumSize (a :: r) > m := by omega
                simp only [this, if_false]

theorem pend_resize (e : Enc) (vs : List Nat) (hvs : vs ≠ []) (hce : Consistent e.tab) (hsz : e.tab.size ≤ e.minSize) :
    Pend (vs.foldl Enc.setMaxSize e) e.tab := by
  have hbase : e.tab.ents = fit e.minSize e.tab.ents := by
    rw [fit_id]; unfold Consistent at hce; omega
  -- generalise: any state whose entries are `fit minSize t0` stays so, and is pending after at least one call
  have hgen : ∀ (vs : List Nat) (e' : Enc), Consistent e'.tab → e'.tab.ents = fit e'.minSize e.tab.ents → vs ≠ [] →
      Pend (vs.foldl Enc.setMaxSize e') e.tab := by
    intro vs
    induction vs with
    | nil => intro _ _ _ h; exact absurd rfl h
    | cons v r ih =>
      intro e' hc he _
      have hp := pend_step e' e.tab v hce hc he
      cases r with
      | nil => exact hp
      | cons w r' => exact ih (e'.setMaxSize v) hp.ce hp.ents (by simp)
  exact hgen vs e hce hbase hvs

theorem loop_one_update (ov fuel : Nat) (d : Dec) (v : Nat) (rest : Bytes) (acc : List Field) (hv : v < 2 ^ 62)
    (hfirst : d.firstField = true) (hallow : v ≤ d.tab.allowedMax) :
    writeLoop ov (fuel + 1) d (appendTableSize v ++ rest) acc = writeLoop ov fuel { d with tab := d.tab.setMaxSize v } rest acc := by
  obtain ⟨b, r, hbr, hupd, hparse⟩ := parse_update d v rest hv hfirst hallow
  rw [hbr]
  simp only [writeLoop, List.isEmpty_cons, Bool.false_eq_true, if_false, hparse, hupd, if_true]

theorem appendTableSize_length (v : Nat) : 1 ≤ (appendTableSize v).length := by
  unfold appendTableSize
  obtain ⟨b, r, h, _⟩ := appendVarInt_head 5 v (by omega)
  rw [h]; simp [orFirst]

theorem loop_update_prefix (ov : Nat) (e : Enc) (t0 : DynTab) (A : Nat) (d : Dec) (rest : Bytes) (acc : List Field)
    (hp : Pend e t0) (hd : d.tab = withAllowed t0 A) (hfirst : d.firstField = true) (hM : e.tab.maxSize ≤ A)
    (hM62 : e.tab.maxSize < 2 ^ 62) :
    ∃ k, k ≤ (updatePrefix e).length ∧ 1 ≤ k ∧ ∀ fuel, writeLoop ov (fuel + k) d (updatePrefix e ++ rest) acc =
      writeLoop ov fuel { d with tab := withAllowed e.tab A } rest acc := by
  have hres := pend_resolved e t0 A hp
  have hA : d.tab.allowedMax = A := by rw [hd]; rfl
  have hl1 := appendTableSize_length e.minSize
  have hl2 := appendTableSize_length e.tab.maxSize
  unfold updatePrefix
  by_cases hlt : e.minSize < e.tab.maxSize
  · refine ⟨2, by simp only [hlt, if_true, List.length_append]; omega, by omega, fun fuel => ?_⟩
    simp only [hlt, if_true, List.append_assoc] at hres ⊢
    rw [show fuel + 2 = (fuel + 1) + 1 from rfl]
    rw [loop_one_update ov (fuel + 1) d e.minSize _ acc (by omega) hfirst (by omega)]
    rw [loop_one_update ov fuel ({ d with tab := d.tab.setMaxSize e.minSize } : Dec) e.tab.maxSize rest acc hM62 hfirst
      (by simp only [hd, setMaxSize_withAllowed]; show e.tab.maxSize ≤ A; exact hM)]
    simp only [hd, setMaxSize_withAllowed, hres]
  · refine ⟨1, by simp only [hlt, if_false, List.nil_append]; omega, by omega, fun fuel => ?_⟩
    simp only [hlt, if_false, List.nil_append] at hres ⊢
    rw [loop_one_update ov fuel d e.tab.maxSize rest acc hM62 hfirst (by omega)]
    simp only [hd, setMaxSize_withAllowed, hres]

theorem cleared_tab (e : Enc) : (cleared e).tab = e.tab := rfl

theorem pend_tabOK (e : Enc) (t0 : DynTab) (hp : Pend e t0) (hM61 : e.tab.maxSize < 2 ^ 61) : TabOK (cleared e).tab := by
  rw [cleared_tab]
  refine ⟨hp.ce, ?_, hM61⟩
  have hce := hp.ce
  have hle := hp.le
  unfold Consistent at hce
  rw [hce, hp.ents]
  rcases fit_consistent e.minSize t0.ents with h | h
  · omega
  · rw [h]; simp [sumSize]

/-- a block encoded while a table-size change is pending, decoded at the start of a block -/
theorem block_roundtrip_pending (e : Enc) (t0 : DynTab) (d : Dec) (f : Field) (fs : List Field) (A : Nat)
    (hp : Pend e t0) (hd : d.tab = withAllowed t0 A) (hM : e.tab.maxSize ≤ A) (hM61 : e.tab.maxSize < 2 ^ 61)
    (hsave : d.saveBuf = []) (hfirst : d.firstField = true)
    (hadm : ∀ g ∈ f :: fs, Admits d.maxStrLen g.name ∧ Admits d.maxStrLen g.value) :
    ∃ d', d.write (encodeAll e (f :: fs)).2 = (d', f :: fs, none) ∧
      d'.tab = withAllowed (encodeAll e (f :: fs)).1.tab A ∧ d'.saveBuf = [] ∧ (d'.close).isOk = true := by
  rw [encodeAll_upd e f fs hp.upd]
  simp only
  have hcl : (cleared e).tableSizeUpdate = false := rfl
  have htabc := pend_tabOK e t0 hp hM61
  obtain ⟨k, hkP, hk1, hloop⟩ := loop_update_prefix Gen.Hpack.varIntOverhead e t0 A { d with saveBuf := [] }
    (encodeAll (cleared e) (f :: fs)).2 [] hp (by simpa using hd) hfirst hM (by omega)
  have hlenB := encodeAll_length (f :: fs) (cleared e) hcl
  unfold Dec.write
  have hne : (updatePrefix e ++ (encodeAll (cleared e) (f :: fs)).2).isEmpty = false := by
    cases hu : updatePrefix e with
    | nil => rw [hu] at hkP; simp at hkP; omega
    | cons a r => rfl
  simp only [hne, Bool.false_eq_true, if_false, hsave, List.nil_append]
  have hfuel : (updatePrefix e ++ (encodeAll (cleared e) (f :: fs)).2).length + 1 =
      ((updatePrefix e).length - k + (encodeAll (cleared e) (f :: fs)).2.length + 1) + k := by
    simp only [List.length_append]; omega
  rw [hfuel, hloop]
  have := block_loop Gen.Hpack.varIntOverhead A (f :: fs) (cleared e)
    { tab := withAllowed e.tab A, saveBuf := [], firstField := d.firstField, maxStrLen := d.maxStrLen } []
    ((updatePrefix e).length - k + (encodeAll (cleared e) (f :: fs)).2.length + 1) rfl hcl htabc hadm (by omega)
  rw [this]
  refine ⟨{ tab := withAllowed (encodeAll (cleared e) (f :: fs)).1.tab A, saveBuf := [], firstField := false,
            maxStrLen := d.maxStrLen }, by simp, rfl, rfl, ?_⟩
  simp [Dec.close, Except.isOk, Except.toBool]

theorem resize_cap : ∀ (vs : List Nat) (e0 : Enc), vs ≠ [] → (vs.foldl Enc.setMaxSize e0).tab.maxSize ≤ e0.maxSizeLimit := by
  have hlim : ∀ (vs : List Nat) (e0 : Enc), (vs.foldl Enc.setMaxSize e0).maxSizeLimit = e0.maxSizeLimit := by
    intro vs
    induction vs with
    | nil => intro _; rfl
    | cons v r ih => intro e0; simp only [List.foldl_cons]; rw [ih]; rfl
  intro vs
  induction vs with
  | nil => intro _ h; exact absurd rfl h
  | cons v r ih =>
    intro e0 _
    have h1 : (e0.setMaxSize v).tab.maxSize ≤ e0.maxSizeLimit := by
      unfold Enc.setMaxSize
      simp only [DynTab.setMaxSize, DynTab.evict]
      split <;> omega
    cases r with
    | nil => exact h1
    | cons w r' =>
      have := ih (e0.setMaxSize v) (by simp)
      have hl : (e0.setMaxSize v).maxSizeLimit = e0.maxSizeLimit := rfl
      simp only [List.foldl_cons] at this ⊢
      omega

/-- HEADER-BLOCK ROUND TRIP ACROSS TABLE-SIZE CHANGES. Encoder and decoder hold identical tables; the encoder's owner then
calls `SetMaxDynamicTableSize` any number of times (`vs`, at least once; each value is capped by the encoder's limit), and
the next header block is encoded. If that limit is within what the decoder permits, `Decoder.Write` at the start of that
block accepts the announced size update(s) — the minimum reached in between, then the final size — emits exactly the
field list, reports no error, holds nothing back, and the two dynamic tables (entries, byte count AND limit) are identical
again: whatever was evicted on one side was evicted on the other. -/
theorem block_roundtrip_after_resize (e : Enc) (d : Dec) (vs : List Nat) (f : Field) (fs : List Field) (A : Nat)
    (hsync : d.tab = withAllowed e.tab A) (htab : TabOK e.tab)
    (hmin : e.tab.size ≤ e.minSize) (hlim : e.maxSizeLimit ≤ A) (hlim61 : e.maxSizeLimit < 2 ^ 61)
    (hvs : vs ≠ []) (hsave : d.saveBuf = []) (hfirst : d.firstField = true)
    (hadm : ∀ g ∈ f :: fs, Admits d.maxStrLen g.name ∧ Admits d.maxStrLen g.value) :
    ∃ d', d.write (encodeAll (vs.foldl Enc.setMaxSize e) (f :: fs)).2 = (d', f :: fs, none) ∧
      d'.tab = withAllowed (encodeAll (vs.foldl Enc.setMaxSize e) (f :: fs)).1.tab A ∧ d'.saveBuf = [] ∧
      (d'.close).isOk = true := by
  have hp : Pend (vs.foldl Enc.setMaxSize e) e.tab := pend_resize e vs hvs htab.1 hmin
  have hM := resize_cap vs e hvs
  exact block_roundtrip_pending _ e.tab d f fs A hp hsync (by omega) (by omega) hsave hfirst hadm

/-- non-vacuity: a fresh encoder / decoder pair (4096 / 4096), the table shrunk to 0 and re-grown to 2048 before a block of
two fields (one of them sensitive) -/
example : ∃ d', (Dec.new 4096).write (encodeAll ([0, 2048].foldl Enc.setMaxSize {})
      [{ name := strBytes "x-a", value := strBytes "1" }, { name := strBytes "cookie", value := strBytes "s", sensitive := true }]).2
      = (d', [{ name := strBytes "x-a", value := strBytes "1" }, { name := strBytes "cookie", value := strBytes "s", sensitive := true }], none) ∧
    d'.tab = withAllowed (encodeAll ([0, 2048].foldl Enc.setMaxSize {})
      [{ name := strBytes "x-a", value := strBytes "1" }, { name := strBytes "cookie", value := strBytes "s", sensitive := true }]).1.tab 4096 ∧
    d'.saveBuf = [] ∧ (d'.close).isOk = true :=
  block_roundtrip_after_resize {} (Dec.new 4096) [0, 2048] _ _ 4096 rfl ⟨rfl, by decide, by decide⟩ (by decide) (by decide) (by decide)
    (by decide) rfl rfl (by
      intro g hg
      simp only [List.mem_cons, List.not_mem_nil, or_false] at hg
      rcases hg with rfl | rfl <;> exact ⟨⟨by decide, Or.inl rfl⟩, ⟨by decide, Or.inl rfl⟩⟩)

end Fp.C18
