/-
C08 (continued) — the status-code gates on the RESPONSE path of the forked HTTP/2 server: `checkWriteHeaderCode` (which
status codes a handler — here httputil.ReverseProxy relaying the backend's status — may write) and `bodyAllowedForStatus`
(for which of them `responseWriter.write` accepts body bytes). Regenerated from the source on every run (Gen/H2Resp.lean)
and pinned; the model (Model/H2Resp.lean) is what the pinned text says and is compared with the two functions on every
status code 0..1100 by the `h2status` correspondence operation.
-/
import FpVerif.Gen.H2Resp
import FpVerif.Model.H2Resp
import FpVerif.Properties.C08_Body
set_option linter.unusedSimpArgs false
set_option linter.unusedVariables false
namespace Fp.C08
open Fp.H2Resp

theorem gen_ok_status : Gen.H2Resp.bodyAllowedCases =
      ["status>=100&&status<=199 => false", "status==204 => false", "status==304 => false"] ∧
    Gen.H2Resp.bodyAllowedDefault = "true" ∧ Gen.H2Resp.writeHeaderCodeRejected = "code<100||code>999" := by
  refine ⟨?_, ?_, ?_⟩ <;> first | rfl | (rfl)

/-- EVERY THREE-DIGIT STATUS PASSES: whatever status in 100..999 the backend answers with is accepted -/
theorem every_three_digit_status_accepted (code : Nat) : codeAccepted code = true ↔ 100 ≤ code ∧ code ≤ 999 := by
  unfold codeAccepted
  simp only [Bool.not_eq_true', Bool.or_eq_false_iff, decide_eq_false_iff_not]
  omega

/-- A BODY IS REFUSED ONLY WHERE HTTP FORBIDS ONE: informational responses, 204 and 304 (RFC 7230 3.3); every other status
— 200, 205, 206, 4xx, 5xx, 600..999 included — may carry the backend's body -/
theorem body_refused_iff (status : Nat) : bodyAllowed status = false ↔ (100 ≤ status ∧ status ≤ 199) ∨ status = 204 ∨ status = 304 := by
  unfold bodyAllowed
  split
  · simp; omega
  · split
    · simp; omega
    · split
      · simp; omega
      · simp; omega

/-- non-vacuity: 205 Reset Content may carry a body; 204 may not -/
example : bodyAllowed 205 = true ∧ bodyAllowed 204 = false ∧ codeAccepted 999 = true ∧ codeAccepted 1000 = false := by decide

end Fp.C08
