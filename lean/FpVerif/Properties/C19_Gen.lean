/-
C19 (continued) — facts REGENERATED from pkg/http2/frame.go on every run (FpVerif/Gen/Frame.lean) and the obligations
that tie the hand-written frame model to them: the type octets that have a parser (and which parser), the flag bits, the
reader's size constants, how `typeFrameParser` falls back for every other type octet, and the tests `checkFrameOrder`
makes, in order. An edit to one of these in the code breaks the corresponding `gen_ok_*` below even where behaviour is
unchanged; the differential then looks for an input on which behaviour differs.
-/
import FpVerif.Gen.Frame
import FpVerif.Properties.C19_Raw
set_option linter.unusedSimpArgs false
set_option linter.unusedVariables false
namespace Fp.C19
open Fp Fp.Frame

/-- the parser table: exactly the ten frame types of RFC 7540, each with its own parser -/
theorem gen_ok_parser_table : Gen.Frame.parserTable =
    [(0, "parseDataFrame"), (1, "parseHeadersFrame"), (2, "parsePriorityFrame"), (3, "parseRSTStreamFrame"),
     (4, "parseSettingsFrame"), (5, "parsePushPromise"), (6, "parsePingFrame"), (7, "parseGoAwayFrame"),
     (8, "parseWindowUpdateFrame"), (9, "parseContinuationFrame")] := by
  first | rfl | (rfl)

theorem gen_ok_frame_types : Gen.Frame.frameTypes =
    [("FrameData", 0), ("FrameHeaders", 1), ("FramePriority", 2), ("FrameRSTStream", 3), ("FrameSettings", 4),
     ("FramePushPromise", 5), ("FramePing", 6), ("FrameGoAway", 7), ("FrameWindowUpdate", 8), ("FrameContinuation", 9)] := by
  first | rfl | (rfl)

theorem gen_ok_flags : Gen.Frame.flagBits =
    [("FlagDataEndStream", 1), ("FlagHeadersEndStream", 1), ("FlagPingAck", 1), ("FlagSettingsAck", 1),
     ("FlagContinuationEndHeaders", 4), ("FlagHeadersEndHeaders", 4), ("FlagPushPromiseEndHeaders", 4),
     ("FlagDataPadded", 8), ("FlagHeadersPadded", 8), ("FlagPushPromisePadded", 8), ("FlagHeadersPriority", 32)] := by
  first | rfl | (rfl)

/-- a type octet without an entry in the table gets `parseUnknownFrame` — a map lookup that cannot go out of range -/
theorem gen_ok_type_dispatch : Gen.Frame.typeFrameParserBody =
    ["iff:=frameParsers[t];f!=nil{returnf}", "returnparseUnknownFrame"] := by
  first | rfl | (rfl)

/-- the tests of `checkFrameOrder`, in order: inside a header block anything but a CONTINUATION (whatever its type,
extension types included) and a CONTINUATION of another stream are connection errors; outside one, a CONTINUATION is; then
HEADERS / CONTINUATION open or close the block by END_HEADERS -/
theorem gen_ok_frame_order : Gen.Frame.checkFrameOrderTests =
    ["if fr.AllowIllegalReads", "return nil", "if fr.lastHeaderStream!=0", "if fh.Type!=FrameContinuation", "return error",
     "if fh.StreamID!=fr.lastHeaderStream", "return error", "if fh.Type==FrameContinuation", "return error",
     "switch fh.Type", "case FrameHeaders,FrameContinuation", "if fh.Flags.Has(FlagHeadersEndHeaders)", "return nil"] := by
  first | rfl | (rfl)

theorem gen_ok_sizes : Gen.Frame.frameHeaderLen = 9 ∧ Gen.Frame.minMaxFrameSize = 16384 ∧ Gen.Frame.maxFrameSize = 16777215 := by
  decide

/-- MODEL ↔ TABLE: the model's dispatcher treats a type octet as unknown exactly when the code's table has no entry for
it; for every such octet the payload comes back opaque -/
theorem model_dispatch_matches_table (ty flags sid : Nat) (p : Bytes) :
    ty ∉ Gen.Frame.parserTable.map (·.1) → parsePayload ty flags sid p = .ok (.unknown ty sid flags p) := by
  intro h
  rw [gen_ok_parser_table] at h
  simp only [List.map_cons, List.map_nil, List.mem_cons, List.not_mem_nil, or_false, not_or] at h
  exact parsePayload_unknown ty flags sid p (by omega)

theorem model_known_types (ty : Nat) : ty ∈ Gen.Frame.parserTable.map (·.1) ↔ ty < 10 := by
  rw [gen_ok_parser_table]
  simp only [List.map_cons, List.map_nil, List.mem_cons, List.not_mem_nil, or_false]
  omega

/-- the size limits the model's reader and writers use are the code's constants -/
theorem model_sizes : (Gen.Frame.maxFrameSize + 1 = 16777216) ∧ Gen.Frame.frameHeaderLen = 9 := by decide

end Fp.C19
