/-
C15 — probe requests are answered locally; everything else is forwarded.
Model: Fp.Proxy.serve / isProbe (pkg/reverseproxy/handler.go ServeHTTP, IsKubernetesProbeRequest).
-/
import FpVerif.Lemmas.Proxy
import FpVerif.Gen.Proxy
namespace Fp.C15
open Fp Fp.Proxy Fp.Spec.Proxy

/-- Obligation on the facts REGENERATED from the source: the probe test is a prefix test of the first
User-Agent value against "kube-probe/", the local answer is 200 "OK". -/
theorem gen_ok : Gen.Proxy.probeTest = "strings.HasPrefix(r.UserAgent(),\"kube-probe/\")" ∧
    Gen.Proxy.probePrefix = "kube-probe/" ∧ Gen.Proxy.probeStatus = 200 ∧ Gen.Proxy.probeBody = "OK" ∧
    Gen.Proxy.serveSteps =
      ["iff.IsProbeRequest!=nil&&f.IsProbeRequest(req){w.WriteHeader(ProbeStatusCode)w.Write([]byte(ProbeResponse))return}",
       "f.reverseProxy.ServeHTTP(w,req)"] ∧
    Gen.Proxy.handlerWiring =
      ["handler.PreserveHost=*flagPreserveHost",
       "if*flagEnableKubernetesProbe{handler.IsProbeRequest=reverseproxy.IsKubernetesProbeRequest}", "returnhandler"] := by
  first | rfl | (refine ⟨?_, ?_, ?_, ?_, ?_, ?_⟩ <;> rfl)

/-- SPECIFICATION: the request's User-Agent (first header line) begins with "kube-probe/". -/
def uaBeginsWithProbe (i : InReq) : Prop :=
  ∃ rest, (get i.hdr (strBytes "User-Agent")).head? = some (strBytes "kube-probe/" ++ rest)

theorem isProbe_iff (i : InReq) : isProbe i = true ↔ uaBeginsWithProbe i := by
  unfold isProbe uaBeginsWithProbe
  cases hg : get i.hdr (strBytes "User-Agent") with
  | nil => simp [List.headD]; decide
  | cons v r =>
    simp only [List.headD_cons, List.head?_cons, Option.some.injEq]
    rw [List.isPrefixOf_iff_prefix]
    constructor
    · rintro ⟨t, ht⟩; exact ⟨t, ht.symm⟩
    · rintro ⟨t, ht⟩; exact ⟨t, ht.symm⟩

theorem uaProbe_iff (i : InReq) : uaProbe i = true ↔ uaBeginsWithProbe i := by
  unfold uaProbe uaBeginsWithProbe
  cases hg : get i.hdr (strBytes "User-Agent") with
  | nil => simp
  | cons v r =>
    simp only [List.head?_cons, Option.some.injEq, beq_iff_eq]
    constructor
    · intro h; exact ⟨v.drop 11, by rw [← h, List.take_append_drop]⟩
    · rintro ⟨t, rfl⟩; rw [List.take_left' (by decide)]

/-- MAIN THEOREM: exactly one of the two routes; local answer (200, "OK") iff probe support is enabled
and the User-Agent begins with the prefix. -/
theorem route_exclusive (c : Cfg) (i : InReq) :
    (serve c i = .local 200 (strBytes "OK") ↔ (c.probe = true ∧ uaBeginsWithProbe i)) ∧
    (¬ (c.probe = true ∧ uaBeginsWithProbe i) → serve c i = .forward (rewrite c i)) := by
  unfold serve
  rw [← isProbe_iff]
  by_cases h : (c.probe && isProbe i) = true
  · have h2 : c.probe = true ∧ isProbe i = true := by simpa using h
    simp [h, h2]
  · have h2 : ¬ (c.probe = true ∧ isProbe i = true) := by simpa using h
    simp [h, h2]

/-- With probe support disabled every request is forwarded. -/
theorem disabled_forwards (c : Cfg) (i : InReq) (h : c.probe = false) : serve c i = .forward (rewrite c i) := by
  simp [serve, h]

/-- A request that merely CONTAINS the text elsewhere in the User-Agent is forwarded (instance). -/
example : isProbe { method := [], path := [], query := [], host := [], remoteAddr := [], tls := true,
                    hdr := [(strBytes "User-Agent", [strBytes "x kube-probe/1.27"])] } = false := by decide
example : isProbe { method := [], path := [], query := [], host := [], remoteAddr := [], tls := true,
                    hdr := [(strBytes "User-Agent", [strBytes "kube-probe/1.27"]), (strBytes "X-Other", [strBytes "kube-probe/"])] } = true := by decide

end Fp.C15
