/-
C19 (continued) — write → read round trips for the remaining frame layouts: CONTINUATION (reader expecting it),
HEADERS with a priority block, HEADERS with padding, PUSH_PROMISE.
-/
import FpVerif.Properties.C19
set_option linter.unusedSimpArgs false
set_option linter.unusedVariables false
namespace Fp.C19
open Fp Fp.Frame

/-- CONTINUATION round trip: after HEADERS without END_HEADERS on stream `sid` (the reader's `lastHeaderStream`), a
CONTINUATION frame on that stream reads back; END_HEADERS ends the expectation -/
theorem continuation_roundtrip (sid : Nat) (endHeaders : Bool) (frag rest : Bytes) (max : Nat)
    (hsid : 0 < sid ∧ sid < 2147483648) (hm : frag.length ≤ max) (hm2 : frag.length < 16777216) :
    ∃ w, writeContinuation sid endHeaders frag = .ok w ∧
      readFrame max sid (w ++ rest) =
        (.ok (.continuation sid (if endHeaders then 4 else 0) frag), if endHeaders then 0 else sid, rest) := by
  have hvs : validStreamID sid = true := by simp [validStreamID]; omega
  have hw : writeContinuation sid endHeaders frag = rawFrame 9 (if endHeaders then 4 else 0) sid frag := by
    simp [writeContinuation, hvs]
  rw [hw]
  refine ⟨_, rawFrame_ok 9 _ sid frag hm2, ?_⟩
  rw [header_roundtrip 9 _ sid frag rest _ max sid (by omega) (by split <;> omega) hsid.2 hm (rawFrame_ok 9 _ sid frag hm2)]
  unfold finishFrame
  have hp : parsePayload 9 (if endHeaders then 4 else 0) sid frag = .ok (.continuation sid (if endHeaders then 4 else 0) frag) := by
    simp only [parsePayload]
    unfold parseContinuation
    rw [if_neg (by omega)]
  have hc : checkOrder sid 9 (if endHeaders then 4 else 0) sid = .ok (if endHeaders then 0 else sid) := by
    have hne : sid ≠ 0 := by omega
    unfold checkOrder
    cases endHeaders <;> simp [hasFlag, hne]
  rw [hp, hc]

/-- HEADERS round trip WITH a priority block (any non-zero priority: dependency below 2^31, exclusive bit, weight byte),
no padding -/
theorem headers_priority_roundtrip (sid : Nat) (endStream endHeaders : Bool) (frag rest : Bytes) (max : Nat)
    (dep weight : Nat) (excl : Bool) (hsid : 0 < sid ∧ sid < 2147483648) (hd : dep < 2147483648) (hwt : weight < 256)
    (hnz : prioIsZero { dep := dep, excl := excl, weight := weight } = false)
    (hm : 5 + frag.length ≤ max) (hm2 : 5 + frag.length < 16777216) :
    ∃ w, writeHeaders sid frag endStream endHeaders 0 { dep := dep, excl := excl, weight := weight } = .ok w ∧
      readFrame max 0 (w ++ rest) =
        (.ok (.headers sid ((if endStream then 1 else 0) + (if endHeaders then 4 else 0) + 32)
                { dep := dep, excl := excl, weight := weight } frag),
         if endHeaders then 0 else sid, rest) := by
  have hvs : validStreamID sid = true := by simp [validStreamID]; omega
  have hw : writeHeaders sid frag endStream endHeaders 0 { dep := dep, excl := excl, weight := weight } =
      rawFrame 1 ((if endStream then 1 else 0) + (if endHeaders then 4 else 0) + 32) sid
        (be32 (dep + (if excl then 2147483648 else 0)) ++ [UInt8.ofNat weight] ++ frag) := by
    simp only [writeHeaders, hvs, hnz]
    simp
    omega
  rw [hw]
  have hpb := prio_bytes dep excl weight hd hwt
  have hlen5 : (be32 (dep + (if excl then 2147483648 else 0)) ++ [UInt8.ofNat weight]).length = 5 := rfl
  generalize hpl : be32 (dep + (if excl then 2147483648 else 0)) ++ [UInt8.ofNat weight] = pb at hpb hlen5 ⊢
  apply flagged_roundtrip 1 _ sid _ rest max _ _ (by omega) (by cases endStream <;> cases endHeaders <;> simp) hsid.2
    (by simp only [List.length_append]; omega) (by simp only [List.length_append]; omega)
  · simp only [parsePayload]
    unfold parseHeaders
    have hf8 : hasFlag ((if endStream then 1 else 0) + (if endHeaders then 4 else 0) + 32) 8 = false := by
      cases endStream <;> cases endHeaders <;> rfl
    have hf32 : hasFlag ((if endStream then 1 else 0) + (if endHeaders then 4 else 0) + 32) 32 = true := by
      cases endStream <;> cases endHeaders <;> rfl
    rw [if_neg (by omega)]
    simp only [hf8, hf32, padLenOf, afterPad, Bool.false_eq_true, false_and, if_false, if_true]
    rw [if_neg (by simp only [List.length_append]; omega), if_neg (by omega)]
    have hdrop : (pb ++ frag).drop 5 = frag := by rw [← hlen5]; exact List.drop_left' rfl
    have hprio : prioOf (pb ++ frag) = prioOf pb := by
      obtain ⟨a, b, c, d, e, rfl⟩ : ∃ a b c d e, pb = [a, b, c, d, e] := by
        rcases pb with _ | ⟨a, _ | ⟨b, _ | ⟨c, _ | ⟨d, _ | ⟨e, _ | ⟨f, r⟩⟩⟩⟩⟩⟩ <;> simp at hlen5
        exact ⟨a, b, c, d, e, rfl⟩
      simp [prioOf, u32be]
    rw [hdrop, hprio, hpb]
    simp
  · unfold checkOrder
    cases endStream <;> cases endHeaders <;> simp [hasFlag]

/-- PUSH_PROMISE round trip (no padding): promised stream id below 2^31 and the header block fragment -/
theorem push_promise_roundtrip (sid promise : Nat) (endHeaders : Bool) (frag rest : Bytes) (max : Nat)
    (hsid : 0 < sid ∧ sid < 2147483648) (hp : 0 < promise ∧ promise < 2147483648)
    (hm : 4 + frag.length ≤ max) (hm2 : 4 + frag.length < 16777216) :
    ∃ w, writePushPromise sid promise frag endHeaders 0 = .ok w ∧
      readFrame max 0 (w ++ rest) = (.ok (.pushPromise sid (if endHeaders then 4 else 0) promise frag), 0, rest) := by
  have hvs : validStreamID sid = true := by simp [validStreamID]; omega
  have hvp : validStreamID promise = true := by simp [validStreamID]; omega
  have hw : writePushPromise sid promise frag endHeaders 0 = rawFrame 5 (if endHeaders then 4 else 0) sid (be32 promise ++ frag) := by
    simp [writePushPromise, hvs, hvp]
  rw [hw]
  have hv : u32be (be32 promise ++ frag) = promise := u32be_be32 promise (by omega) frag
  have hlen4 : (be32 promise).length = 4 := rfl
  apply flagged_roundtrip 5 _ sid _ rest max _ 0 (by omega) (by split <;> omega) hsid.2
    (by simp only [List.length_append]; omega) (by simp only [List.length_append]; omega)
  · simp only [parsePayload]
    unfold parsePushPromise
    have hf8 : hasFlag (if endHeaders then 4 else 0) 8 = false := by cases endHeaders <;> rfl
    rw [if_neg (by omega)]
    simp only [hf8, padLenOf, afterPad, Bool.false_eq_true, false_and, if_false]
    rw [if_neg (by simp only [List.length_append]; omega), if_neg (by omega)]
    have hdrop : (be32 promise ++ frag).drop 4 = frag := by rw [← hlen4]; exact List.drop_left' rfl
    rw [hdrop, hv, Nat.mod_eq_of_lt hp.2]
    simp
  · unfold checkOrder; simp

/-- HEADERS round trip WITH padding (1..255 zero octets) and no priority block: the reader strips the pad-length octet
and the padding and returns exactly the fragment -/
theorem headers_padded_roundtrip (sid : Nat) (endStream endHeaders : Bool) (frag rest : Bytes) (padLen max : Nat)
    (hsid : 0 < sid ∧ sid < 2147483648) (hp : 1 ≤ padLen ∧ padLen ≤ 255) (hm : 1 + frag.length + padLen ≤ max)
    (hm2 : 1 + frag.length + padLen < 16777216) :
    ∃ w, writeHeaders sid frag endStream endHeaders padLen noPrio = .ok w ∧
      readFrame max 0 (w ++ rest) =
        (.ok (.headers sid (8 + (if endStream then 1 else 0) + (if endHeaders then 4 else 0)) noPrio frag),
         if endHeaders then 0 else sid, rest) := by
  have hvs : validStreamID sid = true := by simp [validStreamID]; omega
  have hpn : padLen ≠ 0 := by omega
  have hw : writeHeaders sid frag endStream endHeaders padLen noPrio =
      rawFrame 1 (8 + (if endStream then 1 else 0) + (if endHeaders then 4 else 0)) sid
        ([UInt8.ofNat padLen] ++ frag ++ List.replicate padLen 0) := by
    simp [writeHeaders, hvs, noPrio, prioIsZero, hpn]
  rw [hw]
  apply flagged_roundtrip 1 _ sid _ rest max _ _ (by omega) (by cases endStream <;> cases endHeaders <;> simp) hsid.2
    (by simp; omega) (by simp; omega)
  · simp only [parsePayload]
    unfold parseHeaders
    have hf8 : hasFlag (8 + (if endStream then 1 else 0) + (if endHeaders then 4 else 0)) 8 = true := by
      cases endStream <;> cases endHeaders <;> rfl
    have hf32 : hasFlag (8 + (if endStream then 1 else 0) + (if endHeaders then 4 else 0)) 32 = false := by
      cases endStream <;> cases endHeaders <;> rfl
    rw [if_neg (by omega)]
    simp only [hf8, hf32, padLenOf, afterPad, if_true, Bool.false_eq_true, if_false]
    rw [if_neg (by simp)]
    have hhead : (([UInt8.ofNat padLen] ++ frag ++ List.replicate padLen (0 : UInt8)).headD 0).toNat = padLen := by
      simp [u8 padLen (by omega)]
    have hdrop : ([UInt8.ofNat padLen] ++ frag ++ List.replicate padLen (0 : UInt8)).drop 1 = frag ++ List.replicate padLen 0 := by
      simp
    rw [hhead, hdrop]
    rw [if_neg (by simp)]
    simp
  · unfold checkOrder
    cases endStream <;> cases endHeaders <;> simp [hasFlag]

/-- HEADERS round trip with BOTH padding (1..255 zero octets) and a non-zero priority block -/
theorem headers_padded_priority_roundtrip (sid : Nat) (endStream endHeaders : Bool) (frag rest : Bytes) (padLen max : Nat)
    (dep weight : Nat) (excl : Bool) (hsid : 0 < sid ∧ sid < 2147483648) (hd : dep < 2147483648) (hwt : weight < 256)
    (hnz : prioIsZero { dep := dep, excl := excl, weight := weight } = false)
    (hp : 1 ≤ padLen ∧ padLen ≤ 255) (hm : 6 + frag.length + padLen ≤ max) (hm2 : 6 + frag.length + padLen < 16777216) :
    ∃ w, writeHeaders sid frag endStream endHeaders padLen { dep := dep, excl := excl, weight := weight } = .ok w ∧
      readFrame max 0 (w ++ rest) =
        (.ok (.headers sid (8 + (if endStream then 1 else 0) + (if endHeaders then 4 else 0) + 32)
                { dep := dep, excl := excl, weight := weight } frag),
         if endHeaders then 0 else sid, rest) := by
  have hvs : validStreamID sid = true := by simp [validStreamID]; omega
  have hpn : padLen ≠ 0 := by omega
  have hw : writeHeaders sid frag endStream endHeaders padLen { dep := dep, excl := excl, weight := weight } =
      rawFrame 1 (8 + (if endStream then 1 else 0) + (if endHeaders then 4 else 0) + 32) sid
        ([UInt8.ofNat padLen] ++ (be32 (dep + (if excl then 2147483648 else 0)) ++ [UInt8.ofNat weight]) ++ frag ++ List.replicate padLen 0) := by
    simp only [writeHeaders, hvs, hnz, hpn]
    simp
    rw [if_neg (by omega), if_neg hpn, if_neg hpn]
    simp
  rw [hw]
  have hpb := prio_bytes dep excl weight hd hwt
  have hlen5 : (be32 (dep + (if excl then 2147483648 else 0)) ++ [UInt8.ofNat weight]).length = 5 := rfl
  generalize hpl : be32 (dep + (if excl then 2147483648 else 0)) ++ [UInt8.ofNat weight] = pb at hpb hlen5 ⊢
  apply flagged_roundtrip 1 _ sid _ rest max _ _ (by omega) (by cases endStream <;> cases endHeaders <;> simp) hsid.2
    (by simp only [List.length_append, List.length_cons, List.length_nil, List.length_replicate]; omega)
    (by simp only [List.length_append, List.length_cons, List.length_nil, List.length_replicate]; omega)
  · simp only [parsePayload]
    unfold parseHeaders
    have hf8 : hasFlag (8 + (if endStream then 1 else 0) + (if endHeaders then 4 else 0) + 32) 8 = true := by
      cases endStream <;> cases endHeaders <;> rfl
    have hf32 : hasFlag (8 + (if endStream then 1 else 0) + (if endHeaders then 4 else 0) + 32) 32 = true := by
      cases endStream <;> cases endHeaders <;> rfl
    rw [if_neg (by omega)]
    simp only [hf8, hf32, padLenOf, afterPad, if_true]
    rw [if_neg (by simp)]
    have hhead : (([UInt8.ofNat padLen] ++ pb ++ frag ++ List.replicate padLen (0 : UInt8)).headD 0).toNat = padLen := by
      simp [u8 padLen (by omega)]
    have hdrop1 : ([UInt8.ofNat padLen] ++ pb ++ frag ++ List.replicate padLen (0 : UInt8)).drop 1 = pb ++ (frag ++ List.replicate padLen 0) := by
      simp
    rw [hhead, hdrop1]
    have hdrop5 : (pb ++ (frag ++ List.replicate padLen (0 : UInt8))).drop 5 = frag ++ List.replicate padLen 0 := by
      rw [← hlen5]; exact List.drop_left' rfl
    rw [if_neg (by simp only [List.length_append, List.length_replicate]; omega), hdrop5]
    rw [if_neg (by simp)]
    have hprio : prioOf (pb ++ (frag ++ List.replicate padLen (0 : UInt8))) = prioOf pb := by
      obtain ⟨a, b, c, d, e, rfl⟩ : ∃ a b c d e, pb = [a, b, c, d, e] := by
        rcases pb with _ | ⟨a, _ | ⟨b, _ | ⟨c, _ | ⟨d, _ | ⟨e, _ | ⟨f, r⟩⟩⟩⟩⟩⟩ <;> simp at hlen5
        exact ⟨a, b, c, d, e, rfl⟩
      simp [prioOf, u32be]
    rw [hprio, hpb]
    simp
  · unfold checkOrder
    cases endStream <;> cases endHeaders <;> simp [hasFlag]

/-- PUSH_PROMISE round trip with padding -/
theorem push_promise_padded_roundtrip (sid promise : Nat) (endHeaders : Bool) (frag rest : Bytes) (padLen max : Nat)
    (hsid : 0 < sid ∧ sid < 2147483648) (hp : 0 < promise ∧ promise < 2147483648) (hpad : 1 ≤ padLen ∧ padLen ≤ 255)
    (hm : 5 + frag.length + padLen ≤ max) (hm2 : 5 + frag.length + padLen < 16777216) :
    ∃ w, writePushPromise sid promise frag endHeaders padLen = .ok w ∧
      readFrame max 0 (w ++ rest) = (.ok (.pushPromise sid (8 + (if endHeaders then 4 else 0)) promise frag), 0, rest) := by
  have hvs : validStreamID sid = true := by simp [validStreamID]; omega
  have hvp : validStreamID promise = true := by simp [validStreamID]; omega
  have hpn : padLen ≠ 0 := by omega
  have hw : writePushPromise sid promise frag endHeaders padLen =
      rawFrame 5 (8 + (if endHeaders then 4 else 0)) sid ([UInt8.ofNat padLen] ++ be32 promise ++ frag ++ List.replicate padLen 0) := by
    simp [writePushPromise, hvs, hvp, hpn]
  rw [hw]
  have hlen4 : (be32 promise).length = 4 := rfl
  apply flagged_roundtrip 5 _ sid _ rest max _ 0 (by omega) (by split <;> omega) hsid.2
    (by simp only [List.length_append, List.length_cons, List.length_nil, List.length_replicate, hlen4]; omega)
    (by simp only [List.length_append, List.length_cons, List.length_nil, List.length_replicate, hlen4]; omega)
  · simp only [parsePayload]
    unfold parsePushPromise
    have hf8 : hasFlag (8 + (if endHeaders then 4 else 0)) 8 = true := by cases endHeaders <;> rfl
    rw [if_neg (by omega)]
    simp only [hf8, padLenOf, afterPad, if_true]
    rw [if_neg (by simp)]
    have hhead : (([UInt8.ofNat padLen] ++ be32 promise ++ frag ++ List.replicate padLen (0 : UInt8)).headD 0).toNat = padLen := by
      simp [u8 padLen (by omega)]
    have hdrop1 : ([UInt8.ofNat padLen] ++ be32 promise ++ frag ++ List.replicate padLen (0 : UInt8)).drop 1 =
        be32 promise ++ (frag ++ List.replicate padLen 0) := by simp
    rw [hhead, hdrop1]
    have hdrop4 : (be32 promise ++ (frag ++ List.replicate padLen (0 : UInt8))).drop 4 = frag ++ List.replicate padLen 0 := by
      rw [← hlen4]; exact List.drop_left' rfl
    have hv : u32be (be32 promise ++ (frag ++ List.replicate padLen (0 : UInt8))) = promise := u32be_be32 promise (by omega) _
    rw [if_neg (by simp only [List.length_append, List.length_replicate, hlen4]; omega), hdrop4]
    rw [if_neg (by simp)]
    rw [hv, Nat.mod_eq_of_lt hp.2]
    simp
  · unfold checkOrder; simp

end Fp.C19
