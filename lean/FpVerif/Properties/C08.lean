/-
C08 — requests and responses pass through the proxy unchanged.

Three layers, each a model tied to the code by its own differential stream:
  * the request-body path of the forked HTTP/2 server: dataBuffer (databuffer.go) and pipe (pipe.go) refine a FIFO
    byte queue for every sequence of writes, reads and close — no byte lost, duplicated, reordered or invented;
  * the request rewrite (handler.go rewriteFunc + the httputil.ReverseProxy prelude, Model/Proxy.lean): method,
    path, query and every end-to-end header are forwarded unaltered, Host follows the PreserveHost rule;
  * end to end (real proxy stack, both protocols, bodies up to MiBs in arbitrary pieces, trailers, concurrency):
    differential stream `pass` with the identity specification as oracle.
-/
import FpVerif.Lemmas.DataBuf
import FpVerif.Lemmas.Proxy
import FpVerif.Gen.Proxy
set_option linter.unusedSimpArgs false
set_option linter.unusedVariables false
namespace Fp.C08
open Fp Fp.DBuf

/-! ### dataBuffer -/

/-- Write appends exactly `p`, whatever the chunking (size classes, `expected` hint) -/
theorem dbuf_write_appends {α} (b : DBuf α) (p : List α) (h : Inv b) :
    contents (write b p) = contents b ++ p ∧ Inv (write b p) := write_spec b p h

/-- Read returns the oldest `min n size` bytes in order and keeps the rest; empty buffer → error -/
theorem dbuf_read_prefix {α} (b : DBuf α) (n : Nat) (h : Inv b) :
    (contents b = [] → read b n = none) ∧
    (contents b ≠ [] → ∃ b', read b n = some (b', (contents b).take n) ∧ contents b' = (contents b).drop n ∧ Inv b') :=
  read_spec b n h

inductive BOp (α : Type) | write (p : List α) | read (n : Nat)

/-- run a sequence of buffer operations; returns the buffer, all bytes written and all bytes read so far -/
def brun {α} : DBuf α → List (BOp α) → DBuf α × List α × List α
  | b, [] => (b, [], [])
  | b, .write p :: r => let (b', w, rd) := brun (write b p) r; (b', p ++ w, rd)
  | b, .read n :: r =>
    match read b n with
    | some (b1, d) => let (b', w, rd) := brun b1 r; (b', w, d ++ rd)
    | none => brun b r

/-- FIFO FOR EVERY OPERATION SEQUENCE: whatever was read, followed by what is still buffered, is exactly what
was buffered at the start followed by everything written — for all sequences, sizes and chunkings. -/
theorem dbuf_fifo {α} (ops : List (BOp α)) : ∀ (b : DBuf α), Inv b →
    (brun b ops).2.2 ++ contents (brun b ops).1 = contents b ++ (brun b ops).2.1 ∧ Inv (brun b ops).1 := by
  induction ops with
  | nil => intro b h; simp [brun, h]
  | cons op r ih =>
    intro b h
    cases op with
    | write p =>
      obtain ⟨hc, hi⟩ := write_spec b p h
      have := ih (write b p) hi
      simp only [brun]
      rw [hc] at this
      refine ⟨?_, this.2⟩
      rw [this.1, List.append_assoc]
    | read n =>
      by_cases hc : contents b = []
      · have := (read_spec b n h).1 hc
        simp only [brun, this]
        exact ih b h
      · obtain ⟨b1, hr, hcont, hi⟩ := (read_spec b n h).2 hc
        have := ih b1 hi
        simp only [brun, hr]
        refine ⟨?_, this.2⟩
        rw [List.append_assoc, this.1, hcont, ← List.append_assoc, List.take_append_drop]

/-- non-vacuity: a 3000-byte body in pieces crossing chunk boundaries, with a Content-Length hint -/
example : (brun ({ expected := 3000 } : DBuf Nat)
    [.write (List.range 1000), .read 10, .write (List.range 2000), .read 5000, .read 1]).2.2
    = List.range 1000 ++ List.range 2000 := by decide +kernel

/-! ### pipe -/

def PInv {α} (p : Pipe α) : Prop := ∀ b, p.b = some b → Inv b

def pending {α} (p : Pipe α) : List α := match p.b with | some b => contents b | none => []

theorem pWrite_spec {α} (p : Pipe α) (d : List α) (h : PInv p) :
    (∃ p', pWrite p d = (p', .ok d.length) ∧ pending p' = pending p ++ d ∧ PInv p' ∧
        p'.err = p.err ∧ p'.breakErr = p.breakErr) ∨
    (pWrite p d = (p, .closed) ∧ (p.err.isSome ∨ p.breakErr.isSome)) ∨
    (pWrite p d = (p, .uninit)) := by
  unfold pWrite
  by_cases hc : p.err.isSome = true ∨ p.breakErr.isSome = true
  · right; left; simp [hc]
  · simp only [hc, if_false]
    cases hb : p.b with
    | none => right; right; rfl
    | some b =>
      left
      obtain ⟨hcont, hinv⟩ := write_spec b d (h b hb)
      refine ⟨_, rfl, ?_, ?_, rfl, rfl⟩
      · simp [pending, hb, hcont]
      · intro b' hb'; simp at hb'; subst hb'; exact hinv

/-- what a reader gets: data only from the front of the pending bytes; the close error only once everything
written before it has been delivered; never an error out of the buffer -/
theorem pRead_spec {α} (p : Pipe α) (n : Nat) (h : PInv p) (hbrk : p.breakErr = none) :
    (∃ p', pRead p n = (p', .data ((pending p).take n)) ∧ pending p ≠ [] ∧ pending p' = (pending p).drop n ∧
        PInv p' ∧ p'.err = p.err ∧ p'.breakErr = none) ∨
    (∃ e p', pRead p n = (p', .err e) ∧ pending p = [] ∧ p.err = some e) ∨
    (pRead p n = (p, .wouldBlock) ∧ pending p = [] ∧ p.err = none) := by
  unfold pRead
  simp only [hbrk]
  cases hb : p.b with
  | none =>
    cases he : p.err with
    | none => right; right; simp [pending, hb]
    | some e => right; left; exact ⟨e, _, rfl, by simp [pending, hb], rfl⟩
  | some b =>
    have hi := h b hb
    have hsz := hi.sizeOk
    by_cases hs : b.size > 0
    · simp only [hs, if_true]
      have hne : contents b ≠ [] := by
        intro hc; rw [hc] at hsz; simp at hsz; omega
      obtain ⟨b', hr, hcont, hinv⟩ := (read_spec b n hi).2 hne
      left
      have hpend : pending p = contents b := by simp [pending, hb]
      rw [hr, hpend]
      simp only
      refine ⟨_, rfl, hne, ?_, ?_, rfl, by simp [hbrk]⟩
      · simp [pending, hcont]
      · intro b'' hb''; simp at hb''; subst hb''; exact hinv
    · simp only [hs, if_false]
      have hc : contents b = [] := by
        apply List.length_eq_zero_iff.mp; omega
      cases he : p.err with
      | none => right; right; simp [pending, hb, hc]
      | some e => right; left; exact ⟨e, _, rfl, by simp [pending, hb, hc], rfl⟩

inductive POp (α : Type) | write (d : List α) | read (n : Nat) | close (e : PErr)

/-- run pipe operations (DATA frames arriving = write, handler reading the body = read, END_STREAM / reset = close)
up to the first error handed to the reader; returns the pipe, the bytes accepted, the bytes delivered and that error -/
def prun {α} : Pipe α → List (POp α) → Pipe α × List α × List α × Option PErr
  | p, [] => (p, [], [], none)
  | p, .write d :: r =>
    match pWrite p d with
    | (p', .ok _) => let (q, a, dl, e) := prun p' r; (q, d ++ a, dl, e)
    | (p', _) => prun p' r
  | p, .read n :: r =>
    match pRead p n with
    | (p', .data d) => let (q, a, dl, e) := prun p' r; (q, a, d ++ dl, e)
    | (p', .err e) => (p', [], [], some e)
    | (p', _) => prun p' r
  | p, .close e :: r => prun (pClose p e) r

theorem pClose_spec {α} (p : Pipe α) (e : PErr) (h : PInv p) (hb : p.breakErr = none) :
    PInv (pClose p e) ∧ pending (pClose p e) = pending p ∧ (pClose p e).breakErr = none := by
  unfold pClose
  split
  · exact ⟨h, rfl, hb⟩
  · exact ⟨h, rfl, hb⟩

/-- THE BODY READER SEES EXACTLY THE BYTES THE PEER SENT, THEN THE END: for every interleaving of DATA arrivals,
body reads of any size and the close, (1) what was delivered plus what is still pending equals what was pending
plus what was accepted, and (2) if the reader has been handed the close error (io.EOF for END_STREAM), every
accepted byte had been delivered before it. -/
theorem pipe_fifo {α} (ops : List (POp α)) : ∀ (p : Pipe α), PInv p → p.breakErr = none →
    let res := prun p ops
    (res.2.2.2 = none → res.2.2.1 ++ pending res.1 = pending p ++ res.2.1) ∧
    (res.2.2.2 ≠ none → res.2.2.1 = pending p ++ res.2.1) := by
  induction ops with
  | nil => intro p h hb; simp [prun]
  | cons op r ih =>
    intro p h hb
    cases op with
    | write d =>
      rcases pWrite_spec p d h with ⟨p', hw, hpend, hinv, he, hbe⟩ | ⟨hw, _⟩ | hw
      · have := ih p' hinv (by rw [hbe]; exact hb)
        simp only [prun, hw]
        simp only at this
        rw [hpend] at this
        constructor
        · intro hn; rw [this.1 hn, List.append_assoc]
        · intro hn; rw [this.2 hn, List.append_assoc]
      · simp only [prun, hw]; exact ih p h hb
      · simp only [prun, hw]; exact ih p h hb
    | read n =>
      rcases pRead_spec p n h hb with ⟨p', hr, hne, hpend, hinv, he, hbe⟩ | ⟨e, p', hr, hpend, he⟩ | ⟨hr, _, _⟩
      · have := ih p' hinv hbe
        simp only [prun, hr]
        simp only at this
        rw [hpend] at this
        constructor
        · intro hn
          rw [List.append_assoc, this.1 hn, ← List.append_assoc, List.take_append_drop]
        · intro hn
          rw [this.2 hn, ← List.append_assoc, List.take_append_drop]
      · simp only [prun, hr]
        simp [hpend]
      · simp only [prun, hr]; exact ih p h hb
    | close e =>
      obtain ⟨hinv, hpend, hbe⟩ := pClose_spec p e h hb
      have := ih (pClose p e) hinv hbe
      simp only [prun]
      rw [hpend] at this
      exact this

/-- non-vacuity: DATA, a short read, more DATA, END_STREAM, reads to EOF: everything arrives, then EOF -/
example : (prun ({ b := some ({ expected := 7 } : DBuf Nat) } : Pipe Nat)
    [.write [1, 2, 3], .read 2, .write [4, 5, 6, 7], .close .eof, .read 100, .read 100]).2.2
    = ([1, 2, 3, 4, 5, 6, 7], some .eof) := by decide

/-! ### request rewrite: what is forwarded unaltered -/
open Fp.Proxy Fp.Spec.Proxy

/-- Obligation on the statements of `rewriteFunc` REGENERATED from the source: the URL is rewritten by SetURL and the
inbound raw query is restored (D18); Host is only touched under PreserveHost; nothing else edits URL, method or body. -/
theorem gen_ok : Gen.Proxy.rewriteSteps.take 2 ++ (Gen.Proxy.rewriteSteps.drop 4).take 1 =
    ["r.SetURL(f.To)",
     "iftq,iq:=f.To.RawQuery,r.In.URL.RawQuery;tq==\"\"||iq==\"\"{r.Out.URL.RawQuery=tq+iq}else{r.Out.URL.RawQuery=tq+\"&\"+iq}",
     "iff.PreserveHost{r.Out.Host=r.In.Host}"] ∧ Gen.Proxy.rewriteSteps.length = 6 := by
  exact ⟨rfl, rfl⟩

theorem get_foldl_del (ks : List Bytes) (K : Bytes) (hK : K ∉ ks) : ∀ (h : Hdr), get (ks.foldl del h) K = get h K := by
  induction ks with
  | nil => intro h; rfl
  | cons k r ih =>
    intro h
    simp only [List.mem_cons, not_or] at hK
    rw [List.foldl_cons, ih hK.2, get_del_ne _ _ _ hK.1]

theorem get_foldl_hdel (ks : List Bytes) (K : Bytes) (hK : K ∉ ks.map canonKey) :
    ∀ (h : Hdr), get (ks.foldl hdel h) K = get h K := by
  induction ks with
  | nil => intro h; rfl
  | cons k r ih =>
    intro h
    simp only [List.map_cons, List.mem_cons, not_or] at hK
    rw [List.foldl_cons, ih hK.2]
    exact get_del_ne _ _ _ hK.1

/-- the header names listed by the request's Connection header -/
def connTokens (h : Hdr) : List Bytes :=
  (get h (strBytes "Connection")).flatMap fun f => ((splitOnByte 44 f).map trimOWS).filter (· ≠ [])

/-- an end-to-end header name for this request and configuration: not hop-by-hop (RFC 7230 6.1 list or named by
Connection), not a forwarding header, not a configured fingerprint header, not User-Agent (forwarded too, but
an absent one is pinned to "absent" by an explicit empty entry) -/
def EndToEnd (c : Cfg) (i : InReq) (K : Bytes) : Prop :=
  K ∉ hopHeaders ∧ K ∉ (connTokens i.hdr).map canonKey ∧
  K ∉ [strBytes "Forwarded", XFF, XFH, XFP] ∧ lastFor K c.injectors = none ∧ K ≠ strBytes "User-Agent"

theorem canon_te : canonKey (strBytes "Te") = strBytes "Te" := by decide
theorem canon_conn : canonKey (strBytes "Connection") = strBytes "Connection" := by decide
theorem canon_upg : canonKey (strBytes "Upgrade") = strBytes "Upgrade" := by decide
theorem canon_ua : canonKey (strBytes "User-Agent") = strBytes "User-Agent" := by decide

/-- EVERY END-TO-END HEADER IS FORWARDED UNALTERED (all its values, in order) -/
theorem end_to_end_headers_unaltered (c : Cfg) (i : InReq) (K : Bytes) (h : EndToEnd c i K) :
    get (rewrite c i).hdr K = get i.hdr K := by
  obtain ⟨hhop, hconn, hfwd, hinj, hua⟩ := h
  have hTe : K ≠ strBytes "Te" := fun e => hhop (by rw [e]; decide)
  have hCo : K ≠ strBytes "Connection" := fun e => hhop (by rw [e]; decide)
  have hUp : K ≠ strBytes "Upgrade" := fun e => hhop (by rw [e]; decide)
  have hF : K ≠ strBytes "Forwarded" := fun e => hfwd (by rw [e]; simp)
  have hXFF : K ≠ XFF := fun e => hfwd (by rw [e]; simp)
  have hXFH : K ≠ XFH := fun e => hfwd (by rw [e]; simp)
  have hXFP : K ≠ XFP := fun e => hfwd (by rw [e]; simp)
  have hpre : get (prelude i.hdr) K = get i.hdr K := by
    unfold prelude
    simp only [List.foldl_cons, List.foldl_nil]
    have hXFF' : K ≠ strBytes "X-Forwarded-For" := hXFF
    have hXFH' : K ≠ strBytes "X-Forwarded-Host" := hXFH
    have hXFP' : K ≠ strBytes "X-Forwarded-Proto" := hXFP
    rw [get_del_ne _ _ _ hXFP', get_del_ne _ _ _ hXFH', get_del_ne _ _ _ hXFF', get_del_ne _ _ _ hF]
    have hrem : get (removeHopByHop i.hdr) K = get i.hdr K := by
      unfold removeHopByHop
      simp only
      rw [get_foldl_del _ _ hhop]
      exact get_foldl_hdel (connTokens i.hdr) K hconn i.hdr
    have hte : ∀ (x : Hdr), get (if valuesContainToken (get i.hdr (strBytes "Te")) (strBytes "trailers") = true
        then hset x (strBytes "Te") (strBytes "trailers") else x) K = get x K := by
      intro x; split
      · unfold hset; rw [canon_te, get_assign_ne _ _ _ _ hTe]
      · rfl
    have hup : ∀ (x : Hdr) (u : Bytes),
        get (hset (hset x (strBytes "Connection") (strBytes "Upgrade")) (strBytes "Upgrade") u) K = get x K := by
      intro x u; unfold hset; rw [canon_upg, canon_conn, get_assign_ne _ _ _ _ hUp, get_assign_ne _ _ _ _ hCo]
    generalize (if valuesContainToken (get i.hdr (strBytes "Connection")) (strBytes "Upgrade") = true
      then (get i.hdr (strBytes "Upgrade")).headD [] else []) = up
    by_cases hu : up ≠ []
    · rw [if_pos hu, hup, hte, hrem]
    · rw [if_neg hu, hte, hrem]
  unfold rewrite
  simp only
  have hua' : K ≠ canonKey (strBytes "User-Agent") := by rw [canon_ua]; exact hua
  have hcore : get (injectLoop (setXForwarded i (assign (prelude i.hdr) XFF (get i.hdr XFF))) c.injectors) K = get i.hdr K := by
    rw [injectLoop_get, hinj]
    simp only
    unfold setXForwarded
    simp only
    rw [get_assign_ne _ _ _ _ hXFP, get_assign_ne _ _ _ _ hXFH]
    split
    · rw [get_assign_ne _ _ _ _ hXFF, get_assign_ne _ _ _ _ hXFF, hpre]
    · rw [get_del_ne _ _ _ hXFF, get_assign_ne _ _ _ _ hXFF, hpre]
  split
  · exact hcore
  · unfold hset; rw [get_assign_ne _ _ _ _ hua', hcore]

/-- METHOD, PATH AND QUERY ARE FORWARDED UNALTERED when the backend URL has no path or query of its own
(the documented configuration `-forward-url http://host:port`), and Host follows the PreserveHost rule:
the client's Host when enabled, the backend's (empty `Out.Host` = URL host) otherwise. -/
theorem request_line_unaltered (c : Cfg) (i : InReq) (hp : c.toPath = []) (hq : c.toQuery = [])
    (hslash : i.path.head? = some 47) :
    (rewrite c i).method = i.method ∧ (rewrite c i).path = i.path ∧ (rewrite c i).query = i.query ∧
    (rewrite c i).urlHost = c.toHost ∧
    (rewrite c i).host = (if c.preserveHost then i.host else []) := by
  refine ⟨rfl, ?_, ?_, rfl, rfl⟩
  · simp [rewrite, singleJoiningSlash, hp, hslash]
  · simp [rewrite, hq]

end Fp.C08
