/-
C01 — JA3 header equals the JA3 of the ClientHello the client sent.
Property theorems (helper lemmas live in FpVerif/Lemmas/JA3.lean).
-/
import FpVerif.Lemmas.JA3
namespace Fp.C01
open Fp Fp.JA3 Fp.Spec.JA3

/-- Obligation on the table REGENERATED from /repo/pkg/ja3/ja3.go on every run: the GREASE map holds
exactly RFC 8701's sixteen values and the separators are '-' and ','. -/
theorem gen_ok : GenOK :=
  { sub1 := by decide, sub2 := by decide, sepV := by decide, sepF := by decide }

/-- `ja3.Bare` computes the JA3 string for every parsed hello: every list shape (empty, singleton,
GREASE first / last / only, all GREASE), any length. -/
theorem bare_eq_spec (b : Basic) : bare b = ja3String b := by
  have g := gen_ok
  unfold bare ja3String
  simp only [g.sepF]
  rw [listBlock_eq g, listBlock_eq g, listBlock_eq g, pointsBlock_eq g]

/-- Header value, for any hash `H` (MD5 in the code): a function of the record bytes only. -/
def ja3Header (H : Bytes → Bytes) (rec : Bytes) : Except PErr Bytes :=
  (parseBasic rec).map (fun b => hexBytes (H (bare b)))

theorem ja3Header_eq_spec (H : Bytes → Bytes) (rec : Bytes) :
    ja3Header H rec = (parseBasic rec).map (fun b => hexBytes (H (ja3String b))) := by
  unfold ja3Header; congr; funext b; rw [bare_eq_spec]

/-- non-vacuity: a concrete hello with GREASE first, last and in the middle. -/
example : bare { hsVersion := 771, ciphers := [0x0a0a, 4865, 0x1a1a, 4866, 0xfafa], exts := [0x2a2a],
                 groups := [29, 0x3a3a], points := [0, 1] }
    = strBytes "771,4865-4866,,29,0-1" := by
  rw [bare_eq_spec]; decide

end Fp.C01
