/-
C01 — JA3 header equals the JA3 of the ClientHello the client sent.
Property theorems (helper lemmas live in FpVerif/Lemmas/JA3.lean).
-/
import FpVerif.Lemmas.JA3
import FpVerif.Properties.C05
import FpVerif.Lemmas.JA3Parse
namespace Fp.C01
open Fp Fp.JA3 Fp.Spec.JA3

/-- Obligation on the table REGENERATED from /repo/pkg/ja3/ja3.go on every run: the GREASE map holds
exactly RFC 8701's sixteen values and the separators are '-' and ','. -/
theorem gen_ok : GenOK :=
  { sub1 := by decide, sub2 := by decide, sepV := by decide, sepF := by decide }

/-- `ja3.Bare` computes the JA3 string for every parsed hello: every list shape (empty, singleton,
GREASE first / last / only, all GREASE), any length. -/
theorem bare_eq_spec (b : Basic) : bare b = ja3String b := by
  have g := gen_ok
  unfold bare ja3String
  simp only [g.sepF]
  rw [listBlock_eq g, listBlock_eq g, listBlock_eq g, pointsBlock_eq g]

/-- Header value, for any hash `H` (MD5 in the code): a function of the record bytes only. -/
def ja3Header (H : Bytes → Bytes) (rec : Bytes) : Except PErr Bytes :=
  (parseBasic rec).map (fun b => hexBytes (H (bare b)))

theorem ja3Header_eq_spec (H : Bytes → Bytes) (rec : Bytes) :
    ja3Header H rec = (parseBasic rec).map (fun b => hexBytes (H (ja3String b))) := by
  unfold ja3Header; congr; funext b; rw [bare_eq_spec]

/-- THE PROPERTY AT FULL STRENGTH for the pure part: for EVERY well-formed ClientHello (any number / order of cipher
suites, extensions, groups, point formats, GREASE anywhere, with or without an extensions block, SNI, ALPN, any
legacy / record version) and every hash `H`, the header value computed from the record the client sent is the hex
digest of the JA3 string of THAT hello — `parseBasic ∘ serialize` loses nothing JA3 is defined over, and `bare` is the
JA3 string. `HelloWF` excludes exactly: lengths that do not fit their fields, a raw extension claiming type 0/10/11,
repeated supported_groups / ec_point_formats extensions (first-vs-last) and the tlsx SNI typo (finding D8). -/
theorem ja3_of_hello (H : Bytes → Bytes) (h : Tls.Hello) (hw : HelloWF h) :
    ja3Header H (Tls.serialize h) = .ok (hexBytes (H (ja3Spec h))) := by
  rw [ja3Header_eq_spec, parseBasic_serialize h hw]
  rfl

/-- the value does not depend on anything but the hello: two connections that sent the same hello get the same header -/
theorem ja3_function_of_hello (H : Bytes → Bytes) (h1 h2 : Tls.Hello) (h1w : HelloWF h1) (h2w : HelloWF h2)
    (hs : ja3Spec h1 = ja3Spec h2) : ja3Header H (Tls.serialize h1) = ja3Header H (Tls.serialize h2) := by
  rw [ja3_of_hello H h1 h1w, ja3_of_hello H h2 h2w, hs]

/-- non-vacuity of `HelloWF`: a TLS 1.3-style hello with GREASE first / last, SNI, groups, point formats, ALPN,
supported_versions and an unknown extension -/
def sampleHello : Tls.Hello :=
  { recVer := 0x0301, hsVer := 0x0303, random := List.replicate 32 7, sid := List.replicate 32 9,
    ciphers := [0x0a0a, 4865, 4866, 0xc02b, 0xfafa], comp := [0],
    exts := some [.raw 0x2a2a [], .sni [(0, strBytes "example.test")], .groups [0x3a3a, 29, 23], .points [0],
                  .alpn [strBytes "h2", strBytes "http/1.1"], .versions [0x0304, 0x0303], .raw 65281 [0], .raw 0x1a1a [0]] }

theorem sampleHello_wf : HelloWF sampleHello := by
  refine ⟨by decide, by decide, by decide, by decide, ?_⟩
  show (∀ e ∈ _, ExtWF e) ∧ _ ∧ _ ∧ _
  refine ⟨?_, by decide, by decide, by decide⟩
  intro e he
  simp only [List.mem_cons, List.not_mem_nil, or_false] at he
  rcases he with rfl | rfl | rfl | rfl | rfl | rfl | rfl | rfl
  · exact ⟨by decide, by decide, by decide, by decide⟩
  · exact ⟨by decide, by intro e he; simp at he; subst he; decide, by decide⟩
  · show 2 * 3 < 65530; decide
  · show 1 < 256; decide
  · show _ < 65530; decide
  · show 2 * 2 < 256; decide
  · exact ⟨by decide, by decide, by decide, by decide⟩
  · exact ⟨by decide, by decide, by decide, by decide⟩

example : (parseBasic (Tls.serialize sampleHello)).map bare =
    .ok (strBytes "771,4865-4866-49195,0-10-11-16-43-65281,29-23,0") := by
  rw [parseBasic_serialize sampleHello sampleHello_wf]
  simp only [Except.map]
  rw [bare_eq_spec]
  exact congrArg Except.ok (by decide)

/-- non-vacuity: a concrete hello with GREASE first, last and in the middle. -/
example : bare { hsVersion := 771, ciphers := [0x0a0a, 4865, 0x1a1a, 4866, 0xfafa], exts := [0x2a2a],
                 groups := [29, 0x3a3a], points := [0, 1] }
    = strBytes "771,4865-4866,,29,0-1" := by
  rw [bare_eq_spec]; decide

/-- PLUMBING: whatever injector set is configured (default or custom, any order, any outcome of the other injectors)
and whatever the request, the value computed by the `X-JA3-Fingerprint` injector is what the backend receives under that
name, exactly once (corollary of `Fp.C05.delivered` on the model of `rewriteFunc`, which the `rw` stream ties to the code). -/
theorem header_delivered (c : Proxy.Cfg) (i : Proxy.InReq) (j : Proxy.Inj) (hj : j ∈ c.injectors)
    (hn : j.name = strBytes "X-JA3-Fingerprint")
    (howns : ∀ j' ∈ c.injectors, Proxy.canonKey j'.name = Proxy.canonKey j.name → j'.out = j.out)
    (v : Bytes) (hv : j.out = .value v) (hne : v.isEmpty = false) :
    Proxy.get (Proxy.rewrite c i).hdr (strBytes "X-Ja3-Fingerprint") = [v] := by
  have hk : Proxy.canonKey j.name = strBytes "X-Ja3-Fingerprint" := by rw [hn]; decide
  have := Fp.C05.delivered c i j hj (by rw [hk]; decide) howns v hv hne
  rwa [hk] at this

end Fp.C01
