/-
C16 — requests_total counts every connection exactly once, with true labels.
The exit paths of `serveConn` and the metric call(s) on each are REGENERATED from the source
(Gen.Lifecycle.serveConnPaths); the theorems are about that generated list.
-/
import FpVerif.Model.Lifecycle
import FpVerif.Gen.Lifecycle
namespace Fp.C16
open Fp Fp.Lifecycle

/-- Obligation on the regenerated control-flow facts: serveConn has exactly three exits — handshake
error, capture error, end of function — and each carries exactly one `metricsRequestsTotalInc` call with
these arguments; none is deferred or conditional. -/
theorem gen_ok : Gen.Lifecycle.serveConnPaths =
    [("if err:=server.tlsHandshakeWithTimeout(tlsConn);err!=nil", "\"0\",\"\""),
     ("if err!=nil", "\"0\",\"\""),
     ("end", "\"1\",cs.NegotiatedProtocol")] := by rfl

/-- the generated facts, read as (ok literal, protocol literal or `none` = cs.NegotiatedProtocol) -/
def paths : List (List (String × Option String)) := [[("0", some "")], [("0", some "")], [("1", none)]]

/-- every outcome's path increments the counter exactly once, with the label the property demands -/
theorem once_per_path (o : Outcome) : callsOnPath paths o = [specLabel o] := by
  cases o <;> rfl

/-- Lifted to any number of concurrent connections finishing in any order: the increments applied are a
permutation of the per-connection labels, and counter values depend only on the multiset. -/
theorem flatMap_calls (l : List Outcome) : l.flatMap (callsOnPath paths) = l.map specLabel := by
  induction l with
  | nil => rfl
  | cons o r ih => simp [List.flatMap_cons, once_per_path, ih]

theorem count_eq (conns : List Outcome) (order : List Outcome) (h : order.Perm conns) (l : Label) :
    countOf (order.flatMap (callsOnPath paths)) l = (conns.map specLabel).count l := by
  unfold countOf
  rw [flatMap_calls]
  exact (h.map specLabel).count_eq l

/-- no connection is counted twice or not at all -/
theorem total (conns : List Outcome) : (conns.flatMap (callsOnPath paths)).length = conns.length := by
  rw [flatMap_calls]; simp

example : countOf ([Outcome.served "h2", .handshakeFailed, .served "http/1.1", .served "h2"].flatMap (callsOnPath paths)) ("1", "h2") = 2 := by
  decide

end Fp.C16
