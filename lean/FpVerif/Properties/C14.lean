/-
C14 — certificate hot-reload is safe and converges.
-/
import FpVerif.Model.Cert
namespace Fp.C14
open Fp Fp.Cert

/-- "pair k existed together on disk" at some point of a run -/
def Existed (s : St) (h : List Step) (k : Nat) : Prop :=
  load s.disk = some k ∨ ∃ n, n ≤ h.length ∧ load (run s (h.take n)).disk = some k

theorem handle_served (s : St) : (handle s).served = s.served ∨ load s.disk = some (handle s).served := by
  unfold handle
  cases h : load s.disk with
  | none => exact Or.inl rfl
  | some k => exact Or.inr rfl

theorem handle_disk (s : St) : (handle s).disk = s.disk := by
  unfold handle; cases load s.disk <;> rfl

/-- one step: the served pair is unchanged, or it is a pair that loads from the disk as it is now -/
theorem step_served (s : St) (x : Step) :
    (step s x).served = s.served ∨ load (step s x).disk = some (step s x).served := by
  cases x with
  | setCert c ev =>
    cases ev
    · exact Or.inl rfl
    · simp only [step, if_true]
      rcases handle_served { s with disk := { s.disk with cert := c } } with h | h
      · exact Or.inl h
      · exact Or.inr (by rw [handle_disk]; exact h)
  | setKey c ev =>
    cases ev
    · exact Or.inl rfl
    · simp only [step, if_true]
      rcases handle_served { s with disk := { s.disk with key := c } } with h | h
      · exact Or.inl h
      · exact Or.inr (by rw [handle_disk]; exact h)
  | setBoth c k ev =>
    cases ev
    · exact Or.inl rfl
    · simp only [step, if_true]
      rcases handle_served { s with disk := { cert := c, key := k } } with h | h
      · exact Or.inl h
      · exact Or.inr (by rw [handle_disk]; exact h)

/-- SAFETY (invariant over every history, including steps that leave garbage, an empty file, a partial
write or a key that does not match): at every moment the served pair is the initial one or a pair whose
certificate and key were on disk TOGETHER (and loaded) at some earlier moment. -/
theorem served_is_validated_pair (s : St) (h : List Step) :
    (run s h).served = s.served ∨ ∃ n, n ≤ h.length ∧ load (run s (h.take n)).disk = some (run s h).served := by
  induction h generalizing s with
  | nil => exact Or.inl rfl
  | cons x r ih =>
    have hrun : run s (x :: r) = run (step s x) r := rfl
    rw [hrun]
    rcases ih (step s x) with h1 | ⟨n, hn, h1⟩
    · rw [h1]
      rcases step_served s x with h2 | h2
      · exact Or.inl h2
      · exact Or.inr ⟨1, by simp, by simpa [run] using h2⟩
    · refine Or.inr ⟨n + 1, by simp; omega, ?_⟩
      simpa [run, List.take_succ_cons] using h1

/-- while the files are missing, half-written or mismatched, the last good pair keeps being served -/
theorem keeps_last_good (s : St) (hl : load s.disk = none) : (handle s).served = s.served := by
  simp [handle, hl]

/-- CONVERGENCE: whatever happened before, once the two paths hold the valid pair `k` and the watcher is
notified (once is enough) after the last change, new handshakes present `k`. The notification is what
inotify delivers for an in-place write, a rename over the path and a directory swap followed by the
removal of the old directory; it is NOT delivered for a swap that leaves the old directory in place
(finding D17, `swap_keep_witness`). -/
theorem converges (s : St) (k : Nat) (hk : load s.disk = some k) : (handle s).served = k := by
  simp [handle, hk]

theorem converges_after_last_step (s : St) (h : List Step) (c kk : Content) (k : Nat)
    (hk : load { cert := c, key := kk } = some k) : (run s (h ++ [.setBoth c kk true])).served = k := by
  simp only [run, List.foldl_append, List.foldl_cons, List.foldl_nil, step, if_true]
  exact converges _ k hk

/-- D17: the same change without a notification leaves the old pair in place -/
theorem swap_keep_witness :
    (run { disk := { cert := .half 1, key := .half 1 }, served := 1 } [.setBoth (.half 2) (.half 2) false]).served = 1 := by
  decide

/-- non-vacuity: a rewrite in place in key-then-cert order passing through a mismatched state -/
example : trace { disk := { cert := .half 0, key := .half 0 }, served := 0 }
    [.setKey (.half 1) true, .setCert .junk true, .setCert (.half 1) true] = [0, 0, 1] := by decide

end Fp.C14
