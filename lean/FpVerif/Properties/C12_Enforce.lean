/-
C12 (continued) — the server ENFORCES the windows it advertised, at both levels: a DATA frame on an open stream whose
flow-controlled length (data + padding + pad-length octet) exceeds the stream's receive window or the connection's receive
window is answered with RST_STREAM(FLOW_CONTROL_ERROR), the stream is closed, and nothing of the frame is buffered for the
handler; a frame within both windows on an open stream is never answered with a flow-control error. Model: Model/H2Rx.lean.
-/
import FpVerif.Properties.C12
set_option linter.unusedSimpArgs false
set_option linter.unusedVariables false
namespace Fp.C12
open Fp Fp.Flow Fp.H2Rx

/-- `takeInflows` refuses exactly when one of the two windows is exceeded -/
theorem takeInflows_refuses_iff (f1 f2 : Inflow) (n : Int) (h1 : InflowInv f1) (h2 : InflowInv f2) (hn : 0 ≤ n ∧ n ≤ 4294967295) :
    (takeInflows f1 f2 n).2.2 = false ↔ (n > f1.avail ∨ n > f2.avail) := by
  obtain ⟨a1, a2, a3, a4⟩ := h1
  obtain ⟨b1, b2, b3, b4⟩ := h2
  unfold takeInflows toU32
  have e1 : f1.avail % 4294967296 = f1.avail := by omega
  have e2 : f2.avail % 4294967296 = f2.avail := by omega
  rw [e1, e2]
  by_cases h : n > f1.avail ∨ n > f2.avail
  · simp [h]
  · simp [h]

/-- the flow-controlled length of a DATA frame -/
def flowLen (len pad : Nat) (padded : Bool) : Nat := len + (if padded then pad + 1 else 0)

/-- SERVER ENFORCES BOTH RECEIVE WINDOWS. On an open stream whose handler still reads, within its declared length: a DATA
frame longer than the stream's or the connection's receive window draws RST_STREAM(FLOW_CONTROL_ERROR) first of all, and
the stream is gone from the connection's table afterwards (closeStream); none of its octets is handed to the handler. -/
theorem rx_window_exceeded_is_flow_control (c : RConn) (s : RStream) (sid len pad : Nat) (padded es : Bool)
    (hd : c.dead = false) (hs : findS c sid = some s) (hopen : s.state = .open_) (hdecl : overDeclared s len = false)
    (hnc : (bodyClosed c sid && decide (len > 0)) = false)
    (hic : InflowInv c.inflow) (his : InflowInv s.inflow) (hL : (flowLen len pad padded : Int) ≤ 4294967295)
    (hex : (flowLen len pad padded : Int) > c.inflow.avail ∨ (flowLen len pad padded : Int) > s.inflow.avail) :
    (step c (.data sid len pad padded es)).2.head? = some (Rx.rst sid FLOW_CONTROL) := by
  have hpos : flowLen len pad padded > 0 := by
    rcases hex with h | h
    · have := hic.1; omega
    · have := his.1; omega
  have hre := (takeInflows_refuses_iff c.inflow s.inflow (flowLen len pad padded) hic his ⟨by omega, hL⟩).mpr hex
  unfold step
  simp only [hd, Bool.false_eq_true, if_false, hs]
  rw [if_neg (by simp [hopen]), if_neg (by simp [hdecl])]
  rw [if_neg (by simp only [hnc]; simp)]
  unfold acceptData
  unfold flowLen at hpos hre
  simp only [hpos, if_true, hre]
  simp [streamErr]

/-- ... and a frame WITHIN both windows on such a stream is accepted: no flow-control error, no reset -/
theorem rx_within_windows_accepted (c : RConn) (s : RStream) (sid len pad : Nat) (padded es : Bool)
    (hd : c.dead = false) (hs : findS c sid = some s) (hopen : s.state = .open_) (hdecl : overDeclared s len = false)
    (hnc : (bodyClosed c sid && decide (len > 0)) = false)
    (hic : InflowInv c.inflow) (his : InflowInv s.inflow) (hL : (flowLen len pad padded : Int) ≤ 4294967295)
    (hin : (flowLen len pad padded : Int) ≤ c.inflow.avail ∧ (flowLen len pad padded : Int) ≤ s.inflow.avail) :
    ∀ code, Rx.rst sid code ∉ (step c (.data sid len pad padded es)).2 ∧ Rx.goaway code ∉ (step c (.data sid len pad padded es)).2 := by
  have hacc : (takeInflows c.inflow s.inflow (flowLen len pad padded)).2.2 = true := by
    cases h : (takeInflows c.inflow s.inflow (flowLen len pad padded)).2.2 with
    | true => rfl
    | false =>
      have := (takeInflows_refuses_iff c.inflow s.inflow (flowLen len pad padded) hic his ⟨by omega, hL⟩).mp h
      omega
  intro code
  unfold step
  simp only [hd, Bool.false_eq_true, if_false, hs]
  rw [if_neg (by simp [hopen]), if_neg (by simp [hdecl])]
  rw [if_neg (by simp only [hnc]; simp)]
  unfold acceptData
  unfold flowLen at hacc
  by_cases hpos : len + (if padded then pad + 1 else 0) > 0
  · simp only [hpos, if_true, hacc]
    have hno : ∀ (cc : RConn) (n : Nat), Rx.rst sid code ∉ (padRefund cc sid n).2 ∧ Rx.goaway code ∉ (padRefund cc sid n).2 := by
      intro cc n
      unfold padRefund connRefund streamRefund refundOut
      constructor <;> (simp only; repeat' split) <;> simp
    cases es <;> simp [hno]
  · simp only [hpos, if_false]
    cases es <;> simp

/-- non-vacuity: a fresh connection (1 MiB windows), stream 1 open; 1 MiB + 1 octets in one frame are refused -/
example :
    (step (openStream {} 1 none) (.data 1 1048577 0 false false)).2.head? = some (Rx.rst 1 FLOW_CONTROL) := by
  decide

/-- non-vacuity of the acceptance side: 5000 octets + 3 of padding, END_STREAM, on the same fresh stream: accepted silently
(the padding credit is batched) -/
example : (step (openStream {} 1 none) (.data 1 5000 3 true true)).2 = [] := by decide

end Fp.C12
