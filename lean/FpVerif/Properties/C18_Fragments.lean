/-
C18 (continued) — fragment independence of the decoder as a theorem.
Helper lemmas: FpVerif/Lemmas/HpackFrag.lean.
-/
import FpVerif.Lemmas.HpackFrag
set_option linter.unusedSimpArgs false
set_option linter.unusedVariables false
namespace Fp.C18
open Fp Fp.Hpack

/-- two successive writes, as the caller of `Decoder.Write` sees them: the second is not attempted after an error -/
def write2 (d : Dec) (p q : Bytes) : Dec × List Field × Option DErr :=
  match d.write p with
  | (d1, f1, some e) => (d1, f1, some e)
  | (d1, f1, none) => ((d1.write q).1, f1 ++ (d1.write q).2.1, (d1.write q).2.2)

/-- FRAGMENT INDEPENDENCE (one cut). For every decoder state, every byte string and every position at which it is cut in
two: writing the two pieces one after the other gives exactly what writing the whole gives — the same emitted fields in
the same order, the same error or none, and the same decoder state (tables, held-back bytes, block-start flag). -/
theorem write_split (d : Dec) (p q : Bytes) : d.write (p ++ q) = write2 d p q := by
  have hov : 15 ≤ Gen.Hpack.varIntOverhead := by rw [gen_ok.1]; decide
  unfold write2
  by_cases hp : p.isEmpty = true
  · have : p = [] := by simpa using hp
    subst this
    simp [Dec.write]
  · by_cases hq : q.isEmpty = true
    · have : q = [] := by simpa using hq
      subst this
      simp only [List.append_nil]
      rcases hw : d.write p with ⟨d1, f1, e1⟩
      cases e1 with
      | some e => rfl
      | none => simp [Dec.write]
    · have hpq : (p ++ q).isEmpty = false := by
        cases p with
        | nil => simp at hp
        | cons a r => rfl
      simp only [Dec.write, hp, hpq, Bool.false_eq_true, if_false]
      rw [← List.append_assoc]
      rw [loop_split Gen.Hpack.varIntOverhead hov (d.saveBuf ++ p).length (d.saveBuf ++ p) (Nat.le_refl _)
        { d with saveBuf := [] } [] q ((d.saveBuf ++ p).length + 1) ((d.saveBuf ++ p ++ q).length + 1)
        ((d.saveBuf ++ p ++ q).length + 1 + 0) rfl (by omega) (by omega) ?_]
      · rcases hw : writeLoop Gen.Hpack.varIntOverhead ((d.saveBuf ++ p).length + 1) { d with saveBuf := [] } (d.saveBuf ++ p) [] with ⟨d1, f1, e1⟩
        cases e1 with
        | some e => rfl
        | none =>
          simp only [hq, Bool.false_eq_true, if_false]
          have hlen := loop_saveBuf_len _ _ _ _ _ d1 f1 none rfl hw
          rw [loop_acc]
          rw [loop_fuel Gen.Hpack.varIntOverhead (d1.saveBuf ++ q).length (d1.saveBuf ++ q) (Nat.le_refl _) _ []
            ((d.saveBuf ++ p ++ q).length + 1 + 0) ((d1.saveBuf ++ q).length + 1)
            (by simp only [List.length_append] at hlen ⊢; omega) (by omega)]
      · intro d1 acc1 hw
        have hlen := loop_saveBuf_len _ _ _ _ _ d1 acc1 none rfl hw
        simp only [List.length_append] at hlen ⊢; omega

/-- any number of successive writes; the caller stops at the first error -/
def writeAll (d : Dec) : List Bytes → Dec × List Field × Option DErr
  | [] => (d, [], none)
  | w :: r =>
    match d.write w with
    | (d1, f1, some e) => (d1, f1, some e)
    | (d1, f1, none) => ((writeAll d1 r).1, f1 ++ (writeAll d1 r).2.1, (writeAll d1 r).2.2)

/-- FRAGMENT INDEPENDENCE. For every decoder state and every way of cutting a byte string into any number of fragments
(empty fragments included): feeding the fragments to `Decoder.Write` one after the other — stopping at the first error,
as a caller does — yields exactly what one `Write` of the whole string yields: the same fields in the same order, the
same error or none, the same final decoder state. Hence also `Close` gives the same verdict. -/
theorem fragment_independence (d : Dec) (ws : List Bytes) : writeAll d ws = d.write ws.flatten := by
  induction ws generalizing d with
  | nil => simp [writeAll, Dec.write]
  | cons w r ih =>
    simp only [writeAll, List.flatten_cons, write_split, write2]
    rcases hw : d.write w with ⟨d1, f1, e1⟩
    cases e1 with
    | some e => rfl
    | none => simp only [ih]

/-- non-vacuity: RFC 7541 C.3.1's block cut inside a string literal and inside the next representation -/
example : writeAll (Dec.new 4096) [[0x82, 0x86, 0x84, 0x41, 0x0f, 0x77, 0x77], [0x77, 0x2e, 0x65, 0x78, 0x61, 0x6d], [],
      [0x70, 0x6c, 0x65, 0x2e, 0x63, 0x6f, 0x6d]]
    = (Dec.new 4096).write [0x82, 0x86, 0x84, 0x41, 0x0f, 0x77, 0x77, 0x77, 0x2e, 0x65, 0x78, 0x61, 0x6d, 0x70, 0x6c, 0x65, 0x2e, 0x63, 0x6f, 0x6d] :=
  fragment_independence _ _

end Fp.C18
