/-
C18 (continued) — the codec round trip as theorems: one header field, a whole header block.
Helper lemmas: FpVerif/Lemmas/HpackRT.lean; integer / Huffman / string-literal round trips and the table
theorems: FpVerif/Properties/C18.lean.
-/
import FpVerif.Lemmas.HpackRT
set_option linter.unusedSimpArgs false
set_option linter.unusedVariables false
namespace Fp.C18
open Fp Fp.Hpack

/-- FIELD ROUND TRIP. Encoder and decoder hold identical dynamic tables; the encoder writes one header field (any bytes in
name and value, any of the three outcomes of its table search, sensitive or not, indexed or not, larger than the table or
not), followed by any bytes. The decoder then parses exactly that representation, emits exactly that field — name, value
AND sensitivity — leaves the bytes that followed, and its dynamic table is again identical to the encoder's. -/
theorem field_roundtrip (e : Enc) (d : Dec) (f : Field) (rest : Bytes) (A : Nat)
    (hsync : d.tab = withAllowed e.tab A) (hupd : e.tableSizeUpdate = false)
    (hn : Admits d.maxStrLen f.name) (hv : Admits d.maxStrLen f.value)
    (hents : e.tab.ents.length + staticTable.length < 2 ^ 62) :
    parseRepr d ((e.writeField f).2 ++ rest) = .ok ({ d with tab := withAllowed (e.writeField f).1.tab A }, some f, rest) := by
  rw [writeField_noupd e f hupd]
  have hspec := searchTable_spec e f
  simp only
  cases hm : (searchTable e f).2 with
  | true =>
    obtain ⟨g, hg, hgn, hgv, hfs⟩ := hspec.1 hm
    have hle := tableAt_some_le _ _ _ hg
    obtain ⟨b, r, hbr, hdiv, _, hrd⟩ := masked_roundtrip 7 (searchTable e f).1 0x80 1 rest (by omega) (by omega)
      (fun x hx => by have := (or_mask x).1 hx; omega)
    simp only [if_true, encAfter, hm]
    rw [hbr]
    unfold parseRepr
    have hb : b.toNat ≥ 128 := by
      have := Nat.div_add_mod b.toNat (2 ^ 7); omega
    simp only [hb, if_true, hrd, hsync, tableAt_withAllowed, hg]
    have hgn' : Admits d.maxStrLen g.name := by rw [hgn]; exact hn
    have hgv' : Admits d.maxStrLen g.value := by rw [hgv]; exact hv
    rw [emitCheck_ok d.maxStrLen { name := g.name, value := g.value } hgn' hgv']
    have hf : ({ name := g.name, value := g.value } : Field) = f := by
      cases f; simp_all
    have hd : ({ d with tab := withAllowed e.tab A } : Dec) = d := by cases d; simp_all
    simp only [hf, hd]
  | false =>
    simp only [Bool.false_eq_true, if_false]
    have hafter : withAllowed (encAfter e f).tab A = (afterLiteral d (indexingOf e f) f.name f.value).tab := by
      unfold encAfter afterLiteral
      simp only [hm, Bool.false_eq_true, if_false]
      cases indexingOf e f <;> simp [hsync, add_withAllowed]
    have hdres : ({ d with tab := withAllowed (encAfter e f).tab A } : Dec) = afterLiteral d (indexingOf e f) f.name f.value := by
      rw [hafter]; unfold afterLiteral; cases indexingOf e f <;> simp
    rw [hdres]
    have hone : ¬ ((1 : Nat) = 0) := by decide
    by_cases hz : (searchTable e f).1 = 0
    · simp only [hz, if_true, List.append_assoc, List.cons_append, List.nil_append]
      -- literal with a new name
      unfold parseRepr
      cases hsens : f.sensitive with
      | true =>
        have hidx : indexingOf e f = false := by simp [indexingOf, hsens]
        simp only [hidx, typeByte, if_true]
        have h1 : readVarInt 4 ((0x10 : UInt8) :: (appendString f.name ++ (appendString f.value ++ rest))) =
            .ok 0 (appendString f.name ++ (appendString f.value ++ rest)) := by simp [readVarInt]
        have hb1 : ¬ ((0x10 : UInt8).toNat ≥ 128) := by decide
        have hb2 : ¬ ((0x10 : UInt8).toNat / 64 = 1) := by decide
        have hb3 : ¬ ((0x10 : UInt8).toNat / 16 = 0) := by decide
        have hb4 : (0x10 : UInt8).toNat / 16 = 1 := by decide
        simp only [hb1, hb2, hb3, hb4, hone, if_true, if_false]
        rw [parseLiteral_new d 4 false true _ f.name f.value rest h1 hn hv, field_eta f _ hsens]
      | false =>
        cases hidx : indexingOf e f with
        | true =>
          simp only [typeByte, Bool.false_eq_true, if_false, if_true]
          have h1 : readVarInt 6 ((0x40 : UInt8) :: (appendString f.name ++ (appendString f.value ++ rest))) =
              .ok 0 (appendString f.name ++ (appendString f.value ++ rest)) := by simp [readVarInt]
          have hb1 : ¬ ((0x40 : UInt8).toNat ≥ 128) := by decide
          have hb2 : (0x40 : UInt8).toNat / 64 = 1 := by decide
          simp only [hb1, hb2, if_true, if_false]
          rw [parseLiteral_new d 6 true false _ f.name f.value rest h1 hn hv, field_eta f _ hsens]
        | false =>
          simp only [typeByte, Bool.false_eq_true, if_false]
          have h1 : readVarInt 4 ((0 : UInt8) :: (appendString f.name ++ (appendString f.value ++ rest))) =
              .ok 0 (appendString f.name ++ (appendString f.value ++ rest)) := by simp [readVarInt]
          have hb1 : ¬ ((0 : UInt8).toNat ≥ 128) := by decide
          have hb2 : ¬ ((0 : UInt8).toNat / 64 = 1) := by decide
          have hb3 : (0 : UInt8).toNat / 16 = 0 := by decide
          simp only [hb1, hb2, hb3, if_true, if_false]
          rw [parseLiteral_new d 4 false false _ f.name f.value rest h1 hn hv, field_eta f _ hsens]
    · simp only [hz, if_false, List.append_assoc]
      obtain ⟨g, hg, hgn⟩ := hspec.2 hm hz
      have hle := tableAt_some_le _ _ _ hg
      have hgn' : Admits d.maxStrLen g.name := by rw [hgn]; exact hn
      have hpos : (searchTable e f).1 > 0 := Nat.pos_of_ne_zero hz
      rw [← tableAt_withAllowed e.tab A, ← hsync] at hg
      unfold parseRepr
      cases hsens : f.sensitive with
      | true =>
        have hidx : indexingOf e f = false := by simp [indexingOf, hsens]
        simp only [hidx, typeByte, if_true, Bool.false_eq_true, if_false]
        obtain ⟨b, r, hbr, hdiv, _, hrd⟩ := masked_roundtrip 4 (searchTable e f).1 0x10 1 (appendString f.value ++ rest) (by omega) (by omega)
          (fun x hx => by have := (or_mask x).2.2.2.1 hx; omega)
        rw [hbr]
        have hlt : b.toNat < 32 ∧ 16 ≤ b.toNat := by
          have := Nat.div_add_mod b.toNat (2 ^ 4)
          have := Nat.mod_lt b.toNat (show 2 ^ 4 > 0 by decide)
          omega
        have hb1 : ¬ (b.toNat ≥ 128) := by omega
        have hb2 : ¬ (b.toNat / 64 = 1) := by omega
        have hb3 : ¬ (b.toNat / 16 = 0) := by omega
        have hb4 : b.toNat / 16 = 1 := by omega
        simp only [hb1, hb2, hb3, hb4, hone, if_true, if_false]
        rw [parseLiteral_idx d 4 false true _ f.value rest _ g hpos hg hrd hgn' hv, hgn, field_eta f _ hsens]
      | false =>
        cases hidx : indexingOf e f with
        | true =>
          simp only [typeByte, Bool.false_eq_true, if_false, if_true]
          obtain ⟨b, r, hbr, hdiv, _, hrd⟩ := masked_roundtrip 6 (searchTable e f).1 0x40 1 (appendString f.value ++ rest) (by omega) (by omega)
            (fun x hx => by have := (or_mask x).2.1 hx; omega)
          rw [hbr]
          have hlt : b.toNat < 128 ∧ 64 ≤ b.toNat := by
            have := Nat.div_add_mod b.toNat (2 ^ 6)
            have := Nat.mod_lt b.toNat (show 2 ^ 6 > 0 by decide)
            omega
          have hb1 : ¬ (b.toNat ≥ 128) := by omega
          have hb2 : b.toNat / 64 = 1 := by omega
          simp only [hb1, hb2, if_true, if_false]
          rw [parseLiteral_idx d 6 true false _ f.value rest _ g hpos hg hrd hgn' hv, hgn, field_eta f _ hsens]
        | false =>
          simp only [typeByte, Bool.false_eq_true, if_false]
          obtain ⟨b, r, hbr, hdiv, _, hrd⟩ := masked_roundtrip 4 (searchTable e f).1 0 0 (appendString f.value ++ rest) (by omega) (by omega)
            (fun x hx => by have := (or_mask x).2.2.2.2 (by omega); omega)
          rw [hbr]
          have hlt : b.toNat < 16 := by
            have := Nat.div_add_mod b.toNat (2 ^ 4)
            have := Nat.mod_lt b.toNat (show 2 ^ 4 > 0 by decide)
            omega
          have hb1 : ¬ (b.toNat ≥ 128) := by omega
          have hb2 : ¬ (b.toNat / 64 = 1) := by omega
          have hb3 : b.toNat / 16 = 0 := by omega
          simp only [hb1, hb2, hb3, if_true, if_false]
          rw [parseLiteral_idx d 4 false false _ f.value rest _ g hpos hg hrd hgn' hv, hgn, field_eta f _ hsens]

/-! ### a whole header block -/

/-- `Encoder.WriteField` for each field of a list, in order -/
def encodeAll : Enc → List Field → Enc × Bytes
  | e, [] => (e, [])
  | e, f :: r => ((encodeAll (e.writeField f).1 r).1, (e.writeField f).2 ++ (encodeAll (e.writeField f).1 r).2)

/-- the encoder-side invariant that keeps every table index inside the range the integer codec round-trips -/
def TabOK (t : DynTab) : Prop := Consistent t ∧ t.size ≤ t.maxSize ∧ t.maxSize < 2 ^ 61

theorem sumSize_ge (l : List Field) : 32 * l.length ≤ sumSize l := by
  induction l with
  | nil => simp [sumSize]
  | cons a r ih => simp [sumSize, Field.size] at ih ⊢; omega

theorem tabOK_len (t : DynTab) (h : TabOK t) : t.ents.length + staticTable.length < 2 ^ 62 := by
  obtain ⟨hc, hs, hm⟩ := h
  have := sumSize_ge t.ents
  rw [static_len]
  unfold Consistent at hc
  have h62 : (2 : Nat) ^ 62 = 2 * 2 ^ 61 := by decide
  omega

theorem tabOK_add (t : DynTab) (f : Field) (h : TabOK t) : TabOK (t.add f) := by
  obtain ⟨hc, hs, hm⟩ := h
  have := add_bounded t f hc
  have hmax : (t.add f).maxSize = t.maxSize := by simp [DynTab.add, DynTab.evict]
  exact ⟨this.1, this.2, by rw [hmax]; exact hm⟩

theorem encAfter_tabOK (e : Enc) (f : Field) (h : TabOK e.tab) : TabOK (encAfter e f).tab := by
  unfold encAfter
  split
  · exact h
  · split
    · exact tabOK_add _ _ h
    · exact h

theorem encAfter_noupd (e : Enc) (f : Field) (h : e.tableSizeUpdate = false) : (encAfter e f).tableSizeUpdate = false := by
  unfold encAfter
  split
  · exact h
  · split <;> exact h

theorem parseRepr_field_not_update (d d' : Dec) (buf rest : Bytes) (f : Field) (h : parseRepr d buf = .ok (d', some f, rest)) :
    ∃ b r, buf = b :: r ∧ (b.toNat / 32 == 1) = false := by
  cases buf with
  | nil => simp [parseRepr] at h
  | cons b r =>
    refine ⟨b, r, rfl, ?_⟩
    by_cases hc : b.toNat / 32 = 1
    · exfalso
      unfold parseRepr at h
      have h1 : ¬ b.toNat ≥ 128 := by omega
      have h2 : ¬ b.toNat / 64 = 1 := by omega
      have h3 : ¬ b.toNat / 16 = 0 := by omega
      have h4 : ¬ b.toNat / 16 = 1 := by omega
      simp only [h1, h2, h3, h4, if_false] at h
      split at h
      · cases h
      · split at h
        · cases h
        · cases h
        · split at h <;> cases h
    · simp [hc]

theorem block_loop (ov A : Nat) : ∀ (fs : List Field) (e : Enc) (d : Dec) (acc : List Field) (fuel : Nat),
    d.tab = withAllowed e.tab A → e.tableSizeUpdate = false → TabOK e.tab →
    (∀ f ∈ fs, Admits d.maxStrLen f.name ∧ Admits d.maxStrLen f.value) → fs.length < fuel →
    writeLoop ov fuel d (encodeAll e fs).2 acc =
      ({ tab := withAllowed (encodeAll e fs).1.tab A, saveBuf := d.saveBuf, firstField := (if fs.isEmpty then d.firstField else false),
         maxStrLen := d.maxStrLen }, acc ++ fs, none) := by
  intro fs
  induction fs with
  | nil =>
    intro e d acc fuel hs _ _ _ hf
    cases fuel with
    | zero => omega
    | succ k =>
      simp only [encodeAll, writeLoop, List.isEmpty_nil, if_true, List.append_nil]
      cases d; simp_all
  | cons f r ih =>
    intro e d acc fuel hs hu ht hadm hf
    cases fuel with
    | zero => omega
    | succ k =>
      have hf1 := hadm f List.mem_cons_self
      have hrt := field_roundtrip e d f (encodeAll (e.writeField f).1 r).2 A hs hu hf1.1 hf1.2 (tabOK_len _ ht)
      obtain ⟨b, r0, hbuf, hnu⟩ := parseRepr_field_not_update _ _ _ _ _ hrt
      have hwf := writeField_noupd e f hu
      have he1 : (e.writeField f).1 = encAfter e f := by rw [hwf]
      simp only [encodeAll]
      unfold writeLoop
      have hne : ((e.writeField f).2 ++ (encodeAll (e.writeField f).1 r).2).isEmpty = false := by rw [hbuf]; rfl
      simp only [hne, Bool.false_eq_true, if_false, hrt]
      rw [hbuf]
      simp only [hnu, Bool.false_eq_true, if_false]
      rw [ih (e.writeField f).1
        { tab := withAllowed (e.writeField f).1.tab A, saveBuf := d.saveBuf, firstField := false, maxStrLen := d.maxStrLen } (acc ++ [f]) k rfl
        (by rw [he1]; exact encAfter_noupd e f hu) (by rw [he1]; exact encAfter_tabOK e f ht)
        (fun g hg => hadm g (List.mem_cons_of_mem _ hg)) (by simp only [List.length_cons] at hf; omega)]
      simp

theorem writeField_nonempty (e : Enc) (f : Field) (hu : e.tableSizeUpdate = false) : 1 ≤ (e.writeField f).2.length := by
  rw [writeField_noupd e f hu]
  simp only
  split
  · obtain ⟨b, r, h, _⟩ := appendVarInt_head 7 (searchTable e f).1 (by omega)
    rw [h]; simp [orFirst]
  · split
    · simp
    · obtain ⟨b, r, h, _⟩ := appendVarInt_head (if indexingOf e f then 6 else 4) (searchTable e f).1 (by split <;> omega)
      rw [h]; simp [orFirst]

theorem encodeAll_length (fs : List Field) : ∀ (e : Enc), e.tableSizeUpdate = false → fs.length ≤ (encodeAll e fs).2.length := by
  induction fs with
  | nil => intro e _; simp [encodeAll]
  | cons f r ih =>
    intro e hu
    simp only [encodeAll, List.length_cons, List.length_append]
    have h1 := writeField_nonempty e f hu
    have he1 : (e.writeField f).1 = encAfter e f := by rw [writeField_noupd e f hu]
    have := ih (e.writeField f).1 (by rw [he1]; exact encAfter_noupd e f hu)
    omega

/-- HEADER-BLOCK ROUND TRIP. Encoder and decoder start with identical dynamic tables (no table-size change pending). For
EVERY list of header fields — any bytes in names and values, repeated fields, fields larger than the table, sensitive
ones — `Decoder.Write` on what `Encoder.WriteField` produced for the list emits exactly those fields, in that order, with
their sensitivity, reports no error, keeps nothing back in its buffer (so `Close` accepts), and the two dynamic tables are
identical again afterwards. -/
theorem block_roundtrip (e : Enc) (d : Dec) (fs : List Field) (A : Nat)
    (hsync : d.tab = withAllowed e.tab A) (hupd : e.tableSizeUpdate = false) (htab : TabOK e.tab) (hsave : d.saveBuf = [])
    (hadm : ∀ f ∈ fs, Admits d.maxStrLen f.name ∧ Admits d.maxStrLen f.value) :
    ∃ d', d.write (encodeAll e fs).2 = (d', fs, none) ∧ d'.tab = withAllowed (encodeAll e fs).1.tab A ∧ d'.saveBuf = [] ∧
      (d'.close).isOk = true := by
  unfold Dec.write
  by_cases hemp : (encodeAll e fs).2.isEmpty = true
  · have hlen := encodeAll_length fs e hupd
    have hfs : fs = [] := by
      have : (encodeAll e fs).2.length = 0 := by simpa using hemp
      exact List.eq_nil_of_length_eq_zero (by omega)
    subst hfs
    refine ⟨d, by simp [hemp], by simpa [encodeAll] using hsync, hsave, ?_⟩
    simp [Dec.close, hsave, Except.isOk, Except.toBool]
  · simp only [hemp, Bool.false_eq_true, if_false, hsave, List.nil_append]
    have hlen := encodeAll_length fs e hupd
    have := block_loop Gen.Hpack.varIntOverhead A fs e { d with saveBuf := [] } [] ((encodeAll e fs).2.length + 1)
      hsync hupd htab hadm (by omega)
    rw [this]
    refine ⟨{ tab := withAllowed (encodeAll e fs).1.tab A, saveBuf := [], firstField := (if fs.isEmpty then d.firstField else false),
              maxStrLen := d.maxStrLen }, by simp, rfl, rfl, ?_⟩
    simp [Dec.close, Except.isOk, Except.toBool]

/-! ### table-size changes -/

/-- what eviction leaves of a table (oldest first) under limit `m`: the longest fitting suffix -/
def fit (m : Nat) : List Field → List Field
  | [] => []
  | e :: r => if sumSize (e :: r) > m then fit m r else e :: r

theorem go_eq_fit (t : DynTab) (ents : List Field) (size : Nat) (h : size = sumSize ents) :
    DynTab.evict.go t ents size = (fit t.maxSize ents, sumSize (fit t.maxSize ents)) := by
  induction ents generalizing size with
  | nil => simp [DynTab.evict.go, fit, h]
  | cons a r ih =>
    unfold DynTab.evict.go fit
    subst h
    by_cases hs : sumSize (a :: r) > t.maxSize
    · simp only [hs, if_true]
      apply ih
      simp [sumSize]
    · simp only [hs, if_false]

theorem setMaxSize_fit (t : DynTab) (v : Nat) (hc : Consistent t) :
    t.setMaxSize v = { ents := fit v t.ents, size := sumSize (fit v t.ents), maxSize := v, allowedMax := t.allowedMax } := by
  unfold DynTab.setMaxSize DynTab.evict
  simp only
  rw [go_eq_fit { t with maxSize := v } t.ents t.size hc]

theorem fit_fit (a b : Nat) (l : List Field) : fit b (fit a l) = fit (min a b) l := by
  induction l with
  | nil => rfl
  | cons e r ih =>
    by_cases h1 : sumSize (e :: r) > a
    · have h2 : sumSize (e :: r) > min a b := by omega
      simp only [fit, h1, h2, if_true, ih]
    · by_cases h3 : sumSize (e :: r) > b
      · have h2 : sumSize (e :: r) > min a b := by omega
        simp only [fit, h1, h2, h3, if_true, if_false]
        -- fit b r  vs  fit (min a b) r : min a b = b here
        have : min a b = b := by omega
        rw [this]
      · have h2 : ¬ sumSize (e :: r) > min a b := by omega
        simp only [fit, h1, h2, h3, if_false]

theorem fit_consistent (m : Nat) (l : List Field) : sumSize (fit m l) ≤ m ∨ fit m l = [] := by
  induction l with
  | nil => right; rfl
  | cons e r ih =>
    by_cases h : sumSize (e :: r) > m
    · simp only [fit, h, if_true]; exact ih
    · simp only [fit, h, if_false]; left; omega

/-- a dynamic-table size update on the wire, at the beginning of a block and within the permitted maximum -/
theorem parse_update (d : Dec) (v : Nat) (rest : Bytes) (hv : v < 2 ^ 62) (hfirst : d.firstField = true)
    (hallow : v ≤ d.tab.allowedMax) :
    ∃ b r, appendTableSize v ++ rest = b :: r ∧ (b.toNat / 32 == 1) = true ∧
      parseRepr d (b :: r) = .ok ({ d with tab := d.tab.setMaxSize v }, none, rest) := by
  obtain ⟨b, r, hbr, hdiv, _, hrd⟩ := masked_roundtrip 5 v 0x20 1 rest (by omega) hv
    (fun x hx => by have := (or_mask x).2.2.1 hx; omega)
  unfold appendTableSize
  refine ⟨b, r, hbr, by simp [show b.toNat / 32 = 1 from hdiv], ?_⟩
  have hlt : 32 ≤ b.toNat ∧ b.toNat < 64 := by
    have := Nat.div_add_mod b.toNat (2 ^ 5)
    have := Nat.mod_lt b.toNat (show 2 ^ 5 > 0 by decide)
    omega
  unfold parseRepr
  have h1 : ¬ b.toNat ≥ 128 := by omega
  have h2 : ¬ b.toNat / 64 = 1 := by omega
  have h3 : ¬ b.toNat / 16 = 0 := by omega
  have h4 : ¬ b.toNat / 16 = 1 := by omega
  have h5 : ¬ (v > d.tab.allowedMax) := by omega
  simp only [h1, h2, h3, h4, if_false, hfirst, Bool.not_true, Bool.false_eq_true, false_and, hrd, h5]

/-- non-vacuity of `block_roundtrip`: a fresh pair; a new name (literal, indexed), the same field again (now an index
into the dynamic table), a static-table hit, a sensitive field -/
example : ∃ d', (Dec.new 4096).write (encodeAll {}
      [{ name := strBytes "x-a", value := strBytes "1" }, { name := strBytes "x-a", value := strBytes "1" },
       { name := strBytes ":method", value := strBytes "GET" }, { name := strBytes "cookie", value := strBytes "s", sensitive := true }]).2
      = (d', [{ name := strBytes "x-a", value := strBytes "1" }, { name := strBytes "x-a", value := strBytes "1" },
       { name := strBytes ":method", value := strBytes "GET" }, { name := strBytes "cookie", value := strBytes "s", sensitive := true }], none) ∧
    d'.tab = withAllowed (encodeAll {}
      [{ name := strBytes "x-a", value := strBytes "1" }, { name := strBytes "x-a", value := strBytes "1" },
       { name := strBytes ":method", value := strBytes "GET" }, { name := strBytes "cookie", value := strBytes "s", sensitive := true }]).1.tab 4096 ∧
    d'.saveBuf = [] ∧ (d'.close).isOk = true :=
  block_roundtrip {} (Dec.new 4096) _ 4096 rfl rfl ⟨rfl, by decide, by decide⟩ rfl (by
    intro g hg
    simp only [List.mem_cons, List.not_mem_nil, or_false] at hg
    rcases hg with rfl | rfl | rfl | rfl <;> exact ⟨⟨by decide, Or.inl rfl⟩, ⟨by decide, Or.inl rfl⟩⟩)

end Fp.C18
