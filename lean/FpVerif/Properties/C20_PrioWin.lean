/-
C20 (continued) — the PRIORITY write scheduler's Pop (pkg/http2/writesched_priority.go: Pop, walkReadyInOrder, the sort of
siblings, writeQueue.consume / FrameWriteRequest.Consume with the out-of-order throttle), over the pointer-level model
FpVerif/Model/Prio.lean — for EVERY tree shape, every sibling comparator, every throttle state:
  * what Pop hands out is the oldest frame queued on some node (or a piece of it): per-stream FIFO;
  * DATA it releases fits the stream's window, the connection's window and the maximum frame size as they stood when Pop
    was called (the walk re-orders siblings but touches neither windows nor queues until it pops);
  * control frames (queued on the root) go first.
The tree clause is `tree_rooted` / `no_cycle` (C20.lean); what the trace specification demands on top is decided by the
`schedtrace` oracle.
-/
import FpVerif.Properties.C20
set_option linter.unusedSimpArgs false
set_option linter.unusedVariables false
namespace Fp.C20
open Fp Fp.Sched Fp.Prio

/-- the walk's bookkeeping (re-linking siblings) leaves windows and every node's queue alone -/
structure SameQW (s s' : PSt) : Prop where
  win : s'.win = s.win
  q : ∀ x, (node s' x).q = (node s x).q
  thr : s'.throttle = s.throttle

theorem SameQW.refl (s : PSt) : SameQW s s := ⟨rfl, fun _ => rfl, rfl⟩
theorem SameQW.trans {a b c : PSt} (h1 : SameQW a b) (h2 : SameQW b c) : SameQW a c :=
  ⟨by rw [h2.win, h1.win], fun x => by rw [h2.q, h1.q], by rw [h2.thr, h1.thr]⟩

theorem SameQW.setParent (s : PSt) (n : Nat) (parent : Option Nat) : SameQW s (setParent s n parent) := by
  unfold Fp.Prio.setParent
  split
  · exact SameQW.refl s
  · refine ⟨rfl, ?_, rfl⟩
    intro x
    rw [show node { modNode s n (fun x => { x with parent := parent, stamp := s.clock + 1 }) with clock := s.clock + 1 } x
          = node (modNode s n (fun x => { x with parent := parent, stamp := s.clock + 1 })) x from rfl]
    by_cases hx : x = n
    · subst hx
      by_cases hp : x < s.heap.length
      · rw [node_modNode_self s x _ hp]
      · simp [node, modNode, setNode, List.getD_eq_getElem?_getD, List.getElem?_set,
          List.getElem?_eq_none (Nat.le_of_not_lt hp), hp]
    · rw [node_modNode_other s n x _ hx]

theorem SameQW.setAll (target : Option Nat) : ∀ (l : List Nat) (s : PSt),
    SameQW s (l.foldl (fun s k => Fp.Prio.setParent s k target) s) := by
  intro l
  induction l with
  | nil => intro s; exact SameQW.refl s
  | cons k r ih => intro s; exact (SameQW.setParent s k target).trans (ih _)

theorem SameQW.sortKids (s : PSt) (p : Nat) (less : PNode → PNode → Bool) : SameQW s (sortKids s p less) := by
  unfold Fp.Prio.sortKids
  cases hk : kidsOf s p with
  | nil => exact SameQW.refl s
  | cons k0 rest =>
    simp only
    split
    · exact SameQW.refl s
    · exact (SameQW.setAll none _ s).trans (SameQW.setAll (some p) _ _)

/-- what `Pop` found: a node whose queue head is the frame handed out (whole or a piece), consumed within the budget
`Consume` computes from the windows and the throttle limit -/
def Found (s : PSt) (p : Popped) : Prop :=
  ∃ n limit q' taken sid, consumeN s.win (node s n).q limit = some (p, q', taken, sid)

theorem found_popHere (s : PSt) (n : Nat) (op : Bool) (s' : PSt) (p : Popped) (h : popHere s n op = some (s', p)) :
    Found s p := by
  unfold Fp.Prio.popHere at h
  simp only at h
  split at h
  · cases h
  · split at h
    · cases h
    · rename_i pp q' taken sid hc
      simp only [Option.some.injEq, Prod.mk.injEq] at h
      obtain ⟨_, h2⟩ := h
      subst h2
      exact ⟨n, _, q', taken, sid, hc⟩

theorem Found.transfer {s s' : PSt} {p : Popped} (h : SameQW s s') (f : Found s' p) : Found s p := by
  obtain ⟨n, limit, q', taken, sid, hc⟩ := f
  exact ⟨n, limit, q', taken, sid, by rw [← h.win, ← h.q]; exact hc⟩

/-- the loop over the kids: either every visit came back empty-handed and only re-linked siblings, or one found a frame -/
theorem walkKids_spec (visit : PSt → Nat → PSt × Option Popped)
    (hv : ∀ s k, ((visit s k).2 = none → SameQW s (visit s k).1) ∧ (∀ p, (visit s k).2 = some p → Found s p)) :
    ∀ (ks : List Nat) (s : PSt), ((walkKids visit s ks).2 = none → SameQW s (walkKids visit s ks).1) ∧
      (∀ p, (walkKids visit s ks).2 = some p → Found s p) := by
  intro ks
  induction ks with
  | nil => intro s; exact ⟨fun _ => SameQW.refl s, fun p h => by simp [walkKids] at h⟩
  | cons k r ih =>
    intro s
    unfold Fp.Prio.walkKids
    have hk := hv s k
    generalize hr : visit s k = res at hk ⊢
    obtain ⟨s1, o⟩ := res
    cases o with
    | some p0 =>
      refine ⟨fun h => by simp at h, fun p h => ?_⟩
      simp only [Option.some.injEq] at h
      exact hk.2 p (by rw [h])
    | none =>
      have h1 := hk.1 rfl
      have := ih s1
      exact ⟨fun h => h1.trans (this.1 h), fun p h => (this.2 p h).transfer h1⟩

theorem walk_spec (less : PNode → PNode → Bool) : ∀ (fuel : Nat) (s : PSt) (n : Nat) (op : Bool),
    ((walk less fuel s n op).2 = none → SameQW s (walk less fuel s n op).1) ∧
      (∀ p, (walk less fuel s n op).2 = some p → Found s p) := by
  intro fuel
  induction fuel with
  | zero => intro s n op; exact ⟨fun _ => SameQW.refl s, fun p h => by simp [walk] at h⟩
  | succ fuel ih =>
    intro s n op
    unfold Fp.Prio.walk
    cases hp : Fp.Prio.popHere s n op with
    | some r =>
      obtain ⟨s', p0⟩ := r
      refine ⟨fun h => by simp at h, fun p h => ?_⟩
      simp only [Option.some.injEq] at h
      subst h
      exact found_popHere s n op s' p0 hp
    | none =>
      simp only
      split
      · exact ⟨fun _ => SameQW.refl s, fun p h => by simp at h⟩
      · have hs := SameQW.sortKids s n less
        exact ⟨fun h => hs.trans ((walkKids_spec _ (fun s' k => ih s' k _) _ _).1 h),
          fun p h => ((walkKids_spec _ (fun s' k => ih s' k _) _ _).2 p h).transfer hs⟩

/-- DATA octets a popped result releases, and the stream they belong to -/
def sidOf : Popped → Nat
  | .frame r => r.sid.getD 0
  | .piece r _ => r.sid.getD 0

theorem consumeN_spec {w : St} {q q' : List Req} {limit : Int} {p : Popped} {taken sid : Nat}
    (h : consumeN w q limit = some (p, q', taken, sid)) :
    ∃ r rest, q = r :: rest ∧
      ((p = .frame r ∧ q' = rest ∧ ((r.isData = false ∨ r.size = 0) ∧ taken = 0 ∨
          (r.isData = true ∧ taken = r.size ∧ sid = r.sid.getD 0 ∧ (r.size : Int) ≤ available w sid ∧
            (r.size : Int) ≤ w.maxFrame ∧ (r.size : Int) ≤ limit))) ∨
       (p = .piece r taken ∧ q' = { r with size := r.size - taken } :: rest ∧ 0 < taken ∧ taken < r.size ∧ sid = r.sid.getD 0 ∧
          (taken : Int) ≤ available w sid ∧ (taken : Int) ≤ w.maxFrame ∧ (taken : Int) ≤ limit)) := by
  unfold consumeN at h
  cases q with
  | nil => cases h
  | cons r rest =>
    refine ⟨r, rest, rfl, ?_⟩
    simp only at h
    have hal : allowedN w (r.sid.getD 0) limit ≤ available w (r.sid.getD 0) ∧ allowedN w (r.sid.getD 0) limit ≤ w.maxFrame ∧
        allowedN w (r.sid.getD 0) limit ≤ limit := by
      unfold allowedN; simp only; split <;> split <;> omega
    by_cases h1 : (!r.isData || r.size = 0) = true
    · rw [if_pos h1] at h
      simp only [Option.some.injEq, Prod.mk.injEq] at h
      obtain ⟨rfl, rfl, rfl, _⟩ := h
      refine Or.inl ⟨rfl, rfl, Or.inl ⟨?_, rfl⟩⟩
      simp at h1; exact h1
    · rw [if_neg h1] at h
      have hd : r.isData = true := by
        cases hdd : r.isData
        · simp [hdd] at h1
        · rfl
      by_cases h2 : allowedN w (r.sid.getD 0) limit ≤ 0
      · rw [if_pos h2] at h; cases h
      · rw [if_neg h2] at h
        by_cases h3 : (r.size : Int) > allowedN w (r.sid.getD 0) limit
        · rw [if_pos h3] at h
          simp only [Option.some.injEq, Prod.mk.injEq] at h
          obtain ⟨rfl, rfl, rfl, rfl⟩ := h
          refine Or.inr ⟨rfl, rfl, ?_, ?_, rfl, ?_, ?_, ?_⟩ <;> omega
        · rw [if_neg h3] at h
          simp only [Option.some.injEq, Prod.mk.injEq] at h
          obtain ⟨rfl, rfl, rfl, rfl⟩ := h
          refine Or.inl ⟨rfl, rfl, Or.inr ⟨hd, rfl, rfl, ?_, ?_, ?_⟩⟩ <;> omega

/-- PRIORITY SCHEDULER, PER-STREAM ORDER AND WINDOWS. For every scheduler state (any tree, any queues, any windows, any
throttle state) and every sibling comparator: if Pop hands something out, it is the OLDEST frame in the queue of some
node, whole or cut; and the DATA octets it releases are within that stream's send window, the connection's send window and
the maximum frame size as they stood when Pop was called. -/
theorem prio_pop_fifo_within_windows (less : PNode → PNode → Bool) (s s' : PSt) (p : Popped)
    (h : pop less s = (s', .popped p)) :
    ∃ n r rest, (node s n).q = r :: rest ∧
      ((p = .frame r ∧ (r.isData = false ∨ r.size = 0 ∨
          ((r.size : Int) ≤ available s.win (sidOf p) ∧ (r.size : Int) ≤ s.win.maxFrame))) ∨
       (∃ k, p = .piece r k ∧ 0 < k ∧ k < r.size ∧ (k : Int) ≤ available s.win (sidOf p) ∧ (k : Int) ≤ s.win.maxFrame)) := by
  unfold Fp.Prio.pop at h
  have hw := (walk_spec less (s.heap.length + 2) s 0 false).2
  generalize walk less (s.heap.length + 2) s 0 false = res at h hw
  obtain ⟨s1, o⟩ := res
  cases o with
  | none => simp at h
  | some p0 =>
    simp only [Prod.mk.injEq, POut.popped.injEq] at h
    obtain ⟨_, rfl⟩ := h
    obtain ⟨n, limit, q', taken, sid, hc⟩ := hw p0 rfl
    obtain ⟨r, rest, hq, hsp⟩ := consumeN_spec hc
    refine ⟨n, r, rest, hq, ?_⟩
    rcases hsp with ⟨rfl, _, h1 | h1⟩ | ⟨rfl, _, h0, h1, hs, h2, h3, _⟩
    · rcases h1 with ⟨h1 | h1, _⟩
      · exact Or.inl ⟨rfl, Or.inl h1⟩
      · exact Or.inl ⟨rfl, Or.inr (Or.inl h1)⟩
    · obtain ⟨_, _, hs, h2, h3, _⟩ := h1
      refine Or.inl ⟨rfl, Or.inr (Or.inr ?_)⟩
      simp only [sidOf]; rw [← hs]; exact ⟨h2, h3⟩
    · refine Or.inr ⟨taken, rfl, h0, h1, ?_⟩
      simp only [sidOf]; rw [← hs]; exact ⟨h2, h3⟩

/-- PRIORITY SCHEDULER, "NOTHING" CHANGES NOTHING: a Pop that reports nothing to write has neither touched a queue nor a
window nor the throttle limit (it may have re-ordered siblings) -/
theorem prio_pop_none_keeps (less : PNode → PNode → Bool) (s s' : PSt) (h : pop less s = (s', .none_)) :
    s'.win = s.win ∧ (∀ x, (node s' x).q = (node s x).q) ∧ s'.throttle = s.throttle := by
  unfold Fp.Prio.pop at h
  have hw := (walk_spec less (s.heap.length + 2) s 0 false).1
  generalize walk less (s.heap.length + 2) s 0 false = res at h hw
  obtain ⟨s1, o⟩ := res
  cases o with
  | some p0 => simp at h
  | none =>
    simp only [Prod.mk.injEq, and_true] at h
    subst h
    have := hw rfl
    exact ⟨this.win, this.q, this.thr⟩

/-- PRIORITY SCHEDULER, CONTROL FIRST: control frames are queued on the root node, which the walk visits first; while one
is queued there, Pop returns the oldest one, whatever the streams hold -/
theorem control_first_prio (less : PNode → PNode → Bool) (s : PSt) (c : Req) (rest : List Req)
    (hq : (node s 0).q = c :: rest) (hc : c.isData = false) : (pop less s).2 = .popped (.frame c) := by
  unfold Fp.Prio.pop
  have : ∃ s1, walk less (s.heap.length + 2) s 0 false = (s1, some (.frame c)) := by
    rw [show s.heap.length + 2 = (s.heap.length + 1) + 1 from rfl]
    unfold Fp.Prio.walk
    unfold Fp.Prio.popHere
    simp [hq, consumeN, hc]
  obtain ⟨s1, h1⟩ := this
  rw [h1]

/-- non-vacuity: stream 1 (window 10) holds a 25-octet DATA frame; Pop hands out a 10-octet piece of it -/
example :
    let s0 := PSt.init 10 10 false
    let s1 := (step (fun _ _ => true) s0 (.open_ 1)).1
    let s2 := (step (fun _ _ => true) s1 (.addWin 1 10)).1
    let s3 := (step (fun _ _ => true) s2 (.push { uid := 1, sid := some 1, isData := true, size := 25, es := true })).1
    (pop (fun _ _ => true) s3).2 = .popped (.piece { uid := 1, sid := some 1, isData := true, size := 25, es := true } 10) := by
  decide

end Fp.C20
