/-
C19 — HTTP/2 frame codec round-trips; the reader survives any bytes.
Model: FpVerif/Model/Frame.lean (frame header, every parse*Frame, checkFrameOrder, ReadFrame, every Write*).
`readFrame` is a total function of (read limit, reader state, input bytes): the "never panics" clause for the
model; the differential compares outcome classes (a Go panic would be a distinct class) over arbitrary bytes.
-/
import FpVerif.Model.Frame
set_option linter.unusedSimpArgs false
set_option linter.unusedVariables false
namespace Fp.C19
open Fp Fp.Frame

/-- READ LIMIT: a frame longer than the configured limit is never returned -/
theorem read_bounded (max hs : Nat) (inp : Bytes) (f : Frame) (hs' : Nat) (rest : Bytes)
    (h : readFrame max hs inp = (.ok f, hs', rest)) : hdrLen inp ≤ max := by
  unfold readFrame at h
  split at h
  · cases h
  · split at h
    · cases h
    · split at h
      · cases h
      · omega

/-- a value of the h2 error classes RFC 7540 §4.2 / §6 assign to malformed frames -/
def IsH2Error (sid : Nat) : RErr → Prop
  | .conn c => c = codeProtocol ∨ c = codeFlowControl ∨ c = codeFrameSize
  | .stream s c => s = sid ∧ c = codeProtocol
  | _ => False

/-- every rejection of a malformed frame is a connection error or a stream error carrying PROTOCOL_ERROR,
FLOW_CONTROL_ERROR or FRAME_SIZE_ERROR — never a bare I/O error, never anything else -/
theorem parse_error_is_h2_error (ty flags sid : Nat) (p : Bytes) (e : RErr) (h : parsePayload ty flags sid p = .error e) :
    IsH2Error sid e := by
  unfold parsePayload at h
  split at h
  all_goals first
    | (simp only [parseData, parseHeaders, parsePriority, parseRST, parseSettings, parsePushPromise, parsePing, parseGoAway,
        parseWindowUpdate, parseContinuation] at h
       (repeat' split at h) <;> (cases h <;> simp [IsH2Error, codeProtocol, codeFlowControl, codeFrameSize]))
    | cases h

/-- frame-size defects get FRAME_SIZE_ERROR: wrong fixed lengths … -/
theorem fixed_length_frames (flags sid : Nat) (p : Bytes) :
    (p.length ≠ 5 → sid ≠ 0 → parsePayload 2 flags sid p = .error (.conn codeFrameSize)) ∧
    (p.length ≠ 4 → parsePayload 3 flags sid p = .error (.conn codeFrameSize)) ∧
    (p.length ≠ 8 → parsePayload 6 flags sid p = .error (.conn codeFrameSize)) ∧
    (p.length ≠ 4 → parsePayload 8 flags sid p = .error (.conn codeFrameSize)) ∧
    (p.length % 6 ≠ 0 → sid = 0 → hasFlag flags 1 = false → parsePayload 4 flags sid p = .error (.conn codeFrameSize)) := by
  refine ⟨?_, ?_, ?_, ?_, ?_⟩ <;> intros <;>
    simp_all [parsePayload, parsePriority, parseRST, parsePing, parseWindowUpdate, parseSettings]

/-- … and frames too short for their mandatory fields (PADDED without a pad-length byte, PRIORITY flag
without five bytes, PUSH_PROMISE without a promised id) -/
theorem short_frames (flags sid : Nat) (hs : sid ≠ 0) :
    (hasFlag flags 8 = true → parsePayload 0 flags sid [] = .error (.conn codeFrameSize)) ∧
    (hasFlag flags 8 = true → parsePayload 1 flags sid [] = .error (.conn codeFrameSize)) ∧
    (hasFlag flags 8 = false → hasFlag flags 32 = true → ∀ p, p.length < 5 → parsePayload 1 flags sid p = .error (.conn codeFrameSize)) ∧
    (hasFlag flags 8 = false → ∀ p, p.length < 4 → parsePayload 5 flags sid p = .error (.conn codeFrameSize)) := by
  refine ⟨?_, ?_, ?_, ?_⟩ <;> intros <;>
    simp_all [parsePayload, parseData, parseHeaders, parsePushPromise, afterPad]

/-- a frame on stream 0 that must name a stream: PROTOCOL_ERROR -/
theorem stream_zero_rules (flags : Nat) (p : Bytes) :
    parsePayload 0 flags 0 p = .error (.conn codeProtocol) ∧ parsePayload 1 flags 0 p = .error (.conn codeProtocol) ∧
    parsePayload 2 flags 0 p = .error (.conn codeProtocol) ∧ parsePayload 9 flags 0 p = .error (.conn codeProtocol) ∧
    parsePayload 5 flags 0 p = .error (.conn codeProtocol) := by
  refine ⟨?_, ?_, ?_, ?_, ?_⟩ <;> simp [parsePayload, parseData, parseHeaders, parsePriority, parseContinuation, parsePushPromise]

/-- a zero window increment is rejected (connection error on stream 0, stream error otherwise); hence every
WINDOW_UPDATE frame delivered to the server carries a non-zero increment (used by C03) -/
theorem window_update_nonzero (flags sid : Nat) (p : Bytes) (f : Frame) (h : parsePayload 8 flags sid p = .ok f) :
    ∃ inc, f = .windowUpdate sid flags inc ∧ inc ≠ 0 := by
  simp only [parsePayload, parseWindowUpdate] at h
  split at h
  · cases h
  · split at h
    · split at h <;> cases h
    · injection h with h; exact ⟨_, h.symm, by assumption⟩

/-- HEADERS / CONTINUATION interleaving: after HEADERS without END_HEADERS on stream s only CONTINUATION on s
is accepted, anything else is a connection error PROTOCOL_ERROR; a CONTINUATION out of the blue likewise -/
theorem continuation_discipline (s ty flags sid : Nat) (hs : s ≠ 0) :
    (ty ≠ 9 → checkOrder s ty flags sid = .error (.conn codeProtocol)) ∧
    (ty = 9 → sid ≠ s → checkOrder s ty flags sid = .error (.conn codeProtocol)) ∧
    (checkOrder 0 9 flags sid = .error (.conn codeProtocol)) := by
  refine ⟨?_, ?_, ?_⟩ <;> intros <;> simp_all [checkOrder]

/-! ### write → read round trips -/

theorem u8 (x : Nat) (h : x < 256) : (UInt8.ofNat x).toNat = x := by
  simp [UInt8.toNat_ofNat', Nat.mod_eq_of_lt h]

theorem u32be_be32 (n : Nat) (h : n < 4294967296) (rest : Bytes) : u32be (be32 n ++ rest) = n := by
  unfold u32be be32
  simp only [List.cons_append, List.nil_append, List.getD_cons_zero, List.getD_cons_succ]
  simp only [UInt8.toNat_ofNat']
  omega

/-- the 9-byte header written by `startWrite`/`endWrite` is read back exactly (length < 2^24, type and flags
bytes, 31-bit stream id) and the payload is handed to the type-specific parser unchanged -/
theorem header_roundtrip (ty flags sid : Nat) (payload rest : Bytes) (w : Bytes) (max hs : Nat)
    (ht : ty < 256) (hf : flags < 256) (hsid : sid < 2147483648) (hl : payload.length ≤ max)
    (hw : rawFrame ty flags sid payload = .ok w) :
    readFrame max hs (w ++ rest) = finishFrame hs ty flags sid payload rest := by
  unfold rawFrame at hw
  split at hw
  · cases hw
  · rename_i hlen
    injection hw with hw
    subst hw
    have hlen' : payload.length < 16777216 := by omega
    have e : (be24 payload.length ++ [UInt8.ofNat ty, UInt8.ofNat flags] ++ be32 sid ++ payload) ++ rest =
        UInt8.ofNat (payload.length / 65536) :: UInt8.ofNat (payload.length / 256) :: UInt8.ofNat payload.length ::
        UInt8.ofNat ty :: UInt8.ofNat flags :: (be32 sid ++ (payload ++ rest)) := by
      simp [be24, List.append_assoc]
    rw [e]
    have hL : hdrLen (UInt8.ofNat (payload.length / 65536) :: UInt8.ofNat (payload.length / 256) :: UInt8.ofNat payload.length ::
        UInt8.ofNat ty :: UInt8.ofNat flags :: (be32 sid ++ (payload ++ rest))) = payload.length := by
      simp only [hdrLen, List.getD_cons_zero, List.getD_cons_succ, UInt8.toNat_ofNat']; omega
    have hT : hdrType (UInt8.ofNat (payload.length / 65536) :: UInt8.ofNat (payload.length / 256) :: UInt8.ofNat payload.length ::
        UInt8.ofNat ty :: UInt8.ofNat flags :: (be32 sid ++ (payload ++ rest))) = ty := by
      simp only [hdrType, List.getD_cons_zero, List.getD_cons_succ]; exact u8 ty ht
    have hF : hdrFlags (UInt8.ofNat (payload.length / 65536) :: UInt8.ofNat (payload.length / 256) :: UInt8.ofNat payload.length ::
        UInt8.ofNat ty :: UInt8.ofNat flags :: (be32 sid ++ (payload ++ rest))) = flags := by
      simp only [hdrFlags, List.getD_cons_zero, List.getD_cons_succ]; exact u8 flags hf
    have hS : hdrSid (UInt8.ofNat (payload.length / 65536) :: UInt8.ofNat (payload.length / 256) :: UInt8.ofNat payload.length ::
        UInt8.ofNat ty :: UInt8.ofNat flags :: (be32 sid ++ (payload ++ rest))) = sid := by
      simp only [hdrSid, List.drop_succ_cons, List.drop_zero]
      rw [u32be_be32 sid (by omega)]; omega
    have hD : (UInt8.ofNat (payload.length / 65536) :: UInt8.ofNat (payload.length / 256) :: UInt8.ofNat payload.length ::
        UInt8.ofNat ty :: UInt8.ofNat flags :: (be32 sid ++ (payload ++ rest))).drop 9 = payload ++ rest := by
      simp [be32]
    unfold readFrame
    rw [hL, hT, hF, hS, hD]
    have h0 : ¬ (UInt8.ofNat (payload.length / 65536) :: UInt8.ofNat (payload.length / 256) :: UInt8.ofNat payload.length ::
        UInt8.ofNat ty :: UInt8.ofNat flags :: (be32 sid ++ (payload ++ rest))) = [] := by simp
    have h9 : ¬ (UInt8.ofNat (payload.length / 65536) :: UInt8.ofNat (payload.length / 256) :: UInt8.ofNat payload.length ::
        UInt8.ofNat ty :: UInt8.ofNat flags :: (be32 sid ++ (payload ++ rest))).length < 9 := by simp [be32]
    have h1 : ¬ payload.length > max := by omega
    have h2 : ¬ (payload ++ rest).length < payload.length := by simp
    rw [if_neg h0, if_neg h9, if_neg h1, if_neg h2, List.take_left' rfl, List.drop_left' rfl]

theorem rawFrame_ok (ty flags sid : Nat) (payload : Bytes) (h : payload.length < 16777216) :
    rawFrame ty flags sid payload = .ok (be24 payload.length ++ [UInt8.ofNat ty, UInt8.ofNat flags] ++ be32 sid ++ payload) := by
  unfold rawFrame
  rw [if_neg (by omega)]

/-- a fixed-length frame: write with `rawFrame`, read back (payload kept opaque) -/
theorem fixed_roundtrip (ty sid : Nat) (pl rest : Bytes) (max : Nat) (f : Frame) (ht : ty < 256) (hsid : sid < 2147483648)
    (hl : pl.length ≤ max) (hl2 : pl.length < 16777216) (hp : parsePayload ty 0 sid pl = .ok f) (hc : checkOrder 0 ty 0 sid = .ok 0) :
    ∃ w, rawFrame ty 0 sid pl = .ok w ∧ readFrame max 0 (w ++ rest) = (.ok f, 0, rest) := by
  refine ⟨_, rawFrame_ok ty 0 sid pl hl2, ?_⟩
  rw [header_roundtrip ty 0 sid pl rest _ max 0 ht (by omega) hsid hl (rawFrame_ok ty 0 sid pl hl2)]
  unfold finishFrame
  rw [hp, hc]

/-- WINDOW_UPDATE round trip (every stream id below 2^31, every legal increment 1..2^31-1) -/
theorem window_update_roundtrip (sid inc : Nat) (rest : Bytes) (max : Nat) (hsid : sid < 2147483648)
    (hi : 1 ≤ inc ∧ inc ≤ 2147483647) (hm : 4 ≤ max) :
    ∃ w, writeWindowUpdate sid inc = .ok w ∧ readFrame max 0 (w ++ rest) = (.ok (.windowUpdate sid 0 inc), 0, rest) := by
  have hne : ¬ (inc < 1 ∨ inc > 2147483647) := by omega
  have hw : writeWindowUpdate sid inc = rawFrame 8 0 sid (be32 inc) := by unfold writeWindowUpdate; rw [if_neg hne]
  have hlen : (be32 inc).length = 4 := rfl
  have hv : u32be (be32 inc) = inc := by
    have := u32be_be32 inc (by omega) []
    rwa [List.append_nil] at this
  rw [hw]
  generalize be32 inc = pl at hlen hv ⊢
  have hmod : inc % 2147483648 = inc := Nat.mod_eq_of_lt (by omega)
  apply fixed_roundtrip 8 sid pl rest max _ (by omega) hsid (by omega) (by omega)
  · simp only [parsePayload]
    unfold parseWindowUpdate
    rw [if_neg (by omega), hv, hmod, if_neg (by omega)]
  · unfold checkOrder; simp

/-- RST_STREAM round trip -/
theorem rst_roundtrip (sid code : Nat) (rest : Bytes) (max : Nat) (hsid : 0 < sid ∧ sid < 2147483648)
    (hc : code < 4294967296) (hm : 4 ≤ max) :
    ∃ w, writeRST sid code = .ok w ∧ readFrame max 0 (w ++ rest) = (.ok (.rst sid 0 code), 0, rest) := by
  have hvs : validStreamID sid = true := by simp [validStreamID]; omega
  have hw : writeRST sid code = rawFrame 3 0 sid (be32 code) := by simp [writeRST, hvs]
  have hlen : (be32 code).length = 4 := rfl
  have hv : u32be (be32 code) = code := by
    have := u32be_be32 code hc []
    rwa [List.append_nil] at this
  rw [hw]
  generalize be32 code = pl at hlen hv ⊢
  apply fixed_roundtrip 3 sid pl rest max _ (by omega) hsid.2 (by omega) (by omega)
  · simp only [parsePayload]
    unfold parseRST
    rw [if_neg (by omega), if_neg (by omega), hv]
  · unfold checkOrder; simp

/-- non-vacuity: a HEADERS frame with padding and priority written by the model is read back -/
example : (match writeHeaders 5 [0x82, 0x84] true true 3 { dep := 7, excl := true, weight := 200 } with
    | .ok w => (match (readFrame 16384 0 w).1 with | .ok f => some f | .error _ => none) | .error _ => none) =
    some (.headers 5 (1 + 4 + 8 + 32) { dep := 7, excl := true, weight := 200 } [0x82, 0x84]) := by
  decide +kernel

end Fp.C19
