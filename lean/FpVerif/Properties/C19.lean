/-
C19 — HTTP/2 frame codec round-trips; the reader survives any bytes.
Model: FpVerif/Model/Frame.lean (frame header, every parse*Frame, checkFrameOrder, ReadFrame, every Write*).
`readFrame` is a total function of (read limit, reader state, input bytes): the "never panics" clause for the
model; the differential compares outcome classes (a Go panic would be a distinct class) over arbitrary bytes.
-/
import FpVerif.Model.Frame
set_option linter.unusedSimpArgs false
set_option linter.unusedVariables false
namespace Fp.C19
open Fp Fp.Frame

/-- READ LIMIT: a frame longer than the configured limit is never returned -/
theorem read_bounded (max hs : Nat) (inp : Bytes) (f : Frame) (hs' : Nat) (rest : Bytes)
    (h : readFrame max hs inp = (.ok f, hs', rest)) : hdrLen inp ≤ max := by
  unfold readFrame at h
  split at h
  · cases h
  · split at h
    · cases h
    · split at h
      · cases h
      · omega

/-- a value of the h2 error classes RFC 7540 §4.2 / §6 assign to malformed frames -/
def IsH2Error (sid : Nat) : RErr → Prop
  | .conn c => c = codeProtocol ∨ c = codeFlowControl ∨ c = codeFrameSize
  | .stream s c => s = sid ∧ c = codeProtocol
  | _ => False

/-- every rejection of a malformed frame is a connection error or a stream error carrying PROTOCOL_ERROR,
FLOW_CONTROL_ERROR or FRAME_SIZE_ERROR — never a bare I/O error, never anything else -/
theorem parse_error_is_h2_error (ty flags sid : Nat) (p : Bytes) (e : RErr) (h : parsePayload ty flags sid p = .error e) :
    IsH2Error sid e := by
  unfold parsePayload at h
  split at h
  all_goals first
    | (simp only [parseData, parseHeaders, parsePriority, parseRST, parseSettings, parsePushPromise, parsePing, parseGoAway,
        parseWindowUpdate, parseContinuation] at h
       (repeat' split at h) <;> (cases h <;> simp [IsH2Error, codeProtocol, codeFlowControl, codeFrameSize]))
    | cases h

/-- frame-size defects get FRAME_SIZE_ERROR: wrong fixed lengths … -/
theorem fixed_length_frames (flags sid : Nat) (p : Bytes) :
    (p.length ≠ 5 → sid ≠ 0 → parsePayload 2 flags sid p = .error (.conn codeFrameSize)) ∧
    (p.length ≠ 4 → parsePayload 3 flags sid p = .error (.conn codeFrameSize)) ∧
    (p.length ≠ 8 → parsePayload 6 flags sid p = .error (.conn codeFrameSize)) ∧
    (p.length ≠ 4 → parsePayload 8 flags sid p = .error (.conn codeFrameSize)) ∧
    (p.length % 6 ≠ 0 → sid = 0 → hasFlag flags 1 = false → parsePayload 4 flags sid p = .error (.conn codeFrameSize)) := by
  refine ⟨?_, ?_, ?_, ?_, ?_⟩ <;> intros <;>
    simp_all [parsePayload, parsePriority, parseRST, parsePing, parseWindowUpdate, parseSettings]

/-- … and frames too short for their mandatory fields (PADDED without a pad-length byte, PRIORITY flag
without five bytes, PUSH_PROMISE without a promised id) -/
theorem short_frames (flags sid : Nat) (hs : sid ≠ 0) :
    (hasFlag flags 8 = true → parsePayload 0 flags sid [] = .error (.conn codeFrameSize)) ∧
    (hasFlag flags 8 = true → parsePayload 1 flags sid [] = .error (.conn codeFrameSize)) ∧
    (hasFlag flags 8 = false → hasFlag flags 32 = true → ∀ p, p.length < 5 → parsePayload 1 flags sid p = .error (.conn codeFrameSize)) ∧
    (hasFlag flags 8 = false → ∀ p, p.length < 4 → parsePayload 5 flags sid p = .error (.conn codeFrameSize)) := by
  refine ⟨?_, ?_, ?_, ?_⟩ <;> intros <;>
    simp_all [parsePayload, parseData, parseHeaders, parsePushPromise, afterPad]

/-- a frame on stream 0 that must name a stream: PROTOCOL_ERROR -/
theorem stream_zero_rules (flags : Nat) (p : Bytes) :
    parsePayload 0 flags 0 p = .error (.conn codeProtocol) ∧ parsePayload 1 flags 0 p = .error (.conn codeProtocol) ∧
    parsePayload 2 flags 0 p = .error (.conn codeProtocol) ∧ parsePayload 9 flags 0 p = .error (.conn codeProtocol) ∧
    parsePayload 5 flags 0 p = .error (.conn codeProtocol) := by
  refine ⟨?_, ?_, ?_, ?_, ?_⟩ <;> simp [parsePayload, parseData, parseHeaders, parsePriority, parseContinuation, parsePushPromise]

/-- a zero window increment is rejected (connection error on stream 0, stream error otherwise); hence every
WINDOW_UPDATE frame delivered to the server carries a non-zero increment (used by C03) -/
theorem window_update_nonzero (flags sid : Nat) (p : Bytes) (f : Frame) (h : parsePayload 8 flags sid p = .ok f) :
    ∃ inc, f = .windowUpdate sid flags inc ∧ inc ≠ 0 := by
  simp only [parsePayload, parseWindowUpdate] at h
  split at h
  · cases h
  · split at h
    · split at h <;> cases h
    · injection h with h; exact ⟨_, h.symm, by assumption⟩

/-- HEADERS / CONTINUATION interleaving: after HEADERS without END_HEADERS on stream s only CONTINUATION on s
is accepted, anything else is a connection error PROTOCOL_ERROR; a CONTINUATION out of the blue likewise -/
theorem continuation_discipline (s ty flags sid : Nat) (hs : s ≠ 0) :
    (ty ≠ 9 → checkOrder s ty flags sid = .error (.conn codeProtocol)) ∧
    (ty = 9 → sid ≠ s → checkOrder s ty flags sid = .error (.conn codeProtocol)) ∧
    (checkOrder 0 9 flags sid = .error (.conn codeProtocol)) := by
  refine ⟨?_, ?_, ?_⟩ <;> intros <;> simp_all [checkOrder]

/-! ### write → read round trips -/

theorem u8 (x : Nat) (h : x < 256) : (UInt8.ofNat x).toNat = x := by
  simp [UInt8.toNat_ofNat', Nat.mod_eq_of_lt h]

theorem u32be_be32 (n : Nat) (h : n < 4294967296) (rest : Bytes) : u32be (be32 n ++ rest) = n := by
  unfold u32be be32
  simp only [List.cons_append, List.nil_append, List.getD_cons_zero, List.getD_cons_succ]
  simp only [UInt8.toNat_ofNat']
  omega

/-- the 9-byte header written by `startWrite`/`endWrite` is read back exactly (length < 2^24, type and flags
bytes, 31-bit stream id) and the payload is handed to the type-specific parser unchanged -/
theorem header_roundtrip (ty flags sid : Nat) (payload rest : Bytes) (w : Bytes) (max hs : Nat)
    (ht : ty < 256) (hf : flags < 256) (hsid : sid < 2147483648) (hl : payload.length ≤ max)
    (hw : rawFrame ty flags sid payload = .ok w) :
    readFrame max hs (w ++ rest) = finishFrame hs ty flags sid payload rest := by
  unfold rawFrame at hw
  split at hw
  · cases hw
  · rename_i hlen
    injection hw with hw
    subst hw
    have hlen' : payload.length < 16777216 := by omega
    have e : (be24 payload.length ++ [UInt8.ofNat ty, UInt8.ofNat flags] ++ be32 sid ++ payload) ++ rest =
        UInt8.ofNat (payload.length / 65536) :: UInt8.ofNat (payload.length / 256) :: UInt8.ofNat payload.length ::
        UInt8.ofNat ty :: UInt8.ofNat flags :: (be32 sid ++ (payload ++ rest)) := by
      simp [be24, List.append_assoc]
    rw [e]
    have hL : hdrLen (UInt8.ofNat (payload.length / 65536) :: UInt8.ofNat (payload.length / 256) :: UInt8.ofNat payload.length ::
        UInt8.ofNat ty :: UInt8.ofNat flags :: (be32 sid ++ (payload ++ rest))) = payload.length := by
      simp only [hdrLen, List.getD_cons_zero, List.getD_cons_succ, UInt8.toNat_ofNat']; omega
    have hT : hdrType (UInt8.ofNat (payload.length / 65536) :: UInt8.ofNat (payload.length / 256) :: UInt8.ofNat payload.length ::
        UInt8.ofNat ty :: UInt8.ofNat flags :: (be32 sid ++ (payload ++ rest))) = ty := by
      simp only [hdrType, List.getD_cons_zero, List.getD_cons_succ]; exact u8 ty ht
    have hF : hdrFlags (UInt8.ofNat (payload.length / 65536) :: UInt8.ofNat (payload.length / 256) :: UInt8.ofNat payload.length ::
        UInt8.ofNat ty :: UInt8.ofNat flags :: (be32 sid ++ (payload ++ rest))) = flags := by
      simp only [hdrFlags, List.getD_cons_zero, List.getD_cons_succ]; exact u8 flags hf
    have hS : hdrSid (UInt8.ofNat (payload.length / 65536) :: UInt8.ofNat (payload.length / 256) :: UInt8.ofNat payload.length ::
        UInt8.ofNat ty :: UInt8.ofNat flags :: (be32 sid ++ (payload ++ rest))) = sid := by
      simp only [hdrSid, List.drop_succ_cons, List.drop_zero]
      rw [u32be_be32 sid (by omega)]; omega
    have hD : (UInt8.ofNat (payload.length / 65536) :: UInt8.ofNat (payload.length / 256) :: UInt8.ofNat payload.length ::
        UInt8.ofNat ty :: UInt8.ofNat flags :: (be32 sid ++ (payload ++ rest))).drop 9 = payload ++ rest := by
      simp [be32]
    unfold readFrame
    rw [hL, hT, hF, hS, hD]
    have h0 : ¬ (UInt8.ofNat (payload.length / 65536) :: UInt8.ofNat (payload.length / 256) :: UInt8.ofNat payload.length ::
        UInt8.ofNat ty :: UInt8.ofNat flags :: (be32 sid ++ (payload ++ rest))) = [] := by simp
    have h9 : ¬ (UInt8.ofNat (payload.length / 65536) :: UInt8.ofNat (payload.length / 256) :: UInt8.ofNat payload.length ::
        UInt8.ofNat ty :: UInt8.ofNat flags :: (be32 sid ++ (payload ++ rest))).length < 9 := by simp [be32]
    have h1 : ¬ payload.length > max := by omega
    have h2 : ¬ (payload ++ rest).length < payload.length := by simp
    rw [if_neg h0, if_neg h9, if_neg h1, if_neg h2, List.take_left' rfl, List.drop_left' rfl]

theorem rawFrame_ok (ty flags sid : Nat) (payload : Bytes) (h : payload.length < 16777216) :
    rawFrame ty flags sid payload = .ok (be24 payload.length ++ [UInt8.ofNat ty, UInt8.ofNat flags] ++ be32 sid ++ payload) := by
  unfold rawFrame
  rw [if_neg (by omega)]

/-- a fixed-length frame: write with `rawFrame`, read back (payload kept opaque) -/
theorem fixed_roundtrip (ty sid : Nat) (pl rest : Bytes) (max : Nat) (f : Frame) (ht : ty < 256) (hsid : sid < 2147483648)
    (hl : pl.length ≤ max) (hl2 : pl.length < 16777216) (hp : parsePayload ty 0 sid pl = .ok f) (hc : checkOrder 0 ty 0 sid = .ok 0) :
    ∃ w, rawFrame ty 0 sid pl = .ok w ∧ readFrame max 0 (w ++ rest) = (.ok f, 0, rest) := by
  refine ⟨_, rawFrame_ok ty 0 sid pl hl2, ?_⟩
  rw [header_roundtrip ty 0 sid pl rest _ max 0 ht (by omega) hsid hl (rawFrame_ok ty 0 sid pl hl2)]
  unfold finishFrame
  rw [hp, hc]

/-- WINDOW_UPDATE round trip (every stream id below 2^31, every legal increment 1..2^31-1) -/
theorem window_update_roundtrip (sid inc : Nat) (rest : Bytes) (max : Nat) (hsid : sid < 2147483648)
    (hi : 1 ≤ inc ∧ inc ≤ 2147483647) (hm : 4 ≤ max) :
    ∃ w, writeWindowUpdate sid inc = .ok w ∧ readFrame max 0 (w ++ rest) = (.ok (.windowUpdate sid 0 inc), 0, rest) := by
  have hne : ¬ (inc < 1 ∨ inc > 2147483647) := by omega
  have hw : writeWindowUpdate sid inc = rawFrame 8 0 sid (be32 inc) := by unfold writeWindowUpdate; rw [if_neg hne]
  have hlen : (be32 inc).length = 4 := rfl
  have hv : u32be (be32 inc) = inc := by
    have := u32be_be32 inc (by omega) []
    rwa [List.append_nil] at this
  rw [hw]
  generalize be32 inc = pl at hlen hv ⊢
  have hmod : inc % 2147483648 = inc := Nat.mod_eq_of_lt (by omega)
  apply fixed_roundtrip 8 sid pl rest max _ (by omega) hsid (by omega) (by omega)
  · simp only [parsePayload]
    unfold parseWindowUpdate
    rw [if_neg (by omega), hv, hmod, if_neg (by omega)]
  · unfold checkOrder; simp

/-- RST_STREAM round trip -/
theorem rst_roundtrip (sid code : Nat) (rest : Bytes) (max : Nat) (hsid : 0 < sid ∧ sid < 2147483648)
    (hc : code < 4294967296) (hm : 4 ≤ max) :
    ∃ w, writeRST sid code = .ok w ∧ readFrame max 0 (w ++ rest) = (.ok (.rst sid 0 code), 0, rest) := by
  have hvs : validStreamID sid = true := by simp [validStreamID]; omega
  have hw : writeRST sid code = rawFrame 3 0 sid (be32 code) := by simp [writeRST, hvs]
  have hlen : (be32 code).length = 4 := rfl
  have hv : u32be (be32 code) = code := by
    have := u32be_be32 code hc []
    rwa [List.append_nil] at this
  rw [hw]
  generalize be32 code = pl at hlen hv ⊢
  apply fixed_roundtrip 3 sid pl rest max _ (by omega) hsid.2 (by omega) (by omega)
  · simp only [parsePayload]
    unfold parseRST
    rw [if_neg (by omega), if_neg (by omega), hv]
  · unfold checkOrder; simp

/-- any frame: write with `rawFrame` under any flags byte, read back (payload kept opaque) -/
theorem flagged_roundtrip (ty flags sid : Nat) (pl rest : Bytes) (max : Nat) (f : Frame) (hs' : Nat) (ht : ty < 256)
    (hf : flags < 256) (hsid : sid < 2147483648) (hl : pl.length ≤ max) (hl2 : pl.length < 16777216)
    (hp : parsePayload ty flags sid pl = .ok f) (hc : checkOrder 0 ty flags sid = .ok hs') :
    ∃ w, rawFrame ty flags sid pl = .ok w ∧ readFrame max 0 (w ++ rest) = (.ok f, hs', rest) := by
  refine ⟨_, rawFrame_ok ty flags sid pl hl2, ?_⟩
  rw [header_roundtrip ty flags sid pl rest _ max 0 ht hf hsid hl (rawFrame_ok ty flags sid pl hl2)]
  unfold finishFrame
  rw [hp, hc]

/-- PING round trip, with and without ACK, any 8 bytes of opaque data -/
theorem ping_roundtrip (ack : Bool) (data rest : Bytes) (max : Nat) (hd : data.length = 8) (hm : 8 ≤ max) :
    ∃ w, writePing ack data = .ok w ∧
      readFrame max 0 (w ++ rest) = (.ok (.ping (if ack then 1 else 0) data), 0, rest) := by
  unfold writePing
  apply flagged_roundtrip 6 _ 0 data rest max _ 0 (by omega) (by split <;> omega) (by omega) (by omega) (by omega)
  · simp only [parsePayload]
    unfold parsePing
    rw [if_neg (by omega), if_neg (by simp)]
  · unfold checkOrder; simp

theorem prio_bytes (dep : Nat) (excl : Bool) (weight : Nat) (hd : dep < 2147483648) (hw : weight < 256) :
    prioOf (be32 (dep + (if excl then 2147483648 else 0)) ++ [UInt8.ofNat weight]) = { dep := dep, excl := excl, weight := weight } := by
  have hv : u32be (be32 (dep + (if excl then 2147483648 else 0)) ++ [UInt8.ofNat weight]) = dep + (if excl then 2147483648 else 0) :=
    u32be_be32 _ (by split <;> omega) _
  unfold prioOf
  rw [hv]
  have hw' : ((be32 (dep + (if excl then 2147483648 else 0)) ++ [UInt8.ofNat weight]).getD 4 0).toNat = weight := by
    simp [be32, u8 weight hw]
  rw [hw']
  cases excl <;> simp <;> omega

/-- PRIORITY round trip: every stream id, dependency below 2^31, exclusive bit, weight byte -/
theorem priority_roundtrip (sid dep weight : Nat) (excl : Bool) (rest : Bytes) (max : Nat)
    (hsid : 0 < sid ∧ sid < 2147483648) (hd : dep < 2147483648) (hw : weight < 256) (hm : 5 ≤ max) :
    ∃ w, writePriority sid { dep := dep, excl := excl, weight := weight } = .ok w ∧
      readFrame max 0 (w ++ rest) = (.ok (.priority sid 0 { dep := dep, excl := excl, weight := weight }), 0, rest) := by
  have hvs : validStreamID sid = true := by simp [validStreamID]; omega
  have hwq : writePriority sid { dep := dep, excl := excl, weight := weight } =
      rawFrame 2 0 sid (be32 (dep + (if excl then 2147483648 else 0)) ++ [UInt8.ofNat weight]) := by
    simp [writePriority, hvs]; omega
  rw [hwq]
  have hlen : (be32 (dep + (if excl then 2147483648 else 0)) ++ [UInt8.ofNat weight]).length = 5 := rfl
  have hp := prio_bytes dep excl weight hd hw
  generalize be32 (dep + (if excl then 2147483648 else 0)) ++ [UInt8.ofNat weight] = pl at hlen hp ⊢
  apply flagged_roundtrip 2 0 sid pl rest max _ 0 (by omega) (by omega) hsid.2 (by omega) (by omega)
  · simp only [parsePayload]
    unfold parsePriority
    rw [if_neg (by omega), if_neg (by omega), hp]
  · unfold checkOrder; simp

/-- GOAWAY round trip: last stream id below 2^31, any 32-bit code, any debug data -/
theorem goaway_roundtrip (last code : Nat) (debug rest : Bytes) (max : Nat) (hl : last < 2147483648)
    (hc : code < 4294967296) (hm : 8 + debug.length ≤ max) (hm2 : 8 + debug.length < 16777216) :
    ∃ w, writeGoAway last code debug = .ok w ∧
      readFrame max 0 (w ++ rest) = (.ok (.goaway 0 last code debug), 0, rest) := by
  unfold writeGoAway
  have hmod : last % 2147483648 = last := Nat.mod_eq_of_lt hl
  rw [hmod]
  have h1 : u32be (be32 last ++ be32 code ++ debug) = last := by
    rw [List.append_assoc]; exact u32be_be32 last (by omega) _
  have h2 : u32be ((be32 last ++ be32 code ++ debug).drop 4) = code := by
    have : (be32 last ++ be32 code ++ debug).drop 4 = be32 code ++ debug := by simp [be32]
    rw [this]; exact u32be_be32 code hc _
  have h3 : (be32 last ++ be32 code ++ debug).drop 8 = debug := by simp [be32]
  have hlen : (be32 last ++ be32 code ++ debug).length = 8 + debug.length := by simp [be32]; omega
  generalize be32 last ++ be32 code ++ debug = pl at h1 h2 h3 hlen ⊢
  apply flagged_roundtrip 7 0 0 pl rest max _ 0 (by omega) (by omega) (by omega) (by omega) (by omega)
  · simp only [parsePayload]
    unfold parseGoAway
    rw [if_neg (by simp), if_neg (by omega), h1, hmod, h2, h3]
  · unfold checkOrder; simp

/-- DATA round trip without padding: the payload and END_STREAM come back unchanged -/
theorem data_roundtrip (sid : Nat) (endStream : Bool) (data rest : Bytes) (max : Nat)
    (hsid : 0 < sid ∧ sid < 2147483648) (hm : data.length ≤ max) (hm2 : data.length < 16777216) :
    ∃ w, writeData sid endStream data none = .ok w ∧
      readFrame max 0 (w ++ rest) = (.ok (.data sid (if endStream then 1 else 0) data), 0, rest) := by
  have hvs : validStreamID sid = true := by simp [validStreamID]; omega
  have hw : writeData sid endStream data none = rawFrame 0 (if endStream then 1 else 0) sid data := by
    simp [writeData, hvs]
  rw [hw]
  apply flagged_roundtrip 0 _ sid data rest max _ 0 (by omega) (by split <;> omega) hsid.2 hm hm2
  · simp only [parsePayload]
    unfold parseData
    have hnf : hasFlag (if endStream then 1 else 0) 8 = false := by cases endStream <;> rfl
    rw [if_neg (by omega)]
    simp only [hnf, padLenOf, afterPad, Bool.false_eq_true, false_and, if_false]
    rw [if_neg (by omega)]
    simp
  · unfold checkOrder; simp

/-- DATA round trip WITH padding: pad length 0..255, zero padding bytes; the reader strips the pad-length byte and the
padding and returns exactly the data (flags = END_STREAM? + PADDED) -/
theorem data_padded_roundtrip (sid : Nat) (endStream : Bool) (data rest : Bytes) (padLen max : Nat)
    (hsid : 0 < sid ∧ sid < 2147483648) (hp : padLen ≤ 255) (hm : 1 + data.length + padLen ≤ max)
    (hm2 : 1 + data.length + padLen < 16777216) :
    ∃ w, writeData sid endStream data (some (List.replicate padLen 0)) = .ok w ∧
      readFrame max 0 (w ++ rest) = (.ok (.data sid ((if endStream then 1 else 0) + 8) data), 0, rest) := by
  have hvs : validStreamID sid = true := by simp [validStreamID]; omega
  have hany : (List.replicate padLen (0 : UInt8)).any (· ≠ 0) = false := by
    simp [List.any_eq_false]
  have hw : writeData sid endStream data (some (List.replicate padLen 0)) =
      rawFrame 0 ((if endStream then 1 else 0) + 8) sid ([UInt8.ofNat padLen] ++ data ++ List.replicate padLen 0) := by
    simp only [writeData, hvs, Bool.not_true, Bool.false_eq_true, if_false, List.length_replicate]
    rw [if_neg (by omega), hany]
    simp
  rw [hw]
  have hlen : ([UInt8.ofNat padLen] ++ data ++ List.replicate padLen (0 : UInt8)).length = 1 + data.length + padLen := by
    simp; omega
  apply flagged_roundtrip 0 _ sid _ rest max _ 0 (by omega) (by split <;> omega) hsid.2 (by omega) (by omega)
  · simp only [parsePayload]
    unfold parseData
    have hf : hasFlag ((if endStream then 1 else 0) + 8) 8 = true := by cases endStream <;> rfl
    rw [if_neg (by omega)]
    simp only [hf, padLenOf, afterPad, if_true]
    have hne : ¬ (True ∧ [UInt8.ofNat padLen] ++ data ++ List.replicate padLen (0 : UInt8) = []) := by simp
    rw [if_neg (by simp)]
    have hhead : (([UInt8.ofNat padLen] ++ data ++ List.replicate padLen (0 : UInt8)).headD 0).toNat = padLen := by
      simp [u8 padLen (by omega)]
    have hdrop : ([UInt8.ofNat padLen] ++ data ++ List.replicate padLen (0 : UInt8)).drop 1 = data ++ List.replicate padLen 0 := by
      simp
    rw [hhead, hdrop]
    rw [if_neg (by simp)]
    simp
  · unfold checkOrder; simp

theorem settingsList_encode : ∀ (ss : List (Nat × Nat)), (∀ s ∈ ss, s.1 < 65536 ∧ s.2 < 4294967296) →
    settingsList (ss.flatMap fun s => be16 s.1 ++ be32 s.2) = ss := by
  intro ss
  induction ss with
  | nil => intro _; rfl
  | cons s r ih =>
    intro h
    have hs := h s (by simp)
    have hr := ih (fun x hx => h x (by simp [hx]))
    simp only [List.flatMap_cons]
    have e : be16 s.1 ++ be32 s.2 ++ (r.flatMap fun s => be16 s.1 ++ be32 s.2) =
        UInt8.ofNat (s.1 / 256) :: UInt8.ofNat s.1 :: UInt8.ofNat (s.2 / 16777216) :: UInt8.ofNat (s.2 / 65536) ::
        UInt8.ofNat (s.2 / 256) :: UInt8.ofNat s.2 :: (r.flatMap fun s => be16 s.1 ++ be32 s.2) := by
      simp [be16, be32]
    rw [e]
    simp only [settingsList, hr]
    have h1 : (UInt8.ofNat (s.1 / 256)).toNat * 256 + (UInt8.ofNat s.1).toNat = s.1 := by
      simp only [UInt8.toNat_ofNat']; omega
    have h2 : u32be [UInt8.ofNat (s.2 / 16777216), UInt8.ofNat (s.2 / 65536), UInt8.ofNat (s.2 / 256), UInt8.ofNat s.2] = s.2 := by
      have := u32be_be32 s.2 hs.2 []
      simpa [be32] using this
    rw [h1, h2]

/-- SETTINGS round trip: any list of (16-bit id, 32-bit value) pairs whose INITIAL_WINDOW_SIZE (if present first) is
legal comes back as the same list in the same order -/
theorem settings_roundtrip (ss : List (Nat × Nat)) (rest : Bytes) (max : Nat)
    (hs : ∀ s ∈ ss, s.1 < 65536 ∧ s.2 < 4294967296) (hw : (settingValue ss 4).getD 0 ≤ 2147483647)
    (hm : 6 * ss.length ≤ max) (hm2 : 6 * ss.length < 16777216) :
    ∃ w, writeSettings ss = .ok w ∧ readFrame max 0 (w ++ rest) = (.ok (.settings 0 ss), 0, rest) := by
  unfold writeSettings
  have hlen : (ss.flatMap fun s => be16 s.1 ++ be32 s.2).length = 6 * ss.length := by
    clear hs hw hm hm2
    induction ss with
    | nil => rfl
    | cons s r ih => simp only [List.flatMap_cons, List.length_append, ih, List.length_cons]; simp [be16, be32]; omega
  have hdec := settingsList_encode ss hs
  generalize (ss.flatMap fun s => be16 s.1 ++ be32 s.2) = pl at hlen hdec ⊢
  apply flagged_roundtrip 4 0 0 pl rest max _ 0 (by omega) (by omega) (by omega) (by omega) (by omega)
  · simp only [parsePayload]
    unfold parseSettings
    have hnf : hasFlag 0 1 = false := rfl
    rw [if_neg (by simp [hnf]), if_neg (by simp), if_neg (by omega), hdec, if_neg (by omega)]
  · unfold checkOrder; simp

/-- HEADERS round trip (no padding, no priority): the header block fragment and both flags come back; a frame
without END_HEADERS leaves the reader expecting CONTINUATION on that stream -/
theorem headers_roundtrip (sid : Nat) (endStream endHeaders : Bool) (frag rest : Bytes) (max : Nat)
    (hsid : 0 < sid ∧ sid < 2147483648) (hm : frag.length ≤ max) (hm2 : frag.length < 16777216) :
    ∃ w, writeHeaders sid frag endStream endHeaders 0 noPrio = .ok w ∧
      readFrame max 0 (w ++ rest) =
        (.ok (.headers sid ((if endStream then 1 else 0) + (if endHeaders then 4 else 0)) noPrio frag),
         if endHeaders then 0 else sid, rest) := by
  have hvs : validStreamID sid = true := by simp [validStreamID]; omega
  have hw : writeHeaders sid frag endStream endHeaders 0 noPrio =
      rawFrame 1 ((if endStream then 1 else 0) + (if endHeaders then 4 else 0)) sid frag := by
    simp [writeHeaders, hvs, noPrio, prioIsZero]
  rw [hw]
  apply flagged_roundtrip 1 _ sid frag rest max _ _ (by omega) (by cases endStream <;> cases endHeaders <;> simp) hsid.2 hm hm2
  · simp only [parsePayload]
    unfold parseHeaders
    cases endStream <;> cases endHeaders <;> simp [hasFlag, padLenOf, afterPad, noPrio] <;> omega
  · unfold checkOrder
    cases endStream <;> cases endHeaders <;> simp [hasFlag]

/-- non-vacuity: a HEADERS frame with padding and priority written by the model is read back -/
example : (match writeHeaders 5 [0x82, 0x84] true true 3 { dep := 7, excl := true, weight := 200 } with
    | .ok w => (match (readFrame 16384 0 w).1 with | .ok f => some f | .error _ => none) | .error _ => none) =
    some (.headers 5 (1 + 4 + 8 + 32) { dep := 7, excl := true, weight := 200 } [0x82, 0x84]) := by
  decide +kernel

end Fp.C19
