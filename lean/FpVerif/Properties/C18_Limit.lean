/-
C18 (continued) — header-block round trip across schedules that move the table size AND the limit
(`SetMaxDynamicTableSize`, `SetMaxDynamicTableSizeLimit` in any order, any number of times, closed by a
`SetMaxDynamicTableSize`), for the encoder WITH the D21 repair: a shrink through the limit is remembered as the interval's
minimum. On the code before that repair this statement is false (corpus `C18/d21_limit_shrink_regrow.ops`).
-/
import FpVerif.Properties.C18_RoundTrip2
set_option linter.unusedSimpArgs false
set_option linter.unusedVariables false
namespace Fp.C18
open Fp Fp.Hpack

/-- a table-size operation of the encoder's owner -/
inductive SizeOp
  | size (v : Nat)        -- SetMaxDynamicTableSize(v)
  | limit (v : Nat)       -- SetMaxDynamicTableSizeLimit(v)
  deriving Repr, DecidableEq

def applySizeOp (e : Enc) : SizeOp → Enc
  | .size v => e.setMaxSize v
  | .limit v => e.setMaxSizeLimit v

/-- what every intermediate encoder state satisfies: its table is what is left of the decoder's table `t0` after the
deepest shrink so far -/
structure Mid (e : Enc) (t0 : DynTab) : Prop where
  ce : Consistent e.tab
  ents : e.tab.ents = fit e.minSize t0.ents

theorem mid_step (e : Enc) (t0 : DynTab) (op : SizeOp) (hc0 : Consistent t0) (h : Mid e t0) : Mid (applySizeOp e op) t0 := by
  cases op with
  | size v =>
    have hp := pend_step e t0 v hc0 h.ce h.ents
    exact ⟨hp.ce, hp.ents⟩
  | limit v =>
    unfold applySizeOp Enc.setMaxSizeLimit
    simp only
    split
    · refine ⟨setMaxSize_consistent _ _ h.ce, ?_⟩
      simp only
      rw [setMaxSize_fit _ _ h.ce]
      simp only [h.ents, fit_fit]
      congr 1
      split <;> omega
    · exact ⟨h.ce, h.ents⟩

theorem mid_run (t0 : DynTab) (hc0 : Consistent t0) : ∀ (ops : List SizeOp) (e : Enc), Mid e t0 → Mid (ops.foldl applySizeOp e) t0 := by
  intro ops
  induction ops with
  | nil => intro e h; exact h
  | cons op r ih => intro e h; exact ih _ (mid_step e t0 op hc0 h)

/-- the limit in force after a schedule: the last one set, or the encoder's own -/
def lastLimit (l0 : Nat) : List SizeOp → Nat
  | [] => l0
  | .size _ :: r => lastLimit l0 r
  | .limit v :: r => lastLimit v r

theorem limit_after (ops : List SizeOp) : ∀ (e : Enc), (ops.foldl applySizeOp e).maxSizeLimit = lastLimit e.maxSizeLimit ops := by
  induction ops with
  | nil => intro e; rfl
  | cons op r ih =>
    intro e
    simp only [List.foldl_cons]
    rw [ih]
    cases op with
    | size v => rfl
    | limit v =>
      simp only [applySizeOp, Enc.setMaxSizeLimit, lastLimit]
      split <;> rfl

/-- HEADER-BLOCK ROUND TRIP ACROSS SIZE AND LIMIT SCHEDULES (repaired encoder). Encoder and decoder hold identical
tables; the owner then moves the table size and the limit any number of times in any order (`ops`) and finally sets a size
`v`; the next header block is encoded. If the limit then in force is within what the decoder permits, the decoder accepts
the announced update(s), emits exactly the field list, and the two dynamic tables are identical again. -/
theorem block_roundtrip_after_size_and_limit (e : Enc) (d : Dec) (ops : List SizeOp) (v : Nat) (f : Field) (fs : List Field) (A : Nat)
    (hsync : d.tab = withAllowed e.tab A) (htab : TabOK e.tab) (hmin : e.tab.size ≤ e.minSize)
    (hlim : lastLimit e.maxSizeLimit ops ≤ A) (hlim61 : lastLimit e.maxSizeLimit ops < 2 ^ 61)
    (hsave : d.saveBuf = []) (hfirst : d.firstField = true)
    (hadm : ∀ g ∈ f :: fs, Admits d.maxStrLen g.name ∧ Admits d.maxStrLen g.value) :
    ∃ d', d.write (encodeAll ((ops.foldl applySizeOp e).setMaxSize v) (f :: fs)).2 = (d', f :: fs, none) ∧
      d'.tab = withAllowed (encodeAll ((ops.foldl applySizeOp e).setMaxSize v) (f :: fs)).1.tab A ∧ d'.saveBuf = [] ∧
      (d'.close).isOk = true := by
  have hbase : Mid e e.tab := by
    refine ⟨htab.1, ?_⟩
    rw [fit_id]; have := htab.1; unfold Consistent at this; omega
  have hmid := mid_run e.tab htab.1 ops e hbase
  have hp : Pend ((ops.foldl applySizeOp e).setMaxSize v) e.tab := pend_step _ e.tab v htab.1 hmid.ce hmid.ents
  have hM : ((ops.foldl applySizeOp e).setMaxSize v).tab.maxSize ≤ lastLimit e.maxSizeLimit ops := by
    rw [← limit_after ops e]
    unfold Enc.setMaxSize
    simp only [DynTab.setMaxSize, DynTab.evict]
    split <;> omega
  exact block_roundtrip_pending _ e.tab d f fs A hp hsync (by omega) (by omega) hsave hfirst hadm

/-- non-vacuity — the D21 schedule itself: limit down to 40, limit back to 4096, size 4096, on a fresh pair -/
example : ∃ d', (Dec.new 4096).write (encodeAll (([SizeOp.limit 40, SizeOp.limit 4096].foldl applySizeOp {}).setMaxSize 4096)
      [{ name := strBytes "x-a", value := strBytes "1" }]).2 = (d', [{ name := strBytes "x-a", value := strBytes "1" }], none) ∧
    d'.tab = withAllowed (encodeAll (([SizeOp.limit 40, SizeOp.limit 4096].foldl applySizeOp {}).setMaxSize 4096)
      [{ name := strBytes "x-a", value := strBytes "1" }]).1.tab 4096 ∧ d'.saveBuf = [] ∧ (d'.close).isOk = true :=
  block_roundtrip_after_size_and_limit {} (Dec.new 4096) [.limit 40, .limit 4096] 4096 _ _ 4096 rfl ⟨rfl, by decide, by decide⟩
    (by decide) (by decide) (by decide) rfl rfl (by
      intro g hg
      simp only [List.mem_cons, List.not_mem_nil, or_false] at hg
      rcases hg with rfl
      exact ⟨⟨by decide, Or.inl rfl⟩, ⟨by decide, Or.inl rfl⟩⟩)

end Fp.C18
