/-
C20 — write schedulers lose nothing, keep order and respect windows.
Model: FpVerif/Model/Sched.lean (writeQueue, Consume, round-robin ring, random scheduler as an arbitrary
choice among ready streams). The priority scheduler's tree is treated in FpVerif/Properties/C20Prio.lean.
-/
import FpVerif.Lemmas.Sched
import FpVerif.Lemmas.Prio
set_option linter.unusedSimpArgs false
set_option linter.unusedVariables false
namespace Fp.C20
open Fp Fp.Sched

/-- what `Consume` may return (FrameWriteRequest.Consume + writeQueue.consume, with n = MaxInt32) -/
theorem consume_spec {s : St} {sid : Nat} {q q' : List Req} {p : Popped} {n : Nat}
    (h : consume s sid q = some (p, q', n)) :
    ∃ r rest, q = r :: rest ∧
      ((p = .frame r ∧ q' = rest ∧ ((r.isData = false ∨ r.size = 0) ∧ n = 0 ∨
          (r.isData = true ∧ n = r.size ∧ (r.size : Int) ≤ available s sid ∧ (r.size : Int) ≤ s.maxFrame))) ∨
       (p = .piece r n ∧ q' = { r with size := r.size - n } :: rest ∧ 0 < n ∧ n < r.size ∧
          (n : Int) ≤ available s sid ∧ (n : Int) ≤ s.maxFrame)) := by
  unfold consume at h
  cases q with
  | nil => cases h
  | cons r rest =>
    refine ⟨r, rest, rfl, ?_⟩
    simp only at h
    have hal : allowed s sid ≤ available s sid ∧ allowed s sid ≤ s.maxFrame := by
      unfold allowed; omega
    by_cases h1 : (!r.isData || r.size = 0) = true
    · rw [if_pos h1] at h
      simp only [Option.some.injEq, Prod.mk.injEq] at h
      obtain ⟨rfl, rfl, rfl⟩ := h
      refine Or.inl ⟨rfl, rfl, Or.inl ⟨?_, rfl⟩⟩
      simp at h1; exact h1
    · rw [if_neg h1] at h
      have hd : r.isData = true := by
        cases hdd : r.isData
        · simp [hdd] at h1
        · rfl
      by_cases h2 : allowed s sid ≤ 0
      · rw [if_pos h2] at h; cases h
      · rw [if_neg h2] at h
        by_cases h3 : (r.size : Int) > allowed s sid
        · rw [if_pos h3] at h
          simp only [Option.some.injEq, Prod.mk.injEq] at h
          obtain ⟨rfl, rfl, rfl⟩ := h
          refine Or.inr ⟨rfl, rfl, ?_, ?_, ?_, ?_⟩ <;> omega
        · rw [if_neg h3] at h
          simp only [Option.some.injEq, Prod.mk.injEq] at h
          obtain ⟨rfl, rfl, rfl⟩ := h
          refine Or.inl ⟨rfl, rfl, Or.inr ⟨hd, rfl, ?_, ?_⟩⟩ <;> omega

/-- CONTROL FIRST: while a control frame is queued, Pop returns the oldest one (both schedulers) -/
theorem control_first_rr (s : St) (c : Req) (rest : List Req) (h : s.control = c :: rest) :
    popRR s = ({ s with control := rest }, .popped (.frame c)) := by
  unfold popRR; rw [h]

theorem control_first_random (s : St) (c : Req) (rest : List Req) (sid : Nat) (h : s.control = c :: rest) :
    popRandAt s sid = ({ s with control := rest }, .popped (.frame c)) := by
  unfold popRandAt; rw [h]

/-- DATA bytes a popped result releases -/
def released : Popped → Nat
  | .frame r => if r.isData then r.size else 0
  | .piece _ n => n

theorem findIdx_ready {s : St} {i : Nat} (h : s.queues.findIdx? (ready s) = some i) :
    ∃ e, s.queues[i]? = some e ∧ ready s e = true := by
  have := List.findIdx?_eq_some_iff_getElem.mp h
  obtain ⟨hi, hp, _⟩ := this
  exact ⟨s.queues[i], by simp [hi], hp⟩

/-- what round-robin Pop does when no control frame is queued -/
theorem popRR_stream {s s' : St} {p : Popped} (hc : s.control = []) (h : popRR s = (s', .popped p)) :
    ∃ sid q q' n, (sid, q) ∈ s.queues ∧ consume s sid q = some (p, q', n) ∧
      s'.cwin = s.cwin - n ∧ s'.control = [] ∧ s'.maxFrame = s.maxFrame := by
  unfold popRR at h
  rw [hc] at h
  simp only at h
  cases hf : s.queues.findIdx? (ready s) with
  | none => rw [hf] at h; simp at h
  | some i =>
    rw [hf] at h
    obtain ⟨e, he, hr⟩ := findIdx_ready hf
    simp only [he] at h
    obtain ⟨sid, q⟩ := e
    simp only at h
    cases hcs : consume s sid q with
    | none => rw [hcs] at h; simp at h
    | some r =>
      obtain ⟨p0, q', n⟩ := r
      rw [hcs] at h
      simp only [Prod.mk.injEq, Out.popped.injEq] at h
      obtain ⟨hs, hp⟩ := h
      subst hp
      refine ⟨sid, q, q', n, List.mem_of_getElem? he, hcs, ?_, ?_, ?_⟩ <;>
        (rw [← hs]; simp [takeWin, setQueue, setWin, hc])

/-- RESPECTS WINDOWS (round robin): a Pop never releases more DATA bytes than the stream's window, the
connection's window and the maximum frame size allow, and charges the connection window exactly. -/
theorem respects_windows_rr {s s' : St} {p : Popped} (hc : s.control = []) (h : popRR s = (s', .popped p)) :
    ∃ sid, (released p : Int) ≤ max 0 (available s sid) ∧ (released p : Int) ≤ max 0 s.maxFrame ∧
      s'.cwin = s.cwin - released p := by
  obtain ⟨sid, q, q', n, hm, hcs, hw, _, _⟩ := popRR_stream hc h
  obtain ⟨r, rest, rfl, hsp⟩ := consume_spec hcs
  refine ⟨sid, ?_⟩
  rcases hsp with ⟨rfl, rfl, h1 | h1⟩ | ⟨rfl, rfl, h1⟩
  · obtain ⟨h2, rfl⟩ := h1
    rcases h2 with h2 | h2 <;> simp [released, h2, hw] <;> (try split) <;> omega
  · obtain ⟨hd, rfl, h2, h3⟩ := h1
    simp only [released, hd, if_true]; exact ⟨by omega, by omega, hw⟩
  · simp only [released]; refine ⟨by omega, by omega, hw⟩

/-- a split piece and the remainder add up to the original frame -/
theorem pieces_concatenate {s : St} {sid : Nat} {r : Req} {rest q' : List Req} {n : Nat}
    (h : consume s sid (r :: rest) = some (.piece r n, q', n)) :
    ∃ r', q' = r' :: rest ∧ r'.size + n = r.size ∧ r'.es = r.es ∧ r'.uid = r.uid := by
  obtain ⟨r0, rest0, hq, hsp⟩ := consume_spec h
  obtain ⟨rfl, rfl⟩ := List.cons.inj hq
  rcases hsp with ⟨hp, _⟩ | ⟨_, rfl, h0, h1, _⟩
  · cases hp
  · exact ⟨_, rfl, by simp; omega, rfl, rfl⟩

/-- POP REPORTS NOTHING ONLY WHEN NOTHING IS SENDABLE (round robin): the whole ring is scanned -/
theorem pop_none_iff_rr (s : St) :
    (popRR s).2 = .none_ ↔ s.control = [] ∧ ∀ e ∈ s.queues, ready s e = false := by
  unfold popRR
  cases hc : s.control with
  | cons c rest => simp
  | nil =>
    simp only [true_and]
    cases hf : s.queues.findIdx? (ready s) with
    | none =>
      simp only [true_iff]
      intro e he
      have := List.findIdx?_eq_none_iff.mp hf e he
      simpa using this
    | some i =>
      obtain ⟨e, he, hr⟩ := findIdx_ready hf
      simp only [he]
      obtain ⟨sid, q⟩ := e
      have : (consume s sid q).isSome = true := hr
      cases hcs : consume s sid q with
      | none => rw [hcs] at this; cases this
      | some r =>
        obtain ⟨p0, q', n⟩ := r
        simp only [false_iff, reduceCtorEq]
        intro hall
        have := hall (sid, q) (List.mem_of_getElem? he)
        rw [this] at hr; cases hr

/-! ### conservation: nothing is lost, nothing is handed out twice -/

/-- effect of one operation on the number of frames and DATA bytes the scheduler holds -/
theorem push_conserves_rr {s s' : St} {r : Req} (hn : KeysNodup s.queues) (h : pushRR s r = (s', .none_)) :
    qFrames s' = qFrames s + 1 ∧ qBytes s' = qBytes s + r.size ∧ KeysNodup s'.queues := by
  unfold pushRR at h
  cases hsid : r.sid with
  | none =>
    simp only [hsid, Prod.mk.injEq, and_true] at h
    subst h
    simp [qFrames, qBytes, byteSum]; exact ⟨by omega, by omega, hn⟩
  | some sid =>
    simp only [hsid] at h
    cases hq : queueOf s sid with
    | none =>
      simp only [hq] at h
      split at h
      · cases h
      · simp only [Prod.mk.injEq, and_true] at h
        subst h
        simp [qFrames, qBytes, byteSum]; exact ⟨by omega, by omega, hn⟩
    | some q =>
      simp only [hq, Prod.mk.injEq, and_true] at h
      subst h
      have hm := queueOf_mem hq
      have h1 := lenSum_set s.queues sid q (q ++ [r]) hn hm
      have h2 := bytesSum_set s.queues sid q (q ++ [r]) hn hm
      refine ⟨?_, ?_, ?_⟩
      · simp only [qFrames, setQueue, List.length_append, List.length_singleton] at h1 ⊢; omega
      · simp only [qBytes, setQueue, byteSum, List.map_append, List.sum_append, List.map_cons, List.map_nil, List.sum_cons, List.sum_nil] at h2 ⊢
        omega
      · unfold KeysNodup setQueue; rw [keys_set]; exact hn

theorem pop_conserves_rr {s s' : St} {o : Out} (hn : KeysNodup s.queues) (h : popRR s = (s', o)) :
    match o with
    | .none_ => s' = s
    | .popped (.frame r) => qFrames s' + 1 = qFrames s ∧ qBytes s' + r.size = qBytes s
    | .popped (.piece r n) => qFrames s' = qFrames s ∧ qBytes s' + n = qBytes s
    | .panic => False := by
  unfold popRR at h
  cases hc : s.control with
  | cons c rest =>
    rw [hc] at h
    simp only [Prod.mk.injEq] at h
    obtain ⟨rfl, rfl⟩ := h
    simp [qFrames, qBytes, byteSum, hc]; omega
  | nil =>
    rw [hc] at h
    simp only at h
    cases hf : s.queues.findIdx? (ready s) with
    | none => rw [hf] at h; simp only [Prod.mk.injEq] at h; obtain ⟨rfl, rfl⟩ := h; rfl
    | some i =>
      rw [hf] at h
      obtain ⟨e, he, hr⟩ := findIdx_ready hf
      simp only [he] at h
      obtain ⟨sid, q⟩ := e
      simp only at h
      cases hcs : consume s sid q with
      | none => rw [hcs] at h; simp only [Prod.mk.injEq] at h; obtain ⟨rfl, rfl⟩ := h; rfl
      | some res =>
        obtain ⟨p0, q', n⟩ := res
        rw [hcs] at h
        simp only [Prod.mk.injEq] at h
        obtain ⟨rfl, rfl⟩ := h
        have hm : (sid, q) ∈ s.queues := List.mem_of_getElem? he
        have h1 := lenSum_set s.queues sid q q' hn hm
        have h2 := bytesSum_set s.queues sid q q' hn hm
        obtain ⟨r, rest, rfl, hsp⟩ := consume_spec hcs
        rcases hsp with ⟨rfl, rfl, _⟩ | ⟨rfl, rfl, h0, h1', _⟩
        · simp only [qFrames, qBytes, takeWin, setQueue, setWin, lenSum_rotate, bytesSum_rotate, hc,
            List.length_cons, byteSum, List.map_cons, List.sum_cons, List.length_nil, List.map_nil, List.sum_nil] at h1 h2 ⊢
          omega
        · simp only [qFrames, qBytes, takeWin, setQueue, setWin, lenSum_rotate, bytesSum_rotate, hc,
            List.length_cons, byteSum, List.map_cons, List.sum_cons, List.length_nil, List.map_nil, List.sum_nil] at h1 h2 ⊢
          omega

theorem pop_keys_rr {s s' : St} {o : Out} (hn : KeysNodup s.queues) (h : popRR s = (s', o)) : KeysNodup s'.queues := by
  unfold popRR at h
  cases hc : s.control with
  | cons c rest =>
    rw [hc] at h
    simp only [Prod.mk.injEq] at h
    obtain ⟨rfl, rfl⟩ := h
    exact hn
  | nil =>
    rw [hc] at h
    simp only at h
    cases hf : s.queues.findIdx? (ready s) with
    | none => rw [hf] at h; simp only [Prod.mk.injEq] at h; obtain ⟨rfl, rfl⟩ := h; exact hn
    | some i =>
      rw [hf] at h
      obtain ⟨e, he, hr⟩ := findIdx_ready hf
      simp only [he] at h
      obtain ⟨sid, q⟩ := e
      simp only at h
      cases hcs : consume s sid q with
      | none => rw [hcs] at h; simp only [Prod.mk.injEq] at h; obtain ⟨rfl, rfl⟩ := h; exact hn
      | some res =>
        obtain ⟨p0, q', n⟩ := res
        rw [hcs] at h
        simp only [Prod.mk.injEq] at h
        obtain ⟨rfl, rfl⟩ := h
        apply keys_rotate_nodup
        simp only [takeWin, setQueue, setWin]
        unfold KeysNodup; rw [keys_set]; exact hn

theorem pushRR_out (s : St) (r : Req) :
    (pushRR s r).2 = .none_ ∨ ((pushRR s r).2 = .panic ∧ (pushRR s r).1 = s) := by
  unfold pushRR
  cases r.sid with
  | none => exact Or.inl rfl
  | some sid =>
    simp only
    cases queueOf s sid with
    | none => simp only; split <;> simp
    | some q => exact Or.inl rfl

/-! ### over whole operation sequences -/

/-- ghost counters: frames / DATA bytes pushed, handed out, discarded by CloseStream -/
structure Acc where
  pushedF : Nat := 0
  poppedF : Nat := 0
  discF : Nat := 0
  pushedB : Nat := 0
  poppedB : Nat := 0
  discB : Nat := 0
  deriving Repr

def account (s : St) (a : Acc) (op : Op) : St × Acc :=
  let (s', o) := stepRR s op
  match op, o with
  | .push r, .none_ => (s', { a with pushedF := a.pushedF + 1, pushedB := a.pushedB + r.size })
  | .pop, .popped (.frame r) => (s', { a with poppedF := a.poppedF + 1, poppedB := a.poppedB + r.size })
  | .pop, .popped (.piece _ n) => (s', { a with poppedB := a.poppedB + n })
  | .close sid, _ =>
    (s', { a with discF := a.discF + ((s.queues.find? (·.1 == sid)).map (·.2.length)).getD 0,
                  discB := a.discB + ((s.queues.find? (·.1 == sid)).map (fun e => byteSum e.2)).getD 0 })
  | _, _ => (s', a)

def runAcc (s : St) (a : Acc) (tr : List Op) : St × Acc := tr.foldl (fun (sa : St × Acc) op => account sa.1 sa.2 op) (s, a)

def Balanced (s : St) (a : Acc) : Prop :=
  a.pushedF = a.poppedF + qFrames s + a.discF ∧ a.pushedB = a.poppedB + qBytes s + a.discB ∧ KeysNodup s.queues

theorem account_balanced (s : St) (a : Acc) (op : Op) (h : Balanced s a) : Balanced (account s a op).1 (account s a op).2 := by
  obtain ⟨hF, hB, hn⟩ := h
  cases op with
  | open_ sid =>
    simp only [account, stepRR]
    by_cases ho : isOpen s sid = true
    · simp only [ho, if_true]; exact ⟨hF, hB, hn⟩
    · simp only [ho]
      refine ⟨?_, ?_, ?_⟩
      · simp [qFrames, lenSum_append, lenSum] at hF ⊢; omega
      · simp [qBytes, bytesSum_append, bytesSum, byteSum] at hB ⊢; omega
      · unfold KeysNodup at hn ⊢
        have hnot : sid ∉ s.queues.map (·.1) := by
          intro hx
          apply ho
          unfold isOpen
          obtain ⟨e, he, hee⟩ := List.mem_map.mp hx
          exact List.any_eq_true.mpr ⟨e, he, by simp [hee]⟩
        show ((s.queues ++ [(sid, ([] : List Req))]).map (fun e => e.1)).Nodup
        rw [List.map_append, List.nodup_append]
        refine ⟨hn, by simp, ?_⟩
        intro x hx y hy
        simp at hy; subst hy
        intro hxy; subst hxy
        exact hnot hx
  | close sid =>
    simp only [account, stepRR]
    have h1 := lenSum_remove s.queues sid hn
    have h2 := bytesSum_remove s.queues sid hn
    refine ⟨?_, ?_, keys_filter_nodup _ _ hn⟩
    · simp only [qFrames] at hF ⊢; omega
    · simp only [qBytes] at hB ⊢; omega
  | push r =>
    simp only [account, stepRR]
    cases hp : pushRR s r with
    | mk s' o =>
      rcases pushRR_out s r with h1 | ⟨h1, h2⟩
      · rw [hp] at h1; simp only at h1; subst h1
        obtain ⟨g1, g2, g3⟩ := push_conserves_rr hn hp
        exact ⟨by simp; omega, by simp; omega, g3⟩
      · rw [hp] at h1 h2; simp only at h1 h2; subst h1 h2
        exact ⟨hF, hB, hn⟩
  | pop =>
    simp only [account, stepRR]
    cases hp : popRR s with
    | mk s' o =>
      have hc := pop_conserves_rr hn hp
      have hk := pop_keys_rr hn hp
      cases o with
      | none_ => simp only at hc; subst hc; exact ⟨hF, hB, hn⟩
      | popped p =>
        cases p with
        | frame r => simp only at hc; exact ⟨by simp; omega, by simp; omega, hk⟩
        | piece r n => simp only at hc; exact ⟨by simp; omega, by simp; omega, hk⟩
      | panic => exact absurd hc id
  | addWin sid n => exact ⟨by simpa [account, stepRR, qFrames, setWin] using hF, by simpa [account, stepRR, qBytes, setWin] using hB, by simpa [account, stepRR, setWin] using hn⟩
  | addConn n => exact ⟨by simpa [account, stepRR, qFrames] using hF, by simpa [account, stepRR, qBytes] using hB, by simpa [account, stepRR] using hn⟩
  | setMax n => exact ⟨by simpa [account, stepRR, qFrames] using hF, by simpa [account, stepRR, qBytes] using hB, by simpa [account, stepRR] using hn⟩

/-- CONSERVATION (round robin), for every sequence of open / close / push / pop / window operations:
frames pushed = frames handed out + frames still queued + frames discarded because their stream was
closed first; the same for DATA bytes (split pieces add up). Nothing is lost, nothing handed out twice. -/
theorem conservation_rr (tr : List Op) :
    let (s, a) := runAcc St.init {} tr
    a.pushedF = a.poppedF + qFrames s + a.discF ∧ a.pushedB = a.poppedB + qBytes s + a.discB := by
  have : ∀ (tr : List Op) (s : St) (a : Acc), Balanced s a → Balanced (runAcc s a tr).1 (runAcc s a tr).2 := by
    intro tr
    induction tr with
    | nil => intro s a h; exact h
    | cons op r ih => intro s a h; exact ih _ _ (account_balanced s a op h)
  have h0 : Balanced St.init {} := by
    refine ⟨by decide, by decide, ?_⟩
    unfold KeysNodup; simp [St.init]
  have := this tr St.init {} h0
  exact ⟨this.1, this.2.1⟩

/-- non-vacuity: a short run with a split DATA frame and a close that discards a frame -/
example :
    (runAcc St.init {} [.open_ 1, .addWin 1 10, .push { uid := 1, sid := some 1, isData := true, size := 25, es := true },
      .pop, .push { uid := 2, sid := none, isData := false, size := 0, es := false }, .pop, .close 1]).2.discB = 15 := by
  decide

/-! ### priority scheduler: the dependency structure stays a tree rooted at stream 0 -/

/-- run a sequence of scheduler-interface operations (OpenStream, CloseStream, AdjustStream with any dependency,
weight and exclusive flag, Push, Pop, window / frame-size changes) from the initial scheduler -/
def prioRun (less : Prio.PNode → Prio.PNode → Bool) (s : Prio.PSt) : List Prio.POp → Prio.PSt
  | [] => s
  | op :: r => prioRun less (Prio.step less s op).1 r

/-- THE TREE PROPERTY, for every operation sequence and every configuration (retention limits, throttling) and
whatever the sibling comparator answers: every stream the scheduler knows about (open, idle or retained closed)
has a finite parent chain that ends at the root, stream 0 — self-dependencies, dependencies on descendants
(cycles), exclusive re-parenting, evictions from the retention lists and re-sorting included. Panicking
operations (interface violations) leave the structure untouched. -/
theorem tree_rooted (less : Prio.PNode → Prio.PNode → Bool) (mc mi : Nat) (th : Bool) (ops : List Prio.POp) :
    let s := prioRun less (Prio.PSt.init mc mi th) ops
    (∀ id p, (id, p) ∈ s.nodes → Prio.Rooted s p) ∧ Prio.lookup s 0 = some 0 ∧ Prio.par s 0 = none := by
  have key : ∀ (ops : List Prio.POp) (s : Prio.PSt), Prio.TreeInv s → Prio.TreeInv (prioRun less s ops) := by
    intro ops
    induction ops with
    | nil => intro s h; exact h
    | cons op r ih => intro s h; exact ih _ (h.step less op)
  have h := key ops _ (Prio.TreeInv.init mc mi th)
  exact ⟨fun id p hm => h.mapped_rooted hm, h.rootMapped, h.rootPar⟩

/-- a parent chain cannot come back to its start: no stream is its own (transitive) dependency -/
theorem no_cycle (less : Prio.PNode → Prio.PNode → Bool) (mc mi : Nat) (th : Bool) (ops : List Prio.POp) (id p q : Nat) :
    let s := prioRun less (Prio.PSt.init mc mi th) ops
    (id, p) ∈ s.nodes → Prio.par s p = some q → ¬ Prio.Anc s p q := by
  intro s hm hq
  have key : ∀ (ops : List Prio.POp) (s : Prio.PSt), Prio.TreeInv s → Prio.TreeInv (prioRun less s ops) := by
    intro ops
    induction ops with
    | nil => intro s h; exact h
    | cons op r ih => intro s h; exact ih _ (h.step less op)
  have h := key ops _ (Prio.TreeInv.init mc mi th)
  exact Prio.not_anc_parent h.rootPar hq (h.mapped_rooted hm)

/-- non-vacuity: idle grouping node, exclusive dependency on a descendant (a would-be cycle), self-dependency,
close with retention, and a re-sorting Pop: four streams end up in a chain 0 ← 7 ← 3 ← 5 with 1 beside -/
example :
    let s := prioRun (fun _ _ => true) (Prio.PSt.init 2 2 false)
      [.adjust 7 0 15 false, .open_ 1, .open_ 3, .open_ 5, .adjust 5 3 200 false, .adjust 3 5 10 true, .adjust 3 3 1 false,
       .adjust 3 7 16 true, .adjust 5 3 20 false, .push { uid := 1, sid := some 5, isData := false, size := 0, es := false },
       .pop, .close 1]
    (s.nodes.map fun e => (e.1, (Prio.node s e.2).parent.map fun q => (Prio.node s q).id)) =
      [(0, none), (7, some 0), (1, some 0), (3, some 7), (5, some 3)] := by
  decide


end Fp.C20
