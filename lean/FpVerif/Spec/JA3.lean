/-
Specification of the JA3 string (salesforce/ja3): decimal values in wire order, GREASE removed from
ciphers / extensions / groups, values joined by '-' and fields by ','.
-/
import FpVerif.Model.JA3
import FpVerif.Model.Tls
namespace Fp.Spec.JA3
open Fp Fp.JA3

/-- RFC 8701 GREASE code points for 16-bit registries: 0x?a?a with both bytes equal. -/
def greaseList : List UInt16 := (List.range 16).map fun i => UInt16.ofNat (0x0a0a + 0x1010 * i)

def isGrease (v : UInt16) : Bool := greaseList.contains v

def field (xs : List UInt16) : Bytes :=
  join [45] ((xs.filter (fun v => !isGrease v)).map (fun v => dec v.toNat))

def pointsField (xs : List UInt8) : Bytes := join [45] (xs.map (fun v => dec v.toNat))

def ja3String (b : Basic) : Bytes :=
  dec b.hsVersion.toNat ++ [44] ++ field b.ciphers ++ [44] ++ field b.exts ++ [44] ++
    field b.groups ++ [44] ++ pointsField b.points

end Fp.Spec.JA3

namespace Fp.Spec.JA3
open Fp Fp.JA3 Fp.Tls

def groupsOf (es : List Ext) : List UInt16 :=
  (es.findSome? fun | .groups g => some g | _ => none).getD []
def pointsOf (es : List Ext) : List UInt8 :=
  (es.findSome? fun | .points p => some p | _ => none).getD []

/-- what JA3 reads off an abstract ClientHello. -/
def basicOf (h : Hello) : Basic :=
  let es := h.exts.getD []
  { hsVersion := h.hsVer, ciphers := h.ciphers, exts := es.map Ext.typeId,
    groups := groupsOf es, points := pointsOf es }

/-- THE SPECIFICATION: JA3 string of the ClientHello the client sent. -/
def ja3Spec (h : Hello) : Bytes := ja3String (basicOf h)

end Fp.Spec.JA3
