/-
Specification of JA4 (FoxIO) over the abstract ClientHello, in the words of property C02.
-/
import FpVerif.Model.JA4
import FpVerif.Model.Tls
namespace Fp.Spec.JA4
open Fp Fp.Tls Fp.JA4

/-- RFC 8701 GREASE code point -/
def grease (v : Nat) : Bool := isGrease v

def extsOf (h : Hello) : List Ext := h.exts.getD []

/-- highest non-GREASE supported_versions entry, else the hello's legacy version -/
def version (h : Hello) : Nat :=
  match (extsOf h).findSome? fun | .versions vs => some vs | _ => none with
  | some vs => ((vs.map (·.toNat)).filter (fun v => !grease v)).foldl (fun a x => if x > a then x else a) 0
  | none => h.hsVer.toNat

def hasSNI (h : Hello) : Bool := (extsOf h).any fun | .sni _ => true | _ => false

def firstALPNValue (h : Hello) : Bytes :=
  match (extsOf h).findSome? fun | .alpn ps => some ps | _ => none with
  | some (p :: _) => p
  | _ => []

/-- first and last character of the first ALPN value; '00' if none; as the code (and the FoxIO
reference it cites) does it: a value of length ≤ 2 is used as is, a non-ASCII first byte gives "99" -/
def alpnCode (p : Bytes) : Bytes :=
  if p.isEmpty then strBytes "00" else
  let c := if p.length > 2 then runeOfByte (p.headD 0) ++ runeOfByte (p.getLastD 0) else p
  if c.headD 0 > 127 then strBytes "99" else c

def nonGreaseCiphers (h : Hello) : List Nat := (h.ciphers.map (·.toNat)).filter (fun c => !grease c)
def nonGreaseExtTypes (h : Hello) : List Nat := ((extsOf h).map (·.typeId.toNat)).filter (fun t => !grease t)
def sigAlgs (h : Hello) : List Nat :=
  ((extsOf h).flatMap fun | .sigalgs as => as.map (·.toNat) | _ => []).filter (fun a => !grease a)

def partA (h : Hello) : Bytes :=
  [116] ++ versionStr (version h) ++ [if hasSNI h then 100 else 105] ++
    count2 (nonGreaseCiphers h).length ++ count2 (nonGreaseExtTypes h).length ++ alpnCode (firstALPNValue h)

def partBInput (h : Hello) : Bytes := joinHex (sortU16 (nonGreaseCiphers h))

def partCInput (h : Hello) : Bytes :=
  let es := joinHex (sortU16 ((nonGreaseExtTypes h).filter (fun t => t ≠ 0 && t ≠ 16)))
  if (sigAlgs h).isEmpty then es else es ++ [95] ++ joinHex (sigAlgs h)

/-- THE SPECIFICATION: JA4 = a_b_c -/
def ja4Spec (T : Bytes → Bytes) (h : Hello) : Bytes :=
  partA h ++ [95] ++ T (partBInput h) ++ [95] ++ T (partCInput h)

end Fp.Spec.JA4
