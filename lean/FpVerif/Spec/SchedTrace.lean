/-
C20 — the write-scheduler contract as a TRACE specification, independent of any scheduler's data structure
(ring, map, priority tree): given the operations the server performed and the answers `Pop` gave, decide
whether those answers are admissible:

  * every frame handed out was queued, is handed out once, in FIFO order within its stream, and its stream was
    not closed in between;
  * a queued control frame (stream 0) goes before any stream frame;
  * DATA is released only within the stream and connection windows and the maximum frame size, split pieces
    concatenate to the original frame, END_STREAM only on the last piece;
  * `Pop` says "nothing" only when no queued frame is currently sendable.

Frames whose placement the WriteScheduler interface leaves to the implementation (a control frame naming a
stream — RST_STREAM —, a non-DATA frame for a stream that is not open) are "floating": they may be handed out at
any time, must be handed out before `Pop` may say "nothing", and are optional when the stream they name has been
closed (before or after the push). After an interface violation by the CALLER (re-opening an id, closing a
stream that is not open, DATA for a stream that is not open) nothing is required any more.
-/
import FpVerif.Model.Sched
namespace Fp.Spec.SchedTrace
open Fp Fp.Sched

structure Floating where
  uid : Nat
  sid : Nat
  isCtl : Bool
  deriving Repr, DecidableEq

structure TSt where
  s : St := St.init
  floating : List Floating := []
  optional : List Floating := []
  used : List Nat := []
  deriving Repr

inductive Obs
  | none_
  | ctl (uid : Nat)
  | frame (sid uid : Nat)
  | data (sid len : Nat) (es : Bool)
  | other (what : String)
  deriving Repr, DecidableEq

inductive TOp
  | open_ (sid : Nat)
  | close (sid : Nat)
  | pushData (uid sid size : Nat) (es : Bool)
  | pushFrame (uid sid : Nat)
  | pushCtl (uid : Nat)
  | pushCtlFor (uid sid : Nat)
  | addWin (sid : Nat) (n : Int)
  | addConn (n : Int)
  | setMax (n : Int)
  | adjust
  | pop
  deriving Repr

inductive Verdict
  | ok (t : TSt)
  | stop                      -- the caller left the interface: nothing is required from here on
  | bad (why : String)
  deriving Repr

def removeUid (l : List Floating) (uid : Nat) (isCtl : Bool) : Option (List Floating) :=
  if l.any (fun f => f.uid == uid && f.isCtl == isCtl) then some (l.filter (fun f => !(f.uid == uid && f.isCtl == isCtl))) else none

def takeFloating (t : TSt) (uid : Nat) (isCtl : Bool) : Option TSt :=
  match removeUid t.floating uid isCtl with
  | some l => some { t with floating := l }
  | none =>
    match removeUid t.optional uid isCtl with
    | some l => some { t with optional := l }
    | none => none

/-- one answer of `Pop` against the trace state -/
def tracePop (t : TSt) : Obs → Verdict
  | .none_ =>
    if !t.s.control.isEmpty then .bad "Pop reported nothing while a control frame is queued"
    else if !t.floating.isEmpty then .bad s!"Pop reported nothing while frame {(t.floating.headD ⟨0, 0, false⟩).uid} is queued"
    else match t.s.queues.find? (ready t.s) with
      | some (sid, _) => .bad s!"Pop reported nothing while stream {sid} has a sendable frame"
      | none => .ok t
  | .ctl uid =>
    match t.s.control with
    | c :: rest =>
      if c.uid == uid then .ok { t with s := { t.s with control := rest } }
      else match takeFloating t uid true with
        | some t' => .ok t'
        | none => .bad s!"control frame {uid} handed out but {c.uid} is the next queued control frame"
    | [] =>
      match takeFloating t uid true with
      | some t' => .ok t'
      | none => .bad s!"control frame {uid} handed out but it is not queued (never pushed, already handed out, or discarded)"
  | .frame sid uid =>
    match takeFloating t uid false with
    | some t' => .ok t'
    | none =>
      if !t.s.control.isEmpty then .bad s!"stream frame handed out while a control frame is queued" else
      match queueOf t.s sid with
      | some (r :: rest) =>
        if !r.isData && r.uid == uid then .ok { t with s := setQueue t.s sid rest }
        else .bad s!"frame {uid} of stream {sid} handed out but it is not at the head of that stream's queue"
      | _ => .bad s!"frame {uid} of stream {sid} handed out but that stream has nothing queued (never pushed, already handed out, or closed)"
  | .data sid len es =>
    if !t.s.control.isEmpty then .bad s!"DATA handed out while a control frame is queued" else
    match queueOf t.s sid with
    | some (r :: rest) =>
      if !r.isData then .bad s!"DATA of stream {sid} handed out but a non-DATA frame is at the head of its queue"
      else if r.size = 0 then
        if len = 0 ∧ es = r.es then .ok { t with s := setQueue t.s sid rest } else .bad s!"empty DATA frame of stream {sid} altered"
      else if len = 0 then .bad s!"zero bytes of a non-empty DATA frame of stream {sid} handed out"
      else if (len : Int) > allowed t.s sid then
        .bad s!"{len} DATA bytes of stream {sid} handed out but only {allowed t.s sid} are allowed (windows / max frame size)"
      else if len > r.size then .bad s!"{len} DATA bytes of stream {sid} handed out but the frame has {r.size}"
      else if len = r.size then
        if es = r.es then .ok { t with s := takeWin (setQueue t.s sid rest) sid len }
        else .bad s!"END_STREAM flag of the last piece of a DATA frame of stream {sid} altered"
      else
        if es then .bad s!"END_STREAM on a piece that is not the last of its DATA frame (stream {sid})"
        else .ok { t with s := takeWin (setQueue t.s sid ({ r with size := r.size - len } :: rest)) sid len }
    | _ => .bad s!"DATA of stream {sid} handed out but that stream has nothing queued (never pushed, already handed out, or closed)"
  | .other w => .bad s!"Pop handed out something that was never queued: {w}"

def traceStep (t : TSt) (op : TOp) (obs : Option Obs) : Verdict :=
  match op with
  | .open_ sid =>
    if t.used.contains sid then .stop
    else .ok { t with s := { t.s with queues := t.s.queues ++ [(sid, [])] }, used := sid :: t.used }
  | .close sid =>
    if !isOpen t.s sid then .stop
    else .ok { t with s := { t.s with queues := t.s.queues.filter (fun e => !(e.1 == sid)) },
                      floating := t.floating.filter (fun f => !(f.sid == sid)),
                      optional := t.optional ++ t.floating.filter (fun f => f.sid == sid) }
  | .pushData uid sid size es =>
    match queueOf t.s sid with
    | none => .stop
    | some q => .ok { t with s := setQueue t.s sid (q ++ [{ uid := uid, sid := some sid, isData := true, size := size, es := es }]) }
  | .pushFrame uid sid =>
    match queueOf t.s sid with
    | none =>
      if t.used.contains sid then .ok { t with optional := t.optional ++ [⟨uid, sid, false⟩] }
      else .ok { t with floating := t.floating ++ [⟨uid, sid, false⟩] }
    | some q => .ok { t with s := setQueue t.s sid (q ++ [{ uid := uid, sid := some sid, isData := false, size := 0, es := false }]) }
  | .pushCtl uid => .ok { t with s := { t.s with control := t.s.control ++ [{ uid := uid, sid := none, isData := false, size := 0, es := false }] } }
  | .pushCtlFor uid sid =>
    if t.used.contains sid && !isOpen t.s sid then .ok { t with optional := t.optional ++ [⟨uid, sid, true⟩] }
    else .ok { t with floating := t.floating ++ [⟨uid, sid, true⟩] }
  | .addWin sid n => .ok { t with s := setWin t.s sid (win t.s sid + n) }
  | .addConn n => .ok { t with s := { t.s with cwin := t.s.cwin + n } }
  | .setMax n => .ok { t with s := { t.s with maxFrame := n } }
  | .adjust => .ok t
  | .pop =>
    match obs with
    | some o => tracePop t o
    | none => .bad "no answer recorded for a Pop"

end Fp.Spec.SchedTrace
