import FpVerif.Model.Capture
/-! Specification of C04: the captured ClientHello is the first TLS record, or nothing. -/
namespace Fp.Spec.Capture
open Fp Fp.Capture

/-- first five bytes are a TLS handshake record header with a version in SSL3.0..TLS1.3 -/
def validHdr (d : Bytes) : Prop :=
  5 ≤ d.length ∧ byteAt d 0 = 22 ∧ 0x0300 ≤ byteAt d 1 * 256 + byteAt d 2 ∧ byteAt d 1 * 256 + byteAt d 2 ≤ 0x0304

instance (d : Bytes) : Decidable (validHdr d) := by unfold validHdr; infer_instance

def declared (d : Bytes) : Nat := byteAt d 3 * 256 + byteAt d 4

/-- THE SPECIFICATION: given everything delivered so far, the reported ClientHello. -/
def captured (stream : Bytes) : Option Bytes :=
  if validHdr stream ∧ 5 + declared stream ≤ stream.length
  then some (stream.take (5 + declared stream)) else none

end Fp.Spec.Capture
