import FpVerif.Model.H2Fp
/-! Specification of the HTTP/2 fingerprint 'S|WU|P|PS' over the history of delivered frames. -/
namespace Fp.Spec.H2Fp
open Fp Fp.H2Fp

/-- the LAST element of the history on which `g` is defined -/
def lastSome {α β} (g : α → Option β) : List α → Option β
  | [] => none
  | a :: r => (lastSome g r).or (g a)

/-- settings of the latest non-ACK SETTINGS frame -/
def lastSettings (hist : List Frame) : List (Nat × Nat) :=
  (lastSome (fun | .settings false ss => some ss | _ => none) hist).getD []

/-- increment of the first WINDOW_UPDATE frame -/
def firstWU (hist : List Frame) : Option Nat :=
  hist.findSome? fun | .windowUpdate _ inc => some inc | _ => none

/-- every PRIORITY frame and every HEADERS frame carrying priority, in arrival order -/
def allPrios (hist : List Frame) : List Prio :=
  hist.filterMap fun | .priority p => some p | .headers _ (some p) _ => some p | _ => none

/-- field names of the latest header block -/
def lastHeaders (hist : List Frame) : List Bytes :=
  (lastSome (fun | .headers _ _ ns => some ns | _ => none) hist).getD []

def isPseudo (n : Bytes) : Bool := n.length ≥ 2 && n.head? == some 58

/-- first letter after the colon of each pseudo-header name -/
def pseudoLetters (names : List Bytes) : List Bytes :=
  (names.filter isPseudo).map fun n => [n.getD 1 0]

def renderSetting (s : Nat × Nat) : Bytes := dec s.1 ++ [58] ++ dec s.2
def renderPrio (p : Prio) : Bytes :=
  dec p.stream ++ [58] ++ [if p.excl then 49 else 48] ++ [58] ++ dec p.dep ++ [58] ++ dec (p.weight + 1)

/-- THE SPECIFICATION -/
def fpSpec (hist : List Frame) (max : Nat) : Bytes :=
  let S := join [59] ((lastSettings hist).map renderSetting)
  let WU := match firstWU hist with | none => [48, 48] | some inc => dec02 inc
  let ps := (allPrios hist).take max
  let P := if ps = [] then [48] else join [44] (ps.map renderPrio)
  let PS := join [44] (pseudoLetters (lastHeaders hist))
  S ++ [124] ++ WU ++ [124] ++ P ++ [124] ++ PS

end Fp.Spec.H2Fp
