import FpVerif.Model.Proxy
/-! Specifications for the reverse-proxy properties C05, C09, C15 (independent of `rewrite`). -/
namespace Fp.Spec.Proxy
open Fp Fp.Proxy

/-- the last injector whose canonical name is `K` -/
def lastFor (K : Bytes) : List Inj → Option Outcome
  | [] => none
  | j :: r => (lastFor K r).or (if canonKey j.name = K then some j.out else none)

def render : Outcome → List Bytes
  | .value v => if v.isEmpty then [] else [v]
  | .err => []

/-- C05: what the backend sees under an injected header name: the proxy's value, or nothing. -/
def specValues (injs : List Inj) (K : Bytes) : List Bytes :=
  match lastFor K injs with
  | some (.value v) => if v.isEmpty then [] else [v]
  | _ => []

/-- C09: X-Forwarded-For = client's list followed by the peer address -/
def specXFF (clientXFF : List Bytes) (peerIP : Bytes) : Bytes :=
  join (strBytes ", ") (clientXFF ++ [peerIP])

/-- C15: the first User-Agent value begins with "kube-probe/" -/
def uaProbe (i : InReq) : Bool :=
  match get i.hdr (strBytes "User-Agent") with
  | [] => false
  | v :: _ => v.take 11 == strBytes "kube-probe/"

end Fp.Spec.Proxy
