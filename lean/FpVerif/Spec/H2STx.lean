/-
C12 — what the PEER of the server observes of response bodies under flow control (RFC 7540 §6.9): a specification
written from the peer's side, independent of the server's data structures.

The peer grants a connection window (65535 + its WINDOW_UPDATEs on stream 0) and, per stream, a window that starts at its
current SETTINGS_INITIAL_WINDOW_SIZE, moves by the difference whenever it changes that setting (§6.9.2 — for EVERY stream
with flow-control state, whatever half of it is closed; the window may become negative) and grows by its WINDOW_UPDATEs.
At quiescence the server has sent, on every stream, exactly as much of the body as those windows admit: never more
(safety), never less (everything queued is delivered once window is available), and END_STREAM once the body is out.
-/
import FpVerif.Model.Common
namespace Fp.Spec.H2STx

structure Str where
  sid : Nat
  win : Int
  remaining : Nat
  sent : Nat := 0
  ended : Bool := false
  deriving Repr, DecidableEq

structure S where
  iw : Int := 65535
  cwin : Int := 65535
  strs : List Str := []
  deriving Repr, DecidableEq

inductive Ev
  | request (sid : Nat) (body : Nat)
  | setInitial (v : Nat)
  | windowUpdate (sid : Nat) (inc : Nat)
  | endRequest (sid : Nat)
  deriving Repr, DecidableEq

/-- bytes a stream may send now -/
def quota (cwin : Int) (st : Str) : Nat := min st.remaining (min st.win cwin).toNat

/-- send what the windows admit, stream by stream -/
def flush (cwin : Int) : List Str → Int × List Str
  | [] => (cwin, [])
  | st :: r =>
    let n := quota cwin st
    let st' := { st with win := st.win - n, remaining := st.remaining - n, sent := st.sent + n,
                         ended := st.ended || st.remaining - n == 0 }
    let (c, r') := flush (cwin - n) r
    (c, st' :: r')

def apply (s : S) : Ev → S
  | .request sid body => { s with strs := s.strs ++ [{ sid := sid, win := s.iw, remaining := body }] }
  | .setInitial v => { s with iw := v, strs := s.strs.map fun st => { st with win := st.win + ((v : Int) - s.iw) } }
  | .windowUpdate sid inc =>
    if sid = 0 then { s with cwin := s.cwin + inc }
    else { s with strs := s.strs.map fun st => if st.sid = sid then { st with win := st.win + inc } else st }
  | .endRequest _ => s

def step (s : S) (e : Ev) : S :=
  let s := apply s e
  let (c, strs) := flush s.cwin s.strs
  { s with cwin := c, strs := strs }

/-- SAFETY, by construction of `quota` and proved: a flush never sends more than the stream's or the connection's window -/
theorem quota_le_windows (cwin : Int) (st : Str) : (quota cwin st : Int) ≤ max 0 st.win ∧ (quota cwin st : Int) ≤ max 0 cwin ∧
    quota cwin st ≤ st.remaining := by
  unfold quota
  refine ⟨?_, ?_, Nat.min_le_left _ _⟩ <;> omega

/-- LIVENESS at quiescence: after a flush a stream has data left only if its own or the connection window is used up -/
theorem flush_leaves_nothing_sendable (cwin : Int) (l : List Str) :
    ∀ st ∈ (flush cwin l).2, st.remaining = 0 ∨ st.win ≤ 0 ∨ (flush cwin l).1 ≤ 0 := by
  induction l generalizing cwin with
  | nil => intro st h; cases h
  | cons a r ih =>
    intro st h
    simp only [flush] at h ⊢
    rcases List.mem_cons.mp h with h1 | h1
    · subst h1
      simp only
      have hmono : ∀ (c : Int) (l : List Str), (flush c l).1 ≤ c := by
        intro c l
        induction l generalizing c with
        | nil => simp [flush]
        | cons b t iht => simp only [flush]; have := iht (c - quota c b); omega
      have := hmono (cwin - quota cwin a) r
      unfold quota at *
      omega
    · exact ih _ st h1

end Fp.Spec.H2STx
