import FpVerif.Spec.JA4
set_option linter.unusedSimpArgs false
set_option linter.unusedVariables false
namespace Fp.JA4
open Fp

/-! ### sorting: a sorted permutation is unique, so `sort.Slice` and `mergeSort` agree and the result
does not depend on the order of the input -/

theorem sortU16_perm_eq {l l' : List Nat} (h : l.Perm l') : sortU16 l = sortU16 l' := by
  unfold sortU16
  have tr : ∀ a b c : Nat, decide (a ≤ b) = true → decide (b ≤ c) = true → decide (a ≤ c) = true := by
    intro a b c h1 h2; simp only [decide_eq_true_eq] at *; omega
  have tot : ∀ a b : Nat, (decide (a ≤ b) || decide (b ≤ a)) = true := by
    intro a b; simp only [Bool.or_eq_true, decide_eq_true_eq]; omega
  have s1 := List.pairwise_mergeSort (le := fun a b => decide (a ≤ b)) tr tot l
  have s2 := List.pairwise_mergeSort (le := fun a b => decide (a ≤ b)) tr tot l'
  have p : (l.mergeSort fun a b => decide (a ≤ b)).Perm (l'.mergeSort fun a b => decide (a ≤ b)) :=
    (List.mergeSort_perm l _).trans (h.trans (List.mergeSort_perm l' _).symm)
  apply List.Perm.eq_of_pairwise (le := fun a b => decide (a ≤ b) = true) _ s1 s2 p
  intro a b _ _ h1 h2
  simp only [decide_eq_true_eq] at h1 h2
  omega

theorem count2_length (n : Nat) : (count2 n).length = 2 := by
  unfold count2
  split
  · rename_i h
    have : ∀ k, k < 99 → (dec02 k).length = 2 := by decide
    exact this n h
  · decide

/-! ### pieces of the fingerprint as functions of permutation-invariant data -/

def isAlpn : ExtV → Bool | .alpn _ => true | _ => false
def isSig : ExtV → Bool | .sigalgs _ => true | _ => false
def isVers : ExtV → Bool | .versions _ => true | _ => false

/-- at most one ALPN and at most one signature_algorithms extension (crypto/tls rejects duplicate
extension types, so every accepted hello satisfies it) -/
def UniqueKinds (es : List ExtV) : Prop := (es.filter isAlpn).length ≤ 1 ∧ (es.filter isSig).length ≤ 1
instance (es : List ExtV) : Decidable (UniqueKinds es) := by unfold UniqueKinds; infer_instance

theorem perm_len_le_one {α} {l l' : List α} (p : l.Perm l') (h : l.length ≤ 1) : l = l' := by
  match l, l', p.length_eq with
  | [], [], _ => rfl
  | [a], [b], _ =>
    have := p.mem_iff (a := a)
    simp at this; rw [this]
  | [], _ :: _, h => simp at h
  | _ :: _, [], h => simp at h
  | _ :: _ :: _, _, _ => simp at h
  | [a], _ :: _ :: _, h => simp at h

theorem alpn_fold_filter (es : List ExtV) (acc : Bytes) :
    es.foldl alpnStep acc = (es.filter isAlpn).foldl alpnStep acc := by
  induction es generalizing acc with
  | nil => rfl
  | cons e r ih =>
    cases e <;> simp [List.filter_cons, isAlpn, alpnStep, ih]

theorem sig_flatMap_filter (es : List ExtV) : es.flatMap sigOf = (es.filter isSig).flatMap sigOf := by
  induction es with
  | nil => rfl
  | cons e r ih => cases e <;> simp [List.filter_cons, isSig, sigOf, ih]

theorem vstep_comm (z x y : Nat) : vstep (vstep z x) y = vstep (vstep z y) x := by
  unfold vstep
  cases isGrease x <;> cases isGrease y <;> simp <;> (repeat' split) <;> omega

theorem vfold_step_comm (vs : List Nat) (z x : Nat) : vs.foldl vstep (vstep z x) = vstep (vs.foldl vstep z) x := by
  induction vs generalizing z with
  | nil => rfl
  | cons v r ih => simp only [List.foldl_cons]; rw [vstep_comm, ih]

theorem vfold_comm (a b : List Nat) (z : Nat) : b.foldl vstep (a.foldl vstep z) = a.foldl vstep (b.foldl vstep z) := by
  induction a generalizing z with
  | nil => rfl
  | cons x r ih => simp only [List.foldl_cons]; rw [ih, vfold_step_comm]

theorem vouter_comm (z : Nat) (x y : ExtV) : vouter (vouter z x) y = vouter (vouter z y) x := by
  cases x <;> cases y <;> simp [vouter]
  exact vfold_comm _ _ _

end Fp.JA4
