import FpVerif.Lemmas.Common
import FpVerif.Spec.JA3
namespace Fp

/-! generic lemmas on `join`, `trimSuffix1` -/

theorem eq_nil_or_snoc {α} (l : List α) : l = [] ∨ ∃ i x, l = i ++ [x] := by
  rcases List.eq_nil_or_concat l with h | ⟨i, x, h⟩
  · exact Or.inl h
  · exact Or.inr ⟨i, x, by rw [h, List.concat_eq_append]⟩

def sepCat {α} (r : α → Bytes) (s : UInt8) (ys : List α) : Bytes := ys.flatMap (fun e => r e ++ [s])

theorem join_cons_ne {x : Bytes} {l : List Bytes} (sep : Bytes) (h : l ≠ []) :
    join sep (x :: l) = x ++ sep ++ join sep l := by
  cases l with
  | nil => exact absurd rfl h
  | cons y r => rfl

theorem join_snoc {α} (r : α → Bytes) (s : UInt8) (ys : List α) (l : α) :
    join [s] ((ys ++ [l]).map r) = sepCat r s ys ++ r l := by
  induction ys with
  | nil => simp [join, sepCat]
  | cons y ys ih =>
    have hne : (ys ++ [l]).map r ≠ [] := by simp
    simp only [List.cons_append, List.map_cons]
    rw [join_cons_ne _ hne, ih]
    simp [sepCat, List.append_assoc]

theorem trim_snoc_ne (b : Bytes) {c s : UInt8} (h : c ≠ s) : trimSuffix1 (b ++ [c]) s = b ++ [c] := by
  simp [trimSuffix1, h]

theorem trim_snoc_eq (b : Bytes) (s : UInt8) : trimSuffix1 (b ++ [s]) s = b := by
  simp [trimSuffix1]

theorem trim_dec (b : Bytes) (n : Nat) (s : UInt8) (hs : isDigitByte s = false) :
    trimSuffix1 (b ++ dec n) s = b ++ dec n := by
  have hne := dec_ne_nil n
  have hd := dec_all_digits n ((dec n).getLast hne) (List.getLast_mem hne)
  have hsplit : dec n = (dec n).dropLast ++ [(dec n).getLast hne] := (List.dropLast_concat_getLast hne).symm
  rw [hsplit, ← List.append_assoc]
  apply trim_snoc_ne
  intro h; rw [h] at hd; simp [hs] at hd

end Fp

namespace Fp.JA3
open Fp Fp.Spec.JA3

/-- What the generated table must satisfy: same members as RFC 8701's sixteen values, and the two
separator bytes are '-' and ','. Discharged by `decide` in Properties/C01 against Gen. -/
structure GenOK : Prop where
  sub1 : Gen.JA3.greaseValues.all (fun v => greaseList.contains v) = true
  sub2 : greaseList.all (fun v => Gen.JA3.greaseValues.contains v) = true
  sepV : Gen.JA3.sepValueByte = 45
  sepF : Gen.JA3.sepFieldByte = 44

theorem isGrease_eq (g : GenOK) (v : UInt16) : JA3.isGrease v = Spec.JA3.isGrease v := by
  unfold JA3.isGrease Spec.JA3.isGrease
  have h1 := g.sub1; have h2 := g.sub2
  rw [List.all_eq_true] at h1 h2
  cases hc : Gen.JA3.greaseValues.contains v <;> cases hd : greaseList.contains v <;> try rfl
  · have := h2 v (by simpa using hd); rw [hc] at this; exact this
  · have := h1 v (by simpa using hc); rw [hd] at this; exact this.symm

def rd (v : UInt16) : Bytes := dec v.toNat

theorem initLoop_filter (g : GenOK) (buf : Bytes) (xs : List UInt16) :
    initLoop true buf xs = buf ++ sepCat rd 45 (xs.filter (fun v => !Spec.JA3.isGrease v)) := by
  induction xs generalizing buf with
  | nil => simp [initLoop, sepCat]
  | cons e r ih =>
    unfold initLoop
    rw [isGrease_eq g]
    cases h : Spec.JA3.isGrease e
    · simp [ih, h, sepCat, rd, g.sepV, List.append_assoc]
    · simp [ih, h]

theorem initLoop_nofilter (g : GenOK) (buf : Bytes) (xs : List UInt16) :
    initLoop false buf xs = buf ++ sepCat rd 45 xs := by
  induction xs generalizing buf with
  | nil => simp [initLoop, sepCat]
  | cons e r ih => unfold initLoop; simp [ih, sepCat, rd, g.sepV, List.append_assoc]

theorem sepCat_append {α} (r : α → Bytes) (s : UInt8) (a b : List α) :
    sepCat r s (a ++ b) = sepCat r s a ++ sepCat r s b := by simp [sepCat]

/-- The per-list block of `ja3.Bare` appends exactly the specified field and a comma, provided the
buffer so far ends with a comma (it always does: every block and the version end with one). -/
theorem listBlock_eq (g : GenOK) (pre : Bytes) (xs : List UInt16) :
    listBlock (pre ++ [44]) xs = pre ++ [44] ++ field xs ++ [44] := by
  have h45 : isDigitByte 45 = false := by decide
  rcases eq_nil_or_snoc xs with rfl | ⟨init, l, rfl⟩
  · simp [listBlock, field, join, g.sepV, g.sepF, trim_snoc_ne]
  · have hb1 : (if (init ++ [l]).length > 1 then initLoop true (pre ++ [44]) (init ++ [l]).dropLast
          else pre ++ [44]) = pre ++ [44] ++ sepCat rd 45 (init.filter (fun v => !Spec.JA3.isGrease v)) := by
      simp only [List.dropLast_concat]
      split
      · exact initLoop_filter g _ _
      · have : init = [] := by
          cases init with
          | nil => rfl
          | cons a b => simp at *
        subst this; simp [sepCat]
    unfold listBlock
    simp only [hb1, List.getLast?_append, List.getLast?_singleton, Option.some_or]
    rw [isGrease_eq g, g.sepV, g.sepF]
    cases hl : Spec.JA3.isGrease l
    · -- last element kept
      simp only [Bool.false_eq_true, if_false]
      rw [trim_dec _ _ _ h45]
      have : field (init ++ [l]) = sepCat rd 45 (init.filter (fun v => !Spec.JA3.isGrease v)) ++ rd l := by
        unfold field
        rw [List.filter_append]
        simp only [List.filter_cons, hl, List.filter_nil, Bool.not_false, if_true]
        exact join_snoc rd 45 _ l
      rw [this]; simp [rd, List.append_assoc]
    · -- last element is GREASE: a trailing '-' (if any) is trimmed
      simp only [if_true]
      have hf : field (init ++ [l]) = field init := by
        unfold field; rw [List.filter_append]; simp [hl]
      rw [hf]
      rcases eq_nil_or_snoc (init.filter (fun v => !Spec.JA3.isGrease v)) with h0 | ⟨ys, y, h0⟩
      · unfold field; rw [h0]
        simp [sepCat, join, trim_snoc_ne]
      · unfold field; rw [h0]
        have hj : join [45] (List.map (fun v : UInt16 => dec v.toNat) (ys ++ [y])) = sepCat rd 45 ys ++ rd y :=
          join_snoc rd 45 ys y
        rw [hj, sepCat_append]
        have : sepCat rd 45 [y] = rd y ++ [45] := by simp [sepCat]
        rw [this, ← List.append_assoc, ← List.append_assoc, trim_snoc_eq]
        simp [List.append_assoc]

theorem pointsBlock_eq (g : GenOK) (buf : Bytes) (xs : List UInt8) :
    pointsBlock buf xs = buf ++ pointsField xs := by
  rcases eq_nil_or_snoc xs with rfl | ⟨init, l, rfl⟩
  · simp [pointsBlock, pointsField, join]
  · unfold pointsBlock pointsField
    simp only [List.dropLast_concat, List.getLast?_append, List.getLast?_singleton, Option.some_or]
    have hj := join_snoc (fun v : UInt8 => dec v.toNat) 45 init l
    rw [hj]
    split
    · rw [initLoop_nofilter g]
      simp [sepCat, rd, List.flatMap_map, List.append_assoc, UInt8.toNat_toUInt16]
    · have : init = [] := by
        cases init with
        | nil => rfl
        | cons a b => simp at *
      subst this; simp [sepCat]

end Fp.JA3
