import FpVerif.Spec.Capture
set_option linter.unusedSimpArgs false
set_option linter.unusedVariables false
namespace Fp.Capture
open Fp Fp.Spec.Capture Fp.Gen.Capture

/-- Facts about the constants REGENERATED from the source. -/
structure GenOK : Prop where
  ty : recordTypeHandshake = 22
  hl : recordHeaderLen = 5
  vmin : versMin = 0x0300
  vmax : versMax = 0x0304
  bits : expectedLenMod = 65536

/-- the state the wrapper must be in after the bytes `d` were delivered (in any segmentation) -/
def canon (d : Bytes) : St :=
  if validHdr d then { buf := d.take (5 + declared d), exp := 5 + declared d } else { buf := d, exp := 0 }

theorem byteAt_append_left (d c : Bytes) (i : Nat) (h : i < d.length) : byteAt (d ++ c) i = byteAt d i := by
  unfold byteAt; simp [List.getD_eq_getElem?_getD, List.getElem?_append_left h]

theorem validHdr_append (d c : Bytes) (h : 5 ≤ d.length) : validHdr (d ++ c) ↔ validHdr d := by
  unfold validHdr
  rw [byteAt_append_left d c 0 (by omega), byteAt_append_left d c 1 (by omega), byteAt_append_left d c 2 (by omega)]
  simp; omega

theorem declared_append (d c : Bytes) (h : 5 ≤ d.length) : declared (d ++ c) = declared d := by
  unfold declared
  rw [byteAt_append_left d c 3 (by omega), byteAt_append_left d c 4 (by omega)]

theorem validHdr_len {d : Bytes} (h : validHdr d) : 5 ≤ d.length := h.1

theorem hasComplete_zero (s : St) (h : s.exp = 0) : hasComplete s = (false, s) := by
  unfold hasComplete; simp [h]

theorem hasComplete_short (s : St) (h : s.buf.length < s.exp) : hasComplete s = (false, s) := by
  unfold hasComplete; simp [h]

theorem hasComplete_full (s : St) (h0 : s.buf.length ≠ 0) (h1 : s.exp ≠ 0) (h2 : s.exp ≤ s.buf.length) :
    hasComplete s = (true, { s with buf := s.buf.take s.exp }) := by
  unfold hasComplete
  have : ¬ s.buf.length < s.exp := by omega
  simp [h0, h1, this]

theorem hasComplete_zero' (b : Bytes) : hasComplete { buf := b, exp := 0 } = (false, { buf := b, exp := 0 }) :=
  hasComplete_zero _ rfl

theorem hasComplete_short' (b : Bytes) (e : Nat) (h : b.length < e) :
    hasComplete { buf := b, exp := e } = (false, { buf := b, exp := e }) := hasComplete_short _ h

theorem hasComplete_full' (b : Bytes) (e : Nat) (h0 : b.length ≠ 0) (h1 : e ≠ 0) (h2 : e ≤ b.length) :
    hasComplete { buf := b, exp := e } = (true, { buf := b.take e, exp := e }) := hasComplete_full _ h0 h1 h2

/-- the header part of `tryParse`, once `hasComplete` said no -/
def parseHdr (s : St) : Option Err × St :=
  if s.buf.length < 5 then (some .incomplete, s) else
  if byteAt s.buf 0 ≠ recordTypeHandshake then (some .notHandshake, s) else
  let vers := byteAt s.buf 1 * 256 + byteAt s.buf 2
  if vers < versMin ∨ vers > versMax then (some .badVersion, s) else
  let hl := byteAt s.buf 3 * 256 + byteAt s.buf 4
  let s := { s with exp := (recordHeaderLen + hl) % expectedLenMod }
  let (c, s) := hasComplete s
  if c then (none, s) else (some .incomplete, s)

theorem tryParse_of_incomplete (s : St) (h : hasComplete s = (false, s)) : tryParse s = parseHdr s := by
  unfold tryParse parseHdr; rw [h]; simp

theorem tryParse_of_complete (s s' : St) (h : hasComplete s = (true, s')) : tryParse s = (none, s') := by
  unfold tryParse; rw [h]; simp

theorem parseHdr_invalid (g : GenOK) (s : St) (hv : ¬ validHdr s.buf) : (parseHdr s).2 = s ∧ (parseHdr s).1 ≠ none := by
  unfold parseHdr
  simp only [g.ty, g.vmin, g.vmax]
  unfold validHdr at hv
  by_cases h5 : s.buf.length < 5
  · simp [h5]
  · by_cases h0 : byteAt s.buf 0 = 22
    · have : byteAt s.buf 1 * 256 + byteAt s.buf 2 < 768 ∨ byteAt s.buf 1 * 256 + byteAt s.buf 2 > 772 := by
        have h5' : 5 ≤ s.buf.length := by omega
        by_cases hx : byteAt s.buf 1 * 256 + byteAt s.buf 2 < 768
        · exact Or.inl hx
        · by_cases hy : byteAt s.buf 1 * 256 + byteAt s.buf 2 > 772
          · exact Or.inr hy
          · exact absurd ⟨h5', h0, by omega, by omega⟩ hv
      simp [h5, h0, this]
    · simp [h5, h0]

theorem parseHdr_valid (g : GenOK) (s : St) (hv : validHdr s.buf) (hd : declared s.buf ≤ 65530) :
    parseHdr s = (let s' : St := { s with exp := 5 + declared s.buf }
                  if s'.exp ≤ s.buf.length then (none, { s' with buf := s.buf.take s'.exp }) else (some .incomplete, s')) := by
  obtain ⟨b, e⟩ := s
  obtain ⟨h5, h0, h1, h2⟩ := hv
  simp only at h5 h0 h1 h2 hd ⊢
  unfold parseHdr
  simp only [g.ty, g.vmin, g.vmax, g.hl, g.bits]
  have n5 : ¬ b.length < 5 := by omega
  have nv : ¬ (byteAt b 1 * 256 + byteAt b 2 < 768 ∨ byteAt b 1 * 256 + byteAt b 2 > 772) := by omega
  unfold declared at hd ⊢
  have hmod : (5 + (byteAt b 3 * 256 + byteAt b 4)) % 65536 = 5 + (byteAt b 3 * 256 + byteAt b 4) :=
    Nat.mod_eq_of_lt (by omega)
  simp only [n5, h0, nv, if_false, ne_eq, not_true_eq_false, hmod]
  by_cases hle : 5 + (byteAt b 3 * 256 + byteAt b 4) ≤ b.length
  · rw [hasComplete_full { buf := b, exp := 5 + (byteAt b 3 * 256 + byteAt b 4) } (show b.length ≠ 0 by omega)
        (show 5 + (byteAt b 3 * 256 + byteAt b 4) ≠ 0 by omega) hle]
    simp [hle]
  · rw [hasComplete_short { buf := b, exp := 5 + (byteAt b 3 * 256 + byteAt b 4) }
        (show b.length < 5 + (byteAt b 3 * 256 + byteAt b 4) by omega)]
    simp [hle]

/-- parsing a buffer whose expectedLen is still 0 -/
theorem tryParse_fresh (g : GenOK) (b : Bytes) (hb : validHdr b → declared b ≤ 65530) :
    (tryParse { buf := b, exp := 0 }).2 = canon b := by
  rw [tryParse_of_incomplete _ (hasComplete_zero _ rfl)]
  unfold canon
  by_cases hv : validHdr b
  · rw [parseHdr_valid g { buf := b, exp := 0 } hv (hb hv)]
    simp only [hv, if_true]
    split
    · rfl
    · rename_i h; simp at h; simp [List.take_of_length_le (Nat.le_of_lt h)]
  · simp only [hv, if_false]
    exact (parseHdr_invalid g { buf := b, exp := 0 } hv).1

theorem read_def (s : St) (c : Bytes) :
    read s c = if (hasComplete s).1 then (hasComplete s).2 else (tryParse { (hasComplete s).2 with buf := (hasComplete s).2.buf ++ c }).2 := by
  unfold read; simp

/-- one more chunk: the state after `d ++ c` is again canonical -/
theorem read_canon (g : GenOK) (d c : Bytes) (hb : validHdr (d ++ c) → declared (d ++ c) ≤ 65530) :
    read (canon d) c = canon (d ++ c) := by
  rw [read_def]
  by_cases hv : validHdr d
  · have h5 := hv.1
    have hv' : validHdr (d ++ c) := (validHdr_append d c h5).mpr hv
    have hdec : declared (d ++ c) = declared d := declared_append d c h5
    have hd : declared d ≤ 65530 := hdec ▸ hb hv'
    have cd : canon d = { buf := d.take (5 + declared d), exp := 5 + declared d } := by simp [canon, hv]
    have cdc : canon (d ++ c) = { buf := (d ++ c).take (5 + declared d), exp := 5 + declared d } := by
      simp [canon, hv', hdec]
    rw [cd, cdc]
    generalize hE : 5 + declared d = E at *
    have hE5 : 5 ≤ E := by omega
    by_cases hle : E ≤ d.length
    · have hl : (d.take E).length = E := by rw [List.length_take]; omega
      rw [hasComplete_full' _ _ (by omega) (by omega) (by omega)]
      simp [List.take_take, List.take_append_of_le_length hle]
    · have hshort : d.take E = d := List.take_of_length_le (by omega)
      rw [hshort, hasComplete_short' _ _ (by omega)]
      simp only [Bool.false_eq_true, if_false]
      have hlen : (d ++ c).length = d.length + c.length := List.length_append
      by_cases hle2 : E ≤ (d ++ c).length
      · rw [tryParse_of_complete _ _ (hasComplete_full' _ _ (by omega) (by omega) hle2)]
      · rw [tryParse_of_incomplete _ (hasComplete_short' _ _ (by omega))]
        rw [parseHdr_valid g { buf := d ++ c, exp := E } hv' (by simpa [hdec] using hd)]
        simp only [hdec, hE]
        simp only [hle2, if_false]
        rw [List.take_of_length_le (by omega)]
  · have cd : canon d = { buf := d, exp := 0 } := by simp [canon, hv]
    rw [cd, hasComplete_zero']
    simp only [Bool.false_eq_true, if_false]
    exact tryParse_fresh g (d ++ c) hb

/-- hypothesis of the property's quantifier: a valid header declares a length that fits the
16-bit `expectedLen` (every legal TLS record, ≤ 2^14+2048, does). Depends on the first 5 bytes only. -/
def LenOK (d : Bytes) : Prop := validHdr d → declared d ≤ 65530

theorem LenOK_prefix (d c : Bytes) (h : LenOK (d ++ c)) : LenOK d := by
  intro hv
  have h5 := hv.1
  have := h ((validHdr_append d c h5).mpr hv)
  rwa [declared_append d c h5] at this

theorem feed_canon (g : GenOK) (d : Bytes) (chunks : List Bytes) (h : LenOK (d ++ chunks.flatten)) :
    feed (canon d) chunks = canon (d ++ chunks.flatten) := by
  induction chunks generalizing d with
  | nil => simp [feed]
  | cons c cs ih =>
    have h' : LenOK ((d ++ c) ++ cs.flatten) := by simpa [List.append_assoc] using h
    have hdc : LenOK (d ++ c) := LenOK_prefix _ _ h'
    have : feed (canon d) (c :: cs) = feed (read (canon d) c) cs := by simp [feed]
    rw [this, read_canon g d c hdc, ih (d ++ c) h']
    simp [List.append_assoc]

theorem canon_nil : canon [] = {} := by
  have : ¬ validHdr [] := by intro h; have := h.1; simp at this
  simp [canon, this]

/-- what `GetClientHello` answers in a canonical state, and that it leaves the state alone -/
theorem getHello_canon (g : GenOK) (d : Bytes) (h : LenOK d) :
    (match (getHello (canon d)).1 with | .ok b => some b | .error _ => none) = captured d ∧
    (getHello (canon d)).2 = canon d := by
  unfold getHello captured
  by_cases hv : validHdr d
  · have hd := h hv
    have h5 := hv.1
    have cd : canon d = { buf := d.take (5 + declared d), exp := 5 + declared d } := by simp [canon, hv]
    rw [cd]
    generalize hE : 5 + declared d = E at *
    by_cases hle : E ≤ d.length
    · have hl : (d.take E).length = E := by rw [List.length_take]; omega
      rw [tryParse_of_complete _ _ (hasComplete_full' _ _ (by omega) (by omega) (by omega))]
      simp [hv, hle, List.take_take]
    · have hshort : d.take E = d := List.take_of_length_le (by omega)
      rw [hshort, tryParse_of_incomplete _ (hasComplete_short' _ _ (by omega))]
      rw [parseHdr_valid g { buf := d, exp := E } hv hd]
      simp [hle, hv, hshort, hE]
  · have cd : canon d = { buf := d, exp := 0 } := by simp [canon, hv]
    rw [cd, tryParse_of_incomplete _ (hasComplete_zero' _)]
    have := parseHdr_invalid g { buf := d, exp := 0 } hv
    cases hp : (parseHdr { buf := d, exp := 0 }) with
    | mk e s' =>
      rw [hp] at this
      cases e with
      | none => exact absurd rfl this.2
      | some e => have h1 := this.1; simp only at h1; simp [hv, h1]

end Fp.Capture
