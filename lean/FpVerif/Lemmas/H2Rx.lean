/-
Connection-level receive-credit ledger of the server model (Model/H2Rx.lean): `cred` is the credit the server has
given or is about to give back (avail + unsent), `held` the bytes it has received on streams that are still open and
that their handlers have not read yet. Every byte a client sends is taken from `cred` and either held or returned
at once; whatever leaves `held` returns to `cred`.
-/
import FpVerif.Model.H2Rx
set_option linter.unusedSimpArgs false
set_option linter.unusedVariables false
namespace Fp.H2Rx
open Fp.Flow

def cred (c : RConn) : Int := c.inflow.avail + c.inflow.unsent

def present (c : RConn) (sid : Nat) : Bool := (findS c sid).isSome

def heldOf (c : RConn) : List Body → Int
  | [] => 0
  | b :: r => (if present c b.id then (b.buffered : Int) else 0) + heldOf c r

/-- bytes received on streams still open, not yet read by their handlers -/
def held (c : RConn) : Int := heldOf c c.bodies

theorem heldOf_congr (c c' : RConn) (h : ∀ sid, present c' sid = present c sid) (l : List Body) :
    heldOf c' l = heldOf c l := by
  induction l with
  | nil => rfl
  | cons b r ih => simp only [heldOf, h, ih]

theorem present_setS (c : RConn) (s : RStream) (sid : Nat) : present (setS c s) sid = present c sid := by
  unfold present findS setS
  simp only
  induction c.streams with
  | nil => rfl
  | cons x r ih =>
    simp only [List.map_cons, List.find?_cons]
    by_cases hx : (x.id == s.id) = true
    · simp only [hx, if_true]
      have : s.id = x.id := by simpa using (beq_iff_eq.mp hx).symm
      by_cases hs : (x.id == sid) = true
      · have : (s.id == sid) = true := by rw [this]; exact hs
        simp [hs, this]
      · have hs' : (x.id == sid) = false := by simpa using hs
        have : (s.id == sid) = false := by rw [‹s.id = x.id›]; exact hs'
        simp only [hs', this]; exact ih
    · have hx' : (x.id == s.id) = false := by simpa using hx
      simp only [hx', Bool.false_eq_true, if_false]
      by_cases hs : (x.id == sid) = true
      · simp [hs]
      · have hs' : (x.id == sid) = false := by simpa using hs
        simp only [hs']; exact ih

theorem present_setB (c : RConn) (b : Body) (sid : Nat) : present (setB c b) sid = present c sid := rfl

theorem present_inflow (c : RConn) (f : Inflow) (sid : Nat) : present { c with inflow := f } sid = present c sid := rfl

theorem present_dropS (c : RConn) (s sid : Nat) :
    present (dropS c s) sid = (present c sid && !(sid == s)) := by
  unfold present findS dropS
  simp only
  induction c.streams with
  | nil => rfl
  | cons x r ih =>
    simp only [List.filter_cons]
    by_cases hx : (x.id == s) = true
    · simp only [hx, Bool.not_true, Bool.false_eq_true, if_false, List.find?_cons]
      have hxs : x.id = s := beq_iff_eq.mp hx
      by_cases hs : (x.id == sid) = true
      · have : sid = s := by rw [← beq_iff_eq.mp hs]; exact hxs
        subst this
        simp only [hs, Option.isSome_some, beq_self_eq_true, Bool.not_true, Bool.and_false]
        rw [ih]; simp
      · have hs' : (x.id == sid) = false := by simpa using hs
        simp only [hs']; exact ih
    · have hx' : (x.id == s) = false := by simpa using hx
      simp only [hx', Bool.not_false, if_true, List.find?_cons]
      by_cases hs : (x.id == sid) = true
      · have : (sid == s) = false := by
          have := beq_iff_eq.mp hs
          rw [← this]; exact hx'
        simp [hs, this]
      · have hs' : (x.id == sid) = false := by simpa using hs
        simp only [hs']; exact ih

/-- buffered bytes of the body with this id (0 when there is none) -/
def bufOf (l : List Body) (sid : Nat) : Int :=
  match l.find? (·.id == sid) with
  | some b => b.buffered
  | none => 0

def BUniq (c : RConn) : Prop := (c.bodies.map (·.id)).Nodup

theorem heldOf_not_mem (c : RConn) (l : List Body) (b' : Body) (h : b'.id ∉ l.map (·.id)) :
    heldOf c (l.map fun x => if x.id == b'.id then b' else x) = heldOf c l := by
  induction l with
  | nil => rfl
  | cons x r ih =>
    simp only [List.map_cons, List.mem_cons, not_or] at h
    have hx : (x.id == b'.id) = false := by simp; exact fun e => h.1 e.symm
    simp only [List.map_cons, hx, Bool.false_eq_true, if_false, heldOf, ih h.2]

theorem bufOf_not_mem (l : List Body) (sid : Nat) (h : sid ∉ l.map (·.id)) : bufOf l sid = 0 := by
  unfold bufOf
  have : l.find? (·.id == sid) = none := by
    rw [List.find?_eq_none]
    intro x hx hxe
    exact h (List.mem_map.mpr ⟨x, hx, beq_iff_eq.mp hxe⟩)
  rw [this]

/-- replacing the body with id `b'.id`: only its own contribution changes -/
theorem heldOf_setB (c : RConn) (b' : Body) : ∀ (l : List Body), (l.map (·.id)).Nodup → b'.id ∈ l.map (·.id) →
    heldOf c (l.map fun x => if x.id == b'.id then b' else x) =
      heldOf c l + (if present c b'.id then (b'.buffered : Int) - bufOf l b'.id else 0) := by
  intro l
  induction l with
  | nil => intro _ h; cases h
  | cons x r ih =>
    intro hn hm
    simp only [List.map_cons, List.nodup_cons] at hn
    by_cases hx : x.id = b'.id
    · have hxb : (x.id == b'.id) = true := by simp [hx]
      have hnot : b'.id ∉ r.map (·.id) := by rw [← hx]; exact hn.1
      have hb : bufOf (x :: r) b'.id = x.buffered := by simp [bufOf, List.find?_cons, hxb]
      simp only [List.map_cons, hxb, if_true, heldOf, heldOf_not_mem c r b' hnot, hb]
      rw [hx]
      by_cases hp : present c b'.id = true
      · simp only [hp, if_true]; omega
      · simp only [hp, Bool.false_eq_true, if_false]; omega
    · have hxb : (x.id == b'.id) = false := by simp [hx]
      have hm' : b'.id ∈ r.map (·.id) := by
        simp only [List.map_cons, List.mem_cons] at hm
        rcases hm with e | e
        · exact absurd e.symm hx
        · exact e
      have hb : bufOf (x :: r) b'.id = bufOf r b'.id := by simp [bufOf, List.find?_cons, hxb]
      simp only [List.map_cons, hxb, Bool.false_eq_true, if_false, heldOf, ih hn.2 hm', hb]
      omega

theorem held_setB (c : RConn) (b b' : Body) (hu : BUniq c) (hf : findB c b'.id = some b) :
    held (setB c b') = held c + (if present c b'.id then (b'.buffered : Int) - b.buffered else 0) := by
  have hm : b'.id ∈ c.bodies.map (·.id) := by
    unfold findB at hf
    have := List.mem_of_find?_eq_some hf
    have hid := List.find?_some hf
    simp at hid
    exact List.mem_map.mpr ⟨b, this, hid⟩
  have hbuf : bufOf c.bodies b'.id = b.buffered := by unfold bufOf; unfold findB at hf; rw [hf]
  unfold held
  show heldOf (setB c b') (c.bodies.map fun x => if x.id == b'.id then b' else x) = _
  rw [heldOf_congr c (setB c b') (present_setB c b'), heldOf_setB c b' c.bodies hu hm, hbuf]

theorem held_setS (c : RConn) (s : RStream) : held (setS c s) = held c := by
  unfold held
  exact heldOf_congr c (setS c s) (present_setS c s) c.bodies

theorem held_inflow (c : RConn) (f : Inflow) : held { c with inflow := f } = held c := by
  unfold held
  exact heldOf_congr c _ (present_inflow c f) c.bodies

/-- dropping a stream: its body's bytes are no longer held -/
theorem heldOf_dropS (c : RConn) (sid : Nat) : ∀ (l : List Body), (l.map (·.id)).Nodup →
    heldOf (dropS c sid) l = heldOf c l - (if present c sid then bufOf l sid else 0) := by
  intro l
  induction l with
  | nil => intro _; simp [heldOf, bufOf]
  | cons x r ih =>
    intro hn
    simp only [List.map_cons, List.nodup_cons] at hn
    simp only [heldOf, present_dropS, ih hn.2]
    by_cases hx : x.id = sid
    · have hb : bufOf (x :: r) sid = x.buffered := by simp [bufOf, List.find?_cons, hx]
      have hr : bufOf r sid = 0 := bufOf_not_mem r sid (by rw [← hx]; exact hn.1)
      rw [hb, hr, hx]
      by_cases hp : present c sid = true
      · simp [hp]; omega
      · simp [hp]
    · have hxb : (x.id == sid) = false := by simp [hx]
      have hb : bufOf (x :: r) sid = bufOf r sid := by simp [bufOf, List.find?_cons, hxb]
      rw [hb]
      simp [hxb]
      omega

theorem held_dropS (c : RConn) (sid : Nat) (hu : BUniq c) :
    held (dropS c sid) = held c - (if present c sid then bufOf c.bodies sid else 0) := by
  unfold held
  exact heldOf_dropS c sid c.bodies hu

end Fp.H2Rx
