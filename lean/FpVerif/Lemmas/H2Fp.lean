import FpVerif.Lemmas.JA3
import FpVerif.Spec.H2Fp
set_option linter.unusedSimpArgs false
set_option linter.unusedVariables false
namespace Fp.H2Fp
open Fp Fp.Spec.H2Fp

/-! ### the capture fold computes the four abstract components -/

def gS : Frame → Option (List (Nat × Nat)) := fun | .settings false ss => some ss | _ => none
def gH : Frame → Option (List Bytes) := fun | .headers _ _ ns => some ns | _ => none
def gW : Frame → Option Nat := fun | .windowUpdate _ inc => some inc | _ => none
def gP : Frame → Option Prio := fun | .priority p => some p | .headers _ (some p) _ => some p | _ => none

theorem fold_settings (m : Frames) (hist : List Frame) :
    (hist.foldl capture m).settings = (lastSome gS hist).getD m.settings := by
  induction hist generalizing m with
  | nil => simp [lastSome]
  | cons f r ih =>
    simp only [List.foldl_cons, ih, lastSome]
    cases h : lastSome gS r with
    | some v => simp
    | none =>
      simp only [Option.getD_none, Option.none_or]
      cases f with
      | settings ack ss => cases ack <;> simp [capture, gS]
      | windowUpdate s i => simp only [capture, gS]; split <;> simp
      | priority p => simp [capture, gS]
      | headers s p n => cases p <;> simp [capture, gS]
      | other => simp [capture, gS]

theorem fold_headers (m : Frames) (hist : List Frame) :
    (hist.foldl capture m).headers = (lastSome gH hist).getD m.headers := by
  induction hist generalizing m with
  | nil => simp [lastSome]
  | cons f r ih =>
    simp only [List.foldl_cons, ih, lastSome]
    cases h : lastSome gH r with
    | some v => simp
    | none =>
      simp only [Option.getD_none, Option.none_or]
      cases f with
      | settings ack ss => cases ack <;> simp [capture, gH]
      | windowUpdate s i => simp only [capture, gH]; split <;> simp
      | priority p => simp [capture, gH]
      | headers s p n => cases p <;> simp [capture, gH]
      | other => simp [capture, gH]

theorem fold_prios (m : Frames) (hist : List Frame) :
    (hist.foldl capture m).prios = m.prios ++ hist.filterMap gP := by
  induction hist generalizing m with
  | nil => simp
  | cons f r ih =>
    simp only [List.foldl_cons, ih]
    cases f with
    | settings ack ss => cases ack <;> simp [capture, gP, List.filterMap_cons]
    | windowUpdate s i => simp only [capture, gP, List.filterMap_cons]; split <;> simp
    | priority p => simp [capture, gP, List.filterMap_cons]
    | headers s p n => cases p <;> simp [capture, gP, List.filterMap_cons]
    | other => simp [capture, gP, List.filterMap_cons]

/-- the framer never delivers a WINDOW_UPDATE with a zero increment (proved for the frame reader in C19;
here a hypothesis on the history) -/
def WUNonZero (hist : List Frame) : Prop := ∀ s inc, Frame.windowUpdate s inc ∈ hist → inc ≠ 0

theorem fold_wu (m : Frames) (hist : List Frame) (h : WUNonZero hist) :
    (hist.foldl capture m).wu = if m.wu = 0 then (hist.findSome? gW).getD 0 else m.wu := by
  induction hist generalizing m with
  | nil => simp
  | cons f r ih =>
    have hr : WUNonZero r := fun s inc hm => h s inc (List.mem_cons_of_mem _ hm)
    simp only [List.foldl_cons, ih _ hr, List.findSome?_cons]
    cases f with
    | settings ack ss => cases ack <;> simp [capture, gW] <;> (by_cases hm : m.wu = 0 <;> simp [hm])
    | windowUpdate s i =>
      have hi : i ≠ 0 := h s i (List.mem_cons_self ..)
      simp only [capture, gW]
      by_cases hm : m.wu = 0 <;> simp [hm, hi]
    | priority p => simp [capture, gW] <;> (by_cases hm : m.wu = 0 <;> simp [hm])
    | headers s p n => cases p <;> simp [capture, gW] <;> (by_cases hm : m.wu = 0 <;> simp [hm])
    | other => simp [capture, gW] <;> (by_cases hm : m.wu = 0 <;> simp [hm])

/-! ### rendering -/

theorem settingsPart_eq (ss : List (Nat × Nat)) : settingsPart ss = join [59] (ss.map renderSetting) := by
  cases ss with
  | nil => rfl
  | cons s r =>
    simp only [settingsPart, List.map_cons]
    induction r generalizing s with
    | nil => simp [join, renderSetting]
    | cons t r ih =>
      rw [join_cons_ne _ (by simp)]
      simp only [List.flatMap_cons, List.map_cons]
      rw [← ih t]
      simp [renderSetting, List.append_assoc]

theorem prioEntry_eq (p : Prio) : prioEntry p = renderPrio p := by
  unfold prioEntry renderPrio; cases p.excl <;> simp [List.append_assoc]

theorem prioPart_eq (ps : List Prio) : prioPart ps = join [44] (ps.map renderPrio) := by
  cases ps with
  | nil => rfl
  | cons s r =>
    simp only [prioPart, List.map_cons]
    induction r generalizing s with
    | nil => simp [join, prioEntry_eq]
    | cons t r ih =>
      rw [join_cons_ne _ (by simp)]
      simp only [List.flatMap_cons, List.map_cons]
      rw [← ih t]
      simp [prioEntry_eq, List.append_assoc]

theorem isPseudo_cons2 (c0 c1 : UInt8) (t : Bytes) : isPseudo (c0 :: c1 :: t) = (c0 == 58) := by
  simp [isPseudo]

theorem pseudoLoop_true (names : List Bytes) :
    pseudoLoop true names = (pseudoLetters names).flatMap (fun l => [44] ++ l) := by
  induction names with
  | nil => simp [pseudoLoop, pseudoLetters]
  | cons n r ih =>
    unfold pseudoLoop
    match n with
    | [] => simp [ih, pseudoLetters, isPseudo]
    | [a] => simp [ih, pseudoLetters, isPseudo]
    | c0 :: c1 :: t =>
      simp only
      by_cases h : c0 = 58
      · simp [h, ih, pseudoLetters, isPseudo]
      · simp [h, ih, pseudoLetters, isPseudo]

theorem join44_cons (l : Bytes) (r : List Bytes) :
    join [44] (l :: r) = l ++ r.flatMap (fun l => [44] ++ l) := by
  induction r generalizing l with
  | nil => simp [join]
  | cons t r ih => rw [join_cons_ne _ (by simp), ih t]; simp [List.append_assoc]

theorem pseudoLoop_false (names : List Bytes) : pseudoLoop false names = join [44] (pseudoLetters names) := by
  induction names with
  | nil => simp [pseudoLoop, pseudoLetters, join]
  | cons n r ih =>
    unfold pseudoLoop
    match n with
    | [] => simpa [pseudoLetters, isPseudo] using ih
    | [a] => simpa [pseudoLetters, isPseudo] using ih
    | c0 :: c1 :: t =>
      simp only
      by_cases h : c0 = 58
      · have : pseudoLetters ((c0 :: c1 :: t) :: r) = [c1] :: pseudoLetters r := by
          simp [pseudoLetters, isPseudo, h]
        rw [this, join44_cons, pseudoLoop_true]; simp [h]
      · have : pseudoLetters ((c0 :: c1 :: t) :: r) = pseudoLetters r := by
          simp [pseudoLetters, isPseudo, h]
        rw [this]; simpa [h] using ih

end Fp.H2Fp
