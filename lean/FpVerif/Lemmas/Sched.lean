import FpVerif.Model.Sched
set_option linter.unusedSimpArgs false
set_option linter.unusedVariables false
namespace Fp.Sched

/-! ### measures -/
def lenSum (qs : List (Nat × List Req)) : Nat := (qs.map (fun e => e.2.length)).sum
def byteSum (q : List Req) : Nat := (q.map (·.size)).sum
def bytesSum (qs : List (Nat × List Req)) : Nat := (qs.map (fun e => byteSum e.2)).sum

/-- frames / DATA bytes held by the scheduler -/
def qFrames (s : St) : Nat := s.control.length + lenSum s.queues
def qBytes (s : St) : Nat := byteSum s.control + bytesSum s.queues

/-- stream ids of the ring are pairwise different (OpenStream panics on a duplicate) -/
def KeysNodup (qs : List (Nat × List Req)) : Prop := (qs.map (·.1)).Nodup

theorem lenSum_append (a b : List (Nat × List Req)) : lenSum (a ++ b) = lenSum a + lenSum b := by
  simp [lenSum]
theorem bytesSum_append (a b : List (Nat × List Req)) : bytesSum (a ++ b) = bytesSum a + bytesSum b := by
  simp [bytesSum]

theorem lenSum_rotate (l : List (Nat × List Req)) (k : Nat) : lenSum (rotate l k) = lenSum l := by
  unfold rotate
  rw [lenSum_append, Nat.add_comm, ← lenSum_append, List.take_append_drop]
theorem bytesSum_rotate (l : List (Nat × List Req)) (k : Nat) : bytesSum (rotate l k) = bytesSum l := by
  unfold rotate
  rw [bytesSum_append, Nat.add_comm, ← bytesSum_append, List.take_append_drop]

/-- replacing the queue of the (unique) entry `sid` -/
theorem lenSum_set (qs : List (Nat × List Req)) (sid : Nat) (q q' : List Req) (hn : KeysNodup qs)
    (hm : (sid, q) ∈ qs) :
    lenSum (qs.map fun e => if e.1 == sid then (sid, q') else e) + q.length = lenSum qs + q'.length := by
  induction qs with
  | nil => cases hm
  | cons e r ih =>
    have hn' : KeysNodup r := (List.nodup_cons.mp hn).2
    have hnot : e.1 ∉ r.map (·.1) := (List.nodup_cons.mp hn).1
    rcases List.mem_cons.mp hm with h | h
    · subst h
      have hr : (r.map fun e => if e.1 == sid then (sid, q') else e) = r := by
        have h0 := List.map_congr_left (l := r) (f := fun e => if e.1 == sid then (sid, q') else e) (g := id)
          (fun x hx => by
            have hmem : x.1 ∈ r.map (·.1) := List.mem_map_of_mem (f := (·.1)) hx
            have : x.1 ≠ sid := fun hh => hnot (by simpa [hh] using hmem)
            simp [this])
        simpa using h0
      simp only [List.map_cons, beq_self_eq_true, if_true, hr, lenSum, List.sum_cons]
      omega
    · have hne : e.1 ≠ sid := fun hh => hnot (hh ▸ List.mem_map_of_mem (f := (·.1)) h)
      have := ih hn' h
      simp only [List.map_cons, lenSum, List.sum_cons, beq_iff_eq, hne, if_false] at this ⊢
      omega

theorem bytesSum_set (qs : List (Nat × List Req)) (sid : Nat) (q q' : List Req) (hn : KeysNodup qs)
    (hm : (sid, q) ∈ qs) :
    bytesSum (qs.map fun e => if e.1 == sid then (sid, q') else e) + byteSum q = bytesSum qs + byteSum q' := by
  induction qs with
  | nil => cases hm
  | cons e r ih =>
    have hn' : KeysNodup r := (List.nodup_cons.mp hn).2
    have hnot : e.1 ∉ r.map (·.1) := (List.nodup_cons.mp hn).1
    rcases List.mem_cons.mp hm with h | h
    · subst h
      have hr : (r.map fun e => if e.1 == sid then (sid, q') else e) = r := by
        have h0 := List.map_congr_left (l := r) (f := fun e => if e.1 == sid then (sid, q') else e) (g := id)
          (fun x hx => by
            have hmem : x.1 ∈ r.map (·.1) := List.mem_map_of_mem (f := (·.1)) hx
            have : x.1 ≠ sid := fun hh => hnot (by simpa [hh] using hmem)
            simp [this])
        simpa using h0
      simp only [List.map_cons, beq_self_eq_true, if_true, hr, bytesSum, List.sum_cons]
      omega
    · have hne : e.1 ≠ sid := fun hh => hnot (hh ▸ List.mem_map_of_mem (f := (·.1)) h)
      have := ih hn' h
      simp only [List.map_cons, bytesSum, List.sum_cons, beq_iff_eq, hne, if_false] at this ⊢
      omega

theorem keys_set (qs : List (Nat × List Req)) (sid : Nat) (q' : List Req) :
    (qs.map fun e => if e.1 == sid then (sid, q') else e).map (·.1) = qs.map (·.1) := by
  induction qs with
  | nil => rfl
  | cons e r ih =>
    simp only [List.map_cons, ih]
    by_cases h : e.1 = sid <;> simp [h]

theorem queueOf_mem {s : St} {sid : Nat} {q : List Req} (h : queueOf s sid = some q) : (sid, q) ∈ s.queues := by
  unfold queueOf at h
  cases hf : s.queues.find? (fun e => e.1 == sid) with
  | none => simp [hf] at h
  | some e =>
    simp [hf] at h
    have h1 := List.mem_of_find?_eq_some hf
    have h2 := List.find?_some hf
    simp at h2
    cases e with
    | mk a b => simp at h h2; subst h h2; exact h1

end Fp.Sched

namespace Fp.Sched

theorem lenSum_remove (qs : List (Nat × List Req)) (sid : Nat) (hn : KeysNodup qs) :
    lenSum (qs.filter fun e => !(e.1 == sid)) + (((qs.find? (·.1 == sid)).map (·.2.length)).getD 0) = lenSum qs := by
  induction qs with
  | nil => rfl
  | cons e r ih =>
    have hn' : KeysNodup r := (List.nodup_cons.mp hn).2
    have hnot : e.1 ∉ r.map (·.1) := (List.nodup_cons.mp hn).1
    by_cases h : e.1 = sid
    · have hr : r.filter (fun e => !(e.1 == sid)) = r := by
        apply List.filter_eq_self.mpr
        intro x hx
        have hmem : x.1 ∈ r.map (·.1) := List.mem_map_of_mem (f := (·.1)) hx
        have : x.1 ≠ sid := fun hh => hnot (by rw [h]; simpa [hh] using hmem)
        simp [this]
      simp [List.filter_cons, h, hr, lenSum, List.find?_cons]; omega
    · have := ih hn'
      have hb : (e.1 == sid) = false := by simp [h]
      simp only [List.filter_cons, hb, Bool.not_false, if_true, lenSum, List.map_cons, List.sum_cons, List.find?_cons] at this ⊢
      omega

theorem bytesSum_remove (qs : List (Nat × List Req)) (sid : Nat) (hn : KeysNodup qs) :
    bytesSum (qs.filter fun e => !(e.1 == sid)) + (((qs.find? (·.1 == sid)).map (fun e => byteSum e.2)).getD 0) = bytesSum qs := by
  induction qs with
  | nil => rfl
  | cons e r ih =>
    have hn' : KeysNodup r := (List.nodup_cons.mp hn).2
    have hnot : e.1 ∉ r.map (·.1) := (List.nodup_cons.mp hn).1
    by_cases h : e.1 = sid
    · have hr : r.filter (fun e => !(e.1 == sid)) = r := by
        apply List.filter_eq_self.mpr
        intro x hx
        have hmem : x.1 ∈ r.map (·.1) := List.mem_map_of_mem (f := (·.1)) hx
        have : x.1 ≠ sid := fun hh => hnot (by rw [h]; simpa [hh] using hmem)
        simp [this]
      simp [List.filter_cons, h, hr, bytesSum, List.find?_cons]; omega
    · have := ih hn'
      have hb : (e.1 == sid) = false := by simp [h]
      simp only [List.filter_cons, hb, Bool.not_false, if_true, bytesSum, List.map_cons, List.sum_cons, List.find?_cons] at this ⊢
      omega

theorem keys_filter_nodup (qs : List (Nat × List Req)) (p : Nat × List Req → Bool) (hn : KeysNodup qs) :
    KeysNodup (qs.filter p) := by
  unfold KeysNodup at *
  exact hn.sublist ((List.filter_sublist).map _)

theorem keys_rotate_nodup (qs : List (Nat × List Req)) (k : Nat) (hn : KeysNodup qs) : KeysNodup (rotate qs k) := by
  unfold KeysNodup rotate at *
  rw [List.map_append]
  have hp : (List.map (·.1) (qs.drop k) ++ List.map (·.1) (qs.take k)).Perm (qs.map (·.1)) := by
    rw [← List.map_append]
    exact (List.perm_append_comm.trans (by rw [List.take_append_drop])).map _
  exact hp.symm.nodup_iff.mp hn |> fun h => by simpa using (hp.nodup_iff.mpr hn)

end Fp.Sched
