/-
Helper lemmas for HPACK fragment independence (C18): a representation that parses (or is rejected) does so whatever
follows it; how many bytes a representation can consume / leave pending; the Write loop with more fuel, with an
accumulator, and on a concatenation.
-/
import FpVerif.Properties.C18
set_option linter.unusedSimpArgs false
set_option linter.unusedVariables false
namespace Fp.C18
open Fp Fp.Hpack

/-! ### prefix stability: a representation that parses (or is rejected) does so whatever follows -/

theorem cont_ok_append (x : Bytes) : ∀ (p : Bytes) (acc m v : Nat) (rest : Bytes),
    readVarIntCont acc m p = .ok v rest → readVarIntCont acc m (p ++ x) = .ok v (rest ++ x) := by
  intro p
  induction p with
  | nil => intro acc m v rest h; simp [readVarIntCont] at h
  | cons b r ih =>
    intro acc m v rest h
    simp only [readVarIntCont, List.cons_append] at h ⊢
    by_cases h1 : b.toNat < 128
    · simp only [h1, if_true] at h ⊢
      cases h; rfl
    · simp only [h1, if_false] at h ⊢
      by_cases h2 : m + 7 ≥ 63
      · simp only [h2, if_true] at h; cases h
      · simp only [h2, if_false] at h ⊢
        exact ih _ _ _ _ h

theorem cont_overflow_append (x : Bytes) : ∀ (p : Bytes) (acc m : Nat),
    readVarIntCont acc m p = .overflow → readVarIntCont acc m (p ++ x) = .overflow := by
  intro p
  induction p with
  | nil => intro acc m h; simp [readVarIntCont] at h
  | cons b r ih =>
    intro acc m h
    simp only [readVarIntCont, List.cons_append] at h ⊢
    by_cases h1 : b.toNat < 128
    · simp only [h1, if_true] at h; cases h
    · simp only [h1, if_false] at h ⊢
      by_cases h2 : m + 7 ≥ 63
      · simp only [h2, if_true]
      · simp only [h2, if_false] at h ⊢
        exact ih _ _ h

theorem varint_ok_append (n : Nat) (p x : Bytes) (v : Nat) (rest : Bytes) (h : readVarInt n p = .ok v rest) :
    readVarInt n (p ++ x) = .ok v (rest ++ x) := by
  cases p with
  | nil => simp [readVarInt] at h
  | cons b r =>
    simp only [readVarInt, List.cons_append] at h ⊢
    by_cases h1 : b.toNat % 2 ^ n < 2 ^ n - 1
    · simp only [h1, if_true] at h ⊢; cases h; rfl
    · simp only [h1, if_false] at h ⊢
      exact cont_ok_append x _ _ _ _ _ h

theorem varint_overflow_append (n : Nat) (p x : Bytes) (h : readVarInt n p = .overflow) :
    readVarInt n (p ++ x) = .overflow := by
  cases p with
  | nil => simp [readVarInt] at h
  | cons b r =>
    simp only [readVarInt, List.cons_append] at h ⊢
    by_cases h1 : b.toNat % 2 ^ n < 2 ^ n - 1
    · simp only [h1, if_true] at h; cases h
    · simp only [h1, if_false] at h ⊢
      exact cont_overflow_append x _ _ _ h

theorem readString_ok_append (mx : Nat) (p x : Bytes) (u : RawStr) (rest : Bytes) (h : readString mx p = .ok (u, rest)) :
    readString mx (p ++ x) = .ok (u, rest ++ x) := by
  cases p with
  | nil => simp [readString] at h
  | cons b0 r =>
    simp only [readString, List.cons_append] at h ⊢
    cases hv : readVarInt 7 (b0 :: r) with
    | needMore => rw [hv] at h; cases h
    | overflow => rw [hv] at h; cases h
    | ok len rest' =>
      rw [hv] at h
      have := varint_ok_append 7 (b0 :: r) x len rest' hv
      simp only [List.cons_append] at this
      rw [this]
      simp only at h ⊢
      by_cases h1 : mx ≠ 0 ∧ len > mx
      · rw [if_pos h1] at h; cases h
      · rw [if_neg h1] at h ⊢
        by_cases h2 : rest'.length < len
        · rw [if_pos h2] at h; cases h
        · have h3 : ¬ (rest' ++ x).length < len := by rw [List.length_append]; omega
          rw [if_neg h2] at h
          rw [if_neg h3]
          cases h
          have hle : len ≤ rest'.length := by omega
          rw [List.take_append_of_le_length hle, List.drop_append_of_le_length hle]

theorem readString_err_append (mx : Nat) (p x : Bytes) (e : DErr) (h : readString mx p = .err e) :
    readString mx (p ++ x) = .err e := by
  cases p with
  | nil => simp [readString] at h
  | cons b0 r =>
    simp only [readString, List.cons_append] at h ⊢
    cases hv : readVarInt 7 (b0 :: r) with
    | needMore => rw [hv] at h; cases h
    | overflow =>
      rw [hv] at h
      have := varint_overflow_append 7 (b0 :: r) x hv
      simp only [List.cons_append] at this
      rw [this]; exact h
    | ok len rest' =>
      rw [hv] at h
      have := varint_ok_append 7 (b0 :: r) x len rest' hv
      simp only [List.cons_append] at this
      rw [this]
      simp only at h ⊢
      by_cases h1 : mx ≠ 0 ∧ len > mx
      · rw [if_pos h1] at h ⊢; exact h
      · rw [if_neg h1] at h
        by_cases h2 : rest'.length < len
        · rw [if_pos h2] at h; cases h
        · rw [if_neg h2] at h; cases h

theorem parseLiteral_append (d : Dec) (n : Nat) (indexed sensitive : Bool) (buf x : Bytes) :
    (∀ d' f rest, parseLiteral d n indexed sensitive buf = .ok (d', f, rest) →
        parseLiteral d n indexed sensitive (buf ++ x) = .ok (d', f, rest ++ x)) ∧
    (∀ e, parseLiteral d n indexed sensitive buf = .err e → parseLiteral d n indexed sensitive (buf ++ x) = .err e) := by
  unfold parseLiteral
  cases hv : readVarInt n buf with
  | needMore => refine ⟨?_, ?_⟩ <;> intros <;> simp_all
  | overflow =>
    rw [varint_overflow_append n buf x hv]
    refine ⟨?_, ?_⟩ <;> intros <;> simp_all
  | ok nameIdx b1 =>
    rw [varint_ok_append n buf x nameIdx b1 hv]
    simp only
    by_cases hpos : nameIdx > 0
    · simp only [hpos, if_true]
      cases ht : tableAt d.tab nameIdx with
      | none => refine ⟨?_, ?_⟩ <;> intros <;> simp_all
      | some g =>
        simp only
        cases hs : readString d.maxStrLen b1 with
        | needMore => refine ⟨?_, ?_⟩ <;> intros <;> simp_all
        | err e0 =>
          rw [readString_err_append _ _ x _ hs]
          refine ⟨?_, ?_⟩ <;> intros <;> simp_all
        | ok ur =>
          obtain ⟨u, r2⟩ := ur
          rw [readString_ok_append _ _ x _ _ hs]
          simp only
          cases hd : decodeString d.maxStrLen u with
          | error e1 => refine ⟨?_, ?_⟩ <;> intros <;> simp_all
          | ok value =>
            simp only
            split
            · refine ⟨?_, ?_⟩ <;> intros <;> simp_all
            · refine ⟨?_, ?_⟩ <;> intros <;> simp_all
    · simp only [hpos, if_false]
      cases hs1 : readString d.maxStrLen b1 with
      | needMore => refine ⟨?_, ?_⟩ <;> intros <;> simp_all
      | err e0 =>
        rw [readString_err_append _ _ x _ hs1]
        refine ⟨?_, ?_⟩ <;> intros <;> simp_all
      | ok ur =>
        obtain ⟨u1, r1⟩ := ur
        rw [readString_ok_append _ _ x _ _ hs1]
        simp only
        cases hs : readString d.maxStrLen r1 with
        | needMore => refine ⟨?_, ?_⟩ <;> intros <;> simp_all
        | err e0 =>
          rw [readString_err_append _ _ x _ hs]
          refine ⟨?_, ?_⟩ <;> intros <;> simp_all
        | ok ur2 =>
          obtain ⟨u, r2⟩ := ur2
          rw [readString_ok_append _ _ x _ _ hs]
          simp only
          cases hn : decodeString d.maxStrLen u1 with
          | error e1 => refine ⟨?_, ?_⟩ <;> intros <;> simp_all
          | ok name =>
            simp only
            cases hd : decodeString d.maxStrLen u with
            | error e1 => refine ⟨?_, ?_⟩ <;> intros <;> simp_all
            | ok value =>
              simp only
              split
              · refine ⟨?_, ?_⟩ <;> intros <;> simp_all
              · refine ⟨?_, ?_⟩ <;> intros <;> simp_all

theorem parseRepr_append (d : Dec) (buf x : Bytes) :
    (∀ d' f rest, parseRepr d buf = .ok (d', f, rest) → parseRepr d (buf ++ x) = .ok (d', f, rest ++ x)) ∧
    (∀ e, parseRepr d buf = .err e → parseRepr d (buf ++ x) = .err e) := by
  cases buf with
  | nil => refine ⟨?_, ?_⟩ <;> intros <;> simp_all [parseRepr]
  | cons b r =>
    unfold parseRepr
    simp only [List.cons_append]
    by_cases h1 : b.toNat ≥ 128
    · simp only [h1, if_true]
      cases hv : readVarInt 7 (b :: r) with
      | needMore => refine ⟨?_, ?_⟩ <;> intros <;> simp_all
      | overflow =>
        have := varint_overflow_append 7 (b :: r) x hv
        simp only [List.cons_append] at this
        rw [this]
        refine ⟨?_, ?_⟩ <;> intros <;> simp_all
      | ok idx rest0 =>
        have := varint_ok_append 7 (b :: r) x idx rest0 hv
        simp only [List.cons_append] at this
        rw [this]
        simp only
        cases ht : tableAt d.tab idx with
        | none => refine ⟨?_, ?_⟩ <;> intros <;> simp_all
        | some g =>
          simp only
          split
          · refine ⟨?_, ?_⟩ <;> intros <;> simp_all
          · refine ⟨?_, ?_⟩ <;> intros <;> simp_all
    · simp only [h1, if_false]
      by_cases h2 : b.toNat / 64 = 1
      · simp only [h2, if_true]
        have := parseLiteral_append d 6 true false (b :: r) x
        simpa only [List.cons_append] using this
      · simp only [h2, if_false]
        by_cases h3 : b.toNat / 16 = 0
        · simp only [h3, if_true]
          have := parseLiteral_append d 4 false false (b :: r) x
          simpa only [List.cons_append] using this
        · simp only [h3, if_false]
          by_cases h4 : b.toNat / 16 = 1
          · simp only [h4, if_true]
            have := parseLiteral_append d 4 false true (b :: r) x
            simpa only [List.cons_append] using this
          · simp only [h4, if_false]
            by_cases h5 : (!d.firstField ∧ d.tab.size > 0)
            · simp only [h5, if_true]
              refine ⟨?_, ?_⟩ <;> intros <;> simp_all
            · simp only [h5, if_false]
              cases hv : readVarInt 5 (b :: r) with
              | needMore => refine ⟨?_, ?_⟩ <;> intros <;> simp_all
              | overflow =>
                have := varint_overflow_append 5 (b :: r) x hv
                simp only [List.cons_append] at this
                rw [this]
                refine ⟨?_, ?_⟩ <;> intros <;> simp_all
              | ok size rest0 =>
                have := varint_ok_append 5 (b :: r) x size rest0 hv
                simp only [List.cons_append] at this
                rw [this]
                simp only
                split
                · refine ⟨?_, ?_⟩ <;> intros <;> simp_all
                · refine ⟨?_, ?_⟩ <;> intros <;> simp_all

/-! ### how much a representation consumes -/

theorem cont_consumes : ∀ (p : Bytes) (acc m : Nat), (m % 7 = 0 ∧ m ≤ 56) →
    (∀ v rest, readVarIntCont acc m p = .ok v rest → rest.length < p.length ∧ 7 * (p.length - rest.length) + m ≤ 63) ∧
    (readVarIntCont acc m p = .needMore → 7 * p.length + m < 63 + 7) := by
  intro p
  induction p with
  | nil => intro acc m hm; simp [readVarIntCont]; omega
  | cons b r ih =>
    intro acc m hm
    simp only [readVarIntCont, List.length_cons]
    by_cases h1 : b.toNat < 128
    · simp only [h1, if_true]
      refine ⟨?_, ?_⟩
      · intro v rest h; cases h; omega
      · intro h; cases h
    · simp only [h1, if_false]
      by_cases h2 : m + 7 ≥ 63
      · simp only [h2, if_true]
        refine ⟨?_, ?_⟩ <;> intros <;> simp_all
      · simp only [h2, if_false]
        have := ih (acc + b.toNat % 128 * 2 ^ m) (m + 7) (by omega)
        refine ⟨?_, ?_⟩
        · intro v rest h
          have := this.1 v rest h
          omega
        · intro h
          have := this.2 h
          omega

theorem varint_consumes (n : Nat) (p : Bytes) :
    (∀ v rest, readVarInt n p = .ok v rest → rest.length < p.length ∧ p.length - rest.length ≤ 10) ∧
    (readVarInt n p = .needMore → p.length ≤ 10) := by
  cases p with
  | nil => simp [readVarInt]
  | cons b r =>
    simp only [readVarInt, List.length_cons]
    by_cases h1 : b.toNat % 2 ^ n < 2 ^ n - 1
    · simp only [h1, if_true]
      refine ⟨?_, ?_⟩
      · intro v rest h; cases h; omega
      · intro h; cases h
    · simp only [h1, if_false]
      have := cont_consumes r (b.toNat % 2 ^ n) 0 (by omega)
      refine ⟨?_, ?_⟩
      · intro v rest h
        have := this.1 v rest h
        omega
      · intro h
        have := this.2 h
        omega

theorem readString_consumes (mx : Nat) (p : Bytes) :
    (∀ u rest, readString mx p = .ok (u, rest) → rest.length < p.length ∧ (mx ≠ 0 → p.length - rest.length ≤ 10 + mx)) ∧
    (readString mx p = .needMore → mx ≠ 0 → p.length ≤ 10 + mx) := by
  cases p with
  | nil => simp [readString]
  | cons b0 r =>
    simp only [readString]
    have hv := varint_consumes 7 (b0 :: r)
    cases hr : readVarInt 7 (b0 :: r) with
    | needMore =>
      refine ⟨?_, ?_⟩
      · intro _ _ h; cases h
      · intro _ _; have := hv.2 hr; omega
    | overflow => refine ⟨?_, ?_⟩ <;> intros <;> simp_all
    | ok len rest' =>
      have h1 := hv.1 len rest' hr
      simp only
      by_cases hc : mx ≠ 0 ∧ len > mx
      · rw [if_pos hc]
        refine ⟨?_, ?_⟩ <;> intros <;> simp_all
      · rw [if_neg hc]
        by_cases h2 : rest'.length < len
        · rw [if_pos h2]
          refine ⟨?_, ?_⟩
          · intro _ _ h; cases h
          · intro _ hm
            have : len ≤ mx := by
              by_cases hl : len > mx
              · exact absurd ⟨hm, hl⟩ hc
              · omega
            omega
        · rw [if_neg h2]
          refine ⟨?_, ?_⟩
          · intro u rest h
            cases h
            simp only [List.length_drop]
            refine ⟨by omega, ?_⟩
            intro hm
            have : len ≤ mx := by
              by_cases hl : len > mx
              · exact absurd ⟨hm, hl⟩ hc
              · omega
            omega
          · intro h; cases h

theorem parseLiteral_consumes (d : Dec) (n : Nat) (indexed sensitive : Bool) (buf : Bytes) :
    (∀ d' f rest, parseLiteral d n indexed sensitive buf = .ok (d', f, rest) → rest.length < buf.length ∧ d'.saveBuf = d.saveBuf) ∧
    (parseLiteral d n indexed sensitive buf = .needMore → d.maxStrLen ≠ 0 → buf.length ≤ 2 * d.maxStrLen + 30) := by
  unfold parseLiteral
  have hv := varint_consumes n buf
  cases hr : readVarInt n buf with
  | needMore =>
    refine ⟨?_, ?_⟩
    · intro _ _ _ h; cases h
    · intro _ _; have := hv.2 hr; omega
  | overflow => refine ⟨?_, ?_⟩ <;> intros <;> simp_all
  | ok nameIdx b1 =>
    have h1 := hv.1 nameIdx b1 hr
    simp only
    by_cases hpos : nameIdx > 0
    · simp only [hpos, if_true]
      cases ht : tableAt d.tab nameIdx with
      | none => refine ⟨?_, ?_⟩ <;> intros <;> simp_all
      | some g =>
        simp only
        have hs1 := readString_consumes d.maxStrLen b1
        cases hs : readString d.maxStrLen b1 with
        | needMore =>
          refine ⟨?_, ?_⟩
          · intro _ _ _ h; cases h
          · intro _ hm; have := hs1.2 hs hm; omega
        | err e0 => refine ⟨?_, ?_⟩ <;> intros <;> simp_all
        | ok ur =>
          obtain ⟨u, r2⟩ := ur
          have h2 := (hs1.1 u r2 hs).1
          simp only
          cases hd : decodeString d.maxStrLen u with
          | error e1 => refine ⟨?_, ?_⟩ <;> intros <;> simp_all
          | ok value =>
            simp only
            split
            · refine ⟨?_, ?_⟩ <;> intros <;> simp_all
            · refine ⟨?_, ?_⟩
              · intro d' f rest h; cases h; exact ⟨by omega, by first | rfl | (split <;> rfl)⟩
              · intro h; cases h
    · simp only [hpos, if_false]
      have hs1 := readString_consumes d.maxStrLen b1
      cases hsa : readString d.maxStrLen b1 with
      | needMore =>
        refine ⟨?_, ?_⟩
        · intro _ _ _ h; cases h
        · intro _ hm; have := hs1.2 hsa hm; omega
      | err e0 => refine ⟨?_, ?_⟩ <;> intros <;> simp_all
      | ok ur =>
        obtain ⟨u1, r1⟩ := ur
        have h2 := hs1.1 u1 r1 hsa
        simp only
        have hs2 := readString_consumes d.maxStrLen r1
        cases hs : readString d.maxStrLen r1 with
        | needMore =>
          refine ⟨?_, ?_⟩
          · intro _ _ _ h; cases h
          · intro _ hm
            have := hs2.2 hs hm
            have := h2.2 hm
            omega
        | err e0 => refine ⟨?_, ?_⟩ <;> intros <;> simp_all
        | ok ur2 =>
          obtain ⟨u, r2⟩ := ur2
          have h3 := (hs2.1 u r2 hs).1
          simp only
          cases hn : decodeString d.maxStrLen u1 with
          | error e1 => refine ⟨?_, ?_⟩ <;> intros <;> simp_all
          | ok name =>
            simp only
            cases hd : decodeString d.maxStrLen u with
            | error e1 => refine ⟨?_, ?_⟩ <;> intros <;> simp_all
            | ok value =>
              simp only
              split
              · refine ⟨?_, ?_⟩ <;> intros <;> simp_all
              · refine ⟨?_, ?_⟩
                · intro d' f rest h; cases h; exact ⟨by omega, by first | rfl | (split <;> rfl)⟩
                · intro h; cases h

theorem parseRepr_consumes (d : Dec) (buf : Bytes) :
    (∀ d' f rest, parseRepr d buf = .ok (d', f, rest) → rest.length < buf.length ∧ d'.saveBuf = d.saveBuf) ∧
    (parseRepr d buf = .needMore → d.maxStrLen ≠ 0 → buf.length ≤ 2 * d.maxStrLen + 30) := by
  cases buf with
  | nil => refine ⟨?_, ?_⟩ <;> intros <;> simp_all [parseRepr]
  | cons b r =>
    unfold parseRepr
    by_cases h1 : b.toNat ≥ 128
    · simp only [h1, if_true]
      have hv := varint_consumes 7 (b :: r)
      cases hr : readVarInt 7 (b :: r) with
      | needMore =>
        refine ⟨?_, ?_⟩
        · intro _ _ _ h; cases h
        · intro _ _; have := hv.2 hr; omega
      | overflow => refine ⟨?_, ?_⟩ <;> intros <;> simp_all
      | ok idx rest0 =>
        have h2 := hv.1 idx rest0 hr
        simp only
        cases ht : tableAt d.tab idx with
        | none => refine ⟨?_, ?_⟩ <;> intros <;> simp_all
        | some g =>
          simp only
          split
          · refine ⟨?_, ?_⟩ <;> intros <;> simp_all
          · refine ⟨?_, ?_⟩
            · intro d' f rest h; cases h; exact ⟨by omega, by first | rfl | (split <;> rfl)⟩
            · intro h; cases h
    · simp only [h1, if_false]
      by_cases h2 : b.toNat / 64 = 1
      · simp only [h2, if_true]; exact parseLiteral_consumes d 6 true false (b :: r)
      · simp only [h2, if_false]
        by_cases h3 : b.toNat / 16 = 0
        · simp only [h3, if_true]; exact parseLiteral_consumes d 4 false false (b :: r)
        · simp only [h3, if_false]
          by_cases h4 : b.toNat / 16 = 1
          · simp only [h4, if_true]; exact parseLiteral_consumes d 4 false true (b :: r)
          · simp only [h4, if_false]
            by_cases h5 : (!d.firstField ∧ d.tab.size > 0)
            · simp only [h5, if_true]
              refine ⟨?_, ?_⟩ <;> intros <;> simp_all
            · simp only [h5, if_false]
              have hv := varint_consumes 5 (b :: r)
              cases hr : readVarInt 5 (b :: r) with
              | needMore =>
                refine ⟨?_, ?_⟩
                · intro _ _ _ h; cases h
                · intro _ _; have := hv.2 hr; omega
              | overflow => refine ⟨?_, ?_⟩ <;> intros <;> simp_all
              | ok size rest0 =>
                have h6 := hv.1 size rest0 hr
                simp only
                split
                · refine ⟨?_, ?_⟩ <;> intros <;> simp_all
                · refine ⟨?_, ?_⟩
                  · intro d' f rest h; cases h; exact ⟨by omega, by first | rfl | (split <;> rfl)⟩
                  · intro h; cases h

/-! ### the Write loop -/

/-- with enough fuel for the buffer, the amount of fuel does not matter -/
theorem loop_fuel (ov : Nat) : ∀ (n : Nat) (buf : Bytes), buf.length ≤ n → ∀ (d : Dec) (acc : List Field) (f1 f2 : Nat),
    buf.length < f1 → buf.length < f2 → writeLoop ov f1 d buf acc = writeLoop ov f2 d buf acc := by
  intro n
  induction n with
  | zero =>
    intro buf hb d acc f1 f2 h1 h2
    have : buf = [] := List.eq_nil_of_length_eq_zero (by omega)
    subst this
    cases f1 <;> cases f2 <;> simp [writeLoop] at * 
  | succ n ih =>
    intro buf hb d acc f1 f2 h1 h2
    cases f1 with
    | zero => omega
    | succ k1 =>
      cases f2 with
      | zero => omega
      | succ k2 =>
        simp only [writeLoop]
        by_cases he : buf.isEmpty = true
        · simp only [he, if_true]
        · simp only [he, Bool.false_eq_true, if_false]
          cases hp : parseRepr d buf with
          | needMore => rfl
          | err e => rfl
          | ok res =>
            obtain ⟨d', f, rest⟩ := res
            have hc := ((parseRepr_consumes d buf).1 d' f rest hp).1
            simp only
            exact ih rest (by omega) _ _ k1 k2 (by omega) (by omega)

/-- SPLIT: running the loop on `buf ++ x` is running it on `buf` and, unless that ended in an error, resuming with
whatever was held back followed by `x` -/
theorem loop_split (ov : Nat) (hov : 15 ≤ ov) : ∀ (n : Nat) (buf : Bytes), buf.length ≤ n →
    ∀ (d : Dec) (acc : List Field) (x : Bytes) (f1 f2 f3 : Nat), d.saveBuf = [] → buf.length < f1 → (buf ++ x).length < f2 →
      (∀ d1 acc1, writeLoop ov f1 d buf acc = (d1, acc1, none) → (d1.saveBuf ++ x).length < f3) →
      writeLoop ov f2 d (buf ++ x) acc =
        match writeLoop ov f1 d buf acc with
        | (d1, acc1, some e) => (d1, acc1, some e)
        | (d1, acc1, none) => writeLoop ov f3 { d1 with saveBuf := [] } (d1.saveBuf ++ x) acc1 := by
  intro n
  induction n with
  | zero =>
    intro buf hb d acc x f1 f2 f3 hs h1 h2 h3
    have : buf = [] := List.eq_nil_of_length_eq_zero (by omega)
    subst this
    cases f1 with
    | zero => omega
    | succ k1 =>
      have h3' := h3 d acc (by simp [writeLoop])
      simp only [writeLoop, List.isEmpty_nil, if_true, List.nil_append, hs] at h3' ⊢
      have hd : ({ d with saveBuf := [] } : Dec) = d := by cases d; simp_all
      rw [hd]
      exact loop_fuel ov x.length x (Nat.le_refl _) d acc f2 f3 (by simpa using h2) h3'
  | succ n ih =>
    intro buf hb d acc x f1 f2 f3 hs h1 h2 h3
    cases f1 with
    | zero => omega
    | succ k1 =>
      by_cases he : buf.isEmpty = true
      · have : buf = [] := by simpa using he
        subst this
        have h3' := h3 d acc (by simp [writeLoop])
        simp only [writeLoop, List.isEmpty_nil, if_true, List.nil_append, hs] at h3' ⊢
        have hd : ({ d with saveBuf := [] } : Dec) = d := by cases d; simp_all
        rw [hd]
        exact loop_fuel ov x.length x (Nat.le_refl _) d acc f2 f3 (by simpa using h2) h3'
      · have hne : (buf ++ x).isEmpty = false := by
          cases buf with
          | nil => simp at he
          | cons a r => rfl
        cases f2 with
        | zero => omega
        | succ k2 =>
          rw [writeLoop.eq_def ov (k1 + 1)] at h3 ⊢
          simp only [he, Bool.false_eq_true, if_false] at h3 ⊢
          cases hp : parseRepr d buf with
          | needMore =>
            rw [hp] at h3
            simp only at h3 ⊢
            have hshort : ¬ (d.maxStrLen ≠ 0 ∧ buf.length > 2 * (d.maxStrLen + ov)) := by
              intro ⟨hm, hl⟩
              have := (parseRepr_consumes d buf).2 hp hm
              omega
            rw [if_neg hshort] at h3 ⊢
            have h3' := h3 _ _ rfl
            simp only at h3' ⊢
            have hd : ({ d with saveBuf := [] } : Dec) = d := by cases d; simp_all
            rw [hd]
            exact loop_fuel ov (buf ++ x).length (buf ++ x) (Nat.le_refl _) d acc (k2 + 1) f3 h2 h3'
          | err e =>
            simp only
            rw [writeLoop.eq_def ov (k2 + 1)]
            simp only [hne, Bool.false_eq_true, if_false, (parseRepr_append d buf x).2 e hp]
          | ok res =>
            obtain ⟨d', f, rest⟩ := res
            have hc := (parseRepr_consumes d buf).1 d' f rest hp
            rw [hp] at h3
            simp only at h3 ⊢
            rw [writeLoop.eq_def ov (k2 + 1)]
            simp only [hne, Bool.false_eq_true, if_false, (parseRepr_append d buf x).1 d' f rest hp]
            obtain ⟨a0, r0, hbuf⟩ : ∃ a0 r0, buf = a0 :: r0 := by
              cases buf with
              | nil => simp at he
              | cons a r => exact ⟨a, r, rfl⟩
            subst hbuf
            simp only [List.cons_append] at h3 ⊢
            have hlen : (rest ++ x).length < k2 := by
              simp only [List.length_append, List.length_cons] at h2 hc ⊢; omega
            apply ih rest (by simp only [List.length_cons] at hb hc; omega) _ _ x k1 k2 f3 _ (by simp only [List.length_cons] at h1 hc; omega) hlen h3
            split
            · exact hc.2.trans hs
            · simp only; exact hc.2.trans hs

theorem loop_acc (ov : Nat) : ∀ (fuel : Nat) (d : Dec) (buf : Bytes) (acc : List Field),
    writeLoop ov fuel d buf acc =
      ((writeLoop ov fuel d buf []).1, acc ++ (writeLoop ov fuel d buf []).2.1, (writeLoop ov fuel d buf []).2.2) := by
  intro fuel
  induction fuel with
  | zero => intro d buf acc; simp [writeLoop]
  | succ k ih =>
    intro d buf acc
    simp only [writeLoop]
    by_cases he : buf.isEmpty = true
    · simp only [he, if_true, List.append_nil]
    · simp only [he, Bool.false_eq_true, if_false]
      cases hp : parseRepr d buf with
      | needMore => simp only; split <;> simp
      | err e => simp
      | ok res =>
        obtain ⟨d', f, rest⟩ := res
        cases f with
        | none => simp only; exact ih _ rest acc
        | some g =>
          simp only [List.nil_append]
          rw [ih _ rest (acc ++ [g]), ih _ rest [g]]
          simp

theorem loop_saveBuf_len (ov : Nat) : ∀ (fuel : Nat) (d : Dec) (buf : Bytes) (acc : List Field) (d1 : Dec) (acc1 : List Field)
    (e : Option DErr), d.saveBuf = [] → writeLoop ov fuel d buf acc = (d1, acc1, e) → d1.saveBuf.length ≤ buf.length := by
  intro fuel
  induction fuel with
  | zero => intro d buf acc d1 acc1 e hs h; simp [writeLoop] at h; rw [← h.1, hs]; simp
  | succ k ih =>
    intro d buf acc d1 acc1 e hs h
    simp only [writeLoop] at h
    by_cases he : buf.isEmpty = true
    · simp only [he, if_true] at h; cases h; rw [hs]; simp
    · simp only [he, Bool.false_eq_true, if_false] at h
      cases hp : parseRepr d buf with
      | needMore =>
        rw [hp] at h
        simp only at h
        split at h
        · cases h; rw [hs]; simp
        · cases h; simp
      | err e0 => rw [hp] at h; cases h; simp [hs]
      | ok res =>
        obtain ⟨d', f, rest⟩ := res
        rw [hp] at h
        simp only at h
        have hc := (parseRepr_consumes d buf).1 d' f rest hp
        have hsb : ∀ (c : Prop) [Decidable c], (if c then d' else { d' with firstField := false }).saveBuf = d'.saveBuf := by
          intro c _; split <;> rfl
        have := ih _ rest _ d1 acc1 e (by rw [hsb]; exact hc.2.trans hs) h
        omega

end Fp.C18
