/-
Lemmas for C20_Trace: the trace specification (Spec/SchedTrace.lean) accepts the round-robin model.
-/
import FpVerif.Lemmas.Sched
import FpVerif.Spec.SchedTrace
set_option linter.unusedSimpArgs false
set_option linter.unusedVariables false
namespace Fp.Sched

theorem find_setWin (l : List (Nat × Int)) (sid : Nat) (v : Int) (x : Nat) :
    (((l.filter (fun e => !(e.1 == sid)) ++ [(sid, v)]).find? (·.1 == x)).map (·.2)).getD 0
      = if x = sid then v else ((l.find? (·.1 == x)).map (·.2)).getD 0 := by
  induction l with
  | nil =>
    by_cases hx : x = sid
    · subst hx; simp
    · have : (sid == x) = false := by simp; exact fun h => hx h.symm
      simp [hx, this]
  | cons e l ih =>
    by_cases h1 : e.1 = sid
    · have : (e.1 == sid) = true := by simp [h1]
      simp only [List.filter_cons, this, Bool.not_true]
      rw [if_neg (by simp)]
      rw [ih]
      by_cases hx : x = sid
      · simp [hx]
      · have : (e.1 == x) = false := by simp [h1]; exact fun h => hx h.symm
        simp [hx, this]
    · have h1' : (e.1 == sid) = false := by simp [h1]
      simp only [List.filter_cons, h1', Bool.not_false, if_true, List.cons_append, List.find?_cons]
      by_cases h2 : e.1 = x
      · have : (e.1 == x) = true := by simp [h2]
        simp only [this]
        have hx : ¬ x = sid := fun h => h1 (h2.trans h)
        simp [hx]
      · have : (e.1 == x) = false := by simp [h2]
        simp only [this]
        exact ih

theorem win_setWin (s : St) (sid : Nat) (v : Int) (x : Nat) :
    win (setWin s sid v) x = if x = sid then v else win s x := by
  unfold win setWin
  exact find_setWin s.swin sid v x

/-- with distinct keys, membership determines `queueOf` -/
theorem mem_queueOf {s : St} {sid : Nat} {q : List Req} (hn : KeysNodup s.queues) (h : (sid, q) ∈ s.queues) :
    queueOf s sid = some q := by
  unfold queueOf KeysNodup at *
  generalize s.queues = l at *
  induction l with
  | nil => cases h
  | cons e r ih =>
    simp only [List.map_cons, List.nodup_cons] at hn
    rcases List.mem_cons.mp h with h | h
    · subst h; simp
    · have : e.1 ≠ sid := by
        intro he
        apply hn.1
        rw [he]
        exact List.mem_map.mpr ⟨(sid, q), h, rfl⟩
      have hb : (e.1 == sid) = false := by simp [this]
      simp only [List.find?_cons, hb]
      exact ih hn.2 h

theorem queueOf_none_iff {s : St} {sid : Nat} : queueOf s sid = none ↔ isOpen s sid = false := by
  unfold queueOf isOpen
  cases hf : s.queues.find? (fun e => e.1 == sid) with
  | none =>
    simp only [Option.map_none, true_iff]
    rw [List.find?_eq_none] at hf
    rw [Bool.eq_false_iff]; intro h
    rw [List.any_eq_true] at h
    obtain ⟨e, he, h⟩ := h
    exact hf e he h
  | some e =>
    simp only [Option.map_some, reduceCtorEq, false_iff]
    rw [Bool.not_eq_false, List.any_eq_true]
    exact ⟨e, List.mem_of_find?_eq_some hf, by have := List.find?_some hf; simpa using this⟩

/-- the two states hold the same frames under the same windows; the ORDER of the stream queues may differ -/
structure Sim (a b : St) : Prop where
  control : a.control = b.control
  mem : ∀ e, e ∈ a.queues ↔ e ∈ b.queues
  na : KeysNodup a.queues
  nb : KeysNodup b.queues
  cwin : a.cwin = b.cwin
  maxFrame : a.maxFrame = b.maxFrame
  win : ∀ x, Sched.win a x = Sched.win b x

theorem Sim.queueOf {a b : St} (h : Sim a b) (sid : Nat) : queueOf a sid = queueOf b sid := by
  cases hb : Sched.queueOf b sid with
  | some q => exact mem_queueOf h.na ((h.mem _).mpr (queueOf_mem hb))
  | none =>
    cases ha : Sched.queueOf a sid with
    | none => rfl
    | some q =>
      have := mem_queueOf h.nb ((h.mem _).mp (queueOf_mem ha))
      rw [hb] at this; cases this

theorem Sim.allowed {a b : St} (h : Sim a b) (sid : Nat) : allowed a sid = allowed b sid := by
  unfold Sched.allowed available; rw [h.cwin, h.maxFrame, h.win]

theorem Sim.consume {a b : St} (h : Sim a b) (sid : Nat) (q : List Req) : consume a sid q = consume b sid q := by
  unfold Sched.consume; rw [h.allowed]

theorem Sim.ready {a b : St} (h : Sim a b) : ready a = ready b := by
  funext e; unfold Sched.ready; rw [h.consume]

theorem Sim.isOpen {a b : St} (h : Sim a b) (sid : Nat) : isOpen a sid = isOpen b sid := by
  cases hb : Sched.isOpen b sid with
  | false => rw [← queueOf_none_iff] at hb ⊢; rw [h.queueOf]; exact hb
  | true =>
    cases ha : Sched.isOpen a sid with
    | true => rfl
    | false =>
      rw [← queueOf_none_iff, h.queueOf, queueOf_none_iff, hb] at ha; cases ha

theorem mem_setQueue {s : St} {sid : Nat} {q : List Req} {e : Nat × List Req} :
    e ∈ (setQueue s sid q).queues ↔ ∃ e0 ∈ s.queues, (if e0.1 == sid then (sid, q) else e0) = e := by
  unfold setQueue; simp only [List.mem_map]

theorem Sim.setQueue {a b : St} (h : Sim a b) (sid : Nat) (q : List Req) : Sim (setQueue a sid q) (setQueue b sid q) := by
  refine ⟨h.control, ?_, ?_, ?_, h.cwin, h.maxFrame, h.win⟩
  · intro e
    rw [mem_setQueue, mem_setQueue]
    constructor
    · rintro ⟨e0, he0, h0⟩; exact ⟨e0, (h.mem _).mp he0, h0⟩
    · rintro ⟨e0, he0, h0⟩; exact ⟨e0, (h.mem _).mpr he0, h0⟩
  · unfold KeysNodup Sched.setQueue; rw [keys_set]; exact h.na
  · unfold KeysNodup Sched.setQueue; rw [keys_set]; exact h.nb

theorem Sim.takeWin {a b : St} (h : Sim a b) (sid n : Nat) : Sim (takeWin a sid n) (takeWin b sid n) := by
  refine ⟨h.control, h.mem, h.na, h.nb, ?_, h.maxFrame, ?_⟩
  · simp [Sched.takeWin, setWin, h.cwin]
  · intro x
    have e1 : Sched.win (Sched.takeWin a sid n) x = Sched.win (setWin a sid (Sched.win a sid - n)) x := rfl
    have e2 : Sched.win (Sched.takeWin b sid n) x = Sched.win (setWin b sid (Sched.win b sid - n)) x := rfl
    rw [e1, e2, win_setWin, win_setWin, h.win, h.win]

theorem Sim.refl_of {a : St} (hn : KeysNodup a.queues) : Sim a a :=
  ⟨rfl, fun _ => Iff.rfl, hn, hn, rfl, rfl, fun _ => rfl⟩

theorem mem_rotate {α} (l : List α) (k : Nat) (e : α) : e ∈ rotate l k ↔ e ∈ l := by
  unfold rotate
  rw [List.mem_append]
  constructor
  · rintro (h | h)
    · exact List.mem_of_mem_drop h
    · exact List.mem_of_mem_take h
  · intro h
    rw [← List.take_append_drop k l, List.mem_append] at h
    exact h.symm

/-- releasing zero bytes leaves every window as it was (the window LIST is rewritten, its meaning is not) -/
theorem sim_takeWin_zero {a b : St} (h : Sim a b) (sid : Nat) : Sim a (takeWin b sid 0) := by
  refine ⟨h.control, h.mem, h.na, h.nb, ?_, h.maxFrame, ?_⟩
  · simp [Sched.takeWin, setWin, h.cwin]
  · intro x
    have e2 : Sched.win (Sched.takeWin b sid 0) x = Sched.win (setWin b sid (Sched.win b sid - (0 : Nat))) x := rfl
    rw [e2, win_setWin, h.win]
    split
    · rename_i hx; subst hx; simp
    · rfl

end Fp.Sched

namespace Fp.Sched

theorem Sim.rotate {a b : St} (h : Sim a b) (k : Nat) : Sim a { b with queues := rotate b.queues k } := by
  refine ⟨h.control, ?_, h.na, keys_rotate_nodup _ _ h.nb, h.cwin, h.maxFrame, fun x => h.win x⟩
  intro e; rw [h.mem]; exact (mem_rotate _ _ _).symm

theorem Sim.setWin {a b : St} (h : Sim a b) (sid : Nat) (v : Int) : Sim (setWin a sid v) (setWin b sid v) := by
  refine ⟨h.control, h.mem, h.na, h.nb, h.cwin, h.maxFrame, ?_⟩
  intro x; rw [win_setWin, win_setWin, h.win]

/-- sharp case analysis of `consume` on a non-empty queue -/
theorem consume_cases {s : St} {sid : Nat} {r : Req} {rest q' : List Req} {p : Popped} {n : Nat}
    (h : consume s sid (r :: rest) = some (p, q', n)) :
    ((r.isData = false ∨ r.size = 0) ∧ p = .frame r ∧ q' = rest ∧ n = 0) ∨
    (r.isData = true ∧ r.size ≠ 0 ∧ 0 < allowed s sid ∧ (r.size : Int) > allowed s sid ∧
        p = .piece r (allowed s sid).toNat ∧ q' = { r with size := r.size - (allowed s sid).toNat } :: rest ∧
        n = (allowed s sid).toNat) ∨
    (r.isData = true ∧ r.size ≠ 0 ∧ 0 < allowed s sid ∧ (r.size : Int) ≤ allowed s sid ∧
        p = .frame r ∧ q' = rest ∧ n = r.size) := by
  unfold consume at h
  simp only at h
  by_cases h1 : (!r.isData || r.size = 0) = true
  · rw [if_pos h1] at h
    simp only [Option.some.injEq, Prod.mk.injEq] at h
    obtain ⟨rfl, rfl, rfl⟩ := h
    refine Or.inl ⟨?_, rfl, rfl, rfl⟩
    simp at h1; exact h1
  · rw [if_neg h1] at h
    have hd : r.isData = true ∧ r.size ≠ 0 := by
      cases hdd : r.isData
      · simp [hdd] at h1
      · simp [hdd] at h1; exact ⟨rfl, h1⟩
    by_cases h2 : allowed s sid ≤ 0
    · rw [if_pos h2] at h; cases h
    · rw [if_neg h2] at h
      by_cases h3 : (r.size : Int) > allowed s sid
      · rw [if_pos h3] at h
        simp only [Option.some.injEq, Prod.mk.injEq] at h
        obtain ⟨rfl, rfl, rfl⟩ := h
        exact Or.inr (Or.inl ⟨hd.1, hd.2, by omega, h3, rfl, rfl, rfl⟩)
      · rw [if_neg h3] at h
        simp only [Option.some.injEq, Prod.mk.injEq] at h
        obtain ⟨rfl, rfl, rfl⟩ := h
        exact Or.inr (Or.inr ⟨hd.1, hd.2, by omega, by omega, rfl, rfl, rfl⟩)

theorem keys_append_nodup {qs : List (Nat × List Req)} {sid : Nat} (hn : KeysNodup qs)
    (h : qs.any (·.1 == sid) = false) : KeysNodup (qs ++ [(sid, [])]) := by
  unfold KeysNodup at *
  rw [List.map_append, List.nodup_append]
  refine ⟨hn, by simp, ?_⟩
  intro a ha b hb
  simp at hb; subst hb
  intro hab; subst hab
  obtain ⟨e, he, rfl⟩ := List.mem_map.mp ha
  have : qs.any (·.1 == e.1) = true := List.any_eq_true.mpr ⟨e, he, by simp⟩
  rw [h] at this; cases this

end Fp.Sched
