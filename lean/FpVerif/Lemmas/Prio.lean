/-
The dependency structure of the priority scheduler model is the parent function `par`. `dist s d p` says that the
parent chain of pointer `p` reaches the root (pointer 0) in exactly `d` steps; `Rooted s p` that it does so for some
`d`. Acyclicity arguments are arithmetic on these depths.
-/
import FpVerif.Model.Prio
set_option linter.unusedSimpArgs false
set_option linter.unusedVariables false
namespace Fp.Prio

def par (s : PSt) (p : Nat) : Option Nat := (node s p).parent

/-- the parent chain of `p` reaches the root in exactly `d` steps -/
def dist (s : PSt) : Nat → Nat → Bool
  | 0, p => p == 0
  | d + 1, p => p != 0 && (match par s p with | some q => dist s d q | none => false)

def Rooted (s : PSt) (p : Nat) : Prop := ∃ d, dist s d p = true

theorem dist_zero (s : PSt) (d : Nat) : dist s d 0 = true → d = 0 := by
  cases d with
  | zero => intro _; rfl
  | succ d => simp [dist]

theorem dist_succ {s : PSt} {d p : Nat} (h : dist s (d + 1) p = true) :
    p ≠ 0 ∧ ∃ q, par s p = some q ∧ dist s d q = true := by
  simp only [dist, Bool.and_eq_true, bne_iff_ne, ne_eq] at h
  refine ⟨h.1, ?_⟩
  cases hp : par s p with
  | none => rw [hp] at h; simp at h
  | some q => rw [hp] at h; exact ⟨q, rfl, h.2⟩

theorem dist_step {s : PSt} {d p q : Nat} (hp : p ≠ 0) (hq : par s p = some q) (h : dist s d q = true) :
    dist s (d + 1) p = true := by
  simp [dist, hp, hq, h]

/-- the depth is unique -/
theorem dist_unique (s : PSt) : ∀ (d d' p : Nat), dist s d p = true → dist s d' p = true → d = d' := by
  intro d
  induction d with
  | zero =>
    intro d' p h h'
    simp [dist] at h
    subst h
    exact (dist_zero s d' h').symm
  | succ d ih =>
    intro d' p h h'
    obtain ⟨hp, q, hq, hd⟩ := dist_succ h
    cases d' with
    | zero => simp [dist] at h'; exact absurd h' hp
    | succ d' =>
      obtain ⟨_, q', hq', hd'⟩ := dist_succ h'
      rw [hq] at hq'
      cases hq'
      rw [ih d' q hd hd']

theorem rooted_zero (s : PSt) : Rooted s 0 := ⟨0, rfl⟩

theorem rooted_child {s : PSt} {p q : Nat} (hp : p ≠ 0) (hq : par s p = some q) (h : Rooted s q) : Rooted s p := by
  obtain ⟨d, hd⟩ := h
  exact ⟨d + 1, dist_step hp hq hd⟩

theorem rooted_parent {s : PSt} {p q : Nat} (hq : par s p = some q) (hp : p ≠ 0) (h : Rooted s p) : Rooted s q := by
  obtain ⟨d, hd⟩ := h
  cases d with
  | zero => simp [dist] at hd; exact absurd hd hp
  | succ d =>
    obtain ⟨_, q', hq', hd'⟩ := dist_succ hd
    rw [hq] at hq'; cases hq'
    exact ⟨d, hd'⟩

/-- the tree structure lives in the heap alone -/
theorem dist_heap_congr {s s' : PSt} (h : s'.heap = s.heap) : ∀ d p, dist s' d p = dist s d p := by
  have hp : ∀ x, par s' x = par s x := fun x => by simp [par, node, h]
  intro d
  induction d with
  | zero => intro p; rfl
  | succ d ih => intro p; simp only [dist, hp, ih]

theorem rooted_heap_congr {s s' : PSt} (h : s'.heap = s.heap) (p : Nat) : Rooted s' p ↔ Rooted s p := by
  unfold Rooted; simp only [dist_heap_congr h]

/-- `a` lies on the parent chain of `p` (`p` itself included) -/
inductive Anc (s : PSt) (a : Nat) : Nat → Prop
  | refl : Anc s a a
  | step {p q : Nat} : par s p = some q → Anc s a q → Anc s a p

/-- ancestors are not deeper -/
theorem anc_depth {s : PSt} {a p : Nat} (hroot : par s 0 = none) (h : Anc s a p) :
    ∀ d, dist s d p = true → ∃ d', d' ≤ d ∧ dist s d' a = true := by
  induction h with
  | refl => intro d hd; exact ⟨d, Nat.le_refl _, hd⟩
  | step hq _ ih =>
    intro d hd
    cases d with
    | zero =>
      simp [dist] at hd
      subst hd
      rw [hroot] at hq; cases hq
    | succ d =>
      obtain ⟨_, q', hq', hd'⟩ := dist_succ hd
      rw [hq] at hq'; cases hq'
      obtain ⟨d', hle, hda⟩ := ih d hd'
      exact ⟨d', Nat.le_succ_of_le hle, hda⟩

/-- a proper ancestor is strictly less deep: a node is never on its parent's chain -/
theorem not_anc_parent {s : PSt} {p q : Nat} (hroot : par s 0 = none) (hq : par s p = some q) (hr : Rooted s p) :
    ¬ Anc s p q := by
  intro ha
  obtain ⟨d, hd⟩ := hr
  cases d with
  | zero => simp [dist] at hd; subst hd; rw [hroot] at hq; cases hq
  | succ d =>
    obtain ⟨_, q', hq', hd'⟩ := dist_succ hd
    rw [hq] at hq'; cases hq'
    obtain ⟨d', hle, hdp⟩ := anc_depth hroot ha d hd'
    have := dist_unique s _ _ _ hd hdp
    omega

/-! ### changing the parent of one node -/

/-- a chain that avoids `n` does not notice a change of `n`'s parent -/
theorem dist_congr_avoid {s s' : PSt} {n : Nat} (hsame : ∀ x, x ≠ n → par s' x = par s x) :
    ∀ d p, dist s d p = true → ¬ Anc s n p → dist s' d p = true := by
  intro d
  induction d with
  | zero => intro p h _; exact h
  | succ d ih =>
    intro p h hn
    obtain ⟨hp, q, hq, hd⟩ := dist_succ h
    have hpn : p ≠ n := fun e => hn (e ▸ Anc.refl)
    have hq' : par s' p = some q := by rw [hsame p hpn]; exact hq
    exact dist_step hp hq' (ih q hd (fun ha => hn (Anc.step hq ha)))

/-- REPARENTING: giving `n` (not the root) the parent `q`, where `q` is rooted and `n` is not on `q`'s chain, keeps
every rooted node rooted and roots `n` -/
theorem reparent_rooted {s s' : PSt} {n q : Nat} (hn0 : n ≠ 0)
    (hsame : ∀ x, x ≠ n → par s' x = par s x) (hnew : par s' n = some q)
    (hq : Rooted s q) (havoid : ¬ Anc s n q) :
    Rooted s' n ∧ ∀ x, Rooted s x → Rooted s' x := by
  have hq' : Rooted s' q := by
    obtain ⟨d, hd⟩ := hq
    exact ⟨d, dist_congr_avoid hsame d q hd havoid⟩
  have hn' : Rooted s' n := rooted_child hn0 hnew hq'
  refine ⟨hn', ?_⟩
  intro x ⟨d, hd⟩
  induction d generalizing x with
  | zero => simp [dist] at hd; subst hd; exact rooted_zero s'
  | succ d ih =>
    obtain ⟨hx, y, hy, hdy⟩ := dist_succ hd
    by_cases hxn : x = n
    · subst hxn; exact hn'
    · have : par s' x = some y := by rw [hsame x hxn]; exact hy
      exact rooted_child hx this (ih y hdy)

/-- DETACHING a node nobody points to keeps every other rooted node rooted -/
theorem detach_rooted {s s' : PSt} {n : Nat} (hsame : ∀ x, x ≠ n → par s' x = par s x)
    (hnokids : ∀ c, par s c ≠ some n) :
    ∀ x, x ≠ n → Rooted s x → Rooted s' x := by
  intro x hxn ⟨d, hd⟩
  induction d generalizing x with
  | zero => simp [dist] at hd; subst hd; exact rooted_zero s'
  | succ d ih =>
    obtain ⟨hx, y, hy, hdy⟩ := dist_succ hd
    have hyn : y ≠ n := fun e => hnokids x (e ▸ hy)
    have : par s' x = some y := by rw [hsame x hxn]; exact hy
    exact rooted_child hx this (ih y hyn hdy)

/-! ### `setParent`, `modNode` on the heap -/

theorem node_setNode_other (s : PSt) (p x : Nat) (n : PNode) (hx : x ≠ p) : node (setNode s p n) x = node s x := by
  simp [node, setNode, List.getD_eq_getElem?_getD, List.getElem?_set, Ne.symm hx]

theorem node_setNode_self (s : PSt) (p : Nat) (n : PNode) (hp : p < s.heap.length) : node (setNode s p n) p = n := by
  simp [node, setNode, List.getD_eq_getElem?_getD, List.getElem?_set, hp]

theorem node_modNode_other (s : PSt) (p x : Nat) (f : PNode → PNode) (hx : x ≠ p) : node (modNode s p f) x = node s x :=
  node_setNode_other s p x _ hx

theorem node_modNode_self (s : PSt) (p : Nat) (f : PNode → PNode) (hp : p < s.heap.length) :
    node (modNode s p f) p = f (node s p) := node_setNode_self s p _ hp

theorem par_in_range {s : PSt} {p q : Nat} (h : par s p = some q) : p < s.heap.length := by
  by_cases hp : p < s.heap.length
  · exact hp
  · simp [par, node, List.getD_eq_getElem?_getD, List.getElem?_eq_none (Nat.le_of_not_lt hp)] at h

/-- a `modNode` that keeps the parent field keeps the parent function -/
theorem par_modNode_keep (s : PSt) (p : Nat) (f : PNode → PNode) (hf : ∀ x, (f x).parent = x.parent) (x : Nat) :
    par (modNode s p f) x = par s x := by
  by_cases hx : x = p
  · subst hx
    by_cases hp : x < s.heap.length
    · simp [par, node_modNode_self s x f hp, hf]
    · simp [par, node, modNode, setNode, List.getD_eq_getElem?_getD, List.getElem?_set,
        List.getElem?_eq_none (Nat.le_of_not_lt hp), hp]
  · simp [par, node_modNode_other s p x f hx]

theorem heap_len_modNode (s : PSt) (p : Nat) (f : PNode → PNode) : (modNode s p f).heap.length = s.heap.length := by
  simp [modNode, setNode]

theorem heap_len_setParent (s : PSt) (n : Nat) (parent : Option Nat) :
    (setParent s n parent).heap.length = s.heap.length := by
  unfold setParent; split
  · rfl
  · simp [modNode, setNode]

theorem nodes_setParent (s : PSt) (n : Nat) (parent : Option Nat) : (setParent s n parent).nodes = s.nodes := by
  unfold setParent; split <;> rfl

theorem closed_setParent (s : PSt) (n : Nat) (parent : Option Nat) : (setParent s n parent).closedNodes = s.closedNodes := by
  unfold setParent; split <;> rfl

theorem idle_setParent (s : PSt) (n : Nat) (parent : Option Nat) : (setParent s n parent).idleNodes = s.idleNodes := by
  unfold setParent; split <;> rfl

theorem par_setParent_other (s : PSt) (n x : Nat) (parent : Option Nat) (hx : x ≠ n) :
    par (setParent s n parent) x = par s x := by
  unfold setParent; split
  · rfl
  · simp only [par]
    rw [show node { modNode s n (fun x => { x with parent := parent, stamp := s.clock + 1 }) with clock := s.clock + 1 } x
          = node (modNode s n (fun x => { x with parent := parent, stamp := s.clock + 1 })) x from rfl]
    rw [node_modNode_other s n x _ hx]

theorem par_setParent_self (s : PSt) (n : Nat) (parent : Option Nat) (hn : n < s.heap.length) :
    par (setParent s n parent) n = parent := by
  unfold setParent; split
  · rename_i h; exact h
  · simp only [par]
    rw [show node { modNode s n (fun x => { x with parent := parent, stamp := s.clock + 1 }) with clock := s.clock + 1 } n
          = node (modNode s n (fun x => { x with parent := parent, stamp := s.clock + 1 })) n from rfl]
    rw [node_modNode_self s n _ hn]

theorem id_setParent (s : PSt) (n x : Nat) (parent : Option Nat) : (node (setParent s n parent) x).id = (node s x).id := by
  unfold setParent; split
  · rfl
  · rw [show node { modNode s n (fun x => { x with parent := parent, stamp := s.clock + 1 }) with clock := s.clock + 1 } x
          = node (modNode s n (fun x => { x with parent := parent, stamp := s.clock + 1 })) x from rfl]
    by_cases hx : x = n
    · subst hx
      by_cases hp : x < s.heap.length
      · rw [node_modNode_self s x _ hp]
      · simp [node, modNode, setNode, List.getD_eq_getElem?_getD, List.getElem?_set,
          List.getElem?_eq_none (Nat.le_of_not_lt hp), hp]
    · rw [node_modNode_other s n x _ hx]

/-- membership in the kids list: exactly the in-range pointers whose parent is `p` -/
theorem mem_insertDesc (s : PSt) (c x : Nat) (l : List Nat) : x ∈ insertDesc s c l ↔ x = c ∨ x ∈ l := by
  induction l with
  | nil => simp [insertDesc]
  | cons y r ih =>
    unfold insertDesc
    split
    · simp
    · simp [ih]; constructor
      · rintro (h | h | h)
        · right; left; exact h
        · left; exact h
        · right; right; exact h
      · rintro (h | h | h)
        · right; left; exact h
        · left; exact h
        · right; right; exact h

theorem mem_kidsOf (s : PSt) (p c : Nat) : c ∈ kidsOf s p ↔ par s c = some p := by
  unfold kidsOf
  have key : ∀ (l acc : List Nat), c ∈ l.foldl (fun acc c => insertDesc s c acc) acc ↔ c ∈ l ∨ c ∈ acc := by
    intro l
    induction l with
    | nil => intro acc; simp
    | cons y r ih =>
      intro acc
      rw [List.foldl_cons, ih, mem_insertDesc]
      simp only [List.mem_cons]
      constructor
      · rintro (h | h | h)
        · left; right; exact h
        · left; left; exact h
        · right; exact h
      · rintro ((h | h) | h)
        · right; left; exact h
        · left; exact h
        · right; right; exact h
  rw [key]
  simp only [List.not_mem_nil, or_false, List.mem_filter, List.mem_range, decide_eq_true_eq]
  constructor
  · exact fun h => h.2
  · exact fun h => ⟨par_in_range h, h⟩

/-! ### the invariant -/

structure TreeInv (s : PSt) : Prop where
  heapPos : 0 < s.heap.length
  rootPar : par s 0 = none
  /-- whatever a node points to is rooted (so attached nodes are rooted and detached ones have no kids) -/
  parRooted : ∀ c q, par s c = some q → Rooted s q
  /-- every stream of the map is the root or attached -/
  mapped : ∀ id p, (id, p) ∈ s.nodes → (p = 0 ∧ id = 0) ∨ (p ≠ 0 ∧ id ≠ 0 ∧ (par s p).isSome = true)
  mappedId : ∀ id p, (id, p) ∈ s.nodes → (node s p).id = id
  idNonzero : ∀ p, p ≠ 0 → p < s.heap.length → (node s p).id ≠ 0
  rootMapped : lookup s 0 = some 0
  listsNoRoot : 0 ∉ s.closedNodes ∧ 0 ∉ s.idleNodes
  listsInRange : (∀ x ∈ s.closedNodes, x < s.heap.length) ∧ (∀ x ∈ s.idleNodes, x < s.heap.length)

theorem TreeInv.attached_rooted {s : PSt} (h : TreeInv s) {c q : Nat} (hc : par s c = some q) : Rooted s c := by
  have hc0 : c ≠ 0 := fun e => by rw [e, h.rootPar] at hc; cases hc
  exact rooted_child hc0 hc (h.parRooted c q hc)

/-- THE TREE PROPERTY: every stream the scheduler knows has a finite parent chain ending at the root (stream 0) -/
theorem TreeInv.mapped_rooted {s : PSt} (h : TreeInv s) {id p : Nat} (hm : (id, p) ∈ s.nodes) : Rooted s p := by
  rcases h.mapped id p hm with ⟨hp, _⟩ | ⟨_, _, hs⟩
  · subst hp; exact rooted_zero s
  · cases hq : par s p with
    | none => rw [hq] at hs; cases hs
    | some q => exact h.attached_rooted hq

theorem TreeInv.detached_no_kids {s : PSt} (h : TreeInv s) {n : Nat} (hn0 : n ≠ 0) (hn : par s n = none) :
    ∀ c, par s c ≠ some n := by
  intro c hc
  obtain ⟨d, hd⟩ := h.parRooted c n hc
  cases d with
  | zero => simp [dist] at hd; exact hn0 hd
  | succ d =>
    obtain ⟨_, q, hq, _⟩ := dist_succ hd
    rw [hn] at hq; cases hq

theorem not_anc_grand {s : PSt} {k n g : Nat} (hroot : par s 0 = none) (hk : par s k = some n) (hn : par s n = some g)
    (hr : Rooted s k) : ¬ Anc s k g := by
  intro ha
  obtain ⟨d, hd⟩ := hr
  cases d with
  | zero => simp [dist] at hd; subst hd; rw [hroot] at hk; cases hk
  | succ d =>
    obtain ⟨_, n', hn', hdn⟩ := dist_succ hd
    rw [hk] at hn'; cases hn'
    cases d with
    | zero => simp [dist] at hdn; subst hdn; rw [hroot] at hn; cases hn
    | succ d =>
      obtain ⟨_, g', hg', hdg⟩ := dist_succ hdn
      rw [hn] at hg'; cases hg'
      obtain ⟨d', hle, hdk⟩ := anc_depth hroot ha d hdg
      have := dist_unique s _ _ _ hd hdk
      omega

/-- attaching `n` below a rooted `q` whose chain avoids `n` preserves the invariant -/
theorem TreeInv.setParent_some {s : PSt} (h : TreeInv s) {n q : Nat} (hn0 : n ≠ 0) (hnr : n < s.heap.length)
    (hq : Rooted s q) (havoid : ¬ Anc s n q) : TreeInv (setParent s n (some q)) := by
  have hsame : ∀ x, x ≠ n → par (setParent s n (some q)) x = par s x := fun x hx => par_setParent_other s n x _ hx
  have hnew : par (setParent s n (some q)) n = some q := par_setParent_self s n _ hnr
  obtain ⟨hn', hall⟩ := reparent_rooted hn0 hsame hnew hq havoid
  constructor
  · rw [heap_len_setParent]; exact h.heapPos
  · rw [hsame 0 (Ne.symm hn0)]; exact h.rootPar
  · intro c q' hc
    by_cases hcn : c = n
    · subst hcn; rw [hnew] at hc; cases hc
      exact hall q hq
    · rw [hsame c hcn] at hc
      exact hall q' (h.parRooted c q' hc)
  · intro id p hm
    rw [nodes_setParent] at hm
    rcases h.mapped id p hm with h1 | ⟨h1, h2, h3⟩
    · left; exact h1
    · right; refine ⟨h1, h2, ?_⟩
      by_cases hpn : p = n
      · subst hpn; rw [hnew]; rfl
      · rw [hsame p hpn]; exact h3
  · intro id p hm
    rw [nodes_setParent] at hm
    rw [id_setParent]; exact h.mappedId id p hm
  · intro p hp0 hpr
    rw [heap_len_setParent] at hpr
    rw [id_setParent]; exact h.idNonzero p hp0 hpr
  · have := h.rootMapped
    unfold lookup at this ⊢
    rw [nodes_setParent]; exact this
  · rw [closed_setParent, idle_setParent]; exact h.listsNoRoot
  · rw [closed_setParent, idle_setParent, heap_len_setParent]; exact h.listsInRange

/-! ### removeNode -/

theorem lookup_filter_ne (l : List (Nat × Nat)) (k nid : Nat) (h : k ≠ nid) :
    (l.filter fun e => !(e.1 == nid)).find? (·.1 == k) = l.find? (·.1 == k) := by
  induction l with
  | nil => rfl
  | cons e r ih =>
    by_cases he : e.1 = nid
    · have hk : (e.1 == k) = false := by simp; intro h'; exact h (h'.symm.trans he)
      have hnk : (nid == k) = false := by simp; exact fun e => h e.symm
      simp [List.filter_cons, he, List.find?_cons, hnk, ih]
    · have : (e.1 == nid) = false := by simpa using he
      simp only [List.filter_cons, this, Bool.not_false, if_true, List.find?_cons, ih]

/-- moving the kids of `n` (whose parent is `g`) up to `g`, one after the other -/
theorem moveKids_inv {g n : Nat} : ∀ (ks : List Nat) (s : PSt), TreeInv s → par s n = some g →
    (∀ k ∈ ks, par s k = some n ∨ par s k = some g) → n ∉ ks →
    let s' := ks.foldl (fun s k => setParent s k (some g)) s
    TreeInv s' ∧ par s' n = some g ∧ s'.nodes = s.nodes ∧ s'.closedNodes = s.closedNodes ∧ s'.idleNodes = s.idleNodes ∧
      s'.heap.length = s.heap.length ∧ (∀ x, (node s' x).id = (node s x).id) ∧
      (∀ c, par s' c = some n → par s c = some n ∧ c ∉ ks) ∧
      (∀ c, par s c ≠ some n → par s' c = par s c) := by
  intro ks
  induction ks with
  | nil =>
    intro s h hn _ _
    exact ⟨h, hn, rfl, rfl, rfl, rfl, fun _ => rfl, fun c hc => ⟨hc, by simp⟩, fun _ _ => rfl⟩
  | cons k r ih =>
    intro s h hn hks hnks
    have hng : n ≠ g := by
      intro e
      have := not_anc_parent h.rootPar hn (h.attached_rooted hn)
      rw [← e] at this; exact this Anc.refl
    have hkcase := hks k (by simp)
    -- the state after moving k
    have hstep : TreeInv (setParent s k (some g)) ∧ par (setParent s k (some g)) k = some g := by
      rcases hkcase with hk | hk
      · have hk0 : k ≠ 0 := fun e => by rw [e, h.rootPar] at hk; cases hk
        have hkr := par_in_range hk
        have hgr : Rooted s g := h.parRooted n g hn
        have hav := not_anc_grand h.rootPar hk hn (h.attached_rooted hk)
        exact ⟨h.setParent_some hk0 hkr hgr hav, par_setParent_self s k _ hkr⟩
      · have : setParent s k (some g) = s := by unfold setParent; simp [par] at hk; simp [hk]
        rw [this]; exact ⟨h, hk⟩
    have hkn : k ≠ n := by
      intro e; exact hnks (by simp [e])
    have hn1 : par (setParent s k (some g)) n = some g := by rw [par_setParent_other s k n _ (Ne.symm hkn)]; exact hn
    have hks1 : ∀ k' ∈ r, par (setParent s k (some g)) k' = some n ∨ par (setParent s k (some g)) k' = some g := by
      intro k' hk'
      by_cases e : k' = k
      · subst e; right; exact hstep.2
      · rw [par_setParent_other s k k' _ e]; exact hks k' (by simp [hk'])
    obtain ⟨t1, t2, t3, t4, t5, t6, t7, t8, t9⟩ := ih (setParent s k (some g)) hstep.1 hn1 hks1
      (fun hm => hnks (by simp [hm]))
    simp only [List.foldl_cons]
    refine ⟨t1, t2, ?_, ?_, ?_, ?_, ?_, ?_, ?_⟩
    · rw [t3, nodes_setParent]
    · rw [t4, closed_setParent]
    · rw [t5, idle_setParent]
    · rw [t6, heap_len_setParent]
    · intro x; rw [t7, id_setParent]
    · intro c hc
      obtain ⟨h1, h2⟩ := t8 c hc
      have hck : c ≠ k := by
        intro e; rw [e, hstep.2] at h1; cases h1; exact hng rfl
      rw [par_setParent_other s k c _ hck] at h1
      exact ⟨h1, by simp [hck, h2]⟩
    · intro c hc
      have hck : c ≠ k ∨ par s k = some g := by
        by_cases e : c = k
        · right
          rcases hkcase with hk | hk
          · rw [e] at hc; exact absurd hk hc
          · exact hk
        · left; exact e
      rcases hck with hck | hkg
      · rw [t9 c (by rw [par_setParent_other s k c _ hck]; exact hc), par_setParent_other s k c _ hck]
      · have : setParent s k (some g) = s := by unfold setParent; simp [par] at hkg; simp [hkg]
        rw [this] at t9 ⊢
        exact t9 c hc

theorem lookup_mem {s : PSt} {id p : Nat} (h : lookup s id = some p) : (id, p) ∈ s.nodes := by
  unfold lookup at h
  cases hf : s.nodes.find? (·.1 == id) with
  | none => rw [hf] at h; cases h
  | some e =>
    rw [hf] at h
    simp at h
    have hm := List.mem_of_find?_eq_some hf
    have he := List.find?_some hf
    simp at he
    obtain ⟨a, b⟩ := e
    simp at he h
    subst he; subst h
    exact hm

/-- `removeNode(n)` for any pointer but the root: the kids move up to n's parent, n is detached, its map entry goes -/
theorem TreeInv.removeNode {s : PSt} (h : TreeInv s) {n : Nat} (hn0 : n ≠ 0) (hnr : n < s.heap.length) :
    TreeInv (removeNode s n) ∧ (removeNode s n).closedNodes = s.closedNodes ∧ (removeNode s n).idleNodes = s.idleNodes ∧
      (removeNode s n).heap.length = s.heap.length := by
  unfold Fp.Prio.removeNode
  simp only
  -- the state after the kids moved
  have hmid : ∃ s1, s1 = (kidsOf s n).foldl (fun t k => setParent t k (node s n).parent) s ∧ TreeInv s1 ∧
      par s1 n = par s n ∧ s1.nodes = s.nodes ∧ s1.closedNodes = s.closedNodes ∧ s1.idleNodes = s.idleNodes ∧
      s1.heap.length = s.heap.length ∧ (∀ x, (node s1 x).id = (node s x).id) ∧ (∀ c, par s1 c ≠ some n) := by
    cases hg : par s n with
    | none =>
      have hnk := h.detached_no_kids hn0 hg
      have hk : kidsOf s n = [] := by
        apply List.eq_nil_iff_forall_not_mem.mpr
        intro c hc; exact hnk c ((mem_kidsOf s n c).mp hc)
      exact ⟨s, by rw [hk]; rfl, h, hg, rfl, rfl, rfl, rfl, fun _ => rfl, hnk⟩
    | some g =>
      have hgn : (node s n).parent = some g := hg
      have hks : ∀ k ∈ kidsOf s n, par s k = some n ∨ par s k = some g :=
        fun k hk => Or.inl ((mem_kidsOf s n k).mp hk)
      have hnn : n ∉ kidsOf s n := by
        intro hm
        have := (mem_kidsOf s n n).mp hm
        exact not_anc_parent h.rootPar this (h.attached_rooted this) Anc.refl
      obtain ⟨t1, t2, t3, t4, t5, t6, t7, t8, _⟩ := moveKids_inv (kidsOf s n) s h hg hks hnn
      refine ⟨_, by rw [hgn], t1, t2, t3, t4, t5, t6, t7, ?_⟩
      intro c hc
      obtain ⟨h1, h2⟩ := t8 c hc
      exact h2 ((mem_kidsOf s n c).mpr h1)
  obtain ⟨s1, hs1, hinv, hpn, hnodes, hcl, hid, hlen, hids, hnokids⟩ := hmid
  rw [← hs1]
  have hnr1 : n < s1.heap.length := by rw [hlen]; exact hnr
  have hsame : ∀ x, x ≠ n → par (setParent s1 n none) x = par s1 x := fun x hx => par_setParent_other s1 n x _ hx
  have hdet := detach_rooted hsame hnokids
  have hnid : (node (setParent s1 n none) n).id ≠ 0 := by
    rw [id_setParent]; exact hinv.idNonzero n hn0 hnr1
  refine ⟨?_, ?_, ?_, ?_⟩
  · constructor
    · simp only [heap_len_setParent]; exact hinv.heapPos
    · show par (setParent s1 n none) 0 = none
      rw [hsame 0 (Ne.symm hn0)]; exact hinv.rootPar
    · intro c q hc
      have hc' : par (setParent s1 n none) c = some q := hc
      have hcn : c ≠ n := by
        intro e; rw [e, par_setParent_self s1 n _ hnr1] at hc'; cases hc'
      rw [hsame c hcn] at hc'
      have hqn : q ≠ n := fun e => hnokids c (e ▸ hc')
      have hR := hdet q hqn (hinv.parRooted c q hc')
      refine (rooted_heap_congr ?_ q).mpr hR
      rfl
    · intro id p hm
      simp only [List.mem_filter, nodes_setParent] at hm
      obtain ⟨hm1, hm2⟩ := hm
      rcases hinv.mapped id p hm1 with h1 | ⟨h1, h2, h3⟩
      · left; exact h1
      · right; refine ⟨h1, h2, ?_⟩
        have hpn' : p ≠ n := by
          intro e
          have := hinv.mappedId id p hm1
          rw [e] at this
          rw [id_setParent] at hm2
          simp [this] at hm2
        show (par (setParent s1 n none) p).isSome = true
        rw [hsame p hpn']; exact h3
    · intro id p hm
      simp only [List.mem_filter, nodes_setParent] at hm
      show (node (setParent s1 n none) p).id = id
      rw [id_setParent]; exact hinv.mappedId id p hm.1
    · intro p hp0 hpr
      simp only [heap_len_setParent] at hpr
      show (node (setParent s1 n none) p).id ≠ 0
      rw [id_setParent]; exact hinv.idNonzero p hp0 hpr
    · have := hinv.rootMapped
      unfold lookup at this ⊢
      simp only [nodes_setParent]
      rw [lookup_filter_ne _ _ _ (Ne.symm hnid)]; exact this
    · simp only [closed_setParent, idle_setParent]; exact hinv.listsNoRoot
    · simp only [closed_setParent, idle_setParent, heap_len_setParent]; exact hinv.listsInRange
  · simp only [closed_setParent]; exact hcl
  · simp only [idle_setParent]; exact hid
  · simp only [heap_len_setParent]; exact hlen

/-! ### state changes that do not touch the parent function or the map -/

/-- anything that keeps heap length, parents, ids, the map and the two lists keeps the invariant -/
theorem TreeInv.transfer {s s' : PSt} (h : TreeInv s) (hlen : s'.heap.length = s.heap.length)
    (hpar : ∀ x, par s' x = par s x) (hid : ∀ x, (node s' x).id = (node s x).id) (hnodes : s'.nodes = s.nodes)
    (hcl : ∀ x ∈ s'.closedNodes, x ∈ s.closedNodes) (hidl : ∀ x ∈ s'.idleNodes, x ∈ s.idleNodes) : TreeInv s' := by
  have hd : ∀ d p, dist s' d p = dist s d p := by
    intro d
    induction d with
    | zero => intro p; rfl
    | succ d ih => intro p; simp only [dist, hpar, ih]
  have hr : ∀ p, Rooted s' p ↔ Rooted s p := fun p => by unfold Rooted; simp only [hd]
  constructor
  · rw [hlen]; exact h.heapPos
  · rw [hpar]; exact h.rootPar
  · intro c q hc; rw [hpar] at hc; exact (hr q).mpr (h.parRooted c q hc)
  · intro id p hm; rw [hnodes] at hm; rw [hpar]; exact h.mapped id p hm
  · intro id p hm; rw [hnodes] at hm; rw [hid]; exact h.mappedId id p hm
  · intro p hp0 hpr; rw [hlen] at hpr; rw [hid]; exact h.idNonzero p hp0 hpr
  · have := h.rootMapped; unfold lookup at this ⊢; rw [hnodes]; exact this
  · exact ⟨fun hm => h.listsNoRoot.1 (hcl 0 hm), fun hm => h.listsNoRoot.2 (hidl 0 hm)⟩
  · rw [hlen]; exact ⟨fun x hx => h.listsInRange.1 x (hcl x hx), fun x hx => h.listsInRange.2 x (hidl x hx)⟩

theorem TreeInv.modNode {s : PSt} (h : TreeInv s) (p : Nat) (f : PNode → PNode)
    (hf : ∀ x, (f x).parent = x.parent) (hfi : ∀ x, (f x).id = x.id) : TreeInv (modNode s p f) := by
  apply h.transfer (heap_len_modNode s p f) (par_modNode_keep s p f hf) ?_ rfl (fun _ hx => hx) (fun _ hx => hx)
  intro x
  by_cases hx : x = p
  · subst hx
    by_cases hp : x < s.heap.length
    · rw [node_modNode_self s x f hp, hfi]
    · simp [node, Fp.Prio.modNode, setNode, List.getD_eq_getElem?_getD, List.getElem?_set,
        List.getElem?_eq_none (Nat.le_of_not_lt hp), hp]
  · rw [node_modNode_other s p x f hx]

theorem addBytes_up_inv (b : Int) : ∀ (fuel : Nat) (s : PSt) (p : Option Nat), TreeInv s →
    TreeInv (addBytes.up b fuel s p) ∧ (addBytes.up b fuel s p).closedNodes = s.closedNodes ∧
    (addBytes.up b fuel s p).idleNodes = s.idleNodes ∧ (addBytes.up b fuel s p).heap.length = s.heap.length ∧
    (∀ x, par (addBytes.up b fuel s p) x = par s x) ∧ (addBytes.up b fuel s p).nodes = s.nodes ∧
    (∀ x, (node (addBytes.up b fuel s p) x).state = (node s x).state) := by
  intro fuel
  induction fuel with
  | zero => intro s p h; cases p <;> exact ⟨h, rfl, rfl, rfl, fun _ => rfl, rfl, fun _ => rfl⟩
  | succ fuel ih =>
    intro s p h
    cases p with
    | none => exact ⟨h, rfl, rfl, rfl, fun _ => rfl, rfl, fun _ => rfl⟩
    | some q =>
      unfold addBytes.up
      have h1 := h.modNode q (fun x => { x with subtreeBytes := x.subtreeBytes + b }) (fun _ => rfl) (fun _ => rfl)
      obtain ⟨t1, t2, t3, t4, t5, t6, t7⟩ := ih (Fp.Prio.modNode s q (fun x => { x with subtreeBytes := x.subtreeBytes + b })) (node s q).parent h1
      refine ⟨t1, t2, t3, by rw [t4, heap_len_modNode], ?_, t6, ?_⟩
      · intro x; rw [t5]; apply par_modNode_keep; intro _; rfl
      · intro x
        rw [t7]
        by_cases hx : x = q
        · subst hx
          by_cases hp : x < s.heap.length
          · rw [node_modNode_self s x _ hp]
          · simp [node, Fp.Prio.modNode, setNode, List.getD_eq_getElem?_getD, List.getElem?_set,
              List.getElem?_eq_none (Nat.le_of_not_lt hp), hp]
        · rw [node_modNode_other s q x _ hx]

theorem TreeInv.addBytes {s : PSt} (h : TreeInv s) (n : Nat) (b : Int) :
    TreeInv (addBytes s n b) ∧ (addBytes s n b).closedNodes = s.closedNodes ∧ (addBytes s n b).idleNodes = s.idleNodes ∧
    (addBytes s n b).heap.length = s.heap.length ∧ (∀ x, par (addBytes s n b) x = par s x) ∧
    (addBytes s n b).nodes = s.nodes := by
  unfold Fp.Prio.addBytes
  simp only
  have h1 := h.modNode n (fun x => { x with bytes := x.bytes + b }) (fun _ => rfl) (fun _ => rfl)
  obtain ⟨t1, t2, t3, t4, t5, t6, _⟩ := addBytes_up_inv b ((Fp.Prio.modNode s n fun x => { x with bytes := x.bytes + b }).heap.length + 1)
    (Fp.Prio.modNode s n (fun x => { x with bytes := x.bytes + b })) (some n) h1
  refine ⟨t1, t2, t3, by rw [t4, heap_len_modNode], ?_, t6⟩
  intro x; rw [t5]; apply par_modNode_keep; intro _; rfl

/-! ### the operations -/

theorem TreeInv.lists {s s' : PSt} (h : TreeInv s) (hheap : s'.heap = s.heap) (hnodes : s'.nodes = s.nodes)
    (hcl : ∀ x ∈ s'.closedNodes, x ≠ 0 ∧ x < s.heap.length) (hidl : ∀ x ∈ s'.idleNodes, x ≠ 0 ∧ x < s.heap.length) :
    TreeInv s' := by
  have hp : ∀ x, par s' x = par s x := fun x => by simp [par, node, hheap]
  have hn : ∀ x, node s' x = node s x := fun x => by simp [node, hheap]
  constructor
  · rw [hheap]; exact h.heapPos
  · rw [hp]; exact h.rootPar
  · intro c q hc; rw [hp] at hc; exact (rooted_heap_congr hheap q).mpr (h.parRooted c q hc)
  · intro id p hm; rw [hnodes] at hm; rw [hp]; exact h.mapped id p hm
  · intro id p hm; rw [hnodes] at hm; rw [hn]; exact h.mappedId id p hm
  · intro p hp0 hpr; rw [hheap] at hpr; rw [hn]; exact h.idNonzero p hp0 hpr
  · have := h.rootMapped; unfold lookup at this ⊢; rw [hnodes]; exact this
  · exact ⟨fun hm => (hcl 0 hm).1 rfl, fun hm => (hidl 0 hm).1 rfl⟩
  · rw [hheap]; exact ⟨fun x hx => (hcl x hx).2, fun x hx => (hidl x hx).2⟩

theorem TreeInv.addClosed {s : PSt} (h : TreeInv s) {n : Nat} (hn0 : n ≠ 0) (hnr : n < s.heap.length) :
    TreeInv (addClosed s n) := by
  unfold Fp.Prio.addClosed
  split
  · exact h
  · simp only
    split
    · -- evict the oldest
      cases hc : s.closedNodes with
      | nil => 
        simp only
        refine h.lists ?_ ?_ ?_ ?_
        · rfl
        · rfl
        · intro x hx; simp [hc] at hx; subst hx; exact ⟨hn0, hnr⟩
        · intro x hx; exact ⟨fun e => h.listsNoRoot.2 (e ▸ hx), h.listsInRange.2 x hx⟩
      | cons x rest =>
        simp only
        have hx0 : x ≠ 0 := fun e => h.listsNoRoot.1 (by rw [hc, e]; simp)
        have hxr : x < s.heap.length := h.listsInRange.1 x (by rw [hc]; simp)
        obtain ⟨t1, t2, t3, t4⟩ := h.removeNode hx0 hxr
        refine t1.lists ?_ ?_ ?_ ?_
        · rfl
        · rfl
        · intro y hy
          simp at hy
          rcases hy with hy | hy
          · exact ⟨fun e => h.listsNoRoot.1 (by rw [hc, ← e]; simp [hy]), by rw [t4]; exact h.listsInRange.1 y (by rw [hc]; simp [hy])⟩
          · subst hy; exact ⟨hn0, by rw [t4]; exact hnr⟩
        · intro y hy
          have hy' : y ∈ s.idleNodes := by simpa [t3] using hy
          exact ⟨fun e => h.listsNoRoot.2 (e ▸ hy'), by rw [t4]; exact h.listsInRange.2 y hy'⟩
    · refine h.lists ?_ ?_ ?_ ?_
      · rfl
      · rfl
      · intro x hx
        simp at hx
        rcases hx with hx | hx
        · exact ⟨fun e => h.listsNoRoot.1 (e ▸ hx), h.listsInRange.1 x hx⟩
        · subst hx; exact ⟨hn0, hnr⟩
      · intro x hx; exact ⟨fun e => h.listsNoRoot.2 (e ▸ hx), h.listsInRange.2 x hx⟩

theorem TreeInv.addIdle {s : PSt} (h : TreeInv s) {n : Nat} (hn0 : n ≠ 0) (hnr : n < s.heap.length) :
    TreeInv (addIdle s n) := by
  unfold Fp.Prio.addIdle
  split
  · exact h
  · simp only
    split
    · cases hc : s.idleNodes with
      | nil => 
        simp only
        refine h.lists ?_ ?_ ?_ ?_
        · rfl
        · rfl
        · intro x hx; exact ⟨fun e => h.listsNoRoot.1 (e ▸ hx), h.listsInRange.1 x hx⟩
        · intro x hx; simp [hc] at hx; subst hx; exact ⟨hn0, hnr⟩
      | cons x rest =>
        simp only
        have hx0 : x ≠ 0 := fun e => h.listsNoRoot.2 (by rw [hc, e]; simp)
        have hxr : x < s.heap.length := h.listsInRange.2 x (by rw [hc]; simp)
        obtain ⟨t1, t2, t3, t4⟩ := h.removeNode hx0 hxr
        refine t1.lists ?_ ?_ ?_ ?_
        · rfl
        · rfl
        · intro y hy
          have hy' : y ∈ s.closedNodes := by simpa [t2] using hy
          exact ⟨fun e => h.listsNoRoot.1 (e ▸ hy'), by rw [t4]; exact h.listsInRange.1 y hy'⟩
        · intro y hy
          simp at hy
          rcases hy with hy | hy
          · exact ⟨fun e => h.listsNoRoot.2 (by rw [hc, ← e]; simp [hy]), by rw [t4]; exact h.listsInRange.2 y (by rw [hc]; simp [hy])⟩
          · subst hy; exact ⟨hn0, by rw [t4]; exact hnr⟩
    · refine h.lists ?_ ?_ ?_ ?_
      · rfl
      · rfl
      · intro x hx; exact ⟨fun e => h.listsNoRoot.1 (e ▸ hx), h.listsInRange.1 x hx⟩
      · intro x hx
        simp at hx
        rcases hx with hx | hx
        · exact ⟨fun e => h.listsNoRoot.2 (e ▸ hx), h.listsInRange.2 x hx⟩
        · subst hx; exact ⟨hn0, hnr⟩

theorem anc_root {s : PSt} (hroot : par s 0 = none) {a : Nat} (h : Anc s a 0) : a = 0 := by
  cases h with
  | refl => rfl
  | step hq _ => rw [hroot] at hq; cases hq

theorem node_alloc_old (s : PSt) (n : PNode) (x : Nat) (hx : x < s.heap.length) : node (alloc s n).1 x = node s x := by
  simp [node, alloc, List.getD_eq_getElem?_getD, List.getElem?_append_left hx]

theorem node_alloc_new (s : PSt) (n : PNode) : node (alloc s n).1 s.heap.length = n := by
  simp [node, alloc, List.getD_eq_getElem?_getD]

theorem par_alloc (s : PSt) (n : PNode) (hn : n.parent = none) (x : Nat) : par (alloc s n).1 x = par s x := by
  by_cases hx : x < s.heap.length
  · simp [par, node_alloc_old s n x hx]
  · by_cases hx2 : x = s.heap.length
    · subst hx2
      show (node (alloc s n).1 s.heap.length).parent = (node s s.heap.length).parent
      rw [node_alloc_new, hn]
      simp [node, List.getD_eq_getElem?_getD]
    · have h1 : s.heap.length + 1 ≤ x := by omega
      simp [par, node, alloc, List.getD_eq_getElem?_getD, List.getElem?_eq_none, h1, Nat.le_of_not_lt hx]

/-- allocating a detached node changes nothing in the tree -/
theorem TreeInv.allocNode {s : PSt} (h : TreeInv s) (n : PNode) (hn : n.parent = none) (hid : n.id ≠ 0) :
    TreeInv (Fp.Prio.alloc s n).1 ∧ (Fp.Prio.alloc s n).2 = s.heap.length ∧ (Fp.Prio.alloc s n).1.heap.length = s.heap.length + 1 := by
  have hp := par_alloc s n hn
  have hd : ∀ d p, dist (Fp.Prio.alloc s n).1 d p = dist s d p := by
    intro d
    induction d with
    | zero => intro p; rfl
    | succ d ih => intro p; simp only [dist, hp, ih]
  have hr : ∀ p, Rooted (Fp.Prio.alloc s n).1 p ↔ Rooted s p := fun p => by unfold Rooted; simp only [hd]
  have hlen : (Fp.Prio.alloc s n).1.heap.length = s.heap.length + 1 := by simp [Fp.Prio.alloc]
  refine ⟨?_, rfl, hlen⟩
  constructor
  · rw [hlen]; omega
  · rw [hp]; exact h.rootPar
  · intro c q hc; rw [hp] at hc; exact (hr q).mpr (h.parRooted c q hc)
  · intro id p hm; rw [hp]; exact h.mapped id p hm
  · intro id p hm
    have hm' : (id, p) ∈ s.nodes := hm
    have hpr : p < s.heap.length := by
      rcases h.mapped id p hm' with ⟨h1, _⟩ | ⟨_, _, h3⟩
      · rw [h1]; exact h.heapPos
      · cases hq : par s p with
        | none => rw [hq] at h3; cases h3
        | some q => exact par_in_range hq
    rw [node_alloc_old s n p hpr]; exact h.mappedId id p hm'
  · intro p hp0 hpr
    rw [hlen] at hpr
    by_cases hx : p < s.heap.length
    · rw [node_alloc_old s n p hx]; exact h.idNonzero p hp0 hx
    · have : p = s.heap.length := by omega
      subst this; rw [node_alloc_new]; exact hid
  · exact h.rootMapped
  · exact h.listsNoRoot
  · rw [hlen]
    exact ⟨fun x hx => Nat.lt_succ_of_lt (h.listsInRange.1 x hx), fun x hx => Nat.lt_succ_of_lt (h.listsInRange.2 x hx)⟩

/-- a fresh node linked below the root and entered into the map -/
theorem TreeInv.newNode {s : PSt} (h : TreeInv s) (id : Nat) (st : NState) (hid : id ≠ 0) :
    let a := Fp.Prio.alloc s { id := id, state := st }
    let s2 := setParent a.1 a.2 (some 0)
    ∀ (mx : Nat), TreeInv { s2 with nodes := s2.nodes ++ [(id, a.2)], maxID := mx } ∧ a.2 ≠ 0 ∧
      a.2 < s2.heap.length := by
  intro a s2 mx
  obtain ⟨ha, hp, hlen⟩ := h.allocNode { id := id, state := st } rfl hid
  have hp0 : a.2 ≠ 0 := by
    show (Fp.Prio.alloc s { id := id, state := st }).2 ≠ 0
    rw [hp]; exact Nat.ne_of_gt h.heapPos
  have hpr : a.2 < a.1.heap.length := by
    show (Fp.Prio.alloc s { id := id, state := st }).2 < (Fp.Prio.alloc s { id := id, state := st }).1.heap.length
    rw [hp, hlen]; omega
  have hav : ¬ Anc a.1 a.2 0 := fun hh => hp0 (anc_root ha.rootPar hh)
  have h2 : TreeInv s2 := ha.setParent_some hp0 hpr (rooted_zero _) hav
  have hpar2 : par s2 a.2 = some 0 := par_setParent_self a.1 a.2 _ hpr
  have hlen2 : s2.heap.length = a.1.heap.length := heap_len_setParent _ _ _
  refine ⟨?_, hp0, by rw [hlen2]; exact hpr⟩
  constructor
  · exact h2.heapPos
  · exact h2.rootPar
  · intro c q hc
    refine (rooted_heap_congr ?_ q).mpr (h2.parRooted c q hc)
    rfl
  · intro id' p hm
    simp only [List.mem_append, List.mem_singleton, Prod.mk.injEq] at hm
    rcases hm with hm | ⟨rfl, rfl⟩
    · exact h2.mapped id' p hm
    · right; exact ⟨hp0, hid, by show (par s2 a.2).isSome = true; rw [hpar2]; rfl⟩
  · intro id' p hm
    simp only [List.mem_append, List.mem_singleton, Prod.mk.injEq] at hm
    rcases hm with hm | ⟨rfl, rfl⟩
    · exact h2.mappedId id' p hm
    · show (node s2 a.2).id = id'
      rw [id_setParent]
      show (node (Fp.Prio.alloc s { id := id', state := st }).1 (Fp.Prio.alloc s { id := id', state := st }).2).id = id'
      rw [hp, node_alloc_new]
  · exact h2.idNonzero
  · have := h2.rootMapped
    unfold lookup at this ⊢
    simp only [List.find?_append]
    cases hf : List.find? (fun x => x.1 == 0) s2.nodes with
    | none => rw [hf] at this; cases this
    | some e => rw [hf] at this; simpa using this
  · exact h2.listsNoRoot
  · exact h2.listsInRange

theorem anc_no_kids {s : PSt} {a p : Nat} (hk : ∀ c, par s c ≠ some a) (h : Anc s a p) : a = p := by
  induction h with
  | refl => rfl
  | step hq _ ih => exact absurd (ih ▸ hq) (hk _)

/-- a fresh node linked below ANY stream of the map (the root, or the associated stream of a pushed stream) and entered
into the map -/
theorem TreeInv.newNodeUnder {s : PSt} (h : TreeInv s) (id : Nat) (st : NState) (hid : id ≠ 0) {pid q : Nat}
    (hmq : (pid, q) ∈ s.nodes) :
    let a := Fp.Prio.alloc s { id := id, state := st }
    let s2 := setParent a.1 a.2 (some q)
    ∀ (mx : Nat), TreeInv { s2 with nodes := s2.nodes ++ [(id, a.2)], maxID := mx } := by
  intro a s2 mx
  obtain ⟨ha, hp, hlen⟩ := h.allocNode { id := id, state := st } rfl hid
  have hp0 : a.2 ≠ 0 := by
    show (Fp.Prio.alloc s { id := id, state := st }).2 ≠ 0
    rw [hp]; exact Nat.ne_of_gt h.heapPos
  have hpr : a.2 < a.1.heap.length := by
    show (Fp.Prio.alloc s { id := id, state := st }).2 < (Fp.Prio.alloc s { id := id, state := st }).1.heap.length
    rw [hp, hlen]; omega
  have hqr : q < s.heap.length := by
    rcases h.mapped pid q hmq with ⟨h1, _⟩ | ⟨_, _, h3⟩
    · rw [h1]; exact h.heapPos
    · cases hq : par s q with
      | none => rw [hq] at h3; cases h3
      | some g => exact par_in_range hq
  have hqR : Rooted a.1 q := ha.mapped_rooted (id := pid) (p := q) hmq
  have hdet : par a.1 a.2 = none := by
    show par (Fp.Prio.alloc s { id := id, state := st }).1 (Fp.Prio.alloc s { id := id, state := st }).2 = none
    rw [hp, par_alloc s _ rfl]
    simp [par, node, List.getD_eq_getElem?_getD]
  have hav : ¬ Anc a.1 a.2 q := by
    intro hh
    have := anc_no_kids (ha.detached_no_kids hp0 hdet) hh
    have h2 : (Fp.Prio.alloc s { id := id, state := st }).2 = q := this
    rw [hp] at h2; omega
  have h2 : TreeInv s2 := ha.setParent_some hp0 hpr hqR hav
  have hpar2 : par s2 a.2 = some q := par_setParent_self a.1 a.2 _ hpr
  constructor
  · exact h2.heapPos
  · exact h2.rootPar
  · intro c q' hc
    refine (rooted_heap_congr ?_ q').mpr (h2.parRooted c q' hc)
    rfl
  · intro id' p hm
    simp only [List.mem_append, List.mem_singleton, Prod.mk.injEq] at hm
    rcases hm with hm | ⟨rfl, rfl⟩
    · exact h2.mapped id' p hm
    · right; exact ⟨hp0, hid, by show (par s2 a.2).isSome = true; rw [hpar2]; rfl⟩
  · intro id' p hm
    simp only [List.mem_append, List.mem_singleton, Prod.mk.injEq] at hm
    rcases hm with hm | ⟨rfl, rfl⟩
    · exact h2.mappedId id' p hm
    · show (node s2 a.2).id = id'
      rw [id_setParent]
      show (node (Fp.Prio.alloc s { id := id', state := st }).1 (Fp.Prio.alloc s { id := id', state := st }).2).id = id'
      rw [hp, node_alloc_new]
  · exact h2.idNonzero
  · have := h2.rootMapped
    unfold lookup at this ⊢
    simp only [List.find?_append]
    cases hf : List.find? (fun x => x.1 == 0) s2.nodes with
    | none => rw [hf] at this; cases this
    | some e => rw [hf] at this; simpa using this
  · exact h2.listsNoRoot
  · exact h2.listsInRange

theorem lookup_zero_ne_none {s : PSt} (h : TreeInv s) : lookup s 0 ≠ none := by rw [h.rootMapped]; simp

theorem TreeInv.openStream {s : PSt} (h : TreeInv s) (id : Nat) (pusher : Nat := 0) : TreeInv (openStream s id pusher).1 := by
  unfold Fp.Prio.openStream
  cases hl : lookup s id with
  | some p =>
    simp only
    split
    · exact h
    · have h1 := h.modNode p (fun x => { x with state := NState.open_ }) (fun _ => rfl) (fun _ => rfl)
      refine h1.lists ?_ ?_ ?_ ?_
      · rfl
      · rfl
      · intro x hx; exact ⟨fun e => h1.listsNoRoot.1 (e ▸ hx), h1.listsInRange.1 x hx⟩
      · intro x hx
        have hx' : x ∈ s.idleNodes := (List.mem_filter.mp hx).1
        exact ⟨fun e => h.listsNoRoot.2 (e ▸ hx'), by rw [heap_len_modNode]; exact h.listsInRange.2 x hx'⟩
  | none =>
    have hid : id ≠ 0 := fun e => lookup_zero_ne_none h (e ▸ hl)
    simp only
    cases hq : lookup s pusher with
    | some q => exact h.newNodeUnder id NState.open_ hid (lookup_mem hq) _
    | none => exact h.newNodeUnder id NState.open_ hid (lookup_mem h.rootMapped) _

theorem TreeInv.push {s : PSt} (h : TreeInv s) (r : Sched.Req) : TreeInv (push s r).1 := by
  unfold Fp.Prio.push
  cases r.sid with
  | none => simp only; refine h.modNode _ _ ?_ ?_ <;> intro _ <;> rfl
  | some sid =>
    simp only
    cases lookup s sid with
    | some p => simp only; refine h.modNode _ _ ?_ ?_ <;> intro _ <;> rfl
    | none =>
      simp only
      split
      · exact h
      · simp only; refine h.modNode _ _ ?_ ?_ <;> intro _ <;> rfl

theorem TreeInv.closeStream {s : PSt} (h : TreeInv s) (id : Nat) : TreeInv (closeStream s id).1 := by
  unfold Fp.Prio.closeStream
  split
  · exact h
  · rename_i hid
    cases hl : lookup s id with
    | none => exact h
    | some p =>
      simp only
      split
      · exact h
      · have hm := lookup_mem hl
        have hp0 : p ≠ 0 := by
          rcases h.mapped id p hm with ⟨_, h2⟩ | ⟨h1, _, _⟩
          · exact absurd h2 hid
          · exact h1
        have hpr : p < s.heap.length := by
          rcases h.mapped id p hm with ⟨_, h2⟩ | ⟨_, _, h3⟩
          · exact absurd h2 hid
          · cases hq : par s p with
            | none => rw [hq] at h3; cases h3
            | some q => exact par_in_range hq
        have h1 := h.modNode p (fun x => { x with state := NState.closed }) (fun _ => rfl) (fun _ => rfl)
        obtain ⟨h2, _, _, hl2, _, _⟩ := h1.addBytes p (-(node (Fp.Prio.modNode s p fun x => { x with state := NState.closed }) p).bytes)
        have h3 := h2.modNode p (fun x => { x with q := [] }) (fun _ => rfl) (fun _ => rfl)
        have hpr3 : p < (Fp.Prio.modNode (Fp.Prio.addBytes (Fp.Prio.modNode s p fun x => { x with state := NState.closed }) p
            (-(node (Fp.Prio.modNode s p fun x => { x with state := NState.closed }) p).bytes)) p fun x => { x with q := [] }).heap.length := by
          rw [heap_len_modNode, hl2, heap_len_modNode]; exact hpr
        split
        · exact h3.addClosed hp0 hpr3
        · exact (h3.removeNode hp0 hpr3).1

/-! ### depth bound (pigeonhole) and the ancestor test of AdjustStream -/

theorem pigeon : ∀ (N : Nat) (l : List Nat), l.Nodup → (∀ x ∈ l, x < N) → l.length ≤ N := by
  intro N
  induction N with
  | zero =>
    intro l _ hl
    cases l with
    | nil => simp
    | cons a r => exact absurd (hl a (by simp)) (by omega)
  | succ N ih =>
    intro l hnd hl
    have h1 : (l.erase N).Nodup := hnd.erase N
    have h2 : ∀ x ∈ l.erase N, x < N := by
      intro x hx
      have hxl : x ∈ l := List.mem_of_mem_erase hx
      have hne : x ≠ N := by
        intro e; subst e
        exact (List.Nodup.mem_erase_iff hnd).mp hx |>.1 rfl
      have := hl x hxl
      omega
    have h3 := ih (l.erase N) h1 h2
    have h4 : l.length ≤ (l.erase N).length + 1 := by
      rw [List.length_erase]
      split <;> omega
    omega

def chain (s : PSt) : Nat → Nat → List Nat
  | 0, p => [p]
  | d + 1, p => p :: (match par s p with | some q => chain s d q | none => [])

theorem chain_spec (s : PSt) (hpos : 0 < s.heap.length) : ∀ d p, dist s d p = true →
    (chain s d p).length = d + 1 ∧ (∀ x ∈ chain s d p, x < s.heap.length ∧ ∃ d', d' ≤ d ∧ dist s d' x = true) ∧
    (chain s d p).Nodup := by
  intro d
  induction d with
  | zero =>
    intro p h
    simp [dist] at h; subst h
    refine ⟨rfl, ?_, by simp [chain]⟩
    intro x hx; simp [chain] at hx; subst hx
    exact ⟨hpos, 0, Nat.le_refl _, rfl⟩
  | succ d ih =>
    intro p h
    obtain ⟨hp0, q, hq, hdq⟩ := dist_succ h
    obtain ⟨i1, i2, i3⟩ := ih q hdq
    have hc : chain s (d + 1) p = p :: chain s d q := by simp [chain, hq]
    rw [hc]
    refine ⟨by simp [i1], ?_, ?_⟩
    · intro x hx
      simp only [List.mem_cons] at hx
      rcases hx with rfl | hx
      · exact ⟨par_in_range hq, d + 1, Nat.le_refl _, h⟩
      · obtain ⟨a, d', hle, hd'⟩ := i2 x hx
        exact ⟨a, d', Nat.le_succ_of_le hle, hd'⟩
    · refine List.nodup_cons.mpr ⟨?_, i3⟩
      intro hm
      obtain ⟨_, d', hle, hd'⟩ := i2 p hm
      have := dist_unique s _ _ _ h hd'
      omega

/-- no node is deeper than the heap is long -/
theorem depth_lt (s : PSt) (hpos : 0 < s.heap.length) {d p : Nat} (h : dist s d p = true) : d + 1 ≤ s.heap.length := by
  obtain ⟨h1, h2, h3⟩ := chain_spec s hpos d p h
  have := pigeon s.heap.length (chain s d p) h3 (fun x hx => (h2 x hx).1)
  omega

theorem isAncestor_sound (s : PSt) (a : Nat) : ∀ fuel x, isAncestor s a fuel (some x) = true → Anc s a x := by
  intro fuel
  induction fuel with
  | zero => intro x h; simp [isAncestor] at h
  | succ fuel ih =>
    intro x h
    simp only [isAncestor] at h
    split at h
    · rename_i e; subst e; exact Anc.refl
    · cases hq : (node s x).parent with
      | none => rw [hq] at h; cases fuel <;> simp [isAncestor] at h
      | some q => rw [hq] at h; exact Anc.step hq (ih q h)

theorem isAncestor_complete (s : PSt) (hroot : par s 0 = none) {a x : Nat} (h : Anc s a x) :
    ∀ d fuel, dist s d x = true → d < fuel → isAncestor s a fuel (some x) = true := by
  induction h with
  | refl =>
    intro d fuel _ hf
    cases fuel with
    | zero => omega
    | succ f => simp [isAncestor]
  | step hq _ ih =>
    intro d fuel hd hf
    rename_i p q _
    cases fuel with
    | zero => omega
    | succ f =>
      cases d with
      | zero => simp [dist] at hd; subst hd; rw [hroot] at hq; cases hq
      | succ d =>
        obtain ⟨_, q', hq', hdq⟩ := dist_succ hd
        rw [hq] at hq'; cases hq'
        simp only [isAncestor]
        split
        · rfl
        · have hq2 : (node s p).parent = some q := hq
          rw [hq2]
          exact ih d f hdq (by omega)

theorem anc_inv {s : PSt} {a p : Nat} (h : Anc s a p) : a = p ∨ ∃ q, par s p = some q ∧ Anc s a q := by
  cases h with
  | refl => left; rfl
  | step hq ha => right; exact ⟨_, hq, ha⟩

/-- an ancestor at the same depth is the node itself -/
theorem anc_same_depth {s : PSt} (hroot : par s 0 = none) {a p d : Nat} (h : Anc s a p) (hp : dist s d p = true)
    (ha : dist s d a = true) : a = p := by
  rcases anc_inv h with e | ⟨q, hq, haq⟩
  · exact e
  · cases d with
    | zero => simp [dist] at hp; subst hp; rw [hroot] at hq; cases hq
    | succ d =>
      obtain ⟨_, q', hq', hdq⟩ := dist_succ hp
      rw [hq] at hq'; cases hq'
      obtain ⟨d', hle, hda⟩ := anc_depth hroot haq d hdq
      have := dist_unique s _ _ _ ha hda
      omega

/-- chains that avoid the changed node are the same chains -/
theorem anc_congr_avoid {s s' : PSt} {m : Nat} (hsame : ∀ x, x ≠ m → par s' x = par s x) {a p : Nat}
    (h : Anc s' a p) (hav : ¬ Anc s m p) : Anc s a p := by
  induction h with
  | refl => exact Anc.refl
  | step hq _ ih =>
    rename_i p q _
    have hpm : p ≠ m := fun e => hav (e ▸ Anc.refl)
    have hq' : par s p = some q := by rw [← hsame p hpm]; exact hq
    exact Anc.step hq' (ih (fun ha => hav (Anc.step hq' ha)))

/-! ### AdjustStream -/

/-- frame and parent function of the exclusive move, over any base state -/
theorem moveUnder_frame (n : Nat) : ∀ (ks : List Nat) (s : PSt), (∀ k ∈ ks, k < s.heap.length) →
    (moveUnder s ks n).heap.length = s.heap.length ∧ (moveUnder s ks n).nodes = s.nodes ∧
    (moveUnder s ks n).closedNodes = s.closedNodes ∧ (moveUnder s ks n).idleNodes = s.idleNodes ∧
    (∀ x, (node (moveUnder s ks n) x).id = (node s x).id) ∧
    (∀ x, par (moveUnder s ks n) x = if x ∈ ks ∧ x ≠ n then some n else par s x) := by
  intro ks
  induction ks with
  | nil => intro s _; simp [moveUnder]
  | cons k r ih =>
    intro s hr
    unfold moveUnder
    simp only [List.foldl_cons]
    by_cases hkn : k = n
    · subst hkn
      simp only [ne_eq, not_true_eq_false, if_false]
      obtain ⟨t1, t2, t3, t4, t5, t6⟩ := ih s (fun k hk => hr k (by simp [hk]))
      refine ⟨t1, t2, t3, t4, t5, ?_⟩
      intro x
      have := t6 x
      unfold moveUnder at this
      rw [this]
      by_cases hx : x = k
      · subst hx; simp
      · simp [hx]
    · simp only [ne_eq, hkn, not_false_eq_true, if_true]
      have hkr : k < s.heap.length := hr k (by simp)
      obtain ⟨t1, t2, t3, t4, t5, t6⟩ := ih (setParent s k (some n))
        (fun k' hk' => by rw [heap_len_setParent]; exact hr k' (by simp [hk']))
      unfold moveUnder at t1 t2 t3 t4 t5 t6
      refine ⟨by rw [t1, heap_len_setParent], by rw [t2, nodes_setParent], by rw [t3, closed_setParent],
        by rw [t4, idle_setParent], fun x => by rw [t5, id_setParent], ?_⟩
      intro x
      rw [t6 x]
      by_cases hxr : x ∈ r ∧ x ≠ n
      · rw [if_pos hxr, if_pos ⟨by simp [hxr.1], hxr.2⟩]
      · rw [if_neg hxr]
        by_cases hx : x = k
        · subst hx
          rw [par_setParent_self s x _ hkr, if_pos ⟨by simp, hkn⟩]
        · rw [par_setParent_other s k x _ hx]
          have : ¬ (x ∈ k :: r ∧ x ≠ n) := by
            intro ⟨h1, h2⟩
            simp only [List.mem_cons] at h1
            rcases h1 with h1 | h1
            · exact hx h1
            · exact hxr ⟨h1, h2⟩
          rw [if_neg this]

/-- the kids of `parent` (all but `n`) move below `n`, which is itself a kid of `parent`: the invariant survives -/
theorem moveUnder_inv {n parent : Nat} : ∀ (ks : List Nat) (s : PSt), TreeInv s → par s n = some parent →
    (∀ k ∈ ks, par s k = some parent ∨ par s k = some n) →
    TreeInv (moveUnder s ks n) := by
  intro ks
  induction ks with
  | nil => intro s h _ _; exact h
  | cons k r ih =>
    intro s h hn hks
    unfold moveUnder
    simp only [List.foldl_cons]
    by_cases hkn : k = n
    · subst hkn
      simp only [ne_eq, not_true_eq_false, if_false]
      exact ih s h hn (fun k' hk' => hks k' (by simp [hk']))
    · simp only [ne_eq, hkn, not_false_eq_true, if_true]
      have hnr : Rooted s n := h.attached_rooted hn
      have hn0 : n ≠ 0 := fun e => by rw [e, h.rootPar] at hn; cases hn
      rcases hks k (by simp) with hk | hk
      · have hk0 : k ≠ 0 := fun e => by rw [e, h.rootPar] at hk; cases hk
        have hkr := par_in_range hk
        -- k and n are both kids of `parent`: same depth, so k is not on n's chain
        have hav : ¬ Anc s k n := by
          intro ha
          obtain ⟨d, hd⟩ := h.parRooted n parent hn
          have hdn := dist_step hn0 hn hd
          have hdk := dist_step hk0 hk hd
          exact hkn (anc_same_depth h.rootPar ha hdn hdk)
        have h1 := h.setParent_some hk0 hkr hnr hav
        have hnk : n ≠ k := fun e => hkn e.symm
        apply ih _ h1 (by rw [par_setParent_other s k n _ hnk]; exact hn)
        intro k' hk'
        by_cases e : k' = k
        · subst e; right; exact par_setParent_self s k' _ hkr
        · rw [par_setParent_other s k k' _ e]; exact hks k' (by simp [hk'])
      · have : setParent s k (some n) = s := by unfold setParent; simp [par] at hk; simp [hk]
        rw [this]
        exact ih s h hn (fun k' hk' => hks k' (by simp [hk']))

theorem TreeInv.adjustCore {s : PSt} (h : TreeInv s) {n g : Nat} (hn0 : n ≠ 0) (hng : par s n = some g)
    (dep weight : Nat) (excl : Bool) : TreeInv (adjustCore s n dep weight excl) := by
  have hnr : n < s.heap.length := par_in_range hng
  unfold Fp.Prio.adjustCore
  cases hl : lookup s dep with
  | none =>
    simp only
    have hav : ¬ Anc s n 0 := fun hh => hn0 (anc_root h.rootPar hh)
    have h1 := h.setParent_some hn0 hnr (rooted_zero s) hav
    refine h1.modNode _ _ ?_ ?_ <;> intro _ <;> rfl
  | some parent =>
    simp only
    split
    · exact h
    · rename_i hnp
      have hm := lookup_mem hl
      have hpr : Rooted s parent := h.mapped_rooted hm
      -- step (a): break the cycle if `n` is a proper ancestor of `parent`
      have hstepA : ∃ s1, s1 = (if isAncestor s n (s.heap.length + 1) (node s parent).parent = true
            then setParent s parent (node s n).parent else s) ∧
          TreeInv s1 ∧ Rooted s1 parent ∧ ¬ Anc s1 n parent ∧ par s1 n = some g ∧ s1.heap.length = s.heap.length ∧
          s1.nodes = s.nodes ∧ s1.closedNodes = s.closedNodes ∧ s1.idleNodes = s.idleNodes ∧
          (∀ x, (node s1 x).id = (node s x).id) := by
        by_cases hanc : isAncestor s n (s.heap.length + 1) (node s parent).parent = true
        · simp only [hanc, if_true]
          cases hq : (node s parent).parent with
          | none => rw [hq] at hanc; simp [isAncestor] at hanc
          | some q =>
            rw [hq] at hanc
            have hqp : par s parent = some q := hq
            have haq : Anc s n q := isAncestor_sound s n _ q hanc
            have hp0 : parent ≠ 0 := fun e => by rw [e, h.rootPar] at hqp; cases hqp
            have hprr := par_in_range hqp
            have hgr : Rooted s g := h.parRooted n g hng
            -- depth(parent) > depth(q) ≥ depth(n) > depth(g): parent is not on g's chain
            have hav : ¬ Anc s parent g := by
              intro ha
              obtain ⟨dg, hdg⟩ := hgr
              have hdn := dist_step hn0 hng hdg
              obtain ⟨dq, hdq⟩ := h.parRooted parent q hqp
              have hdp := dist_step hp0 hqp hdq
              obtain ⟨d1, hle1, hd1⟩ := anc_depth h.rootPar haq dq hdq
              have e1 := dist_unique s _ _ _ hdn hd1
              obtain ⟨d2, hle2, hd2⟩ := anc_depth h.rootPar ha dg hdg
              have e2 := dist_unique s _ _ _ hdp hd2
              omega
            have hgn : (node s n).parent = some g := hng
            rw [hgn]
            have h1 := h.setParent_some hp0 hprr hgr hav
            have hsame : ∀ x, x ≠ parent → par (setParent s parent (some g)) x = par s x :=
              fun x hx => par_setParent_other s parent x _ hx
            have hpn : par (setParent s parent (some g)) parent = some g := par_setParent_self s parent _ hprr
            refine ⟨_, rfl, h1, h1.attached_rooted hpn, ?_, by rw [hsame n hnp]; exact hng, heap_len_setParent _ _ _,
              nodes_setParent _ _ _, closed_setParent _ _ _, idle_setParent _ _ _, fun x => id_setParent _ _ _ _⟩
            intro ha
            rcases anc_inv ha with e | ⟨q', hq', haq'⟩
            · exact hnp e
            · rw [hpn] at hq'; cases hq'
              have := anc_congr_avoid hsame haq' hav
              exact not_anc_parent h.rootPar hng (h.attached_rooted hng) this
        · simp only [hanc, if_false]
          refine ⟨s, rfl, h, hpr, ?_, hng, rfl, rfl, rfl, rfl, fun _ => rfl⟩
          intro ha
          rcases anc_inv ha with e | ⟨q, hq, haq⟩
          · exact hnp e
          · obtain ⟨d, hd⟩ := h.parRooted parent q hq
            have hlt := depth_lt s h.heapPos hd
            have := isAncestor_complete s h.rootPar haq d (s.heap.length + 1) hd (by omega)
            have hq2 : (node s parent).parent = some q := hq
            rw [hq2] at hanc
            exact hanc this
      obtain ⟨s1, hs1, h1, hpr1, hav1, hng1, hlen1, hnodes1, hcl1, hidl1, hid1⟩ := hstepA
      rw [← hs1]
      have hnr1 : n < s1.heap.length := by rw [hlen1]; exact hnr
      -- the reordered sequence: first n below parent, then the other kids below n
      have ht := h1.setParent_some hn0 hnr1 hpr1 hav1
      have hpt : par (setParent s1 n (some parent)) n = some parent := par_setParent_self s1 n _ hnr1
      have hK : ∀ k ∈ kidsOf s1 parent, par (setParent s1 n (some parent)) k = some parent ∨
          par (setParent s1 n (some parent)) k = some n := by
        intro k hk
        have := (mem_kidsOf s1 parent k).mp hk
        by_cases e : k = n
        · subst e; left; exact hpt
        · left; rw [par_setParent_other s1 n k _ e]; exact this
      have hKr : ∀ k ∈ kidsOf s1 parent, k < s1.heap.length := fun k hk => par_in_range ((mem_kidsOf s1 parent k).mp hk)
      have hu := moveUnder_inv (kidsOf s1 parent) (setParent s1 n (some parent)) ht hpt hK
      obtain ⟨u1, u2, u3, u4, u5, u6⟩ := moveUnder_frame n (kidsOf s1 parent) (setParent s1 n (some parent))
        (fun k hk => by rw [heap_len_setParent]; exact hKr k hk)
      -- the actual order
      have hact : ∀ (b : PSt), (b = s1 ∨ b = moveUnder s1 (kidsOf s1 parent) n) →
          TreeInv (setParent b n (some parent)) := by
        intro b hb
        rcases hb with rfl | rfl
        · exact ht
        · obtain ⟨v1, v2, v3, v4, v5, v6⟩ := moveUnder_frame n (kidsOf s1 parent) s1 hKr
          have hnrv : n < (moveUnder s1 (kidsOf s1 parent) n).heap.length := by rw [v1]; exact hnr1
          apply hu.transfer
          · rw [heap_len_setParent, v1, u1, heap_len_setParent]
          · intro x
            by_cases hx : x = n
            · subst hx
              rw [par_setParent_self _ x _ hnrv, u6]
              simp [hpt]
            · rw [par_setParent_other _ n x _ hx, v6, u6, par_setParent_other s1 n x _ hx]
          · intro x; rw [id_setParent, v5, u5, id_setParent]
          · rw [nodes_setParent, v2, u2, nodes_setParent]
          · intro x hx; rw [closed_setParent, v3] at hx; rw [u3, closed_setParent]; exact hx
          · intro x hx; rw [idle_setParent, v4] at hx; rw [u4, idle_setParent]; exact hx
      cases excl with
      | true =>
        simp only [if_true]
        refine (hact _ (Or.inr rfl)).modNode _ _ ?_ ?_ <;> intro _ <;> rfl
      | false =>
        simp only [Bool.false_eq_true, if_false]
        refine (hact _ (Or.inl rfl)).modNode _ _ ?_ ?_ <;> intro _ <;> rfl

/-! ### Pop: the walk changes queues, byte counters, windows and the ORDER of siblings, never the parent function -/

/-- same tree: heap length, parent function, ids, map and the two lists agree -/
structure Frame (s s' : PSt) : Prop where
  len : s'.heap.length = s.heap.length
  par : ∀ x, Fp.Prio.par s' x = Fp.Prio.par s x
  ids : ∀ x, (node s' x).id = (node s x).id
  nodes : s'.nodes = s.nodes
  closed : s'.closedNodes = s.closedNodes
  idle : s'.idleNodes = s.idleNodes

theorem Frame.refl (s : PSt) : Frame s s := ⟨rfl, fun _ => rfl, fun _ => rfl, rfl, rfl, rfl⟩

theorem Frame.trans {a b c : PSt} (h1 : Frame a b) (h2 : Frame b c) : Frame a c :=
  ⟨by rw [h2.len, h1.len], fun x => by rw [h2.par, h1.par], fun x => by rw [h2.ids, h1.ids],
   by rw [h2.nodes, h1.nodes], by rw [h2.closed, h1.closed], by rw [h2.idle, h1.idle]⟩

theorem TreeInv.frame {s s' : PSt} (h : TreeInv s) (f : Frame s s') : TreeInv s' :=
  h.transfer f.len f.par f.ids f.nodes (fun x hx => by rw [f.closed] at hx; exact hx) (fun x hx => by rw [f.idle] at hx; exact hx)

theorem Frame.modNode (s : PSt) (p : Nat) (f : PNode → PNode) (hf : ∀ x, (f x).parent = x.parent) (hfi : ∀ x, (f x).id = x.id) :
    Frame s (modNode s p f) := by
  refine ⟨heap_len_modNode s p f, par_modNode_keep s p f hf, ?_, rfl, rfl, rfl⟩
  intro x
  by_cases hx : x = p
  · subst hx
    by_cases hp : x < s.heap.length
    · rw [node_modNode_self s x f hp, hfi]
    · simp [node, Fp.Prio.modNode, setNode, List.getD_eq_getElem?_getD, List.getElem?_set,
        List.getElem?_eq_none (Nat.le_of_not_lt hp), hp]
  · rw [node_modNode_other s p x f hx]

theorem Frame.addBytes_up (b : Int) : ∀ (fuel : Nat) (s : PSt) (p : Option Nat), Frame s (addBytes.up b fuel s p) := by
  intro fuel
  induction fuel with
  | zero => intro s p; cases p <;> exact Frame.refl s
  | succ fuel ih =>
    intro s p
    cases p with
    | none => exact Frame.refl s
    | some q =>
      unfold addBytes.up
      refine Frame.trans (b := Fp.Prio.modNode s q (fun x => { x with subtreeBytes := x.subtreeBytes + b })) ?_ (ih _ _)
      apply Frame.modNode <;> intro _ <;> rfl

theorem Frame.addBytes (s : PSt) (n : Nat) (b : Int) : Frame s (addBytes s n b) := by
  unfold Fp.Prio.addBytes
  simp only
  refine Frame.trans (b := Fp.Prio.modNode s n (fun x => { x with bytes := x.bytes + b })) ?_ (Frame.addBytes_up b _ _ _)
  apply Frame.modNode <;> intro _ <;> rfl

theorem mem_insRev {α} (less : α → α → Bool) (x y : α) (l : List α) : x ∈ insRev less y l ↔ x = y ∨ x ∈ l := by
  induction l with
  | nil => simp [insRev]
  | cons z r ih =>
    unfold insRev
    split
    · simp only [List.mem_cons, ih]
      constructor
      · rintro (h | h | h)
        · right; left; exact h
        · left; exact h
        · right; right; exact h
      · rintro (h | h | h)
        · right; left; exact h
        · left; exact h
        · right; right; exact h
    · simp

theorem mem_insertionSort {α} (less : α → α → Bool) (x : α) (l : List α) : x ∈ insertionSort less l ↔ x ∈ l := by
  unfold insertionSort
  rw [List.mem_reverse]
  have key : ∀ (l acc : List α), x ∈ l.foldl (fun acc y => insRev less y acc) acc ↔ x ∈ l ∨ x ∈ acc := by
    intro l
    induction l with
    | nil => intro acc; simp
    | cons y r ih =>
      intro acc
      rw [List.foldl_cons, ih, mem_insRev]
      simp only [List.mem_cons]
      constructor
      · rintro (h | h | h)
        · left; right; exact h
        · left; left; exact h
        · right; exact h
      · rintro ((h | h) | h)
        · right; left; exact h
        · left; exact h
        · right; right; exact h
  rw [key]; simp

/-- linking every pointer of a list to the same target -/
theorem setAll_spec (target : Option Nat) : ∀ (l : List Nat) (s : PSt), (∀ k ∈ l, k < s.heap.length) →
    let s' := l.foldl (fun s k => setParent s k target) s
    s'.heap.length = s.heap.length ∧ s'.nodes = s.nodes ∧ s'.closedNodes = s.closedNodes ∧ s'.idleNodes = s.idleNodes ∧
    (∀ x, (node s' x).id = (node s x).id) ∧ (∀ x, par s' x = if x ∈ l then target else par s x) := by
  intro l
  induction l with
  | nil => intro s _; simp
  | cons k r ih =>
    intro s hr
    simp only [List.foldl_cons]
    have hkr : k < s.heap.length := hr k (by simp)
    obtain ⟨t1, t2, t3, t4, t5, t6⟩ := ih (setParent s k target) (fun k' hk' => by rw [heap_len_setParent]; exact hr k' (by simp [hk']))
    refine ⟨by rw [t1, heap_len_setParent], by rw [t2, nodes_setParent], by rw [t3, closed_setParent],
      by rw [t4, idle_setParent], fun x => by rw [t5, id_setParent], ?_⟩
    intro x
    rw [t6 x]
    by_cases hxr : x ∈ r
    · rw [if_pos hxr, if_pos (by simp [hxr])]
    · rw [if_neg hxr]
      by_cases hx : x = k
      · subst hx; rw [par_setParent_self s x _ hkr, if_pos (by simp)]
      · rw [par_setParent_other s k x _ hx, if_neg (by simp [hx, hxr])]

theorem Frame.sortKids (s : PSt) (p : Nat) (less : PNode → PNode → Bool) : Frame s (sortKids s p less) := by
  unfold Fp.Prio.sortKids
  cases hk : kidsOf s p with
  | nil => exact Frame.refl s
  | cons k0 rest =>
    simp only
    split
    · exact Frame.refl s
    · have hr : ∀ k ∈ k0 :: rest, k < s.heap.length := fun k hk' => by
        rw [← hk] at hk'; exact par_in_range ((mem_kidsOf s p k).mp hk')
      obtain ⟨d1, d2, d3, d4, d5, d6⟩ := setAll_spec none (k0 :: rest) s hr
      generalize hsd : (k0 :: rest).foldl (fun s k => setParent s k none) s = sd at d1 d2 d3 d4 d5 d6 ⊢
      generalize hso : insertionSort (fun a b => less (node sd a) (node sd b)) (k0 :: rest) = sorted
      have hmem : ∀ x, x ∈ sorted.reverse ↔ x ∈ k0 :: rest := by
        intro x; rw [List.mem_reverse, ← hso, mem_insertionSort]
      obtain ⟨e1, e2, e3, e4, e5, e6⟩ := setAll_spec (some p) sorted.reverse sd
        (fun k hk' => by rw [d1]; exact hr k ((hmem k).mp hk'))
      refine ⟨by rw [e1, d1], ?_, fun x => by rw [e5, d5], by rw [e2, d2], by rw [e3, d3], by rw [e4, d4]⟩
      intro x
      rw [e6 x]
      by_cases hx : x ∈ k0 :: rest
      · rw [if_pos ((hmem x).mpr hx)]
        rw [← hk] at hx
        exact ((mem_kidsOf s p x).mp hx).symm
      · rw [if_neg (fun h => hx ((hmem x).mp h)), d6 x, if_neg hx]

theorem Frame.winOnly (s : PSt) (w : Sched.St) : Frame s { s with win := w } := ⟨rfl, fun _ => rfl, fun _ => rfl, rfl, rfl, rfl⟩
theorem Frame.throttleOnly (s : PSt) (t : Int) : Frame s { s with throttle := t } := ⟨rfl, fun _ => rfl, fun _ => rfl, rfl, rfl, rfl⟩

theorem Frame.popHere (s : PSt) (n : Nat) (op : Bool) (s' : PSt) (p : Sched.Popped) (h : popHere s n op = some (s', p)) :
    Frame s s' := by
  unfold Fp.Prio.popHere at h
  simp only at h
  split at h
  · cases h
  · split at h
    · cases h
    · rename_i pp q' taken sid _
      simp only [Option.some.injEq, Prod.mk.injEq] at h
      obtain ⟨h1, _⟩ := h
      subst h1
      have f1 : Frame s (Fp.Prio.modNode s n (fun x => { x with q := q' })) := by
        apply Frame.modNode <;> intro _ <;> rfl
      have f2 := Frame.winOnly (Fp.Prio.modNode s n (fun x => { x with q := q' }))
        (Sched.takeWin (Fp.Prio.modNode s n (fun x => { x with q := q' })).win sid taken)
      have f3 := Frame.addBytes { Fp.Prio.modNode s n (fun x => { x with q := q' }) with
        win := Sched.takeWin (Fp.Prio.modNode s n (fun x => { x with q := q' })).win sid taken } n taken
      have f123 := (f1.trans f2).trans f3
      split
      · exact f123.trans (Frame.throttleOnly _ _)
      · split
        · exact f123.trans (Frame.throttleOnly _ _)
        · exact f123

theorem Frame.walkKids (visit : PSt → Nat → PSt × Option Sched.Popped) (hv : ∀ s k, Frame s (visit s k).1) :
    ∀ (ks : List Nat) (s : PSt), Frame s (walkKids visit s ks).1 := by
  intro ks
  induction ks with
  | nil => intro s; exact Frame.refl s
  | cons k r ih =>
    intro s
    unfold Fp.Prio.walkKids
    have := hv s k
    generalize hr : visit s k = res at this ⊢
    obtain ⟨s1, o⟩ := res
    cases o with
    | some p => exact this
    | none => exact Frame.trans this (ih s1)

theorem Frame.walk (less : PNode → PNode → Bool) : ∀ (fuel : Nat) (s : PSt) (n : Nat) (op : Bool),
    Frame s (walk less fuel s n op).1 := by
  intro fuel
  induction fuel with
  | zero => intro s n op; exact Frame.refl s
  | succ fuel ih =>
    intro s n op
    unfold Fp.Prio.walk
    cases hp : Fp.Prio.popHere s n op with
    | some r =>
      obtain ⟨s', p⟩ := r
      exact Frame.popHere s n op s' p hp
    | none =>
      simp only
      split
      · exact Frame.refl s
      · exact (Frame.sortKids s n less).trans (Frame.walkKids _ (fun s k => ih s k _) _ _)

theorem TreeInv.pop {s : PSt} (h : TreeInv s) (less : PNode → PNode → Bool) : TreeInv (pop less s).1 := by
  unfold Fp.Prio.pop
  have := Frame.walk less (s.heap.length + 2) s 0 false
  generalize walk less (s.heap.length + 2) s 0 false = r at this
  obtain ⟨s', o⟩ := r
  cases o <;> exact h.frame this

theorem TreeInv.addIdle_keeps {s : PSt} (h : TreeInv s) (n c : Nat) (hc : par s c = some 0) (hci : c ∉ s.idleNodes) :
    par (Fp.Prio.addIdle s n) c = some 0 := by
  unfold Fp.Prio.addIdle
  split
  · exact hc
  · simp only
    split
    · cases hi : s.idleNodes with
      | nil => exact hc
      | cons x rest =>
        simp only
        have hx0 : x ≠ 0 := fun e => h.listsNoRoot.2 (by rw [hi, e]; simp)
        have hcx : c ≠ x := fun e => hci (by rw [hi, e]; simp)
        -- removeNode x: c is neither x nor a kid of x
        show par (Fp.Prio.removeNode s x) c = some 0
        unfold Fp.Prio.removeNode
        simp only
        have hc1 : par ((kidsOf s x).foldl (fun t k => setParent t k (node s x).parent) s) c = some 0 := by
          have hr : ∀ k ∈ kidsOf s x, k < s.heap.length := fun k hk => par_in_range ((mem_kidsOf s x k).mp hk)
          obtain ⟨_, _, _, _, _, t6⟩ := setAll_spec (node s x).parent (kidsOf s x) s hr
          rw [t6 c]
          have : c ∉ kidsOf s x := by
            intro hm
            have := (mem_kidsOf s x c).mp hm
            rw [hc] at this; cases this; exact hx0 rfl
          rw [if_neg this]; exact hc
        show par (setParent _ x none) c = some 0
        rw [par_setParent_other _ x c _ hcx]; exact hc1
    · exact hc

theorem TreeInv.adjustStream {s : PSt} (h : TreeInv s) (id dep weight : Nat) (excl : Bool) :
    TreeInv (adjustStream s id dep weight excl).1 := by
  unfold Fp.Prio.adjustStream
  split
  · exact h
  · rename_i hid
    cases hl : lookup s id with
    | some p =>
      simp only
      have hm := lookup_mem hl
      rcases h.mapped id p hm with ⟨_, h2⟩ | ⟨h1, _, h3⟩
      · exact absurd h2 hid
      · cases hq : par s p with
        | none => rw [hq] at h3; cases h3
        | some g => exact h.adjustCore h1 hq dep weight excl
    | none =>
      simp only
      split
      · exact h
      · obtain ⟨h3, hp0, hpr⟩ := h.newNode id NState.idle hid id
        have hpar : par (setParent (Fp.Prio.alloc s { id := id, state := NState.idle }).1
            (Fp.Prio.alloc s { id := id, state := NState.idle }).2 (some 0))
            (Fp.Prio.alloc s { id := id, state := NState.idle }).2 = some 0 := by
          apply par_setParent_self
          rw [heap_len_setParent] at hpr; exact hpr
        have h4 := h3.addIdle hp0 hpr
        have hnotidle : (Fp.Prio.alloc s { id := id, state := NState.idle }).2 ∉ s.idleNodes := by
          intro hm
          have := h.listsInRange.2 _ hm
          simp [Fp.Prio.alloc] at this
        have hkeep := h3.addIdle_keeps (Fp.Prio.alloc s { id := id, state := NState.idle }).2
          (Fp.Prio.alloc s { id := id, state := NState.idle }).2 hpar
          (by simpa [idle_setParent, Fp.Prio.alloc] using hnotidle)
        exact h4.adjustCore hp0 hkeep dep weight excl

/-- every operation of the scheduler interface keeps the dependency structure a tree rooted at stream 0 -/
theorem TreeInv.step {s : PSt} (h : TreeInv s) (less : PNode → PNode → Bool) (op : POp) : TreeInv (step less s op).1 := by
  cases op with
  | open_ id pusher => exact h.openStream id pusher
  | close id => exact h.closeStream id
  | adjust id dep w e => exact h.adjustStream id dep w e
  | push r => exact h.push r
  | pop => exact h.pop less
  | addWin sid n => exact h.frame (Frame.winOnly s _)
  | addConn n => exact h.frame (Frame.winOnly s _)
  | setMax n => exact h.frame (Frame.winOnly s _)

theorem TreeInv.init (mc mi : Nat) (th : Bool) : TreeInv (PSt.init mc mi th) := by
  constructor
  · simp [PSt.init]
  · rfl
  · intro c q hc
    have : c = 0 ∨ 1 ≤ c := by omega
    rcases this with rfl | hc1
    · cases hc
    · simp [par, node, PSt.init, List.getD_eq_getElem?_getD, List.getElem?_eq_none, hc1] at hc
  · intro id p hm
    simp [PSt.init] at hm
    left; exact ⟨hm.2, hm.1⟩
  · intro id p hm
    simp [PSt.init] at hm
    obtain ⟨rfl, rfl⟩ := hm
    rfl
  · intro p hp0 hpr
    simp [PSt.init] at hpr
    omega
  · rfl
  · simp [PSt.init]
  · simp [PSt.init]

end Fp.Prio
