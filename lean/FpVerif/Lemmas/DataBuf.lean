/-
dataBuffer refines a FIFO byte queue: `contents` is the abstraction map; Write appends, Read takes a prefix.
-/
import FpVerif.Model.DataBuf
set_option linter.unusedSimpArgs false
set_option linter.unusedVariables false
namespace Fp.DBuf
variable {α : Type}

/-- the representation invariant of dataBuffer -/
structure Inv (b : DBuf α) : Prop where
  frontFull : ∀ c ∈ b.front, c.bytes.length = c.cap ∧ 0 < c.cap
  lastOk : ∀ c, b.last = some c → c.bytes.length ≤ c.cap ∧ 0 < c.cap
  lastNone : b.last = none → b.front = [] ∧ b.r = 0
  rOk : ∀ c, firstChunk b = some c → b.r ≤ c.bytes.length ∧ b.r < c.cap
  sizeOk : b.size = (contents b).length

theorem inv_empty (e : Int) : Inv ({ expected := e } : DBuf α) where
  frontFull := by intro c hc; cases hc
  lastOk := by intro c hc; cases hc
  lastNone := by intro _; exact ⟨rfl, rfl⟩
  rOk := by intro c hc; cases hc
  sizeOk := by simp [contents, total, lastBytes]

theorem chunkSize_pos (w : Int) : 0 < chunkSize w := by
  unfold chunkSize; repeat' split
  all_goals decide

/-- r never points beyond the bytes held -/
theorem r_le_total (b : DBuf α) (h : Inv b) : b.r ≤ (total b).length := by
  cases hf : b.front with
  | nil =>
    cases hl : b.last with
    | none => have := (h.lastNone hl).2; omega
    | some c =>
      have := (h.rOk c (by simp [firstChunk, hf, hl])).1
      simp [total, lastBytes, hf, hl]; omega
  | cons c rest =>
    have := (h.rOk c (by simp [firstChunk, hf])).1
    simp [total, hf]; omega

theorem drop_append_of_le (l x : List α) (r : Nat) (h : r ≤ l.length) : (l ++ x).drop r = l.drop r ++ x := by
  rw [List.drop_append_of_le_length h]

/-- one iteration of Write: consumes n ≥ 1 bytes of p and appends them -/
theorem writeStep_spec (b : DBuf α) (p : List α) (h : Inv b) (hp : p ≠ []) :
    ∃ n, 0 < n ∧ n ≤ p.length ∧ (writeStep b p).2 = p.drop n ∧
      contents (writeStep b p).1 = contents b ++ p.take n ∧ Inv (writeStep b p).1 := by
  have hplen : 0 < p.length := List.length_pos_iff.mpr hp
  have hr := r_le_total b h
  cases hl : b.last with
  | none =>
    obtain ⟨hf, hr0⟩ := h.lastNone hl
    have hcs := chunkSize_pos (wantOf b p)
    refine ⟨min (chunkSize (wantOf b p)) p.length, by omega, by omega, ?_, ?_, ?_⟩
    · simp [writeStep, lastChunkOrAlloc, hl]
    · simp [writeStep, lastChunkOrAlloc, hl, contents, total, lastBytes, hf, hr0]
    · constructor
      · intro c hc; simp [writeStep, lastChunkOrAlloc, hl, hf] at hc
      · intro c hc
        simp [writeStep, lastChunkOrAlloc, hl] at hc
        subst hc
        simp; omega
      · intro hc; simp [writeStep, lastChunkOrAlloc, hl] at hc
      · intro c hc
        simp [writeStep, lastChunkOrAlloc, hl, firstChunk, hf] at hc
        subst hc
        simp [writeStep, lastChunkOrAlloc, hl, hr0]; omega
      · simp [writeStep, lastChunkOrAlloc, hl, contents, total, lastBytes, hf, hr0]
        have := h.sizeOk
        simp [contents, total, lastBytes, hf, hl, hr0] at this
        omega
  | some c =>
    obtain ⟨hcle, hcpos⟩ := h.lastOk c hl
    by_cases hroom : c.bytes.length < c.cap
    · -- room in the last chunk
      refine ⟨min (c.cap - c.bytes.length) p.length, by omega, by omega, ?_, ?_, ?_⟩
      · simp [writeStep, lastChunkOrAlloc, hl, hroom]
      · simp only [writeStep, lastChunkOrAlloc, hl, hroom, if_true, contents, total, lastBytes]
        rw [← List.append_assoc, drop_append_of_le _ _ _ (by simpa [total, lastBytes, hl] using hr)]
      · constructor
        · intro c' hc'; simp [writeStep, lastChunkOrAlloc, hl, hroom] at hc'; exact h.frontFull c' hc'
        · intro c' hc'
          simp [writeStep, lastChunkOrAlloc, hl, hroom] at hc'
          subst hc'
          simp; omega
        · intro hc'; simp [writeStep, lastChunkOrAlloc, hl, hroom] at hc'
        · intro c' hc'
          cases hf : b.front with
          | nil =>
            simp [writeStep, lastChunkOrAlloc, hl, hroom, firstChunk, hf] at hc'
            subst hc'
            have := h.rOk c (by simp [firstChunk, hf, hl])
            simp [writeStep, lastChunkOrAlloc, hl, hroom]; omega
          | cons c0 rest =>
            simp [writeStep, lastChunkOrAlloc, hl, hroom, firstChunk, hf] at hc'
            subst hc'
            have := h.rOk c0 (by simp [firstChunk, hf])
            simp [writeStep, lastChunkOrAlloc, hl, hroom]; omega
        · have := h.sizeOk
          simp [contents, total, lastBytes, hl] at this
          simp [writeStep, lastChunkOrAlloc, hl, hroom, contents, total, lastBytes]
          simp [total, lastBytes, hl] at hr
          omega
    · -- last chunk full: allocate
      have hfull : c.bytes.length = c.cap := by omega
      have hcs := chunkSize_pos (wantOf b p)
      refine ⟨min (chunkSize (wantOf b p)) p.length, by omega, by omega, ?_, ?_, ?_⟩
      · simp [writeStep, lastChunkOrAlloc, hl, hroom]
      · simp only [writeStep, lastChunkOrAlloc, hl, hroom, if_false, contents, total, lastBytes, List.flatMap_append,
          List.flatMap_cons, List.flatMap_nil, List.append_nil, List.nil_append, Nat.sub_zero, List.length_nil]
        rw [drop_append_of_le _ _ _ (by simpa [total, lastBytes, hl] using hr)]
      · constructor
        · intro c' hc'
          simp [writeStep, lastChunkOrAlloc, hl, hroom] at hc'
          rcases hc' with hc' | hc'
          · exact h.frontFull c' hc'
          · subst hc'; exact ⟨hfull, hcpos⟩
        · intro c' hc'
          simp [writeStep, lastChunkOrAlloc, hl, hroom] at hc'
          subst hc'
          simp; omega
        · intro hc'; simp [writeStep, lastChunkOrAlloc, hl, hroom] at hc'
        · intro c' hc'
          cases hf : b.front with
          | nil =>
            simp [writeStep, lastChunkOrAlloc, hl, hroom, firstChunk, hf] at hc'
            subst hc'
            have := h.rOk c (by simp [firstChunk, hf, hl])
            simp [writeStep, lastChunkOrAlloc, hl, hroom]; omega
          | cons c0 rest =>
            simp [writeStep, lastChunkOrAlloc, hl, hroom, firstChunk, hf] at hc'
            subst hc'
            have := h.rOk c0 (by simp [firstChunk, hf])
            simp [writeStep, lastChunkOrAlloc, hl, hroom]; omega
        · have := h.sizeOk
          simp [contents, total, lastBytes, hl] at this
          simp [writeStep, lastChunkOrAlloc, hl, hroom, contents, total, lastBytes]
          simp [total, lastBytes, hl] at hr
          omega

theorem writeLoop_spec (fuel : Nat) : ∀ (b : DBuf α) (p : List α), Inv b → p.length ≤ fuel →
    contents (writeLoop fuel b p) = contents b ++ p ∧ Inv (writeLoop fuel b p) := by
  induction fuel with
  | zero =>
    intro b p h hl
    have : p = [] := List.length_eq_zero_iff.mp (by omega)
    subst this
    simp [writeLoop, h]
  | succ fuel ih =>
    intro b p h hl
    unfold writeLoop
    by_cases hp : p = []
    · subst hp; simp [h]
    · have hpe : p.isEmpty = false := by cases p <;> simp at hp ⊢
      simp only [hpe, Bool.false_eq_true, if_false]
      obtain ⟨n, hn0, hnle, hrest, hcont, hinv⟩ := writeStep_spec b p h hp
      have := ih (writeStep b p).1 (writeStep b p).2 hinv (by rw [hrest, List.length_drop]; omega)
      refine ⟨?_, this.2⟩
      rw [this.1, hcont, hrest, List.append_assoc, List.take_append_drop]

/-- WRITE APPENDS: after `Write(p)` the buffer holds its old contents followed by exactly `p` -/
theorem write_spec (b : DBuf α) (p : List α) (h : Inv b) :
    contents (write b p) = contents b ++ p ∧ Inv (write b p) :=
  writeLoop_spec (p.length + 1) b p h (by omega)

/-- one iteration of Read takes k ≥ 1 bytes (when asked for ≥ 1 and the buffer is non-empty) from the front -/
theorem readStep_spec (b : DBuf α) (n : Nat) (h : Inv b) (hn : 0 < n) (hs : 0 < b.size) :
    ∃ k, 0 < k ∧ k ≤ n ∧ (readStep b n).2 = (contents b).take k ∧ ((readStep b n).2).length = k ∧
      contents (readStep b n).1 = (contents b).drop k ∧ Inv (readStep b n).1 := by
  have hsz := h.sizeOk
  cases hf : b.front with
  | nil =>
    cases hl : b.last with
    | none =>
      simp [contents, total, lastBytes, hf, hl] at hsz; omega
    | some c =>
      obtain ⟨hr1, hr2⟩ := h.rOk c (by simp [firstChunk, hf, hl])
      obtain ⟨hcle, hcpos⟩ := h.lastOk c hl
      have hcont : contents b = c.bytes.drop b.r := by simp [contents, total, lastBytes, hf, hl]
      have hlen : (c.bytes.drop b.r).length = c.bytes.length - b.r := List.length_drop
      rw [hcont, hlen] at hsz
      refine ⟨min n (c.bytes.length - b.r), by omega, by omega, ?_, ?_, ?_, ?_⟩
      · simp [readStep, firstChunk, hf, hl, hcont]
      · simp [readStep, firstChunk, hf, hl]
      · simp only [readStep, firstChunk, hf, hl, hlen]
        split
        · simp [dropFirst, hf, contents, total, lastBytes]
          rename_i heq
          try simp at heq
          simp only [hl]; omega
        · simp [contents, total, lastBytes, hf, hl, Nat.add_comm]
      · simp only [readStep, firstChunk, hf, hl, hlen]
        split
        · rename_i heq
          try simp at heq
          constructor
          · intro c' hc'; simp [dropFirst, hf] at hc'
          · intro c' hc'; simp [dropFirst, hf] at hc'
          · intro _; simp [dropFirst, hf]
          · intro c' hc'; simp [dropFirst, hf, firstChunk] at hc'
          · simp [dropFirst, hf, contents, total, lastBytes]; omega
        · rename_i hne
          try simp at hne
          constructor
          · intro c' hc'; simp [hf] at hc'
          · intro c' hc'; simp [hl] at hc'; subst hc'; exact ⟨hcle, hcpos⟩
          · intro hc'; simp [hl] at hc'
          · intro c' hc'
            simp [firstChunk, hf, hl] at hc'
            subst hc'
            simp; omega
          · simp [contents, total, lastBytes, hf, hl]; omega
  | cons c rest =>
    obtain ⟨hr1, hr2⟩ := h.rOk c (by simp [firstChunk, hf])
    obtain ⟨hfull, hcpos⟩ := h.frontFull c (by simp [hf])
    have hcont : contents b = c.bytes.drop b.r ++ (rest.flatMap (·.bytes) ++ lastBytes b) := by
      simp only [contents, total, hf, List.flatMap_cons, List.append_assoc]
      rw [drop_append_of_le _ _ _ hr1]
    have hlen : (c.bytes.drop b.r).length = c.bytes.length - b.r := List.length_drop
    refine ⟨min n (c.bytes.length - b.r), by omega, by omega, ?_, ?_, ?_, ?_⟩
    · simp only [readStep, firstChunk, hf, hcont, hlen]
      rw [List.take_append_of_le_length (by rw [hlen]; omega)]
    · simp [readStep, firstChunk, hf]
    · simp only [readStep, firstChunk, hf, hlen]
      split
      · rename_i heq
        try simp at heq
        rw [hcont]
        have : min n (c.bytes.length - b.r) = (c.bytes.drop b.r).length := by rw [hlen]; omega
        rw [this, List.drop_left]
        simp [dropFirst, hf, contents, total, lastBytes]
      · rename_i hne
        try simp at hne
        simp only [contents, total, hf, List.flatMap_cons, List.append_assoc, List.drop_drop]
        rw [Nat.add_comm]
        rfl
    · simp only [readStep, firstChunk, hf, hlen]
      have hlast : b.last ≠ none := by
        intro hn
        have := (h.lastNone hn).1
        rw [hf] at this; cases this
      split
      · rename_i heq
        try simp at heq
        constructor
        · intro c' hc'; simp [dropFirst, hf] at hc'; exact h.frontFull c' (by simp [hf, hc'])
        · intro c' hc'; simp [dropFirst, hf] at hc'; exact h.lastOk c' hc'
        · intro hc'; simp [dropFirst, hf] at hc'; exact absurd hc' hlast
        · intro c' hc'
          simp only [dropFirst, hf, firstChunk] at hc' ⊢
          cases hrest : rest with
          | nil =>
            rw [hrest] at hc'
            simp only at hc'
            have := h.lastOk c' hc'
            simp; omega
          | cons c2 r2 =>
            rw [hrest] at hc'
            simp only [Option.some.injEq] at hc'
            subst hc'
            have := h.frontFull c2 (by simp [hf, hrest])
            simp; omega
        · have := h.sizeOk
          rw [hcont] at this
          simp [dropFirst, hf, contents, total, lastBytes] at this ⊢
          omega
      · rename_i hne
        try simp at hne
        constructor
        · intro c' hc'; exact h.frontFull c' (by rw [hf]; exact hc')
        · intro c' hc'; exact h.lastOk c' hc'
        · intro hc'; exact absurd hc' hlast
        · intro c' hc'
          simp [firstChunk, hf] at hc'
          subst hc'
          simp; omega
        · have := h.sizeOk
          rw [hcont] at this
          simp only [contents, total, hf, List.flatMap_cons, List.append_assoc]
          simp [lastBytes] at this ⊢
          omega

theorem readLoop_spec (fuel : Nat) : ∀ (b : DBuf α) (n : Nat) (acc : List α), Inv b → n ≤ fuel →
    (readLoop fuel b n acc).2 = acc ++ (contents b).take n ∧
    contents (readLoop fuel b n acc).1 = (contents b).drop n ∧ Inv (readLoop fuel b n acc).1 := by
  induction fuel with
  | zero =>
    intro b n acc h hn
    have : n = 0 := by omega
    subst this
    simp [readLoop, h]
  | succ fuel ih =>
    intro b n acc h hn
    unfold readLoop
    by_cases hz : n = 0 ∨ b.size = 0
    · simp only [hz, if_true]
      rcases hz with hz | hz
      · subst hz; simp [h]
      · have := h.sizeOk
        rw [hz] at this
        have hc : contents b = [] := List.length_eq_zero_iff.mp this.symm
        simp [hc, h]
    · simp only [hz, if_false]
      have hn0 : 0 < n := by omega
      have hs0 : 0 < b.size := by omega
      obtain ⟨k, hk0, hkn, hgot, hgl, hcont, hinv⟩ := readStep_spec b n h hn0 hs0
      have := ih (readStep b n).1 (n - (readStep b n).2.length) (acc ++ (readStep b n).2) hinv (by rw [hgl]; omega)
      rw [hgl] at this ⊢
      obtain ⟨h1, h2, h3⟩ := this
      refine ⟨?_, ?_, h3⟩
      · rw [h1, hgot, hcont, List.append_assoc]
        congr 1
        have : n = k + (n - k) := by omega
        conv => rhs; rw [this, List.take_add]
      · rw [h2, hcont, List.drop_drop]
        congr 1; omega

/-- READ TAKES A PREFIX: `Read(p)` with `len(p) = n` on a non-empty buffer returns the first `min n size` bytes
held, in order, and leaves the rest; on an empty buffer it fails (errReadEmpty) -/
theorem read_spec (b : DBuf α) (n : Nat) (h : Inv b) :
    (contents b = [] → read b n = none) ∧
    (contents b ≠ [] → ∃ b', read b n = some (b', (contents b).take n) ∧ contents b' = (contents b).drop n ∧ Inv b') := by
  have hsz := h.sizeOk
  constructor
  · intro hc
    rw [hc] at hsz
    simp [read, hsz]
  · intro hc
    have : b.size ≠ 0 := by
      intro h0
      rw [h0] at hsz
      exact hc (List.length_eq_zero_iff.mp hsz.symm)
    obtain ⟨h1, h2, h3⟩ := readLoop_spec (n + 1) b n [] h (by omega)
    refine ⟨(readLoop (n + 1) b n []).1, ?_, h2, h3⟩
    simp only [read, this, if_false]
    congr 1
    exact Prod.ext rfl (by simpa using h1)

end Fp.DBuf
