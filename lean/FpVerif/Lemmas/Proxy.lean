import FpVerif.Spec.Proxy
set_option linter.unusedSimpArgs false
set_option linter.unusedVariables false
namespace Fp.Proxy
open Fp.Spec.Proxy

theorem get_del_self (h : Hdr) (k : Bytes) : get (del h k) k = [] := by
  unfold get del
  have : List.find? (fun x => x.1 == k) (List.filter (fun e => !(e.1 == k)) h) = none := by
    rw [List.find?_eq_none]
    intro x hx
    have := (List.mem_filter.mp hx).2
    simpa using this
  simp [this]

theorem find_del_ne (h : Hdr) (k k' : Bytes) (hne : k' ≠ k) :
    List.find? (fun x => x.1 == k') (del h k) = List.find? (fun x => x.1 == k') h := by
  unfold del
  induction h with
  | nil => rfl
  | cons e r ih =>
    cases hek : (e.1 == k) with
    | true =>
      have : e.1 = k := by simpa using hek
      have hek' : (e.1 == k') = false := by
        rw [this]; simp; exact fun h => hne h.symm
      simp only [List.filter_cons, hek, Bool.not_true, Bool.false_eq_true, if_false, List.find?_cons, hek', ih]
    | false =>
      simp only [List.filter_cons, hek, Bool.not_false, if_true, List.find?_cons, ih]

theorem get_del_ne (h : Hdr) (k k' : Bytes) (hne : k' ≠ k) : get (del h k) k' = get h k' := by
  unfold get; rw [find_del_ne h k k' hne]

theorem get_assign_self (h : Hdr) (k : Bytes) (vs : List Bytes) : get (assign h k vs) k = vs := by
  unfold assign get
  have hnone : List.find? (fun x => x.1 == k) (del h k) = none := by
    unfold del
    rw [List.find?_eq_none]
    intro x hx
    have := (List.mem_filter.mp hx).2
    simpa using this
  simp [List.find?_append, hnone]

theorem get_assign_ne (h : Hdr) (k k' : Bytes) (vs : List Bytes) (hne : k' ≠ k) :
    get (assign h k vs) k' = get h k' := by
  have h1 := get_del_ne h k k' hne
  unfold assign
  unfold get at *
  have hk : ¬ (k = k') := fun h => hne h.symm
  cases hf : List.find? (fun x => x.1 == k') (del h k) with
  | some v => simp [List.find?_append, hf] at h1 ⊢; exact h1
  | none => simp [List.find?_append, hf, hk] at h1 ⊢; exact h1

theorem any_del_ne (h : Hdr) (k k' : Bytes) (hne : k' ≠ k) :
    (del h k).any (fun x => x.1 == k') = h.any (fun x => x.1 == k') := by
  unfold del
  induction h with
  | nil => rfl
  | cons e r ih =>
    cases hek : (e.1 == k) with
    | true =>
      have : e.1 = k := by simpa using hek
      have hek' : (e.1 == k') = false := by
        rw [this]; simp; exact fun h => hne h.symm
      simp only [List.filter_cons, hek, Bool.not_true, Bool.false_eq_true, if_false, List.any_cons, hek', ih, Bool.false_or]
    | false =>
      simp only [List.filter_cons, hek, Bool.not_false, if_true, List.any_cons, ih]

theorem has_assign_ne (h : Hdr) (k k' : Bytes) (vs : List Bytes) (hne : k' ≠ k) :
    has (assign h k vs) k' = has h k' := by
  unfold has assign
  have hk : (k == k') = false := by simp; exact fun h => hne h.symm
  simp only [List.any_append, List.any_cons, List.any_nil, Bool.or_false, any_del_ne h k k' hne, hk]

theorem injectLoop_get (h : Hdr) (injs : List Inj) (K : Bytes) :
    get (injectLoop h injs) K = match lastFor K injs with | none => get h K | some o => render o := by
  induction injs generalizing h with
  | nil => simp [injectLoop, lastFor]
  | cons j r ih =>
    have hstep : injectLoop h (j :: r) = injectLoop
        (match j.out with
         | .value v => if v.isEmpty then hdel h j.name else hset (hdel h j.name) j.name v
         | .err => hdel h j.name) r := by
      unfold injectLoop
      rw [List.foldl_cons]
      cases j.out <;> rfl
    rw [hstep, ih]
    simp only [lastFor]
    cases hl : lastFor K r with
    | some o => simp
    | none =>
      simp only [Option.none_or]
      by_cases hk : canonKey j.name = K
      · simp only [hk, if_true]
        cases ho : j.out with
        | err => simp [hdel, hk, get_del_self, render]
        | value v =>
          by_cases hv : v.isEmpty
          · simp [hv, hdel, hk, get_del_self, render]
          · simp [hv, hset, hdel, hk, get_assign_self, render]
      · simp only [hk, if_false]
        have hne : K ≠ canonKey j.name := fun h => hk h.symm
        cases ho : j.out with
        | err => simp [hdel, get_del_ne _ _ _ hne]
        | value v =>
          by_cases hv : v.isEmpty
          · simp [hv, hdel, get_del_ne _ _ _ hne]
          · simp [hv, hset, hdel, get_assign_ne _ _ _ _ hne, get_del_ne _ _ _ hne]

end Fp.Proxy
