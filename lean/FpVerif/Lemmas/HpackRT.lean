/-
Helper lemmas for the HPACK field / block round trip (C18): table search vs. lookup, the first byte under a
representation mask, literal representations, the encoder step without a pending size update.
-/
import FpVerif.Properties.C18
set_option linter.unusedSimpArgs false
set_option linter.unusedVariables false
namespace Fp.C18
open Fp Fp.Hpack

/-! ### what a table search returns is what the decoder finds at that index -/

theorem static_len : staticTable.length = 61 := by
  unfold staticTable; rw [List.length_map]; exact gen_ok.2.2.2

theorem findIdx_some_spec {α} (l : List α) (p : α → Bool) (i : Nat) (h : l.findIdx? p = some i) :
    ∃ g, l[i]? = some g ∧ p g = true := by
  obtain ⟨hi, hp, _⟩ := List.findIdx?_eq_some_iff_getElem.mp h
  exact ⟨l[i], by simp [hi], hp⟩

theorem tableAt_static (t : DynTab) (i : Nat) (g : Field) (h : staticTable[i]? = some g) : tableAt t (i + 1) = some g := by
  have hi : i < staticTable.length := by
    by_cases hlt : i < staticTable.length
    · exact hlt
    · rw [List.getElem?_eq_none (by omega)] at h; cases h
  unfold tableAt
  simp only [Nat.add_one_ne_zero, if_false, show i + 1 ≤ staticTable.length from hi, if_true, Nat.add_sub_cancel, h]

theorem newestIdx_spec (ents : List Field) (p : Field → Bool) (h : newestIdx ents p ≠ 0) :
    newestIdx ents p ≤ ents.length ∧ ∃ g, ents[ents.length - newestIdx ents p]? = some g ∧ p g = true := by
  unfold newestIdx at h ⊢
  cases hf : ents.reverse.findIdx? p with
  | none => rw [hf] at h; exact absurd rfl h
  | some i =>
    simp only
    obtain ⟨hi, hp, _⟩ := List.findIdx?_eq_some_iff_getElem.mp hf
    have hi' : i < ents.length := by simpa using hi
    refine ⟨by omega, ents.reverse[i], ?_, hp⟩
    rw [List.getElem_reverse]
    have : ents.length - 1 - i = ents.length - (i + 1) := by omega
    simp [this]

theorem tableAt_dyn (t : DynTab) (k : Nat) (g : Field) (hk : k ≠ 0) (hle : k ≤ t.ents.length)
    (h : t.ents[t.ents.length - k]? = some g) : tableAt t (k + staticTable.length) = some g := by
  unfold tableAt
  have h1 : ¬ k + staticTable.length = 0 := by omega
  have h2 : ¬ k + staticTable.length ≤ staticTable.length := by omega
  have h3 : ¬ k + staticTable.length > t.ents.length + staticTable.length := by omega
  simp only [h1, h2, h3, if_false, Nat.add_sub_cancel, h]

theorem beq_bytes {a b : Bytes} (h : (a == b) = true) : a = b := by simpa using h

theorem rev_find_spec {α} (l : List α) (p : α → Bool) (j : Nat) (h : l.reverse.findIdx? p = some j) :
    j < l.length ∧ ∃ g, l[l.length - 1 - j]? = some g ∧ p g = true := by
  obtain ⟨hj, hp, _⟩ := List.findIdx?_eq_some_iff_getElem.mp h
  have hj' : j < l.length := by simpa using hj
  refine ⟨hj', l.reverse[j], ?_, hp⟩
  rw [List.getElem_reverse]
  have : l.length - 1 - j < l.length := by omega
  simp [this]

theorem static_name_spec (t : DynTab) (f : Field) (j : Nat)
    (hn : staticTable.reverse.findIdx? (fun e => e.name == f.name) = some j) :
    ∃ g, tableAt t (staticTable.length - j) = some g ∧ g.name = f.name := by
  obtain ⟨hj, g, hg, hp⟩ := rev_find_spec _ _ _ hn
  refine ⟨g, ?_, beq_bytes hp⟩
  have : staticTable.length - j = (staticTable.length - 1 - j) + 1 := by omega
  rw [this]
  exact tableAt_static t _ g hg

theorem staticSearch_spec (t : DynTab) (f : Field) :
    ((staticSearch f).2 = true → ∃ g, tableAt t (staticSearch f).1 = some g ∧ g.name = f.name ∧ g.value = f.value ∧ f.sensitive = false) ∧
    ((staticSearch f).2 = false → (staticSearch f).1 ≠ 0 → ∃ g, tableAt t (staticSearch f).1 = some g ∧ g.name = f.name) := by
  unfold staticSearch
  by_cases hs : f.sensitive = true
  · simp only [hs, if_true]
    cases hn : staticTable.reverse.findIdx? (fun e => e.name == f.name) with
    | none =>
      refine ⟨?_, ?_⟩
      · intro h; cases h
      · intro _ h; exact absurd rfl h
    | some j =>
      refine ⟨?_, ?_⟩
      · intro h; cases h
      · intro _ _; exact static_name_spec t f j hn
  · have hs' : f.sensitive = false := by cases h : f.sensitive <;> simp_all
    simp only [hs', Bool.false_eq_true, if_false]
    cases he : staticTable.findIdx? (fun e => e.name == f.name && e.value == f.value) with
    | some i =>
      obtain ⟨g, hg, hp⟩ := findIdx_some_spec _ _ _ he
      simp only [Bool.and_eq_true] at hp
      refine ⟨?_, ?_⟩
      · intro _; exact ⟨g, tableAt_static t i g hg, beq_bytes hp.1, beq_bytes hp.2, trivial⟩
      · intro h; cases h
    | none =>
      cases hn : staticTable.reverse.findIdx? (fun e => e.name == f.name) with
      | none =>
        refine ⟨?_, ?_⟩
        · intro h; cases h
        · intro _ h; exact absurd rfl h
      | some j =>
        refine ⟨?_, ?_⟩
        · intro h; cases h
        · intro _ _; exact static_name_spec t f j hn

theorem dynSearch_spec (t : DynTab) (f : Field) :
    ((dynSearch t f).2 = true → (dynSearch t f).1 ≠ 0 ∧ ∃ g, tableAt t ((dynSearch t f).1 + staticTable.length) = some g ∧ g.name = f.name ∧ g.value = f.value ∧ f.sensitive = false) ∧
    ((dynSearch t f).2 = false → (dynSearch t f).1 ≠ 0 → ∃ g, tableAt t ((dynSearch t f).1 + staticTable.length) = some g ∧ g.name = f.name) := by
  unfold dynSearch
  by_cases hs : f.sensitive = true
  · simp only [hs, if_true, ne_eq, not_true_eq_false, if_false]
    refine ⟨?_, ?_⟩
    · intro h; cases h
    · intro _ hne
      obtain ⟨hle, g, hg, hp⟩ := newestIdx_spec t.ents _ hne
      exact ⟨g, tableAt_dyn t _ g hne hle hg, beq_bytes hp⟩
  · have hs' : f.sensitive = false := by cases h : f.sensitive <;> simp_all
    simp only [hs', Bool.false_eq_true, if_false]
    by_cases hex : newestIdx t.ents (fun e => e.name == f.name && e.value == f.value) ≠ 0
    · rw [if_pos hex]
      refine ⟨?_, ?_⟩
      · intro _
        obtain ⟨hle, g, hg, hp⟩ := newestIdx_spec t.ents _ hex
        simp only [Bool.and_eq_true] at hp
        exact ⟨hex, g, tableAt_dyn t _ g hex hle hg, beq_bytes hp.1, beq_bytes hp.2, trivial⟩
      · intro h; cases h
    · rw [if_neg hex]
      refine ⟨?_, ?_⟩
      · intro h; cases h
      · intro _ hne
        obtain ⟨hle, g, hg, hp⟩ := newestIdx_spec t.ents _ hne
        exact ⟨g, tableAt_dyn t _ g hne hle hg, beq_bytes hp⟩

/-- SEARCH ↔ LOOKUP: whatever index `Encoder.searchTable` returns, the decoder's `at(index)` on an identical table yields
an entry with that name (and, for a full match, that value; a sensitive field never gets a full match) -/
theorem searchTable_spec (e : Enc) (f : Field) :
    ((searchTable e f).2 = true → ∃ g, tableAt e.tab (searchTable e f).1 = some g ∧ g.name = f.name ∧ g.value = f.value ∧ f.sensitive = false) ∧
    ((searchTable e f).2 = false → (searchTable e f).1 ≠ 0 → ∃ g, tableAt e.tab (searchTable e f).1 = some g ∧ g.name = f.name) := by
  have hS := staticSearch_spec e.tab f
  have hD := dynSearch_spec e.tab f
  unfold searchTable
  cases hs : staticSearch f with
  | mk i m =>
    rw [hs] at hS
    simp only at hS ⊢
    cases m with
    | true => simp only [if_true]; exact ⟨fun _ => hS.1 rfl, fun h => by cases h⟩
    | false =>
      simp only [Bool.false_eq_true, if_false]
      cases hd : dynSearch e.tab f with
      | mk j m2 =>
        rw [hd] at hD
        simp only at hD ⊢
        by_cases hc : m2 = true ∨ (i = 0 ∧ j ≠ 0)
        · simp only [hc, if_true]
          refine ⟨?_, ?_⟩
          · intro hm; exact (hD.1 hm).2
          · intro hm _
            rcases hc with h1 | h1
            · rw [h1] at hm; cases hm
            · exact hD.2 hm h1.2
        · simp only [hc, if_false]
          refine ⟨?_, ?_⟩
          · intro h; cases h
          · intro _ hne; exact hS.2 rfl hne

/-! ### the first byte: prefix integer under a representation mask -/

theorem appendVarInt_head (n i : Nat) (hn : 1 ≤ n ∧ n ≤ 8) : ∃ b r, appendVarInt n i = b :: r ∧ b.toNat < 2 ^ n := by
  have hk : 2 ^ n ≤ 256 := by
    calc 2 ^ n ≤ 2 ^ 8 := Nat.pow_le_pow_right (by decide) hn.2
      _ = 256 := by decide
  have hk1 : 1 ≤ 2 ^ n := Nat.one_le_two_pow
  unfold appendVarInt
  by_cases h : i < 2 ^ n - 1
  · refine ⟨UInt8.ofNat i, [], by simp [h], ?_⟩
    rw [u8_ofNat_toNat i (by omega)]; omega
  · refine ⟨UInt8.ofNat (2 ^ n - 1), appendVarIntCont 10 (i - (2 ^ n - 1)), by simp [h], ?_⟩
    rw [u8_ofNat_toNat _ (by omega)]; omega

set_option maxRecDepth 8192 in
theorem or_mask (x : Nat) :
    (x < 128 → (UInt8.ofNat x ||| 0x80).toNat = x + 128) ∧ (x < 64 → (UInt8.ofNat x ||| 0x40).toNat = x + 64) ∧
    (x < 32 → (UInt8.ofNat x ||| 0x20).toNat = x + 32) ∧ (x < 16 → (UInt8.ofNat x ||| 0x10).toNat = x + 16) ∧
    (x < 256 → (UInt8.ofNat x ||| 0).toNat = x) := by
  have h : ∀ x, x < 256 → ((x < 128 → (UInt8.ofNat x ||| 0x80).toNat = x + 128) ∧ (x < 64 → (UInt8.ofNat x ||| 0x40).toNat = x + 64) ∧
    (x < 32 → (UInt8.ofNat x ||| 0x20).toNat = x + 32) ∧ (x < 16 → (UInt8.ofNat x ||| 0x10).toNat = x + 16) ∧
    (x < 256 → (UInt8.ofNat x ||| 0).toNat = x)) := by decide +kernel
  by_cases hx : x < 256
  · exact h x hx
  · exact ⟨fun h => by omega, fun h => by omega, fun h => by omega, fun h => by omega, fun h => by omega⟩

/-- reading an `n`-bit prefix integer ignores the representation bits above the prefix -/
theorem readVarInt_masked (n : Nat) (b m : UInt8) (r : Bytes) (k : Nat) (hb : b.toNat < 2 ^ n)
    (hm : (b ||| m).toNat = b.toNat + k * 2 ^ n) : readVarInt n ((b ||| m) :: r) = readVarInt n (b :: r) := by
  simp only [readVarInt, hm, Nat.add_mul_mod_self_right]

theorem masked_roundtrip (n i : Nat) (m : UInt8) (k : Nat) (rest : Bytes) (hn : 1 ≤ n ∧ n ≤ 8) (hi : i < 2 ^ 62)
    (hmask : ∀ x, x < 2 ^ n → (UInt8.ofNat x ||| m).toNat = x + k * 2 ^ n) :
    ∃ b r, orFirst (appendVarInt n i) m ++ rest = (b :: r) ∧ b.toNat / 2 ^ n = k ∧ b.toNat % 2 ^ n < 2 ^ n ∧
      readVarInt n (b :: r) = .ok i rest := by
  obtain ⟨b0, r0, hbr, hb0⟩ := appendVarInt_head n i hn
  have hrt := varint_roundtrip n i rest hn hi
  rw [hbr] at hrt ⊢
  have hm : (b0 ||| m).toNat = b0.toNat + k * 2 ^ n := by
    have := hmask b0.toNat hb0
    simpa using this
  refine ⟨b0 ||| m, r0 ++ rest, by simp [orFirst], ?_, Nat.mod_lt _ (Nat.two_pow_pos n), ?_⟩
  · rw [hm, Nat.add_mul_div_right _ _ (Nat.two_pow_pos n), Nat.div_eq_of_lt hb0]; omega
  · rw [readVarInt_masked n b0 m (r0 ++ rest) k hb0 hm]
    simpa using hrt

/-! ### literal representations -/

def Admits (maxStrLen : Nat) (s : Bytes) : Prop := s.length < 2 ^ 62 ∧ (maxStrLen = 0 ∨ s.length ≤ maxStrLen)

theorem emitCheck_ok (maxStrLen : Nat) (f : Field) (hn : Admits maxStrLen f.name) (hv : Admits maxStrLen f.value) :
    emitCheck maxStrLen f = .ok f := by
  unfold emitCheck
  have : ¬ (maxStrLen ≠ 0 ∧ (f.name.length > maxStrLen ∨ f.value.length > maxStrLen)) := by
    intro ⟨h0, h⟩
    rcases hn.2 with h1 | h1
    · exact h0 h1
    · rcases hv.2 with h2 | h2
      · exact h0 h2
      · omega
  simp only [this, if_false]

def afterLiteral (d : Dec) (indexed : Bool) (name value : Bytes) : Dec :=
  if indexed then { d with tab := d.tab.add { name := name, value := value, sensitive := false } } else d

theorem parseLiteral_new (d : Dec) (n : Nat) (indexed sensitive : Bool) (buf name value rest : Bytes)
    (h1 : readVarInt n buf = .ok 0 (appendString name ++ (appendString value ++ rest)))
    (hn : Admits d.maxStrLen name) (hv : Admits d.maxStrLen value) :
    parseLiteral d n indexed sensitive buf =
      .ok (afterLiteral d indexed name value, some { name := name, value := value, sensitive := sensitive }, rest) := by
  obtain ⟨u, hu, hud⟩ := string_roundtrip d.maxStrLen name (appendString value ++ rest) hn.1 hn.2
  obtain ⟨w, hw, hwd⟩ := string_roundtrip d.maxStrLen value rest hv.1 hv.2
  unfold parseLiteral
  simp only [h1, Nat.lt_irrefl, if_false, hu, hw, hud, hwd]
  have hmx : (afterLiteral d indexed name value).maxStrLen = d.maxStrLen := by unfold afterLiteral; split <;> rfl
  have := emitCheck_ok d.maxStrLen { name := name, value := value, sensitive := sensitive } hn hv
  unfold afterLiteral at hmx ⊢
  cases indexed <;> simp_all

theorem parseLiteral_idx (d : Dec) (n : Nat) (indexed sensitive : Bool) (buf value rest : Bytes) (idx : Nat) (g : Field)
    (hidx : idx > 0) (htab : tableAt d.tab idx = some g)
    (h1 : readVarInt n buf = .ok idx (appendString value ++ rest))
    (hn : Admits d.maxStrLen g.name) (hv : Admits d.maxStrLen value) :
    parseLiteral d n indexed sensitive buf =
      .ok (afterLiteral d indexed g.name value, some { name := g.name, value := value, sensitive := sensitive }, rest) := by
  obtain ⟨w, hw, hwd⟩ := string_roundtrip d.maxStrLen value rest hv.1 hv.2
  unfold parseLiteral
  simp only [h1, hidx, if_true, htab, hw, hwd]
  have := emitCheck_ok d.maxStrLen { name := g.name, value := value, sensitive := sensitive } hn hv
  unfold afterLiteral
  cases indexed <;> simp_all

/-! ### the decoder's table is the encoder's, apart from the decoder-only permitted maximum -/

def withAllowed (t : DynTab) (a : Nat) : DynTab := { t with allowedMax := a }

@[simp] theorem tableAt_withAllowed (t : DynTab) (a i : Nat) : tableAt (withAllowed t a) i = tableAt t i := rfl

theorem evict_go_congr (t t' : DynTab) (hm : t.maxSize = t'.maxSize) (ents : List Field) (size : Nat) :
    DynTab.evict.go t ents size = DynTab.evict.go t' ents size := by
  induction ents generalizing size with
  | nil => rfl
  | cons a r ih => unfold DynTab.evict.go; rw [hm, ih]

theorem evict_withAllowed (t : DynTab) (a : Nat) : (withAllowed t a).evict = withAllowed t.evict a := by
  unfold DynTab.evict withAllowed
  simp only
  rw [evict_go_congr { t with allowedMax := a } t rfl]

theorem add_withAllowed (t : DynTab) (a : Nat) (f : Field) : (withAllowed t a).add f = withAllowed (t.add f) a := by
  unfold DynTab.add
  exact evict_withAllowed { t with ents := t.ents ++ [f], size := t.size + f.size } a

theorem setMaxSize_withAllowed (t : DynTab) (a v : Nat) : (withAllowed t a).setMaxSize v = withAllowed (t.setMaxSize v) a := by
  unfold DynTab.setMaxSize
  exact evict_withAllowed { t with maxSize := v } a

/-! ### one header field through encoder and decoder -/

theorem field_eta (f : Field) (s : Bool) (h : f.sensitive = s) : ({ name := f.name, value := f.value, sensitive := s } : Field) = f := by
  cases f; simp_all


theorem tableAt_some_le (t : DynTab) (i : Nat) (g : Field) (h : tableAt t i = some g) : i ≤ t.ents.length + staticTable.length := by
  unfold tableAt at h
  by_cases h0 : i = 0
  · omega
  · by_cases h1 : i ≤ staticTable.length
    · omega
    · by_cases h2 : i > t.ents.length + staticTable.length
      · simp [h0, h1, h2] at h
      · omega

def indexingOf (e : Enc) (f : Field) : Bool := !f.sensitive && decide (f.size ≤ e.tab.maxSize)

def encAfter (e : Enc) (f : Field) : Enc :=
  if (searchTable e f).2 then e
  else if indexingOf e f then { e with tab := e.tab.add { f with sensitive := false } } else e

theorem writeField_noupd (e : Enc) (f : Field) (hupd : e.tableSizeUpdate = false) :
    e.writeField f =
      (encAfter e f,
       if (searchTable e f).2 then orFirst (appendVarInt 7 (searchTable e f).1) 0x80
       else if (searchTable e f).1 = 0 then [typeByte (indexingOf e f) f.sensitive] ++ appendString f.name ++ appendString f.value
       else orFirst (appendVarInt (if indexingOf e f then 6 else 4) (searchTable e f).1) (typeByte (indexingOf e f) f.sensitive) ++ appendString f.value) := by
  unfold Enc.writeField encAfter indexingOf
  simp only [hupd, Bool.false_eq_true, if_false, List.nil_append]
  cases hst : searchTable e f with
  | mk idx m =>
    cases m <;> simp <;> split <;> simp_all

end Fp.C18
