/-
Helper lemmas for the Huffman string round trip (C18): bits ↔ bytes, walking a code word through the
decoding tree, the EOS-prefix padding.
-/
import FpVerif.Model.Hpack
namespace Fp.Hpack

/-! ### bits and bytes -/

/-- value of a bit list, most significant first (the fold `bitsToBytes` uses) -/
def bitsVal (l : List Bool) : Nat := l.foldl (fun a b => 2 * a + (if b then 1 else 0)) 0

theorem foldl_bits (l : List Bool) (a : Nat) :
    l.foldl (fun a b => 2 * a + (if b then 1 else 0)) a = a * 2 ^ l.length + bitsVal l := by
  induction l generalizing a with
  | nil => simp [bitsVal]
  | cons b r ih =>
    simp only [List.foldl_cons, List.length_cons, bitsVal]
    rw [ih, ih (2 * 0 + _)]
    rw [Nat.pow_succ]
    generalize 2 ^ r.length = X
    generalize bitsVal r = V
    have h1 : 2 * a * X = a * (X * 2) := by rw [Nat.mul_comm 2 a, Nat.mul_assoc, Nat.mul_comm 2 X]
    cases b
    · simp only [Bool.false_eq_true, if_false, Nat.add_zero, Nat.mul_zero, Nat.zero_mul, Nat.zero_add]; omega
    · simp only [if_true, Nat.mul_zero, Nat.zero_add, Nat.one_mul, Nat.add_mul]; omega

theorem bitsVal_cons (b : Bool) (r : List Bool) :
    bitsVal (b :: r) = (if b then 1 else 0) * 2 ^ r.length + bitsVal r := by
  simp only [bitsVal, List.foldl_cons]
  rw [foldl_bits]; simp [bitsVal]

theorem bitsVal_lt (l : List Bool) : bitsVal l < 2 ^ l.length := by
  induction l with
  | nil => simp [bitsVal]
  | cons b r ih =>
    rw [bitsVal_cons, List.length_cons, Nat.pow_succ]
    cases b <;> simp <;> omega

theorem toBitsAux_add (k : Nat) : ∀ (a v : Nat), v < 2 ^ k → toBitsAux (a * 2 ^ k + v) k = toBitsAux v k := by
  induction k with
  | zero => intros; rfl
  | succ k ih =>
    intro a v hv
    simp only [toBitsAux]
    have h2 : a * 2 ^ (k + 1) = (a * 2) * 2 ^ k := by rw [Nat.pow_succ, Nat.mul_assoc, Nat.mul_comm 2]
    congr 1
    · rw [h2, Nat.add_comm, Nat.add_mul_div_right _ _ (Nat.two_pow_pos k)]
      rw [Nat.add_mul_mod_self_right]
    · rw [h2]
      have : a * 2 * 2 ^ k + v = (a * 2 + v / 2 ^ k) * 2 ^ k + v % 2 ^ k := by
        have := Nat.div_add_mod v (2 ^ k)
        rw [Nat.add_mul]
        have h3 : v / 2 ^ k * 2 ^ k = 2 ^ k * (v / 2 ^ k) := Nat.mul_comm _ _
        omega
      rw [this, ih _ _ (Nat.mod_lt _ (Nat.two_pow_pos k))]
      have hv2 : v = (v / 2 ^ k) * 2 ^ k + v % 2 ^ k := by
        have := Nat.div_add_mod v (2 ^ k); rw [Nat.mul_comm] at this; omega
      conv => rhs; rw [hv2]
      rw [ih _ _ (Nat.mod_lt _ (Nat.two_pow_pos k))]

theorem toBitsAux_bitsVal (l : List Bool) : toBitsAux (bitsVal l) l.length = l := by
  induction l with
  | nil => rfl
  | cons b r ih =>
    simp only [List.length_cons, toBitsAux]
    rw [bitsVal_cons]
    have hlt := bitsVal_lt r
    congr 1
    · rw [Nat.add_comm, Nat.add_mul_div_right _ _ (Nat.two_pow_pos _), Nat.div_eq_of_lt hlt]
      cases b <;> simp
    · rw [toBitsAux_add _ _ _ hlt, ih]

theorem byteBits_ofBits (l : List Bool) (h : l.length = 8) : byteBits (UInt8.ofNat (bitsVal l)) = l := by
  unfold byteBits
  have hlt := bitsVal_lt l
  rw [h] at hlt
  have : (UInt8.ofNat (bitsVal l)).toNat = bitsVal l := by
    simp [UInt8.toNat_ofNat', Nat.mod_eq_of_lt (show bitsVal l < 256 from hlt)]
  rw [this]
  have := toBitsAux_bitsVal l
  rwa [h] at this

/-- the bits followed by the EOS-prefix padding (ones) up to the next byte boundary -/
def padTo8 (bits : List Bool) : List Bool := bits ++ List.replicate ((8 - bits.length % 8) % 8) true

theorem bytesBits_cons (b : UInt8) (r : Bytes) : bytesBits (b :: r) = byteBits b ++ bytesBits r := by
  simp [bytesBits]

theorem bytesBits_bitsToBytes : ∀ (n : Nat) (bits : List Bool), bits.length ≤ n → bytesBits (bitsToBytes bits) = padTo8 bits := by
  intro n
  induction n with
  | zero =>
    intro bits h
    have : bits = [] := List.eq_nil_of_length_eq_zero (by omega)
    subst this
    rw [bitsToBytes]; simp [bytesBits, padTo8]
  | succ n ih =>
    intro bits h
    by_cases he : bits = []
    · subst he; rw [bitsToBytes]; simp [bytesBits, padTo8]
    · rw [bitsToBytes]
      simp only [he, dite_false]
      rw [bytesBits_cons]
      have hpos : 0 < bits.length := List.length_pos_iff.mpr he
      have hlen8 : (List.take 8 bits ++ List.replicate (8 - (List.take 8 bits).length) true).length = 8 := by
        simp only [List.length_append, List.length_take, List.length_replicate]; omega
      have hfold : (List.take 8 bits ++ List.replicate (8 - (List.take 8 bits).length) true).foldl
          (fun a b => 2 * a + (if b then 1 else 0)) 0
          = bitsVal (List.take 8 bits ++ List.replicate (8 - (List.take 8 bits).length) true) := rfl
      rw [hfold, byteBits_ofBits _ hlen8]
      rw [ih (bits.drop 8) (by simp only [List.length_drop]; omega)]
      unfold padTo8
      by_cases h8 : 8 ≤ bits.length
      · have ht : (List.take 8 bits).length = 8 := by simp only [List.length_take]; omega
        rw [ht]
        simp only [Nat.sub_self, List.replicate_zero, List.append_nil, List.length_drop]
        have : (bits.length - 8) % 8 = bits.length % 8 := by omega
        rw [this, ← List.append_assoc, List.take_append_drop]
      · have ht : List.take 8 bits = bits := List.take_of_length_le (by omega)
        have hd : List.drop 8 bits = [] := List.drop_of_length_le (by omega)
        rw [ht, hd]
        simp only [List.length_nil, List.nil_append]
        have : (8 - bits.length % 8) % 8 = 8 - bits.length := by omega
        rw [this]; simp

/-! ### walking the tree -/

def HTree.isNode : HTree → Bool
  | .node _ _ => true
  | _ => false

theorem walk_empty (l : List Bool) : HTree.walk .empty l = .empty := by
  induction l with
  | nil => rfl
  | cons b r ih => simp only [HTree.walk, HTree.step]; exact ih

theorem walk_leaf (s : Nat) (b : Bool) (l : List Bool) : HTree.walk (.leaf s) (b :: l) = .empty := by
  simp only [HTree.walk, HTree.step]; exact walk_empty l

/-- decoding one code word: from any position from which `bits` leads to the leaf of `s`, the decoder emits `s` and
restarts at the root -/
theorem huffWalk_word (maxLen s : Nat) (rest : List Bool) :
    ∀ (bits : List Bool) (t : HTree) (pend : List Bool) (acc : Bytes), bits ≠ [] → HTree.walk t bits = .leaf s →
      ¬ (maxLen ≠ 0 ∧ acc.length = maxLen) →
      huffWalk maxLen t pend acc (bits ++ rest) = huffWalk maxLen huffTree [] (acc ++ [UInt8.ofNat s]) rest := by
  intro bits
  induction bits with
  | nil => intro _ _ _ h; exact absurd rfl h
  | cons b r ih =>
    intro t pend acc _ hw hm
    simp only [List.cons_append, huffWalk]
    simp only [HTree.walk] at hw
    cases r with
    | nil =>
      simp only [HTree.walk] at hw
      rw [hw]; simp only [hm, if_false, List.nil_append]
    | cons b' r' =>
      cases hst : t.step b with
      | empty => rw [hst, walk_empty] at hw; cases hw
      | leaf s' => rw [hst, walk_leaf] at hw; cases hw
      | node l rr =>
        simp only
        rw [hst] at hw
        exact ih (.node l rr) (b :: pend) acc (by simp) hw hm

/-- the padding: up to seven ones from the root stay inside the tree, and the end of input is then accepted -/
theorem huffWalk_pad (maxLen : Nat) (acc : Bytes) :
    ∀ (p : Nat) (t : HTree) (pend : List Bool), pend.all id = true → pend.length + p ≤ 7 →
      (∀ j, 1 ≤ j → j ≤ p → (HTree.walk t (List.replicate j true)).isNode = true) →
      huffWalk maxLen t pend acc (List.replicate p true) = .ok acc := by
  intro p
  induction p with
  | zero =>
    intro t pend hall hlen _
    simp only [List.replicate_zero, huffWalk]
    have : pend.length ≤ 7 := by omega
    simp [this, hall]
  | succ p ih =>
    intro t pend hall hlen hnodes
    simp only [List.replicate_succ, huffWalk]
    have h1 := hnodes 1 (by omega) (by omega)
    simp only [List.replicate_succ, List.replicate_zero, HTree.walk] at h1
    cases hst : t.step true with
    | empty => rw [hst] at h1; cases h1
    | leaf s => rw [hst] at h1; cases h1
    | node l r =>
      simp only
      apply ih (.node l r) (true :: pend)
      · simp [hall]
      · simp only [List.length_cons]; omega
      · intro j hj1 hjp
        have := hnodes (j + 1) (by omega) (by omega)
        simp only [List.replicate_succ, HTree.walk, hst] at this
        exact this

end Fp.Hpack
