/-
`parseView` (the mirror of utls's ClientHelloSpec.FromRaw as far as JA4 reads it) inverts `Tls.serialize` on well-formed
hellos, and `ja4String` of the parsed view is the specification's JA4 of the hello: the JA4 path reads exactly what JA4 is
defined over, for every hello shape.
-/
import FpVerif.Spec.JA4
import FpVerif.Lemmas.JA4
import FpVerif.Lemmas.JA3Parse
set_option linter.unusedSimpArgs false
set_option linter.unusedVariables false
namespace Fp.JA4
open Fp Fp.Tls

/-! ### cryptobyte readers on what `Tls.serialize` writes -/

theorem u16_nat (v : UInt16) : (u16hi v).toNat * 256 + (u16lo v).toNat = v.toNat := by
  have h := v.toNat_lt
  simp only [u16hi, u16lo, UInt16.toNat_toUInt8, UInt16.toNat_shiftRight]
  have : (8 : UInt16).toNat % 16 = 8 := by decide
  rw [this]
  have h2 : v.toNat >>> 8 = v.toNat / 256 := by rw [Nat.shiftRight_eq_div_pow]
  rw [h2]
  have := Nat.div_add_mod v.toNat 256
  have h3 : v.toNat / 256 < 256 := by omega
  rw [Nat.mod_eq_of_lt h3]
  omega

theorem rdU16Len_be16 (x rest : Bytes) (h : x.length < 65536) : rdU16Len (be16 x.length ++ x ++ rest) = some (x, rest) := by
  unfold rdU16Len be16
  simp only [List.cons_append, List.nil_append, List.append_assoc]
  rw [JA3.be16_val _ h]
  simp [List.take_left', List.drop_left']

theorem rdU8Len_u8 (x rest : Bytes) (h : x.length < 256) : rdU8Len (UInt8.ofNat x.length :: x ++ rest) = some (x, rest) := by
  unfold rdU8Len
  simp only [List.cons_append]
  rw [JA3.u8_val _ h]
  simp [List.take_left', List.drop_left']

theorem rdU16s_u16s (xs : List UInt16) : rdU16s (u16sBytes xs) = some (xs.map (·.toNat)) := by
  induction xs with
  | nil => rfl
  | cons v r ih =>
    have : u16sBytes (v :: r) = u16hi v :: u16lo v :: u16sBytes r := by simp [u16sBytes]
    rw [this]
    simp only [rdU16s, ih, Option.map_some, List.map_cons, u16_nat]

/-! ### server_name and ALPN lists -/

/-- what utls demands of a server_name list: non-empty names, at most one host_name, which does not end in a dot -/
def SniWF : Bool → List (UInt8 × Bytes) → Prop
  | _, [] => True
  | seen, (ty, name) :: r =>
    name ≠ [] ∧ name.length < 65536 ∧
      (if ty ≠ 0 then SniWF seen r else (seen = false ∧ ¬ (name.getLast? == some 46) = true ∧ SniWF true r))

theorem sniLoop_ok : ∀ (names : List (UInt8 × Bytes)) (seen : Bool), SniWF seen names →
    sniLoop (names.flatMap sniEntry) seen = some () := by
  intro names
  induction names with
  | nil => intro seen _; show sniLoop [] seen = some (); rw [sniLoop.eq_def]
  | cons e r ih =>
    intro seen h
    obtain ⟨ty, name⟩ := e
    obtain ⟨hne, hlen, hrest⟩ := h
    have hfm : List.flatMap sniEntry ((ty, name) :: r) = ty :: (be16 name.length ++ name ++ List.flatMap sniEntry r) := by
      simp [sniEntry, List.flatMap_cons]
    rw [hfm, sniLoop.eq_def]
    simp only
    have hrd := rdU16Len_be16 name (List.flatMap sniEntry r) hlen
    split
    · rename_i heq; rw [hrd] at heq; cases heq
    · rename_i nm rst heq
      rw [hrd] at heq
      simp only [Option.some.injEq, Prod.mk.injEq] at heq
      obtain ⟨rfl, rfl⟩ := heq
      have hemp : name.isEmpty = false := by cases name with | nil => exact absurd rfl hne | cons _ _ => rfl
      simp only [hemp, Bool.false_eq_true, if_false]
      by_cases ht : ty ≠ 0
      · rw [if_pos ht] at hrest
        rw [if_pos ht]
        exact ih seen hrest
      · rw [if_neg ht] at hrest
        rw [if_neg ht]
        obtain ⟨hs, hdot, hr⟩ := hrest
        simp only [hs, Bool.false_eq_true, if_false, hdot]
        exact ih true hr

theorem alpnLoop_ok : ∀ (ps : List Bytes), (∀ p ∈ ps, p ≠ [] ∧ p.length < 256) →
    alpnLoop (ps.flatMap alpnEntry) = some ps := by
  intro ps
  induction ps with
  | nil => intro _; show alpnLoop [] = some []; rw [alpnLoop.eq_def]; rfl
  | cons p r ih =>
    intro h
    have hp := h p List.mem_cons_self
    have hfm : List.flatMap alpnEntry (p :: r) = UInt8.ofNat p.length :: p ++ List.flatMap alpnEntry r := by
      simp [alpnEntry, List.flatMap_cons]
    rw [hfm, alpnLoop.eq_def]
    have hne : (UInt8.ofNat p.length :: p ++ List.flatMap alpnEntry r).isEmpty = false := rfl
    simp only [hne, Bool.false_eq_true, if_false]
    have hrd := rdU8Len_u8 p (List.flatMap alpnEntry r) hp.2
    split
    · rename_i heq; rw [hrd] at heq; cases heq
    · rename_i q rst heq
      rw [hrd] at heq
      simp only [Option.some.injEq, Prod.mk.injEq] at heq
      obtain ⟨rfl, rfl⟩ := heq
      have hemp : p.isEmpty = false := by cases p with | nil => exact absurd rfl hp.1 | cons _ _ => rfl
      simp only [hemp, Bool.false_eq_true, if_false]
      rw [ih (fun x hx => h x (List.mem_cons_of_mem _ hx))]
      rfl

/-! ### one extension, all extensions -/

/-- what JA4's parser keeps of an extension -/
def extV : Ext → ExtV
  | .sni _ => .sni
  | .groups _ => .other 10
  | .points _ => .other 11
  | .alpn ps => .alpn ps
  | .sigalgs as => .sigalgs (as.map (·.toNat))
  | .versions vs => .versions ((vs.map (·.toNat)).map unGrease)
  | .raw t _ => if isGrease t.toNat then .grease else .other t.toNat

/-- well-formedness of an extension as utls demands it of the types JA4 reads (lengths fit their fields; lists
non-empty; a raw extension does not claim one of the structured types) -/
def ExtWF4 : Ext → Prop
  | .sni names => names ≠ [] ∧ SniWF false names ∧ (names.flatMap sniEntry).length < 65534
  | .groups gs => 2 * gs.length < 65534
  | .points ps => ps.length < 256
  | .alpn ps => ps ≠ [] ∧ (∀ p ∈ ps, p ≠ [] ∧ p.length < 256) ∧ (ps.flatMap alpnEntry).length < 65534
  | .sigalgs as => as ≠ [] ∧ 2 * as.length < 65534
  | .versions vs => vs ≠ [] ∧ 2 * vs.length < 256
  | .raw t b => t.toNat ≠ 0 ∧ t.toNat ≠ 16 ∧ t.toNat ≠ 13 ∧ t.toNat ≠ 43 ∧ b.length < 65536

theorem body_lt (e : Ext) (h : ExtWF4 e) : e.body.length < 65536 := by
  cases e with
  | sni names => simp only [Ext.body, List.length_append, be16, List.length_cons, List.length_nil]; have := h.2.2; omega
  | groups gs => simp only [Ext.body, List.length_append, be16, List.length_cons, List.length_nil, JA3.u16sBytes_length]; have := h; simp only [ExtWF4] at this; omega
  | points ps => simp only [Ext.body, List.length_cons]; have := h; simp only [ExtWF4] at this; omega
  | alpn ps => simp only [Ext.body, List.length_append, be16, List.length_cons, List.length_nil]; have := h.2.2; omega
  | sigalgs gs => simp only [Ext.body, List.length_append, be16, List.length_cons, List.length_nil, JA3.u16sBytes_length]; have := h.2; omega
  | versions vs => simp only [Ext.body, List.length_cons, JA3.u16sBytes_length]; have := h.2; omega
  | raw t b => exact h.2.2.2.2

theorem flatMap_ne_nil {α} (l : List α) (f : α → Bytes) (hl : l ≠ []) (hf : ∀ a ∈ l, f a ≠ []) : l.flatMap f ≠ [] := by
  cases l with
  | nil => exact absurd rfl hl
  | cons a r =>
    intro h
    simp only [List.flatMap_cons, List.append_eq_nil_iff] at h
    exact hf a List.mem_cons_self h.1

theorem parseExt_spec (e : Ext) (h : ExtWF4 e) : parseExt e.typeId.toNat e.body = some (extV e) := by
  cases e with
  | sni names =>
    obtain ⟨hne, hwf, hlen⟩ := h
    have hrd := rdU16Len_be16 (names.flatMap sniEntry) [] (by omega)
    simp only [List.append_nil] at hrd
    have hl : (names.flatMap sniEntry).isEmpty = false := by
      have := flatMap_ne_nil names sniEntry hne (fun a _ => by simp [sniEntry])
      cases hx : names.flatMap sniEntry with
      | nil => exact absurd hx this
      | cons _ _ => rfl
    simp only [parseExt, Ext.typeId, Ext.body, show (0 : UInt16).toNat = 0 from rfl, if_true, hrd, hl, Bool.false_eq_true, if_false,
      sniLoop_ok names false hwf, Option.map_some, extV]
  | groups gs =>
    simp only [parseExt, Ext.typeId, show (10 : UInt16).toNat = 10 from rfl, extV]
    simp [isGrease]
  | points ps =>
    simp only [parseExt, Ext.typeId, show (11 : UInt16).toNat = 11 from rfl, extV]
    simp [isGrease]
  | alpn ps =>
    obtain ⟨hne, hall, hlen⟩ := h
    have hrd := rdU16Len_be16 (ps.flatMap alpnEntry) [] (by omega)
    simp only [List.append_nil] at hrd
    have hl : (ps.flatMap alpnEntry).isEmpty = false := by
      have := flatMap_ne_nil ps alpnEntry hne (fun a _ => by simp [alpnEntry])
      cases hx : ps.flatMap alpnEntry with
      | nil => exact absurd hx this
      | cons _ _ => rfl
    simp only [parseExt, Ext.typeId, Ext.body, show (16 : UInt16).toNat = 16 from rfl, hrd, hl, alpnLoop_ok ps hall, extV]
    simp
  | sigalgs gs =>
    obtain ⟨hne, hlen⟩ := h
    have hrd := rdU16Len_be16 (u16sBytes gs) [] (by rw [JA3.u16sBytes_length]; omega)
    simp only [List.append_nil] at hrd
    have hl : (u16sBytes gs).isEmpty = false := by
      cases gs with
      | nil => exact absurd rfl hne
      | cons a r => simp [u16sBytes]
    simp only [parseExt, Ext.typeId, Ext.body, show (13 : UInt16).toNat = 13 from rfl, hrd, hl, rdU16s_u16s, extV]
    simp
  | versions vs =>
    obtain ⟨hne, hlen⟩ := h
    have hrd := rdU8Len_u8 (u16sBytes vs) [] (by rw [JA3.u16sBytes_length]; omega)
    simp only [List.append_nil] at hrd
    have hl : (u16sBytes vs).isEmpty = false := by
      cases vs with
      | nil => exact absurd rfl hne
      | cons a r => simp [u16sBytes]
    simp only [parseExt, Ext.typeId, Ext.body, show (43 : UInt16).toNat = 43 from rfl, hrd, hl, rdU16s_u16s, extV]
    simp
  | raw t b =>
    obtain ⟨h0, h16, h13, h43, _⟩ := h
    simp only [parseExt, Ext.typeId, h0, h16, h13, h43, if_false, extV]
    split <;> simp_all

theorem extWalk_all : ∀ (es : List Ext), (∀ e ∈ es, ExtWF4 e) → extWalk (es.flatMap Ext.wire) = some (es.map extV) := by
  intro es
  induction es with
  | nil => intro _; show extWalk [] = some []; rw [extWalk.eq_def]
  | cons e r ih =>
    intro h
    have he := h e List.mem_cons_self
    have hw : List.flatMap Ext.wire (e :: r) =
        u16hi e.typeId :: u16lo e.typeId :: (be16 e.body.length ++ e.body ++ List.flatMap Ext.wire r) := by
      simp [Ext.wire, List.flatMap_cons]
    rw [hw, extWalk.eq_def]
    simp only
    have hrd := rdU16Len_be16 e.body (List.flatMap Ext.wire r) (body_lt e he)
    split
    · rename_i heq; rw [hrd] at heq; cases heq
    · rename_i body rest heq
      rw [hrd] at heq
      simp only [Option.some.injEq, Prod.mk.injEq] at heq
      obtain ⟨rfl, rfl⟩ := heq
      rw [u16_nat, parseExt_spec e he]
      simp only
      rw [ih (fun x hx => h x (List.mem_cons_of_mem _ hx))]
      rfl

/-- the part of a hello JA4 is defined over, as `FromRaw` sees it -/
def viewOf (h : Hello) : View :=
  { hsVer := h.hsVer.toNat, ciphers := (h.ciphers.map (·.toNat)).map unGrease, exts := ((h.exts.getD []).map extV) }

/-- a ClientHello whose lengths fit their fields and whose JA4-relevant extensions are well formed -/
def HelloWF4 (h : Hello) : Prop :=
  h.random.length = 32 ∧ h.sid.length < 256 ∧ 2 * h.ciphers.length < 65536 ∧ h.comp.length < 256 ∧
  (∀ es, h.exts = some es → (∀ e ∈ es, ExtWF4 e) ∧ (es.flatMap Ext.wire).length < 65536)

theorem parseView_serialize (h : Hello) (hw : HelloWF4 h) : parseView (serialize h) = some (viewOf h) := by
  obtain ⟨hr, hs, hc, hcomp, hex⟩ := hw
  have hhs : handshake h = 1 :: be24 (helloBody h).length ++ helloBody h := rfl
  unfold serialize
  simp only [hhs, be16, be24, List.cons_append, List.nil_append, parseView]
  have hb : helloBody h = u16hi h.hsVer :: u16lo h.hsVer :: (h.random ++ ((UInt8.ofNat h.sid.length :: h.sid) ++
      ((be16 (u16sBytes h.ciphers).length ++ u16sBytes h.ciphers) ++ ((UInt8.ofNat h.comp.length :: h.comp) ++ extsBlock h.exts)))) := by
    simp [helloBody]
  rw [hb]
  simp only [show ((22 : UInt8) ≠ 22) = False from by simp, if_false, show ((1 : UInt8) ≠ 1) = False from by simp]
  have hlen32 : ¬ (h.random ++ ((UInt8.ofNat h.sid.length :: h.sid) ++
      ((be16 (u16sBytes h.ciphers).length ++ u16sBytes h.ciphers) ++ ((UInt8.ofNat h.comp.length :: h.comp) ++ extsBlock h.exts)))).length < 32 := by
    simp only [List.length_append]; omega
  simp only [hlen32, if_false]
  rw [List.drop_left' hr]
  have h1 := rdU8Len_u8 h.sid ((be16 (u16sBytes h.ciphers).length ++ u16sBytes h.ciphers) ++ ((UInt8.ofNat h.comp.length :: h.comp) ++ extsBlock h.exts)) hs
  simp only [List.append_assoc, List.cons_append] at h1 ⊢
  rw [h1]
  simp only
  have h2 := rdU16Len_be16 (u16sBytes h.ciphers) ((UInt8.ofNat h.comp.length :: h.comp) ++ extsBlock h.exts)
    (by rw [JA3.u16sBytes_length]; omega)
  simp only [List.append_assoc, List.cons_append] at h2 ⊢
  rw [h2]
  simp only [rdU16s_u16s]
  have h3 := rdU8Len_u8 h.comp (extsBlock h.exts) hcomp
  simp only [List.append_assoc, List.cons_append] at h3 ⊢
  rw [h3]
  simp only
  cases hx : h.exts with
  | none => simp [extsBlock, viewOf, hx, u16_nat]
  | some es =>
    obtain ⟨hall, hlen⟩ := hex es hx
    have h4 := rdU16Len_be16 (es.flatMap Ext.wire) [] hlen
    simp only [List.append_nil] at h4
    have hne : (be16 (es.flatMap Ext.wire).length ++ es.flatMap Ext.wire).isEmpty = false := rfl
    simp only [extsBlock, hne, Bool.false_eq_true, if_false, h4, extWalk_all es hall, Option.map_some, viewOf, hx, Option.getD_some, u16_nat]

/-! ### the fingerprint of the parsed view is the specification's fingerprint of the hello -/

theorem isGrease_unGrease (x : Nat) : isGrease (unGrease x) = isGrease x := by
  unfold unGrease
  split
  · rename_i h; rw [h]; decide
  · rfl

theorem unGrease_of_not (x : Nat) (h : isGrease x = false) : unGrease x = x := by
  unfold unGrease; simp [h]

theorem filter_unGrease (l : List Nat) :
    (l.map unGrease).filter (fun c => !isGrease c) = l.filter (fun c => !isGrease c) := by
  induction l with
  | nil => rfl
  | cons a r ih =>
    simp only [List.map_cons, List.filter_cons, isGrease_unGrease]
    cases hg : isGrease a
    · simp only [Bool.not_false, if_true, ih, unGrease_of_not a hg]
    · simp only [Bool.not_true, Bool.false_eq_true, if_false, ih]

theorem vfold_unGrease (l : List Nat) (a : Nat) :
    (l.map unGrease).foldl vstep a = (l.filter (fun v => !isGrease v)).foldl (fun a x => if x > a then x else a) a := by
  induction l generalizing a with
  | nil => rfl
  | cons x r ih =>
    simp only [List.map_cons, List.foldl_cons, List.filter_cons]
    cases hg : isGrease x
    · simp only [Bool.not_false, if_true, List.foldl_cons]
      rw [ih]
      simp [vstep, isGrease_unGrease, hg, unGrease_of_not x hg]
    · simp only [Bool.not_true, Bool.false_eq_true, if_false]
      rw [ih]
      simp [vstep, isGrease_unGrease, hg]

def isVersE : Ext → Bool | .versions _ => true | _ => false
def isAlpnE : Ext → Bool | .alpn _ => true | _ => false

theorem vouter_none (es : List Ext) (acc : Nat) (h : es.filter isVersE = []) : (es.map extV).foldl vouter acc = acc := by
  induction es generalizing acc with
  | nil => rfl
  | cons e r ih =>
    cases e with
    | versions vs => simp [isVersE] at h
    | raw t b =>
      simp only [List.filter_cons, isVersE] at h
      simp only [List.map_cons, List.foldl_cons, extV]
      have : vouter acc (if isGrease t.toNat = true then ExtV.grease else ExtV.other t.toNat) = acc := by split <;> rfl
      rw [this]; exact ih acc (by simpa using h)
    | _ =>
      simp only [List.filter_cons, isVersE] at h
      simp only [List.map_cons, List.foldl_cons, extV, vouter]
      exact ih acc (by simpa using h)

theorem findVers_none (es : List Ext) (h : es.filter isVersE = []) :
    es.findSome? (fun | .versions vs => some vs | _ => none) = none := by
  induction es with
  | nil => rfl
  | cons e r ih =>
    cases e with
    | versions vs => simp [isVersE] at h
    | _ =>
      simp only [List.filter_cons, isVersE] at h
      simp only [List.findSome?_cons]
      exact ih (by simpa using h)

theorem hasVersions_iff (es : List Ext) : (es.map extV).any (fun | .versions _ => true | _ => false) = es.any isVersE := by
  induction es with
  | nil => rfl
  | cons e r ih =>
    simp only [List.map_cons, List.any_cons, ih]
    congr 1
    cases e with
    | raw t b => cases hg : isGrease t.toNat <;> simp [extV, isVersE, hg]
    | _ => simp [extV, isVersE]

theorem version_eq (h : Hello) (hu : ((h.exts.getD []).filter isVersE).length ≤ 1) :
    tlsVersion (viewOf h) = Spec.JA4.version h := by
  unfold tlsVersion Spec.JA4.version hasVersions Spec.JA4.extsOf viewOf
  simp only [hasVersions_iff]
  generalize h.exts.getD [] = es at hu ⊢
  induction es with
  | nil => rfl
  | cons e r ih =>
    cases e with
    | versions vs =>
      have hr : r.filter isVersE = [] := by
        simp only [List.filter_cons, isVersE, if_true, List.length_cons] at hu
        exact List.eq_nil_of_length_eq_zero (by omega)
      simp only [List.any_cons, isVersE, Bool.true_or, if_true, List.map_cons, List.foldl_cons, extV, vouter, List.findSome?_cons]
      rw [vouter_none r _ hr, vfold_unGrease]
      rfl
    | raw t b =>
      have hu' : (r.filter isVersE).length ≤ 1 := by simpa [List.filter_cons, isVersE] using hu
      have := ih hu'
      cases hg : isGrease t.toNat <;>
        simp only [List.any_cons, isVersE, Bool.false_or, List.map_cons, List.foldl_cons, extV, hg, vouter, List.findSome?_cons,
          Bool.false_eq_true, if_false, if_true] at this ⊢ <;> exact this
    | _ =>
      have hu' : (r.filter isVersE).length ≤ 1 := by simpa [List.filter_cons, isVersE] using hu
      have := ih hu'
      simp only [List.any_cons, isVersE, Bool.false_or, List.map_cons, List.foldl_cons, extV, vouter, List.findSome?_cons] at this ⊢
      exact this

theorem sni_eq (h : Hello) : sniChar (viewOf h) = (if Spec.JA4.hasSNI h then 100 else 105) := by
  unfold sniChar Spec.JA4.hasSNI Spec.JA4.extsOf viewOf
  simp only [List.any_map]
  congr 2
  congr 1
  funext e
  cases e with
  | raw t b => cases hg : isGrease t.toNat <;> simp [extV, hg]
  | _ => simp [extV]

theorem nCiphers_eq (h : Hello) : nCiphers (viewOf h) = (Spec.JA4.nonGreaseCiphers h).length := by
  unfold nCiphers Spec.JA4.nonGreaseCiphers viewOf Spec.JA4.grease
  simp only [filter_unGrease]

theorem cipherList_eq (h : Hello) : cipherList (viewOf h) = sortU16 (Spec.JA4.nonGreaseCiphers h) := by
  unfold cipherList Spec.JA4.nonGreaseCiphers viewOf Spec.JA4.grease
  simp only [filter_unGrease]

/-- the structured extension types are not GREASE code points -/
theorem typeId_grease (e : Ext) : isGrease e.typeId.toNat = (match extV e with | .grease => true | _ => false) := by
  cases e with
  | raw t b => cases hg : isGrease t.toNat <;> simp [extV, Ext.typeId, hg]
  | _ => simp only [Ext.typeId, extV] <;> decide

theorem nExts_eq (h : Hello) : nExts (viewOf h) = (Spec.JA4.nonGreaseExtTypes h).length := by
  unfold nExts Spec.JA4.nonGreaseExtTypes Spec.JA4.extsOf viewOf Spec.JA4.grease
  simp only
  generalize h.exts.getD [] = es
  induction es with
  | nil => rfl
  | cons e r ih =>
    simp only [List.map_cons, List.filter_cons, typeId_grease e]
    cases hv : extV e <;> simp_all

theorem extList_eq (h : Hello) (hwf : ∀ e ∈ h.exts.getD [], ExtWF4 e) :
    extList (viewOf h) = sortU16 ((Spec.JA4.nonGreaseExtTypes h).filter (fun t => t ≠ 0 && t ≠ 16)) := by
  unfold extList Spec.JA4.nonGreaseExtTypes Spec.JA4.extsOf viewOf Spec.JA4.grease
  simp only
  congr 1
  generalize h.exts.getD [] = es at hwf
  induction es with
  | nil => rfl
  | cons e r ih =>
    have ihr := ih (fun x hx => hwf x (List.mem_cons_of_mem _ hx))
    have he := hwf e List.mem_cons_self
    simp only [List.map_cons, List.filterMap_cons, List.filter_cons]
    cases e with
    | raw t b =>
      obtain ⟨h0, h16, _⟩ := he
      have ht : (Ext.raw t b).typeId = t := rfl
      cases hg : isGrease t.toNat
      · have hv : extV (Ext.raw t b) = .other t.toNat := by simp [extV, hg]
        have hid : extId (ExtV.other t.toNat) = some t.toNat := rfl
        simp only [hv, ht, hid, hg, Bool.not_false, if_true, List.filter_cons, ne_eq, h0, h16, not_false_eq_true, decide_true,
          Bool.and_self, ihr]
      · have hv : extV (Ext.raw t b) = .grease := by simp [extV, hg]
        have hid : extId ExtV.grease = none := rfl
        simp only [hv, ht, hid, hg, Bool.not_true, Bool.false_eq_true, if_false, ihr]
    | sni n =>
      have hv : extV (Ext.sni n) = .sni := rfl
      have ht : (Ext.sni n).typeId.toNat = 0 := rfl
      simp only [hv, ht, ihr, show isGrease 0 = false from by decide, Bool.not_false, if_true, List.filter_cons, ne_eq,
        not_true_eq_false, decide_false, Bool.false_and, Bool.false_eq_true, if_false]
    | alpn ps =>
      have hv : extV (Ext.alpn ps) = .alpn ps := rfl
      have ht : (Ext.alpn ps).typeId.toNat = 16 := rfl
      simp only [hv, ht, ihr, show isGrease 16 = false from by decide, Bool.not_false, if_true, List.filter_cons]
      simp
    | groups g =>
      have hv : extV (Ext.groups g) = .other 10 := rfl
      have ht : (Ext.groups g).typeId.toNat = 10 := rfl
      have hid : extId (ExtV.other 10) = some 10 := rfl
      simp only [hv, ht, hid, ihr, show isGrease 10 = false from by decide, Bool.not_false, if_true, List.filter_cons]
      simp
    | points g =>
      have hv : extV (Ext.points g) = .other 11 := rfl
      have ht : (Ext.points g).typeId.toNat = 11 := rfl
      have hid : extId (ExtV.other 11) = some 11 := rfl
      simp only [hv, ht, hid, ihr, show isGrease 11 = false from by decide, Bool.not_false, if_true, List.filter_cons]
      simp
    | sigalgs g =>
      have hv : extV (Ext.sigalgs g) = .sigalgs (g.map (·.toNat)) := rfl
      have ht : (Ext.sigalgs g).typeId.toNat = 13 := rfl
      have hid : ∀ x, extId (ExtV.sigalgs x) = some 13 := fun _ => rfl
      simp only [hv, ht, hid, ihr, show isGrease 13 = false from by decide, Bool.not_false, if_true, List.filter_cons]
      simp
    | versions g =>
      have hv : extV (Ext.versions g) = .versions ((g.map (·.toNat)).map unGrease) := rfl
      have ht : (Ext.versions g).typeId.toNat = 43 := rfl
      have hid : ∀ x, extId (ExtV.versions x) = some 43 := fun _ => rfl
      simp only [hv, ht, hid, ihr, show isGrease 43 = false from by decide, Bool.not_false, if_true, List.filter_cons]
      simp

theorem alpn_none (es : List Ext) (acc : Bytes) (h : es.filter isAlpnE = []) : (es.map extV).foldl alpnStep acc = acc := by
  induction es generalizing acc with
  | nil => rfl
  | cons e r ih =>
    cases e with
    | alpn ps => simp [isAlpnE] at h
    | raw t b =>
      simp only [List.filter_cons, isAlpnE] at h
      simp only [List.map_cons, List.foldl_cons]
      have : alpnStep acc (extV (Ext.raw t b)) = acc := by cases hg : isGrease t.toNat <;> simp [extV, hg, alpnStep]
      rw [this]; exact ih acc (by simpa using h)
    | _ =>
      simp only [List.filter_cons, isAlpnE] at h
      simp only [List.map_cons, List.foldl_cons, extV, alpnStep]
      exact ih acc (by simpa using h)

theorem alpn_eq (h : Hello) (hu : ((h.exts.getD []).filter isAlpnE).length ≤ 1) :
    firstALPN (viewOf h) = Spec.JA4.alpnCode (Spec.JA4.firstALPNValue h) := by
  unfold firstALPN Spec.JA4.firstALPNValue Spec.JA4.extsOf viewOf
  show alpnCode _ = alpnCode _
  congr 1
  simp only
  generalize h.exts.getD [] = es at hu
  induction es with
  | nil => rfl
  | cons e r ih =>
    cases e with
    | alpn ps =>
      have hr : r.filter isAlpnE = [] := by
        simp only [List.filter_cons, isAlpnE, if_true, List.length_cons] at hu
        exact List.eq_nil_of_length_eq_zero (by omega)
      simp only [List.map_cons, List.foldl_cons, extV, List.findSome?_cons]
      rw [alpn_none r _ hr]
      cases ps <;> rfl
    | raw t b =>
      have hu' : (r.filter isAlpnE).length ≤ 1 := by simpa [List.filter_cons, isAlpnE] using hu
      have := ih hu'
      simp only [List.map_cons, List.foldl_cons, List.findSome?_cons]
      have hs : alpnStep [] (extV (Ext.raw t b)) = [] := by cases hg : isGrease t.toNat <;> simp [extV, hg, alpnStep]
      rw [hs]; exact this
    | _ =>
      have hu' : (r.filter isAlpnE).length ≤ 1 := by simpa [List.filter_cons, isAlpnE] using hu
      have := ih hu'
      simp only [List.map_cons, List.foldl_cons, extV, alpnStep, List.findSome?_cons]
      exact this

theorem sig_eq (h : Hello) : sigAlgList (viewOf h) = Spec.JA4.sigAlgs h := by
  unfold sigAlgList Spec.JA4.sigAlgs Spec.JA4.extsOf viewOf Spec.JA4.grease
  simp only
  generalize h.exts.getD [] = es
  induction es with
  | nil => rfl
  | cons e r ih =>
    simp only [List.map_cons, List.flatMap_cons, List.filter_append, ih]
    congr 1
    cases e with
    | raw t b => cases hg : isGrease t.toNat <;> simp [extV, hg, sigOf]
    | _ => simp [extV, sigOf]

/-- `ja4String` of the parsed view is the specification's JA4 of the hello -/
theorem ja4_view_eq_spec (T : Bytes → Bytes) (h : Hello) (hwf : ∀ e ∈ h.exts.getD [], ExtWF4 e)
    (huv : ((h.exts.getD []).filter isVersE).length ≤ 1) (hua : ((h.exts.getD []).filter isAlpnE).length ≤ 1) :
    ja4String T (viewOf h) = Spec.JA4.ja4Spec T h := by
  unfold ja4String Spec.JA4.ja4Spec ja4a Spec.JA4.partA ja4bInput Spec.JA4.partBInput ja4cInput Spec.JA4.partCInput
  rw [version_eq h huv, sni_eq h, nCiphers_eq h, nExts_eq h, alpn_eq h hua, cipherList_eq h, extList_eq h hwf, sig_eq h]

end Fp.JA4
