import FpVerif.Model.Common
namespace Fp

theorem digit_isDigit (d : Nat) : isDigitByte (digit d) = true := by
  have h : d % 10 < 10 := Nat.mod_lt _ (by decide)
  unfold digit isDigitByte
  generalize d % 10 = k at h
  have : k = 0 ∨ k = 1 ∨ k = 2 ∨ k = 3 ∨ k = 4 ∨ k = 5 ∨ k = 6 ∨ k = 7 ∨ k = 8 ∨ k = 9 := by omega
  rcases this with h|h|h|h|h|h|h|h|h|h <;> subst h <;> decide

theorem decAux_spec (fuel n : Nat) (acc : Bytes) :
    ∃ ds, decAux fuel n acc = ds ++ acc ∧ (∀ b ∈ ds, isDigitByte b = true) ∧ (0 < fuel → ds ≠ []) := by
  induction fuel generalizing n acc with
  | zero => exact ⟨[], by simp [decAux]⟩
  | succ f ih =>
    unfold decAux
    split
    · exact ⟨[digit n], by simp [digit_isDigit]⟩
    · obtain ⟨ds, h1, h2, _⟩ := ih (n / 10) (digit n :: acc)
      refine ⟨ds ++ [digit n], by simp [h1], ?_, by simp⟩
      intro b hb
      rcases List.mem_append.mp hb with hb | hb
      · exact h2 b hb
      · simp at hb; subst hb; exact digit_isDigit n

theorem dec_ne_nil (n : Nat) : dec n ≠ [] := by
  obtain ⟨ds, h1, _, h3⟩ := decAux_spec (n + 1) n []
  unfold dec; rw [h1]; simpa using h3 (by omega)

theorem dec_all_digits (n : Nat) : ∀ b ∈ dec n, isDigitByte b = true := by
  obtain ⟨ds, h1, h2, _⟩ := decAux_spec (n + 1) n []
  unfold dec; rw [h1]; simpa using h2

theorem not_digit_not_mem_dec (c : UInt8) (hc : isDigitByte c = false) (n : Nat) : c ∉ dec n := by
  intro h; have := dec_all_digits n c h; simp [hc] at this

theorem dec_getLast_isDigit (n : Nat) : ∀ c, (dec n).getLast? = some c → isDigitByte c = true := by
  intro c h
  exact dec_all_digits n c (List.mem_of_getLast? h)

end Fp
