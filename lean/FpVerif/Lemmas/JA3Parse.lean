/-
`parseBasic` (the mirror of tlsx's ClientHelloBasic.Unmarshal) inverts `Tls.serialize` on well-formed hellos:
the JA3 path reads exactly the fields JA3 is defined over, for every hello shape.
-/
import FpVerif.Spec.JA3
set_option linter.unusedSimpArgs false
set_option linter.unusedVariables false
namespace Fp.JA3
open Fp Fp.Tls Fp.Spec.JA3

theorem u16be_hi_lo (v : UInt16) : u16be (u16hi v) (u16lo v) = v := by
  apply UInt16.toBitVec_inj.mp
  simp only [u16be, u16hi, u16lo, UInt16.toBitVec_or, UInt16.toBitVec_shiftLeft, UInt8.toBitVec_toUInt16,
    UInt16.toBitVec_toUInt8, UInt16.toBitVec_shiftRight]
  ext i hi
  simp
  by_cases h8 : i < 8
  · simp [h8, BitVec.getLsbD]
    rfl
  · have e : 8 + (i - 8) = i := by omega
    have h2 : i - 8 < 8 := by omega
    simp [h8, h2, e]
    rfl

theorem idx_append_right (a b : Bytes) (i : Nat) : idx (a ++ b) (a.length + i) = idx b i := by
  unfold idx
  rw [List.getElem?_append_right (by omega)]
  simp

theorem idx_cons_succ (x : UInt8) (l : Bytes) (i : Nat) : idx (x :: l) (i + 1) = idx l i := by
  unfold idx; simp

theorem idx_cons_zero (x : UInt8) (l : Bytes) : idx (x :: l) 0 = pure x := by
  unfold idx; simp

/-- reading `xs.length` big-endian pairs at offset `pre.length` gives back `xs` -/
theorem readU16s_spec : ∀ (xs : List UInt16) (pre post : Bytes),
    readU16s (pre ++ u16sBytes xs ++ post) pre.length xs.length = .ok xs := by
  intro xs
  induction xs with
  | nil => intro pre post; rfl
  | cons x r ih =>
    intro pre post
    unfold readU16s
    rw [List.length_cons, List.range_succ_eq_map, List.mapM_cons]
    have hbytes : u16sBytes (x :: r) = [u16hi x, u16lo x] ++ u16sBytes r := by simp [u16sBytes]
    have e0 : idx (pre ++ u16sBytes (x :: r) ++ post) (pre.length + 2 * 0) = pure (u16hi x) := by
      rw [hbytes, List.append_assoc, idx_append_right]
      simp [idx]
    have e1 : idx (pre ++ u16sBytes (x :: r) ++ post) (pre.length + 2 * 0 + 1) = pure (u16lo x) := by
      rw [hbytes, List.append_assoc, Nat.add_assoc, idx_append_right]
      simp [idx]
    rw [e0, e1]
    simp only [pure_bind, u16be_hi_lo]
    -- the remaining reads, shifted by one pair
    have hrest : List.mapM (fun i => do
          let a ← idx (pre ++ u16sBytes (x :: r) ++ post) (pre.length + 2 * i)
          let b ← idx (pre ++ u16sBytes (x :: r) ++ post) (pre.length + 2 * i + 1)
          pure (u16be a b)) (List.map Nat.succ (List.range r.length)) = (.ok r : M (List UInt16)) := by
      rw [List.mapM_map]
      have := ih (pre ++ [u16hi x, u16lo x]) post
      unfold readU16s at this
      have hl : (pre ++ [u16hi x, u16lo x]).length = pre.length + 2 := by simp
      rw [hl] at this
      have hsame : pre ++ [u16hi x, u16lo x] ++ u16sBytes r ++ post = pre ++ u16sBytes (x :: r) ++ post := by
        rw [hbytes]; simp
      rw [hsame] at this
      rw [← this]
      apply congrArg (fun f => List.mapM f (List.range r.length))
      funext i
      simp only [Function.comp, Nat.succ_eq_add_one]
      have a1 : pre.length + 2 * (i + 1) = pre.length + 2 + 2 * i := by omega
      have a2 : pre.length + 2 * (i + 1) + 1 = pre.length + 2 + 2 * i + 1 := by omega
      rw [a1]
    rw [hrest]
    rfl

theorem be16_val (n : Nat) (h : n < 65536) : (UInt8.ofNat (n / 256)).toNat * 256 + (UInt8.ofNat n).toNat = n := by
  simp only [UInt8.toNat_ofNat']; omega

theorem u8_val (n : Nat) (h : n < 256) : (UInt8.ofNat n).toNat = n := by
  simp only [UInt8.toNat_ofNat']; omega

/-! ### the extension bodies -/

/-- the server_name loop accepts a well-formed list of names -/
theorem sniLoop_ok : ∀ (names : List (UInt8 × Bytes)), (∀ e ∈ names, e.2.length < 65536) →
    sniLoop (names.flatMap sniEntry) = .ok () := by
  intro names
  induction names with
  | nil => intro _; rw [List.flatMap_nil, sniLoop]; rfl
  | cons e r ih =>
    intro h
    have he := h e (by simp)
    have e1 : (e :: r).flatMap sniEntry =
        e.1 :: UInt8.ofNat (e.2.length / 256) :: UInt8.ofNat e.2.length :: (e.2 ++ r.flatMap sniEntry) := by
      simp [sniEntry, be16]
    rw [e1, sniLoop]
    rw [be16_val _ he]
    have : e.2.length ≤ (e.2 ++ r.flatMap sniEntry).length := by simp
    rw [if_pos this, List.drop_left' rfl]
    exact ih (fun x hx => h x (by simp [hx]))

/-- what one extension contributes to the parsed hello -/
def extEffect (b : Basic) (e : Ext) : Basic :=
  match e with
  | .groups gs => { b with exts := b.exts ++ [e.typeId], groups := gs }
  | .points ps => { b with exts := b.exts ++ [e.typeId], points := ps }
  | _ => { b with exts := b.exts ++ [e.typeId] }

/-- an extension the parser handles as intended: bodies fit their length fields (tlsx evaluates `4+length` in
uint16), a raw extension does not claim one of the three interpreted types, and the server_name list length is
not one the tlsx typo (`data[0]<<8 | data[0]`, finding D8) rejects -/
def ExtWF : Ext → Prop
  | .sni names => (names.flatMap sniEntry).length < 65530 ∧ (∀ e ∈ names, e.2.length < 65536) ∧
      (names.flatMap sniEntry).length / 256 * 257 ≤ (names.flatMap sniEntry).length
  | .groups gs => 2 * gs.length < 65530
  | .points ps => ps.length < 256
  | .alpn ps => (ps.flatMap alpnEntry).length < 65530
  | .sigalgs gs => 2 * gs.length < 65530
  | .versions vs => 2 * vs.length < 256
  | .raw t body => t ≠ 0 ∧ t ≠ 10 ∧ t ≠ 11 ∧ body.length < 65532

theorem u16sBytes_length (xs : List UInt16) : (u16sBytes xs).length = 2 * xs.length := by
  induction xs with
  | nil => rfl
  | cons x r ih => simp [u16sBytes] at ih ⊢; omega

theorem body_length_lt (e : Ext) (h : ExtWF e) : e.body.length < 65532 := by
  cases e with
  | sni names =>
    simp only [Ext.body, be16, List.length_append, List.length_cons, List.length_nil]; have := h.1; omega
  | groups gs => simp [Ext.body, be16, u16sBytes_length]; have : 2 * gs.length < 65530 := h; omega
  | points ps => simp [Ext.body]; have : ps.length < 256 := h; omega
  | alpn ps =>
    simp only [Ext.body, be16, List.length_append, List.length_cons, List.length_nil]
    have : (ps.flatMap alpnEntry).length < 65530 := h; omega
  | sigalgs gs => simp [Ext.body, be16, u16sBytes_length]; have : 2 * gs.length < 65530 := h; omega
  | versions vs => simp [Ext.body, u16sBytes_length]; have : 2 * vs.length < 256 := h; omega
  | raw t body => exact h.2.2.2

theorem parseExtBody_spec (b : Basic) (e : Ext) (h : ExtWF e) :
    parseExtBody { b with exts := b.exts ++ [e.typeId] } e.typeId e.body = .ok (extEffect b e) := by
  cases e with
  | sni names =>
    obtain ⟨h1, h2, h3⟩ := h
    have key : ∀ (l : Bytes), l.length < 65530 → l.length / 256 * 257 ≤ l.length → sniLoop l = .ok () →
        parseExtBody { b with exts := b.exts ++ [(0 : UInt16)] } 0 (be16 l.length ++ l) =
          .ok { b with exts := b.exts ++ [(0 : UInt16)] } := by
      intro l h1 h3 hs
      unfold parseExtBody
      simp only [if_true]
      have hlen : ¬ (be16 l.length ++ l).length < 2 := by simp [be16]
      have hi0 : idx (be16 l.length ++ l) 0 = pure (UInt8.ofNat (l.length / 256)) := by simp [be16, idx]
      have hdrop : (be16 l.length ++ l).drop 2 = l := by simp [be16]
      have hd0 : (UInt8.ofNat (l.length / 256)).toNat = l.length / 256 := u8_val _ (by omega)
      simp only [hlen, if_false, hi0, pure_bind, hdrop, hd0]
      have hnot : ¬ l.length < l.length / 256 * 256 + l.length / 256 := by omega
      rw [if_neg hnot, hs]
      rfl
    exact key _ h1 h3 (sniLoop_ok names h2)
  | groups gs =>
    have hg : 2 * gs.length < 65530 := h
    unfold parseExtBody
    have t0 : ¬ ((10 : UInt16) = 0) := by decide
    simp only [Ext.typeId, t0, if_false, if_true, Ext.body]
    have hbl := u16sBytes_length gs
    have hlen : ¬ (be16 (u16sBytes gs).length ++ u16sBytes gs).length < 2 := by simp [be16]
    have hi0 : idx (be16 (u16sBytes gs).length ++ u16sBytes gs) 0 = pure (UInt8.ofNat ((u16sBytes gs).length / 256)) := by
      simp [be16, idx]
    have hi1 : idx (be16 (u16sBytes gs).length ++ u16sBytes gs) 1 = pure (UInt8.ofNat (u16sBytes gs).length) := by
      simp [be16, idx]
    have hdrop : (be16 (u16sBytes gs).length ++ u16sBytes gs).drop 2 = u16sBytes gs := by simp [be16]
    have hv := be16_val (u16sBytes gs).length (by omega)
    simp only [hlen, if_false, hi0, hi1, pure_bind, hdrop, hv, Nat.lt_irrefl]
    have hr := readU16s_spec gs [] []
    simp only [List.nil_append, List.append_nil, List.length_nil] at hr
    have hhalf : (u16sBytes gs).length / 2 = gs.length := by omega
    rw [hhalf, hr]
    rfl
  | points ps =>
    have hp : ps.length < 256 := h
    unfold parseExtBody
    have t0 : ¬ ((11 : UInt16) = 0) := by decide
    have t1 : ¬ ((11 : UInt16) = 10) := by decide
    simp only [Ext.typeId, t0, t1, if_false, if_true, Ext.body]
    have hlen : ¬ (UInt8.ofNat ps.length :: ps).length < 1 := by simp
    have hi0 : idx (UInt8.ofNat ps.length :: ps) 0 = pure (UInt8.ofNat ps.length) := idx_cons_zero _ _
    have hv := u8_val ps.length hp
    simp only [hlen, if_false, hi0, pure_bind, List.drop_succ_cons, List.drop_zero, hv]
    rw [if_neg (by omega), List.take_length]
    rfl
  | alpn ps =>
    unfold parseExtBody
    have t0 : ¬ ((16 : UInt16) = 0) := by decide
    have t1 : ¬ ((16 : UInt16) = 10) := by decide
    have t2 : ¬ ((16 : UInt16) = 11) := by decide
    simp only [Ext.typeId, t0, t1, t2, if_false]
    rfl
  | sigalgs gs =>
    unfold parseExtBody
    have t0 : ¬ ((13 : UInt16) = 0) := by decide
    have t1 : ¬ ((13 : UInt16) = 10) := by decide
    have t2 : ¬ ((13 : UInt16) = 11) := by decide
    simp only [Ext.typeId, t0, t1, t2, if_false]
    rfl
  | versions vs =>
    unfold parseExtBody
    have t0 : ¬ ((43 : UInt16) = 0) := by decide
    have t1 : ¬ ((43 : UInt16) = 10) := by decide
    have t2 : ¬ ((43 : UInt16) = 11) := by decide
    simp only [Ext.typeId, t0, t1, t2, if_false]
    rfl
  | raw t body =>
    obtain ⟨h0, h10, h11, _⟩ := h
    unfold parseExtBody
    simp only [Ext.typeId, h0, h10, h11, if_false]
    rfl

/-! ### the extension loop -/

theorem wire_eq (e : Ext) : e.wire = u16hi e.typeId :: u16lo e.typeId :: UInt8.ofNat (e.body.length / 256) ::
    UInt8.ofNat e.body.length :: e.body := by
  simp [Ext.wire, be16]

/-- one round of the loop consumes exactly one extension -/
theorem extLoop_step (b : Basic) (e : Ext) (rest : Bytes) (h : ExtWF e) :
    extLoop b (e.wire ++ rest) = extLoop (extEffect b e) rest := by
  have hl := body_length_lt e h
  rw [wire_eq]
  simp only [List.cons_append]
  rw [extLoop]
  simp only
  rw [be16_val _ (by omega), u16be_hi_lo]
  have h1 : ¬ (e.body ++ rest).length < e.body.length := by simp
  rw [if_neg h1, if_neg (by omega), List.take_left' rfl, List.drop_left' rfl, parseExtBody_spec b e h]

theorem extLoop_all : ∀ (es : List Ext) (b : Basic), (∀ e ∈ es, ExtWF e) →
    extLoop b (es.flatMap Ext.wire) = .ok (es.foldl extEffect b) := by
  intro es
  induction es with
  | nil => intro b _; rw [List.flatMap_nil, extLoop]; rfl
  | cons e r ih =>
    intro b h
    rw [List.flatMap_cons, extLoop_step b e _ (h e (by simp)), List.foldl_cons]
    exact ih _ (fun x hx => h x (by simp [hx]))

/-- what the loop has accumulated, field by field -/
theorem foldl_extEffect_fields : ∀ (es : List Ext) (b : Basic),
    (es.foldl extEffect b).hsVersion = b.hsVersion ∧ (es.foldl extEffect b).ciphers = b.ciphers ∧
    (es.foldl extEffect b).exts = b.exts ++ es.map Ext.typeId := by
  intro es
  induction es with
  | nil => intro b; simp
  | cons e r ih =>
    intro b
    obtain ⟨h1, h2, h3⟩ := ih (extEffect b e)
    rw [List.foldl_cons, h1, h2, h3]
    cases e <;> simp [extEffect]

def isGroups : Ext → Bool | .groups _ => true | _ => false
def isPoints : Ext → Bool | .points _ => true | _ => false

/-- with at most one supported_groups extension the LAST one (what the parser keeps) is the FIRST one (what the
specification reads) -/
theorem foldl_groups : ∀ (es : List Ext) (b : Basic), (es.filter isGroups).length ≤ 1 →
    (es.foldl extEffect b).groups = match es.findSome? (fun | .groups g => some g | _ => none) with
      | some g => g | none => b.groups := by
  intro es
  induction es with
  | nil => intro b _; rfl
  | cons e r ih =>
    intro b h
    rw [List.foldl_cons]
    cases e with
    | groups gs =>
      simp only [List.filter_cons, isGroups, if_true, List.length_cons] at h
      have hr : (r.filter isGroups).length = 0 := by omega
      have hnone : r.findSome? (fun | .groups g => some g | _ => none) = none := by
        rw [List.findSome?_eq_none_iff]
        intro x hx
        cases x with
        | groups g =>
          have : Ext.groups g ∈ r.filter isGroups := List.mem_filter.mpr ⟨hx, rfl⟩
          rw [List.length_eq_zero_iff.mp hr] at this; cases this
        | _ => rfl
      rw [ih _ (by omega), hnone]
      simp [List.findSome?_cons, extEffect]
    | sni n => simpa [List.findSome?_cons, extEffect, List.filter_cons, isGroups] using ih (extEffect b (.sni n)) (by simpa [List.filter_cons, isGroups] using h)
    | points n => simpa [List.findSome?_cons, extEffect, List.filter_cons, isGroups] using ih (extEffect b (.points n)) (by simpa [List.filter_cons, isGroups] using h)
    | alpn n => simpa [List.findSome?_cons, extEffect, List.filter_cons, isGroups] using ih (extEffect b (.alpn n)) (by simpa [List.filter_cons, isGroups] using h)
    | sigalgs n => simpa [List.findSome?_cons, extEffect, List.filter_cons, isGroups] using ih (extEffect b (.sigalgs n)) (by simpa [List.filter_cons, isGroups] using h)
    | versions n => simpa [List.findSome?_cons, extEffect, List.filter_cons, isGroups] using ih (extEffect b (.versions n)) (by simpa [List.filter_cons, isGroups] using h)
    | raw t n => simpa [List.findSome?_cons, extEffect, List.filter_cons, isGroups] using ih (extEffect b (.raw t n)) (by simpa [List.filter_cons, isGroups] using h)

theorem foldl_points : ∀ (es : List Ext) (b : Basic), (es.filter isPoints).length ≤ 1 →
    (es.foldl extEffect b).points = match es.findSome? (fun | .points g => some g | _ => none) with
      | some g => g | none => b.points := by
  intro es
  induction es with
  | nil => intro b _; rfl
  | cons e r ih =>
    intro b h
    rw [List.foldl_cons]
    cases e with
    | points gs =>
      simp only [List.filter_cons, isPoints, if_true, List.length_cons] at h
      have hr : (r.filter isPoints).length = 0 := by omega
      have hnone : r.findSome? (fun | .points g => some g | _ => none) = none := by
        rw [List.findSome?_eq_none_iff]
        intro x hx
        cases x with
        | points g =>
          have : Ext.points g ∈ r.filter isPoints := List.mem_filter.mpr ⟨hx, rfl⟩
          rw [List.length_eq_zero_iff.mp hr] at this; cases this
        | _ => rfl
      rw [ih _ (by omega), hnone]
      simp [List.findSome?_cons, extEffect]
    | sni n => simpa [List.findSome?_cons, extEffect, List.filter_cons, isPoints] using ih (extEffect b (.sni n)) (by simpa [List.filter_cons, isPoints] using h)
    | groups n => simpa [List.findSome?_cons, extEffect, List.filter_cons, isPoints] using ih (extEffect b (.groups n)) (by simpa [List.filter_cons, isPoints] using h)
    | alpn n => simpa [List.findSome?_cons, extEffect, List.filter_cons, isPoints] using ih (extEffect b (.alpn n)) (by simpa [List.filter_cons, isPoints] using h)
    | sigalgs n => simpa [List.findSome?_cons, extEffect, List.filter_cons, isPoints] using ih (extEffect b (.sigalgs n)) (by simpa [List.filter_cons, isPoints] using h)
    | versions n => simpa [List.findSome?_cons, extEffect, List.filter_cons, isPoints] using ih (extEffect b (.versions n)) (by simpa [List.filter_cons, isPoints] using h)
    | raw t n => simpa [List.findSome?_cons, extEffect, List.filter_cons, isPoints] using ih (extEffect b (.raw t n)) (by simpa [List.filter_cons, isPoints] using h)

/-! ### the whole hello -/

/-- a ClientHello in RFC shape that the tlsx parser reads as intended (the excluded corner is finding D8) -/
def HelloWF (h : Hello) : Prop :=
  h.random.length = 32 ∧ h.sid.length < 256 ∧ 2 * h.ciphers.length ≤ 65532 ∧ h.comp.length < 256 ∧
  match h.exts with
  | none => True
  | some es => (∀ e ∈ es, ExtWF e) ∧ (es.flatMap Ext.wire).length < 65536 ∧
      (es.filter isGroups).length ≤ 1 ∧ (es.filter isPoints).length ≤ 1

theorem parseTail_spec (b : Basic) (comp : Bytes) (exts : Option (List Ext)) (hc : comp.length < 256)
    (he : match exts with
      | none => True
      | some es => (∀ e ∈ es, ExtWF e) ∧ (es.flatMap Ext.wire).length < 65536) :
    parseTail b ((UInt8.ofNat comp.length :: comp) ++ extsBlock exts) = .ok ((exts.getD []).foldl extEffect b) := by
  unfold parseTail
  have hl : ¬ ((UInt8.ofNat comp.length :: comp) ++ extsBlock exts).length < 1 := by simp
  have hi : idx ((UInt8.ofNat comp.length :: comp) ++ extsBlock exts) 0 = pure (UInt8.ofNat comp.length) := by
    simp [idx]
  have hv := u8_val comp.length hc
  have hl2 : ¬ ((UInt8.ofNat comp.length :: comp) ++ extsBlock exts).length < 1 + comp.length := by simp; omega
  have hd : ((UInt8.ofNat comp.length :: comp) ++ extsBlock exts).drop (1 + comp.length) = extsBlock exts := by
    rw [Nat.add_comm]
    simp only [List.cons_append, List.drop_succ_cons]
    exact List.drop_left' rfl
  simp only [hl, if_false, hi, pure_bind, hv, hl2, hd]
  cases exts with
  | none =>
    simp [extsBlock]
    rfl
  | some es =>
    obtain ⟨hwf, hlen⟩ := he
    simp only [extsBlock]
    have hb : ¬ (be16 (es.flatMap Ext.wire).length ++ es.flatMap Ext.wire).length < 2 := by simp [be16]
    have hi0 : idx (be16 (es.flatMap Ext.wire).length ++ es.flatMap Ext.wire) 0 =
        pure (UInt8.ofNat ((es.flatMap Ext.wire).length / 256)) := by simp [be16, idx]
    have hi1 : idx (be16 (es.flatMap Ext.wire).length ++ es.flatMap Ext.wire) 1 =
        pure (UInt8.ofNat (es.flatMap Ext.wire).length) := by simp [be16, idx]
    have hval := be16_val (es.flatMap Ext.wire).length hlen
    have hdrop : (be16 (es.flatMap Ext.wire).length ++ es.flatMap Ext.wire).drop 2 = es.flatMap Ext.wire := by simp [be16]
    have hnl : ¬ (be16 (es.flatMap Ext.wire).length ++ es.flatMap Ext.wire).length < (es.flatMap Ext.wire).length := by
      rw [List.length_append]; omega
    simp only [hb, if_false, hi0, hi1, pure_bind, hval, hnl, hdrop]
    rw [extLoop_all es b hwf]
    rfl

theorem parseCiphers_spec (v : UInt16) (cs : List UInt16) (tail : Bytes) (hc : 2 * cs.length ≤ 65532) :
    parseCiphers v (be16 (u16sBytes cs).length ++ u16sBytes cs ++ tail) =
      parseTail { hsVersion := v, ciphers := cs } tail := by
  unfold parseCiphers
  have hbl := u16sBytes_length cs
  have hl : ¬ (be16 (u16sBytes cs).length ++ u16sBytes cs ++ tail).length < 2 := by simp [be16]
  have hi0 : idx (be16 (u16sBytes cs).length ++ u16sBytes cs ++ tail) 0 = pure (UInt8.ofNat ((u16sBytes cs).length / 256)) := by
    simp [be16, idx]
  have hi1 : idx (be16 (u16sBytes cs).length ++ u16sBytes cs ++ tail) 1 = pure (UInt8.ofNat (u16sBytes cs).length) := by
    simp [be16, idx]
  have hval := be16_val (u16sBytes cs).length (by omega)
  have hnl : ¬ (be16 (u16sBytes cs).length ++ u16sBytes cs ++ tail).length < (u16sBytes cs).length := by
    simp [be16]; omega
  have hr := readU16s_spec cs (be16 (u16sBytes cs).length) tail
  have hpl : (be16 (u16sBytes cs).length).length = 2 := rfl
  rw [hpl] at hr
  have hhalf : (u16sBytes cs).length / 2 = cs.length := by omega
  have hmod : (2 + (u16sBytes cs).length) % 65536 = 2 + (u16sBytes cs).length := Nat.mod_eq_of_lt (by omega)
  have hfrom : from_ (be16 (u16sBytes cs).length ++ u16sBytes cs ++ tail) (2 + (u16sBytes cs).length) = pure tail := by
    unfold from_
    have : 2 + (u16sBytes cs).length ≤ (be16 (u16sBytes cs).length ++ u16sBytes cs ++ tail).length := by simp [be16]; omega
    rw [if_pos this]
    congr 1
    have : (be16 (u16sBytes cs).length ++ u16sBytes cs).length = 2 + (u16sBytes cs).length := by simp [be16]; omega
    rw [← this]
    exact List.drop_left' rfl
  simp only [hl, if_false, hi0, hi1, pure_bind, hval, hnl, hhalf, hr, hmod, hfrom]
  rfl

theorem parseSid_spec (v : UInt16) (sid rest : Bytes) (hs : sid.length < 256) :
    parseSid v ((UInt8.ofNat sid.length :: sid) ++ rest) = parseCiphers v rest := by
  unfold parseSid
  have hl : ¬ ((UInt8.ofNat sid.length :: sid) ++ rest).length < 1 := by simp
  have hi : idx ((UInt8.ofNat sid.length :: sid) ++ rest) 0 = pure (UInt8.ofNat sid.length) := by simp [idx]
  have hv := u8_val sid.length hs
  have hd1 : ((UInt8.ofNat sid.length :: sid) ++ rest).drop 1 = sid ++ rest := by simp
  have hl2 : ¬ (sid ++ rest).length < sid.length := by simp
  simp only [hl, if_false, hi, pure_bind, hd1, hv, hl2, List.drop_left' rfl]

/-- PARSE ∘ SERIALIZE: on every well-formed hello the tlsx mirror reads back exactly what JA3 is defined over -/
theorem parseBasic_serialize (h : Hello) (hw : HelloWF h) : parseBasic (serialize h) = .ok (basicOf h) := by
  obtain ⟨hr, hs, hc, hcomp, hex⟩ := hw
  -- the record as an explicit prefix followed by the parts
  have e : serialize h =
      22 :: u16hi h.recVer :: u16lo h.recVer :: UInt8.ofNat ((handshake h).length / 256) :: UInt8.ofNat (handshake h).length ::
      1 :: UInt8.ofNat ((helloBody h).length / 65536) :: UInt8.ofNat ((helloBody h).length / 256) :: UInt8.ofNat (helloBody h).length ::
      u16hi h.hsVer :: u16lo h.hsVer :: (h.random ++ ((UInt8.ofNat h.sid.length :: h.sid) ++
        (be16 (u16sBytes h.ciphers).length ++ u16sBytes h.ciphers ++ ((UInt8.ofNat h.comp.length :: h.comp) ++ extsBlock h.exts)))) := by
    simp [serialize, handshake, helloBody, be16, be24, List.append_assoc]
  rw [e]
  unfold parseBasic
  simp only [List.length_cons, List.drop_succ_cons, List.drop_zero, idx_cons_zero, idx_cons_succ, pure_bind]
  have n1 : ¬ ((h.random ++ ((UInt8.ofNat h.sid.length :: h.sid) ++ (be16 (u16sBytes h.ciphers).length ++ u16sBytes h.ciphers ++
      ((UInt8.ofNat h.comp.length :: h.comp) ++ extsBlock h.exts)))).length + 1 + 1 + 1 + 1 + 1 + 1 + 1 + 1 + 1 + 1 + 1 < 6) := by omega
  have n2 : ¬ ((h.random ++ ((UInt8.ofNat h.sid.length :: h.sid) ++ (be16 (u16sBytes h.ciphers).length ++ u16sBytes h.ciphers ++
      ((UInt8.ofNat h.comp.length :: h.comp) ++ extsBlock h.exts)))).length + 1 + 1 + 1 + 1 + 1 + 1 < 6) := by omega
  have n3 : ¬ ((h.random ++ ((UInt8.ofNat h.sid.length :: h.sid) ++ (be16 (u16sBytes h.ciphers).length ++ u16sBytes h.ciphers ++
      ((UInt8.ofNat h.comp.length :: h.comp) ++ extsBlock h.exts)))).length < 32) := by simp; omega
  simp only [n1, n2, n3, if_false, ne_eq, not_true_eq_false, u16be_hi_lo]
  have hd32 : (h.random ++ ((UInt8.ofNat h.sid.length :: h.sid) ++ (be16 (u16sBytes h.ciphers).length ++ u16sBytes h.ciphers ++
      ((UInt8.ofNat h.comp.length :: h.comp) ++ extsBlock h.exts)))).drop 32 =
      (UInt8.ofNat h.sid.length :: h.sid) ++ (be16 (u16sBytes h.ciphers).length ++ u16sBytes h.ciphers ++
      ((UInt8.ofNat h.comp.length :: h.comp) ++ extsBlock h.exts)) := List.drop_left' hr
  rw [hd32, parseSid_spec _ _ _ hs, parseCiphers_spec _ _ _ hc]
  have he' : match h.exts with
      | none => True
      | some es => (∀ e ∈ es, ExtWF e) ∧ (es.flatMap Ext.wire).length < 65536 := by
    cases hx : h.exts with
    | none => trivial
    | some es => rw [hx] at hex; exact ⟨hex.1, hex.2.1⟩
  rw [parseTail_spec _ _ _ hcomp he']
  congr 1
  -- field by field
  obtain ⟨f1, f2, f3⟩ := foldl_extEffect_fields (h.exts.getD []) { hsVersion := h.hsVer, ciphers := h.ciphers }
  have hg : ((h.exts.getD []).filter isGroups).length ≤ 1 := by
    cases hx : h.exts with
    | none => simp
    | some es => rw [hx] at hex; exact hex.2.2.1
  have hp : ((h.exts.getD []).filter isPoints).length ≤ 1 := by
    cases hx : h.exts with
    | none => simp
    | some es => rw [hx] at hex; exact hex.2.2.2
  have f4 := foldl_groups (h.exts.getD []) { hsVersion := h.hsVer, ciphers := h.ciphers } hg
  have f5 := foldl_points (h.exts.getD []) { hsVersion := h.hsVer, ciphers := h.ciphers } hp
  generalize (h.exts.getD []).foldl extEffect { hsVersion := h.hsVer, ciphers := h.ciphers } = res at f1 f2 f3 f4 f5
  cases res with
  | mk v c e g p =>
    simp only at f1 f2 f3 f4 f5
    subst f1 f2 f3
    unfold basicOf groupsOf pointsOf
    simp only [List.nil_append, Basic.mk.injEq, true_and]
    refine ⟨?_, ?_⟩
    · rw [f4]; cases (h.exts.getD []).findSome? (fun | .groups g => some g | _ => none) <;> rfl
    · rw [f5]; cases (h.exts.getD []).findSome? (fun | .points g => some g | _ => none) <;> rfl

end Fp.JA3
