#!/bin/sh
# Run once after a fresh restore, offline: build the Lean project (models, theorems, driver), the
# translator and the Go harness (warming the Go build cache). Everything comes from files on disk.
set -e
cd "$(dirname "$0")"
V=$(pwd)
export GOFLAGS=-mod=mod GOPROXY=off GOSUMDB=off GOTOOLCHAIN=local
mkdir -p build evidence replays
(cd extract && go build -o "$V/build/extract" .)
"$V/build/extract" /repo "$V/lean/FpVerif/Gen"
(cd lean && lake build 2>&1 | tail -5)
python3 - <<'PY'
import sys
import os
sys.path.insert(0, os.path.join(os.getcwd(), 'check'))
import lib
ok, out, _ = lib.build_harness()
print('harness build:', 'ok' if ok else out[-2000:])
sys.exit(0 if ok else 1)
PY
