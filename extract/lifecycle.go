package main

import (
	"fmt"
	"go/ast"
	"go/token"
	"strings"
)

// endsWithReturn reports whether a block's last statement is a return.
func endsWithReturn(b *ast.BlockStmt) bool {
	if b == nil || len(b.List) == 0 {
		return false
	}
	_, ok := b.List[len(b.List)-1].(*ast.ReturnStmt)
	return ok
}

// callsNamed collects calls to method `name` anywhere below n, in source order, as "arg1,arg2".
func callsNamed(n ast.Node, name string) []string {
	var out []string
	ast.Inspect(n, func(x ast.Node) bool {
		if ce, ok := x.(*ast.CallExpr); ok {
			if se, ok := ce.Fun.(*ast.SelectorExpr); ok && se.Sel.Name == name {
				var args []string
				for _, a := range ce.Args {
					args = append(args, src(a))
				}
				out = append(out, strings.Join(args, ","))
			}
		}
		return true
	})
	return out
}

// exitPaths enumerates the exit paths of a function whose body is a statement list with early-return
// `if` blocks (the shape of serveConn): for each exit the calls to `name` executed on the way.
func exitPaths(fd *ast.FuncDecl, name string) (paths [][2]string, ok bool) {
	ok = true
	var sofar []string
	for _, s := range fd.Body.List {
		switch v := s.(type) {
		case *ast.IfStmt:
			if endsWithReturn(v.Body) && v.Else == nil {
				calls := append(append([]string{}, sofar...), callsNamed(v.Body, name)...)
				cond := src(v.Cond)
				if v.Init != nil {
					cond = src(v.Init) + ";" + cond
				}
				paths = append(paths, [2]string{"if " + cond, strings.Join(calls, " | ")})
				continue
			}
			// a non-returning branch: calls inside would be conditional
			if c := callsNamed(v, name); len(c) > 0 {
				ok = false
				sofar = append(sofar, "CONDITIONAL("+strings.Join(c, ";")+")")
			}
		case *ast.ReturnStmt:
			paths = append(paths, [2]string{"return", strings.Join(sofar, " | ")})
			return
		case *ast.DeferStmt:
			if c := callsNamed(v, name); len(c) > 0 {
				sofar = append(sofar, "DEFERRED("+strings.Join(c, ";")+")")
			}
		default:
			sofar = append(sofar, callsNamed(s, name)...)
		}
	}
	paths = append(paths, [2]string{"end", strings.Join(sofar, " | ")})
	return
}

// deferForms lists the deferred statements of a function in order with a classification of how (and
// whether) they can stop a panic (Go spec: recover only has an effect when called DIRECTLY by a
// deferred function).
func deferForms(fd *ast.FuncDecl) []string {
	var out []string
	if fd == nil {
		return out
	}
	for _, s := range fd.Body.List {
		ds, ok := s.(*ast.DeferStmt)
		if !ok {
			continue
		}
		form := "call:" + src(ds.Call.Fun)
		if id, ok := ds.Call.Fun.(*ast.Ident); ok && id.Name == "recover" {
			form = "direct-recover-call" // `defer recover()`: recover is not called by a deferred function; no effect
		} else if fl, ok := ds.Call.Fun.(*ast.FuncLit); ok {
			direct := false
			for _, st := range fl.Body.List {
				ast.Inspect(st, func(n ast.Node) bool {
					if _, isLit := n.(*ast.FuncLit); isLit {
						return false // a nested closure's recover() is not a direct call
					}
					if ce, ok := n.(*ast.CallExpr); ok {
						if id, ok := ce.Fun.(*ast.Ident); ok && id.Name == "recover" {
							direct = true
						}
					}
					return true
				})
			}
			if direct {
				form = "closure-calling-recover"
			} else {
				form = "closure"
			}
		}
		out = append(out, form)
	}
	return out
}

func assignments(fd *ast.FuncDecl) []string {
	var out []string
	if fd == nil {
		return out
	}
	ast.Inspect(fd.Body, func(n ast.Node) bool {
		if as, ok := n.(*ast.AssignStmt); ok && as.Tok == token.ASSIGN {
			out = append(out, src(as))
		}
		return true
	})
	return out
}

func stmtList(fd *ast.FuncDecl) []string {
	var out []string
	if fd == nil {
		return out
	}
	for _, s := range fd.Body.List {
		out = append(out, src(s))
	}
	return out
}

// genLifecycle: control-flow facts of pkg/proxyserver/proxyserver.go, fingerproxy.go and the per-connection
// goroutines of pkg/http2/server.go (C10, C11, C16, C17).
func genLifecycle() {
	ps := parseFile("pkg/proxyserver/proxyserver.go")
	root := parseFile("fingerproxy.go")
	h2 := parseFile("pkg/http2/server.go")
	sc := findFunc(ps, "Server", "serveConn")
	var paths [][2]string
	pathsOK := false
	if sc != nil {
		paths, pathsOK = exitPaths(sc, "metricsRequestsTotalInc")
	} else {
		issue("lifecycle: serveConn not found")
	}
	if !pathsOK {
		issue("lifecycle: serveConn has a metric call on a conditional, non-returning branch")
	}
	var pl []string
	for _, p := range paths {
		pl = append(pl, fmt.Sprintf("(%s, %s)", leanStr(p[0]), leanStr(p[1])))
	}
	// shutdown watcher: the go func(){...}() in Serve
	var watcher []string
	var acceptErr []string
	if fd := findFunc(ps, "Server", "Serve"); fd != nil {
		ast.Inspect(fd, func(n ast.Node) bool {
			if gs, ok := n.(*ast.GoStmt); ok {
				if fl, ok := gs.Call.Fun.(*ast.FuncLit); ok && len(watcher) == 0 {
					for _, s := range fl.Body.List {
						watcher = append(watcher, src(s))
					}
				}
			}
			if fs, ok := n.(*ast.ForStmt); ok {
				for _, s := range fs.Body.List {
					acceptErr = append(acceptErr, src(s))
				}
			}
			return true
		})
	}
	var sb strings.Builder
	sb.WriteString("-- GENERATED by /verif/extract from /repo/pkg/proxyserver/proxyserver.go, /repo/fingerproxy.go, /repo/pkg/http2/server.go on every run. Do not edit.\n")
	sb.WriteString("namespace Fp.Gen.Lifecycle\n")
	fmt.Fprintf(&sb, "def serveConnPaths : List (String × String) := [%s]\n", strings.Join(pl, ", "))
	fmt.Fprintf(&sb, "def serveConnDefers : List String := [%s]\n", joinQuoted(deferForms(sc)))
	fmt.Fprintf(&sb, "def serveConnStmts : List String := [%s]\n", joinQuoted(stmtList(sc)))
	fmt.Fprintf(&sb, "def runHandlerDefers : List String := [%s]\n", joinQuoted(deferForms(findFunc(h2, "serverConn", "runHandler"))))
	fmt.Fprintf(&sb, "def h2ServeDefers : List String := [%s]\n", joinQuoted(deferForms(findFunc(h2, "serverConn", "serve"))))
	fmt.Fprintf(&sb, "def proxyServerWiring : List String := [%s]\n", joinQuoted(assignments(findFunc(root, "", "defaultProxyServer"))))
	fmt.Fprintf(&sb, "def shutdownWatcher : List String := [%s]\n", joinQuoted(watcher))
	fmt.Fprintf(&sb, "def acceptLoop : List String := [%s]\n", joinQuoted(acceptErr))
	fmt.Fprintf(&sb, "def serveHTTP1Stmts : List String := [%s]\n", joinQuoted(stmtList(findFunc(ps, "Server", "serveHTTP1"))))
	fmt.Fprintf(&sb, "def handshakeWithTimeout : List String := [%s]\n", joinQuoted(stmtList(findFunc(ps, "Server", "tlsHandshakeWithTimeout"))))
	sb.WriteString("end Fp.Gen.Lifecycle\n")
	writeIfChanged(outDir+"/Lifecycle.lean", sb.String())
	facts["lifecycle"] = map[string]any{"serveConnPaths": paths, "serveConnDefers": deferForms(sc), "proxyServerWiring": assignments(findFunc(root, "", "defaultProxyServer")), "shutdownWatcher": watcher}
}
