// Command extract regenerates /verif/lean/FpVerif/Gen/*.lean and facts.json from /repo's working tree.
// Stdlib only (go/parser, go/ast). A source shape it does not recognise is reported as a failed
// obligation ("UNRECOGNISED ...") in facts.json and makes the generated Lean definition differ from
// what the theorems expect; it never falls back to a default.
package main

import (
	"encoding/json"
	"fmt"
	"go/ast"
	"go/parser"
	"go/token"
	"os"
	"path/filepath"
	"sort"
	"strconv"
	"strings"
)

var (
	repo   = "/repo"
	outDir = "/verif/lean/FpVerif/Gen"
	fset   = token.NewFileSet()
	facts  = map[string]any{}
	issues []string
)

func issue(format string, a ...any) { issues = append(issues, fmt.Sprintf(format, a...)) }

func parseFile(rel string) *ast.File {
	f, err := parser.ParseFile(fset, filepath.Join(repo, rel), nil, 0)
	if err != nil {
		issue("parse %s: %v", rel, err)
		return nil
	}
	return f
}

func pos(n ast.Node) string {
	p := fset.Position(n.Pos())
	rel, _ := filepath.Rel(repo, p.Filename)
	return fmt.Sprintf("%s:%d", rel, p.Line)
}

// writeIfChanged avoids touching files whose content is unchanged, so lake does not rebuild.
func writeIfChanged(path string, content string) {
	old, err := os.ReadFile(path)
	if err == nil && string(old) == content {
		return
	}
	if err := os.WriteFile(path, []byte(content), 0o644); err != nil {
		fmt.Fprintln(os.Stderr, "write:", err)
		os.Exit(2)
	}
}

// findVar returns the value expression of a package-level var/const named name.
func findValue(f *ast.File, name string) ast.Expr {
	if f == nil {
		return nil
	}
	for _, d := range f.Decls {
		gd, ok := d.(*ast.GenDecl)
		if !ok {
			continue
		}
		for _, s := range gd.Specs {
			vs, ok := s.(*ast.ValueSpec)
			if !ok {
				continue
			}
			for i, n := range vs.Names {
				if n.Name == name && i < len(vs.Values) {
					return vs.Values[i]
				}
			}
		}
	}
	return nil
}

func findFunc(f *ast.File, recv, name string) *ast.FuncDecl {
	if f == nil {
		return nil
	}
	for _, d := range f.Decls {
		fd, ok := d.(*ast.FuncDecl)
		if !ok || fd.Name.Name != name {
			continue
		}
		r := ""
		if fd.Recv != nil && len(fd.Recv.List) == 1 {
			t := fd.Recv.List[0].Type
			if st, ok := t.(*ast.StarExpr); ok {
				t = st.X
			}
			if id, ok := t.(*ast.Ident); ok {
				r = id.Name
			}
		}
		if r == recv {
			return fd
		}
	}
	return nil
}

func intLit(e ast.Expr) (uint64, bool) {
	switch v := e.(type) {
	case *ast.BasicLit:
		if v.Kind == token.INT {
			n, err := strconv.ParseUint(v.Value, 0, 64)
			return n, err == nil
		}
		if v.Kind == token.CHAR {
			s, err := strconv.Unquote(v.Value)
			if err == nil && len(s) == 1 {
				return uint64(s[0]), true
			}
		}
	case *ast.CallExpr: // byte(45), uint16(3)
		if len(v.Args) == 1 {
			return intLit(v.Args[0])
		}
	case *ast.ParenExpr:
		return intLit(v.X)
	}
	return 0, false
}

func strLit(e ast.Expr) (string, bool) {
	if b, ok := e.(*ast.BasicLit); ok && b.Kind == token.STRING {
		s, err := strconv.Unquote(b.Value)
		return s, err == nil
	}
	return "", false
}

func leanStr(s string) string { return strconv.Quote(s) }

func exprString(e ast.Expr) string {
	var sb strings.Builder
	ast.Inspect(e, func(n ast.Node) bool { return true })
	// cheap printer
	switch v := e.(type) {
	case *ast.Ident:
		return v.Name
	case *ast.SelectorExpr:
		return exprString(v.X) + "." + v.Sel.Name
	case *ast.CallExpr:
		args := []string{}
		for _, a := range v.Args {
			args = append(args, exprString(a))
		}
		return exprString(v.Fun) + "(" + strings.Join(args, ",") + ")"
	case *ast.BasicLit:
		return v.Value
	case *ast.StarExpr:
		return "*" + exprString(v.X)
	case *ast.UnaryExpr:
		return v.Op.String() + exprString(v.X)
	case *ast.BinaryExpr:
		return exprString(v.X) + v.Op.String() + exprString(v.Y)
	case *ast.ParenExpr:
		return "(" + exprString(v.X) + ")"
	case *ast.IndexExpr:
		return exprString(v.X) + "[" + exprString(v.Index) + "]"
	case *ast.CompositeLit:
		return exprString(v.Type) + "{…}"
	case *ast.FuncLit:
		return "func{…}"
	case *ast.ArrayType:
		return "[]" + exprString(v.Elt)
	case nil:
		return ""
	}
	_ = sb
	return fmt.Sprintf("<%T>", e)
}

func main() {
	if len(os.Args) > 1 {
		repo = os.Args[1]
	}
	if len(os.Args) > 2 {
		outDir = os.Args[2]
	}
	os.MkdirAll(outDir, 0o755)
	genJA3()
	genCapture()
	genH2Fp()
	genProxy()
	genJA4()
	genLifecycle()
	genShared()
	genFlow()
	genHpack()
	genFrame()
	genH2Resp()
	genSched()
	facts["issues"] = issues
	keys := make([]string, 0, len(facts))
	for k := range facts {
		keys = append(keys, k)
	}
	sort.Strings(keys)
	b, _ := json.MarshalIndent(facts, "", " ")
	writeIfChanged(filepath.Join(outDir, "facts.json"), string(b)+"\n")
	for _, i := range issues {
		fmt.Println("ISSUE:", i)
	}
}
