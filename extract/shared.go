package main

import (
	"fmt"
	"go/ast"
	"go/parser"
	"go/token"
	"os"
	"path/filepath"
	"sort"
	"strings"
)

// genShared: every package-level variable of the fingerprinting packages that is WRITTEN outside an
// init function / its own declaration (C06: no connection's data may flow through shared state), and
// how the HTTP/2 capture record is accessed (C07: lock regions).
func genShared() {
	pkgs := []string{"pkg/proxyserver", "pkg/metadata", "pkg/hack", "pkg/fingerprint", "pkg/reverseproxy", "pkg/ja3", "pkg/ja4"}
	var shared []string
	var globals []string
	for _, dir := range pkgs {
		ents, err := os.ReadDir(filepath.Join(repo, dir))
		if err != nil {
			issue("shared: cannot read %s", dir)
			continue
		}
		var files []*ast.File
		for _, e := range ents {
			if !strings.HasSuffix(e.Name(), ".go") || strings.HasSuffix(e.Name(), "_test.go") {
				continue
			}
			f, err := parser.ParseFile(fset, filepath.Join(repo, dir, e.Name()), nil, 0)
			if err != nil {
				issue("shared: parse %s/%s: %v", dir, e.Name(), err)
				continue
			}
			files = append(files, f)
		}
		pkgVars := map[string]bool{}
		for _, f := range files {
			for _, d := range f.Decls {
				if gd, ok := d.(*ast.GenDecl); ok && gd.Tok == token.VAR {
					for _, s := range gd.Specs {
						for _, n := range s.(*ast.ValueSpec).Names {
							if n.Name != "_" {
								pkgVars[n.Name] = true
								globals = append(globals, filepath.Base(dir)+"."+n.Name)
							}
						}
					}
				}
			}
		}
		for _, f := range files {
			for _, d := range f.Decls {
				fd, ok := d.(*ast.FuncDecl)
				if !ok || fd.Body == nil || fd.Name.Name == "init" {
					continue
				}
				// local names shadowing a package variable are treated as the package variable (conservative)
				note := func(e ast.Expr) {
					for {
						switch v := e.(type) {
						case *ast.IndexExpr:
							e = v.X
							continue
						case *ast.SelectorExpr:
							e = v.X
							continue
						case *ast.StarExpr:
							e = v.X
							continue
						}
						break
					}
					if id, ok := e.(*ast.Ident); ok && pkgVars[id.Name] && id.Obj == nil || func() bool {
						id, ok := e.(*ast.Ident)
						return ok && pkgVars[id.Name] && id.Obj != nil && id.Obj.Kind == ast.Var && id.Obj.Decl != nil && isPkgLevel(id.Obj.Decl, files)
					}() {
						id := e.(*ast.Ident)
						shared = append(shared, fmt.Sprintf("%s.%s@%s", filepath.Base(dir), id.Name, fd.Name.Name))
					}
				}
				ast.Inspect(fd.Body, func(n ast.Node) bool {
					switch v := n.(type) {
					case *ast.AssignStmt:
						if v.Tok != token.DEFINE {
							for _, l := range v.Lhs {
								note(l)
							}
						}
					case *ast.IncDecStmt:
						note(v.X)
					}
					return true
				})
			}
		}
	}
	sort.Strings(shared)
	shared = uniq(shared)
	sort.Strings(globals)

	// C07: accesses to the HTTP/2 capture record
	var capture []string
	h2 := parseFile("pkg/http2/server.go")
	if fd := findFunc(h2, "serverConn", "processFrame"); fd != nil {
		var walk func(n ast.Node, locked bool)
		walk = func(n ast.Node, locked bool) {
			ast.Inspect(n, func(x ast.Node) bool {
				if x == nil || x == n {
					return true
				}
				switch v := x.(type) {
				case *ast.CallExpr:
					if se, ok := v.Fun.(*ast.SelectorExpr); ok && se.Sel.Name == "Update" && strings.HasSuffix(src(se.X), "HTTP2Frames") {
						for _, a := range v.Args {
							walk(a, true)
						}
						return false
					}
				case *ast.AssignStmt:
					for _, l := range v.Lhs {
						s := src(l)
						if strings.Contains(s, "HTTP2Frames.") || (locked && strings.HasPrefix(s, "fr.")) {
							field := s[strings.LastIndex(s, ".")+1:]
							state := "unlocked"
							if locked {
								state = "locked"
							}
							capture = append(capture, field+":"+state)
						}
					}
				}
				return true
			})
		}
		walk(fd.Body, false)
	} else {
		issue("shared: processFrame not found")
	}
	md := parseFile("pkg/metadata/http2.go")
	marshalHead := []string{}
	if fd := findFunc(md, "HTTP2FingerprintingFrames", "Marshal"); fd != nil {
		for i, s := range fd.Body.List {
			if i < 2 {
				marshalHead = append(marshalHead, src(s))
			}
		}
	}
	// C06: what the per-connection code of proxyserver writes through the shared *Server: a field of the receiver,
	// or a field of a local variable that merely aliases a receiver field (x := server.f; x.g = ...)
	connWrites := []string{}
	ps := parseFile("pkg/proxyserver/proxyserver.go")
	for _, fn := range [][2]string{{"Server", "serveConn"}, {"Server", "tlsHandshakeWithTimeout"}, {"", "updateConnContext"}} {
		fd := findFunc(ps, fn[0], fn[1])
		if fd == nil {
			issue("shared: %s not found in proxyserver.go", fn[1])
			continue
		}
		recv := ""
		if fd.Recv != nil && len(fd.Recv.List) > 0 && len(fd.Recv.List[0].Names) > 0 {
			recv = fd.Recv.List[0].Names[0].Name
		}
		root := func(e ast.Expr) (string, bool) { // leftmost identifier of a selector / index / deref chain; plain = no call in it
			for {
				switch v := e.(type) {
				case *ast.SelectorExpr:
					e = v.X
					continue
				case *ast.IndexExpr:
					e = v.X
					continue
				case *ast.StarExpr:
					e = v.X
					continue
				case *ast.ParenExpr:
					e = v.X
					continue
				case *ast.Ident:
					return v.Name, true
				}
				return "", false
			}
		}
		alias := map[string]string{}
		ast.Inspect(fd.Body, func(n ast.Node) bool {
			as, ok := n.(*ast.AssignStmt)
			if !ok {
				return true
			}
			for i, l := range as.Lhs {
				if id, ok := l.(*ast.Ident); ok && i < len(as.Rhs) && len(as.Lhs) == len(as.Rhs) {
					// x := server.f  /  x = server.f   (no call, no composite literal, no &T{}): x aliases shared state
					if r, plain := root(as.Rhs[i]); plain && recv != "" && (r == recv || alias[r] != "") {
						if _, isSel := as.Rhs[i].(*ast.SelectorExpr); isSel {
							alias[id.Name] = src(as.Rhs[i])
						}
					}
					continue
				}
				if as.Tok == token.DEFINE {
					continue
				}
				if r, ok := root(l); ok {
					if recv != "" && r == recv {
						connWrites = append(connWrites, fn[1]+":"+src(l))
					} else if a := alias[r]; a != "" {
						connWrites = append(connWrites, fn[1]+":"+src(l)+"<-"+a)
					}
				}
			}
			return true
		})
	}
	var sb strings.Builder
	sb.WriteString("-- GENERATED by /verif/extract from the fingerprinting packages and pkg/http2/server.go on every run. Do not edit.\n")
	sb.WriteString("namespace Fp.Gen.Shared\n")
	fmt.Fprintf(&sb, "def packageVars : List String := [%s]\n", joinQuoted(globals))
	fmt.Fprintf(&sb, "def writtenAfterInit : List String := [%s]\n", joinQuoted(shared))
	fmt.Fprintf(&sb, "def connSharedWrites : List String := [%s]\n", joinQuoted(connWrites))
	fmt.Fprintf(&sb, "def captureWrites : List String := [%s]\n", joinQuoted(capture))
	fmt.Fprintf(&sb, "def marshalHead : List String := [%s]\n", joinQuoted(marshalHead))
	sb.WriteString("end Fp.Gen.Shared\n")
	writeIfChanged(outDir+"/Shared.lean", sb.String())
	facts["shared"] = map[string]any{"writtenAfterInit": shared, "captureWrites": capture, "marshalHead": marshalHead}
}

func isPkgLevel(decl any, files []*ast.File) bool {
	vs, ok := decl.(*ast.ValueSpec)
	if !ok {
		return false
	}
	for _, f := range files {
		for _, d := range f.Decls {
			if gd, ok := d.(*ast.GenDecl); ok {
				for _, s := range gd.Specs {
					if s == ast.Spec(vs) {
						return true
					}
				}
			}
		}
	}
	return false
}

func uniq(xs []string) []string {
	var out []string
	for i, x := range xs {
		if i == 0 || x != xs[i-1] {
			out = append(out, x)
		}
	}
	return out
}
