"""Shared machinery for the per-property checks (see DESIGN.md section 3).

Every check: regenerate Gen/*.lean from /repo -> re-check the property theorems and their axioms ->
build the Go harness from /repo's working tree (overlay, nothing written under /repo) -> run the
correspondence streams (implementation vs Lean driver) and the property oracles -> classify -> evidence.
"""
import fcntl, hashlib, json, os, re, subprocess, sys, time

ROOT = os.path.dirname(os.path.dirname(os.path.abspath(__file__)))
REPO = os.environ.get('VERIF_REPO', '/repo')
LEAN = f'{ROOT}/lean'
BUILD = f'{ROOT}/build'
GOENV = dict(os.environ, GOFLAGS='-mod=mod', GOPROXY='off', GOSUMDB='off', GOTOOLCHAIN='local',
             CGO_ENABLED=os.environ.get('CGO_ENABLED', '1'))
ALLOWED_AXIOMS = {'propext', 'Classical.choice', 'Quot.sound'}
FORBIDDEN = ['sorry', 'admit', 'native_decide', 'bv_decide', 'implemented_by', 'unsafe ', 'maxHeartbeats 0']
TRUSTED_BASE = [
    "Lean 4.33.0 kernel; axioms limited to propext, Classical.choice, Quot.sound (audited per theorem on this run)",
    "translator /verif/extract (go/ast): trusted to print what /repo's source says",
    "correspondence harness /verif/harness (built from /repo's working tree via go -overlay) and its canonicalisation",
    "Go toolchain go1.23.5 and the third-party modules in the module cache",
]


class Lock:
    def __init__(self, name):
        os.makedirs(BUILD, exist_ok=True)
        self.path = f'{BUILD}/{name}.lock'
    def __enter__(self):
        self.f = open(self.path, 'w')
        fcntl.flock(self.f, fcntl.LOCK_EX)
    def __exit__(self, *a):
        fcntl.flock(self.f, fcntl.LOCK_UN)
        self.f.close()


def sh(cmd, cwd=None, env=None, timeout=None, input=None):
    p = subprocess.run(cmd, cwd=cwd, env=env, stdout=subprocess.PIPE, stderr=subprocess.STDOUT,
                       timeout=timeout, input=input, text=True, errors='replace')
    return p.returncode, p.stdout


def code_under_test_panic(out):
    """If the harness process died of a Go panic / fatal error raised INSIDE the code under test (first source frame that
    is neither the Go runtime, a dependency nor the harness itself lies under REPO), return the trace; else None (a
    crash of the harness's own code is a machinery error, not a verdict)."""
    m = re.search(r'^(panic: |fatal error: ).*$', out, re.M)
    if not m:
        return None
    tail = out[m.start():]
    for fm in re.finditer(r'^\s+(/\S+\.go):(\d+)', tail, re.M):
        path = fm.group(1)
        if not path.startswith(REPO + '/'):
            continue            # runtime / standard library / module cache
        if '/cmd/zzverif/' in path or 'zz_verif' in os.path.basename(path):
            return None         # the harness's own code raised it
        return {'panic': m.group(0)[:300], 'at': f'{os.path.relpath(path, REPO)}:{fm.group(2)}', 'trace': tail[:4000]}
    return None


RACE_OWN = ('/pkg/metadata/', '/pkg/fingerprint/', '/pkg/ja3/', '/pkg/ja4/', '/pkg/hack/', '/pkg/proxyserver/',
            '/pkg/reverseproxy/', '/pkg/certwatcher/', '/pkg/debug/')


def race_concerns_fingerprint_data(report):
    """C01-C07 speak of the data captured from a connection and of what is forwarded: a race report counts for them when
    one of the two conflicting accesses happens — within its first three frames — in the project's own packages
    (capture, metadata, fingerprint functions, proxy server, reverse-proxy handler, root package) or in
    serverConn.processFrame, where the HTTP/2 frames are recorded. Races entirely inside the vendored HTTP/2 machinery
    (e.g. the HPACK encoder) are not about that data."""
    stacks = re.split(r'\n\s*\n', report)
    for st in stacks:
        if not re.search(r'(Read|Write|read|write) at 0x', st):
            continue
        lines = st.split('\n')
        frames = []
        for k, l in enumerate(lines):
            m = re.match(r'^\s+(/\S+\.go):(\d+)', l)
            if m and k > 0:
                frames.append((lines[k - 1].strip(), m.group(1)))
        for fn, path in frames[:3]:
            if path.startswith(REPO + '/') and (any(x in path for x in RACE_OWN) or os.path.dirname(path) == REPO):
                return True
            if 'serverConn).processFrame' in fn:
                return True
    return False


def newer(src_paths, target):
    if not os.path.exists(target):
        return True
    t = os.path.getmtime(target)
    for s in src_paths:
        for d, _, fs in os.walk(s):
            for f in fs:
                if os.path.getmtime(os.path.join(d, f)) > t:
                    return True
    return False


def regen():
    """Run the translator over /repo's working tree. Returns (issues, facts)."""
    with Lock('go'):
        if newer([f'{ROOT}/extract'], f'{BUILD}/extract'):
            rc, out = sh(['go', 'build', '-o', f'{BUILD}/extract', '.'], cwd=f'{ROOT}/extract', env=GOENV)
            if rc != 0:
                raise MachineryError('extract build failed:\n' + out)
    with Lock('lake'):
        rc, out = sh([f'{BUILD}/extract', REPO, f'{LEAN}/FpVerif/Gen'])
    if rc != 0:
        raise MachineryError('extract failed:\n' + out)
    facts = json.load(open(f'{LEAN}/FpVerif/Gen/facts.json'))
    return (facts.get('issues') or []), facts


class MachineryError(Exception):
    pass


def lake_build(targets, timeout=3000):
    with Lock('lake'):
        rc, out = sh(['lake', 'build'] + targets, cwd=LEAN, timeout=timeout)
    return rc == 0, out


def lean_errors(out):
    """Extract (file, line, first message line) of errors from lake/lean output."""
    errs = []
    for m in re.finditer(r'^(?:error: )?(\S+\.lean):(\d+):(\d+): error[^:]*: (.*)$', out, re.M):
        errs.append({'file': m.group(1), 'line': int(m.group(2)), 'msg': m.group(4)[:300]})
    # lake's own rendering: "error: <file>:<line>:<col>: <message>"
    for m in re.finditer(r'^error: (\S+\.lean):(\d+):(\d+): (?!error)(.*)$', out, re.M):
        e = {'file': m.group(1), 'line': int(m.group(2)), 'msg': m.group(4)[:300]}
        if not any(x['file'] == e['file'] and x['line'] == e['line'] for x in errs):
            errs.append(e)
    return errs


def theorem_at(path, line):
    """Name of the theorem enclosing `line` of a Lean file (for naming the broken obligation)."""
    name = None
    try:
        for i, l in enumerate(open(path), 1):
            m = re.match(r'\s*(?:theorem|lemma|example|def|instance)\s+(\S+)?', l)
            if m and i <= line:
                name = m.group(1) or f'example@{i}'
            if i > line:
                break
    except OSError:
        pass
    return name


def property_modules(prop):
    """Properties/<prop>.lean and its continuation files Properties/<prop>_*.lean (all in namespace Fp.<prop>)."""
    import glob
    extra = sorted(os.path.basename(f)[:-5] for f in glob.glob(f'{LEAN}/FpVerif/Properties/{prop}_*.lean'))
    return [prop] + extra


def property_theorems(prop):
    """Names of the theorems declared in Properties/<prop>.lean and Properties/<prop>_*.lean (namespace Fp.<prop>)."""
    names, examples = [], 0
    for mod in property_modules(prop):
        src = open(f'{LEAN}/FpVerif/Properties/{mod}.lean').read()
        src_nc = re.sub(r'/-.*?-/', '', src, flags=re.S)
        src_nc = re.sub(r'--.*', '', src_nc)
        names += re.findall(r'^\s*theorem\s+([A-Za-z0-9_\.\']+)', src_nc, re.M)
        examples += len(re.findall(r'^\s*example\b', src_nc, re.M))
    return names, examples


def audit(prop):
    """Re-check Properties/<prop> and print the axioms of every property theorem.
    Returns dict(ok, theorems=[{name, axioms}], examples, errors, forbidden)."""
    names, examples = property_theorems(prop)
    os.makedirs(f'{LEAN}/Audit', exist_ok=True)
    mods = property_modules(prop)
    body = ''.join(f'import FpVerif.Properties.{m}\n' for m in mods) + ''.join(f'#print axioms Fp.{prop}.{n}\n' for n in names)
    apath = f'{LEAN}/Audit/{prop}.lean'
    if not os.path.exists(apath) or open(apath).read() != body:
        open(apath, 'w').write(body)
    ok, out = lake_build([f'FpVerif.Properties.{m}' for m in mods])
    res = {'ok': ok, 'theorems': [], 'examples': examples, 'errors': [], 'forbidden': [], 'bad_axioms': []}
    if not ok:
        res['errors'] = lean_errors(out)
        for e in res['errors']:
            p = e['file'] if os.path.isabs(e['file']) else os.path.join(LEAN, e['file'])
            e['theorem'] = theorem_at(p, e['line'])
        if not res['errors']:
            res['errors'] = [{'file': '?', 'line': 0, 'msg': out[-600:], 'theorem': None}]
        return res
    with Lock('lake'):
        rc, out = sh(['lake', 'env', 'lean', f'Audit/{prop}.lean'], cwd=LEAN, timeout=1200)
    if rc != 0:
        res['ok'] = False
        res['errors'] = lean_errors(out) or [{'file': apath, 'line': 0, 'msg': out[-600:], 'theorem': None}]
        return res
    flat = re.sub(r'\s+', ' ', out)
    for n in names:
        full = f'Fp.{prop}.{n}'
        m = re.search(re.escape(f"'{full}'") + r' depends on axioms: \[([^\]]*)\]', flat)
        if m:
            ax = [a.strip() for a in m.group(1).split(',') if a.strip()]
        elif re.search(re.escape(f"'{full}'") + r' does not depend on any axioms', flat):
            ax = []
        else:
            ax = ['<not-reported>']
        res['theorems'].append({'name': full, 'axioms': ax})
        bad = [a for a in ax if a not in ALLOWED_AXIOMS]
        if bad:
            res['bad_axioms'].append({'theorem': full, 'axioms': bad})
    # forbidden tokens anywhere in the Lean sources (comments stripped)
    for d, _, fs in os.walk(f'{LEAN}/FpVerif'):
        for f in fs:
            if not f.endswith('.lean'):
                continue
            s = open(os.path.join(d, f)).read()
            s = re.sub(r'/-.*?-/', '', s, flags=re.S)
            s = re.sub(r'--.*', '', s)
            for tok in FORBIDDEN:
                if re.search(r'(?<![A-Za-z_])' + re.escape(tok), s):
                    res['forbidden'].append(f'{f}: {tok.strip()}')
            if re.search(r'^\s*axiom\s', s, re.M):
                res['forbidden'].append(f'{f}: axiom')
    if res['bad_axioms'] or res['forbidden']:
        res['ok'] = False
    return res


def build_driver():
    ok, out = lake_build(['fpdriver'])
    if not ok:
        return False, out
    return True, ''


def write_overlay():
    root = f'{ROOT}/harness/overlay'
    rep = {}
    for d, _, fs in os.walk(root):
        for f in fs:
            p = os.path.join(d, f)
            rep[os.path.join(REPO, os.path.relpath(p, root))] = p
    os.makedirs(f'{BUILD}/gomod', exist_ok=True)
    for f in ('go.mod', 'go.sum'):
        src = open(os.path.join(REPO, f)).read()
        dst = f'{BUILD}/gomod/{f}'
        if not os.path.exists(dst) or open(dst).read() != src:
            open(dst, 'w').write(src)
    ov = json.dumps({'Replace': rep}, indent=1, sort_keys=True)
    p = f'{BUILD}/overlay.json'
    if not os.path.exists(p) or open(p).read() != ov:
        open(p, 'w').write(ov)


def go_overlay_args():
    return ['-tags', 'verif', f'-modfile={BUILD}/gomod/go.mod', f'-overlay={BUILD}/overlay.json']


def build_harness(race=False):
    """go build the harness INSIDE /repo's module from the working tree (overlay; /repo is not written)."""
    out_bin = f'{BUILD}/zzverif' + ('-race' if race else '')
    with Lock('go'):
        write_overlay()
        cmd = ['go', 'build'] + go_overlay_args() + (['-race'] if race else []) + ['-o', out_bin, './cmd/zzverif']
        rc, out = sh(cmd, cwd=REPO, env=GOENV, timeout=1200)
    return rc == 0, out, out_bin


def build_http2_test(race=False):
    """go test -c of pkg/http2 with the overlay test harness (zz_verif_test.go) from the working tree."""
    out_bin = f'{BUILD}/http2' + ('-race' if race else '') + '.test'
    with Lock('go'):
        write_overlay()
        cmd = ['go', 'test', '-c', '-vet=off'] + go_overlay_args() + (['-race'] if race else []) + ['-o', out_bin, './pkg/http2']
        rc, out = sh(cmd, cwd=REPO, env=GOENV, timeout=1800)
    return rc == 0, out, out_bin


def exec_http2(test_bin, ops_path, impl_path, shards=12, timeout=3000):
    """Execute an ops file with the pkg/http2 test harness, sharded over processes; writes impl_path."""
    lines = [l for l in open(ops_path).read().split('\n') if l.strip()]
    n = max(1, min(shards, len(lines) // 20 or 1))
    per = (len(lines) + n - 1) // n
    procs = []
    for i in range(n):
        part = lines[i * per:(i + 1) * per]
        if not part:
            continue
        op, ip = f'{ops_path}.s{i}', f'{impl_path}.s{i}'
        open(op, 'w').write('\n'.join(part) + '\n')
        e = dict(os.environ, VERIF_OPS=op, VERIF_OUT=ip, GOMAXPROCS='4')
        if os.environ.get('VERIF_GORACE'):
            e['GORACE'] = os.environ['VERIF_GORACE'] + f'-s{i}'
        pr = subprocess.Popen([test_bin, '-test.run', 'TestVerifExec$', f'-test.timeout={timeout}s'],
                              env=e, stdout=subprocess.PIPE, stderr=subprocess.STDOUT, text=True, errors='replace')
        procs.append((pr, ip, len(part)))
    out_lines = []
    for pr, ip, cnt in procs:
        o, _ = pr.communicate(timeout=timeout + 120)
        got = open(ip).read().split('\n') if os.path.exists(ip) else []
        if got and got[-1] == '':
            got.pop()
        if pr.returncode != 0 or len(got) != cnt:
            # the harness process died mid-way (a panic in the server under test kills it): mark the rest
            got = got + ['harness-crashed'] * (cnt - len(got))
            got = got[:cnt]
            sys.stderr.write(f'http2 harness shard rc={pr.returncode}: {o[-1500:]}\n')
        out_lines += got
    open(impl_path, 'w').write('\n'.join(out_lines) + '\n')


def go_test(pkg, run, race=False, timeout=1200, extra_env=None, args=None):
    """go test a repo package with the overlay test files added."""
    with Lock('go'):
        write_overlay()
    cmd = ['go', 'test'] + go_overlay_args() + (['-race'] if race else []) + \
          ['-count=1', '-vet=off', '-run', run, f'-timeout={timeout}s', pkg] + (args or [])
    env = dict(GOENV)
    env.update(extra_env or {})
    return sh(cmd, cwd=REPO, env=env, timeout=timeout + 60)


def canon_model(line):
    """Apply the hash parameters: the driver prints md5of:<hex> / sha12of:<hex>; the checker hashes."""
    line = re.sub(r'md5of:(-|[0-9a-f]*)', lambda m: hashlib.md5(bytes.fromhex(m.group(1).replace('-', ''))).hexdigest(), line)
    line = re.sub(r'sha12of:(-|[0-9a-f]*)', lambda m: hashlib.sha256(bytes.fromhex(m.group(1).replace('-', ''))).hexdigest()[:12], line)
    return line


def run_driver(ops_path, out_path):
    with open(ops_path) as fi, open(out_path, 'w') as fo:
        p = subprocess.run([f'{LEAN}/.lake/build/bin/fpdriver'], stdin=fi, stdout=fo, stderr=subprocess.PIPE, timeout=3000)
    if p.returncode != 0:
        raise MachineryError('fpdriver failed: ' + p.stderr.decode()[-500:])


def run_stream(binary, stream, seed, count, tier, workdir, timeout=3000, env=None):
    """Run one harness stream and the driver on the same operations. Returns list of (op, impl, model)."""
    os.makedirs(workdir, exist_ok=True)
    e = dict(os.environ, VERIF_TIER=tier, GOMEMLIMIT='4GiB')
    e.update(env or {})
    rc, out = sh([binary, stream, str(seed), str(count), workdir], env=e, timeout=timeout)
    if rc != 0:
        raise MachineryError(f'harness stream {stream} failed (rc={rc}):\n{out[-2000:]}')
    ops_p, impl_p, model_p = (f'{workdir}/{stream}.{x}' for x in ('ops', 'impl', 'model'))
    run_driver(ops_p, model_p)
    ops = open(ops_p).read().split('\n')
    impl = open(impl_p).read().split('\n')
    model = open(model_p).read().split('\n')
    if ops and ops[-1] == '': ops.pop()
    if impl and impl[-1] == '': impl.pop()
    if model and model[-1] == '': model.pop()
    if not (len(ops) == len(impl) == len(model)):
        raise MachineryError(f'stream {stream}: line counts differ ops={len(ops)} impl={len(impl)} model={len(model)}')
    dist = {}
    dp = f'{workdir}/{stream}.dist'
    if os.path.exists(dp):
        for l in open(dp):
            k, v = l.rsplit(' ', 1)
            dist[k] = int(v)
    return ops, impl, [canon_model(m) for m in model], dist


def load_known(prop):
    p = f'{ROOT}/KNOWN_FINDINGS.json'
    if not os.path.exists(p):
        return []
    return [k for k in json.load(open(p)).get('findings', []) if k['property'] == prop]


class Report:
    """Accumulates obligations, explored cases, violations; writes evidence; prints the verdict."""
    def __init__(self, prop, tier, seed):
        self.prop, self.tier, self.seed = prop, tier, seed
        self.t0 = time.time()
        self.obligations = []      # {name, kind, ok, detail}
        self.evaluations = 0
        self.nontrivial = set()
        self.samples = []
        self.dist = {}
        self.violations = []       # {what, replay}
        self.known_hits = {}       # id -> count
        self.assumptions = []
        self.rule = ''
        self.extra = {}
        self.checker_cmd = f'cd /verif/lean && lake build FpVerif.Properties.{prop} && lake env lean Audit/{prop}.lean'

    def oblige(self, name, kind, ok, detail=''):
        self.obligations.append({'name': name, 'kind': kind, 'ok': bool(ok), 'detail': detail})

    def add_dist(self, d, prefix=''):
        for k, v in d.items():
            self.dist[prefix + k] = self.dist.get(prefix + k, 0) + v

    def case(self, key, nontrivial=True):
        self.evaluations += 1
        if nontrivial:
            self.nontrivial.add(hashlib.sha1(key.encode()).digest()[:8])

    def sample(self, s, limit=6):
        if len(self.samples) < limit:
            self.samples.append(s if len(s) < 600 else s[:600] + '…')

    def violation(self, what, replay_obj, no_input=False):
        os.makedirs(f'{ROOT}/replays', exist_ok=True)
        body = json.dumps(replay_obj, indent=1, sort_keys=True)
        h = hashlib.sha1(body.encode()).hexdigest()[:10]
        path = f'{ROOT}/replays/{self.prop}-{h}.json'
        open(path, 'w').write(body + '\n')
        self.violations.append({'what': what, 'replay': path, 'no_input': no_input})

    def finish(self):
        wall = time.time() - self.t0
        disch = sum(1 for o in self.obligations if o['ok'])
        ev = {
            'property_id': self.prop, 'tier': self.tier, 'seed': self.seed, 'level': 'proof',
            'coverage': {
                'obligations': len(self.obligations), 'discharged': disch,
                'checker_cmd': self.checker_cmd, 'trusted_base': TRUSTED_BASE,
                'evaluations': self.evaluations, 'distinct_nontrivial': len(self.nontrivial),
                'rule': self.rule, 'samples': self.samples or ['(no correspondence cases in this run)'],
                'obligation_list': self.obligations, 'input_distribution': self.dist,
                'known_findings_hit': self.known_hits,
            },
            'assumptions': self.assumptions, 'wall_s': round(wall, 2), 'violations': len(self.violations),
        }
        ev['coverage'].update(self.extra)
        os.makedirs(f'{ROOT}/evidence', exist_ok=True)
        open(f'{ROOT}/evidence/{self.prop}.json', 'w').write(json.dumps(ev, indent=1) + '\n')
        for k, n in self.known_hits.items():
            print(f'KNOWN-FINDING: property={self.prop} {k} ({n} case(s) in this run)')
        for v in self.violations:
            tail = ' no-failing-input-found' if v['no_input'] else ''
            print(f"VIOLATION property={self.prop} replay={v['replay']}{tail}")
            print(f"  {v['what']}")
        print(f'{self.prop} tier={self.tier} seed={self.seed} obligations={disch}/{len(self.obligations)} '
              f'evaluations={self.evaluations} distinct_nontrivial={len(self.nontrivial)} wall={wall:.1f}s '
              f'violations={len(self.violations)}')
        return 1 if self.violations else 0


def proj_e2e(fields, route=True):
    """Projection of an e2e answer line onto the per-request fields a property owns (plus the route)."""
    def f(line):
        out = []
        for t in line.split(' '):
            if t.startswith('R') and '=' in t:
                name, val = t.split('=', 1)
                parts = val.split(';')
                keep = [parts[0]] if route else []
                for p in parts[1:]:
                    k = p.split('=', 1)[0]
                    if k in fields:
                        keep.append(p)
                out.append(name + '=' + ';'.join(keep))
            elif t.startswith(('fail=', 'tok=SERIALIZE', 'h2err=')):
                out.append(t)
        return ' '.join(out)
    return f


def reconcile_any(i, m):
    """A model field `k=any:v1,v2,...` is a SET of admissible values: if the implementation's value for the
    same field of the same request is one of them, the prediction is narrowed to it."""
    if 'any:' not in m:
        return i, m
    it, mt = i.split(' '), m.split(' ')
    imap = {t.split('=', 1)[0]: t for t in it if '=' in t}
    out = []
    for t in mt:
        if t.startswith('R') and '=' in t and 'any:' in t:
            name, val = t.split('=', 1)
            ifields = dict(p.split('=', 1) for p in imap.get(name, '=').split('=', 1)[1].split(';') if '=' in p)
            parts = []
            for p in val.split(';'):
                if '=' in p and p.split('=', 1)[1].startswith('any:'):
                    k, v = p.split('=', 1)
                    cands = v[4:].split(',')
                    parts.append(k + '=' + (ifields[k] if ifields.get(k) in cands else cands[0]))
                else:
                    parts.append(p)
            out.append(name + '=' + ';'.join(parts))
        else:
            out.append(t)
    return i, ' '.join(out)


def multi(f2=None, f1=None):
    """Lift a per-client reconcile (two-argument) or projection (one-argument) to ' || '-separated groups."""
    if f2:
        def g(i, m):
            ig, mg = i.split(' || '), m.split(' || ')
            if len(ig) != len(mg):
                return i, m
            pairs = [f2(a, b) for a, b in zip(ig, mg)]
            return ' || '.join(p[0] for p in pairs), ' || '.join(p[1] for p in pairs)
        return g
    def h(line):
        return ' || '.join(f1(x) for x in line.split(' || '))
    return h
