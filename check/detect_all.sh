#!/bin/sh
# Re-establish the seeded-change table from scratch (validation only, not a registered check).
#   sh check/detect_all.sh [workers]     default 5 workers
# Worker 0 uses /verif and /repo themselves; every other worker gets its own copy of /verif and its own scratch worktree
# of /repo under /tmp/par (removed at the end), so that patches are never applied to the same tree twice at a time.
# Every change is applied (git apply), the property's quick check runs, the tree is restored (git checkout -- .).
set -e
N=${1:-5}
cd /verif
if [ -n "$(git -C /repo status --porcelain --untracked-files=no)" ]; then echo "refusing: /repo has local changes"; exit 2; fi
mkdir -p /tmp/par
ids=${IDS:-$(ls seeded | sort)}
i=0
for w in $(seq 0 $((N - 1))); do : > /tmp/par/list$w; done
for m in $ids; do echo $m >> /tmp/par/list$((i % N)); i=$((i + 1)); done
for w in $(seq 1 $((N - 1))); do
  rm -rf /tmp/par/v$w
  cp -a /verif /tmp/par/v$w
  git -C /repo worktree add --detach /tmp/par/r$w HEAD -q
  sed -i "s#^ROOT = '/verif'#ROOT = '/tmp/par/v$w'#; s#^REPO = '/repo'#REPO = '/tmp/par/r$w'#" /tmp/par/v$w/check/seedrun.py
  ( cd /tmp/par/v$w && VERIF_REPO=/tmp/par/r$w sh -c "for m in \$(cat /tmp/par/list$w); do python3 check/seedrun.py detect \$m 2>&1 | tail -n 1 | cut -c1-200; done" > /tmp/par/w$w.log 2>&1 ) &
done
for m in $(cat /tmp/par/list0); do python3 check/seedrun.py detect $m 2>&1 | tail -n 1 | cut -c1-200; done > /tmp/par/w0.log 2>&1
wait
for w in $(seq 1 $((N - 1))); do
  for m in $(cat /tmp/par/list$w); do cp /tmp/par/v$w/seeded/$m/meta.json seeded/$m/meta.json; done
  git -C /repo worktree remove --force /tmp/par/r$w
done
sed -i 's#/tmp/par/v[0-9]*/#/verif/#g' seeded/*/meta.json
cat /tmp/par/w*.log | grep -c CAUGHT || true
cat /tmp/par/w*.log | grep -v CAUGHT || true
git -C /repo worktree prune
rm -rf /tmp/par
build/extract /repo lean/FpVerif/Gen > /dev/null 2>&1 || true     # detection leaves the regenerated facts stale
git checkout -- evidence
python3 check/seedtable.py | tail -n 1
git -C /repo status --porcelain --untracked-files=no
