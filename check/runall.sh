#!/bin/sh
# Refresh every evidence file by running each claimed check (quick tier) on /repo as it is.
cd "$(dirname "$0")/.."
for p in $(python3 -c "import json; print(' '.join(c['property_id'] for c in json.load(open('MANIFEST.json'))['checks']))"); do
  python3 check/check.py $p --tier ${1:-quick} 2>&1 | grep -E "^(VIOLATION|KNOWN-FINDING|ERROR|C[0-9]+ tier)" | cut -c1-220
done
python3-vt - <<'PY'
import json, jsonschema, glob
sch = json.load(open('/root/.vp/EVIDENCE.schema.json'))
for f in sorted(glob.glob('evidence/*.json')):
    e = json.load(open(f))
    jsonschema.validate(e, sch)
    c = e['coverage']
    assert c['obligations'] == c['discharged'], (f, c['obligations'], c['discharged'])
print('evidence files valid:', len(glob.glob('evidence/*.json')))
PY
