#!/usr/bin/env python3
"""regenerate the table of seeded changes in DESIGN.md from /verif/seeded/*/meta.json"""
import glob, json, os
rows = []
for d in sorted(glob.glob('/verif/seeded/*')):
    m = json.load(open(d + '/meta.json'))
    det = m.get('detection', {})
    caught = sorted(k.split(':')[0] for k, v in det.items() if isinstance(v, dict) and v.get('caught'))
    how = []
    for k, v in det.items():
        if isinstance(v, dict) and v.get('caught'):
            how.append('no-failing-input-found' if any('no-failing-input-found' in l for l in v['violation_lines']) else 'failing input')
    verdict = ('caught by ' + ', '.join(sorted(set(caught))) + ' (' + ', '.join(sorted(set(how))) + ')') if caught else '**missed**'
    if m.get('superseded'):
        verdict = 'not a violation any more: ' + m['superseded']
    files = ', '.join(os.path.basename(f) for f in m.get('files', []))
    summ = (m.get('summary') or '').replace('|', '/').replace('\n', ' ')
    if len(summ) > 150:
        summ = summ[:147] + '...'
    rows.append(f"| {os.path.basename(d)} | {files} | {summ} | {verdict} |")
tab = ['| change | file | what was changed | quick check verdict |', '|---|---|---|---|'] + rows
n_c = sum('**missed**' not in r for r in rows)
tab.append('')
tab.append(f'{n_c} of {len(rows)} caught by a quick check at the time of writing (after the strengthening above).')
p = '/verif/DESIGN.md'
s = open(p).read()
a, b = s.index('<!-- SEEDED-TABLE-BEGIN -->'), s.index('<!-- SEEDED-TABLE-END -->')
s = s[:a] + '<!-- SEEDED-TABLE-BEGIN -->\n' + '\n'.join(tab) + '\n' + s[b:]
open(p, 'w').write(s)
print(n_c, 'of', len(rows))
