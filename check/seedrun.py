#!/usr/bin/env python3
"""Seeded-mutant validation (not a registered check).

  seedrun.py import <prop> <srcdir>     copy <srcdir>/m*/ (patch.diff, demo/, meta.json) to /verif/seeded/<prop>-m*/
  seedrun.py confirm <prop>-m<k> <worktree>
        in the scratch worktree: apply the patch, run the demo's command block (expect failure), undo, run again (expect pass)
  seedrun.py detect <prop>-m<k> [--tier quick|thorough] [--props C01,C04]
        apply the patch to /repo, run the property's check(s), ALWAYS undo with `git checkout -- .`, record the verdict
"""
import json, os, re, shutil, subprocess, sys, time

ROOT = '/verif'
SEEDED = f'{ROOT}/seeded'
REPO = '/repo'
ENV = dict(os.environ, GOFLAGS='-mod=mod', GOPROXY='off', GOSUMDB='off', GOTOOLCHAIN='local')


def sh(cmd, cwd=None, timeout=3600, shell=False):
    p = subprocess.run(cmd, cwd=cwd, env=ENV, stdout=subprocess.PIPE, stderr=subprocess.STDOUT, text=True, timeout=timeout, shell=shell)
    return p.returncode, p.stdout


def load_meta(d):
    p = f'{d}/meta.json'
    return json.load(open(p)) if os.path.exists(p) else {}


def save_meta(d, m):
    json.dump(m, open(f'{d}/meta.json', 'w'), indent=1)


def cmd_import(prop, src):
    os.makedirs(SEEDED, exist_ok=True)
    for k in sorted(os.listdir(src)):
        s = f'{src}/{k}'
        if not os.path.exists(f'{s}/patch.diff'):
            continue
        d = f'{SEEDED}/{prop}-{k}'
        if os.path.exists(d):
            shutil.rmtree(d)
        os.makedirs(d)
        shutil.copy(f'{s}/patch.diff', d)
        if os.path.isdir(f'{s}/demo'):
            shutil.copytree(f'{s}/demo', f'{d}/demo', ignore=shutil.ignore_patterns('*.log'))
        m = load_meta(s)
        m['origin'] = 'sub-agent given only the property text and a scratch worktree'
        save_meta(d, m)
        # drop bulky outputs
        for root, _, files in os.walk(d):
            for f in files:
                fp = os.path.join(root, f)
                if os.path.getsize(fp) > 300_000:
                    os.remove(fp)
        print('imported', d)


def demo_block(readme, wt, orig_wt):
    """the command lines of the README (mkdir / cp / cd / go test / go run, with `\\` continuations), up to the
    section that shows observed output"""
    txt = open(readme).read()
    cut = re.search(r'^#+ .*(Observed|observed|Output|output|Result)', txt, re.M)
    if cut:
        txt = txt[:cut.start()]
    out, cont = [], False
    for raw in txt.split('\n'):
        l = raw.strip().strip('`').strip()
        if cont:
            out[-1] += ' ' + l.rstrip('\\').strip()
            cont = l.endswith('\\')
            continue
        if re.match(r'^(mkdir |cp |cd |GOFLAGS=|go test|go run|export GO)', l):
            if l in out:
                continue
            out.append(l.rstrip('\\').strip())
            cont = l.endswith('\\')
    if not any(re.search(r'\bgo (test|run)\b', l) for l in out):
        return None
    return re.sub(orig_wt, wt, '\n'.join(out))


def cmd_confirm(mid, wt):
    d = f'{SEEDED}/{mid}'
    m = load_meta(d)
    prop = mid.split('-')[0]
    orig_wt = f'/tmp/seed[0-9]*/{prop}/wt'
    readme = f'{d}/demo/README.md'
    block = demo_block(readme, wt, orig_wt) if os.path.exists(readme) else None
    res = {}
    if block is None:
        res['error'] = 'no runnable block found in demo/README.md'
    else:
        block = re.sub(f'/tmp/seed[0-9]*/{prop}/out/{mid.split("-")[1]}/demo', f'{d}/demo', block)
        # keep only command lines; drop `git apply` lines (we do that ourselves) and comments
        lines = [l for l in block.split('\n') if l.strip() and not l.strip().startswith('#') and 'git ' not in l]
        script = 'set +e\nexport GOFLAGS=-mod=mod GOPROXY=off GOSUMDB=off GOTOOLCHAIN=local\n' + '\n'.join(lines) + '\n'
        for phase in ('patched', 'clean'):
            sh(['git', 'checkout', '--', '.'], cwd=wt)
            sh(['git', 'clean', '-fdq'], cwd=wt)
            if phase == 'patched':
                rc, out = sh(['git', 'apply', f'{d}/patch.diff'], cwd=wt)
                if rc != 0:
                    res['error'] = 'patch does not apply in the scratch worktree: ' + out[-300:]
                    break
                rc, out = sh(['go', 'build', './...'], cwd=wt)
                res['build_ok'] = rc == 0
            rc, out = sh(['bash', '-c', script], cwd=f'{d}/demo', timeout=1800)
            failed = bool(re.search(r'^(--- FAIL|FAIL\b|panic:)', out, re.M)) or 'VIOLATED' in out
            passed = (bool(re.search(r'^(ok\s|PASS\b)', out, re.M)) or (rc == 0 and 'holds' in out)) and not failed
            res[phase] = {'demo_failed': failed, 'demo_passed': passed, 'tail': out[-600:]}
        sh(['git', 'checkout', '--', '.'], cwd=wt)
        sh(['git', 'clean', '-fdq'], cwd=wt)
    res['confirmed'] = bool(res.get('build_ok') and res.get('patched', {}).get('demo_failed') and res.get('clean', {}).get('demo_passed'))
    m['confirmation'] = res
    save_meta(d, m)
    print(mid, 'confirmed' if res['confirmed'] else 'NOT CONFIRMED', res.get('error', ''))
    return res['confirmed']


def cmd_detect(mid, tier='quick', props=None):
    d = f'{SEEDED}/{mid}'
    m = load_meta(d)
    prop = mid.split('-')[0]
    props = props or [prop]
    rc, out = sh(['git', 'status', '--porcelain', '--untracked-files=no'], cwd=REPO)
    if out.strip():
        print('refusing: /repo has local changes:', out)
        return
    verdicts = m.setdefault('detection', {})
    try:
        rc, out = sh(['git', 'apply', f'{d}/patch.diff'], cwd=REPO)
        if rc != 0:
            rc, out = sh(['git', 'apply', '-3', f'{d}/patch.diff'], cwd=REPO)
            if rc != 0:
                print(mid, 'patch does not apply to /repo HEAD:', out[-300:])
                verdicts['apply_error'] = out[-300:]
                return
            sh(['git', 'reset', '-q'], cwd=REPO)
        for p in props:
            t0 = time.time()
            rc, out = sh(['python3', f'{ROOT}/check/check.py', p, '--tier', tier], cwd=ROOT, timeout=7200)
            vl = [l for l in out.split('\n') if l.startswith('VIOLATION')]
            detail = [l.strip() for l in out.split('\n') if l.startswith('  ')][:3]
            verdicts[f'{p}:{tier}'] = {'exit': rc, 'violation_lines': vl, 'detail': [x[:400] for x in detail], 'wall_s': round(time.time() - t0, 1),
                                       'caught': rc == 1 and bool(vl)}
            print(mid, p, tier, 'CAUGHT' if rc == 1 and vl else f'missed (exit {rc})', (vl or [''])[0][:160])
    finally:
        sh(['git', 'checkout', '--', '.'], cwd=REPO)
        sh(['git', 'clean', '-fdq', '-e', 'e2e/memtest/memtest'], cwd=REPO)
        save_meta(d, m)
        # the evidence files and replays written while the patch was applied are not evidence of the unchanged tree
        sh(['git', 'checkout', '--', 'evidence'], cwd=ROOT)


if __name__ == '__main__':
    a = sys.argv[1:]
    if a[0] == 'import':
        cmd_import(a[1], a[2])
    elif a[0] == 'confirm':
        cmd_confirm(a[1], a[2])
    elif a[0] == 'detect':
        tier, props = 'quick', None
        if '--tier' in a:
            tier = a[a.index('--tier') + 1]
        if '--props' in a:
            props = a[a.index('--props') + 1].split(',')
        cmd_detect(a[1], tier, props)
