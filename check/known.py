"""Class predicates for KNOWN_FINDINGS.json entries ("match" field -> predicate over the failing operation).
A predicate describes a CLASS OF INPUTS, never a whole property, so a different violation of the same
property is still reported."""
import re


def parse_hello_tok(op):
    toks = dict(t.split('=', 1) for t in op.split()[1:] if '=' in t)
    exts = []
    ex = toks.get('ex', 'none')
    if ex.startswith('list:') and ex[5:]:
        for e in ex[5:].split(','):
            k, rest = e.split('/', 1)
            exts.append((k, rest))
    return toks, exts


def sni_len_typo(op, impl, model):
    """tlsx reads the server_name list length as data[0]<<8|data[0]: a list of length L with
    L mod 256 < L div 256 is rejected (ErrHandshakeExtBadLength) although the hello is well-formed."""
    if not op.startswith(('ja3spec ', 'ja3fpspec ', 'e2e-ja3 ')):
        return False
    _, exts = parse_hello_tok(op)
    for k, rest in exts:
        if k == 'sni':
            L = sum(3 + (len(n) // 2 - 1) for n in rest.split('.') if n)
            if L % 256 < L // 256:
                return 'extBadLength' in impl or impl.startswith('err') or 'absent' in impl
    return False


def swap_keep(op, impl, model):
    """history whose last change to the served paths is a symlinked-directory swap that leaves the old
    directory in place (step s<k>): no inotify event reaches the watcher, the old pair stays served."""
    if not op.startswith('cert '):
        return False
    m = re.search(r'steps=(\S+)', op)
    steps = m.group(1).split(',') if m else []
    return bool(steps) and any(re.fullmatch(r's\d+', st) for st in steps)


def hello_spans_records(op, impl, model):
    """the client re-framed its ClientHello over two TLS records (frag=<n>, n > 0): crypto/tls reassembles the handshake
    message and completes the handshake, the capture is by definition the first record only (C04), so JA3 / JA4 are
    computed from a truncated hello: header missing, or a different value"""
    if not op.startswith(('e2e ', 'e2emulti ')):
        return False
    m = re.search(r'(?:^| )frag=(\d+)', op)
    return bool(m) and int(m.group(1)) > 0


def trailers_after_early_response(op, impl, model):
    """reset-in-flight: the FIRST point where the implementation departs from the specification is a request-trailer
    HEADERS frame (class T/t) on a stream the server itself had closed with RST_STREAM(NO_ERROR) (complete response
    before the request ended), and the implementation's reaction there is a GOAWAY with an error code"""
    if not op.startswith('h2smrif '):
        return False
    m = re.search(r'ev=(\S+)', op)
    if not m:
        return False
    toks = [t for t in m.group(1).split(',') if not t.startswith('M:')]   # (M: client-side encoder change, no frame, no slot)
    io, mo = impl.split('/'), model.split('/')
    early = set()
    for k, t in enumerate(toks):
        a = io[k] if k < len(io) else ''
        b = mo[k] if k < len(mo) else ''
        if a != b:
            f = t[2:].split('.') if t.startswith('H:') else []
            return (len(f) >= 4 and f[3][:1] in ('T', 't') and f[0] in early
                    and any(x.startswith('G') and not x.endswith(':0') for x in a.split('+')))
        for x in a.split('+'):
            mm = re.fullmatch(r'R(\d+):0', x)
            if mm:
                early.add(mm.group(1))
    return False


MATCHERS = {
    'trailers-after-early-response': trailers_after_early_response,
    'clienthello-spans-records': hello_spans_records,
    'symlink-swap-without-delete': swap_keep,
    'sni-list-length-typo': sni_len_typo,
}


def match(known_entries, op, impl, model):
    for k in known_entries:
        if k.get('status') != 'known':
            continue
        f = MATCHERS.get(k['match'])
        if f and f(op, impl, model):
            return k['id']
    return None
